(* Line-oriented driver around the extracted model (pegmodel.ml).
   One command per input line, results printed to stdout. *)
open Pegmodel

let rec pos_of_int n = if n = 1 then XH else if n land 1 = 0 then XO (pos_of_int (n lsr 1)) else XI (pos_of_int (n lsr 1))
let z_of_int n = if n = 0 then Z0 else if n > 0 then Zpos (pos_of_int n) else Zneg (pos_of_int (-n))
let rec int_of_pos = function XH -> 1 | XO p -> 2 * int_of_pos p | XI p -> 2 * int_of_pos p + 1
let int_of_z = function Z0 -> 0 | Zpos p -> int_of_pos p | Zneg p -> - (int_of_pos p)
let rec nat_of_int n = if n <= 0 then O else S (nat_of_int (n - 1))
let rec int_of_nat = function O -> 0 | S n -> 1 + int_of_nat n

let split_on c s = String.split_on_char c s |> List.filter (fun x -> x <> "")

(* ---------- sets ---------- *)
let parse_sop s =
  match split_on ' ' s with
  | ["N"] -> ONew
  | ["A"; i; b; e] -> OAddRange (nat_of_int (int_of_string i), z_of_int (int_of_string b), z_of_int (int_of_string e))
  | ["C"; i] -> OCopy (nat_of_int (int_of_string i))
  | ["U"; i; j] -> OUnion (nat_of_int (int_of_string i), nat_of_int (int_of_string j))
  | ["X"; i; l] -> OComplement (nat_of_int (int_of_string i), z_of_int (int_of_string l))
  | _ -> failwith ("bad set op: " ^ s)

let probes = [-1; 0; 1; 2; 3; 4; 5; 6; 7; 8; 9; 10; 0x10FFFE; 0x10FFFF; 0x110000; 0x110001]

let dump_store buf (st : ((z * z) list) list) =
  List.iteri (fun i s ->
    let nodes = String.concat "," (List.map (fun (b, e) -> Printf.sprintf "%d-%d" (int_of_z b) (int_of_z e)) s) in
    let l = int_of_z (x_set_len s) in
    let str = if l <= 64 then "[" ^ String.concat " " (List.map (fun x -> string_of_int (int_of_z x)) (x_set_elements s)) ^ "]" else "big" in
    let has = String.concat "" (List.map (fun x -> if x_set_has s (z_of_int x) then "1" else "0") probes) in
    Buffer.add_string buf (Printf.sprintf " s%d{%s|%d|%s|%s}" i nodes l str has)) st;
  List.iteri (fun i a -> List.iteri (fun j b ->
    Buffer.add_string buf (Printf.sprintf " p%d.%d=%c%c" i j
      (if x_set_intersects a b then 'I' else '-') (if x_set_equal a b then 'E' else '-'))) st) st

let do_set id opss =
  let ops = List.map parse_sop (String.split_on_char ';' opss |> List.filter (fun x -> String.trim x <> "")) in
  (* print the store after every prefix *)
  let buf = Buffer.create 256 in
  Buffer.add_string buf ("set " ^ id);
  let rec prefixes acc = function [] -> () | o :: rest ->
    let acc' = acc @ [o] in
    Buffer.add_string buf " |";
    dump_store buf (x_set_run acc');
    prefixes acc' rest in
  prefixes [] ops;
  print_endline (Buffer.contents buf)

let () =
  try
    while true do
      let line = input_line stdin in
      match String.index_opt line ' ' with
      | None -> ()
      | Some i ->
        let cmd = String.sub line 0 i and rest = String.sub line (i + 1) (String.length line - i - 1) in
        (match cmd with
         | "set" ->
           (match String.index_opt rest ' ' with
            | Some j -> do_set (String.sub rest 0 j) (String.sub rest (j + 1) (String.length rest - j - 1))
            | None -> do_set rest "")
         | _ -> print_endline ("ERR unknown command " ^ cmd))
    done
  with End_of_file -> ()
