(* Line-oriented driver around the extracted model (pegmodel.ml).
   One command per input line, results printed to stdout. *)
open Pegmodel

let rec pos_of_int n = if n = 1 then XH else if n land 1 = 0 then XO (pos_of_int (n lsr 1)) else XI (pos_of_int (n lsr 1))
let z_of_int n = if n = 0 then Z0 else if n > 0 then Zpos (pos_of_int n) else Zneg (pos_of_int (-n))
let rec int_of_pos = function XH -> 1 | XO p -> 2 * int_of_pos p | XI p -> 2 * int_of_pos p + 1
let int_of_z = function Z0 -> 0 | Zpos p -> int_of_pos p | Zneg p -> - (int_of_pos p)
let rec nat_of_int n = if n <= 0 then O else S (nat_of_int (n - 1))
let rec int_of_nat = function O -> 0 | S n -> 1 + int_of_nat n

let split_on c s = String.split_on_char c s |> List.filter (fun x -> x <> "")

(* ---------- sets ---------- *)
let parse_sop s =
  match split_on ' ' s with
  | ["N"] -> ONew
  | ["A"; i; b; e] -> OAddRange (nat_of_int (int_of_string i), z_of_int (int_of_string b), z_of_int (int_of_string e))
  | ["C"; i] -> OCopy (nat_of_int (int_of_string i))
  | ["U"; i; j] -> OUnion (nat_of_int (int_of_string i), nat_of_int (int_of_string j))
  | ["X"; i; l] -> OComplement (nat_of_int (int_of_string i), z_of_int (int_of_string l))
  | _ -> failwith ("bad set op: " ^ s)

let probes = [-1; 0; 1; 2; 3; 4; 5; 6; 7; 8; 9; 10; 0x10FFFE; 0x10FFFF; 0x110000; 0x110001]

let dump_store buf (st : ((z * z) list) list) =
  List.iteri (fun i s ->
    let nodes = String.concat "," (List.map (fun (b, e) -> Printf.sprintf "%d-%d" (int_of_z b) (int_of_z e)) s) in
    let l = int_of_z (x_set_len s) in
    let str = if l <= 64 then "[" ^ String.concat " " (List.map (fun x -> string_of_int (int_of_z x)) (x_set_elements s)) ^ "]" else "big" in
    let has = String.concat "" (List.map (fun x -> if x_set_has s (z_of_int x) then "1" else "0") probes) in
    Buffer.add_string buf (Printf.sprintf " s%d{%s|%d|%s|%s}" i nodes l str has)) st;
  List.iteri (fun i a -> List.iteri (fun j b ->
    Buffer.add_string buf (Printf.sprintf " p%d.%d=%c%c" i j
      (if x_set_intersects a b then 'I' else '-') (if x_set_equal a b then 'E' else '-'))) st) st

let do_set id opss =
  let ops = List.map parse_sop (String.split_on_char ';' opss |> List.filter (fun x -> String.trim x <> "")) in
  (* print the store after every prefix *)
  let buf = Buffer.create 256 in
  Buffer.add_string buf ("set " ^ id);
  let rec prefixes acc = function [] -> () | o :: rest ->
    let acc' = acc @ [o] in
    Buffer.add_string buf " |";
    dump_store buf (x_set_run acc');
    prefixes acc' rest in
  prefixes [] ops;
  print_endline (Buffer.contents buf)


(* ---------- s-expressions ---------- *)
type sexp = Atom of string | L of sexp list

let parse_sexp (s : string) : sexp =
  let n = String.length s in
  let pos = ref 0 in
  let rec skip () = if !pos < n && (s.[!pos] = ' ' || s.[!pos] = '\n' || s.[!pos] = '\t') then (incr pos; skip ()) in
  let rec parse () =
    skip ();
    if !pos >= n then failwith "sexp: eof"
    else if s.[!pos] = '(' then begin
      incr pos;
      let items = ref [] in
      let rec loop () =
        skip ();
        if !pos >= n then failwith "sexp: unclosed"
        else if s.[!pos] = ')' then incr pos
        else (items := parse () :: !items; loop ()) in
      loop (); L (List.rev !items)
    end else begin
      let st = !pos in
      while !pos < n && s.[!pos] <> ' ' && s.[!pos] <> '(' && s.[!pos] <> ')' do incr pos done;
      Atom (String.sub s st (!pos - st))
    end in
  parse ()

let ios = int_of_string
let atom = function Atom a -> a | _ -> failwith "atom expected"

let rec expr_of = function
  | L [Atom "dot"] -> EDot
  | L [Atom "c"; Atom n] -> EChar (z_of_int (ios n))
  | L [Atom "r"; Atom a; Atom b] -> ERange (z_of_int (ios a), z_of_int (ios b))
  | L [Atom "n"; Atom r] -> EName (nat_of_int (ios r))
  | L [Atom "p"; Atom k] -> EPred (nat_of_int (ios k))
  | L [Atom "s"; Atom k] -> EState (nat_of_int (ios k))
  | L [Atom "a"; Atom k] -> EAct (nat_of_int (ios k))
  | L [Atom "nil"] -> ENil
  | L (Atom "seq" :: es) -> ESeq (List.map expr_of es)
  | L (Atom "alt" :: es) -> EAlt (List.map expr_of es)
  | L [Atom "and"; e] -> EAnd (expr_of e)
  | L [Atom "not"; e] -> ENot (expr_of e)
  | L [Atom "q"; e] -> EQuery (expr_of e)
  | L [Atom "star"; e] -> EStar (expr_of e)
  | L [Atom "plus"; e] -> EPlus (expr_of e)
  | L [Atom "push"; e] -> EPush (expr_of e)
  | L (Atom "sw" :: items) ->
      let cases = List.filter_map (function
        | L [Atom "case"; L keys; e] -> Some (List.map (fun k -> z_of_int (ios (atom k))) keys, expr_of e)
        | _ -> None) items in
      let d = List.find_map (function L [Atom "default"; e] -> Some (expr_of e) | _ -> None) items in
      (match d with Some d -> ESwitch (cases, d) | None -> failwith "sw: no default")
  | _ -> failwith "bad expr"

let rule_of = function
  | L [Atom "B"; e] -> RBody (expr_of e)
  | L [Atom "A"; Atom k] -> RAct (nat_of_int (ios k))
  | L [Atom "N"] -> RNil
  | _ -> failwith "bad rule"

let grammars : (string, (rbody list * nat)) Hashtbl.t = Hashtbl.create 64

let do_grammar rest =
  match String.index_opt rest ' ' with
  | None -> failwith "grammar: id"
  | Some i ->
    let gid = String.sub rest 0 i in
    let rest = String.sub rest (i + 1) (String.length rest - i - 1) in
    let j = String.index rest ' ' in
    let ptx = ios (String.sub rest 0 j) in
    (match parse_sexp (String.sub rest (j + 1) (String.length rest - j - 1)) with
     | L (Atom "g" :: rules) -> Hashtbl.replace grammars gid (List.map rule_of rules, nat_of_int ptx)
     | _ -> failwith "grammar: sexp")

let tok_s (r, (b, e)) = Printf.sprintf "%d:%d:%d" (int_of_nat r) (int_of_nat b) (int_of_nat e)
let toks_s l = String.concat "," (List.map tok_s l)
let trace_s l = String.concat "," (List.map (fun (k, (b, e)) -> Printf.sprintf "%d:%d:%d" (int_of_nat k) (int_of_nat b) (int_of_nat e)) l)
let tree_s l = String.concat "," (List.map (fun (d, t) -> Printf.sprintf "%d:%s" (int_of_nat d) (tok_s t)) l)
let runes_s l = String.concat "." (List.map (fun c -> string_of_int (int_of_z c)) l)

let parse_inputs s =
  List.map (fun part -> List.map (fun x -> z_of_int (ios x)) (split_on ',' part))
    (String.split_on_char ';' s)

let obs_s o =
  let err = match o.ob_err with
    | None -> "-"
    | Some (((r, (l1, c1)), (l2, c2)), txt) ->
      Printf.sprintf "%d:%d:%d:%d:%d:%s" (int_of_nat r) (int_of_nat l1) (int_of_nat c1) (int_of_nat l2) (int_of_nat c2) (runes_s txt) in
  Printf.sprintf "st=%d pos=%d toks=%s max=%s trace=%s tree=%s err=%s alog=%s memo=%d"
    (int_of_nat o.ob_status) (int_of_nat o.ob_pos) (toks_s o.ob_tokens) (tok_s o.ob_maxtok)
    (trace_s o.ob_trace) (tree_s o.ob_tree) err (trace_s o.ob_alog) (int_of_nat o.ob_memo)

(* run <gid> <caseid> <ast> <memo> <inline> <entry> <fuel> <inputs> *)
let do_run rest =
  match String.split_on_char ' ' rest with
  | gid :: cid :: ast :: memo :: inl :: entry :: fuel :: tl ->
    let (g, ptx) = Hashtbl.find grammars gid in
    let inputs = parse_inputs (String.concat " " tl) in
    let o = x_mk_opts (ast = "1") (memo = "1") (inl = "1") g in
    let obs = x_run_history g ptx o (nat_of_int (ios fuel)) (nat_of_int (ios entry)) x_zero_state inputs in
    print_endline (Printf.sprintf "run %s %s :: %s" gid cid (String.concat " | " (List.map obs_s obs)))
  | _ -> failwith "run: args"

(* spec <gid> <caseid> <entry> <fuel> <input> *)
let do_spec rest =
  match String.split_on_char ' ' rest with
  | gid :: cid :: entry :: fuel :: tl ->
    let (g, ptx) = Hashtbl.find grammars gid in
    let input = List.hd (parse_inputs (String.concat " " tl)) in
    let r = x_spec_parse g ptx (nat_of_int (ios fuel)) (nat_of_int (ios entry)) input in
    (match r with
     | None -> print_endline (Printf.sprintf "spec %s %s :: res=N" gid cid)
     | Some (res, evs) ->
       let ff = x_first_furthest evs in
       let seen = Hashtbl.create 16 in
       let dup = ref 0 in
       List.iter (fun (r, (b, _)) -> let k = (int_of_nat r, int_of_nat b) in
                   if Hashtbl.mem seen k then incr dup else Hashtbl.add seen k ()) evs;
       (match res with
        (* alog: what a -noast parser's inline actions log (C07): Execute's loop over every event of the attempt *)
        | Fail -> print_endline (Printf.sprintf "spec %s %s :: res=F ff=%s dup=%d nev=%d alog=%s" gid cid (tok_s ff) !dup (List.length evs)
                                   (trace_s (x_execute g ptx evs (O, O))))
        | Succ (p, f) ->
          let ts = x_flat f in
          print_endline (Printf.sprintf "spec %s %s :: res=S pos=%d toks=%s trace=%s dup=%d nev=%d alog=%s" gid cid (int_of_nat p) (toks_s ts)
                           (trace_s (x_execute g ptx ts (O, O))) !dup (List.length evs) (trace_s (x_execute g ptx evs (O, O))))))
  | _ -> failwith "spec: args"

(* gen <gid> <inline> : the generator decisions the model takes *)
let do_gen rest =
  match String.split_on_char ' ' rest with
  | [gid; inl] ->
    let (g, _) = Hashtbl.find grammars gid in
    let it = x_inline_table (inl = "1") g in
    let asu = List.mapi (fun i _ -> x_asu_rule g (nat_of_int i)) g in
    let (reached, counts) = x_count_rules g in
    let bs l = String.concat "" (List.map (fun b -> if b then "1" else "0") l) in
    print_endline (Printf.sprintf "gen %s :: inline=%s asu=%s reached=%s counts=%s wf=%d good=%d swok=%d" gid (bs it) (bs asu) (bs reached)
                     (String.concat "," (List.map (fun c -> string_of_int (int_of_nat c)) counts))
                     (if x_wf_auto g then 1 else 0) (if x_good_grammar_b g then 1 else 0)
                     (if x_swok_b g (inl = "1") then 1 else 0))
  | _ -> failwith "gen: args"

(* printing a grammar back in the syntax the harness uses *)
let rec sexp_of_expr e =
  let zs c = string_of_int (int_of_z c) and ns n = string_of_int (int_of_nat n) in
  let many tag es = "(" ^ tag ^ " " ^ String.concat " " (List.map sexp_of_expr es) ^ ")" in
  match e with
  | EDot -> "(dot)" | EChar c -> "(c " ^ zs c ^ ")" | ERange (a, b) -> "(r " ^ zs a ^ " " ^ zs b ^ ")"
  | EName r -> "(n " ^ ns r ^ ")" | EPred k -> "(p " ^ ns k ^ ")" | EState _ -> "(s 0)" | EAct k -> "(a " ^ ns k ^ ")"
  | ENil -> "(nil)" | ESeq es -> many "seq" es | EAlt es -> many "alt" es
  | EAnd e1 -> "(and " ^ sexp_of_expr e1 ^ ")" | ENot e1 -> "(not " ^ sexp_of_expr e1 ^ ")"
  | EQuery e1 -> "(q " ^ sexp_of_expr e1 ^ ")" | EStar e1 -> "(star " ^ sexp_of_expr e1 ^ ")"
  | EPlus e1 -> "(plus " ^ sexp_of_expr e1 ^ ")" | EPush e1 -> "(push " ^ sexp_of_expr e1 ^ ")"
  | ESwitch (cs, d) ->
    "(sw " ^ String.concat " " (List.map (fun (ks, b) -> "(case (" ^ String.concat " " (List.map zs ks) ^ ") " ^ sexp_of_expr b ^ ")") cs)
    ^ (if cs = [] then "" else " ") ^ "(default " ^ sexp_of_expr d ^ "))"

let sexp_of_grammar g =
  "(g " ^ String.concat " " (List.map (function RBody b -> "(B " ^ sexp_of_expr b ^ ")" | RAct k -> "(A " ^ string_of_int (int_of_nat k) ^ ")" | RNil -> "(N)") g) ^ ")"

(* elab <id> <surface sexp> : the tree the builder makes for a surface expression *)
let schar_of = function
  | L [Atom "c"; Atom v] -> SC (z_of_int (ios v))
  | L (Atom "hex" :: ds) -> SHex (List.map (fun d -> z_of_int (ios (atom d))) ds)
  | L (Atom "oct" :: ds) -> SOct (List.map (fun d -> z_of_int (ios (atom d))) ds)
  | _ -> failwith "schar"
let citem_of = function
  | L [Atom "ci"; c] -> CChar (schar_of c)
  | L [Atom "cr"; a; b] -> CRange (schar_of a, schar_of b)
  | _ -> failwith "citem"
let rec sx_of = function
  | L [Atom "dot"] -> XDot | L [Atom "name"; Atom n] -> XName (nat_of_int (ios n))
  | L [Atom "act"; Atom k] -> XAct (nat_of_int (ios k)) | L [Atom "pred"; Atom k] -> XPred (nat_of_int (ios k))
  | L [Atom "state"; Atom k] -> XState (nat_of_int (ios k)) | L [Atom "nil"] -> XNil
  | L (Atom "lit" :: cs) -> XLit (List.map schar_of cs) | L (Atom "ilit" :: cs) -> XILit (List.map schar_of cs)
  | L (Atom "class" :: Atom neg :: Atom ins :: items) -> XClass (neg = "1", ins = "1", List.map citem_of items)
  | L (Atom "seq" :: l) -> XSeq (List.map sx_of l)
  | L (Atom "alt" :: Atom t :: l) -> XAlt (List.map sx_of l, t = "1")
  | L [Atom "and"; e] -> XAnd (sx_of e) | L [Atom "not"; e] -> XNot (sx_of e) | L [Atom "q"; e] -> XQuery (sx_of e)
  | L [Atom "star"; e] -> XStar (sx_of e) | L [Atom "plus"; e] -> XPlus (sx_of e) | L [Atom "push"; e] -> XPush (sx_of e)
  | L [Atom "group"; e] -> XGroup (sx_of e)
  | _ -> failwith "sx"
let do_elab rest =
  let i = String.index rest ' ' in
  let cid = String.sub rest 0 i in
  let t = sx_of (parse_sexp (String.sub rest (i + 1) (String.length rest - i - 1))) in
  print_endline (Printf.sprintf "elab %s :: ok=%d %s" cid (if x_sx_ok t then 1 else 0)
                   (match x_elab t with Some e -> sexp_of_expr e | None -> "NONE"))

(* ruletype <id> <tree length> *)
let do_ruletype rest =
  match String.split_on_char ' ' rest with
  | [cid; n] ->
    let t = match x_peg_rule_type (z_of_int (ios n)) with U8 -> "uint8" | U16 -> "uint16" | U32 -> "uint32" | U64 -> "uint64" in
    print_endline (Printf.sprintf "ruletype %s :: %s" cid t)
  | _ -> failwith "ruletype"

(* opt <gid> : the model's -switch pass applied to a stored grammar *)
let do_opt rest =
  let gid = String.trim rest in
  let (g, _) = Hashtbl.find grammars gid in
  let (_, stable) = x_fs_table g in
  print_endline (Printf.sprintf "opt %s :: stable=%d,optok=%d %s" gid (if stable then 1 else 0) (if x_opt_ok g then 1 else 0) (sexp_of_grammar (x_optimize g)))


(* emit <gid> <ast> <inline> <undef bits> : the label/block skeleton of every rule function *)
let do_emit rest =
  match String.split_on_char ' ' rest with
  | gid :: ast :: inl :: tl ->
    let (g, _) = Hashtbl.find grammars gid in
    let bits = match tl with [b] -> b | _ -> "" in
    let undef = List.init (String.length bits) (fun i -> bits.[i] = '1') in
    let ni n = string_of_int (int_of_nat n) in
    let ts = function
      | TSt -> "s" | TLbl n -> "L" ^ ni n | TJmp n -> "J" ^ ni n | TCJmp n -> "C" ^ ni n
      | TSave n -> "S" ^ ni n | TRestore n -> "R" ^ ni n | TSaveP n -> "P" ^ ni n | TUseP n -> "U" ^ ni n | TMemo n -> "M" ^ ni n
      | TBrk -> "b" | TOpen -> "{" | TClose -> "}" | TSw -> "sw" | TCase -> "case" | TDflt -> "dflt" | TEndSw -> "end" in
    let slots = x_emit_all g (ast = "1") (inl = "1") undef in
    print_endline (Printf.sprintf "emit %s/%s%s :: %s" gid ast inl
                     (String.concat ";" (List.map (function None -> "nil" | Some l -> String.concat "," (List.map ts l)) slots)))
  | _ -> failwith "emit: args"

(* semit <gid> <ast> <inline> <undef bits> : every rule function with its statements (Model/SEmit.v), and the
   side condition of the theorem that they implement the machine *)
let do_semit rest =
  match String.split_on_char ' ' rest with
  | gid :: ast :: inl :: tl ->
    let (g, ptx) = Hashtbl.find grammars gid in
    let bits = match tl with [b] -> b | _ -> "" in
    let undef = List.init (String.length bits) (fun i -> bits.[i] = '1') in
    let ni n = string_of_int (int_of_nat n) and zi c = string_of_int (int_of_z c) in
    let buf = Buffer.create 4096 in
    let first = ref true in
    let last_s = ref false in
    let put t =
      if t = "s" && !last_s then () else begin
        if not !first then Buffer.add_char buf ',';
        first := false; last_s := (t = "s"); Buffer.add_string buf t end in
    let rec st = function
      | SInc -> put "inc"
      | SCallAsu r -> put ("call" ^ ni r)
      | SState _ -> put "s"
      | SPredSet _ -> put "pred"
      | SAddAct r -> put ("addact" ^ ni r)
      | SLogAct _ -> put "s"
      | SCond (c, l) ->
        put ((match c with
            | QDot -> "Cdot" | QChar c -> "Cc" ^ zi c | QRange (lo, hi) -> "Cr" ^ zi lo ^ "-" ^ zi hi
            | QCall r -> "Ccall" ^ ni r | QPred -> "Cpred") ^ ":" ^ ni l)
      | SLbl n -> put ("L" ^ ni n) | SJmp n -> put ("J" ^ ni n) | SSave n -> put ("S" ^ ni n) | SRestore n -> put ("R" ^ ni n)
      | SSaveP n -> put ("P" ^ ni n)
      | SAddRule (r, n) -> put ("add" ^ ni r ^ ":" ^ ni n)
      | SCapture n -> put ("cap:" ^ ni n)
      | SMemoCheck r -> put ("mc" ^ ni r)
      | SMemo (r, n, b) -> put ("M" ^ ni r ^ ":" ^ ni n ^ ":" ^ (if b then "1" else "0"))
      | SReturn b -> put (if b then "ret1" else "ret0")
      | SBrk -> put "b"
      | SBlock b -> put "{"; List.iter st b; put "}"
      | SSwitch (cs, d) ->
        put "sw";
        List.iter (fun (keys, c) -> put ("case:" ^ String.concat "." (List.map zi keys)); List.iter st c) cs;
        put "dflt"; List.iter st d; put "end" in
    let slots = x_semit_all g ptx (ast = "1") (inl = "1") undef in
    let parts = List.map (function
        | None -> "nil"
        | Some l -> Buffer.clear buf; first := true; last_s := false; List.iter st l; Buffer.contents buf) slots in
    print_endline (Printf.sprintf "semit %s/%s%s :: deep=%d %s" gid ast inl
                     ((if x_deep_table_b g (inl = "1") then 1 else 0) + (if x_alt2_b g then 2 else 0) + (if x_closed_names_b g then 4 else 0))
                     (String.concat ";" parts))
  | _ -> failwith "semit: args"

(* diag <id> (rg (def name expr) ...) *)
let do_diag rest =
  let i = String.index rest ' ' in
  let cid = String.sub rest 0 i in
  match parse_sexp (String.sub rest (i + 1) (String.length rest - i - 1)) with
  | L (Atom "rg" :: defs) ->
    let g = List.map (function L [Atom "def"; Atom n; e] -> (nat_of_int (ios n), expr_of e) | _ -> failwith "def") defs in
    let ns l = String.concat "," (List.map (fun n -> string_of_int (int_of_nat n)) l) in
    print_endline (Printf.sprintf "diag %s :: undefined=%s unused=%s dups=%s leftrec=%s reached=%s closed=%d" cid
                     (ns (x_undefined g)) (ns (x_unused g)) (ns (x_duplicates g)) (ns (x_leftrec g)) (ns (x_reached g))
                     (if x_closed_b g (x_reached g) then 1 else 0))
  | _ -> failwith "diag: sexp"


(* link <id> (rg (def name expr) ...) : Compile's first passes on the raw rule list (names are ignored: rule i is the i-th def) *)
let do_link rest =
  let i = String.index rest ' ' in
  let cid = String.sub rest 0 i in
  match parse_sexp (String.sub rest (i + 1) (String.length rest - i - 1)) with
  | L (Atom "rg" :: defs) ->
    let bodies = List.map (function L [Atom "def"; Atom _; e] -> expr_of e | _ -> failwith "def") defs in
    let ((g, ptx), acts) = x_link bodies in
    print_endline (Printf.sprintf "link %s :: ptx=%s acts=%s %s" cid
                     (match ptx with None -> "-" | Some n -> string_of_int (int_of_nat n))
                     (String.concat "," (List.map (fun n -> string_of_int (int_of_nat n)) acts))
                     (sexp_of_grammar g))
  | _ -> failwith "link: sexp"

(* cli <id> strict src out openin openout read parse compile *)
let do_cli rest =
  match String.split_on_char ' ' rest with
  | [cid; st; sr; ou; a; b; c; d; e; w] ->
    let bb x = (x = "1") in
    let i = { ci_strict = bb st; ci_src = (if sr = "file" then SrcFile else SrcStdin);
              ci_out = (match ou with "unset" -> OutUnset | "named" -> OutNamed | _ -> OutDash);
              ci_open_in_ok = bb a; ci_open_out_ok = bb b; ci_read_ok = bb c; ci_parse_ok = bb d;
              ci_compile = (match e with "ok" -> CompOk | "warn" -> CompWarn | "tmpl" -> CompTemplateErr | _ -> CompInvalidGo);
              ci_write_ok = bb w } in
    let o = x_cli_model i in
    let ds = function DestGrammarGo -> "grammar.go" | DestNamed -> "named" | DestStdout -> "stdout" in
    print_endline (Printf.sprintf "cli %s :: exit0=%d msg=%d complete=%s" cid (if o.co_exit_zero then 1 else 0) (if o.co_message then 1 else 0)
                     (match o.co_complete with None -> "-" | Some d -> ds d))
  | _ -> failwith "cli: args"

let () =
  try
    while true do
      let line = input_line stdin in
      match String.index_opt line ' ' with
      | None -> ()
      | Some i ->
        let cmd = String.sub line 0 i and rest = String.sub line (i + 1) (String.length line - i - 1) in
        (try
          (match cmd with
           | "set" ->
             (match String.index_opt rest ' ' with
              | Some j -> do_set (String.sub rest 0 j) (String.sub rest (j + 1) (String.length rest - j - 1))
              | None -> do_set rest "")
           | "grammar" -> do_grammar rest
           | "run" -> do_run rest
           | "spec" -> do_spec rest
           | "gen" -> do_gen rest
           | "cli" -> do_cli rest
           | "diag" -> do_diag rest
           | "opt" -> do_opt rest
           | "emit" -> do_emit rest
           | "semit" -> do_semit rest
           | "link" -> do_link rest
           | "elab" -> do_elab rest
           | "ruletype" -> do_ruletype rest
           | _ -> print_endline ("ERR unknown command " ^ cmd))
        with
        | Stack_overflow -> print_endline ("ERR stack overflow: " ^ (String.sub line 0 (min 60 (String.length line))))
        | Failure m -> print_endline ("ERR " ^ m ^ ": " ^ (String.sub line 0 (min 60 (String.length line))))
        | Not_found -> print_endline ("ERR not found: " ^ (String.sub line 0 (min 60 (String.length line)))))
    done
  with End_of_file -> ()
