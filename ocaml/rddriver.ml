(* Driver around the extracted reader model (pegreader.ml, from ExtractReader.v).
   "gen <seed> <count>": builds <count> written grammar files from one PRNG state, and prints for each
     rd <seed>/<i> :: okb=<0|1> text=<code points> nodes=<s-expression>
   where text = fshow f (Reader/File.v), okb = file_okb f (Reader/DecideFile.v) and nodes = file_nodes f
   (Reader/FileBridge.v: what the theorems say the front end builds); run=<0|1> says whether the model's builder,
   run over fcalls f, ends in exactly those nodes (the theorem, evaluated). *)
open Pegreader

let rec pos_of_int n = if n = 1 then XH else if n land 1 = 0 then XO (pos_of_int (n lsr 1)) else XI (pos_of_int (n lsr 1))
let z_of_int n = if n = 0 then Z0 else if n > 0 then Zpos (pos_of_int n) else Zneg (pos_of_int (-n))
let rec int_of_pos = function XH -> 1 | XO p -> 2 * int_of_pos p | XI p -> 2 * int_of_pos p + 1
let int_of_z = function Z0 -> 0 | Zpos p -> int_of_pos p | Zneg p -> - (int_of_pos p)
let rec nat_of_int n = if n <= 0 then O else S (nat_of_int (n - 1))
let rec int_of_nat = function O -> 0 | S n -> 1 + int_of_nat n

let cps (s : string) : z list = List.init (String.length s) (fun i -> z_of_int (Char.code s.[i]))
let ints (l : z list) : int list = List.map int_of_z l
let cps_s (l : z list) : string = String.concat " " (List.map string_of_int (ints l))

(* ---------- one PRNG state ---------- *)
let st = ref 1
let rnd n = st := (!st * 1103515245 + 12345) land 0x3fffffff; ((!st lsr 7) mod n)
let pick a = a.(rnd (Array.length a))
let chance p = rnd 100 < p

(* ---------- the name / text numbering shared with the harness ---------- *)
let names = [| "a"; "b"; "Rule"; "x1"; "_y"; "Z9"; "cc"; "Expr" |]
let nm (id : z list) : nat =
  let s = String.concat "" (List.map (fun c -> String.make 1 (Char.chr (int_of_z c land 255))) id) in
  let rec find i = if i >= Array.length names then Array.length names else if names.(i) = s then i else find (i + 1) in
  nat_of_int (find 0)
(* the number written in an action / predicate text: the first run of digits *)
let ak (t : z list) : nat =
  let l = ints t in
  let rec skip = function c :: r when c < 48 || c > 57 -> skip r | l -> l in
  let rec num acc = function c :: r when c >= 48 && c <= 57 -> num (acc * 10 + c - 48) r | _ -> acc in
  nat_of_int (num 0 (skip l))

(* ---------- generators ---------- *)
let lay_some = [| " "; "\n"; "\t"; "  "; " \n "; "\r\n"; " # c\n"; "//x y\n"; " #\n\t"; "\r"; " // {\n"; " # d\r"; "//k\r\n"; "#\r "; " // e\r\t" |]
let gen_lay must = if (not must) && chance 45 then [] else cps (pick lay_some)
let gen_lay_noslash must =                     (* after a slash: no layout that starts with '/' *)
  let l = gen_lay must in match ints l with 47 :: _ -> cps " " | _ -> l
let counter = ref 0
let gen_text () =
  incr counter;
  let n = string_of_int !counter in
  cps (pick [| " act(" ^ n ^ ") "; "p.f(" ^ n ^ ")"; " if x { y(" ^ n ^ ") } "; "{" ^ n ^ "}{}"; n |])

let raw_safe = [| 97; 98; 122; 65; 90; 48; 57; 32; 46; 95; 43; 42; 63; 40; 41; 60; 62; 47; 35; 38; 33; 123; 125; 233; 0x65E5; 0x1F600; 9; 126; 120; 88; 102 |]
let esc_chars = [| 97; 65; 98; 66; 101; 69; 102; 70; 110; 78; 114; 82; 116; 84; 118; 86; 39; 34; 91; 93; 45; 92 |]
let hexd = [| 48; 57; 97; 102; 65; 70; 49; 52 |]
let gen_char () : cchar =
  let c = rnd 100 in
  if c < 55 then KRaw (z_of_int (pick raw_safe))
  else if c < 75 then KEsc (z_of_int (pick esc_chars))
  else if c < 87 then KHex (z_of_int (if chance 50 then 120 else 88), List.init (1 + rnd 4) (fun _ -> z_of_int (pick hexd)))
  else KOct (match rnd 3 with
             | 0 -> [z_of_int (48 + rnd 8)]
             | 1 -> [z_of_int (48 + rnd 8); z_of_int (48 + rnd 8)]
             | _ -> [z_of_int (48 + rnd 4); z_of_int (48 + rnd 8); z_of_int (48 + rnd 8)])
let gen_item () : citem0 = if chance 35 then IRange (gen_char (), gen_char ()) else IChar (gen_char ())

let rec gen_prim d : cx =
  let c = rnd 100 in
  if c < 22 then XName0 (cps (pick names), gen_lay (chance 70))
  else if c < 32 then XDot0 (gen_lay false)
  else if c < 42 then XAct0 (gen_text (), gen_lay false)
  else if c < 60 then XLit0 (chance 40, List.init (rnd 4) (fun _ -> gen_char ()), gen_lay false)
  else if c < 75 then
    (let neg = chance 30 in
     XClass0 (chance 40, neg, List.init ((if neg then 1 else 0) + rnd 3) (fun _ -> gen_item ()), gen_lay false))
  else if d <= 0 then XDot0 (gen_lay false)
  else if c < 90 then XGroup0 (gen_lay false, gen_expr (d - 1), gen_lay false)
  else XPush0 (gen_lay false, gen_expr (d - 1), gen_lay false)
and gen_suf d : cx =
  if chance 35 then XSuf (z_of_int (pick [| 63; 42; 43 |]), gen_prim d, gen_lay false) else gen_prim d
and gen_pre d : cx =
  let c = rnd 100 in
  if c < 15 then
    (let rec inner () = match gen_suf d with XAct0 _ | XSuf (_, XAct0 _, _) -> inner () | x -> x in
     XPre (z_of_int (pick [| 38; 33 |]), gen_lay false, inner ()))
  else if c < 25 then XPredA (z_of_int (pick [| 38; 33 |]), gen_lay false, gen_text (), gen_lay false)
  else gen_suf d
and gen_seq d : cx =
  if chance 55 then XSeq0 (List.init (2 + rnd 3) (fun _ -> gen_pre d)) else gen_pre d
and gen_expr d : cx =
  let c = rnd 100 in
  if c < 8 then XEmpty
  else if c < 45 then
    (let l = List.init (rnd 3) (fun _ -> (gen_lay_noslash false, gen_seq d)) in
     XAlt0 (gen_seq d, l, (if l = [] || chance 25 then Some (gen_lay_noslash false) else None)))
  else gen_seq d

let gen_iname () : iname =
  { in_alias = (if chance 40 then Some (cps (pick [| "x"; "fmt2"; "_"; "Y" |]), gen_lay (chance 50)) else None);
    in_path = cps (pick [| "fmt"; "os/exec"; "a.b/c-d"; "x_1"; "strings" |]) }
let gen_imp () : imp =
  if chance 60 then ISingle (gen_lay false, gen_iname (), gen_lay true)
  else IMulti (gen_lay false, gen_lay false, List.init (rnd 3) (fun _ -> (gen_iname (), gen_lay false)), gen_lay true)
let gen_hitem prev_space : hitem =
  if (not prev_space) && chance 45 then HSp (cps (pick [| " "; "\n"; "\n\n"; "\t \r\n"; "\r" |]))
  else HCmt (chance 50, cps (pick [| ""; " text"; " a */ b"; "x\ty" |]), cps (pick [| "\n"; "\r\n"; "\n"; "\r" |]))
let gen_file () : cfile =
  let rec hdr n prev = if n = 0 then [] else let h = gen_hitem prev in h :: hdr (n - 1) (match h with HSp _ -> true | _ -> false) in
  let ndefs = 1 + rnd 3 in
  { f_header = hdr (rnd 4) false;
    f_s_pkg = gen_lay true; f_pkg = cps (pick [| "main"; "p"; "parser" |]); f_s1 = gen_lay true;
    f_imports = List.init (rnd 3) (fun _ -> gen_imp ());
    f_s_type = gen_lay true; f_peg = cps (pick [| "T"; "Parser"; "Peg" |]); f_s2 = gen_lay true;
    f_s3 = gen_lay false; f_state = cps (pick [| " n int "; ""; "\n T []string\n x struct{ a int }\n" |]); f_s4 = gen_lay false;
    f_defs = List.init ndefs (fun i ->
        { d_name = cps names.(i); d_s1 = gen_lay false; d_uni = chance 30; d_s2 = gen_lay false;
          d_body = (let e = gen_expr 2 in
                    (* a rule that is not the last ends with some layout *)
                    if i < ndefs - 1 then XGroup0 ([], e, cps (pick [| "\n"; " "; "\n\n"; " # next\n" |])) else e) }) }

(* ---------- printing ---------- *)
let rec sexp_of_expr e =
  let zs c = string_of_int (int_of_z c) and ns n = string_of_int (int_of_nat n) in
  let many tag es = "(" ^ tag ^ " " ^ String.concat " " (List.map sexp_of_expr es) ^ ")" in
  match e with
  | EDot -> "(dot)" | EChar c -> "(c " ^ zs c ^ ")" | ERange (a, b) -> "(r " ^ zs a ^ " " ^ zs b ^ ")"
  | EName r -> "(n " ^ ns r ^ ")" | EPred k -> "(p " ^ ns k ^ ")" | EState k -> "(s " ^ ns k ^ ")" | EAct k -> "(a " ^ ns k ^ ")"
  | ENil -> "(nil)" | ESeq es -> many "seq" es | EAlt es -> many "alt" es
  | EAnd e1 -> "(and " ^ sexp_of_expr e1 ^ ")" | ENot e1 -> "(not " ^ sexp_of_expr e1 ^ ")"
  | EQuery e1 -> "(q " ^ sexp_of_expr e1 ^ ")" | EStar e1 -> "(star " ^ sexp_of_expr e1 ^ ")"
  | EPlus e1 -> "(plus " ^ sexp_of_expr e1 ^ ")" | EPush e1 -> "(push " ^ sexp_of_expr e1 ^ ")"
  | ESwitch (_, _) -> "(sw)"
let sexp_of_node = function
  | NComment s -> "(cm " ^ cps_s s ^ ")" | NSpace s -> "(sp " ^ cps_s s ^ ")" | NPackage s -> "(pk " ^ cps_s s ^ ")"
  | NImportAlias s -> "(ia " ^ cps_s s ^ ")" | NImport s -> "(im " ^ cps_s s ^ ")"
  | NPeg (n, t) -> "(pg (" ^ cps_s n ^ ") (" ^ cps_s t ^ "))"
  | NRule (n, e) -> "(ru (" ^ cps_s n ^ ") " ^ sexp_of_expr e ^ ")"

let () =
  try
    while true do
      let line = input_line stdin in
      match String.split_on_char ' ' (String.trim line) with
      | ["gen"; seed; count] ->
        st := (int_of_string seed * 7919 + 17) land 0x3fffffff;
        for i = 0 to int_of_string count - 1 do
          counter := 0;
          let f = gen_file () in
          let okb = r_file_okb f in
          let text = r_fshow f in
          let nodes = r_file_nodes nm ak f in
          let ns = match nodes with Some l -> "(file " ^ String.concat " " (List.map sexp_of_node l) ^ ")" | None -> "NONE" in
          let run = match nodes, r_frun nm ak (r_fcalls f) r_finit with
            | Some l, Some s -> s.back = l && s.pend = None && s.stk = [] && s.pegn = None
            | _, _ -> false in
          print_endline (Printf.sprintf "rd %s/%d :: okb=%d run=%d text=%s nodes=%s" seed i (if okb then 1 else 0) (if run then 1 else 0) (cps_s text) ns);
          (* malformed variants, in the shape of the rejection theorems of Reader/Reject.v : the C10_rejects theorems *)
          if okb then begin
            (* t: the file followed by a character that starts nothing, and anything behind it *)
            let jc = z_of_int (pick [| 41; 93; 125; 62; 61; 44; 59; 124; 37; 36; 64; 126; 94; 96; 58; 45; 92; 233; 0x65E5; 0x1F600 |]) in
            if r_junk_head jc then
              print_endline (Printf.sprintf "bad %s/%d/t :: text=%s" seed i
                               (cps_s (text @ (jc :: cps (pick [| ""; " x"; "\n"; "R <- 'a'\n"; ")"; "\n# c\n" |])))));
            (* q: the file followed by a literal that is opened and never closed *)
            let qc = pick [| 39; 34 |] in
            let body = List.filter (fun c -> int_of_z c <> qc) (cps (pick [| "ab"; "a b\n"; "x\\n y"; ""; "abc\nR <- 'x'\n"; "[a-z] \\\"" |])) in
            print_endline (Printf.sprintf "bad %s/%d/q :: text=%s" seed i (cps_s (text @ (z_of_int qc :: body))));
            (* b: the file followed by a group, a capture, an action or a class that is opened and never closed *)
            let (bo, bc) = pick [| (40, 41); (60, 62); (123, 125); (91, 93) |] in
            let bbody = List.filter (fun c -> int_of_z c <> bc) (cps (pick [| " 'a' x"; "a b\n"; ""; "abc\nR <- 'x'\n"; " x / y*"; "a-z" |])) in
            let bbody = (match bbody with c :: _ when bo = 60 && int_of_z c = 45 -> z_of_int 32 :: bbody | _ -> bbody) in
            print_endline (Printf.sprintf "bad %s/%d/b :: text=%s" seed i (cps_s (text @ (z_of_int bo :: bbody))));
            (* d: the file followed by & or ! and nothing but layout to the end *)
            print_endline (Printf.sprintf "bad %s/%d/d :: text=%s" seed i (cps_s (text @ (z_of_int (pick [| 38; 33 |]) :: gen_lay false))));
            (* s: the text stops inside the parser's state: "Peg {" opened and never closed *)
            (let h = r_head_text { f with f_state = []; f_s4 = [] } in
             let upto = List.rev (List.tl (List.rev h)) in        (* without the closing brace *)
             let t = List.filter (fun c -> int_of_z c <> 125) (cps (pick [| ""; " n int"; "\n T []string\n"; " x struct{ a int"; "\nR <- 'a'\n" |])) in
             print_endline (Printf.sprintf "bad %s/%d/s :: text=%s" seed i (cps_s (upto @ t))));
            (* r: the head of the file with no rule behind it *)
            let j = cps (pick [| ""; ")"; "123"; "= x"; "'a'"; "<- 'a'"; "(R <- 'a')"; "{ }"; ". x"; "\"a\" b" |]) in
            (match j with
             | c :: _ when r_is_istart c -> ()
             | _ -> print_endline (Printf.sprintf "bad %s/%d/r :: text=%s" seed i (cps_s (r_head_text f @ j))));
            (* p: the comments and blank lines of the file, then something that is not the package clause *)
            let tl = cps (pick [| ""; "type T Peg {}\nR <- 'a'\n"; "Package p\n"; "packag e"; "pack"; "R <- 'a'"; "import \"x\""; "{"; "1"; "packagE x" |]) in
            if r_header_okb f.f_header tl then
              print_endline (Printf.sprintf "bad %s/%d/p :: text=%s" seed i (cps_s (List.concat_map (function HCmt (sl, b, e) -> (if sl then cps "//" else cps "#") @ b @ e | HSp r -> r) f.f_header @ tl)))
          end
        done
      | ["names"] -> print_endline ("names " ^ String.concat " " (Array.to_list names))
      | _ -> print_endline ("ERR unknown command: " ^ line)
    done
  with End_of_file -> ()
