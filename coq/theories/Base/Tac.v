(** Small tactic library shared by the proofs. *)
From Coq Require Export List ZArith Bool Lia Arith.
From Coq Require Import ZifyBool ZifyNat.
Export ListNotations.

Ltac inv H := inversion H; subst; clear H.

(** destruct every boolean comparison on Z / nat appearing in goal or hypotheses, one at a time *)
Ltac dcmp :=
  repeat match goal with
  | |- context [Z.ltb ?a ?b] => destruct (Z.ltb_spec a b)
  | |- context [Z.leb ?a ?b] => destruct (Z.leb_spec a b)
  | |- context [Z.eqb ?a ?b] => destruct (Z.eqb_spec a b)
  | |- context [Z.gtb ?a ?b] => rewrite (Z.gtb_ltb a b)
  | |- context [Z.geb ?a ?b] => rewrite (Z.geb_leb a b)
  | H : context [Z.ltb ?a ?b] |- _ => destruct (Z.ltb_spec a b)
  | H : context [Z.leb ?a ?b] |- _ => destruct (Z.leb_spec a b)
  | H : context [Z.eqb ?a ?b] |- _ => destruct (Z.eqb_spec a b)
  | |- context [Nat.ltb ?a ?b] => destruct (Nat.ltb_spec a b)
  | |- context [Nat.leb ?a ?b] => destruct (Nat.leb_spec a b)
  | |- context [Nat.eqb ?a ?b] => destruct (Nat.eqb_spec a b)
  | H : context [Nat.ltb ?a ?b] |- _ => destruct (Nat.ltb_spec a b)
  | H : context [Nat.leb ?a ?b] |- _ => destruct (Nat.leb_spec a b)
  | H : context [Nat.eqb ?a ?b] |- _ => destruct (Nat.eqb_spec a b)
  end.

Ltac bsimpl := repeat (rewrite ?andb_true_r, ?andb_false_r, ?orb_true_r, ?orb_false_r,
                        ?andb_true_l, ?andb_false_l, ?orb_true_l, ?orb_false_l in *; cbn [negb] in *).
