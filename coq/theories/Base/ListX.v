(** List lemmas used by the machine proofs. *)
From PegV Require Import Base.Tac.

Lemma firstn_app_exact {A} (l1 l2 : list A) : firstn (length l1) (l1 ++ l2) = l1.
Proof. induction l1; cbn; [destruct l2; reflexivity | f_equal; auto]. Qed.

Lemma firstn_app_le {A} (l1 l2 : list A) n : n <= length l1 -> firstn n (l1 ++ l2) = firstn n l1.
Proof.
  revert n; induction l1 as [|a l1 IH]; intros n H; cbn in *.
  - assert (n = 0) by lia. subst. reflexivity.
  - destruct n; cbn; [reflexivity|]. f_equal. apply IH. lia.
Qed.

Lemma firstn_firstn_le {A} (l : list A) n m : n <= m -> firstn n (firstn m l) = firstn n l.
Proof. intros. rewrite firstn_firstn. f_equal. lia. Qed.

Lemma firstn_length_le' {A} (l : list A) n : n <= length l -> length (firstn n l) = n.
Proof. apply firstn_length_le. Qed.

Lemma skipn_app_exact {A} (l1 l2 : list A) : skipn (length l1) (l1 ++ l2) = l2.
Proof. induction l1; cbn; auto. Qed.

Lemma firstn_plus_app {A} (l : list A) n k :
  firstn (n + k) l = firstn n l ++ firstn k (skipn n l).
Proof.
  revert l; induction n as [|n IH]; intros l; cbn; [reflexivity|].
  destruct l; cbn; [rewrite firstn_nil; reflexivity|]. f_equal. apply IH.
Qed.

Lemma rev_snoc {A} (l : list A) x : rev (l ++ [x]) = x :: rev l.
Proof. rewrite rev_app_distr. reflexivity. Qed.

Lemma fold_left_app' {A B} (f : A -> B -> A) l1 l2 a : fold_left f (l1 ++ l2) a = fold_left f l2 (fold_left f l1 a).
Proof. apply fold_left_app. Qed.

Lemma app_inj_len {A} (l1 : list A) : forall l1' l2 l2', l1 ++ l2 = l1' ++ l2' -> length l1 = length l1' -> l1 = l1' /\ l2 = l2'.
Proof.
  induction l1 as [|a l1 IH]; intros [|b l1'] l2 l2' H L; cbn in *; try discriminate; auto.
  inv H. destruct (IH l1' l2 l2' H2) as [-> ->]; auto.
Qed.
