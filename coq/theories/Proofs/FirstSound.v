(** Soundness of the first-set analysis of -switch (Model/Optimize.v): for any table T that is
    consistent with the grammar (a post-fixed point, checked by [t_ok_b]; no least-ness needed),
    whenever an expression succeeds having consumed, the first consumed character is in its set, and
    an expression flagged "must consume" never succeeds without consuming. *)
From PegV Require Import Base.Tac Spec.Syntax Spec.Peg Model.SetImpl Model.Optimize Proofs.SetProofs Proofs.Forest.
Open Scope Z_scope.

Lemma inv_b_ok l : forall lo, inv_b lo l = true -> inv_from lo l.
Proof.
  induction l as [|[b e] l IH]; intros lo H; cbn [inv_b inv_from] in *; [exact I|].
  apply andb_true_iff in H as [H H3]. apply andb_true_iff in H as [H1 H2].
  split; [lia|]. split; [lia|]. apply IH. exact H3.
Qed.

Section FS.
Variable g : grammar.
Variable T : list fsres.

Notation rule_t_ok := (Optimize.rule_t_ok T).
Notation t_ok_b := (Optimize.t_ok_b g T).

Hypothesis Hok : t_ok_b = true.

Lemma T_inv r : Inv (snd (tget T r)).
Proof.
  unfold tget. destruct (nth_in_or_default r T (false, [])) as [Hin|E]; [|rewrite E; exact I].
  apply andb_true_iff in Hok as [H _]. rewrite forallb_forall in H. apply inv_b_ok. apply H. exact Hin.
Qed.

Lemma rule_ok r rb : nth_error g r = Some rb -> rule_t_ok r rb = true.
Proof.
  intros Hr. apply andb_true_iff in Hok as [_ H]. rewrite forallb_forall in H.
  apply (H (r, rb)).
  assert (E : forall (l : list rbody) s k x, nth_error l k = Some x -> nth_error (combine (seq s (length l)) l) k = Some ((s + k)%nat, x)).
  { induction l as [|y l IH]; intros s k x Hk; [destruct k; discriminate|].
    destruct k; cbn in *; [inv Hk; rewrite Nat.add_0_r; reflexivity|]. rewrite (IH (S s) k x Hk). f_equal. f_equal. lia. }
  specialize (E g 0%nat r rb Hr). cbn in E. eapply nth_error_In; eauto.
Qed.

(** every computed set satisfies the representation invariant, so that the C16 theorems apply *)
Lemma fs_inv e : ranges_ok e = true -> Inv (snd (fs T e)).
Proof.
  induction e using expr_ind2; cbn [ranges_ok fs snd fst]; intros Hr; try exact I.
  - unfold Inv, maxRune. cbn [inv_from]. lia.
  - apply Z.leb_le in Hr. unfold Inv. cbn [inv_from]. lia.
  - apply andb_true_iff in Hr as [H1 H2]. apply Z.leb_le in H1, H2. apply add_range_inv; [exact I|lia|lia].
  - apply T_inv.
  - (* ESeq *)
    induction H as [|x es Hx Hes IHes]; cbn [forallb] in Hr; [exact I|]. apply andb_true_iff in Hr as [Hr1 Hr2].
    destruct (fst (fs T x)); cbn [snd]; [auto|].
    apply union_inv; auto.
  - (* EAlt *)
    assert (G : forall acc, Inv (snd acc) ->
              Inv (snd (fold_left (fun acc x => let r := fs T x in (fst acc && fst r, union (snd acc) (snd r))) es acc))).
    { induction H as [|x es Hx Hes IHes]; cbn [forallb fold_left] in *; intros acc Ha; [exact Ha|].
      apply andb_true_iff in Hr as [Hr1 Hr2]. apply IHes; auto. cbn [snd]. apply union_inv; auto. }
    apply G. exact I.
  - auto.
  - auto.
  - auto.
  - auto.
Qed.

Section Sound.
Local Open Scope nat_scope.
Variable ptx : nat.
Variable buf : list rune.
Variable penv : nat -> nat -> bool.
Notation ev := (peg_ev g ptx buf penv).

(** what a (consumes, set) pair claims about an expression *)
Definition fs_ok (cs : fsres) (n : nat) (e : expr) : Prop :=
  forall p p' f evs, p <= length buf -> ev n e p = Some (Succ p' f, evs) ->
    (fst cs = true -> p < p') /\
    ((p < p') -> exists c, nth_error buf p = Some c /\ mem (snd cs) c = true).

Lemma subset_b_ok s t x : Inv s -> Inv t -> subset_b s t = true -> mem s x = true -> mem t x = true.
Proof.
  intros Hs Ht H Hx. unfold subset_b in H.
  pose proof (proj1 (equal_spec (union t s) t (union_inv t s Ht Hs) Ht) H x) as E.
  rewrite union_mem in E by auto. rewrite Hx, orb_true_r in E. congruence.
Qed.

Lemma term_fs ok S n e :
  (forall p, ev (Datatypes.S n) e p = Some (term buf ok p)) ->
  (forall c, ok c = true -> mem S c = true) ->
  fs_ok (true, S) (Datatypes.S n) e.
Proof.
  intros He Hm p p' f evs Hp H. rewrite He in H. unfold term in H.
  destruct (nth_error buf p) as [c|] eqn:Ec; [|discriminate]. destruct (ok c) eqn:Eo; [|discriminate]. inv H.
  split; [intros _; lia|]. intros _. exists c. auto.
Qed.

(** runes of the buffer are code points (what []rune(string) yields) *)
Hypothesis Hbuf : forall c, In c buf -> (0 <= c <= maxRune)%Z.

Lemma fs_ok_weaken (cs cs' : fsres) n e :
  fs_ok cs n e -> (fst cs' = true -> fst cs = true) -> (forall x, mem (snd cs) x = true -> mem (snd cs') x = true) ->
  fs_ok cs' n e.
Proof.
  intros H Hc Hs p p' f evs Hp He. destruct (H p p' f evs Hp He) as [A B]. split; [auto|].
  intros L. destruct (B L) as (c & Hc1 & Hc2). exists c. auto.
Qed.

Lemma no_consume_fs cs n e :
  (forall p p' f evs, ev n e p = Some (Succ p' f, evs) -> p' = p) -> fst cs = false -> fs_ok cs n e.
Proof.
  intros H Hc p p' f evs Hp He. rewrite (H _ _ _ _ He). split; [rewrite Hc; discriminate|lia].
Qed.

Lemma ev_le n e p p' f evs : p <= length buf -> ev n e p = Some (Succ p' f, evs) -> (p <= p')%nat /\ (p' <= length buf)%nat.
Proof.
  intros Hp H. destruct (ev_ok g ptx buf penv n e p _ Hp H) as [_ [W B]]. cbn [fst] in *.
  split; [eapply wf_forest_le; eauto|exact B].
Qed.

Theorem first_sound n : forall e, ranges_ok e = true -> fs_ok (fs T e) n e.
Proof.
  induction n as [|n IH]; intros e Hr; [intros p p' f evs Hp H; discriminate|].
  destruct e; cbn [ranges_ok] in Hr.
  - (* EDot *)
    intros p p' f evs Hp H. cbn [peg_ev] in H. unfold term in H.
    destruct (nth_error buf p) as [c|] eqn:Ec; [|discriminate]. inv H.
    split; [intros _; lia|]. intros _. exists c. split; [reflexivity|].
    cbn [fs snd]. rewrite mem_cons, mem_nil. pose proof (Hbuf c (nth_error_In _ _ Ec)). unfold maxRune in *.
    destruct (Z.leb_spec 0%Z c); destruct (Z.leb_spec c 1114111%Z); cbn; auto; lia.
  - (* EChar *)
    apply (term_fs (Z.eqb c)); [intros; reflexivity|]. intros x Hx. apply Z.eqb_eq in Hx. subst x.
    cbn [fs snd]. rewrite mem_cons, mem_nil. rewrite !Z.leb_refl. reflexivity.
  - (* ERange *)
    apply andb_true_iff in Hr as [H1 H2]. apply Z.leb_le in H1, H2.
    apply (term_fs (in_range lo hi)); [intros; reflexivity|]. intros x Hx. cbn [fs snd].
    rewrite (add_range_mem [] 0%Z) by (cbn; auto). rewrite mem_nil. cbn [orb]. exact Hx.
  - (* EName *)
    intros p p' f evs Hp H. cbn [peg_ev] in H. cbn [fs].
    destruct (nth_error g r) as [[b|k|]|] eqn:Eg; try discriminate.
    + pose proof (rule_ok _ _ Eg) as Hk. cbn [rule_t_ok] in Hk.
      apply andb_true_iff in Hk as [Hk Hsub]. apply andb_true_iff in Hk as [Hrb Himp].
      destruct (ev n b p) as [[[|p1 f1] evs1]|] eqn:E; try discriminate. inv H.
      destruct (IH b Hrb p p' f1 evs1 Hp E) as [A B]. split.
      * intros Hc. apply A. destruct (fst (tget T r)); [|discriminate]. cbn in Himp. exact Himp.
      * intros L. destruct (B L) as (c & Hc1 & Hc2). exists c. split; [exact Hc1|].
        eapply subset_b_ok; [apply fs_inv; exact Hrb|apply T_inv|exact Hsub|exact Hc2].
    + pose proof (rule_ok _ _ Eg) as Hk. cbn [rule_t_ok] in Hk. apply negb_true_iff in Hk.
      inv H. split; [rewrite Hk; discriminate|lia].
  - apply no_consume_fs; [|reflexivity]. intros p p' f evs H. cbn [peg_ev] in H. destruct (penv k p); inv H. reflexivity.
  - apply no_consume_fs; [|reflexivity]. intros p p' f evs H. cbn [peg_ev] in H. inv H. reflexivity.
  - apply no_consume_fs; [|reflexivity]. intros p p' f evs H. cbn [peg_ev] in H. inv H. reflexivity.
  - apply no_consume_fs; [|reflexivity]. intros p p' f evs H. cbn [peg_ev] in H. inv H. reflexivity.
  - (* ESeq *)
    intros p p' f evs Hp H. cbn [peg_ev] in H. cbn [fs].
    revert p f evs Hp H. induction es as [|x es IHes]; intros p f evs Hp H; cbn [seq_ev forallb] in *.
    + inv H. cbn. split; [discriminate|lia].
    + apply andb_true_iff in Hr as [Hr1 Hr2].
      destruct (ev n x p) as [[[|p1 f1] evs1]|] eqn:E; try discriminate.
      destruct (seq_ev (ev n) es p1) as [[[|p2 f2] evs2]|] eqn:E2; try discriminate. inv H.
      destruct (ev_le _ _ _ _ _ _ Hp E) as [L1 B1].
      destruct (IH x Hr1 p p1 f1 evs1 Hp E) as [A B].
      destruct (fst (fs T x)) eqn:Ecx; cbn [fst snd].
      * assert (p < p1)%nat by auto.
        assert (p1 <= p')%nat.
        { clear -E2 B1 Hbuf. revert p1 f2 evs2 B1 E2. induction es as [|y es IHy]; intros p1 f2 evs2 B1 E2; cbn [seq_ev] in E2; [inv E2; lia|].
          destruct (ev n y p1) as [[[|q1 g1] ev1]|] eqn:Ey; try discriminate.
          destruct (seq_ev (ev n) es q1) as [[[|q2 g2] ev2]|] eqn:Ey2; try discriminate. inv E2.
          destruct (ev_le _ _ _ _ _ _ B1 Ey). specialize (IHy _ _ _ H0 Ey2). lia. }
        split; [intros _; lia|]. intros _. apply B. exact H.
      * destruct (IHes Hr2 p1 f2 evs2 B1 E2) as [A2 B2]. split.
        -- intros Hc. specialize (A2 Hc). lia.
        -- intros L. assert (Hinv1 : Inv (snd (fs T x))) by (apply fs_inv; exact Hr1).
           assert (Hinv2 : Inv (snd ((fix go (l : list expr) : fsres := match l with
                     | [] => (false, [])
                     | x0 :: l' => let r := fs T x0 in if fst r then (true, snd r) else let r' := go l' in (fst r', union (snd r') (snd r))
                     end) es))).
           { change (Inv (snd (fs T (ESeq es)))). apply fs_inv. exact Hr2. }
           destruct (Nat.eq_dec p p1) as [<-|Hne].
           ++ destruct (B2 L) as (c & Hc1 & Hc2). exists c. split; [exact Hc1|]. rewrite union_mem by auto. rewrite Hc2. reflexivity.
           ++ destruct (B ltac:(lia)) as (c & Hc1 & Hc2). exists c. split; [exact Hc1|]. rewrite union_mem by auto. rewrite Hc2, orb_true_r. reflexivity.
  - (* EAlt *)
    intros p p' f evs Hp H. cbn [peg_ev] in H. cbn [fs].
    assert (G : forall acc, Inv (snd acc) ->
              forall r, alt_ev (ev n) es p = Some r -> fst r = Succ p' f ->
              let res := fold_left (fun acc x => let r := fs T x in (fst acc && fst r, union (snd acc) (snd r))) es acc in
              Inv (snd res) /\ (fst res = true -> fst acc = true /\ (p < p')%nat) /\
              ((p < p')%nat -> exists c, nth_error buf p = Some c /\ mem (snd res) c = true) /\
              (forall x, mem (snd acc) x = true -> mem (snd res) x = true)).
    { clear H. induction es as [|x es IHes]; intros acc Ha r Hal Hres; cbn [alt_ev fold_left forallb] in *.
      - inv Hal. discriminate.
      - apply andb_true_iff in Hr as [Hr1 Hr2].
        assert (Hix : Inv (snd (fs T x))) by (apply fs_inv; exact Hr1).
        set (acc' := (fst acc && fst (fs T x), union (snd acc) (snd (fs T x)))).
        assert (Ha' : Inv (snd acc')) by (apply union_inv; auto).
        (* monotonicity of the fold in the set, and of the flag *)
        assert (Mono : forall l acc0, forallb ranges_ok l = true -> Inv (snd acc0) ->
                  let res := fold_left (fun acc x => let r := fs T x in (fst acc && fst r, union (snd acc) (snd r))) l acc0 in
                  Inv (snd res) /\ (fst res = true -> fst acc0 = true) /\ (forall y, mem (snd acc0) y = true -> mem (snd res) y = true)).
        { induction l as [|y l IHl]; intros acc0 Hl Ha0; cbn [fold_left forallb] in *; [auto|].
          apply andb_true_iff in Hl as [Hl1 Hl2].
          assert (Hiy : Inv (snd (fs T y))) by (apply fs_inv; exact Hl1).
          destruct (IHl (fst acc0 && fst (fs T y), union (snd acc0) (snd (fs T y))) Hl2 (union_inv _ _ Ha0 Hiy)) as (I1 & I2 & I3).
          cbn [fst snd] in *. split; [exact I1|]. split.
          - intros Ht. specialize (I2 Ht). apply andb_true_iff in I2. tauto.
          - intros z Hz. apply I3. rewrite union_mem by auto. rewrite Hz. reflexivity. }
        destruct (ev n x p) as [[[|p1 f1] evs1]|] eqn:E; try discriminate.
        + destruct es as [|x2 es]; [inv Hal; discriminate|].
          destruct (alt_ev (ev n) (x2 :: es) p) as [[r2 evs2]|] eqn:E2; try discriminate. inv Hal. cbn [fst] in Hres.
          destruct (IHes Hr2 acc' Ha' (r2, evs2) eq_refl Hres) as (J1 & J2 & J3 & J4).
          split; [exact J1|]. split; [|split; [exact J3|]].
          * intros Ht. destruct (J2 Ht) as [Hacc' L]. unfold acc' in Hacc'. cbn [fst] in Hacc'. apply andb_true_iff in Hacc'. tauto.
          * intros z Hz. apply J4. unfold acc'. cbn [snd]. rewrite union_mem by auto. rewrite Hz. reflexivity.
        + inv Hal. cbn [fst] in Hres. inv Hres.
          destruct (IH x Hr1 p p' f evs1 Hp E) as [A B].
          destruct (Mono es acc' Hr2 Ha') as (M1 & M2 & M3).
          split; [exact M1|]. split; [|split].
          * intros Ht. specialize (M2 Ht). unfold acc' in M2. cbn [fst] in M2. apply andb_true_iff in M2 as [Q1 Q2]. auto.
          * intros L. destruct (B L) as (c & Hc1 & Hc2). exists c. split; [exact Hc1|]. apply M3. unfold acc'. cbn [snd].
            rewrite union_mem by auto. rewrite Hc2, orb_true_r. reflexivity.
          * intros z Hz. apply M3. unfold acc'. cbn [snd]. rewrite union_mem by auto. rewrite Hz. reflexivity. }
    destruct (alt_ev (ev n) es p) as [r|] eqn:Eal; [|discriminate]. inv H.
    destruct (G (true, []) I (Succ p' f, evs) eq_refl eq_refl) as (J1 & J2 & J3 & _).
    split; [intros Ht; apply J2; exact Ht|exact J3].
  - (* EAnd *) apply no_consume_fs; [|reflexivity]. intros p p' f evs H. cbn [peg_ev] in H.
    destruct (ev n e p) as [[[|p1 f1] evs1]|]; inv H. reflexivity.
  - (* ENot *) apply no_consume_fs; [|reflexivity]. intros p p' f evs H. cbn [peg_ev] in H.
    destruct (ev n e p) as [[[|p1 f1] evs1]|]; inv H. reflexivity.
  - (* EQuery *)
    intros p p' f evs Hp H. cbn [peg_ev] in H. cbn [fs fst snd].
    destruct (ev n e p) as [[[|p1 f1] evs1]|] eqn:E; inv H.
    + split; [discriminate|lia].
    + destruct (IH e Hr p p' f evs Hp E) as [A B]. split; [discriminate|exact B].
  - (* EStar *)
    intros p p' f evs Hp H. cbn [peg_ev] in H. cbn [fs fst snd].
    destruct (ev n e p) as [[[|p1 f1] evs1]|] eqn:E; try discriminate.
    + inv H. split; [discriminate|lia].
    + destruct (ev n (EStar e) p1) as [[[|p2 f2] evs2]|] eqn:E2; try discriminate. inv H.
      destruct (ev_le _ _ _ _ _ _ Hp E) as [L1 B1].
      destruct (IH e Hr p p1 f1 evs1 Hp E) as [A B].
      destruct (IH (EStar e) Hr p1 p' f2 evs2 B1 E2) as [A2 B2]. cbn [fs fst snd] in B2.
      split; [discriminate|]. intros L. destruct (Nat.eq_dec p p1) as [<-|Hne]; [apply B2; exact L|apply B; lia].
  - (* EPlus *)
    intros p p' f evs Hp H. cbn [peg_ev] in H. cbn [fs].
    destruct (ev n e p) as [[[|p1 f1] evs1]|] eqn:E; try discriminate.
    destruct (ev n (EStar e) p1) as [[[|p2 f2] evs2]|] eqn:E2; try discriminate. inv H.
    destruct (ev_le _ _ _ _ _ _ Hp E) as [L1 B1]. destruct (ev_le _ _ _ _ _ _ B1 E2) as [L2 B2].
    destruct (IH e Hr p p1 f1 evs1 Hp E) as [A B].
    destruct (IH (EStar e) Hr p1 p' f2 evs2 B1 E2) as [A2 B3]. cbn [fs fst snd] in B3.
    split; [intros Hc; specialize (A Hc); lia|].
    intros L. destruct (Nat.eq_dec p p1) as [<-|Hne]; [apply B3; exact L|apply B; lia].
  - (* EPush *)
    intros p p' f evs Hp H. cbn [peg_ev] in H. cbn [fs].
    destruct (ev n e p) as [[[|p1 f1] evs1]|] eqn:E; inv H. exact (IH e Hr p p' f1 evs1 Hp E).
  - discriminate.
Qed.

End Sound.
End FS.
