(** Go rejects a variable that is declared and not used.  Every position / tokenIndex variable the
    emitted code declares is used later in the same statement list (or in a block nested in it):
    restored, handed to memoize, or handed to add.  The only construct whose use depends on the shape of
    the tree is the ordered choice: it restores the saved position between alternatives, so it needs
    two of them - which the front end and the -switch pass guarantee ([alt2]). *)
From PegV Require Import Base.Tac Spec.Syntax Model.Analyses Model.Optimize Model.Emit Proofs.EmitWF.
From PegV Require Export Model.Premises.
Local Open Scope nat_scope.

Fixpoint uses1 (x : code) : list (bool * nat) :=
  match x with
  | KRestore n | KMemo n => [(false, n)]
  | KUseP n => [(true, n)]
  | KBlock b => flat_map uses1 b
  | KSwitch cs d => flat_map (flat_map uses1) cs ++ flat_map uses1 d
  | _ => []
  end.
Definition uses (c : list code) : list (bool * nat) := flat_map uses1 c.

Definition used_in (k : bool * nat) (l : list (bool * nat)) : bool :=
  existsb (fun y => Bool.eqb (fst k) (fst y) && Nat.eqb (snd k) (snd y)) l.
Definition decl_ok (y : code) (rest : list code) : bool :=
  match y with
  | KSave n => used_in (false, n) (uses rest)
  | KSaveP n => used_in (true, n) (uses rest)
  | _ => true
  end.
Definition du_list (f : code -> bool) : list code -> bool :=
  fix go (l : list code) : bool :=
    match l with
    | [] => true
    | y :: l' => decl_ok y l' && f y && go l'
    end.
Fixpoint du1 (x : code) : bool :=
  match x with
  | KBlock b => du_list (fun y => du1 y) b
  | KSwitch cs d => forallb (fun k => du_list (fun y => du1 y) k) cs && du_list (fun y => du1 y) d
  | _ => true
  end.
Definition du (c : list code) : bool := du_list (fun y => du1 y) c.

(** every ordered choice has at least two alternatives: [alt2], [grammar_alt2] (Model/Premises.v) *)

Lemma uses_app a b : uses (a ++ b) = uses a ++ uses b.
Proof. unfold uses. apply flat_map_app. Qed.

Lemma used_in_app k a b : used_in k (a ++ b) = used_in k a || used_in k b.
Proof. unfold used_in. apply existsb_app. Qed.

Lemma used_in_here b n l : used_in (b, n) ((b, n) :: l) = true.
Proof. unfold used_in. cbn [existsb fst snd]. rewrite eqb_reflx, Nat.eqb_refl. reflexivity. Qed.

Lemma decl_ok_mono y a b : decl_ok y a = true -> decl_ok y (a ++ b) = true.
Proof. destruct y; cbn [decl_ok]; auto; intros H; rewrite uses_app, used_in_app, H; reflexivity. Qed.

Lemma du_app a : forall b, du a = true -> du b = true -> du (a ++ b) = true.
Proof.
  unfold du. induction a as [|y a IH]; intros b Ha Hb; [exact Hb|]. cbn [app du_list] in *.
  apply andb_true_iff in Ha as [Ha Ha2]. apply andb_true_iff in Ha as [Ha0 Ha1].
  rewrite (decl_ok_mono _ _ _ Ha0), Ha1. cbn [andb]. apply IH; auto.
Qed.

Lemma du_plain c : nodecl c = true -> forallb du1 c = true -> du c = true.
Proof.
  unfold du, nodecl. induction c as [|y c IH]; intros Hn Hd; [reflexivity|]. cbn [forallb du_list] in *.
  apply andb_true_iff in Hn as [Hn0 Hn1]. apply andb_true_iff in Hd as [Hd0 Hd1].
  rewrite Hd0, (IH Hn1 Hd1). destruct y; try reflexivity; discriminate.
Qed.

Lemma du_forall c : du c = true -> forallb du1 c = true.
Proof.
  unfold du. induction c as [|y c IH]; intros H; [reflexivity|]. cbn [du_list forallb] in *.
  apply andb_true_iff in H as [H H2]. apply andb_true_iff in H as [_ H1]. rewrite H1, (IH H2). reflexivity.
Qed.

Section Use.
Variable g : grammar.
Variable ast : bool.
Variable inl asu used : nat -> bool.
Hypothesis Hg : grammar_alt2 g.
Notation emit := (emit g ast inl asu used).
Notation lbl_if := (lbl_if used).

(** what is shown of every fragment: no declaration at its top level, and everything declared inside is used *)
Definition fine (c : list code) : Prop := nodecl c = true /\ du c = true.

Lemma fine_nil : fine [].  Proof. split; reflexivity. Qed.
Lemma fine_app a b : fine a -> fine b -> fine (a ++ b).
Proof. intros [A1 A2] [B1 B2]. split; [unfold nodecl in *; rewrite forallb_app, A1, B1; reflexivity|apply du_app; auto]. Qed.
Lemma fine_lbl_if n : fine (lbl_if n).
Proof. unfold Emit.lbl_if. destruct (used n); split; reflexivity. Qed.
Lemma fine_atoms c : nodecl c = true -> forallb (fun x => match x with KBlock _ | KSwitch _ _ => false | _ => true end) c = true -> fine c.
Proof.
  intros Hn Ha. split; [exact Hn|]. apply du_plain; [exact Hn|].
  apply forallb_forall. intros x Hx. rewrite forallb_forall in Ha. specialize (Ha x Hx). destruct x; try reflexivity; discriminate.
Qed.

(** a block that saves [n] at its head and uses it in its tail *)
Lemma fine_block_save n body tail : fine body -> fine tail -> used_in (false, n) (uses tail) = true ->
  fine [KBlock (KSave n :: body ++ tail)].
Proof.
  intros Hb Ht Hu. split; [reflexivity|]. unfold du. cbn [du_list decl_ok du1]. rewrite andb_true_r. cbn [andb].
  fold (du (body ++ tail)). rewrite uses_app, used_in_app, Hu, orb_true_r. cbn [andb].
  apply du_app; [apply Hb|apply Ht].
Qed.
Lemma fine_block_savep n body tail : fine body -> fine tail -> used_in (true, n) (uses tail) = true ->
  fine [KBlock (KSaveP n :: body ++ tail)].
Proof.
  intros Hb Ht Hu. split; [reflexivity|]. unfold du. cbn [du_list decl_ok du1]. rewrite andb_true_r. cbn [andb].
  fold (du (body ++ tail)). rewrite uses_app, used_in_app, Hu, orb_true_r. cbn [andb].
  apply du_app; [apply Hb|apply Ht].
Qed.

Ltac uh := cbn [uses flat_map uses1 app]; apply used_in_here.

Definition ffine (f : expr -> nat -> bool -> bool -> nat -> res) : Prop :=
  forall e ko pd mk l, alt2 e = true -> fine (fst (fst (f e ko pd mk l))).

Lemma seq_fine f : ffine f -> forall es ko pd mk l ll, forallb alt2 es = true -> fine (fst (fst (seq_emit f es ko pd mk l ll))).
Proof.
  intros Hf. induction es as [|x es IH]; intros ko pd mk l ll Ha; cbn [seq_emit]; [apply fine_nil|].
  cbn [forallb] in Ha. apply andb_true_iff in Ha as [Hx Ha].
  pose proof (Hf x ko pd mk l Hx) as Fx. destruct (f x ko pd mk l) as [[c l1] ll1]. cbn [fst] in Fx.
  specialize (IH ko false false l1 (match c with [] => ll | _ => ll1 end) Ha).
  destruct (seq_emit f es ko false false l1 _) as [[c' l2] ll2]. cbn [fst] in *. apply fine_app; auto.
Qed.

(** the alternatives of a choice; with at least two of them the saved position is restored *)
Lemma alt_fine f : ffine f -> forall es ko ok l, forallb alt2 es = true ->
  fine (fst (alt_emit used f es ko ok l)) /\ (2 <= length es -> used_in (false, ok) (uses (fst (alt_emit used f es ko ok l))) = true).
Proof.
  intros Hf. induction es as [|x es IH]; intros ko ok l Ha; cbn [alt_emit]; [split; [apply fine_nil|cbn; lia]|].
  cbn [forallb] in Ha. apply andb_true_iff in Ha as [Hx Ha].
  destruct es as [|y es].
  - pose proof (Hf x ko false false l Hx) as Fx. destruct (f x ko false false l) as [[c l1] ll1]. cbn [fst] in *.
    split; [exact Fx|cbn; lia].
  - pose proof (Hf x l false false (S l) Hx) as Fx. destruct (f x l false false (S l)) as [[c l1] ll1]. cbn [fst] in Fx.
    destruct (IH ko ok l1 Ha) as [Fr _]. destruct (alt_emit used f (y :: es) ko ok l1) as [c' l2]. cbn [fst] in *.
    split.
    + apply fine_app; [exact Fx|]. apply (fine_app [KJmp ok]); [split; reflexivity|]. apply fine_app; [apply fine_lbl_if|].
      apply (fine_app [KRestore ok]); [split; reflexivity|exact Fr].
    + intros _. rewrite !uses_app, !used_in_app.
      replace (used_in (false, ok) (uses [KRestore ok])) with true by (symmetry; apply used_in_here).
      rewrite !orb_true_r. reflexivity.
Qed.

Lemma cases_fine f : ffine f -> forall cs ko l, forallb (fun c => alt2 (snd c)) cs = true ->
  forallb (fun k => nodecl k && du k) (fst (cases_emit f cs ko l)) = true.
Proof.
  intros Hf. induction cs as [|[keys b] cs IH]; intros ko l Ha; cbn [cases_emit]; [reflexivity|].
  cbn [forallb snd] in Ha. apply andb_true_iff in Ha as [Hx Ha].
  pose proof (Hf b ko true (Nat.ltb 1 (length keys)) l Hx) as Fx.
  destruct (f b ko true (Nat.ltb 1 (length keys)) l) as [[c l1] ll]. cbn [fst] in Fx.
  specialize (IH ko l1 Ha). destruct (cases_emit f cs ko l1) as [rest l2]. cbn [fst forallb] in *.
  rewrite IH, andb_true_r.
  assert (Fb : fine (c ++ (if ll then [KBrk] else []))) by (apply fine_app; [exact Fx|destruct ll; split; reflexivity]).
  destruct Fb as [B1 B2]. rewrite B1, B2. reflexivity.
Qed.

Lemma ipush_fine f : ffine f -> forall r ko pd mk l, fine (fst (fst (ipush_emit g f r ko pd mk l))).
Proof.
  intros Hf r ko pd mk l. unfold ipush_emit. destruct (nth_error g r) as [[b|k|]|] eqn:E; cbn [fst];
    try (split; reflexivity; fail);
    try (apply (fine_block_savep l [] [KUseP l]); [apply fine_nil|split; reflexivity|uh]; fail).
  pose proof (Hf b ko pd mk (S l) (Hg _ _ E)) as Fb. destruct (f b ko pd mk (S l)) as [[c l1] ll]. cbn [fst] in *.
  apply (fine_block_savep l c [KUseP l]); [exact Fb|split; reflexivity|uh].
Qed.

Lemma du_switch cls d : forallb (fun k => nodecl k && du k) cls = true -> fine d -> fine [KSwitch cls d].
Proof.
  intros Hc [D1 D2]. split; [reflexivity|]. unfold du. cbn [du_list decl_ok du1]. rewrite andb_true_r. cbn [andb].
  fold (du d). rewrite D2, andb_true_r. apply forallb_forall. intros k Hk. rewrite forallb_forall in Hc.
  specialize (Hc k Hk). apply andb_true_iff in Hc as [_ Hc]. exact Hc.
Qed.

Lemma emit_fine n : ffine (emit n).
Proof.
  induction n as [|n IH]; intros e ko pd mk l Ha; [apply fine_nil|].
  destruct e; cbn [Emit.emit alt2] in *.
  - destruct pd; split; reflexivity.
  - destruct (pd && negb mk)%bool; split; reflexivity.
  - destruct pd; split; reflexivity.
  - destruct (inl r); [|destruct (asu r); split; reflexivity].
    pose proof (ipush_fine _ IH r ko pd mk l) as F. destruct (ipush_emit g (emit n) r ko pd mk l) as [[c l1] ll]. exact F.
  - split; reflexivity.
  - split; reflexivity.
  - apply fine_nil.
  - apply fine_nil.
  - apply seq_fine; auto.
  - (* EAlt *) apply andb_true_iff in Ha as [Hlen Ha]. apply Nat.leb_le in Hlen.
    destruct (alt_fine _ IH es ko l (S l) Ha) as [F U]. specialize (U Hlen).
    destruct (alt_emit used (emit n) es ko l (S l)) as [c l1]. cbn [fst] in *.
    apply fine_app; [|apply fine_lbl_if].
    pose proof (fine_block_save l [] c fine_nil F U) as B. exact B.
  - (* EAnd *) pose proof (IH e ko false false (S l) Ha) as F. destruct (emit n e ko false false (S l)) as [[c l1] ll]. cbn [fst] in *.
    apply (fine_block_save l c [KRestore l]); [exact F|split; reflexivity|uh].
  - (* ENot *) pose proof (IH e l false false (S l) Ha) as F. destruct (emit n e l false false (S l)) as [[c l1] ll]. cbn [fst] in *.
    apply (fine_block_save l c ([KJmp ko] ++ lbl_if l ++ [KRestore l])); [exact F| |].
    + apply (fine_app [KJmp ko]); [split; reflexivity|]. apply fine_app; [apply fine_lbl_if|split; reflexivity].
    + rewrite !uses_app, !used_in_app. replace (used_in (false, l) (uses [KRestore l])) with true by (symmetry; apply used_in_here). rewrite !orb_true_r. reflexivity.
  - (* EQuery *) pose proof (IH e l false false (S (S l)) Ha) as F. destruct (emit n e l false false (S (S l))) as [[c l1] ll]. cbn [fst] in *.
    apply fine_app; [|apply fine_lbl_if].
    apply (fine_block_save l c ([KJmp (S l)] ++ lbl_if l ++ [KRestore l])); [exact F| |].
    + apply (fine_app [KJmp (S l)]); [split; reflexivity|]. apply fine_app; [apply fine_lbl_if|split; reflexivity].
    + rewrite !uses_app, !used_in_app. replace (used_in (false, l) (uses [KRestore l])) with true by (symmetry; apply used_in_here). rewrite !orb_true_r. reflexivity.
  - (* EStar *) pose proof (IH e (S l) false false (S (S l)) Ha) as F. destruct (emit n e (S l) false false (S (S l))) as [[c l1] ll]. cbn [fst] in *.
    apply fine_app; [apply fine_lbl_if|].
    apply (fine_block_save (S l) c ([KJmp l] ++ lbl_if (S l) ++ [KRestore (S l)])); [exact F| |].
    + apply (fine_app [KJmp l]); [split; reflexivity|]. apply fine_app; [apply fine_lbl_if|split; reflexivity].
    + rewrite !uses_app, !used_in_app. replace (used_in (false, S l) (uses [KRestore (S l)])) with true by (symmetry; apply used_in_here). rewrite !orb_true_r. reflexivity.
  - (* EPlus *) pose proof (IH e ko false false (S (S l)) Ha) as F1. destruct (emit n e ko false false (S (S l))) as [[c1 l1] ll1]. cbn [fst] in *.
    pose proof (IH e (S l) false false l1 Ha) as F2. destruct (emit n e (S l) false false l1) as [[c2 l2] ll2]. cbn [fst] in *.
    apply fine_app; [exact F1|]. apply fine_app; [apply fine_lbl_if|].
    apply (fine_block_save (S l) c2 ([KJmp l] ++ lbl_if (S l) ++ [KRestore (S l)])); [exact F2| |].
    + apply (fine_app [KJmp l]); [split; reflexivity|]. apply fine_app; [apply fine_lbl_if|split; reflexivity].
    + rewrite !uses_app, !used_in_app. replace (used_in (false, S l) (uses [KRestore (S l)])) with true by (symmetry; apply used_in_here). rewrite !orb_true_r. reflexivity.
  - (* EPush *) pose proof (IH e ko pd mk (S l) Ha) as F. destruct (emit n e ko pd mk (S l)) as [[c l1] ll]. cbn [fst] in *.
    apply (fine_block_savep l c (if ast then [KUseP l] else [KUseP l; KSt])); [exact F|destruct ast; split; reflexivity|destruct ast; uh].
  - (* ESwitch *) apply andb_true_iff in Ha as [Hc Hd].
    pose proof (cases_fine _ IH cs ko (S l) Hc) as Fc. destruct (cases_emit (emit n) cs ko (S l)) as [cls l1]. cbn [fst] in *.
    pose proof (IH e ko false false l1 Hd) as Fd. destruct (emit n e ko false false l1) as [[cd l2] lld]. cbn [fst] in *.
    apply fine_app; [|apply fine_lbl_if].
    assert (Fs : fine [KSwitch cls (cd ++ (if lld then [KBrk] else []))]).
    { apply du_switch; [exact Fc|]. apply fine_app; [exact Fd|destruct lld; split; reflexivity]. }
    destruct Fs as [_ S2]. split; [reflexivity|]. unfold du. cbn [du_list decl_ok du1]. rewrite andb_true_r. cbn [andb]. exact S2.
Qed.

Lemma du_save n c tail : du c = true -> du tail = true -> used_in (false, n) (uses tail) = true -> du (KSave n :: c ++ tail) = true.
Proof.
  intros Hc Ht Hu. unfold du. cbn [du_list decl_ok du1]. rewrite uses_app, used_in_app, Hu, orb_true_r. cbn [andb].
  apply du_app; assumption.
Qed.

(** a whole rule function: the position saved on entry is handed to memoize or restored on failure *)
Theorem rule_emit_uses n r ko : du (fst (rule_emit g ast inl asu used n r ko)) = true.
Proof.
  unfold rule_emit. pose proof (ipush_fine _ (emit_fine n) r ko false false (S ko)) as F.
  destruct (ipush_emit g (emit n) r ko false false (S ko)) as [[c l1] ll]. cbn [fst] in *. destruct F as [F1 F2].
  destruct ast, (used ko) eqn:Eu; cbn [orb app].
  - change (du (KSt :: KSave ko :: c ++ [KMemo ko; KSt; KLbl ko; KMemo ko; KRestore ko; KSt]) = true).
    unfold du. cbn [du_list decl_ok du1 andb]. apply (du_save ko c); [exact F2|reflexivity|uh].
  - change (du (KSt :: KSave ko :: c ++ [KMemo ko; KSt]) = true).
    unfold du. cbn [du_list decl_ok du1 andb]. apply (du_save ko c); [exact F2|reflexivity|uh].
  - change (du (KSave ko :: c ++ [KSt; KLbl ko; KRestore ko; KSt]) = true).
    apply (du_save ko c); [exact F2|reflexivity|].
    cbn [uses flat_map uses1 app]. apply used_in_here.
  - apply du_app; [exact F2|reflexivity].
Qed.

End Use.

(** every function of the file *)
Lemma pass_uses g ast inline asu undef cr fl real u : grammar_alt2 g -> forall rs r l,
  Forall (fun o => match o with Some F => du F = true | None => True end) (pass g ast inline asu undef cr fl real u rs r l).
Proof.
  intros Hg. induction rs as [|rb rs IH]; intros r l; cbn [pass]; [constructor|].
  destruct (match rb with RNil => if undef r then real else true | _ => false end); [constructor; [exact I|apply IH]|].
  destruct (negb (reached cr r)); [constructor; [exact I|apply IH]|].
  destruct (once inline cr r && negb (l =? 0))%bool; [constructor; [exact I|apply IH]|].
  pose proof (rule_emit_uses g ast (once inline cr) asu u Hg fl r l) as U.
  destruct (rule_emit g ast (once inline cr) asu u fl r l) as [c l1]. cbn [fst] in U.
  constructor; [exact U|apply IH].
Qed.

Theorem emit_all_uses g ast inline asu undef :
  grammar_alt2 g ->
  Forall (fun o => match o with Some F => du F = true | None => True end) (emit_all g ast inline asu undef).
Proof. intros Hg. unfold emit_all. apply pass_uses. exact Hg. Qed.

(** the -switch pass keeps every ordered choice at two alternatives or more *)
From PegV Require Import Proofs.OptSound.
Lemma alt2_opt T : forall e, alt2 e = true -> alt2 (opt T e) = true.
Proof.
  induction e using expr_ind2; cbn [alt2]; intros Ha; try (cbn [opt alt2]; auto; fail).
  - cbn [opt alt2]. apply forallb_forall. intros y Hy. apply in_map_iff in Hy as (x & <- & Hx).
    rewrite Forall_forall in H. rewrite forallb_forall in Ha. apply H; auto.
  - apply andb_true_iff in Ha as [Hlen Ha]. rewrite forallb_forall in Ha. rewrite Forall_forall in H.
    assert (Hplain : alt2 (EAlt (map (opt T) es)) = true).
    { cbn [alt2]. rewrite map_length, Hlen. cbn [andb]. apply forallb_forall. intros y Hy. apply in_map_iff in Hy as (x & <- & Hx). apply H; auto. }
    rewrite opt_alt.
    destruct (negb (forallb (fun x => fst (fs T x)) es)); [exact Hplain|].
    destruct (Nat.leb (length es) (2 + length (filter (fun b => b) (inter_flags (sets_of T es))))); [exact Hplain|].
    destruct (rev (place_cases (unord_of T es) 0%Z [])) as [|[sd d] before] eqn:Epl; [exact Hplain|].
    destruct (existsb (fun x => too_big (fst x)) before); [exact Hplain|].
    cbv zeta.
    assert (Hperm : forall y, In y (rev before ++ [(sd, d)]) -> In y (unord_of T es)).
    { intros y Hy. assert (E : place_cases (unord_of T es) 0%Z [] = rev before ++ [(sd, d)]).
      { rewrite <- (rev_involutive (place_cases _ _ _)). rewrite Epl. reflexivity. }
      rewrite <- E in Hy. pose proof (place_cases_perm (unord_of T es) 0%Z []) as Pm. cbn [app] in Pm.
      eapply Permutation.Permutation_in; [exact Pm|exact Hy]. }
    assert (Hun : forall s e', In (s, e') (unord_of T es) -> exists x, In x es /\ e' = opt T x).
    { intros s e' Hin. unfold unord_of, items_of, sets_of in Hin. apply in_map_iff in Hin as ([fl0 [s0 e0]] & E & Hin). cbn [snd] in E. inv E.
      apply filter_In in Hin as [Hin _]. apply in_combine_r in Hin. apply in_combine_r in Hin. apply in_map_iff in Hin as (x & <- & Hx). exists x. auto. }
    assert (Hsw : alt2 (ESwitch (map (fun x => (keys_of (fst x), snd x)) (rev before)) d) = true).
    { cbn [alt2]. apply andb_true_iff. split.
      - apply forallb_forall. intros [keys b] Hin. apply in_map_iff in Hin as ([s e'] & E & Hin). cbn [fst snd] in *. injection E as E1 E2. subst keys b.
        destruct (Hun s e' (Hperm _ (in_or_app _ _ _ (or_introl Hin)))) as (x & Hx & ->). apply H; auto.
      - assert (Hd : In (sd, d) (rev before ++ [(sd, d)])) by (apply in_or_app; right; left; reflexivity).
        destruct (Hun sd d (Hperm _ Hd)) as (x & Hx & ->). apply H; auto. }
    destruct (ordered_of T es) as [|o1 os] eqn:Eo; [exact Hsw|].
    cbn [alt2]. rewrite app_length. cbn [length]. replace (Nat.leb 2 (S (length os) + 1)) with true by (symmetry; apply Nat.leb_le; lia).
    cbn [andb]. rewrite forallb_app. apply andb_true_iff. split; [|cbn [forallb]; rewrite Hsw; reflexivity].
    apply forallb_forall. intros y Hy. rewrite <- Eo in Hy.
    unfold ordered_of, items_of, sets_of in Hy. apply in_map_iff in Hy as ([fl0 [s0 e0]] & E & Hy). cbn [snd] in E. subst e0.
    apply filter_In in Hy as [Hy _]. apply in_combine_r in Hy. apply in_combine_r in Hy. apply in_map_iff in Hy as (x & <- & Hx). apply H; auto.
Qed.

Theorem optimize_alt2 g : grammar_alt2 g -> grammar_alt2 (optimize g).
Proof.
  intros Hg r b' Hb'. unfold optimize in Hb'. destruct (fs_table g) as [T st]. destruct (negb st); [eapply Hg; eauto|].
  assert (E : forall (l : list rbody) s k rb, nth_error (map (fun p => match snd p with
                | RBody b => if nth (fst p) (fst (count_rules g)) false then RBody (opt T b) else RBody b
                | rb => rb end) (combine (seq s (length l)) l)) k = Some rb ->
              exists rb0, nth_error l k = Some rb0 /\ (forall b0, rb0 = RBody b0 -> rb = RBody (opt T b0) \/ rb = RBody b0) /\ (forall b1, rb = RBody b1 -> exists b0, rb0 = RBody b0)).
  { induction l as [|y l IH]; intros s k rb Hk; [destruct k; discriminate|].
    destruct k; cbn [length seq combine map nth_error fst snd] in *.
    - inv Hk. exists y. split; [reflexivity|]. split.
      + intros b0 ->. destruct (nth s (fst (count_rules g)) false); auto.
      + intros b1 Hb1. destruct y; [eauto|discriminate|discriminate].
    - apply (IH (S s) k rb Hk). }
  destruct (E g 0 r _ Hb') as (rb0 & Hr0 & Hc & Hx). destruct (Hx b' eq_refl) as (b0 & ->).
  destruct (Hc b0 eq_refl) as [Eq|Eq]; inv Eq; [apply alt2_opt|]; eapply Hg; eauto.
Qed.

(** executable form, evaluated per grammar *)
Lemma grammar_alt2_b_ok g : grammar_alt2_b g = true -> grammar_alt2 g.
Proof.
  intros H r b Hr. unfold grammar_alt2_b in H. rewrite forallb_forall in H. apply (H (RBody b)). eapply nth_error_In; eauto.
Qed.

(** Compile's first passes keep the shape of every expression, so the linked tree has the property
    when the tree the front end built has it *)
From PegV Require Import Model.Link Proofs.LinkProofs.
Lemma link_e_alt2 nuser : forall e st, alt2 (fst (link_e nuser e st)) = alt2 e.
Proof.
  induction e using expr_ind2; intros st; cbn [link_e alt2]; try reflexivity.
  - destruct (r <? nuser); [reflexivity|]. destruct (lookup_u (l_undef st) r); reflexivity.
  - (* ESeq *)
    assert (G : forall st0, forallb alt2 (fst ((fix go (l : list expr) (st : lstate) : list expr * lstate :=
                 match l with
                 | [] => ([], st)
                 | x :: l' => let '(x', st1) := link_e nuser x st in let '(l'', st2) := go l' st1 in (x' :: l'', st2)
                 end) es st0)) = forallb alt2 es).
    { induction H as [|x es Hx Hes IHes]; intros st0; [reflexivity|].
      specialize (Hx st0). destruct (link_e nuser x st0) as [x' st1]. specialize (IHes st1).
      destruct ((fix go (l : list expr) (st : lstate) : list expr * lstate :=
                 match l with
                 | [] => ([], st)
                 | x :: l' => let '(x', st1) := link_e nuser x st in let '(l'', st2) := go l' st1 in (x' :: l'', st2)
                 end) es st1) as [l'' st2]. cbn [fst forallb] in *. rewrite Hx, IHes. reflexivity. }
    specialize (G st).
    destruct ((fix go (l : list expr) (st : lstate) : list expr * lstate :=
                 match l with
                 | [] => ([], st)
                 | x :: l' => let '(x', st1) := link_e nuser x st in let '(l'', st2) := go l' st1 in (x' :: l'', st2)
                 end) es st) as [es' st']. cbn [fst alt2] in *. exact G.
  - (* EAlt *)
    assert (G : forall st0, forallb alt2 (fst ((fix go (l : list expr) (st : lstate) : list expr * lstate :=
                 match l with
                 | [] => ([], st)
                 | x :: l' => let '(x', st1) := link_e nuser x st in let '(l'', st2) := go l' st1 in (x' :: l'', st2)
                 end) es st0)) = forallb alt2 es /\
               length (fst ((fix go (l : list expr) (st : lstate) : list expr * lstate :=
                 match l with
                 | [] => ([], st)
                 | x :: l' => let '(x', st1) := link_e nuser x st in let '(l'', st2) := go l' st1 in (x' :: l'', st2)
                 end) es st0)) = length es).
    { induction H as [|x es Hx Hes IHes]; intros st0; [split; reflexivity|].
      specialize (Hx st0). destruct (link_e nuser x st0) as [x' st1]. specialize (IHes st1).
      destruct ((fix go (l : list expr) (st : lstate) : list expr * lstate :=
                 match l with
                 | [] => ([], st)
                 | x :: l' => let '(x', st1) := link_e nuser x st in let '(l'', st2) := go l' st1 in (x' :: l'', st2)
                 end) es st1) as [l'' st2]. cbn [fst forallb length] in *. destruct IHes as [I1 I2]. rewrite Hx, I1, I2. split; reflexivity. }
    destruct (G st) as [G1 G2].
    destruct ((fix go (l : list expr) (st : lstate) : list expr * lstate :=
                 match l with
                 | [] => ([], st)
                 | x :: l' => let '(x', st1) := link_e nuser x st in let '(l'', st2) := go l' st1 in (x' :: l'', st2)
                 end) es st) as [es' st']. cbn [fst alt2] in *. rewrite G1, G2. reflexivity.
  - specialize (IHe st). destruct (link_e nuser e st) as [e' st']. exact IHe.
  - specialize (IHe st). destruct (link_e nuser e st) as [e' st']. exact IHe.
  - specialize (IHe st). destruct (link_e nuser e st) as [e' st']. exact IHe.
  - specialize (IHe st). destruct (link_e nuser e st) as [e' st']. exact IHe.
  - specialize (IHe st). destruct (link_e nuser e st) as [e' st']. exact IHe.
  - set (st1 := match l_ptx st with Some _ => st | None => _ end). specialize (IHe st1). destruct (link_e nuser e st1) as [e' st']. exact IHe.
Qed.

Theorem link_alt2 bodies g ptx acts :
  link bodies = (g, ptx, acts) -> forallb alt2 bodies = true -> grammar_alt2 g.
Proof.
  unfold link. destruct (link_rules (length bodies) bodies (mkl [] [] None [])) as [bs st] eqn:E. intros H Ha. inv H.
  assert (Hbs : forallb alt2 bs = true).
  { revert E Ha. generalize (mkl [] [] None []). generalize (length bodies) as nu. intros nu.
    revert bs st. induction bodies as [|b bodies IH]; intros bs st st0 E Ha; cbn [link_rules] in E; [inv E; reflexivity|].
    pose proof (link_e_alt2 nu b st0) as Hb. destruct (link_e nu b st0) as [b' st1].
    destruct (link_rules nu bodies st1) as [bs' st2] eqn:Er. inv E. cbn [forallb fst] in *.
    apply andb_true_iff in Ha as [Ha1 Ha2]. rewrite Hb, Ha1. cbn [andb]. eapply IH; eauto. }
  destruct (link_rules_spec (length bodies) bodies _ _ _ E) as ((_ & _ & A3) & _ & _).
  assert (I0 : linv (length bodies) (mkl [] [] None [])).
  { split; [reflexivity|]. split; [intros n i []|]. split; [intros i Hi; discriminate|intros rb []]. }
  destruct (A3 I0) as (_ & _ & _ & J4).
  intros r b Hr. apply nth_error_In in Hr. apply in_app_or in Hr as [Hr|Hr].
  - apply in_map_iff in Hr as (x & Ex & Hx). inv Ex. rewrite forallb_forall in Hbs. apply Hbs. exact Hx.
  - specialize (J4 _ Hr). destruct J4.
Qed.
