(** The goto semantics of Model/Exec.v is deterministic: a statement, a statement list and a call have at most one
    outcome.  With it, "there is an execution that returns r" (Proofs/SEmitSound.v) becomes "every execution returns r". *)
From Coq Require Import List Arith Bool ZArith.
From PegV Require Import Base.Tac Spec.Syntax Spec.Peg Model.Machine Model.SEmit Model.Exec.
Import ListNotations.

Scheme xi_mut := Induction for xi Sort Prop
  with xs_mut := Induction for xs Sort Prop
  with xcall_mut := Induction for xcall Sort Prop.
Combined Scheme exec_mutind from xi_mut, xs_mut, xcall_mut.

Section Det.
Variable buf : list rune.
Variable penv : nat -> nat -> bool.
Variable o : opts.
Variable fn : nat -> option (list scode).
Notation xi := (xi buf penv o fn).
Notation xs := (xs buf penv o fn).
Notation xcall := (xcall buf penv o fn).

(** use the induction hypotheses on whatever the other derivation contains, then compare *)
Ltac use_ih :=
  repeat match goal with
  | IH : forall res', xcall ?r ?m res' -> ?res = res', H : xcall ?r ?m ?res2 |- _ =>
      let E := fresh in pose proof (IH _ H) as E; clear H; try discriminate E; try (injection E as E); subst
  | IH : forall out', xi ?i ?x out' -> ?out = out', H : xi ?i ?x ?out2 |- _ =>
      let E := fresh in pose proof (IH _ H) as E; clear H; try discriminate E; try (injection E as E); subst
  | IH : forall out', xs ?c ?k ?x out' -> ?out = out', H : xs ?c ?k ?x ?out2 |- _ =>
      let E := fresh in pose proof (IH _ H) as E; clear H; try discriminate E; try (injection E as E); subst
  end.

Lemma exec_det :
  (forall i x out, xi i x out -> forall out', xi i x out' -> out = out') /\
  (forall c k x out, xs c k x out -> forall out', xs c k x out' -> out = out') /\
  (forall r m res, xcall r m res -> forall res', xcall r m res' -> res = res').
Proof.
  apply exec_mutind; cbv beta; intros;
    match goal with |- _ = ?o' =>
      match goal with H' : xi _ _ o' |- _ => inversion H'; subst; clear H'
                    | H' : xs _ _ _ o' |- _ => inversion H'; subst; clear H'
                    | H' : xcall _ _ o' |- _ => inversion H'; subst; clear H' end end;
    try reflexivity; try congruence; use_ih; try reflexivity; try congruence.
  all: try (match goal with A : ?a = Some ?u, B : ?a = Some ?v |- _ => assert (u = v) by congruence; subst end; use_ih; try reflexivity; try congruence).
Qed.

Corollary xcall_det r m res res' : xcall r m res -> xcall r m res' -> res = res'.
Proof. intros H H'. exact (proj2 (proj2 exec_det) r m res H res' H'). Qed.
End Det.
