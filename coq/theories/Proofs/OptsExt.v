(** The machine depends on its options only through their values: two option records that agree on every
    rule run alike. *)
From PegV Require Import Base.Tac Spec.Syntax Spec.Peg Model.Machine.
From Coq Require Import List Arith Lia Bool.
Import ListNotations.

Section Ext.
Variable g : grammar.
Variable ptx : nat.
Variable buf : list rune.
Variable penv : nat -> nat -> bool.
Variable ast memo : bool.
Variable inl inl' asu asu' : nat -> bool.
Hypothesis Hinl : forall r, inl r = inl' r.
Hypothesis Hasu : forall r, asu r = asu' r.
Let o := mkopts ast memo inl asu.
Let o' := mkopts ast memo inl' asu'.
Notation runT := (expr -> bool -> bool -> mstate -> option mres).
Definition feq (f f' : runT) : Prop := forall e pd mk st, f e pd mk st = f' e pd mk st.

Lemma seq_run_ext f f' : feq f f' -> forall es pd mk st, seq_run f es pd mk st = seq_run f' es pd mk st.
Proof.
  intros H es. induction es as [|e es IH]; intros pd mk st; cbn [seq_run]; [reflexivity|].
  rewrite H. destruct (f' e pd mk st) as [[|[|] s]|]; try reflexivity. apply IH.
Qed.
Lemma alt_run_ext f f' : feq f f' -> forall es pd mk p0 t0 st, alt_run f es pd mk p0 t0 st = alt_run f' es pd mk p0 t0 st.
Proof.
  intros H es. induction es as [|e es IH]; intros pd mk p0 t0 st; cbn [alt_run]; [reflexivity|].
  rewrite H. destruct (f' e pd mk st) as [[|[|] s]|]; try reflexivity. destruct es; [reflexivity|apply IH].
Qed.
Lemma ipush_run_ext f f' : feq f f' -> forall r pd mk st, ipush_run g o f r pd mk st = ipush_run g o' f' r pd mk st.
Proof.
  intros H r pd mk st. unfold ipush_run. destruct (nth_error g r) as [[b|k|]|]; try reflexivity. rewrite H. reflexivity.
Qed.
Lemma rule_fn_ext f f' : feq f f' -> forall r st, rule_fn g o f r st = rule_fn g o' f' r st.
Proof.
  intros H r st. unfold rule_fn. rewrite (ipush_run_ext f f' H). reflexivity.
Qed.
Lemma call_run_ext f f' : feq f f' -> forall r st, call_run g o f r st = call_run g o' f' r st.
Proof.
  intros H r st. unfold call_run. rewrite (rule_fn_ext f f' H). cbn [o_asu o o']. rewrite Hasu. reflexivity.
Qed.

Lemma run_f_ext n : feq (run_f g ptx buf penv o n) (run_f g ptx buf penv o' n).
Proof.
  induction n as [|n IH]; intros e pd mk st; [reflexivity|].
  destruct e; cbn [run_f]; try reflexivity; rewrite ?IH; try reflexivity.
  - cbn [o_inline o o']. rewrite Hinl. destruct (inl' r); [apply ipush_run_ext|apply call_run_ext]; exact IH.
  - apply seq_run_ext. exact IH.
  - apply alt_run_ext. exact IH.
  - destruct (run_f g ptx buf penv o' n e false false st) as [[|[|] s]|]; try reflexivity. apply IH.
  - destruct (run_f g ptx buf penv o' n e false false st) as [[|[|] s]|]; try reflexivity. apply IH.
  - destruct (rd buf st); [|reflexivity]. destruct (find_case_keys cs r) as [[keys e1]|]; [apply IH|reflexivity].
Qed.

Lemma entry_ext n r st : entry g ptx buf penv o n r st = entry g ptx buf penv o' n r st.
Proof. unfold entry. cbn [o_inline o o']. rewrite Hinl. rewrite (run_f_ext n). reflexivity. Qed.
End Ext.
