(** -noast: the generated parser keeps no tokens and no memo table; actions run inline when reached and
    [text] holds the most recently completed capture.  The machine (o_ast = false) returns the verdict
    and position of the reference semantics, and its action log is Execute's loop applied to ALL events
    of the attempt in time order (captures set text, action events are logged with the current text). *)
From PegV Require Import Base.Tac Base.ListX Spec.Syntax Spec.Peg Spec.WF Model.Machine Model.SkipCheck Model.Runtime
  Proofs.PegFacts Proofs.RuntimeProofs.

Section SimN.
Variable g : grammar.
Variable ptx : nat.
Variable buf : list rune.
Variable penv : nat -> nat -> bool.
Variable o : opts.

Hypothesis Hast : o_ast o = false.
Hypothesis Hg : forall r b, nth_error g r = Some (RBody b) -> expr_ok b = true.
Hypothesis Hsw : grammar_swok g (o_inline o).
Hypothesis Hasu : forall r, o_asu o r = true -> forall n p evs, peg_ev g ptx buf penv n (EName r) p <> Some (Fail, evs).
Hypothesis Hbuf : forall c, In c buf -> c <> endSymbol.
(** the capture pseudo-rule is not a real rule *)
Hypothesis Hptx : forall rb, nth_error g ptx = Some rb -> rb = RNil.

Notation ev := (peg_ev g ptx buf penv).
Notation run := (run_f g ptx buf penv o).
Notation chain := (chain g (o_inline o)).
Notation swok := (swok g (o_inline o)).
Notation exec := (execute g ptx).
Notation txa := (text_after ptx).

Definition flag_ok (e : expr) (pd mk : bool) (st : mstate) : Prop :=
  pd = true -> exists c, nth_error buf (pos st) = Some c /\ chain e mk c.
Lemma flag_ok_false e mk st : flag_ok e false mk st.
Proof. intros H; discriminate. Qed.

(** relation between the spec result and the machine result, relative to the text register and log before *)
Definition simn (txt : nat * nat) (lg : list (nat * (nat * nat))) (r : out) (m : option mres) : Prop :=
  exists st', m = Some (Ret (match fst r with Fail => false | Succ _ _ => true end) st') /\
    text st' = txa (snd r) txt /\ alog st' = lg ++ exec (snd r) txt /\
    match fst r with Succ p' _ => pos st' = p' /\ p' <= length buf | Fail => True end.

Definition IHn (n : nat) : Prop :=
  forall e pd mk st r, pos st <= length buf -> expr_ok e = true -> swok e -> flag_ok e pd mk st ->
    ev n e (pos st) = Some r -> simn (text st) (alog st) r (run n e pd mk st).

Lemma simn_nil st b p : (b = true -> pos st = p /\ p <= length buf) ->
  simn (text st) (alog st) ((if b then Succ p [] else Fail), []) (Some (Ret b st)).
Proof.
  intros H. exists st. destruct b; cbn [fst snd]; rewrite app_nil_r; (split; [reflexivity|]); (split; [reflexivity|]); (split; [reflexivity|]); auto.
Qed.

(** sequencing of two results *)
Lemma simn_seq txt lg (p1 : nat) f1 evs1 st1 r2 m :
  text st1 = txa evs1 txt -> alog st1 = lg ++ exec evs1 txt ->
  simn (text st1) (alog st1) r2 m ->
  simn txt lg (match fst r2 with Fail => Fail | Succ p2 f2 => Succ p2 (f1 ++ f2) end, evs1 ++ snd r2) m.
Proof.
  intros Ht Hl (st' & R & T & L & P). exists st'.
  rewrite Ht in T. rewrite Hl, Ht in L. cbn [fst snd].
  rewrite text_after_app, execute_app, app_assoc.
  destruct r2 as [[|p2 f2] evs2]; cbn [fst snd] in *; auto.
Qed.

(** events of a failed / abandoned sub-run are kept, position is restored by the catcher *)
Lemma simn_prepend txt lg evs1 st1 r2 m :
  text st1 = txa evs1 txt -> alog st1 = lg ++ exec evs1 txt ->
  simn (text st1) (alog st1) r2 m -> simn txt lg (fst r2, evs1 ++ snd r2) m.
Proof.
  intros Ht Hl (st' & R & T & L & P). exists st'.
  rewrite Ht in T. rewrite Hl, Ht in L. cbn [fst snd].
  rewrite text_after_app, execute_app, app_assoc. auto.
Qed.

Lemma seq_simn n (IH : IHn n) :
  forall es pd mk st r, pos st <= length buf -> forallb expr_ok es = true -> Forall swok es ->
    flag_ok (ESeq es) pd mk st ->
    seq_ev (ev n) es (pos st) = Some r -> simn (text st) (alog st) r (seq_run (run n) es pd mk st).
Proof.
  induction es as [|e es IHes]; intros pd mk st r Hp Hes Hsws Hfl H; cbn [seq_ev seq_run forallb] in *.
  - inv H. apply (simn_nil st true). auto.
  - apply andb_true_iff in Hes as [He Hes]. pose proof (Forall_inv Hsws) as Hsw1; pose proof (Forall_inv_tail Hsws) as Hsw2.
    assert (Hfe : flag_ok e pd mk st).
    { intros Hpd. destruct (Hfl Hpd) as (c & Hc & Hch). exists c. split; [exact Hc|]. inv Hch. assumption. }
    destruct (ev n e (pos st)) as [[[|p1 f1] evs1]|] eqn:E; try discriminate.
    + inv H. destruct (IH e pd mk st _ Hp He Hsw1 Hfe E) as (st' & R & X). rewrite R. exists st'. auto.
    + destruct (IH e pd mk st _ Hp He Hsw1 Hfe E) as (st1 & R & T1 & L1 & P1 & B1). cbn [fst snd] in *. rewrite R.
      destruct (seq_ev (ev n) es p1) as [r2|] eqn:E2; [|discriminate].
      rewrite <- P1 in E2. assert (Hp1 : pos st1 <= length buf) by lia.
      pose proof (IHes false false st1 r2 Hp1 Hes Hsw2 (flag_ok_false _ _ _) E2) as S2.
      pose proof (simn_seq _ _ p1 f1 evs1 st1 r2 _ T1 L1 S2) as S3.
      destruct r2 as [[|p2 f2] evs2]; inv H; exact S3.
Qed.

Lemma alt_simn n (IH : IHn n) :
  forall es st r, pos st <= length buf -> forallb expr_ok es = true -> Forall swok es ->
    alt_ev (ev n) es (pos st) = Some r ->
    forall t0, simn (text st) (alog st) r (alt_run (run n) es false false (pos st) t0 st).
Proof.
  induction es as [|e es IHes]; intros st r Hp Hes Hsws H t0; cbn [alt_ev alt_run forallb] in *.
  - inv H. apply (simn_nil st false 0). discriminate.
  - apply andb_true_iff in Hes as [He Hes]. pose proof (Forall_inv Hsws) as Hsw1; pose proof (Forall_inv_tail Hsws) as Hsw2.
    destruct (ev n e (pos st)) as [[[|p1 f1] evs1]|] eqn:E; try discriminate.
    + destruct (IH e false false st _ Hp He Hsw1 (flag_ok_false _ _ _) E) as (st1 & R & T1 & L1 & _). cbn [fst snd] in *. rewrite R.
      destruct es as [|e2 es].
      * inv H. exists st1. cbn [fst snd]. auto.
      * destruct (alt_ev (ev n) (e2 :: es) (pos st)) as [[r2 evs2]|] eqn:E2; [|discriminate]. inv H.
        set (st1' := restore (pos st) t0 st1).
        assert (E2' : alt_ev (ev n) (e2 :: es) (pos st1') = Some (r2, evs2)) by exact E2.
        pose proof (IHes st1' _ Hp Hes Hsw2 E2' t0) as S2.
        exact (simn_prepend _ _ evs1 st1' (r2, evs2) _ T1 L1 S2).
    + inv H. destruct (IH e false false st _ Hp He Hsw1 (flag_ok_false _ _ _) E) as (st1 & R & X). rewrite R. exists st1. auto.
Qed.

Lemma term_simn oks okm (Hs : okm endSymbol = false) (Hagree : forall c, c <> endSymbol -> oks c = okm c) st :
  pos st <= length buf ->
  simn (text st) (alog st) (term buf oks (pos st)) (Some (mterm buf okm st)).
Proof.
  intros Hp. unfold term, mterm, rd, sbuf.
  destruct (nth_error buf (pos st)) as [c|] eqn:E.
  - rewrite nth_error_app1 by (apply nth_error_Some; congruence). rewrite E.
    rewrite <- (Hagree c) by (apply Hbuf; eapply nth_error_In; eauto).
    assert (pos st < length buf) by (apply nth_error_Some; congruence).
    destruct (oks c).
    + exists (advance st). cbn. rewrite app_nil_r. repeat split; auto.
    + apply (simn_nil st false 0). discriminate.
  - apply nth_error_None in E. assert (pos st = length buf) by lia.
    rewrite nth_error_app2 by lia. replace (pos st - length buf) with 0 by lia. cbn [nth_error]. rewrite Hs.
    apply (simn_nil st false 0). discriminate.
Qed.

(** wrapping a successful body in a rule token (no trace in -noast besides maxToken) *)
Lemma exec_rule_event r b e txt : (forall k, nth_error g r <> Some (RAct k)) -> r <> ptx ->
  exec [(r, (b, e))] txt = [] /\ txa [(r, (b, e))] txt = txt.
Proof.
  intros Hna Hne. cbn [execute]. unfold text_after. cbn [fold_left fst snd].
  destruct (Nat.eqb_spec r ptx); [contradiction|].
  destruct (nth_error g r) as [[?|k|]|] eqn:E; auto. exfalso. eapply Hna; eauto.
Qed.

Lemma ipush_simn n (IH : IHn n) r pd mk st rr :
  pos st <= length buf -> (pd = true -> o_inline o r = true) -> flag_ok (EName r) pd mk st ->
  ev (S n) (EName r) (pos st) = Some rr ->
  simn (text st) (alog st) rr (ipush_run g o (run n) r pd mk st).
Proof.
  intros Hp Hinl Hfl H. cbn [peg_ev] in H. unfold ipush_run.
  destruct (nth_error g r) as [[b|k|]|] eqn:Eg; try discriminate.
  - pose proof (Hg _ _ Eg) as Hb. pose proof (Hsw _ _ Eg) as Hswb.
    assert (Hne : r <> ptx) by (intros ->; specialize (Hptx _ Eg); discriminate).
    assert (Hfb : flag_ok b pd mk st).
    { intros Hpd. destruct (Hfl Hpd) as (c & Hc & Hch). exists c. split; [exact Hc|].
      inv Hch;
        first
        [ match goal with H1 : nth_error g r = Some (RBody ?b0), H2 : SkipCheck.chain _ _ ?b0 _ _ |- _ =>
            rewrite Eg in H1; inv H1; exact H2 end
        | match goal with H1 : forall b, nth_error g r <> Some (RBody b) |- _ => exfalso; exact (H1 _ Eg) end
        | match goal with H1 : o_inline o r = false |- _ => rewrite (Hinl eq_refl) in H1; discriminate end ]. }
    destruct (ev n b (pos st)) as [[[|p1 f1] evs1]|] eqn:E; try discriminate; inv H;
      destruct (IH b pd mk st _ Hp Hb Hswb Hfb E) as (st1 & R & T1 & L1 & P1); cbn [fst snd] in *; rewrite R.
    + exists st1. cbn [fst snd]. auto.
    + destruct P1 as [P1 B1].
      destruct (exec_rule_event r (pos st) p1 (txa evs1 (text st))) as [X1 X2]; [intros k Hk; congruence|exact Hne|].
      exists (add o r (pos st) st1). cbn [fst snd]. split; [reflexivity|].
      unfold add. rewrite Hast. cbn [text alog pos]. rewrite text_after_app, execute_app, X1, X2, app_nil_r. auto.
  - inv H. rewrite Hast. exists (log_action k st). cbn [fst snd]. split; [reflexivity|].
    assert (Hne : r <> ptx) by (intros ->; specialize (Hptx _ Eg); discriminate).
    unfold log_action, text_after. cbn [text alog pos execute fold_left fst snd].
    destruct (Nat.eqb_spec r ptx); [contradiction|]. rewrite Eg. auto.
Qed.

Lemma rule_fn_simn n (IH : IHn n) r st rr :
  pos st <= length buf -> ev (S n) (EName r) (pos st) = Some rr ->
  simn (text st) (alog st) rr (rule_fn g o (run n) r st).
Proof.
  intros Hp H.
  pose proof (ipush_simn n IH r false false st rr Hp (fun Hx => ltac:(discriminate)) (flag_ok_false _ _ _) H) as (st1 & R & T1 & L1 & P1).
  unfold rule_fn. rewrite Hast. rewrite R. destruct rr as [[|p1 f1] evs1]; cbn [fst snd] in *.
  - exists (restore (pos st) (tix st) st1). cbn [fst snd restore text alog]. auto.
  - exists st1. cbn [fst snd]. auto.
Qed.

Lemma call_simn n (IH : IHn n) r st rr :
  pos st <= length buf -> ev (S n) (EName r) (pos st) = Some rr ->
  simn (text st) (alog st) rr (call_run g o (run n) r st).
Proof.
  intros Hp H.
  pose proof (rule_fn_simn n IH r st rr Hp H) as RF.
  unfold call_run. destruct (o_asu o r) eqn:Ea; [|exact RF].
  destruct rr as [[|p1 f1] evs1].
  - exfalso. eapply Hasu; eauto.
  - destruct RF as (st' & R' & X). rewrite R'. exists st'. auto.
Qed.

Lemma find_case_keys_spec cs c keys e1 :
  find_case_keys cs c = Some (keys, e1) -> In (keys, e1) cs /\ In c keys.
Proof.
  induction cs as [|[k x] cs IH]; cbn [find_case_keys]; [discriminate|].
  destruct (existsb (Z.eqb c) k) eqn:E.
  - intros H; inv H. split; [left; reflexivity|]. apply existsb_exists in E as (y & Hy & Ey). apply Z.eqb_eq in Ey. subst. exact Hy.
  - intros H. destruct (IH H). split; [right|]; auto.
Qed.

Lemma find_case_keys_end cs :
  forallb (fun c => forallb (fun k => Z.ltb k endSymbol) (fst c) && expr_ok (snd c)) cs = true ->
  find_case_keys cs endSymbol = None.
Proof.
  induction cs as [|[k x] cs IH]; cbn [find_case_keys forallb]; intros H; [reflexivity|].
  apply andb_true_iff in H as [H1 H2]. cbn [fst snd] in H1. apply andb_true_iff in H1 as [Hk _].
  destruct (existsb (Z.eqb endSymbol) k) eqn:E; [|auto].
  apply existsb_exists in E as (y & Hy & Ey). apply Z.eqb_eq in Ey. subst y.
  rewrite forallb_forall in Hk. specialize (Hk _ Hy). apply Z.ltb_lt in Hk. lia.
Qed.

Lemma swok_switch_case cs d keys e1 c :
  swok (ESwitch cs d) -> In (keys, e1) cs -> In c keys -> swok e1 /\ chain e1 (Nat.ltb 1 (length keys)) c.
Proof.
  cbn [SkipCheck.swok]. intros [_ H] Hin Hc. induction cs as [|[k x] cs IH]; [destruct Hin|].
  destruct H as [[H1 H2] H3]. destruct Hin as [E|Hin]; [inv E; auto|auto].
Qed.

Lemma swok_seq es : swok (ESeq es) <-> Forall swok es.
Proof. cbn [SkipCheck.swok]. induction es as [|x es IH]; [split; constructor|]. rewrite IH. split; [intros [A B]; constructor; auto|intros H; inv H; auto]. Qed.
Lemma swok_alt es : swok (EAlt es) <-> Forall swok es.
Proof. cbn [SkipCheck.swok]. induction es as [|x es IH]; [split; constructor|]. rewrite IH. split; [intros [A B]; constructor; auto|intros H; inv H; auto]. Qed.

(** position bounds of the semantics (needed because -noast keeps no token invariant to lean on) *)
Lemma ev_pos n e p p' f evs : p <= length buf -> ev n e p = Some (Succ p' f, evs) -> p' <= length buf.
Proof.
  intros Hp H. destruct (Forest.ev_ok g ptx buf penv n e p _ Hp H) as [_ [_ B]]. exact B.
Qed.

Theorem simN n : IHn n.
Proof.
  induction n as [|n IH]; intros e pd mk st r Hp He Hswe Hfl H; [discriminate|].
  destruct e; cbn [expr_ok] in He; try discriminate; cbn [peg_ev] in H; cbn [run_f andb negb].
  - (* EDot *) destruct pd.
    + destruct (Hfl eq_refl) as (c & _ & Hch). inv Hch.
    + inv H. apply term_simn; auto.
      intros c Hc. destruct (Z.eqb_spec c endSymbol); [contradiction|reflexivity].
  - (* EChar *) apply Z.ltb_lt in He.
    destruct pd; [destruct mk|]; cbn [andb negb].
    + inv H. apply term_simn; auto. destruct (Z.eqb_spec c endSymbol); [lia|reflexivity].
    + destruct (Hfl eq_refl) as (c0 & Hc0 & Hch). inv Hch. inv H. unfold term. rewrite Hc0, Z.eqb_refl.
      assert (pos st < length buf) by (apply nth_error_Some; congruence).
      exists (advance st). cbn. rewrite app_nil_r. repeat split; auto.
    + inv H. apply term_simn; auto. destruct (Z.eqb_spec c endSymbol); [lia|reflexivity].
  - (* ERange *) apply Z.ltb_lt in He. destruct pd.
    + destruct (Hfl eq_refl) as (c0 & Hc0 & Hch). inv Hch. inv H. unfold term. rewrite Hc0.
      match goal with Hr : in_range lo hi c0 = true |- _ => rewrite Hr end.
      assert (pos st < length buf) by (apply nth_error_Some; congruence).
      exists (advance st). cbn. rewrite app_nil_r. repeat split; auto.
    + inv H. apply term_simn; auto. unfold in_range. destruct (Z.leb_spec endSymbol hi); [lia|]. rewrite andb_false_r. reflexivity.
  - (* EName *)
    assert (H' : ev (S n) (EName r0) (pos st) = Some r) by exact H.
    destruct (o_inline o r0) eqn:Einl; [apply ipush_simn | apply call_simn]; auto.
  - (* EPred *) inv H. apply (simn_nil st (penv k (pos st)) (pos st)). auto.
  - (* EState *) inv H. apply (simn_nil st true (pos st)). auto.
  - (* EAct *) inv H. apply (simn_nil st true (pos st)). auto.
  - (* ENil *) inv H. apply (simn_nil st true (pos st)). auto.
  - (* ESeq *) apply seq_simn; auto. apply swok_seq. exact Hswe.
  - (* EAlt *) apply alt_simn; auto. apply swok_alt. exact Hswe.
  - (* EAnd *)
    destruct (ev n e (pos st)) as [[[|p1 f1] evs1]|] eqn:E; try discriminate; inv H;
      destruct (IH e false false st _ Hp He Hswe (flag_ok_false _ _ _) E) as (st1 & R & T1 & L1 & P1); cbn [fst snd] in *; rewrite R.
    + exists st1. cbn [fst snd]. auto.
    + exists (restore (pos st) (tix st) st1). cbn [fst snd restore text alog pos]. auto.
  - (* ENot *)
    destruct (ev n e (pos st)) as [[[|p1 f1] evs1]|] eqn:E; try discriminate; inv H;
      destruct (IH e false false st _ Hp He Hswe (flag_ok_false _ _ _) E) as (st1 & R & T1 & L1 & P1); cbn [fst snd] in *; rewrite R.
    + exists (restore (pos st) (tix st) st1). cbn [fst snd restore text alog pos]. auto.
    + exists st1. cbn [fst snd]. auto.
  - (* EQuery *)
    destruct (ev n e (pos st)) as [[[|p1 f1] evs1]|] eqn:E; try discriminate; inv H;
      destruct (IH e false false st _ Hp He Hswe (flag_ok_false _ _ _) E) as (st1 & R & T1 & L1 & P1); cbn [fst snd] in *; rewrite R.
    + exists (restore (pos st) (tix st) st1). cbn [fst snd restore text alog pos]. auto.
    + exists st1. cbn [fst snd]. auto.
  - (* EStar *)
    destruct (ev n e (pos st)) as [[[|p1 f1] evs1]|] eqn:E; try discriminate;
      destruct (IH e false false st _ Hp He Hswe (flag_ok_false _ _ _) E) as (st1 & R & T1 & L1 & P1); cbn [fst snd] in *; rewrite R.
    + inv H. exists (restore (pos st) (tix st) st1). cbn [fst snd restore text alog pos]. auto.
    + destruct P1 as [P1 B1].
      destruct (ev n (EStar e) p1) as [r2|] eqn:E2; [|discriminate].
      rewrite <- P1 in E2. assert (Hp1 : pos st1 <= length buf) by lia.
      pose proof (IH (EStar e) false false st1 r2 Hp1 He Hswe (flag_ok_false _ _ _) E2) as S2.
      pose proof (simn_seq _ _ p1 f1 evs1 st1 r2 _ T1 L1 S2) as S3.
      destruct r2 as [[|p2 f2] evs2]; inv H; exact S3.
  - (* EPlus *)
    destruct (ev n e (pos st)) as [[[|p1 f1] evs1]|] eqn:E; try discriminate;
      destruct (IH e false false st _ Hp He Hswe (flag_ok_false _ _ _) E) as (st1 & R & T1 & L1 & P1); cbn [fst snd] in *; rewrite R.
    + inv H. exists st1. cbn [fst snd]. auto.
    + destruct P1 as [P1 B1].
      destruct (ev n (EStar e) p1) as [r2|] eqn:E2; [|discriminate].
      rewrite <- P1 in E2. assert (Hp1 : pos st1 <= length buf) by lia.
      pose proof (IH (EStar e) false false st1 r2 Hp1 He Hswe (flag_ok_false _ _ _) E2) as S2.
      pose proof (simn_seq _ _ p1 f1 evs1 st1 r2 _ T1 L1 S2) as S3.
      destruct r2 as [[|p2 f2] evs2]; inv H; exact S3.
  - (* EPush: text := [begin, position) *)
    assert (Hfe : flag_ok e pd mk st).
    { intros Hpd. destruct (Hfl Hpd) as (c & Hc & Hch). exists c. split; [exact Hc|]. inv Hch. assumption. }
    destruct (ev n e (pos st)) as [[[|p1 f1] evs1]|] eqn:E; try discriminate; inv H;
      destruct (IH e pd mk st _ Hp He Hswe Hfe E) as (st1 & R & T1 & L1 & P1); cbn [fst snd] in *; rewrite R.
    + exists st1. cbn [fst snd]. auto.
    + destruct P1 as [P1 B1]. rewrite Hast.
      exists (set_text (pos st) (pos st1) st1). cbn [fst snd]. split; [reflexivity|].
      unfold set_text. cbn [text alog pos]. rewrite text_after_app, execute_app.
      unfold text_after at 1. cbn [fold_left fst snd execute]. rewrite Nat.eqb_refl. cbn [execute]. rewrite app_nil_r.
      rewrite P1. auto.
  - (* ESwitch *)
    apply andb_true_iff in He as [Hec Hed].
    assert (Hswd : swok e) by (cbn [SkipCheck.swok] in Hswe; apply Hswe).
    unfold rd, sbuf.
    destruct (nth_error buf (pos st)) as [c|] eqn:Ec.
    + rewrite nth_error_app1 by (apply nth_error_Some; congruence). rewrite Ec.
      unfold find_case in H. destruct (find_case_keys cs c) as [[keys e1]|] eqn:Ef; cbn [option_map snd] in H.
      * destruct (find_case_keys_spec _ _ _ _ Ef) as [Hin Hck].
        destruct (swok_switch_case _ _ _ _ _ Hswe Hin Hck) as [Hsw1 Hch1].
        assert (He1 : expr_ok e1 = true).
        { rewrite forallb_forall in Hec. specialize (Hec _ Hin). cbn [fst snd] in Hec. apply andb_true_iff in Hec as [_ X]. exact X. }
        apply IH; auto. intros _. exists c. auto.
      * apply IH; auto. apply flag_ok_false.
    + apply nth_error_None in Ec. assert (pos st = length buf) by lia.
      rewrite nth_error_app2 by lia. replace (pos st - length buf) with 0 by lia. cbn [nth_error].
      rewrite (find_case_keys_end _ Hec). apply IH; auto. apply flag_ok_false.
Qed.

End SimN.
