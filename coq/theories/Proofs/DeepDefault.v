(** The side condition of the code-level theorems ([deep_table_b], Model/SEmit.v) holds for every grammar when
    -inline is off: the fuel of the emitter exceeds the size of every body, the rules countRules marks are closed under
    the names in their bodies (Proofs/CountReach.v), and nothing is compiled in place. *)
From PegV Require Import Base.Tac Spec.Syntax Model.Analyses Model.Emit Model.SEmit Proofs.EmitWF Proofs.EmitUse Proofs.CountReach.
From PegV Require Export Model.Premises.
From Coq Require Import List Arith Lia Bool.
Import ListNotations.

(** every name in a rule body stands for a rule or an action: [closed_names] (Model/Premises.v) *)
Lemma closed_names_b_ok g : closed_names_b g = true -> closed_names g.
Proof.
  intros H r b Hb r' Hr'. unfold closed_names_b in H. rewrite forallb_forall in H.
  specialize (H _ (nth_error_In _ _ Hb)). cbn in H. rewrite forallb_forall in H. specialize (H r' Hr').
  destruct (nth_error g r') as [[b'|k|]|]; try discriminate; eexists; (split; [reflexivity|discriminate]).
Qed.

Section Deep.
Variable g : grammar.
Variable inlo inl callable : nat -> bool.
Hypothesis Hinlo : forall r, inlo r = false.
Hypothesis Hinl : forall r, inl r = false.

Lemma deep_plain : forall nf e, esize e <= nf -> alt2 e = true ->
  (forall r, In r (names_of e) -> (exists rb, nth_error g r = Some rb /\ rb <> RNil) /\ callable r = true) ->
  deep g inlo inl callable nf e = true.
Proof.
  induction nf as [|nf IH]; intros e Hs Ha Hn; [destruct e; cbn [esize] in Hs; lia|].
  assert (Hlist : forall es, fold_right (fun x a => esize x + a) 0 es <= nf -> forallb alt2 es = true ->
            (forall r, In r (flat_map names_of es) -> (exists rb, nth_error g r = Some rb /\ rb <> RNil) /\ callable r = true) ->
            forallb (deep g inlo inl callable nf) es = true).
  { induction es as [|x es IHes]; intros S0 A0 N0; [reflexivity|]. cbn [fold_right forallb flat_map] in *.
    apply andb_true_iff in A0 as [A1 A2]. rewrite (IH x ltac:(lia) A1 ltac:(intros r Hr; apply N0; apply in_or_app; left; exact Hr)).
    cbn [andb]. apply IHes; [lia|exact A2|intros r Hr; apply N0; apply in_or_app; right; exact Hr]. }
  destruct e; cbn [SEmit.deep esize alt2 names_of] in *; try reflexivity.
  - destruct (Hn r (or_introl eq_refl)) as ((rb & Er & Nr) & Hc). rewrite Er, Hinl, Hinlo. destruct rb; [exact Hc|exact Hc|congruence].
  - apply Hlist; [lia|exact Ha|exact Hn].
  - apply andb_true_iff in Ha as [Hl Ha]. destruct es as [|x es]; [cbn in Hl; discriminate|]. apply Hlist; [lia|exact Ha|exact Hn].
  - apply IH; [lia|exact Ha|exact Hn].
  - apply IH; [lia|exact Ha|exact Hn].
  - apply IH; [lia|exact Ha|exact Hn].
  - apply IH; [lia|exact Ha|exact Hn].
  - apply IH; [lia|exact Ha|exact Hn].
  - apply IH; [lia|exact Ha|exact Hn].
  - apply andb_true_iff in Ha as [Hc Hd]. apply andb_true_iff. split.
    + clear Hd. revert Hs Hc Hn. induction cs as [|x cs IHcs]; intros S0 A0 N0; [reflexivity|]. cbn [fold_right forallb flat_map] in *.
      apply andb_true_iff in A0 as [A1 A2].
      rewrite (IH (snd x) ltac:(lia) A1 ltac:(intros r Hr; apply N0; apply in_or_app; left; apply in_or_app; left; exact Hr)). cbn [andb].
      apply IHcs; [lia|exact A2|]. intros r Hr. apply N0. apply in_app_or in Hr as [Hr|Hr]; apply in_or_app; [left; apply in_or_app; right; exact Hr|right; exact Hr].
    + apply IH; [lia|exact Hd|intros r Hr; apply Hn; apply in_or_app; right; exact Hr].
Qed.
End Deep.

Lemma rsize_le_gsize g r rb : nth_error g r = Some rb -> rsize rb <= gsize g.
Proof.
  unfold gsize. revert r. induction g as [|x l IH]; intros r H; [destruct r; discriminate|]. destruct r; cbn [nth_error fold_right] in *; [inv H; lia|].
  specialize (IH r H). lia.
Qed.

Theorem deep_table_default g : grammar_alt2 g -> closed_names g -> deep_table_b g false = true.
Proof.
  intros Ha Hc. unfold deep_table_b. cbv zeta. apply forallb_forall. intros r Hr.
  destruct (reached (count_rules g) r) eqn:Ere; [|reflexivity].
  assert (Hit : forall r0, nth r0 (inline_table false g) false = false).
  { intros r0. unfold inline_table. generalize g as l. intros l. revert r0. induction l as [|a l IH]; intros [|r0]; cbn; auto. }
  rewrite Hit. cbn [negb andb implb].
  unfold rdeep. destruct (nth_error g r) as [[b|k|]|] eqn:Eg; try reflexivity.
  apply deep_plain; [exact Hit|intros r0; reflexivity| |eapply Ha; eauto|].
  - pose proof (rsize_le_gsize g r _ Eg) as L. cbn [rsize] in L. unfold fuel. nia.
  - intros r' Hr'. destruct (Hc r b Eg r' Hr') as (rb & Er' & Nr'). split; [eauto|].
    assert (Hl : r' < length g) by (apply nth_error_Some; congruence).
    exact (count_rules_closed g r Ere b Eg r' Hr' Hl).
Qed.

(** * the code-level theorems without the side condition, for the default options (-inline off) *)
From PegV Require Import Spec.Peg Spec.WF Model.Machine Model.Gen Model.Exec Proofs.Top Proofs.SEmitFile.

Lemma slot_ok_noinline g r : slot_ok g false r.
Proof.
  unfold slot_ok, mk_opts. cbn [o_inline]. unfold inline_table. generalize g as l. intros l. revert r. induction l as [|a l IH]; intros [|r]; cbn; auto.
Qed.

Theorem generated_code_default g ptx buf penv :
  good_grammar g -> good_buf buf -> good_switches g -> grammar_alt2 g -> closed_names g ->
  forall memo n r st0 rr, reached (count_rules g) r = true -> peg_parse g ptx buf penv (S n) r = Some rr ->
  forall res, xcall buf penv (mk_opts true memo false g) (gen_fn g ptx false) r (reset st0) res ->
    match rr with
    | (Succ p f, _) => exists st', res = Ret true st' /\ pos st' = p /\ live st' = Syntax.flat f
    | (Fail, evs) => exists st', res = Ret false st' /\ maxtok st' = first_furthest evs
    end.
Proof.
  intros Hg Hb Hs Ha Hc memo n r st0 rr Hr H res Hx.
  exact (generated_code_every_execution g ptx buf penv Hg Hb Hs memo false n r st0 rr (deep_table_default g Ha Hc) (slot_ok_noinline g r) Hr H res Hx).
Qed.

(** ... from the first rule, as Parse() does by default *)
Corollary generated_code_default_start g ptx buf penv :
  good_grammar g -> good_buf buf -> good_switches g -> grammar_alt2 g -> closed_names g ->
  forall memo n st0 rr, peg_parse g ptx buf penv (S n) 0 = Some rr ->
  forall res, xcall buf penv (mk_opts true memo false g) (gen_fn g ptx false) 0 (reset st0) res ->
    match rr with
    | (Succ p f, _) => exists st', res = Ret true st' /\ pos st' = p /\ live st' = Syntax.flat f
    | (Fail, evs) => exists st', res = Ret false st' /\ maxtok st' = first_furthest evs
    end.
Proof.
  intros Hg Hb Hs Ha Hc memo n st0 rr H. apply (generated_code_default g ptx buf penv Hg Hb Hs Ha Hc memo n 0 st0 rr); [|exact H].
  apply (count_rules_start g). intros E. rewrite E in H. unfold peg_parse in H. cbn in H. discriminate.
Qed.
Print Assumptions generated_code_default_start.
