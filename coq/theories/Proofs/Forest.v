(** Shape of what the reference semantics returns: the derivation forest of a success is well nested
    (children consecutive and inside their parent, everything inside [start, end] and inside the input),
    and every event of an attempt is a token with begin <= end <= length of the input. *)
From PegV Require Import Base.Tac Spec.Syntax Spec.Peg.

Inductive wf_dt : dt -> Prop :=
| wf_node r b e kids : b <= e -> wf_forest b e kids -> wf_dt (Node r b e kids)
with wf_forest : nat -> nat -> list dt -> Prop :=
| wf_nil lo hi : lo <= hi -> wf_forest lo hi []
| wf_cons lo hi r b e kids rest :
    lo <= b -> wf_dt (Node r b e kids) -> wf_forest e hi rest -> wf_forest lo hi (Node r b e kids :: rest).

Lemma wf_forest_le f : forall lo hi, wf_forest lo hi f -> lo <= hi.
Proof.
  induction f as [|[r b e kids] f IH]; intros lo hi H; inv H; auto.
  match goal with H : wf_dt _ |- _ => inv H end.
  match goal with H : wf_forest e hi f |- _ => specialize (IH _ _ H) end. lia.
Qed.

Lemma wf_forest_app f1 : forall lo mid hi f2, wf_forest lo mid f1 -> wf_forest mid hi f2 -> wf_forest lo hi (f1 ++ f2).
Proof.
  induction f1 as [|[r b e kids] f1 IH]; intros lo mid hi f2 H1 H2; cbn.
  - inv H1. pose proof (wf_forest_le _ _ _ H2).
    destruct f2 as [|[r b e kids] f2]; inv H2; constructor; auto; lia.
  - inv H1. econstructor; eauto.
Qed.

Lemma wf_forest_weaken f : forall lo lo' hi, wf_forest lo hi f -> lo' <= lo -> wf_forest lo' hi f.
Proof. intros lo lo' hi H L. inv H; constructor; auto; lia. Qed.

Definition tok_ok (len : nat) (t : tok) : Prop := tk_begin t <= tk_end t /\ tk_end t <= len.
Definition evs_ok (len : nat) (evs : list tok) : Prop := Forall (tok_ok len) evs.

Section Forest.
Variable g : grammar.
Variable ptx : nat.
Variable buf : list rune.
Variable penv : nat -> nat -> bool.
Notation ev := (peg_ev g ptx buf penv).

Definition res_ok (p : nat) (r : out) : Prop :=
  evs_ok (length buf) (snd r) /\
  match fst r with
  | Succ p' f => wf_forest p p' f /\ p' <= length buf
  | Fail => True
  end.

Definition IHf (n : nat) : Prop := forall e p r, p <= length buf -> ev n e p = Some r -> res_ok p r.

Ltac triv_ok := unfold res_ok, evs_ok; cbn [fst snd]; split; [constructor|]; try exact I; try (split; [constructor|]; lia).

Lemma term_ok ok p : p <= length buf -> res_ok p (term buf ok p).
Proof.
  intros Hp. unfold term, res_ok, evs_ok.
  destruct (nth_error buf p) eqn:E; [destruct (ok r)|]; cbn [fst snd]; (split; [constructor|]); auto.
  assert (p < length buf) by (apply nth_error_Some; congruence). split; [constructor|]; lia.
Qed.

Lemma seq_ok n (IH : IHf n) : forall es p r, p <= length buf -> seq_ev (ev n) es p = Some r -> res_ok p r.
Proof.
  induction es as [|e es IHes]; intros p r Hp H; cbn [seq_ev] in H.
  - inv H. triv_ok.
  - destruct (ev n e p) as [[[|p1 f1] evs1]|] eqn:E; try discriminate.
    + inv H. exact (IH _ _ _ Hp E).
    + destruct (IH _ _ _ Hp E) as [A [B C]]. cbn [fst snd] in *.
      destruct (seq_ev (ev n) es p1) as [[[|p2 f2] evs2]|] eqn:E2; try discriminate; inv H;
        destruct (IHes _ _ C E2) as [A2 B2]; cbn [fst snd] in *; split; cbn [fst snd]; try (apply Forall_app; auto); auto.
      destruct B2 as [B2 C2]. split; auto. eapply wf_forest_app; eauto.
Qed.

Lemma alt_ok n (IH : IHf n) : forall es p r, p <= length buf -> alt_ev (ev n) es p = Some r -> res_ok p r.
Proof.
  induction es as [|e es IHes]; intros p r Hp H; cbn [alt_ev] in H.
  - inv H. triv_ok.
  - destruct (ev n e p) as [[[|p1 f1] evs1]|] eqn:E; try discriminate.
    + destruct (IH _ _ _ Hp E) as [A _]. cbn [fst snd] in *. destruct es as [|e2 es]; [inv H; split; cbn; auto|].
      destruct (alt_ev (ev n) (e2 :: es) p) as [[r2 evs2]|] eqn:E2; try discriminate. inv H.
      destruct (IHes _ _ Hp E2) as [A2 B2]. cbn [fst snd] in *. split; cbn [fst snd]; auto. apply Forall_app; auto.
    + inv H. exact (IH _ _ _ Hp E).
Qed.

Lemma wrap_ok r p p1 f1 evs1 : p <= length buf -> res_ok p (Succ p1 f1, evs1) ->
  res_ok p (Succ p1 [Node r p p1 f1], evs1 ++ [(r, (p, p1))]).
Proof.
  intros Hp [A [B C]]. cbn [fst snd] in *. pose proof (wf_forest_le _ _ _ B).
  split; cbn [fst snd].
  - apply Forall_app; split; auto. constructor; [|constructor]. split; cbn; lia.
  - split; auto. econstructor; [lia| |constructor; lia]. constructor; auto.
Qed.

Lemma ev_ok n : IHf n.
Proof.
  induction n as [|n IH]; intros e p r Hp H; [discriminate|].
  destruct e; cbn [peg_ev] in H.
  - inv H. apply term_ok; auto.
  - inv H. apply term_ok; auto.
  - inv H. apply term_ok; auto.
  - destruct (nth_error g r0) as [[b|k|]|]; try discriminate.
    + destruct (ev n b p) as [[[|p1 f1] evs1]|] eqn:E; try discriminate; inv H.
      * exact (IH _ _ _ Hp E).
      * apply wrap_ok; auto. exact (IH _ _ _ Hp E).
    + inv H. apply (wrap_ok r0 p p [] []); auto. triv_ok.
  - inv H. destruct (penv k p); triv_ok.
  - inv H. triv_ok.
  - inv H. triv_ok.
  - inv H. triv_ok.
  - eapply seq_ok; eauto.
  - eapply alt_ok; eauto.
  - destruct (ev n e p) as [[[|p1 f1] evs1]|] eqn:E; try discriminate; inv H; destruct (IH _ _ _ Hp E) as [A B]; split; cbn [fst snd] in *; auto.
    split; [constructor|]; lia.
  - destruct (ev n e p) as [[[|p1 f1] evs1]|] eqn:E; try discriminate; inv H; destruct (IH _ _ _ Hp E) as [A B]; split; cbn [fst snd] in *; auto.
    split; [constructor|]; lia.
  - destruct (ev n e p) as [[[|p1 f1] evs1]|] eqn:E; try discriminate; inv H; destruct (IH _ _ _ Hp E) as [A B]; split; cbn [fst snd] in *; auto.
    split; [constructor|]; lia.
  - destruct (ev n e p) as [[[|p1 f1] evs1]|] eqn:E; try discriminate.
    + inv H. destruct (IH _ _ _ Hp E) as [A B]; split; cbn [fst snd] in *; auto. split; [constructor|]; lia.
    + destruct (IH _ _ _ Hp E) as [A [B C]]. cbn [fst snd] in *.
      destruct (ev n (EStar e) p1) as [[[|p2 f2] evs2]|] eqn:E2; try discriminate; inv H;
        destruct (IH _ _ _ C E2) as [A2 B2]; cbn [fst snd] in *; split; cbn [fst snd]; try (apply Forall_app; auto); auto.
      destruct B2 as [B2 C2]. split; auto. eapply wf_forest_app; eauto.
  - destruct (ev n e p) as [[[|p1 f1] evs1]|] eqn:E; try discriminate.
    + inv H. exact (IH _ _ _ Hp E).
    + destruct (IH _ _ _ Hp E) as [A [B C]]. cbn [fst snd] in *.
      destruct (ev n (EStar e) p1) as [[[|p2 f2] evs2]|] eqn:E2; try discriminate; inv H;
        destruct (IH _ _ _ C E2) as [A2 B2]; cbn [fst snd] in *; split; cbn [fst snd]; try (apply Forall_app; auto); auto.
      destruct B2 as [B2 C2]. split; auto. eapply wf_forest_app; eauto.
  - destruct (ev n e p) as [[[|p1 f1] evs1]|] eqn:E; try discriminate; inv H.
    + exact (IH _ _ _ Hp E).
    + apply wrap_ok; auto. exact (IH _ _ _ Hp E).
  - destruct (nth_error buf p) as [c|]; [destruct (find_case cs c)|]; eapply IH; eauto.
Qed.

End Forest.

(** tokens of a well-nested forest are in range *)
Scheme wf_dt_mut := Minimality for wf_dt Sort Prop
  with wf_forest_mut := Minimality for wf_forest Sort Prop.

Definition inb (lo hi : nat) (t : tok) : Prop := lo <= tk_begin t /\ tk_begin t <= tk_end t /\ tk_end t <= hi.

Lemma inb_weaken lo hi lo' hi' l : lo' <= lo -> hi <= hi' -> Forall (inb lo hi) l -> Forall (inb lo' hi') l.
Proof. intros A B H. eapply Forall_impl; [|exact H]. unfold inb. intros; lia. Qed.

Lemma flat_cons t f : flat (t :: f) = postorder t ++ flat f.
Proof. reflexivity. Qed.

Lemma wf_forest_toks : forall lo hi f, wf_forest lo hi f -> Forall (inb lo hi) (flat f).
Proof.
  apply (wf_forest_mut
           (fun t => match t with Node r b e kids => Forall (inb b e) (postorder t) end)
           (fun lo hi f => Forall (inb lo hi) (flat f))).
  - intros r b e kids Hbe Hk IH. rewrite postorder_node. apply Forall_app. split; [exact IH|].
    constructor; [|constructor]. unfold inb; cbn; lia.
  - intros lo hi H. constructor.
  - intros lo hi r b e kids rest Hlo Hdt IHt Hrest IHr.
    pose proof (wf_forest_le _ _ _ Hrest). inv Hdt.
    rewrite flat_cons. apply Forall_app. split.
    + eapply inb_weaken; [| |exact IHt]; lia.
    + eapply inb_weaken; [| |exact IHr]; lia.
Qed.
