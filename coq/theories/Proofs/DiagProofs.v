(** C15: the diagnostics computed by Model/Analyses.v are exact. *)
From PegV Require Import Base.Tac Spec.Syntax Model.Analyses.

Lemma memb_In x l : memb x l = true <-> In x l.
Proof.
  unfold memb. rewrite existsb_exists. split.
  - intros (y & Hy & E). apply Nat.eqb_eq in E. subst. exact Hy.
  - intros H. exists x. split; auto. apply Nat.eqb_refl.
Qed.

Lemma dedup_In x l : In x (dedup l) <-> In x l.
Proof.
  induction l as [|y l IH]; cbn [dedup]; [tauto|].
  destruct (memb y l) eqn:E.
  - rewrite IH. apply memb_In in E. split; [intros H; right; exact H|]. intros [Hy|H]; [subst; exact E|exact H].
  - cbn [In]. rewrite IH. tauto.
Qed.

Section Diag.
Variable g : rawg.

Definition referenced (n : nat) : Prop := exists d, In d g /\ In n (names_of (snd d)).

(** "used but not defined" = exactly the referenced names without a definition *)
Theorem undefined_exact n : In n (undefined_names g) <-> referenced n /\ defined g n = false.
Proof.
  unfold undefined_names. rewrite dedup_In, filter_In, in_flat_map.
  split.
  - intros [(d & Hd & Hn) Hdef]. split; [exists d; auto|]. destruct (defined g n); [discriminate|reflexivity].
  - intros [(d & Hd & Hn) Hdef]. split; [exists d; auto|]. rewrite Hdef. reflexivity.
Qed.

(** reachability from the first rule through every operator *)
Inductive reach : nat -> Prop :=
| reach_first n0 b0 rest : g = (n0, b0) :: rest -> reach n0
| reach_step m b k : reach m -> lookup_def g m = Some b -> In k (names_of b) -> reach k.

Lemma lookup_def_defined m b : lookup_def g m = Some b -> defined g m = true.
Proof. unfold defined. intros ->. reflexivity. Qed.

(** soundness of the depth-first walk: it only ever adds reachable names *)
Lemma reach_f_sound n : forall e seen,
  (forall k, In k (names_of e) -> reach k) -> (forall k, In k seen -> reach k) ->
  forall k, In k (reach_f g n e seen) -> reach k.
Proof.
  induction n as [|n IH]; intros e seen He Hs k Hk; [exact (Hs k Hk)|].
  assert (Hfold : forall es seen0, (forall x, In x es -> forall k, In k (names_of x) -> reach k) ->
            (forall k, In k seen0 -> reach k) ->
            forall k, In k (fold_left (fun s x => reach_f g n x s) es seen0) -> reach k).
  { induction es as [|x es IHes]; intros seen0 Hes Hs0 k0 Hk0; cbn [fold_left] in Hk0; [exact (Hs0 k0 Hk0)|].
    eapply IHes; [| |exact Hk0].
    - intros y Hy. apply Hes. right; exact Hy.
    - intros k1 Hk1. eapply IH; [| |exact Hk1]; [apply Hes; left; reflexivity|exact Hs0]. }
  destruct e; cbn [reach_f] in Hk; try exact (Hs k Hk);
    try (eapply IH; [| |exact Hk]; [exact He|exact Hs]).
  - (* EName *)
    destruct (memb r seen) eqn:Em; [exact (Hs k Hk)|].
    assert (Hr : reach r) by (apply He; cbn; auto).
    destruct (lookup_def g r) as [b|] eqn:El.
    + eapply IH; [| |exact Hk].
      * intros k1 Hk1. eapply reach_step; eauto.
      * intros k1 [<-|Hk1]; [exact Hr|exact (Hs k1 Hk1)].
    + destruct Hk as [<-|Hk]; [exact Hr|exact (Hs k Hk)].
  - (* ESeq *) eapply Hfold; [| |exact Hk]; [|exact Hs].
    intros x Hx k1 Hk1. apply He. cbn [names_of]. apply in_flat_map. exists x; auto.
  - (* EAlt *) eapply Hfold; [| |exact Hk]; [|exact Hs].
    intros x Hx k1 Hk1. apply He. cbn [names_of]. apply in_flat_map. exists x; auto.
Qed.

Lemma reached_sound k : In k (reached_names g) -> reach k.
Proof.
  unfold reached_names. destruct g as [|[n0 b0] rest] eqn:Eg; [intros []|].
  intros H. rewrite <- Eg in H. eapply reach_f_sound; [| |exact H].
  - intros k1 [<-|[]]. eapply reach_first. exact Eg.
  - intros k1 [].
Qed.

(** completeness, given the (executable, re-evaluated on every run) closure check *)
Lemma reached_complete s : closed_b g s = true -> forall k, reach k -> In k s.
Proof.
  intros Hc k Hk. induction Hk as [n0 b0 rest Eg|m b k Hm IH Hl Hin].
  - unfold closed_b in Hc. rewrite Eg in Hc. apply andb_true_iff in Hc as [H1 _]. apply memb_In. exact H1.
  - unfold closed_b in Hc. destruct g as [|[n0 b0] rest] eqn:Eg; [discriminate|]. rewrite <- Eg in *.
    apply andb_true_iff in Hc as [_ H2]. rewrite forallb_forall in H2. specialize (H2 m IH).
    rewrite Hl in H2. rewrite forallb_forall in H2. apply memb_In. apply H2. exact Hin.
Qed.

(** "defined but not used" = exactly the defined rules unreachable from the first rule *)
Theorem unused_exact n : closed_b g (reached_names g) = true ->
  (In n (unused_names g) <-> In n (map fst g) /\ ~ reach n).
Proof.
  intros Hc. unfold unused_names. rewrite filter_In, dedup_In. split.
  - intros [Hd Hm]. split; [exact Hd|]. intros Hr.
    pose proof (reached_complete _ Hc n Hr) as Hin. apply memb_In in Hin. rewrite Hin in Hm. discriminate.
  - intros [Hd Hr]. split; [exact Hd|]. destruct (memb n (reached_names g)) eqn:E; [|reflexivity].
    exfalso. apply Hr. apply reached_sound. apply memb_In. exact E.
Qed.

(** duplicates: a name is reported iff it is defined at least twice *)
Lemma dups_of_In x l : In x (dups_of l) <-> exists l1 l2, l = l1 ++ x :: l2 /\ In x l2.
Proof.
  induction l as [|y l IH]; cbn [dups_of].
  - split; [intros []|]. intros (l1 & l2 & E & _). destruct l1; discriminate.
  - destruct (memb y l) eqn:Em.
    + cbn [In]. rewrite IH. split.
      * intros [<-|(l1 & l2 & -> & H)].
        -- exists [], l. split; [reflexivity|]. apply memb_In. exact Em.
        -- exists (y :: l1), l2. auto.
      * intros (l1 & l2 & E & H). destruct l1 as [|z l1]; cbn in E; inv E; [left; reflexivity|].
        right. exists l1, l2. auto.
    + rewrite IH. split.
      * intros (l1 & l2 & -> & H). exists (y :: l1), l2. auto.
      * intros (l1 & l2 & E & H). destruct l1 as [|z l1]; cbn in E; inv E.
        -- apply memb_In in H. congruence.
        -- exists l1, l2. auto.
Qed.

Theorem duplicates_exact n :
  In n (duplicate_names g) <-> exists l1 l2, map fst g = l1 ++ n :: l2 /\ In n l2.
Proof. unfold duplicate_names. rewrite dedup_In. apply dups_of_In. Qed.

End Diag.
