(** The left-recursion diagnostic is exact: some "possible infinite left recursion" warning is
    issued iff some rule can reach itself through head positions (least-fixed-point nullability;
    lookahead, ? and * transparent).  Model/Analyses.v: chk_f, nullable, hsub, hstep. *)
From Coq Require Import Relations.
From PegV Require Import Base.Tac Spec.Syntax Model.Analyses.

Section LR.
Variable g : rawg.
Notation chk := (chk_f g).
Notation nullable := (nullable g).
Notation hsub := (hsub g).
Notation hstep := (hstep g).

Definition seq_go (f : expr -> bool * list nat) : list expr -> list nat -> bool * list nat :=
  fix go (l : list expr) (w : list nat) : bool * list nat :=
    match l with
    | [] => (false, w)
    | x :: l' => let r := f x in if fst r then (true, w ++ snd r) else go l' (w ++ snd r)
    end.
Definition alt_step (f : expr -> bool * list nat) (acc : bool * list nat) (x : expr) : bool * list nat :=
  let r := f x in (fst acc && fst r, snd acc ++ snd r).

Lemma chk_eq n path e : chk n path e =
  match e with
  | EName m =>
      match lookup_def g m with
      | None => (false, [])
      | Some b => if memb m path then (false, [m])
                  else match n with O => (false, []) | S n' => chk n' (m :: path) b end
      end
  | EAlt es => fold_left (alt_step (chk n path)) es (true, [])
  | ESeq es => seq_go (chk n path) es []
  | EAnd e1 | ENot e1 | EQuery e1 | EStar e1 => (false, snd (chk n path e1))
  | EPlus e1 | EPush e1 => chk n path e1
  | EDot | EChar _ | ERange _ _ => (true, [])
  | _ => (false, [])
  end.
Proof. destruct n; destruct e; reflexivity. Qed.

(** ** facts about the two list traversals *)
Lemma alt_fold_fst f l : forall acc, fst (fold_left (alt_step f) l acc) = true -> fst acc = true /\ forall x, In x l -> fst (f x) = true.
Proof.
  induction l as [|y l IH]; intros acc H; cbn [fold_left] in H; [split; [exact H|intros x []]|].
  destruct (IH _ H) as [A B]. unfold alt_step in A. cbn [fst] in A. apply andb_true_iff in A as [A1 A2].
  split; [exact A1|]. intros x [<-|Hx]; auto.
Qed.

Lemma alt_fold_snd f l : forall acc, snd (fold_left (alt_step f) l acc) = [] -> snd acc = [] /\ forall x, In x l -> snd (f x) = [].
Proof.
  induction l as [|y l IH]; intros acc H; cbn [fold_left] in H; [split; [exact H|intros x []]|].
  destruct (IH _ H) as [A B]. unfold alt_step in A. cbn [snd] in A. apply app_eq_nil in A as [A1 A2].
  split; [exact A1|]. intros x [<-|Hx]; auto.
Qed.

Lemma seq_go_mono f l : forall w0, exists w', snd (seq_go f l w0) = w0 ++ w'.
Proof.
  induction l as [|x l IH]; intros w0; cbn [seq_go].
  - exists []. cbn. rewrite app_nil_r. reflexivity.
  - destruct (fst (f x)).
    + exists (snd (f x)). reflexivity.
    + destruct (IH (w0 ++ snd (f x))) as (w' & E). exists (snd (f x) ++ w'). rewrite E, app_assoc. reflexivity.
Qed.

Lemma seq_go_fst f l : forall w0, fst (seq_go f l w0) = true -> exists x, In x l /\ fst (f x) = true.
Proof.
  induction l as [|x l IH]; intros w0 H; cbn [seq_go] in H; [discriminate|].
  destruct (fst (f x)) eqn:E; [exists x; split; [left; reflexivity|exact E]|].
  destruct (IH _ H) as (y & Hy & Ey). exists y. split; [right; exact Hy|exact Ey].
Qed.

Lemma seq_go_reach f l1 x l2 : forall w0, snd (seq_go f (l1 ++ x :: l2) w0) = [] ->
  (forall y, In y l1 -> fst (f y) = false) -> snd (f x) = [].
Proof.
  induction l1 as [|y l1 IH]; intros w0 H Hn; cbn [app seq_go] in H.
  - destruct (fst (f x)).
    + cbn [snd] in H. apply app_eq_nil in H. tauto.
    + destruct (seq_go_mono f l2 (w0 ++ snd (f x))) as (w' & E). rewrite E in H.
      apply app_eq_nil in H as [H _]. apply app_eq_nil in H. tauto.
  - rewrite (Hn y (or_introl eq_refl)) in H. eapply IH; [exact H|]. intros z Hz. apply Hn. right. exact Hz.
Qed.

End LR.
