(** The left-recursion diagnostic is exact: some "possible infinite left recursion" warning is
    issued iff some rule can reach itself through head positions (least-fixed-point nullability;
    lookahead, ? and * transparent).  Model/Analyses.v: chk_f, nullable, hsub, hstep. *)
From Coq Require Import Relations.
From PegV Require Import Base.Tac Spec.Syntax Model.Analyses.

Section LR.
Variable g : rawg.
Notation chk := (chk_f g).
Notation nullable := (nullable g).
Notation hsub := (hsub g).
Notation hstep := (hstep g).

Definition seq_go (f : expr -> bool * list nat) : list expr -> list nat -> bool * list nat :=
  fix go (l : list expr) (w : list nat) : bool * list nat :=
    match l with
    | [] => (false, w)
    | x :: l' => let r := f x in if fst r then (true, w ++ snd r) else go l' (w ++ snd r)
    end.
Definition alt_step (f : expr -> bool * list nat) (acc : bool * list nat) (x : expr) : bool * list nat :=
  let r := f x in (fst acc && fst r, snd acc ++ snd r).

Lemma chk_eq n path e : chk n path e =
  match e with
  | EName m =>
      match lookup_def g m with
      | None => (false, [])
      | Some b => if memb m path then (false, [m])
                  else match n with O => (false, []) | S n' => chk n' (m :: path) b end
      end
  | EAlt es => fold_left (alt_step (chk n path)) es (true, [])
  | ESeq es => seq_go (chk n path) es []
  | EAnd e1 | ENot e1 | EQuery e1 | EStar e1 => (false, snd (chk n path e1))
  | EPlus e1 | EPush e1 => chk n path e1
  | EDot | EChar _ | ERange _ _ => (true, [])
  | _ => (false, [])
  end.
Proof. destruct n; destruct e; reflexivity. Qed.

(** ** facts about the two list traversals *)
Lemma alt_fold_fst f l : forall acc, fst (fold_left (alt_step f) l acc) = true -> fst acc = true /\ forall x, In x l -> fst (f x) = true.
Proof.
  induction l as [|y l IH]; intros acc H; cbn [fold_left] in H; [split; [exact H|intros x []]|].
  destruct (IH _ H) as [A B]. unfold alt_step in A. cbn [fst] in A. apply andb_true_iff in A as [A1 A2].
  split; [exact A1|]. intros x [<-|Hx]; auto.
Qed.

Lemma alt_fold_snd f l : forall acc, snd (fold_left (alt_step f) l acc) = [] -> snd acc = [] /\ forall x, In x l -> snd (f x) = [].
Proof.
  induction l as [|y l IH]; intros acc H; cbn [fold_left] in H; [split; [exact H|intros x []]|].
  destruct (IH _ H) as [A B]. unfold alt_step in A. cbn [snd] in A. apply app_eq_nil in A as [A1 A2].
  split; [exact A1|]. intros x [<-|Hx]; auto.
Qed.

Lemma seq_go_mono f l : forall w0, exists w', snd (seq_go f l w0) = w0 ++ w'.
Proof.
  induction l as [|x l IH]; intros w0; cbn [seq_go].
  - exists []. cbn. rewrite app_nil_r. reflexivity.
  - destruct (fst (f x)).
    + exists (snd (f x)). reflexivity.
    + destruct (IH (w0 ++ snd (f x))) as (w' & E). exists (snd (f x) ++ w'). rewrite E, app_assoc. reflexivity.
Qed.

Lemma seq_go_fst f l : forall w0, fst (seq_go f l w0) = true -> exists x, In x l /\ fst (f x) = true.
Proof.
  induction l as [|x l IH]; intros w0 H; cbn [seq_go] in H; [discriminate|].
  destruct (fst (f x)) eqn:E; [exists x; split; [left; reflexivity|exact E]|].
  destruct (IH _ H) as (y & Hy & Ey). exists y. split; [right; exact Hy|exact Ey].
Qed.

Lemma seq_go_reach f l1 x l2 : forall w0, snd (seq_go f (l1 ++ x :: l2) w0) = [] ->
  (forall y, In y l1 -> fst (f y) = false) -> snd (f x) = [].
Proof.
  induction l1 as [|y l1 IH]; intros w0 H Hn; cbn [app seq_go] in H.
  - destruct (fst (f x)).
    + cbn [snd] in H. apply app_eq_nil in H. tauto.
    + destruct (seq_go_mono f l2 (w0 ++ snd (f x))) as (w' & E). rewrite E in H.
      apply app_eq_nil in H as [H _]. apply app_eq_nil in H. tauto.
  - rewrite (Hn y (or_introl eq_refl)) in H. eapply IH; [exact H|]. intros z Hz. apply Hn. right. exact Hz.
Qed.


(** ** a nullable expression is never classified as "must consume" *)
Lemma nullable_not_mc : forall n path e, fst (chk n path e) = true -> nullable e -> False.
Proof.
  induction n as [n IHn] using lt_wf_ind. intros path e.
  induction e using expr_ind2; rewrite chk_eq; intros Hc Hn; inv Hn; cbn [fst] in Hc; try discriminate.
  - (* EName, defined *)
    match goal with H : lookup_def g r = Some _ |- _ => rewrite H in Hc end.
    destruct (memb r path); [discriminate|]. destruct n as [|n']; [discriminate|].
    eapply (IHn n'); eauto.
  - match goal with H : lookup_def g r = None |- _ => rewrite H in Hc end. discriminate.
  - (* ESeq *)
    destruct (seq_go_fst _ _ _ Hc) as (x & Hx & Ex).
    rewrite Forall_forall in H. eapply H; eauto.
    match goal with H : Forall nullable es |- _ => rewrite Forall_forall in H; apply H; exact Hx end.
  - (* EAlt *)
    destruct (alt_fold_fst _ _ _ Hc) as [_ B]. rewrite Forall_forall in H. eapply H; eauto.
  - eauto.
  - eauto.
Qed.

(** ** bookkeeping of a run *)
Definition fuel_ok (n : nat) (path : list nat) : Prop :=
  NoDup path /\ (forall m, In m path -> In m (map fst g)) /\ S (length g) <= length path + n.

Fixpoint chain (path : list nat) : Prop :=
  match path with
  | p0 :: ((p1 :: _) as rest) => hstep p1 p0 /\ chain rest
  | _ => True
  end.

Definition at_head (path : list nat) (e : expr) : Prop :=
  match path with
  | [] => True
  | p0 :: _ => exists b, lookup_def g p0 = Some b /\ hsub b e
  end.

Definition cyc : Prop := exists r, clos_trans nat hstep r r.

Lemma lookup_in m b : lookup_def g m = Some b -> In m (map fst g).
Proof.
  induction g as [|[k x] l IH]; cbn [lookup_def map fst]; [discriminate|].
  destruct (Nat.eqb_spec m k) as [->|Hne]; [left; reflexivity|]. intros H. right. apply IH. exact H.
Qed.
Lemma in_lookup m : In m (map fst g) -> exists b, lookup_def g m = Some b.
Proof.
  induction g as [|[k x] l IH]; cbn [lookup_def map fst]; [intros []|].
  destruct (Nat.eqb_spec m k) as [->|Hne]; [eexists; reflexivity|]. intros [E|H]; [congruence|]. apply IH. exact H.
Qed.

Lemma memb_in x l : memb x l = true <-> In x l.
Proof.
  unfold memb. rewrite existsb_exists. split.
  - intros (y & Hy & E). apply Nat.eqb_eq in E. subst. exact Hy.
  - intros H. exists x. split; [exact H|apply Nat.eqb_refl].
Qed.

Lemma fuel_step n path m b : fuel_ok n path -> memb m path = false -> lookup_def g m = Some b ->
  exists n', n = S n' /\ fuel_ok n' (m :: path).
Proof.
  intros (Hnd & Hin & Hlen) Hm Hb.
  assert (Hnot : ~ In m path) by (intros Hi; apply memb_in in Hi; congruence).
  assert (Hnd' : NoDup (m :: path)) by (constructor; auto).
  assert (Hin' : forall k, In k (m :: path) -> In k (map fst g)).
  { intros k [<-|Hk]; [eapply lookup_in; eauto|auto]. }
  pose proof (NoDup_incl_length Hnd' Hin') as L. rewrite map_length in L. cbn [length] in L.
  destruct n as [|n']; [lia|]. exists n'. split; [reflexivity|]. split; [exact Hnd'|]. split; [exact Hin'|]. cbn [length]. lia.
Qed.

Lemma chain_reach path : forall p0 rest, path = p0 :: rest -> chain path ->
  forall m, In m path -> clos_refl_trans nat hstep m p0.
Proof.
  induction path as [|q path IH]; intros p0 rest E Hc m Hm; [discriminate|]. inv E.
  destruct Hm as [<-|Hm]; [apply rt_refl|].
  destruct rest as [|p1 rest']; [destruct Hm|]. cbn [chain] in Hc. destruct Hc as [Hs Hc].
  eapply rt_trans; [eapply IH; eauto|]. apply rt_step. exact Hs.
Qed.

(** ** soundness: a warning points at a real cycle; without one, the verdict "may not consume" is exact *)
Lemma chk_sound : forall n path e, fuel_ok n path -> chain path -> at_head path e ->
  cyc \/ (snd (chk n path e) = [] /\ (fst (chk n path e) = false -> nullable e)).
Proof.
  induction n as [n IHn] using lt_wf_ind. intros path e.
  induction e using expr_ind2; intros Hf Hch Hat; rewrite chk_eq; cbn [fst snd];
    try (right; split; [reflexivity|intros _; constructor]; fail);
    try (right; split; [reflexivity|discriminate]; fail).
  - (* EName *)
    destruct (lookup_def g r) as [b|] eqn:Eb; [|right; split; [reflexivity|intros _; apply nl_undef; exact Eb]].
    destruct (memb r path) eqn:Em.
    + left. apply memb_in in Em. destruct path as [|p0 rest]; [destruct Em|].
      destruct Hat as (b0 & Hb0 & Hs). exists r.
      apply clos_rt_t with p0; [eapply chain_reach; eauto|]. apply t_step. exists b0. auto.
    + destruct (fuel_step _ _ _ _ Hf Em Eb) as (n' & -> & Hf').
      destruct (IHn n' (Nat.lt_succ_diag_r _) (r :: path) b Hf') as [C|[W N]]; [| |left; exact C|].
      * destruct path as [|p0 rest]; [exact I|]. cbn [chain]. split; [|exact Hch].
        destruct Hat as (b0 & Hb0 & Hs). exists b0. auto.
      * exists b. split; [exact Eb|apply hs_refl].
      * right. split; [exact W|]. intros Hc. eapply nl_name; eauto.
  - (* ESeq *)
    assert (G : forall pre l w0, es = pre ++ l -> Forall nullable pre ->
              cyc \/ (snd (seq_go (chk n path) l w0) = w0 /\ (fst (seq_go (chk n path) l w0) = false -> Forall nullable l))).
    { intros pre l. revert pre. induction l as [|x l IHl]; intros pre w0 E Hpre; cbn [seq_go]; [right; split; [reflexivity|constructor]|].
      assert (Hx : In x es) by (rewrite E; apply in_or_app; right; left; reflexivity).
      rewrite Forall_forall in H.
      destruct (H x Hx Hf Hch) as [C|[W N]]; [|left; exact C|].
      { destruct path as [|p0 rest]; [exact I|]. destruct Hat as (b0 & Hb0 & Hs). exists b0. split; [exact Hb0|].
        eapply hs_seq; [rewrite E in Hs; exact Hs|exact Hpre]. }
      destruct (fst (chk n path x)) eqn:Ex.
      - right. cbn [fst snd]. rewrite W, app_nil_r. split; [reflexivity|discriminate].
      - rewrite W, app_nil_r. destruct (IHl (pre ++ [x]) w0) as [C|[W2 N2]]; [rewrite <- app_assoc; exact E| |left; exact C|].
        + apply Forall_app. split; [exact Hpre|]. constructor; [apply N; reflexivity|constructor].
        + right. split; [exact W2|]. intros Hc. constructor; [apply N; reflexivity|apply N2; exact Hc]. }
    destruct (G [] es [] eq_refl (Forall_nil _)) as [C|[W N]]; [left; exact C|].
    right. split; [exact W|]. intros Hc. apply nl_seq. apply N. exact Hc.
  - (* EAlt *)
    assert (G : forall l acc, (forall x, In x l -> In x es) ->
              cyc \/ (snd (fold_left (alt_step (chk n path)) l acc) = snd acc /\
                      (fst (fold_left (alt_step (chk n path)) l acc) = false -> fst acc = false \/ exists x, In x l /\ nullable x))).
    { induction l as [|x l IHl]; intros acc Hsub; cbn [fold_left]; [right; split; [reflexivity|intros Hc; left; exact Hc]|].
      rewrite Forall_forall in H.
      destruct (H x (Hsub x (or_introl eq_refl)) Hf Hch) as [C|[W N]]; [|left; exact C|].
      { destruct path as [|p0 rest]; [exact I|]. destruct Hat as (b0 & Hb0 & Hs). exists b0. split; [exact Hb0|].
        eapply hs_alt; [exact Hs|]. apply Hsub. left. reflexivity. }
      destruct (IHl (alt_step (chk n path) acc x)) as [C|[W2 N2]]; [intros y Hy; apply Hsub; right; exact Hy|left; exact C|].
      right. split; [rewrite W2; unfold alt_step; cbn [snd]; rewrite W, app_nil_r; reflexivity|].
      intros Hc. destruct (N2 Hc) as [A|(y & Hy & Ny)].
      - unfold alt_step in A. cbn [fst] in A. apply andb_false_iff in A as [A|A]; [left; exact A|].
        right. exists x. split; [left; reflexivity|apply N; exact A].
      - right. exists y. split; [right; exact Hy|exact Ny]. }
    destruct (G es (true, []) (fun x Hx => Hx)) as [C|[W N]]; [left; exact C|].
    right. split; [exact W|]. intros Hc. destruct (N Hc) as [A|(x & Hx & Nx)]; [discriminate|]. eapply nl_alt; eauto.
  - (* EAnd *)
    destruct (IHe Hf Hch) as [C|[W _]]; [|left; exact C|right; split; [exact W|intros _; constructor]].
    destruct path as [|p0 rest]; [exact I|]. destruct Hat as (b0 & Hb0 & Hs). exists b0. split; [exact Hb0|apply hs_and; exact Hs].
  - destruct (IHe Hf Hch) as [C|[W _]]; [|left; exact C|right; split; [exact W|intros _; constructor]].
    destruct path as [|p0 rest]; [exact I|]. destruct Hat as (b0 & Hb0 & Hs). exists b0. split; [exact Hb0|apply hs_not; exact Hs].
  - destruct (IHe Hf Hch) as [C|[W _]]; [|left; exact C|right; split; [exact W|intros _; constructor]].
    destruct path as [|p0 rest]; [exact I|]. destruct Hat as (b0 & Hb0 & Hs). exists b0. split; [exact Hb0|apply hs_query; exact Hs].
  - destruct (IHe Hf Hch) as [C|[W _]]; [|left; exact C|right; split; [exact W|intros _; constructor]].
    destruct path as [|p0 rest]; [exact I|]. destruct Hat as (b0 & Hb0 & Hs). exists b0. split; [exact Hb0|apply hs_star; exact Hs].
  - (* EPlus *)
    destruct (IHe Hf Hch) as [C|[W N]]; [|left; exact C|right; split; [exact W|intros Hc; constructor; apply N; exact Hc]].
    destruct path as [|p0 rest]; [exact I|]. destruct Hat as (b0 & Hb0 & Hs). exists b0. split; [exact Hb0|apply hs_plus; exact Hs].
  - destruct (IHe Hf Hch) as [C|[W N]]; [|left; exact C|right; split; [exact W|intros Hc; constructor; apply N; exact Hc]].
    destruct path as [|p0 rest]; [exact I|]. destruct Hat as (b0 & Hb0 & Hs). exists b0. split; [exact Hb0|apply hs_push; exact Hs].
Qed.


(** ** completeness: without warnings, everything reachable in head position was visited *)
Lemma chk_visits n path e : forall e', hsub e e' -> snd (chk n path e) = [] -> snd (chk n path e') = [].
Proof.
  intros e' Hs. induction Hs as [|es x Hs IH Hx|l1 x l2 Hs IH Hn|e1 Hs IH|e1 Hs IH|e1 Hs IH|e1 Hs IH|e1 Hs IH|e1 Hs IH]; intros H0; auto.
  - specialize (IH H0). rewrite chk_eq in IH. destruct (alt_fold_snd _ _ _ IH) as [_ B]. apply B. exact Hx.
  - specialize (IH H0). rewrite chk_eq in IH. eapply seq_go_reach; [exact IH|].
    intros y Hy. rewrite Forall_forall in Hn. destruct (fst (chk n path y)) eqn:E; [|reflexivity].
    exfalso. eapply nullable_not_mc; eauto.
  - specialize (IH H0). rewrite chk_eq in IH. exact IH.
  - specialize (IH H0). rewrite chk_eq in IH. exact IH.
  - specialize (IH H0). rewrite chk_eq in IH. exact IH.
  - specialize (IH H0). rewrite chk_eq in IH. exact IH.
  - specialize (IH H0). rewrite chk_eq in IH. exact IH.
  - specialize (IH H0). rewrite chk_eq in IH. exact IH.
Qed.

Lemma walk_warns : forall k t, clos_trans_1n nat hstep k t ->
  forall n path b, lookup_def g k = Some b -> snd (chk n (k :: path) b) = [] -> fuel_ok n (k :: path) ->
  In t (k :: path) -> False.
Proof.
  induction 1 as [k t Hst|k k1 t Hst Hrest IH]; intros n path b Hb H0 Hf Ht.
  - destruct Hst as (b0 & Hb0 & Hs). rewrite Hb in Hb0. inv Hb0.
    pose proof (chk_visits n (k :: path) b0 _ Hs H0) as V. rewrite chk_eq in V.
    destruct Hf as (_ & Hin & _). destruct (in_lookup t (Hin t Ht)) as (bt & Ebt). rewrite Ebt in V.
    apply memb_in in Ht. rewrite Ht in V. discriminate.
  - destruct Hst as (b0 & Hb0 & Hs). rewrite Hb in Hb0. inv Hb0.
    pose proof (chk_visits n (k :: path) b0 _ Hs H0) as V. rewrite chk_eq in V.
    assert (Hk1 : exists b1, lookup_def g k1 = Some b1).
    { inversion Hrest as [y (b1 & E & _)|y z (b1 & E & _) _]; eauto. }
    destruct Hk1 as (b1 & Eb1). rewrite Eb1 in V.
    destruct (memb k1 (k :: path)) eqn:Em; [discriminate|].
    destruct (fuel_step _ _ _ _ Hf Em Eb1) as (n' & -> & Hf').
    eapply (IH n' (k :: path) b1 Eb1 V Hf'). right. exact Ht.
Qed.

Lemma flat_map_nil {A B} (f : A -> list B) l : flat_map f l = [] -> forall x, In x l -> f x = [].
Proof.
  induction l as [|y l IH]; intros H x Hx; [destruct Hx|]. cbn [flat_map] in H. apply app_eq_nil in H as [H1 H2].
  destruct Hx as [<-|Hx]; auto.
Qed.

Lemma flat_map_not_nil {A B} (f : A -> list B) l : flat_map f l <> [] -> exists x, In x l /\ f x <> [].
Proof.
  induction l as [|y l IH]; intros H; [contradiction|]. cbn [flat_map] in H.
  destruct (f y) eqn:E.
  - destruct (IH H) as (x & H1 & H2). exists x. split; [right; exact H1|exact H2].
  - exists y. split; [left; reflexivity|congruence].
Qed.

Lemma lookup_def_in m b : lookup_def g m = Some b -> exists d, In d g /\ fst d = m.
Proof.
  intros H. apply lookup_in in H. apply in_map_iff in H as (d & E & Hd). exists d. auto.
Qed.

Lemma fuel_top : fuel_ok (S (length g)) [].
Proof. split; [constructor|]. split; [intros m []|]. cbn. lia. Qed.

(** * the diagnostic is exact *)
Theorem leftrec_exact : leftrec_warnings g <> [] <-> exists r, clos_trans nat hstep r r.
Proof.
  split.
  - intros Hw. unfold leftrec_warnings in Hw.
    destruct (flat_map_not_nil _ _ Hw) as (d & Hd & Hne).
    destruct (chk_sound (S (length g)) [] (EName (fst d)) fuel_top I I) as [C|[W _]]; [exact C|contradiction].
  - intros (r & Hc) Hw. apply clos_trans_t1n in Hc.
    assert (Hr : exists b, lookup_def g r = Some b).
    { inversion Hc as [y (b1 & E & _)|y z (b1 & E & _) _]; eauto. }
    destruct Hr as (b & Eb). destruct (lookup_def_in _ _ Eb) as (d & Hd & Ed).
    pose proof (flat_map_nil _ _ Hw d Hd) as W. cbn beta in W. rewrite Ed in W. rewrite chk_eq in W. rewrite Eb in W.
    cbn [memb existsb] in W.
    destruct (fuel_step _ _ _ _ fuel_top eq_refl Eb) as (n' & En & Hf'). assert (n' = length g) by lia. subst n'.
    eapply (walk_warns r r Hc (length g) [] b Eb W Hf'). left. reflexivity.
Qed.

End LR.
