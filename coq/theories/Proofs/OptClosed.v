(** The -switch pass keeps the rule references of a tree: it introduces no name, so a grammar whose references are all
    defined stays so, and with [optimize_alt2] the side condition of the code-level theorems ([deep_table_b]) holds of
    every optimised tree (Proofs/CountInline.v).  The code-level -switch theorem then needs no side condition on the
    optimised tree or on the analysis at all. *)
From PegV Require Import Base.Tac Spec.Syntax Spec.Peg Spec.WF Model.Machine Model.SkipCheck Model.Analyses Model.Optimize Model.Gen
  Model.Emit Model.SEmit Model.Exec Proofs.PegFacts Proofs.OptSound Proofs.OptSwok Proofs.Top Proofs.OptTop Proofs.SEmitFile Proofs.SEmitOpt
  Proofs.EmitUse Proofs.DeepDefault Proofs.CountInline Proofs.ExecDet.
Local Open Scope nat_scope.

Lemma names_opt T : forall e r, In r (names_of (opt T e)) -> In r (names_of e).
Proof.
  induction e using expr_ind2; intros r0 Hin; try (cbn [opt names_of] in *; auto; fail).
  - (* ESeq *) cbn [opt names_of] in *. apply in_flat_map in Hin as (y & Hy & Hr). apply in_map_iff in Hy as (x & <- & Hx).
    rewrite Forall_forall in H. apply in_flat_map. exists x. split; [exact Hx|apply H; auto].
  - (* EAlt *) rewrite Forall_forall in H.
    assert (Hplain : In r0 (names_of (EAlt (map (opt T) es))) -> In r0 (names_of (EAlt es))).
    { cbn [names_of]. intros K. apply in_flat_map in K as (y & Hy & Hr). apply in_map_iff in Hy as (x & <- & Hx).
      apply in_flat_map. exists x. split; [exact Hx|apply H; auto]. }
    rewrite opt_alt in Hin.
    destruct (negb (forallb (fun x => fst (fs T x)) es)); [exact (Hplain Hin)|].
    destruct (Nat.leb (length es) (2 + length (filter (fun b => b) (inter_flags (sets_of T es))))); [exact (Hplain Hin)|].
    destruct (rev (place_cases (unord_of T es) 0%Z [])) as [|[sd d] before] eqn:Epl; [exact (Hplain Hin)|].
    destruct (existsb (fun x => too_big (fst x)) before); [exact (Hplain Hin)|].
    cbv zeta in Hin.
    assert (Hperm : forall y, In y (rev before ++ [(sd, d)]) -> In y (unord_of T es)).
    { intros y Hy. assert (E : place_cases (unord_of T es) 0%Z [] = rev before ++ [(sd, d)]).
      { rewrite <- (rev_involutive (place_cases _ _ _)). rewrite Epl. reflexivity. }
      rewrite <- E in Hy. pose proof (place_cases_perm (unord_of T es) 0%Z []) as Pm. cbn [app] in Pm.
      eapply Permutation.Permutation_in; [exact Pm|exact Hy]. }
    assert (Hsw : In r0 (names_of (ESwitch (map (fun x => (keys_of (fst x), snd x)) (rev before)) d)) -> In r0 (names_of (EAlt es))).
    { cbn [names_of]. intros K. apply in_app_or in K as [K|K].
      - apply in_flat_map in K as ([keys b] & Hc & Hr). cbn [snd] in Hr. apply in_map_iff in Hc as ([s e'] & E & Hc). cbn [fst snd] in E. inv E.
        destruct (unord_in T s b es (Hperm _ (in_or_app _ _ _ (or_introl Hc)))) as (x & Hx & _ & ->).
        apply in_flat_map. exists x. split; [exact Hx|apply H; auto].
      - assert (Hd : In (sd, d) (rev before ++ [(sd, d)])) by (apply in_or_app; right; left; reflexivity).
        destruct (unord_in T sd d es (Hperm _ Hd)) as (x & Hx & _ & ->).
        apply in_flat_map. exists x. split; [exact Hx|apply H; auto]. }
    destruct (ordered_of T es) as [|o1 os] eqn:Eo; [exact (Hsw Hin)|].
    rewrite <- Eo in Hin. cbn [names_of] in Hin. rewrite flat_map_app in Hin. apply in_app_or in Hin as [K|K].
    + apply in_flat_map in K as (y & Hy & Hr). destruct (ordered_in T y es Hy) as (x & Hx & ->).
      cbn [names_of]. apply in_flat_map. exists x. split; [exact Hx|apply H; auto].
    + cbn [flat_map] in K. rewrite app_nil_r in K. exact (Hsw K).
Qed.

Theorem optimize_closed_names g : closed_names g -> closed_names (optimize g).
Proof.
  intros Hc. unfold optimize. destruct (fs_table g) as [T st]. destruct (negb st); [exact Hc|].
  set (F := fun p : nat * rbody => match snd p with
                | RBody b => if nth (fst p) (fst (count_rules g)) false then RBody (opt T b) else RBody b
                | rb => rb end).
  assert (E : forall (l : list rbody) s k, nth_error (map F (combine (seq s (length l)) l)) k =
                match nth_error l k with Some rb => Some (F (s + k, rb)) | None => None end).
  { induction l as [|y l IH]; intros s k; [destruct k; reflexivity|].
    destruct k; cbn [length seq combine map nth_error]; [rewrite Nat.add_0_r; reflexivity|].
    rewrite IH. replace (S s + k) with (s + S k) by lia. reflexivity. }
  intros r b Hb r' Hr'. rewrite E in Hb. destruct (nth_error g r) as [rb0|] eqn:Eg; [|discriminate].
  assert (K : exists b0, rb0 = RBody b0 /\ In r' (names_of b0)).
  { unfold F in Hb. cbn [fst snd] in Hb. destruct rb0 as [b0|k0|]; try discriminate.
    exists b0. split; [reflexivity|]. destruct (nth (0 + r) (fst (count_rules g)) false); injection Hb as Hb; subst b; [eapply names_opt; eauto|assumption]. }
  destruct K as (b0 & -> & Hin). destruct (Hc r b0 Eg r' Hin) as (rb' & Hg' & Hn').
  rewrite E, Hg'. exists (F (0 + r', rb')). split; [reflexivity|].
  unfold F. cbn [fst snd]. destruct rb' as [b1|k1|]; [destruct (nth (0 + r') (fst (count_rules g)) false); discriminate|discriminate|congruence].
Qed.

(** every optimised tree meets the side condition of the code-level theorems, under either -inline setting *)
Theorem deep_table_optimize g inline : grammar_alt2 g -> closed_names g -> deep_table_b (optimize g) inline = true.
Proof. intros Ha Hc. apply deep_table_all; [apply optimize_alt2; exact Ha|apply optimize_closed_names; exact Hc]. Qed.

(** -switch at the level of the generated statements with no side condition on the analysis, on the optimised tree or
    on the emitter's bookkeeping *)
Theorem generated_code_switch_all_options g tab rank :
  wf_b g tab rank = true -> good_grammar g ->
  (forall r b, nth_error g r = Some (RBody b) -> ranges_ok b = true) ->
  grammar_alt2 g -> closed_names g ->
  forall ptx buf penv, good_buf buf -> valid_buf buf ->
  forall memo inline r rb st0,
    nth_error g r = Some rb -> rb <> RNil ->
    slot_ok (optimize g) inline r -> reached (count_rules (optimize g)) r = true ->
    exists n res evs, peg_parse g ptx buf penv n r = Some (res, evs) /\
      forall out, xcall buf penv (mk_opts true memo inline (optimize g)) (gen_fn (optimize g) ptx inline) r (reset st0) out ->
        match res with
        | Succ p f => exists st', out = Ret true st' /\ pos st' = p /\ live st' = Syntax.flat f
        | Fail => exists st', out = Ret false st'
        end.
Proof.
  intros Hwf Hg Hro Ha Hc ptx buf penv Hbuf Hvalid memo inline r rb st0 Hr Hn Hs Hre.
  destruct (fs_table g) as [T st] eqn:E. destruct st.
  - exact (generated_code_switch g tab rank Hwf (stable_opt_ok g Hro T E) (optimize_good_grammar g tab rank Hwf Hg Hro)
             (optimize_good_switches g tab rank Hwf Hro) ptx buf penv Hbuf Hvalid memo inline r rb st0 Hr Hn
             (deep_table_optimize g inline Ha Hc) Hs Hre).
  - rewrite (optimize_unstable g T E) in *.
    destruct (c01_total g ptx buf penv tab rank r rb Hwf Hr Hn) as (n & [res evs] & H).
    destruct n as [|n]; [discriminate|].
    exists (S n), res, evs. split; [exact H|]. intros out Hx.
    pose proof (generated_code_all_options g ptx buf penv Hg Hbuf (plain_good_switches g Hro) Ha Hc memo inline n r st0 _ Hs Hre H out Hx) as K.
    destruct res as [|p f]; [destruct K as (st' & E' & _); eauto|exact K].
Qed.
Print Assumptions generated_code_switch_all_options.

(** -noast together with -switch at the level of the generated statements: whatever the entry's function of the -noast
    file generated from the OPTIMISED tree returns is the verdict and the offset of the semantics of the ORIGINAL tree. *)
Theorem generated_code_noast_switch_all_options g tab rank :
  wf_b g tab rank = true -> good_grammar g ->
  (forall r b, nth_error g r = Some (RBody b) -> ranges_ok b = true) ->
  grammar_alt2 g -> closed_names g ->
  forall ptx buf penv, good_buf buf -> valid_buf buf ->
  forall inline r rb st0,
    (forall rb0, nth_error (optimize g) ptx = Some rb0 -> rb0 = RNil) ->
    nth_error g r = Some rb -> rb <> RNil ->
    o_inline (mk_opts false false inline (optimize g)) r = false -> reached (count_rules (optimize g)) r = true ->
    exists n res evs, peg_parse g ptx buf penv n r = Some (res, evs) /\
      forall out, xcall buf penv (mk_opts false false inline (optimize g)) (gen_fn_noast (optimize g) ptx inline) r (reset st0) out ->
        exists st', out = Ret (match res with Fail => false | Succ _ _ => true end) st' /\
          match res with Succ p _ => pos st' = p /\ p <= length buf | Fail => True end.
Proof.
  intros Hwf Hg Hro Ha Hc ptx buf penv Hbuf Hvalid inline r rb st0 Hptx Hr Hn Hi Hre.
  destruct (fs_table g) as [T st] eqn:E. destruct st.
  - destruct (common_result g tab rank Hwf (stable_opt_ok g Hro T E) ptx buf penv Hvalid r rb Hr Hn) as (n & res & evs & evs' & H & H').
    exists n, res, evs. split; [exact H|]. intros out Hx. destruct n as [|n]; [discriminate|].
    destruct (generated_code_noast_every (optimize g) ptx buf penv (optimize_good_grammar g tab rank Hwf Hg Hro) Hbuf
                (optimize_good_switches g tab rank Hwf Hro) inline n r st0 _ Hptx (deep_table_optimize g inline Ha Hc) Hi Hre H' out Hx)
      as (st' & Eo & _ & P). cbn [fst] in *. eauto.
  - rewrite (optimize_unstable g T E) in *.
    destruct (c01_total g ptx buf penv tab rank r rb Hwf Hr Hn) as (n & [res evs] & H).
    destruct n as [|n]; [discriminate|].
    exists (S n), res, evs. split; [exact H|]. intros out Hx.
    destruct (generated_code_noast_every g ptx buf penv Hg Hbuf (plain_good_switches g Hro) inline n r st0 _ Hptx (deep_table_all g inline Ha Hc) Hi Hre H out Hx)
      as (st' & Eo & _ & P). cbn [fst] in *. eauto.
Qed.
Print Assumptions generated_code_noast_switch_all_options.

(** * Termination at the level of the generated statements

    For a grammar with a well-formedness certificate the entry function of the generated file HAS an execution, on every
    input and from every earlier parser state; that execution returns (it does not crash) and it is the only one.  The
    reference semantics is total on such grammars (Ford, Proofs/Total.v), the statements implement it
    ([generated_code_is_peg]) and the goto semantics is deterministic (Proofs/ExecDet.v). *)
Theorem generated_code_terminates g tab rank :
  wf_b g tab rank = true -> good_grammar g -> good_switches g -> grammar_alt2 g -> closed_names g ->
  forall ptx buf penv, good_buf buf ->
  forall memo inline r rb st0,
    nth_error g r = Some rb -> rb <> RNil -> slot_ok g inline r -> reached (count_rules g) r = true ->
    exists b st', xcall buf penv (mk_opts true memo inline g) (gen_fn g ptx inline) r (reset st0) (Ret b st') /\
      forall res, xcall buf penv (mk_opts true memo inline g) (gen_fn g ptx inline) r (reset st0) res -> res = Ret b st'.
Proof.
  intros Hwf Hg Hs Ha Hc ptx buf penv Hb memo inline r rb st0 Hr Hn Hsl Hre.
  destruct (c01_total g ptx buf penv tab rank r rb Hwf Hr Hn) as (n & rr & H).
  destruct n as [|n]; [discriminate|].
  destruct (generated_code_is_peg g ptx buf penv Hg Hb Hs memo inline n r st0 rr (deep_table_all g inline Ha Hc) Hsl Hre H) as (res & Hx & K).
  assert (E : exists b st', res = Ret b st').
  { destruct rr as [[|p f] evs]; [destruct K as (st' & -> & _)|destruct K as (st' & -> & _)]; eauto. }
  destruct E as (b & st' & ->). exists b, st'. split; [exact Hx|].
  intros res' Hx'. exact (xcall_det _ _ _ _ _ _ _ _ Hx' Hx).
Qed.
Print Assumptions generated_code_terminates.

(** ... and so does the file generated from the optimised tree (-switch) *)
Theorem generated_code_switch_terminates g tab rank :
  wf_b g tab rank = true -> good_grammar g ->
  (forall r b, nth_error g r = Some (RBody b) -> ranges_ok b = true) ->
  grammar_alt2 g -> closed_names g ->
  forall ptx buf penv, good_buf buf -> valid_buf buf ->
  forall memo inline r rb st0,
    nth_error g r = Some rb -> rb <> RNil ->
    slot_ok (optimize g) inline r -> reached (count_rules (optimize g)) r = true ->
    exists b st', xcall buf penv (mk_opts true memo inline (optimize g)) (gen_fn (optimize g) ptx inline) r (reset st0) (Ret b st') /\
      forall res, xcall buf penv (mk_opts true memo inline (optimize g)) (gen_fn (optimize g) ptx inline) r (reset st0) res -> res = Ret b st'.
Proof.
  intros Hwf Hg Hro Ha Hc ptx buf penv Hbuf Hvalid memo inline r rb st0 Hr Hn Hsl Hre.
  assert (P : exists n rr, peg_parse (optimize g) ptx buf penv (S n) r = Some rr).
  { destruct (fs_table g) as [T st] eqn:E. destruct st.
    - destruct (common_result g tab rank Hwf (stable_opt_ok g Hro T E) ptx buf penv Hvalid r rb Hr Hn) as (n & res & evs & evs' & H & H').
      destruct n as [|n]; [discriminate|]. eauto.
    - rewrite (optimize_unstable g T E).
      destruct (c01_total g ptx buf penv tab rank r rb Hwf Hr Hn) as (n & rr & H). destruct n as [|n]; [discriminate|]. eauto. }
  destruct P as (n & rr & H).
  destruct (generated_code_is_peg (optimize g) ptx buf penv (optimize_good_grammar g tab rank Hwf Hg Hro) Hbuf (optimize_good_switches g tab rank Hwf Hro)
              memo inline n r st0 rr (deep_table_optimize g inline Ha Hc) Hsl Hre H) as (res & Hx & K).
  assert (E : exists b st', res = Ret b st').
  { destruct rr as [[|p f] evs]; [destruct K as (st' & -> & _)|destruct K as (st' & -> & _)]; eauto. }
  destruct E as (b & st' & ->). exists b, st'. split; [exact Hx|].
  intros res' Hx'. exact (xcall_det _ _ _ _ _ _ _ _ Hx' Hx).
Qed.
Print Assumptions generated_code_switch_terminates.

(** ... and the -noast file *)
Theorem generated_code_noast_terminates g tab rank :
  wf_b g tab rank = true -> good_grammar g -> good_switches g -> grammar_alt2 g -> closed_names g ->
  forall ptx buf penv, good_buf buf ->
  forall inline r rb st0,
    (forall rb0, nth_error g ptx = Some rb0 -> rb0 = RNil) ->
    nth_error g r = Some rb -> rb <> RNil ->
    o_inline (mk_opts false false inline g) r = false -> reached (count_rules g) r = true ->
    exists b st', xcall buf penv (mk_opts false false inline g) (gen_fn_noast g ptx inline) r (reset st0) (Ret b st') /\
      forall res, xcall buf penv (mk_opts false false inline g) (gen_fn_noast g ptx inline) r (reset st0) res -> res = Ret b st'.
Proof.
  intros Hwf Hg Hs Ha Hc ptx buf penv Hb inline r rb st0 Hptx Hr Hn Hi Hre.
  destruct (c01_total g ptx buf penv tab rank r rb Hwf Hr Hn) as (n & rr & H).
  destruct n as [|n]; [discriminate|].
  destruct (generated_code_noast g ptx buf penv Hg Hb Hs inline n r st0 rr Hptx (deep_table_all g inline Ha Hc) Hi Hre H) as (st' & Hx & _).
  eexists _, st'. split; [exact Hx|].
  intros res' Hx'. exact (xcall_det _ _ _ _ _ _ _ _ Hx' Hx).
Qed.
Print Assumptions generated_code_noast_terminates.
