(** Go wants a function with a result to end in a terminating statement.  Every rule function the emitter writes
    ends in a return. *)
From PegV Require Import Base.Tac Spec.Syntax Model.Analyses Model.Emit Model.SEmit.
From Coq Require Import List.
Import ListNotations.

Lemma srule_ends_in_return g ptx ast inl asu used n r ko :
  exists pre b, fst (srule_emit g ptx ast inl asu used n r ko) = pre ++ [SReturn b].
Proof.
  unfold srule_emit. destruct (sipush_emit g ast (semit g ptx ast inl asu used n) r ko false false (S ko)) as [[c l1] ll]. cbn [fst].
  destruct (used ko).
  - eexists. exists false. rewrite !app_assoc.
    change ([SRestore ko; SReturn false]) with ([SRestore ko] ++ [SReturn false]). rewrite !app_assoc. reflexivity.
  - eexists. exists true. rewrite app_nil_r, !app_assoc. reflexivity.
Qed.

Lemma spass_ends_in_return g ptx ast inline asu undef cr fl real u : forall rs r l,
  Forall (fun o => match o with Some F => exists pre b, F = pre ++ [SReturn b] | None => True end)
         (spass g ptx ast inline asu undef cr fl real u rs r l).
Proof.
  induction rs as [|rb rs IH]; intros r l; cbn [spass]; [constructor|].
  destruct (match rb with RNil => if undef r then real else true | _ => false end); [constructor; [exact I|apply IH]|].
  destruct (negb (reached cr r)); [constructor; [exact I|apply IH]|].
  destruct (once inline cr r && negb (Nat.eqb l 0))%bool; [constructor; [exact I|apply IH]|].
  pose proof (srule_ends_in_return g ptx ast (once inline cr) asu u fl r l) as U.
  destruct (srule_emit g ptx ast (once inline cr) asu u fl r l) as [c l1]. cbn [fst] in U.
  constructor; [exact U|apply IH].
Qed.

Theorem functions_end_in_return g ptx ast inline asu undef :
  Forall (fun o => match o with Some F => exists pre b, F = pre ++ [SReturn b] | None => True end)
         (semit_all g ptx ast inline asu undef).
Proof. unfold semit_all. apply spass_ends_in_return. Qed.
