(** Facts about the reference semantics: fuel monotonicity (hence determinism across fuel). *)
From PegV Require Import Base.Tac Spec.Syntax Spec.Peg.

Section Facts.
Variable g : grammar.
Variable ptx : nat.
Variable buf : list rune.
Variable penv : nat -> nat -> bool.

Notation ev := (peg_ev g ptx buf penv).

Lemma seq_ev_mono (f f' : expr -> nat -> option out) :
  (forall e p x, f e p = Some x -> f' e p = Some x) ->
  forall es p x, seq_ev f es p = Some x -> seq_ev f' es p = Some x.
Proof.
  intros Hf es; induction es as [|e es IH]; intros p x H; cbn [seq_ev] in *; [exact H|].
  destruct (f e p) as [[[|p1 f1] evs1]|] eqn:E; try discriminate; rewrite (Hf _ _ _ E); [exact H|].
  destruct (seq_ev f es p1) as [[[|p2 f2] evs2]|] eqn:E2; try discriminate; rewrite (IH _ _ E2); exact H.
Qed.

Lemma alt_ev_mono (f f' : expr -> nat -> option out) :
  (forall e p x, f e p = Some x -> f' e p = Some x) ->
  forall es p x, alt_ev f es p = Some x -> alt_ev f' es p = Some x.
Proof.
  intros Hf es; induction es as [|e es IH]; intros p x H; cbn [alt_ev] in *; [exact H|].
  destruct (f e p) as [[[|p1 f1] evs1]|] eqn:E; try discriminate; rewrite (Hf _ _ _ E); [|exact H].
  destruct es as [|e2 es]; [exact H|].
  destruct (alt_ev f (e2 :: es) p) as [[r2 evs2]|] eqn:E2; try discriminate; rewrite (IH _ _ E2); exact H.
Qed.

Lemma peg_ev_S n : forall e p x, ev n e p = Some x -> ev (S n) e p = Some x.
Proof.
  induction n as [|n IH]; intros e p x H; [discriminate|].
  destruct e; cbn [peg_ev] in H; remember (S n) as m eqn:Hm; cbn [peg_ev]; try exact H.
  - (* EName *)
    destruct (nth_error g r) as [[b|k|]|]; try exact H.
    destruct (ev n b p) as [[[|p1 f1] evs1]|] eqn:E; try discriminate; rewrite (IH _ _ _ E); exact H.
  - eapply seq_ev_mono; [|exact H]. exact IH.
  - eapply alt_ev_mono; [|exact H]. exact IH.
  - destruct (ev n e p) as [[[|p1 f1] evs1]|] eqn:E; try discriminate; rewrite (IH _ _ _ E); exact H.
  - destruct (ev n e p) as [[[|p1 f1] evs1]|] eqn:E; try discriminate; rewrite (IH _ _ _ E); exact H.
  - destruct (ev n e p) as [[[|p1 f1] evs1]|] eqn:E; try discriminate; rewrite (IH _ _ _ E); exact H.
  - destruct (ev n e p) as [[[|p1 f1] evs1]|] eqn:E; try discriminate; rewrite (IH _ _ _ E); [exact H|].
    destruct (ev n (EStar e) p1) as [[[|p2 f2] evs2]|] eqn:E2; try discriminate; rewrite (IH _ _ _ E2); exact H.
  - destruct (ev n e p) as [[[|p1 f1] evs1]|] eqn:E; try discriminate; rewrite (IH _ _ _ E); [exact H|].
    destruct (ev n (EStar e) p1) as [[[|p2 f2] evs2]|] eqn:E2; try discriminate; rewrite (IH _ _ _ E2); exact H.
  - destruct (ev n e p) as [[[|p1 f1] evs1]|] eqn:E; try discriminate; rewrite (IH _ _ _ E); exact H.
  - destruct (nth_error buf p) as [c|]; [destruct (find_case cs c)|]; apply IH; exact H.
Qed.

Lemma peg_ev_mono n m e p x : n <= m -> ev n e p = Some x -> ev m e p = Some x.
Proof. induction 1; auto. intros. apply peg_ev_S. auto. Qed.

Lemma peg_ev_det n m e p x y : ev n e p = Some x -> ev m e p = Some y -> x = y.
Proof.
  intros Hx Hy. destruct (Nat.le_ge_cases n m) as [L|L].
  - pose proof (peg_ev_mono _ _ _ _ _ L Hx). congruence.
  - pose proof (peg_ev_mono _ _ _ _ _ L Hy). congruence.
Qed.

End Facts.

(** folding "replace when non-empty and strictly further" *)
Lemma upd_max_end m t : tk_end m <= tk_end (upd_max m t).
Proof. unfold upd_max. destruct (negb (tk_begin t =? tk_end t) && (tk_end m <? tk_end t)) eqn:E; [|lia]. apply andb_true_iff in E as [_ E]. apply Nat.ltb_lt in E. lia. Qed.

Lemma fold_upd_end evs : forall m, tk_end m <= tk_end (fold_left upd_max evs m).
Proof. induction evs as [|t evs IH]; intros m; cbn; [lia|]. pose proof (upd_max_end m t). pose proof (IH (upd_max m t)). lia. Qed.

(** every non-empty event is absorbed by the fold's result *)
Definition absorbed (evs : list tok) (m : tok) : Prop :=
  forall t, In t evs -> tk_begin t <> tk_end t -> tk_end t <= tk_end m.

Lemma fold_upd_absorbs evs : forall m, absorbed evs (fold_left upd_max evs m).
Proof.
  induction evs as [|t evs IH]; intros m u Hu Hne; cbn in *; [contradiction|].
  destruct Hu as [->|Hu]; [|apply IH; auto].
  pose proof (fold_upd_end evs (upd_max m u)). unfold upd_max in *.
  destruct (tk_begin u =? tk_end u) eqn:E1; [apply Nat.eqb_eq in E1; contradiction|]. cbn [negb andb] in *.
  destruct (tk_end m <? tk_end u) eqn:E2; [lia|]. apply Nat.ltb_ge in E2. lia.
Qed.

Lemma absorbed_mono evs m m' : absorbed evs m -> tk_end m <= tk_end m' -> absorbed evs m'.
Proof. intros H L t Ht Hne. specialize (H t Ht Hne). lia. Qed.

Lemma absorbed_fold evs : forall m, absorbed evs m -> fold_left upd_max evs m = m.
Proof.
  induction evs as [|t evs IH]; intros m H; cbn; [reflexivity|].
  assert (upd_max m t = m) as ->.
  { unfold upd_max. destruct (tk_begin t =? tk_end t) eqn:E1; [reflexivity|]. cbn [negb andb].
    apply Nat.eqb_neq in E1. specialize (H t (or_introl eq_refl) E1).
    destruct (tk_end m <? tk_end t) eqn:E2; [apply Nat.ltb_lt in E2; lia | reflexivity]. }
  apply IH. intros u Hu. apply H. right; auto.
Qed.
