(** Ford's theorem for the reference semantics: on a well-formed grammar (wf_b with any certificate)
    every expression that satisfies the local conditions has a result on every input position:
    [peg_ev] never runs forever.  Hence the conditional theorems of Proofs/Top.v hold for every input. *)
From PegV Require Import Base.Tac Base.ListX Spec.Syntax Spec.Peg Spec.WF Model.Analyses Proofs.PegFacts Proofs.Forest.

Section Total.
Variable g : grammar.
Variable ptx : nat.
Variable buf : list rune.
Variable penv : nat -> nat -> bool.
Variable tab : list bool.
Variable rank : list nat.
Hypothesis Hwf : wf_b g tab rank = true.

Notation ev := (peg_ev g ptx buf penv).
Notation nul := (nul tab).
Notation heads := (heads tab).
Notation local_ok := (local_ok g tab).

Lemma wf_rule r rb : nth_error g r = Some rb -> rule_wf g tab rank r rb = true.
Proof.
  unfold wf_b in Hwf.
  assert (G : forall l i, (fix go (l : list rbody) (i : nat) : bool :=
                match l with [] => true | rb :: l' => rule_wf g tab rank i rb && go l' (S i) end) l i = true ->
              forall k rb, nth_error l k = Some rb -> rule_wf g tab rank (i + k) rb = true).
  { induction l as [|x l IH]; intros i H k rb0 Hk; [destruct k; discriminate|].
    apply andb_true_iff in H as [H1 H2]. destruct k as [|k]; cbn in Hk.
    - inv Hk. rewrite Nat.add_0_r. exact H1.
    - replace (i + S k) with (S i + k) by lia. eapply IH; eauto. }
  intros H. exact (G g 0 Hwf r rb H).
Qed.

(** position never moves backwards (from the forest shape) *)
Lemma ev_le n e p p' f evs : p <= length buf -> ev n e p = Some (Succ p' f, evs) -> p <= p' /\ p' <= length buf.
Proof.
  intros Hp H. destruct (ev_ok g ptx buf penv n e p _ Hp H) as [_ [W B]]. cbn [fst] in *.
  split; [eapply wf_forest_le; eauto|exact B].
Qed.

(** a non-nullable expression consumes whenever it succeeds *)
Lemma consumes n : forall e p p' f evs, p <= length buf -> local_ok e = true -> nul e = false ->
  ev n e p = Some (Succ p' f, evs) -> p < p'.
Proof.
  induction n as [|n IH]; intros e p p' f evs Hp Hl Hn H; [discriminate|].
  destruct e; cbn [WF.nul] in Hn; try discriminate; cbn [WF.local_ok] in Hl; cbn [peg_ev] in H.
  - unfold term in H. destruct (nth_error buf p); [|discriminate]. inv H. lia.
  - unfold term in H. destruct (nth_error buf p) as [c'|]; [destruct (Z.eqb c c')|]; inv H. lia.
  - unfold term in H. destruct (nth_error buf p) as [c'|]; [destruct (in_range lo hi c')|]; inv H. lia.
  - (* EName *)
    destruct (nth_error g r) as [[b|k|]|] eqn:Eg; try discriminate.
    + pose proof (wf_rule _ _ Eg) as W. cbn [rule_wf] in W.
      apply andb_true_iff in W as [W _]. apply andb_true_iff in W as [Wl Wn].
      destruct (ev n b p) as [[[|p1 f1] evs1]|] eqn:E; try discriminate. inv H.
      eapply IH; eauto. destruct (nul b) eqn:Enb; [|reflexivity]. cbn in Wn. unfold tabr in *. congruence.
    + pose proof (wf_rule _ _ Eg) as W. cbn [rule_wf] in W. unfold tabr in *. congruence.
  - (* ESeq: some element is not nullable *)
    revert p f evs Hp H Hl Hn. induction es as [|x es IHes]; intros p f evs Hp H Hl Hn; cbn [forallb] in *; [discriminate|].
    apply andb_true_iff in Hl as [Hlx Hles]. cbn [seq_ev] in H.
    destruct (ev n x p) as [[[|p1 f1] evs1]|] eqn:E; try discriminate.
    destruct (seq_ev (ev n) es p1) as [[[|p2 f2] evs2]|] eqn:E2; try discriminate. inv H.
    destruct (ev_le _ _ _ _ _ _ Hp E) as [L1 B1].
    destruct (nul x) eqn:Enx.
    + cbn [andb] in Hn. specialize (IHes p1 f2 evs2 B1 E2 Hles Hn). lia.
    + pose proof (IH _ _ _ _ _ Hp Hlx Enx E).
      assert (p1 <= p').
      { clear -E2 B1 IH. revert p1 f2 evs2 B1 E2. induction es as [|y es IHy]; intros p1 f2 evs2 B1 E2; cbn [seq_ev] in E2; [inv E2; lia|].
        destruct (ev n y p1) as [[[|q1 g1] ev1]|] eqn:Ey; try discriminate.
        destruct (seq_ev (ev n) es q1) as [[[|q2 g2] ev2]|] eqn:Ey2; try discriminate. inv E2.
        destruct (ev_le _ _ _ _ _ _ B1 Ey). specialize (IHy _ _ _ H0 Ey2). lia. }
      lia.
  - (* EAlt: every alternative is non-nullable *)
    revert f evs H Hl Hn. induction es as [|x es IHes]; intros f evs H Hl Hn; cbn [existsb forallb alt_ev] in *; [discriminate|].
    apply andb_true_iff in Hl as [Hlx Hles]. apply orb_false_iff in Hn as [Hnx Hnes].
    destruct (ev n x p) as [[[|p1 f1] evs1]|] eqn:E; try discriminate.
    + destruct es as [|y es]; [discriminate|].
      destruct (alt_ev (ev n) (y :: es) p) as [[r2 evs2]|] eqn:E2; try discriminate. inv H.
      eapply IHes; eauto.
    + inv H. eapply IH; eauto.
  - (* EPlus *)
    apply andb_true_iff in Hl as [Hne Hle].
    destruct (ev n e p) as [[[|p1 f1] evs1]|] eqn:E; try discriminate.
    destruct (ev n (EStar e) p1) as [[[|p2 f2] evs2]|] eqn:E2; try discriminate. inv H.
    destruct (ev_le _ _ _ _ _ _ Hp E) as [L1 B1]. destruct (ev_le _ _ _ _ _ _ B1 E2) as [L2 B2].
    pose proof (IH _ _ _ _ _ Hp Hle Hn E). lia.
  - (* EPush *)
    destruct (ev n e p) as [[[|p1 f1] evs1]|] eqn:E; try discriminate. inv H. eapply IH; eauto.
  - (* ESwitch *)
    apply andb_true_iff in Hl as [Hlc Hld]. apply orb_false_iff in Hn as [Hnc Hnd].
    destruct (nth_error buf p) as [c|]; [|eapply IH; eauto].
    unfold find_case in H. destruct (find_case_keys cs c) as [[keys e1]|] eqn:Ef; cbn [option_map snd] in H; [|eapply IH; eauto].
    assert (In (keys, e1) cs).
    { clear -Ef. induction cs as [|[k x] cs IHc]; cbn in Ef; [discriminate|]. destruct (existsb (Z.eqb c) k); [inv Ef; left; reflexivity|right; auto]. }
    rewrite forallb_forall in Hlc. specialize (Hlc _ H0).
    assert (nul e1 = false).
    { destruct (nul e1) eqn:En; [|reflexivity]. assert (existsb (fun c0 => nul (snd c0)) cs = true) by (apply existsb_exists; exists (keys, e1); auto). congruence. }
    exact (IH _ _ _ _ _ Hp Hlc H1 H).
Qed.

Definition hr (l : list nat) : nat := fold_right (fun r a => Nat.max (S (rk rank r)) a) 0 l.
Definition hrank (e : expr) : nat := hr (heads e).

Lemma hr_app l1 l2 : hr (l1 ++ l2) = Nat.max (hr l1) (hr l2).
Proof. unfold hr. induction l1 as [|x l1 IH]; cbn [fold_right app]; [reflexivity|]. rewrite IH. lia. Qed.

Lemma hr_flat_map {A} (f : A -> list nat) x xs : In x xs -> hr (f x) <= hr (flat_map f xs).
Proof.
  induction xs as [|y xs IH]; intros H; [destruct H|]. cbn [flat_map]. rewrite hr_app.
  destruct H as [->|H]; [lia|]. specialize (IH H). lia.
Qed.

Lemma esize_in x es : In x es -> esize x <= fold_right (fun y a => esize y + a) 0 es.
Proof.
  induction es as [|y es IH]; intros H; [destruct H|]. cbn [fold_right].
  destruct H as [->|H]; [lia|]. specialize (IH H). lia.
Qed.

Lemma esize_pos e : 1 <= esize e.
Proof. destruct e; cbn; lia. Qed.

Definition has_result (e : expr) (p : nat) : Prop := exists n r, ev n e p = Some r.

Lemma seq_ev_fuel n m es p x : n <= m -> seq_ev (ev n) es p = Some x -> seq_ev (ev m) es p = Some x.
Proof. intros L. apply seq_ev_mono. intros e q y. apply peg_ev_mono. exact L. Qed.
Lemma alt_ev_fuel n m es p x : n <= m -> alt_ev (ev n) es p = Some x -> alt_ev (ev m) es p = Some x.
Proof. intros L. apply alt_ev_mono. intros e q y. apply peg_ev_mono. exact L. Qed.

(** the measure: remaining input, then rank of the head rules, then size *)
Definition P (k h s : nat) : Prop :=
  forall e p, p <= length buf -> length buf - p <= k -> hrank e <= h -> esize e <= s -> local_ok e = true -> has_result e p.

Lemma heads_seq_cons x es :
  heads (ESeq (x :: es)) = heads x ++ (if nul x then heads (ESeq es) else []).
Proof. reflexivity. Qed.

Theorem total : forall k h s, P k h s.
Proof.
  induction k as [k IHk] using lt_wf_ind. induction h as [h IHh] using lt_wf_ind.
  induction s as [|s IHs]; intros e p Hp Hk Hh Hs Hl; [pose proof (esize_pos e); lia|].
  (* sub-expression evaluated at the same position in head position, or further to the right *)
  assert (Hsub : forall x q, p <= q -> q <= length buf -> local_ok x = true ->
                   (q = p -> hrank x <= h /\ esize x <= s) -> has_result x q).
  { intros x q Hq Hqb Hlx Hc. destruct (Nat.eq_dec q p) as [->|Hne].
    - destruct (Hc eq_refl). apply IHs; auto.
    - apply (IHk (length buf - q)) with (h := hrank x) (s := esize x); auto; lia. }
  destruct e; cbn [WF.local_ok] in Hl.
  - exists 1; eexists; reflexivity.
  - exists 1; eexists; reflexivity.
  - exists 1; eexists; reflexivity.
  - (* EName *)
    destruct (nth_error g r) as [[b|a|]|] eqn:Eg; try discriminate.
    + pose proof (wf_rule _ _ Eg) as W. cbn [rule_wf] in W.
      apply andb_true_iff in W as [W Wh]. apply andb_true_iff in W as [Wl Wn].
      assert (Hb : hrank b < h).
      { unfold hrank in *. cbn [WF.heads hr fold_right] in Hh.
        assert (hr (heads b) <= rk rank r).
        { rewrite forallb_forall in Wh. clear -Wh. unfold hr. induction (heads b) as [|y l IH]; cbn [fold_right]; [lia|].
          assert (rk rank y < rk rank r) by (apply Nat.ltb_lt; apply Wh; left; reflexivity).
          assert (fold_right (fun r0 a => Nat.max (S (rk rank r0)) a) 0 l <= rk rank r) by (apply IH; intros; apply Wh; right; auto).
          lia. }
        lia. }
      destruct (IHh (hrank b) Hb (esize b) b p Hp Hk (le_n _) (le_n _) Wl) as (n & rr & E).
      exists (S n). cbn [peg_ev]. rewrite Eg, E. destruct rr as [[|p1 f1] evs1]; eexists; reflexivity.
    + exists 1. cbn [peg_ev]. rewrite Eg. eexists; reflexivity.
  - exists 1; eexists; reflexivity.
  - exists 1; eexists; reflexivity.
  - exists 1; eexists; reflexivity.
  - exists 1; eexists; reflexivity.
  - (* ESeq *)
    cbn [esize] in Hs.
    assert (Hseq : forall l q, p <= q -> q <= length buf -> forallb local_ok l = true ->
                     fold_right (fun y a => esize y + a) 0 l <= s ->
                     (q = p -> hrank (ESeq l) <= h) -> exists n r, seq_ev (ev n) l q = Some r).
    { induction l as [|x l IHl]; intros q Hq Hqb Hll Hsz Hc; [exists 0; eexists; reflexivity|].
      cbn [forallb fold_right] in *. apply andb_true_iff in Hll as [Hlx Hll].
      destruct (Hsub x q Hq Hqb Hlx) as (n1 & r1 & E1).
      { intros ->. specialize (Hc eq_refl). unfold hrank in *. rewrite heads_seq_cons, hr_app in Hc. lia. }
      destruct r1 as [[|q1 f1] evs1].
      - exists n1. cbn [seq_ev]. rewrite E1. eexists; reflexivity.
      - destruct (ev_le _ _ _ _ _ _ Hqb E1) as [L1 B1].
        destruct (IHl q1 ltac:(lia) B1 Hll ltac:(lia)) as (n2 & r2 & E2).
        { intros ->. assert (q = p) by lia. subst q. specialize (Hc eq_refl).
          unfold hrank in *. rewrite heads_seq_cons, hr_app in Hc.
          destruct (nul x) eqn:Enx; [lia|].
          pose proof (consumes _ _ _ _ _ _ Hqb Hlx Enx E1). lia. }
        exists (Nat.max n1 n2). cbn [seq_ev].
        rewrite (peg_ev_mono _ _ _ _ _ _ _ _ _ (Nat.le_max_l n1 n2) E1).
        rewrite (seq_ev_fuel _ _ _ _ _ (Nat.le_max_r n1 n2) E2).
        destruct r2 as [[|q2 f2] evs2]; eexists; reflexivity. }
    destruct (Hseq es p (le_n _) Hp Hl ltac:(lia) (fun _ => Hh)) as (n & r & E).
    exists (S n), r. exact E.
  - (* EAlt *)
    cbn [esize] in Hs.
    assert (Halt : forall l, forallb local_ok l = true -> (forall x, In x l -> hrank x <= h /\ esize x <= s) ->
                     exists n r, alt_ev (ev n) l p = Some r).
    { induction l as [|x l IHl]; intros Hll Hc; [exists 0; eexists; reflexivity|].
      cbn [forallb] in Hll. apply andb_true_iff in Hll as [Hlx Hll].
      destruct (Hsub x p (le_n _) Hp Hlx (fun _ => Hc x (or_introl eq_refl))) as (n1 & r1 & E1).
      destruct r1 as [[|q1 f1] evs1].
      - destruct l as [|y l]; [exists n1; cbn [alt_ev]; rewrite E1; eexists; reflexivity|].
        destruct (IHl Hll (fun z Hz => Hc z (or_intror Hz))) as (n2 & r2 & E2).
        exists (Nat.max n1 n2). cbn [alt_ev].
        rewrite (peg_ev_mono _ _ _ _ _ _ _ _ _ (Nat.le_max_l n1 n2) E1).
        pose proof (alt_ev_fuel _ _ _ _ _ (Nat.le_max_r n1 n2) E2) as E2'. cbn [alt_ev] in E2'. rewrite E2'.
        destruct r2; eexists; reflexivity.
      - exists n1. cbn [alt_ev]. rewrite E1. eexists; reflexivity. }
    destruct (Halt es Hl) as (n & r & E).
    { intros x Hx. split.
      - unfold hrank in *. cbn [WF.heads] in Hh. pose proof (hr_flat_map heads x es Hx). lia.
      - pose proof (esize_in x es Hx). lia. }
    exists (S n), r. exact E.
  - (* EAnd *)
    assert (Hsz : esize e <= s) by (cbn [esize] in Hs; lia). destruct (Hsub e p (le_n _) Hp Hl (fun _ => conj Hh Hsz)) as (n & r & E).
    exists (S n). cbn [peg_ev]. rewrite E. destruct r as [[|p1 f1] evs1]; eexists; reflexivity.
  - (* ENot *)
    assert (Hsz : esize e <= s) by (cbn [esize] in Hs; lia). destruct (Hsub e p (le_n _) Hp Hl (fun _ => conj Hh Hsz)) as (n & r & E).
    exists (S n). cbn [peg_ev]. rewrite E. destruct r as [[|p1 f1] evs1]; eexists; reflexivity.
  - (* EQuery *)
    assert (Hsz : esize e <= s) by (cbn [esize] in Hs; lia). destruct (Hsub e p (le_n _) Hp Hl (fun _ => conj Hh Hsz)) as (n & r & E).
    exists (S n). cbn [peg_ev]. rewrite E. destruct r as [[|p1 f1] evs1]; eexists; reflexivity.
  - (* EStar *)
    cbn [esize] in Hs. apply andb_true_iff in Hl as [Hne Hle]. apply negb_true_iff in Hne.
    assert (Hsz : esize e <= s) by (cbn [esize] in Hs; lia).
    destruct (Hsub e p (le_n _) Hp Hle (fun _ => conj Hh Hsz)) as (n1 & r1 & E1).
    destruct r1 as [[|p1 f1] evs1].
    + exists (S n1). cbn [peg_ev]. rewrite E1. eexists; reflexivity.
    + pose proof (consumes _ _ _ _ _ _ Hp Hle Hne E1) as Hc. destruct (ev_le _ _ _ _ _ _ Hp E1) as [_ B1].
      assert (Hl2 : local_ok (EStar e) = true) by (cbn [WF.local_ok]; rewrite Hne, Hle; reflexivity).
      destruct (IHk (length buf - p1) ltac:(lia) (hrank (EStar e)) (esize (EStar e)) (EStar e) p1 B1 (le_n _) (le_n _) (le_n _) Hl2) as (n2 & r2 & E2).
      exists (S (Nat.max n1 n2)). cbn [peg_ev].
      rewrite (peg_ev_mono _ _ _ _ _ _ _ _ _ (Nat.le_max_l n1 n2) E1).
      rewrite (peg_ev_mono _ _ _ _ _ _ _ _ _ (Nat.le_max_r n1 n2) E2).
      destruct r2 as [[|q2 f2] evs2]; eexists; reflexivity.
  - (* EPlus *)
    cbn [esize] in Hs. apply andb_true_iff in Hl as [Hne Hle]. apply negb_true_iff in Hne.
    assert (Hsz : esize e <= s) by (cbn [esize] in Hs; lia).
    destruct (Hsub e p (le_n _) Hp Hle (fun _ => conj Hh Hsz)) as (n1 & r1 & E1).
    destruct r1 as [[|p1 f1] evs1].
    + exists (S n1). cbn [peg_ev]. rewrite E1. eexists; reflexivity.
    + pose proof (consumes _ _ _ _ _ _ Hp Hle Hne E1) as Hc. destruct (ev_le _ _ _ _ _ _ Hp E1) as [_ B1].
      assert (Hl2 : local_ok (EStar e) = true) by (cbn [WF.local_ok]; rewrite Hne, Hle; reflexivity).
      destruct (IHk (length buf - p1) ltac:(lia) (hrank (EStar e)) (esize (EStar e)) (EStar e) p1 B1 (le_n _) (le_n _) (le_n _) Hl2) as (n2 & r2 & E2).
      exists (S (Nat.max n1 n2)). cbn [peg_ev].
      rewrite (peg_ev_mono _ _ _ _ _ _ _ _ _ (Nat.le_max_l n1 n2) E1).
      rewrite (peg_ev_mono _ _ _ _ _ _ _ _ _ (Nat.le_max_r n1 n2) E2).
      destruct r2 as [[|q2 f2] evs2]; eexists; reflexivity.
  - (* EPush *)
    assert (Hsz : esize e <= s) by (cbn [esize] in Hs; lia). destruct (Hsub e p (le_n _) Hp Hl (fun _ => conj Hh Hsz)) as (n & r & E).
    exists (S n). cbn [peg_ev]. rewrite E. destruct r as [[|p1 f1] evs1]; eexists; reflexivity.
  - (* ESwitch *)
    cbn [esize] in Hs. apply andb_true_iff in Hl as [Hlc Hld].
    assert (Hd : has_result e p).
    { apply Hsub; auto. intros _. split; [|lia]. unfold hrank in *. cbn [WF.heads] in Hh. rewrite hr_app in Hh. lia. }
    destruct (nth_error buf p) as [c|] eqn:Ec.
    + destruct (find_case_keys cs c) as [[keys e1]|] eqn:Ef.
      * assert (Hin : In (keys, e1) cs).
        { clear -Ef. induction cs as [|[k0 x] cs IHc]; cbn in Ef; [discriminate|]. destruct (existsb (Z.eqb c) k0); [inv Ef; left; reflexivity|right; auto]. }
        rewrite forallb_forall in Hlc. pose proof (Hlc _ Hin) as Hl1. cbn [snd] in Hl1.
        destruct (Hsub e1 p (le_n _) Hp Hl1) as (n & r & E).
        { intros _. split.
          - unfold hrank in *. cbn [WF.heads] in Hh. rewrite hr_app in Hh.
            pose proof (hr_flat_map (fun c0 : list rune * expr => heads (snd c0)) (keys, e1) cs Hin). cbn [snd] in H. lia.
          - assert (esize e1 <= fold_right (fun x a => esize (snd x) + a) 0 cs).
            { clear -Hin. induction cs as [|y cs IHc]; [destruct Hin|]. cbn [fold_right]. destruct Hin as [->|Hin]; [cbn; lia|]. specialize (IHc Hin). lia. }
            lia. }
        exists (S n), r. cbn [peg_ev]. rewrite Ec. unfold find_case. rewrite Ef. exact E.
      * destruct Hd as (n & r & E). exists (S n), r. cbn [peg_ev]. rewrite Ec. unfold find_case. rewrite Ef. exact E.
    + destruct Hd as (n & r & E). exists (S n), r. cbn [peg_ev]. rewrite Ec. exact E.
Qed.

End Total.
