(** Proofs that the interval-list model of set/set.go refines mathematical sets of integers. *)
From PegV Require Import Base.Tac Model.SetImpl.
Open Scope Z_scope.

Definition inode (n : Z * Z) (x : Z) : bool := (fst n <=? x) && (x <=? snd n).
Definition mem (l : iset) (x : Z) : bool := existsb (fun n => inode n x) l.

(** representation invariant: sorted, disjoint, non-adjacent, non-empty nodes, all >= lo *)
Fixpoint inv_from (lo : Z) (l : iset) : Prop :=
  match l with
  | [] => True
  | (b, e) :: l' => lo <= b /\ b <= e /\ inv_from (e + 2) l'
  end.
Definition Inv (l : iset) : Prop := inv_from 0 l.

Lemma mem_cons b e l x : mem ((b, e) :: l) x = ((b <=? x) && (x <=? e)) || mem l x.
Proof. reflexivity. Qed.
Lemma mem_nil x : mem [] x = false.
Proof. reflexivity. Qed.
Global Opaque mem.

Lemma inv_from_weaken lo lo' l : lo' <= lo -> inv_from lo l -> inv_from lo' l.
Proof. destruct l as [|[b e] l]; cbn; intros; intuition lia. Qed.

Lemma mem_below lo l x : inv_from lo l -> x < lo -> mem l x = false.
Proof.
  revert lo; induction l as [|[b e] l IH]; cbn [inv_from]; intros lo H Hx; [reflexivity|].
  destruct H as (H1 & H2 & H3). rewrite mem_cons.
  rewrite (IH (e + 2)) by (auto; lia). dcmp; cbn; try reflexivity; lia.
Qed.

(** * AddRange *)
Lemma add_range_inv l : forall lo b e, inv_from lo l -> lo <= b -> b <= e -> inv_from lo (add_range l b e).
Proof.
  induction l as [|[nb ne] l IH]; cbn [inv_from add_range]; intros lo b e H Hlo Hbe.
  - intuition lia.
  - destruct H as (H1 & H2 & H3).
    destruct (Z.ltb_spec ne (b - 1)).
    + cbn [inv_from]. repeat split; try lia. apply IH; auto; lia.
    + destruct (Z.ltb_spec e (nb - 1)).
      * cbn [inv_from]. repeat split; try lia. eapply inv_from_weaken; [|exact H3]. lia.
      * apply IH; try lia. eapply inv_from_weaken; [|exact H3]. lia.
Qed.

Lemma add_range_mem l : forall lo b e x, inv_from lo l -> b <= e ->
  mem (add_range l b e) x = mem l x || ((b <=? x) && (x <=? e)).
Proof.
  induction l as [|[nb ne] l IH]; cbn [inv_from add_range]; intros lo b e x H Hbe.
  - rewrite mem_cons, mem_nil. rewrite orb_false_r. reflexivity.
  - destruct H as (H1 & H2 & H3).
    destruct (Z.ltb_spec ne (b - 1)).
    + rewrite !mem_cons. rewrite (IH (ne + 2)) by auto. rewrite orb_assoc. reflexivity.
    + destruct (Z.ltb_spec e (nb - 1)).
      * rewrite !mem_cons. destruct ((b <=? x) && (x <=? e)), ((nb <=? x) && (x <=? ne)), (mem l x); reflexivity.
      * rewrite (IH (ne + 2)) by (auto; lia). rewrite mem_cons.
        destruct (mem l x); cbn; bsimpl; [reflexivity|]. dcmp; cbn; try reflexivity; lia.
Qed.

(** * Has *)
Lemma has_spec l : forall lo x, inv_from lo l -> has l x = mem l x.
Proof.
  induction l as [|[nb ne] l IH]; cbn [inv_from has]; intros lo x H; [reflexivity|].
  destruct H as (H1 & H2 & H3). rewrite mem_cons.
  destruct (Z.ltb_spec ne x).
  - rewrite (IH (ne + 2)) by auto. dcmp; cbn; try reflexivity; lia.
  - rewrite (mem_below (ne + 2) l x) by (auto; lia). dcmp; cbn; try reflexivity; lia.
Qed.

(** * elements / Len / String *)
Lemma zrange_f_in n : forall b x, In x (zrange_f n b) <-> b <= x < b + Z.of_nat n.
Proof.
  induction n as [|n IH]; intros b x; cbn [zrange_f In].
  - lia.
  - rewrite IH. lia.
Qed.

Lemma zrange_in b e x : In x (zrange b e) <-> b <= x <= e.
Proof. unfold zrange. rewrite zrange_f_in. lia. Qed.

Lemma zrange_f_length n b : length (zrange_f n b) = n.
Proof. revert b; induction n; cbn; auto. Qed.

Lemma zrange_length b e : b <= e -> Z.of_nat (length (zrange b e)) = e - b + 1.
Proof. intros. unfold zrange. rewrite zrange_f_length. lia. Qed.

Lemma elements_mem l x : In x (elements l) <-> mem l x = true.
Proof.
  Local Transparent mem. unfold elements, mem. rewrite in_flat_map, existsb_exists.
  split; intros (n & Hn & H); exists n; split; auto.
  - apply zrange_in in H. unfold inode. lia.
  - apply zrange_in. unfold inode in H. lia.
Qed.
Global Opaque mem.

Lemma len_spec l : forall lo, inv_from lo l -> len l = Z.of_nat (length (elements l)).
Proof.
  induction l as [|[nb ne] l IH]; cbn; intros lo H; [reflexivity|].
  destruct H as (H1 & H2 & H3). rewrite app_length, Nat2Z.inj_add, zrange_length by lia.
  rewrite (IH (ne + 2)) by auto. reflexivity.
Qed.

Inductive ascending_from : Z -> list Z -> Prop :=
| asc_nil lo : ascending_from lo []
| asc_cons lo x l : lo <= x -> ascending_from (x + 1) l -> ascending_from lo (x :: l).

Lemma ascending_weaken lo lo' l : lo' <= lo -> ascending_from lo l -> ascending_from lo' l.
Proof. intros Hle H; destruct H; constructor; auto; lia. Qed.

Lemma zrange_f_asc n : forall b, ascending_from b (zrange_f n b).
Proof. induction n; intros; cbn; constructor; auto; lia. Qed.

Lemma asc_app l1 : forall lo mid l2,
  ascending_from lo l1 -> (forall x, In x l1 -> x < mid) -> lo <= mid -> ascending_from mid l2 ->
  ascending_from lo (l1 ++ l2).
Proof.
  induction l1 as [|x l1 IH]; intros lo mid l2 H1 Hb Hlm H2; cbn.
  - eapply ascending_weaken; eauto.
  - inv H1. constructor; auto. eapply IH; eauto.
    + intros; apply Hb; right; auto.
    + specialize (Hb x (or_introl eq_refl)). lia.
Qed.

Lemma elements_ascending l : forall lo, inv_from lo l -> ascending_from lo (elements l).
Proof.
  induction l as [|[nb ne] l IH]; cbn; intros lo H; [constructor|].
  destruct H as (H1 & H2 & H3).
  eapply asc_app with (mid := ne + 2).
  - eapply ascending_weaken; [|apply zrange_f_asc]. auto.
  - intros x Hx. apply zrange_in in Hx. cbn in Hx. lia.
  - lia.
  - apply IH; auto.
Qed.

(** * Union *)
Lemma fold_add_inv a : forall lo acc, inv_from lo acc -> inv_from lo a ->
  inv_from lo (fold_left (fun acc n => add_range acc (fst n) (snd n)) a acc).
Proof.
  induction a as [|[nb ne] a IH]; cbn; intros lo acc Hacc Ha; [auto|].
  destruct Ha as (H1 & H2 & H3). apply IH.
  - apply add_range_inv; auto.
  - eapply inv_from_weaken; [|exact H3]. lia.
Qed.

Lemma fold_add_mem a : forall lo acc x, inv_from lo acc -> inv_from lo a ->
  mem (fold_left (fun acc n => add_range acc (fst n) (snd n)) a acc) x = mem acc x || mem a x.
Proof.
  induction a as [|[nb ne] a IH]; cbn [fold_left inv_from fst snd]; intros lo acc x Hacc Ha;
    [rewrite mem_nil, orb_false_r; auto|].
  destruct Ha as (H1 & H2 & H3).
  rewrite (IH lo).
  - rewrite (add_range_mem _ lo) by auto. rewrite mem_cons, orb_assoc. reflexivity.
  - apply add_range_inv; auto.
  - eapply inv_from_weaken; [|exact H3]. lia.
Qed.

Lemma union_inv s a : Inv s -> Inv a -> Inv (union s a).
Proof. apply fold_add_inv. Qed.

Lemma union_mem s a x : Inv s -> Inv a -> mem (union s a) x = mem s x || mem a x.
Proof. apply fold_add_mem. Qed.

(** * Complement *)
Lemma compl_loop_spec l : forall pre lim acc x,
  Inv acc -> inv_from pre l -> 0 <= pre -> pre <= lim ->
  Inv (compl_loop l pre lim acc) /\
  mem (compl_loop l pre lim acc) x =
    mem acc x || ((pre <=? x) && (x <=? lim) && negb (mem l x)).
Proof.
  induction l as [|[nb ne] l IH]; cbn [compl_loop]; intros pre lim acc x Hacc Hl Hpre Hlim.
  - split; [apply add_range_inv; auto|].
    rewrite (add_range_mem _ 0) by auto. cbn. rewrite andb_true_r. reflexivity.
  - pose proof Hl as Hl0. destruct Hl as (H1 & H2 & H3).
    destruct (Z.ltb_spec lim nb).
    + split; [apply add_range_inv; auto|].
      rewrite (add_range_mem _ 0) by auto. f_equal.
      destruct (Z.leb_spec x lim); bsimpl; [|reflexivity].
      rewrite (mem_below nb ((nb, ne) :: l) x); [bsimpl; reflexivity | cbn; intuition lia | lia].
    + assert (Hacc' : Inv (if pre <? nb then add_range acc pre (nb - 1) else acc)).
      { destruct (Z.ltb_spec pre nb); auto. apply add_range_inv; auto; lia. }
      assert (Hm' : mem (if pre <? nb then add_range acc pre (nb - 1) else acc) x
                    = mem acc x || ((pre <=? x) && (x <? nb))).
      { destruct (Z.ltb_spec pre nb).
        - rewrite (add_range_mem _ 0) by (auto; lia). f_equal. dcmp; try reflexivity; lia.
        - replace ((pre <=? x) && (x <? nb)) with false; [bsimpl; reflexivity|]. dcmp; try reflexivity; lia. }
      destruct (Z.leb_spec lim ne).
      * split; [exact Hacc'|]. rewrite Hm'. f_equal. rewrite mem_cons.
        destruct (Z.ltb_spec x nb).
        -- rewrite (mem_below (ne + 2) l x) by (auto; lia). dcmp; try reflexivity; lia.
        -- dcmp; cbn; try reflexivity; try lia.
      * destruct (IH (ne + 1) lim _ x Hacc') as (IH1 & IH2); try lia.
        { eapply inv_from_weaken; [|exact H3]. lia. }
        split; [exact IH1|]. rewrite IH2, Hm', mem_cons, <- orb_assoc. f_equal.
        destruct (Z.ltb_spec x (ne + 1)).
        -- rewrite (mem_below (ne + 2) l x) by (auto; lia). dcmp; cbn; try reflexivity; lia.
        -- destruct (mem l x); dcmp; cbn; try reflexivity; lia.
Qed.

Lemma complement_inv l lim : Inv l -> 0 <= lim -> Inv (complement l lim).
Proof. intros. apply (compl_loop_spec l 0 lim [] 0); cbn; auto; lia. Qed.

Lemma complement_mem l lim x : Inv l -> 0 <= lim ->
  mem (complement l lim) x = (0 <=? x) && (x <=? lim) && negb (mem l x).
Proof. intros. unfold complement. destruct (compl_loop_spec l 0 lim [] x) as [_ E]; cbn; auto; lia. Qed.

(** * Intersects *)
Lemma mem_exists l x : mem l x = true <-> exists n, In n l /\ inode n x = true.
Proof. Local Transparent mem. unfold mem. apply existsb_exists. Qed.
Global Opaque mem.

Lemma inv_valid lo l : inv_from lo l -> Forall (fun n => fst n <= snd n) l.
Proof.
  revert lo; induction l as [|[b e] l IH]; cbn [inv_from]; intros lo H; constructor.
  - cbn; lia.
  - eapply IH. apply H.
Qed.

Lemma half_intersects_sound s b :
  Forall (fun n => fst n <= snd n) b ->
  half_intersects s b = true -> exists x, mem s x = true /\ mem b x = true.
Proof.
  intros Hv H. unfold half_intersects in H.
  apply existsb_exists in H as (n & Hn & H). apply existsb_exists in H as (m & Hm & H).
  rewrite Forall_forall in Hv. specialize (Hv m Hm).
  unfold node_hits in H. apply orb_true_iff in H as [H|H].
  - exists (fst m). split; apply mem_exists; [exists n | exists m]; split; auto; unfold inode; lia.
  - exists (snd m). split; apply mem_exists; [exists n | exists m]; split; auto; unfold inode; lia.
Qed.

Lemma intersects_spec s b : Inv s -> Inv b ->
  (intersects s b = true <-> exists x, mem s x = true /\ mem b x = true).
Proof.
  intros Hs Hb. pose proof (inv_valid _ _ Hs) as Vs. pose proof (inv_valid _ _ Hb) as Vb.
  unfold intersects. rewrite orb_true_iff. split.
  - intros [H|H].
    + apply half_intersects_sound; auto.
    + destruct (half_intersects_sound b s Vs H) as (x & H1 & H2). exists x; auto.
  - intros (x & H1 & H2).
    apply mem_exists in H1 as (n & Hn & H1). apply mem_exists in H2 as (m & Hm & H2).
    unfold inode in *.
    destruct (Z.leb_spec (fst n) (fst m)).
    + left. unfold half_intersects. apply existsb_exists. exists n; split; auto.
      apply existsb_exists. exists m; split; auto. unfold node_hits. lia.
    + right. unfold half_intersects. apply existsb_exists. exists m; split; auto.
      apply existsb_exists. exists n; split; auto. unfold node_hits. lia.
Qed.

(** * Equal *)
Lemma canonical a : forall lo b, inv_from lo a -> inv_from lo b ->
  (forall x, mem a x = mem b x) -> a = b.
Proof.
  induction a as [|[b1 e1] a IH]; intros lo [|[b2 e2] b] Ha Hb E; cbn [inv_from] in *.
  - reflexivity.
  - specialize (E b2). rewrite mem_nil, mem_cons in E.
    destruct Hb as (? & ? & ?). exfalso. revert E. dcmp; cbn; try discriminate; lia.
  - specialize (E b1). rewrite mem_nil, mem_cons in E.
    destruct Ha as (? & ? & ?). exfalso. revert E. dcmp; cbn; try discriminate; lia.
  - destruct Ha as (A1 & A2 & A3), Hb as (B1 & B2 & B3).
    assert (b1 = b2).
    { destruct (Z.lt_total b1 b2) as [L|[L|L]]; auto; exfalso.
      - specialize (E b1). rewrite !mem_cons in E.
        rewrite (mem_below (e2 + 2) b b1) in E by (auto; lia).
        revert E. dcmp; cbn; try discriminate; lia.
      - specialize (E b2). rewrite !mem_cons in E.
        rewrite (mem_below (e1 + 2) a b2) in E by (auto; lia).
        revert E. dcmp; cbn; try discriminate; lia. }
    subst b2.
    assert (e1 = e2).
    { destruct (Z.lt_total e1 e2) as [L|[L|L]]; auto; exfalso.
      - specialize (E (e1 + 1)). rewrite !mem_cons in E.
        rewrite (mem_below (e1 + 2) a (e1 + 1)) in E by (auto; lia).
        revert E. dcmp; cbn; try discriminate; lia.
      - specialize (E (e2 + 1)). rewrite !mem_cons in E.
        rewrite (mem_below (e2 + 2) b (e2 + 1)) in E by (auto; lia).
        revert E. dcmp; cbn; try discriminate; lia. }
    subst e2. f_equal. apply (IH (e1 + 2)); auto.
    intros x. destruct (Z.ltb_spec x (e1 + 2)).
    + rewrite !(mem_below (e1 + 2)) by auto. reflexivity.
    + specialize (E x). rewrite !mem_cons in E.
      replace ((b1 <=? x) && (x <=? e1)) with false in E by (dcmp; cbn; auto; lia). exact E.
Qed.

Lemma nodes_eqb_eq a : forall b, nodes_eqb a b = true <-> a = b.
Proof.
  induction a as [|[b1 e1] a IH]; intros [|[b2 e2] b]; cbn; split; intros H; try discriminate; auto.
  - apply andb_true_iff in H as [H H3]. apply andb_true_iff in H as [H1 H2].
    apply Z.eqb_eq in H1, H2. apply IH in H3. congruence.
  - inv H. rewrite !Z.eqb_refl. cbn. apply IH. reflexivity.
Qed.

Lemma len_pos lo l : inv_from lo l -> l <> [] -> 0 < len l.
Proof.
  revert lo; induction l as [|[b e] l IH]; cbn [inv_from len]; intros lo H Hn; [congruence|].
  destruct H as (? & ? & H). destruct l as [|n l]; [cbn; lia|].
  specialize (IH _ H ltac:(discriminate)). lia.
Qed.

Lemma equal_spec s a : Inv s -> Inv a ->
  (equal s a = true <-> forall x, mem s x = mem a x).
Proof.
  intros Hs Ha. unfold equal. split.
  - destruct (Z.eqb_spec (len s) (len a)) as [E|E]; cbn [negb]; [|discriminate].
    destruct (Z.eqb_spec (len s) 0) as [Z0|Z0].
    + intros _ x. destruct s as [|n s]; [|pose proof (len_pos 0 (n :: s) Hs ltac:(discriminate)); lia].
      destruct a as [|m a]; [reflexivity|].
      pose proof (len_pos 0 (m :: a) Ha ltac:(discriminate)). change (len []) with 0 in E. lia.
    + intros H. apply nodes_eqb_eq in H. subst. reflexivity.
  - intros E. assert (s = a) by (eapply canonical; eauto). subst a.
    rewrite Z.eqb_refl. cbn [negb]. destruct (len s =? 0); auto. apply nodes_eqb_eq. reflexivity.
Qed.

(** * The store: any sequence of package operations refines the corresponding sets of integers *)
Definition zset := Z -> bool.
Definition sget (st : list zset) (i : nat) : zset := nth i st (fun _ => false).

Definition sstep (st : list zset) (o : sop) : list zset :=
  match o with
  | ONew => st ++ [fun _ => false]
  | OAddRange i b e =>
      if Nat.ltb i (length st)
      then set_nth st i (fun x => sget st i x || ((b <=? x) && (x <=? e))) else st
  | OCopy i => st ++ [sget st i]
  | OUnion i j => st ++ [fun x => sget st i x || sget st j x]
  | OComplement i lim => st ++ [fun x => (0 <=? x) && (x <=? lim) && negb (sget st i x)]
  end.
Definition srun (ops : list sop) : list zset := fold_left sstep ops [].

(** arguments the Go package is specified for *)
Definition op_ok (n : nat) (o : sop) : Prop :=
  match o with
  | ONew => True
  | OAddRange i b e => (i < n)%nat /\ 0 <= b <= e
  | OCopy i => (i < n)%nat
  | OUnion i j => (i < n)%nat /\ (j < n)%nat
  | OComplement i lim => (i < n)%nat /\ 0 <= lim
  end.

Definition refines (st : list iset) (ab : list zset) : Prop :=
  Forall2 (fun l f => Inv l /\ forall x, mem l x = f x) st ab.

Lemma refines_length st ab : refines st ab -> length st = length ab.
Proof. induction 1; cbn; auto. Qed.

Lemma refines_nth st ab i : refines st ab -> (i < length st)%nat ->
  Inv (get st i) /\ forall x, mem (get st i) x = sget ab i x.
Proof.
  intros H; revert i; induction H as [|l f st ab Hlf H IH]; intros i Hi; cbn in Hi; [lia|].
  destruct i; cbn; [exact Hlf|]. apply IH. lia.
Qed.

Lemma refines_snoc st ab l f : refines st ab -> Inv l -> (forall x, mem l x = f x) ->
  refines (st ++ [l]) (ab ++ [f]).
Proof. intros. apply Forall2_app; auto. Qed.

Lemma refines_set_nth st ab : refines st ab -> forall i l f, Inv l -> (forall x, mem l x = f x) ->
  refines (set_nth st i l) (set_nth ab i f).
Proof.
  induction 1 as [|l0 f0 st ab Hlf H IH]; intros i l f Hl Hm; cbn; [constructor|].
  destruct i; constructor; auto. apply IH; auto.
Qed.

Lemma step_refines st ab o : refines st ab -> op_ok (length st) o ->
  refines (step st o) (sstep ab o).
Proof.
  intros R Hok. pose proof (refines_length _ _ R) as Hlen.
  destruct o as [|i b e|i|i j|i lim]; cbn [step sstep op_ok] in *.
  - apply refines_snoc; auto; exact I.
  - destruct Hok as [Hi Hbe]. rewrite <- Hlen.
    destruct (Nat.ltb_spec i (length st)); [|lia].
    destruct (refines_nth _ _ i R Hi) as [Hinv Hm].
    apply refines_set_nth; auto.
    + apply add_range_inv; auto; lia.
    + intros x. rewrite (add_range_mem _ 0) by (auto; lia). rewrite Hm. reflexivity.
  - destruct (refines_nth _ _ i R Hok) as [Hinv Hm]. apply refines_snoc; auto.
  - destruct Hok as [Hi Hj].
    destruct (refines_nth _ _ i R Hi) as [Hinv Hm]. destruct (refines_nth _ _ j R Hj) as [Hinv2 Hm2].
    apply refines_snoc; auto.
    + apply union_inv; auto.
    + intros x. rewrite union_mem by auto. rewrite Hm, Hm2. reflexivity.
  - destruct Hok as [Hi Hl].
    destruct (refines_nth _ _ i R Hi) as [Hinv Hm].
    apply refines_snoc; auto.
    + apply complement_inv; auto.
    + intros x. rewrite complement_mem by auto. rewrite Hm. reflexivity.
Qed.

(** a simpler, executable well-formedness check on op lists, used by the harness too *)
Fixpoint ops_okb (n : nat) (ops : list sop) : bool :=
  match ops with
  | [] => true
  | o :: ops' =>
      match o with
      | ONew => ops_okb (S n) ops'
      | OAddRange i b e => Nat.ltb i n && (0 <=? b) && (b <=? e) && ops_okb n ops'
      | OCopy i => Nat.ltb i n && ops_okb (S n) ops'
      | OUnion i j => Nat.ltb i n && Nat.ltb j n && ops_okb (S n) ops'
      | OComplement i lim => Nat.ltb i n && (0 <=? lim) && ops_okb (S n) ops'
      end
  end.

Lemma step_len_exact st o : op_ok (length st) o ->
  length (step st o) = (length st + match o with OAddRange _ _ _ => 0 | _ => 1 end)%nat.
Proof.
  destruct o; cbn [step op_ok]; rewrite ?app_length; cbn [length]; try lia.
  intros [Hi _]. destruct (Nat.ltb_spec i (length st)); [|lia].
  assert (forall (l : list iset) i x, length (set_nth l i x) = length l) as E.
  { induction l as [|y l IHl]; intros [|k] x; cbn; auto. }
  rewrite E. lia.
Qed.

Lemma run_refines ops : forall st ab, refines st ab -> ops_okb (length st) ops = true ->
  refines (fold_left step ops st) (fold_left sstep ops ab).
Proof.
  induction ops as [|o ops IH]; intros st ab R Hok; cbn [fold_left]; auto.
  assert (Ho : op_ok (length st) o /\ ops_okb (length (step st o)) ops = true).
  { destruct o; cbn [ops_okb op_ok] in *.
    - split; auto. rewrite step_len_exact by exact I. rewrite Nat.add_1_r. auto.
    - repeat (apply andb_true_iff in Hok as [Hok ?]).
      assert (op_ok (length st) (OAddRange i b e)) by (cbn; dcmp; try discriminate; lia).
      split; auto. rewrite step_len_exact by auto. rewrite Nat.add_0_r. auto.
    - apply andb_true_iff in Hok as [Hok ?].
      assert (op_ok (length st) (OCopy i)) by (cbn; dcmp; try discriminate; lia).
      split; auto. rewrite step_len_exact by auto. rewrite Nat.add_1_r. auto.
    - repeat (apply andb_true_iff in Hok as [Hok ?]).
      assert (op_ok (length st) (OUnion i j)) by (cbn; dcmp; try discriminate; lia).
      split; auto. rewrite step_len_exact by auto. rewrite Nat.add_1_r. auto.
    - repeat (apply andb_true_iff in Hok as [Hok ?]).
      assert (op_ok (length st) (OComplement i lim)) by (cbn; dcmp; try discriminate; lia).
      split; auto. rewrite step_len_exact by auto. rewrite Nat.add_1_r. auto. }
  destruct Ho as [Ho Hrest]. apply IH; auto. apply step_refines; auto.
Qed.

Theorem store_refines ops : ops_okb 0 ops = true -> refines (run ops) (srun ops).
Proof. intros. apply run_refines; auto. constructor. Qed.
