(** With -inline: a rule countRules arrives at exactly once is compiled in place.  The depth-first walk of countRules
    (Model/Analyses.v count_f) meets such a rule only on its first arrival - a second arrival would make the count two -
    and walks its body there and then, with fuel to spare; so the emitter, which walks the same bodies in the same
    nesting, has fuel for every body it compiles in place.  Hence the side condition [deep_table_b] (Model/SEmit.v)
    of the code-level theorems holds with -inline as well. *)
From PegV Require Import Base.Tac Spec.Syntax Model.Analyses Model.Emit Model.SEmit Proofs.EmitWF Proofs.EmitUse Proofs.CountReach Proofs.DeepDefault.
From Coq Require Import List Arith Lia Bool.
Import ListNotations.

Definition cget (C : list nat) (r : nat) : nat := nth r C 0.

Lemma bump_go_nth r : forall l i j d,
  nth j ((fix go (l : list nat) (i : nat) := match l with [] => [] | c :: l' => (if i =? r then S c else c) :: go l' (S i) end) l i) d =
  if ((i + j =? r) && (j <? length l))%bool then S (nth j l d) else nth j l d.
Proof.
  induction l as [|c l IH]; intros i j d.
  - destruct j; cbn; rewrite andb_false_r; reflexivity.
  - destruct j as [|j].
    + cbn [nth length]. rewrite Nat.add_0_r. cbn. destruct (i =? r); reflexivity.
    + cbn [nth length]. rewrite IH. replace (S i + j) with (i + S j) by lia.
      replace (S j <? S (length l)) with (j <? length l) by reflexivity. reflexivity.
Qed.
Lemma bump_go_length r : forall l i,
  length ((fix go (l : list nat) (i : nat) := match l with [] => [] | c :: l' => (if i =? r then S c else c) :: go l' (S i) end) l i) = length l.
Proof. induction l as [|c l IH]; intros i; cbn; [reflexivity|]. rewrite IH. reflexivity. Qed.
Lemma cget_bump C r j : cget (bump C r) j = if ((j =? r) && (j <? length C))%bool then S (cget C j) else cget C j.
Proof. unfold cget, bump. rewrite bump_go_nth. reflexivity. Qed.
Lemma bump_length C r : length (bump C r) = length C.
Proof. unfold bump. apply bump_go_length. Qed.
Lemma cget_bump_le C r j : cget C j <= cget (bump C r) j.
Proof. rewrite cget_bump. destruct (_ && _)%bool; lia. Qed.

Section DeepFacts.
Variable g : grammar.

Lemma deep_mono inlo inl callable : forall nf m e, nf <= m -> deep g inlo inl callable nf e = true -> deep g inlo inl callable m e = true.
Proof.
  induction nf as [|nf IH]; intros m e Hle H; [discriminate|]. destruct m as [|m]; [lia|].
  assert (Hl : forall es, forallb (deep g inlo inl callable nf) es = true -> forallb (deep g inlo inl callable m) es = true).
  { intros es He. apply forallb_forall. intros x Hx. apply (IH m x ltac:(lia)). exact (proj1 (forallb_forall _ _) He x Hx). }
  destruct e; cbn [SEmit.deep] in *; auto; try (apply (IH m); [lia|exact H]).
  - destruct (nth_error g r) as [[b|k|]|]; auto. apply andb_true_iff in H as [H1 H2]. rewrite H1. cbn [andb].
    destruct (inlo r); [apply (IH m); [lia|exact H2]|exact H2].
  - destruct es; [discriminate|]. apply Hl. exact H.
  - apply andb_true_iff in H as [H1 H2]. apply andb_true_iff. split; [|apply (IH m); [lia|exact H2]].
    apply forallb_forall. intros x Hx. apply (IH m (snd x) ltac:(lia)). exact (proj1 (forallb_forall _ _) H1 x Hx).
Qed.

Lemma deep_ext inlo inl callable inlo' inl' callable' :
  (forall r, inlo r = inlo' r) -> (forall r, inl r = inl' r) -> (forall r, callable r = callable' r) ->
  forall nf e, deep g inlo inl callable nf e = deep g inlo' inl' callable' nf e.
Proof.
  intros H1 H2 H3. induction nf as [|nf IH]; intros e; [reflexivity|].
  assert (Hl : forall es, forallb (deep g inlo inl callable nf) es = forallb (deep g inlo' inl' callable' nf) es).
  { induction es as [|x es IHes]; [reflexivity|]. cbn [forallb]. rewrite IH, IHes. reflexivity. }
  destruct e; cbn [SEmit.deep]; auto.
  - rewrite H1, H2, H3. destruct (nth_error g r) as [[b|k|]|]; auto. rewrite IH. reflexivity.
  - destruct es; [reflexivity|]. apply Hl.
  - rewrite IH. f_equal. induction cs as [|x cs IHcs]; [reflexivity|]. cbn [forallb]. rewrite IH, IHcs. reflexivity.
Qed.
End DeepFacts.

Section Walk.
Variable g : grammar.
Variable inline : bool.
Hypothesis Hclosed : closed_names g.
Hypothesis Halt : grammar_alt2 g.
Notation count_f := (count_f g).
Notation rget := CountReach.rget.
Notation unv := (CountReach.unv g).

(** "compiled in place", read off a count table: the emitter's test, and the machine's (never the first rule) *)
Definition oncef (Cf : list nat) (r : nat) : bool := inline && (cget Cf r =? 1).
Definition itf (Cf : list nat) (r : nat) : bool := match r with O => false | S _ => oncef Cf r end.
Notation deepf Rf Cf := (deep g (itf Cf) (oncef Cf) (rget Rf)).

Definition defined (ns : list nat) : Prop := forall r, In r ns -> exists rb, nth_error g r = Some rb /\ rb <> RNil.

(** what one traversal establishes about the counts and about the emitter's fuel *)
Definition PostC (n : nat) (e_ok : list bool -> list nat -> Prop) (R : list bool) (C : list nat) (R' : list bool) (C' : list nat) : Prop :=
  length C' = length g /\ (forall r, cget C r <= cget C' r) /\ (forall r, rget R' r = true -> 1 <= cget C' r) /\
  (forall Rf Cf, (forall r, rget R' r = true -> rget Rf r = true) -> (forall r, cget C' r <= cget Cf r) -> e_ok Rf Cf) /\
  (forall r, rget R' r = true -> rget R r = false -> forall b, nth_error g r = Some (RBody b) ->
     forall Rf Cf, (forall r, rget R' r = true -> rget Rf r = true) -> (forall r, cget C' r <= cget Cf r) -> deepf Rf Cf n b = true).

Definition Pre (R : list bool) (C : list nat) : Prop :=
  length R = length g /\ length C = length g /\ rget R 0 = true /\ (forall r, rget R r = true -> 1 <= cget C r).

Lemma fold_postc n
  (IH : forall e R C, Pre R C -> esize e + unv R <= n -> alt2 e = true -> defined (names_of e) ->
        PostC n (fun Rf Cf => deepf Rf Cf n e = true) R C (fst (count_f n e (R, C))) (snd (count_f n e (R, C)))) :
  forall es R C, Pre R C -> fold_right (fun x a => esize x + a) 0 es + unv R <= n -> forallb alt2 es = true -> defined (flat_map names_of es) ->
    PostC n (fun Rf Cf => forallb (deepf Rf Cf n) es = true) R C
          (fst (fold_left (fun s x => count_f n x s) es (R, C))) (snd (fold_left (fun s x => count_f n x s) es (R, C))).
Proof.
  induction es as [|x es IHes]; intros R C HP F Ha Hd; cbn [fold_left flat_map fold_right forallb fst snd] in *.
  - destruct HP as (LR & LC & H0 & Hinv). split; [exact LC|]. split; [intros; lia|]. split; [exact Hinv|]. split; [intros; reflexivity|].
    intros r H1 H2. congruence.
  - apply andb_true_iff in Ha as [Ha1 Ha2].
    assert (Hd1 : defined (names_of x)) by (intros r Hr; apply Hd; apply in_or_app; left; exact Hr).
    assert (Hd2 : defined (flat_map names_of es)) by (intros r Hr; apply Hd; apply in_or_app; right; exact Hr).
    pose proof (IH x R C HP ltac:(lia) Ha1 Hd1) as P1.
    pose proof (count_f_post g n x R C ltac:(apply HP) ltac:(lia)) as Q1.
    destruct (count_f n x (R, C)) as [R1 C1]. cbn [fst snd] in *.
    destruct P1 as (LC1 & M1 & I1 & D1 & N1). destruct Q1 as (LR1 & MR1 & _ & _).
    assert (HP1 : Pre R1 C1).
    { destruct HP as (LR & LC & H0 & Hinv). split; [congruence|]. split; [exact LC1|]. split; [apply MR1; exact H0|exact I1]. }
    assert (U1 : unv R1 <= unv R) by (apply CountReach.unvk_mono; exact MR1).
    pose proof (IHes R1 C1 HP1 ltac:(lia) Ha2 Hd2) as P2.
    pose proof (fold_post g n (count_f_post g n) es R1 C1 ltac:(apply HP1) ltac:(lia)) as Q2.
    destruct (fold_left (fun s x0 => count_f n x0 s) es (R1, C1)) as [R2 C2]. cbn [fst snd] in *.
    destruct P2 as (LC2 & M2 & I2 & D2 & N2). destruct Q2 as (LR2 & MR2 & _ & _).
    split; [exact LC2|]. split; [intros r; specialize (M1 r); specialize (M2 r); lia|]. split; [exact I2|]. split.
    + intros Rf Cf HR HC. rewrite D1; [|intros r Hr; apply HR, MR2, Hr|intros r; specialize (M2 r); specialize (HC r); lia].
      cbn [andb]. apply D2; assumption.
    + intros r H2 H0 b Hb Rf Cf HR HC. destruct (rget R1 r) eqn:E1.
      * apply (N1 r E1 H0 b Hb Rf Cf); [intros r0 Hr0; apply HR, MR2, Hr0|intros r0; specialize (M2 r0); specialize (HC r0); lia].
      * exact (N2 r H2 E1 b Hb Rf Cf HR HC).
Qed.

Lemma fold_postc_cs n
  (IH : forall e R C, Pre R C -> esize e + unv R <= n -> alt2 e = true -> defined (names_of e) ->
        PostC n (fun Rf Cf => deepf Rf Cf n e = true) R C (fst (count_f n e (R, C))) (snd (count_f n e (R, C)))) :
  forall (cs : list (list rune * expr)) R C, Pre R C -> fold_right (fun x a => esize (snd x) + a) 0 cs + unv R <= n ->
    forallb (fun c => alt2 (snd c)) cs = true -> defined (flat_map (fun c => names_of (snd c)) cs) ->
    PostC n (fun Rf Cf => forallb (fun kc : list rune * expr => deepf Rf Cf n (snd kc)) cs = true) R C
          (fst (fold_left (fun s x => count_f n (snd x) s) cs (R, C))) (snd (fold_left (fun s x => count_f n (snd x) s) cs (R, C))).
Proof.
  induction cs as [|x cs IHes]; intros R C HP F Ha Hd; cbn [fold_left flat_map fold_right forallb fst snd] in *.
  - destruct HP as (LR & LC & H0 & Hinv). split; [exact LC|]. split; [intros; lia|]. split; [exact Hinv|]. split; [intros; reflexivity|].
    intros r H1 H2. congruence.
  - apply andb_true_iff in Ha as [Ha1 Ha2].
    assert (Hd1 : defined (names_of (snd x))) by (intros r Hr; apply Hd; apply in_or_app; left; exact Hr).
    assert (Hd2 : defined (flat_map (fun c => names_of (snd c)) cs)) by (intros r Hr; apply Hd; apply in_or_app; right; exact Hr).
    pose proof (IH (snd x) R C HP ltac:(lia) Ha1 Hd1) as P1.
    pose proof (count_f_post g n (snd x) R C ltac:(apply HP) ltac:(lia)) as Q1.
    destruct (count_f n (snd x) (R, C)) as [R1 C1]. cbn [fst snd] in *.
    destruct P1 as (LC1 & M1 & I1 & D1 & N1). destruct Q1 as (LR1 & MR1 & _ & _).
    assert (HP1 : Pre R1 C1).
    { destruct HP as (LR & LC & H0 & Hinv). split; [congruence|]. split; [exact LC1|]. split; [apply MR1; exact H0|exact I1]. }
    assert (U1 : unv R1 <= unv R) by (apply CountReach.unvk_mono; exact MR1).
    pose proof (IHes R1 C1 HP1 ltac:(lia) Ha2 Hd2) as P2.
    pose proof (fold_post_cs g n (count_f_post g n) cs R1 C1 ltac:(apply HP1) ltac:(lia)) as Q2.
    destruct (fold_left (fun s x0 => count_f n (snd x0) s) cs (R1, C1)) as [R2 C2]. cbn [fst snd] in *.
    destruct P2 as (LC2 & M2 & I2 & D2 & N2). destruct Q2 as (LR2 & MR2 & _ & _).
    split; [exact LC2|]. split; [intros r; specialize (M1 r); specialize (M2 r); lia|]. split; [exact I2|]. split.
    + intros Rf Cf HR HC. rewrite D1; [|intros r Hr; apply HR, MR2, Hr|intros r; specialize (M2 r); specialize (HC r); lia].
      cbn [andb]. apply D2; assumption.
    + intros r H2 H0 b Hb Rf Cf HR HC. destruct (rget R1 r) eqn:E1.
      * apply (N1 r E1 H0 b Hb Rf Cf); [intros r0 Hr0; apply HR, MR2, Hr0|intros r0; specialize (M2 r0); specialize (HC r0); lia].
      * exact (N2 r H2 E1 b Hb Rf Cf HR HC).
Qed.

(** weakening the fuel recorded in a postcondition *)
Lemma PostC_S n (P : list bool -> list nat -> Prop) (Q : list bool -> list nat -> Prop) R C R' C' :
  PostC n P R C R' C' -> (forall Rf Cf, P Rf Cf -> Q Rf Cf) -> PostC (S n) Q R C R' C'.
Proof.
  intros (L & M & I & D & N) HPQ. split; [exact L|]. split; [exact M|]. split; [exact I|]. split.
  - intros Rf Cf HR HC. apply HPQ. apply D; assumption.
  - intros r H1 H0 b Hb Rf Cf HR HC. apply (deep_mono g _ _ _ n); [lia|]. eapply N; eauto.
Qed.

Theorem count_f_postc n : forall e R C, Pre R C -> esize e + unv R <= n -> alt2 e = true -> defined (names_of e) ->
  PostC n (fun Rf Cf => deepf Rf Cf n e = true) R C (fst (count_f n e (R, C))) (snd (count_f n e (R, C))).
Proof.
  induction n as [|n IH]; intros e R C HP F Ha Hd; [destruct e; cbn [esize] in F; lia|].
  assert (Hleaf : forall e0, fst (count_f (S n) e0 (R, C)) = R -> snd (count_f (S n) e0 (R, C)) = C -> deepf R C (S n) e0 = deepf R C (S n) e0 ->
            (forall Rf Cf, deepf Rf Cf (S n) e0 = true) -> PostC (S n) (fun Rf Cf => deepf Rf Cf (S n) e0 = true) R C R C).
  { intros e0 _ _ _ Hdeep. destruct HP as (LR & LC & H0 & Hinv). split; [exact LC|]. split; [intros; lia|]. split; [exact Hinv|].
    split; [intros; apply Hdeep|]. intros r H1 H2. congruence. }
  destruct e; cbn [Analyses.count_f names_of esize alt2 fst snd] in *;
    try (apply Hleaf; try reflexivity; intros; reflexivity).
  - (* a name *)
    destruct (Hd r (or_introl eq_refl)) as (rb & Erb & Nrb).
    destruct HP as (LR & LC & H0 & Hinv).
    assert (Hlt : r < length g) by (apply nth_error_Some; congruence).
    destruct (nth r R true) eqn:Ev.
    + (* arrived at before *)
      cbn [fst snd].
      assert (Hm : rget R r = true) by (unfold CountReach.rget; rewrite <- Ev; apply nth_indep; lia).
      split; [rewrite bump_length; exact LC|]. split; [intros r0; apply cget_bump_le|]. split.
      { intros r0 Hr0. specialize (Hinv r0 Hr0). pose proof (cget_bump_le C r r0). lia. }
      split; [|intros r0 H1 H2; congruence].
      intros Rf Cf HR HC. cbn [SEmit.deep]. rewrite Erb.
      assert (Hc2 : 2 <= cget Cf r).
      { specialize (HC r). rewrite cget_bump in HC. rewrite Nat.eqb_refl in HC. replace (r <? length C) with true in HC by (symmetry; apply Nat.ltb_lt; lia).
        cbn [andb] in HC. specialize (Hinv r Hm). lia. }
      assert (Hon : oncef Cf r = false).
      { unfold oncef. destruct inline; [|reflexivity]. cbn [andb]. apply Nat.eqb_neq. lia. }
      assert (Hit : itf Cf r = false) by (destruct r; [reflexivity|exact Hon]).
      rewrite Hon, Hit. cbn [Bool.eqb andb]. destruct rb; [apply HR; exact Hm|apply HR; exact Hm|congruence].
    + (* first arrival *)
      assert (Hr : r < length R).
      { destruct (Nat.lt_ge_cases r (length R)) as [H|H]; [exact H|]. rewrite nth_overflow in Ev by exact H. discriminate. }
      assert (Hf : rget R r = false) by (unfold CountReach.rget; rewrite <- Ev; apply nth_indep; exact Hr).
      assert (Hr0 : r <> 0) by (intros ->; congruence).
      assert (HP2 : Pre (setb R r) (bump C r)).
      { split; [rewrite CountReach.setb_length; exact LR|]. split; [rewrite bump_length; exact LC|]. split.
        - rewrite CountReach.rget_setb, H0. destruct (_ && _)%bool; reflexivity.
        - intros r1 H1. rewrite CountReach.rget_setb in H1. rewrite cget_bump.
          destruct (Nat.eq_dec r1 r) as [E1|N1].
          + subst r1. rewrite Nat.eqb_refl. replace (r <? length C) with true by (symmetry; apply Nat.ltb_lt; lia). cbn [andb]. lia.
          + replace (r1 =? r) with false in * by (symmetry; apply Nat.eqb_neq; exact N1). cbn [andb] in *. apply Hinv. exact H1. }
      assert (Heq : forall Cf, Bool.eqb (oncef Cf r) (itf Cf r) = true) by (intros Cf; destruct r; [congruence|apply eqb_reflx]).
      pose proof (CountReach.unvk_setb g R r Hr Hf (length g)) as U. replace (r <? length g) with true in U by (symmetry; apply Nat.ltb_lt; lia).
      fold (unv (setb R r)) in U. fold (unv R) in U.
      rewrite Erb. destruct rb as [b|k|]; [| |congruence].
      * assert (Ers : CountReach.rs g r = S (esize b)) by (unfold CountReach.rs; rewrite (nth_error_nth _ _ _ Erb); reflexivity).
        assert (Hdb : defined (names_of b)) by (intros r1 Hr1; eapply Hclosed; eauto).
        pose proof (IH b (setb R r) (bump C r) HP2 ltac:(lia) (Halt _ _ Erb) Hdb) as P.
        pose proof (count_f_post g n b (setb R r) (bump C r) ltac:(apply HP2) ltac:(lia)) as Q.
        destruct (count_f n b (setb R r, bump C r)) as [R' C']. cbn [fst snd] in *.
        destruct P as (LC' & M' & I' & D' & N'). destruct Q as (LR' & MR' & _ & _).
        assert (Hmr : rget R' r = true).
        { apply MR'. rewrite CountReach.rget_setb, Nat.eqb_refl. replace (r <? length R) with true by (symmetry; apply Nat.ltb_lt; exact Hr). reflexivity. }
        split; [exact LC'|]. split; [intros r1; pose proof (cget_bump_le C r r1); specialize (M' r1); lia|]. split; [exact I'|]. split.
        -- intros Rf Cf HR HC. cbn [SEmit.deep]. rewrite Erb, Heq. cbn [andb].
           destruct (itf Cf r); [apply D'; assumption|apply HR; exact Hmr].
        -- intros r1 H1 H2 b1 Hb1 Rf Cf HR HC. apply (deep_mono g _ _ _ n); [lia|].
           destruct (Nat.eq_dec r1 r) as [->|N1].
           ++ rewrite Erb in Hb1. inv Hb1. apply D'; assumption.
           ++ apply (N' r1 H1); [rewrite CountReach.rget_setb; replace (r1 =? r) with false by (symmetry; apply Nat.eqb_neq; exact N1); exact H2|exact Hb1|exact HR|exact HC].
      * cbn [fst snd]. destruct HP2 as (LR2 & LC2 & H02 & Hinv2).
        split; [exact LC2|]. split; [intros r1; apply cget_bump_le|]. split; [exact Hinv2|]. split.
        -- intros Rf Cf HR HC. cbn [SEmit.deep]. rewrite Erb, Heq. cbn [andb].
           destruct (itf Cf r); [reflexivity|]. apply HR. rewrite CountReach.rget_setb, Nat.eqb_refl. replace (r <? length R) with true by (symmetry; apply Nat.ltb_lt; exact Hr). reflexivity.
        -- intros r1 H1 H2 b1 Hb1. rewrite CountReach.rget_setb in H1. destruct (Nat.eq_dec r1 r) as [E1|N1]; [subst r1; congruence|].
           replace (r1 =? r) with false in H1 by (symmetry; apply Nat.eqb_neq; exact N1). cbn [andb] in H1. congruence.
  - (* sequence *)
    eapply PostC_S; [apply (fold_postc n IH es R C HP ltac:(lia) Ha Hd)|]. intros Rf Cf H. exact H.
  - (* choice *)
    apply andb_true_iff in Ha as [Hl Ha].
    eapply PostC_S; [apply (fold_postc n IH es R C HP ltac:(lia) Ha Hd)|]. intros Rf Cf H. cbn [SEmit.deep]. destruct es; [cbn in Hl; discriminate|exact H].
  - eapply PostC_S; [apply (IH e R C HP ltac:(lia) Ha Hd)|]. intros Rf Cf H. exact H.
  - eapply PostC_S; [apply (IH e R C HP ltac:(lia) Ha Hd)|]. intros Rf Cf H. exact H.
  - eapply PostC_S; [apply (IH e R C HP ltac:(lia) Ha Hd)|]. intros Rf Cf H. exact H.
  - eapply PostC_S; [apply (IH e R C HP ltac:(lia) Ha Hd)|]. intros Rf Cf H. exact H.
  - eapply PostC_S; [apply (IH e R C HP ltac:(lia) Ha Hd)|]. intros Rf Cf H. exact H.
  - eapply PostC_S; [apply (IH e R C HP ltac:(lia) Ha Hd)|]. intros Rf Cf H. exact H.
  - (* switch *)
    apply andb_true_iff in Ha as [Hc Hdd].
    assert (Hd1 : defined (flat_map (fun c => names_of (snd c)) cs)) by (intros r Hr; apply Hd; apply in_or_app; left; exact Hr).
    assert (Hd2 : defined (names_of e)) by (intros r Hr; apply Hd; apply in_or_app; right; exact Hr).
    pose proof (fold_postc_cs n IH cs R C HP ltac:(lia) Hc Hd1) as P1.
    pose proof (fold_post_cs g n (count_f_post g n) cs R C ltac:(apply HP) ltac:(lia)) as Q1.
    destruct (fold_left (fun s x => count_f n (snd x) s) cs (R, C)) as [R1 C1]. cbn [fst snd] in *.
    destruct P1 as (LC1 & M1 & I1 & D1 & N1). destruct Q1 as (LR1 & MR1 & _ & _).
    assert (HP1 : Pre R1 C1).
    { destruct HP as (LR & LC & H0 & Hinv). split; [congruence|]. split; [exact LC1|]. split; [apply MR1; exact H0|exact I1]. }
    assert (U1 : unv R1 <= unv R) by (apply CountReach.unvk_mono; exact MR1).
    pose proof (IH e R1 C1 HP1 ltac:(lia) Hdd Hd2) as P2.
    pose proof (count_f_post g n e R1 C1 ltac:(apply HP1) ltac:(lia)) as Q2.
    destruct (count_f n e (R1, C1)) as [R2 C2]. cbn [fst snd] in *.
    destruct P2 as (LC2 & M2 & I2 & D2 & N2). destruct Q2 as (LR2 & MR2 & _ & _).
    split; [exact LC2|]. split; [intros r; specialize (M1 r); specialize (M2 r); lia|]. split; [exact I2|]. split.
    + intros Rf Cf HR HC. cbn [SEmit.deep]. rewrite D1; [|intros r Hr; apply HR, MR2, Hr|intros r; specialize (M2 r); specialize (HC r); lia].
      cbn [andb]. apply D2; assumption.
    + intros r H2 H0 b Hb Rf Cf HR HC. apply (deep_mono g _ _ _ n); [lia|]. destruct (rget R1 r) eqn:E1.
      * apply (N1 r E1 H0 b Hb Rf Cf); [intros r0 Hr0; apply HR, MR2, Hr0|intros r0; specialize (M2 r0); specialize (HC r0); lia].
      * exact (N2 r H2 E1 b Hb Rf Cf HR HC).
Qed.

End Walk.

(** * the side condition of the code-level theorems holds for every grammar, with or without -inline *)
From PegV Require Import Proofs.SEmitFile.

Lemma rget_all_false {A} (l : list A) r : CountReach.rget (map (fun _ => false) l) r = false.
Proof. unfold CountReach.rget. apply nth_map_false. Qed.
Lemma cget_zeros {A} (l : list A) r : cget (map (fun _ => 0) l) r = 0.
Proof. unfold cget. revert r. induction l as [|a l IH]; intros [|r]; cbn; auto. Qed.

Theorem deep_table_all g inline : grammar_alt2 g -> closed_names g -> deep_table_b g inline = true.
Proof.
  intros Ha Hc. unfold deep_table_b. cbv zeta. apply forallb_forall. intros r Hr.
  destruct (reached (count_rules g) r) eqn:Ere; [|reflexivity].
  destruct (nth r (inline_table inline g) false) eqn:Eit; [reflexivity|]. cbn [negb andb implb].
  unfold rdeep. destruct (nth_error g r) as [[b|k|]|] eqn:Eg; try reflexivity.
  (* unfold the start of countRules *)
  assert (Hlen0 : 0 < length g) by (assert (r < length g) by (apply nth_error_Some; congruence); lia).
  destruct (nth_error g 0) as [rb0|] eqn:Eg0; [|apply nth_error_None in Eg0; lia].
  set (F := S (gsize g) * S (length g)) in *.
  assert (EF : exists F', F = S F' /\ gsize g <= F') by (exists (gsize g + length g * S (gsize g)); unfold F; split; nia).
  destruct EF as (F' & EF & LF).
  assert (Ecr : count_rules g = count_f g F (EName 0) (map (fun _ => false) g, map (fun _ => 0) g)) by (unfold count_rules, F; destruct g; [discriminate|reflexivity]).
  assert (Ev0 : nth 0 (map (fun _ : rbody => false) g) true = false) by (destruct g; [discriminate|reflexivity]).
  rewrite EF in Ecr. cbn [Analyses.count_f] in Ecr. rewrite Ev0, Eg0 in Ecr.
  set (R1 := setb (map (fun _ => false) g) 0) in *. set (C1 := bump (map (fun _ => 0) g) 0) in *.
  assert (HR10 : CountReach.rget R1 0 = true).
  { unfold R1. rewrite CountReach.rget_setb. rewrite map_length. replace (0 <? length g) with true by (symmetry; apply Nat.ltb_lt; lia). reflexivity. }
  assert (HR1 : forall r1, CountReach.rget R1 r1 = true -> r1 = 0).
  { intros r1 H1. unfold R1 in H1. rewrite CountReach.rget_setb, rget_all_false in H1. destruct (Nat.eqb_spec r1 0); [assumption|discriminate]. }
  destruct rb0 as [b0|k0|].
  - (* the first rule has a body: the walk of that body is the whole walk *)
    assert (HP : Pre g R1 C1).
    { split; [unfold R1; rewrite CountReach.setb_length, map_length; reflexivity|]. split; [unfold C1; rewrite bump_length, map_length; reflexivity|].
      split; [exact HR10|]. intros r1 H1. rewrite (HR1 r1 H1). unfold C1. rewrite cget_bump, cget_zeros, map_length.
      replace (0 <? length g) with true by (symmetry; apply Nat.ltb_lt; lia). cbn. lia. }
    assert (Hfuel : esize b0 + CountReach.unv g R1 <= F').
    { assert (U : CountReach.unv g R1 + CountReach.rs g 0 = gsize g).
      { rewrite <- (CountReach.unv_all_false g). unfold CountReach.unv, R1.
        pose proof (CountReach.unvk_setb g (map (fun _ => false) g) 0 ltac:(rewrite map_length; lia) (rget_all_false g 0) (length g)) as U0.
        replace (0 <? length g) with true in U0 by (symmetry; apply Nat.ltb_lt; lia). exact U0. }
      assert (CountReach.rs g 0 = S (esize b0)) by (unfold CountReach.rs; rewrite (nth_error_nth _ _ _ Eg0); reflexivity). lia. }
    assert (Hdb : defined g (names_of b0)) by (intros r1 Hr1; eapply Hc; eauto).
    pose proof (count_f_postc g inline Hc Ha F' b0 R1 C1 HP Hfuel (Ha _ _ Eg0) Hdb) as P.
    destruct (count_f g F' b0 (R1, C1)) as [R' C'] eqn:Ew. cbn [fst snd] in P. destruct P as (_ & _ & _ & D1 & D2).
    assert (Hdeep : deep g (itf inline C') (oncef inline C') (CountReach.rget R') F' b = true).
    { rewrite Ecr in Ere. unfold reached in Ere. cbn [fst] in Ere.
      destruct (Nat.eq_dec r 0) as [->|N0].
      - rewrite Eg0 in Eg. inv Eg. apply D1; auto.
      - apply (D2 r Ere); auto. destruct (CountReach.rget R1 r) eqn:E1; [|reflexivity]. exfalso. apply N0. apply HR1. exact E1. }
    apply (deep_mono g _ _ _ F'); [unfold fuel; fold F; lia|].
    rewrite (deep_ext g _ _ _ (itf inline C') (oncef inline C') (CountReach.rget R')); [exact Hdeep| | |].
    + intros [|r1]; [apply inline_table_0|]. rewrite inline_table_S, Ecr. reflexivity.
    + intros r1. rewrite Ecr. reflexivity.
    + intros r1. rewrite Ecr. reflexivity.
  - (* the first rule is an action: nothing else is marked *)
    exfalso. rewrite Ecr in Ere. unfold reached in Ere. cbn [fst] in Ere. rewrite (HR1 r Ere) in Eg. congruence.
  - exfalso. rewrite Ecr in Ere. unfold reached in Ere. cbn [fst] in Ere. rewrite (HR1 r Ere) in Eg. congruence.
Qed.
Print Assumptions deep_table_all.

(** * the code-level theorem without the side condition, any options *)
From PegV Require Import Spec.Peg Spec.WF Model.Machine Model.Gen Model.Exec Proofs.Top.

Theorem generated_code_all_options g ptx buf penv :
  good_grammar g -> good_buf buf -> good_switches g -> grammar_alt2 g -> closed_names g ->
  forall memo inline n r st0 rr, slot_ok g inline r -> reached (count_rules g) r = true -> peg_parse g ptx buf penv (S n) r = Some rr ->
  forall res, xcall buf penv (mk_opts true memo inline g) (gen_fn g ptx inline) r (reset st0) res ->
    match rr with
    | (Succ p f, _) => exists st', res = Ret true st' /\ pos st' = p /\ live st' = Syntax.flat f
    | (Fail, evs) => exists st', res = Ret false st' /\ maxtok st' = first_furthest evs
    end.
Proof.
  intros Hg Hb Hs Ha Hc memo inline n r st0 rr Hsl Hr H res Hx.
  exact (generated_code_every_execution g ptx buf penv Hg Hb Hs memo inline n r st0 rr (deep_table_all g inline Ha Hc) Hsl Hr H res Hx).
Qed.
Print Assumptions generated_code_all_options.

(** the -noast file, same discharge of the side condition *)
Theorem generated_code_noast_all_options g ptx buf penv :
  good_grammar g -> good_buf buf -> good_switches g -> grammar_alt2 g -> closed_names g ->
  forall inline n r st0 rr,
    (forall rb, nth_error g ptx = Some rb -> rb = RNil) ->
    o_inline (mk_opts false false inline g) r = false -> reached (count_rules g) r = true ->
    peg_parse g ptx buf penv (S n) r = Some rr ->
    forall res, xcall buf penv (mk_opts false false inline g) (gen_fn_noast g ptx inline) r (reset st0) res ->
      exists st', res = Ret (match fst rr with Fail => false | Succ _ _ => true end) st' /\
        alog st' = Runtime.execute g ptx (snd rr) (text st0) /\
        match fst rr with Succ p _ => pos st' = p /\ p <= length buf | Fail => True end.
Proof.
  intros Hg Hb Hs Ha Hc inline n r st0 rr Hptx Hi Hr H res Hx.
  exact (generated_code_noast_every g ptx buf penv Hg Hb Hs inline n r st0 rr Hptx (deep_table_all g inline Ha Hc) Hi Hr H res Hx).
Qed.
Print Assumptions generated_code_noast_all_options.
