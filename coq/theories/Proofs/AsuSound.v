(** CheckAlwaysSucceeds is sound: an expression it accepts has no failing derivation.
    The "visited => true" rule is justified by induction on the fuel of the derivation. *)
From PegV Require Import Base.Tac Spec.Syntax Spec.Peg Model.Analyses.

Section Asu.
Variable g : grammar.
Variable ptx : nat.
Variable buf : list rune.
Variable penv : nat -> nat -> bool.
Notation ev := (peg_ev g ptx buf penv).

Definition nofail (n : nat) (e : expr) : Prop := forall p evs, ev n e p <> Some (Fail, evs).

Lemma seq_nofail n vis m es :
  (forall e, In e es -> asu_f g m vis e = true -> nofail n e) ->
  forallb (asu_f g m vis) es = true -> forall p evs, seq_ev (ev n) es p <> Some (Fail, evs).
Proof.
  induction es as [|e es IH]; intros He Hall p evs; cbn [seq_ev forallb] in *; [discriminate|].
  apply andb_true_iff in Hall as [H1 H2].
  destruct (ev n e p) as [[[|p1 f1] evs1]|] eqn:E; try discriminate.
  - exfalso. eapply (He e); eauto. left; reflexivity.
  - destruct (seq_ev (ev n) es p1) as [[[|p2 f2] evs2]|] eqn:E2; try discriminate.
    exfalso. eapply IH; eauto. intros; apply He; auto. right; auto.
Qed.

Lemma alt_nofail n vis m es :
  (forall e, In e es -> asu_f g m vis e = true -> nofail n e) ->
  existsb (asu_f g m vis) es = true -> forall p evs, alt_ev (ev n) es p <> Some (Fail, evs).
Proof.
  induction es as [|e es IH]; intros He Hex p evs; cbn [alt_ev existsb] in *; [discriminate|].
  destruct (ev n e p) as [[[|p1 f1] evs1]|] eqn:E; try discriminate.
  destruct (asu_f g m vis e) eqn:Ea.
  - exfalso. eapply (He e); eauto. left; reflexivity.
  - cbn [orb] in Hex. destruct es as [|e2 es]; [cbn in Hex; discriminate|].
    destruct (alt_ev (ev n) (e2 :: es) p) as [[[|p2 f2] evs2]|] eqn:E2; try discriminate.
    exfalso. eapply IH; eauto. intros; apply He; auto. right; auto.
Qed.

(** strong induction on the derivation's fuel; the hypothesis on [vis] is "no rule on the
    visited path fails with at most the current fuel" (it was entered with more) *)
Lemma asu_sound_gen : forall n m vis e,
  asu_f g m vis e = true ->
  (forall r, In r vis -> forall n', n' <= n -> nofail n' (EName r)) ->
  nofail n e.
Proof.
  induction n as [n IHn] using lt_wf_ind. intros m vis e Ha Hvis p evs H.
  destruct n as [|n]; [discriminate|]. destruct m as [|m]; [discriminate|].
  assert (Hsub : forall e', asu_f g m vis e' = true -> nofail n e').
  { intros e' Ha'. eapply (IHn n); eauto. }
  destruct e; cbn [asu_f] in Ha; try discriminate; cbn [peg_ev] in H; try discriminate.
  - (* EName *)
    destruct (nth_error g r) as [[b|k|]|] eqn:Eg; try discriminate.
    destruct (memb r vis) eqn:Ev.
    + unfold memb in Ev. apply existsb_exists in Ev as (x & Hx & Ex). apply Nat.eqb_eq in Ex. subst x.
      eapply (Hvis r Hx (S n)); [lia|]. cbn [peg_ev]. rewrite Eg. exact H.
    + destruct (ev n b p) as [[[|p1 f1] evs1]|] eqn:E; try discriminate.
      eapply (IHn n) with (e := b) (vis := r :: vis) (m := m); eauto.
      intros r' [<-|Hr'] n' Hn'.
      * (* the rule itself, with less fuel: strong induction *)
        eapply (IHn n') with (m := S m) (vis := vis); [lia| |].
        -- cbn [asu_f]. rewrite Eg, Ev. exact Ha.
        -- intros r'' Hr'' n'' Hn''. apply Hvis; auto. lia.
      * apply Hvis; auto.
  - (* ESeq *) eapply seq_nofail; eauto.
  - (* EAlt *) eapply alt_nofail; eauto.
  - (* EQuery *) destruct (ev n e p) as [[[|p1 f1] evs1]|]; discriminate.
  - (* EStar *)
    destruct (ev n e p) as [[[|p1 f1] evs1]|] eqn:E; try discriminate.
    destruct (ev n (EStar e) p1) as [[[|p2 f2] evs2]|] eqn:E2; try discriminate.
    eapply (IHn n) with (e := EStar e) (m := 1) (vis := []); eauto. intros ? [].
  - (* EPush *)
    destruct (ev n e p) as [[[|p1 f1] evs1]|] eqn:E; try discriminate.
    eapply Hsub; eauto.
Qed.

Theorem asu_rule_sound r : asu_rule g r = true -> forall n p evs, ev n (EName r) p <> Some (Fail, evs).
Proof.
  intros Ha n p evs H. destruct n as [|n]; [discriminate|]. cbn [peg_ev] in H. unfold asu_rule in Ha.
  destruct (nth_error g r) as [[b|k|]|] eqn:Eg; try discriminate.
  destruct (ev n b p) as [[[|p1 f1] evs1]|] eqn:E; try discriminate.
  eapply asu_sound_gen with (vis := []); eauto. intros ? [].
Qed.

End Asu.
