(** Soundness of the -switch rewrite (Model/Optimize.v): on a well-formed grammar with a consistent
    first-set table, the optimised tree has the same PEG semantics (result and derivation forest) as
    the original one. *)
From PegV Require Import Base.Tac Base.ListX Spec.Syntax Spec.Peg Spec.WF Model.SetImpl Model.Analyses Model.Optimize
  Proofs.SetProofs Proofs.PegFacts Proofs.Forest Proofs.Total Proofs.FirstSound.

(** * the combinatorial core: moving guarded alternatives behind the ordered ones *)
Definition is_succ (r : res) : bool := match r with Succ _ _ => true | Fail => false end.
Fixpoint first_succ (l : list res) : res :=
  match l with
  | [] => Fail
  | r :: l' => if is_succ r then r else first_succ l'
  end.

Lemma first_succ_app l1 l2 : first_succ (l1 ++ l2) = if is_succ (first_succ l1) then first_succ l1 else first_succ l2.
Proof.
  induction l1 as [|r l1 IH]; cbn [app first_succ]; [reflexivity|].
  destruct (is_succ r) eqn:E; [rewrite E; reflexivity|exact IH].
Qed.

Lemma first_succ_all_fail l : Forall (fun r => is_succ r = false) l -> first_succ l = Fail.
Proof. induction 1 as [|r l Hr Hl IH]; cbn [first_succ]; [reflexivity|]. rewrite Hr. exact IH. Qed.

Section Reorder.
Open Scope Z_scope.
Variable c : option Z.                      (* the next character, if any *)
Definition alive (s : iset) : bool := match c with Some x => mem s x | None => false end.

(** items in the original order: (intersects a later alternative, first set, result) *)
Definition item := (bool * (iset * res))%type.

(** no set of an unordered item meets the set of a later item *)
Fixpoint sep (l : list item) : Prop :=
  match l with
  | [] => True
  | (fl, (s, _)) :: l' => (fl = false -> Forall (fun j => forall x, mem s x = true -> mem (fst (snd j)) x = false) l') /\ sep l'
  end.

Lemma switch_reorder (l : list item) (sel : res) :
  (forall fl s r, In (fl, (s, r)) l -> is_succ r = true -> alive s = true) ->
  sep l ->
  (forall s r, In (false, (s, r)) l -> alive s = true -> sel = r) ->
  ((forall s r, In (false, (s, r)) l -> alive s = false) -> is_succ sel = false) ->
  first_succ (map (fun i => snd (snd i)) l) =
  first_succ (map (fun i => snd (snd i)) (filter fst l) ++ [sel]).
Proof.
  induction l as [|[fl [s r]] l IH]; intros F1 Hsep Hsel1 Hsel2; cbn [map filter first_succ app fst snd].
  - rewrite Hsel2; [reflexivity|]. intros s r [].
  - destruct Hsep as [Hs Hsep].
    assert (F1' : forall fl0 s0 r0, In (fl0, (s0, r0)) l -> is_succ r0 = true -> alive s0 = true) by (intros; eapply F1; [right|]; eauto).
    destruct fl; cbn [map first_succ app fst snd].
    + destruct (is_succ r) eqn:Er; [reflexivity|].
      apply IH; auto.
      * intros s0 r0 Hin. apply Hsel1. right. exact Hin.
      * intros Hno. apply Hsel2. intros s0 r0 [E|Hin]; [discriminate|]. eapply Hno; eauto.
    + destruct (is_succ r) eqn:Er.
      * (* the unordered item succeeds: it is alive, every later ordered item is dead *)
        assert (Hl : alive s = true) by (eapply F1; [left; reflexivity|exact Er]).
        rewrite (Hsel1 s r (or_introl eq_refl) Hl).
        rewrite first_succ_app. cbn [first_succ]. rewrite Er.
        rewrite first_succ_all_fail; [reflexivity|].
        apply Forall_forall. intros r0 Hr0. apply in_map_iff in Hr0 as ([fl0 [s0 r1]] & <- & Hin). cbn [snd].
        apply filter_In in Hin as [Hin _].
        destruct (is_succ r1) eqn:E1; [|reflexivity]. exfalso.
        pose proof (F1' _ _ _ Hin E1) as Hl0. specialize (Hs eq_refl). rewrite Forall_forall in Hs. specialize (Hs _ Hin). cbn [fst snd] in Hs.
        unfold alive in *. destruct c as [x|]; [|discriminate]. rewrite (Hs x Hl) in Hl0. discriminate.
      * apply IH; auto.
        -- intros s0 r0 Hin. apply Hsel1. right. exact Hin.
        -- intros Hno. destruct (alive s) eqn:Hl.
           ++ rewrite (Hsel1 s r (or_introl eq_refl) Hl). exact Er.
           ++ apply Hsel2. intros s0 r0 [E|Hin]; [inv E; exact Hl|]. eapply Hno; eauto.
Qed.

Lemma uniq_live (l : list item) s1 r1 s2 r2 :
  sep l -> In (false, (s1, r1)) l -> In (false, (s2, r2)) l -> alive s1 = true -> alive s2 = true -> (s1, r1) = (s2, r2).
Proof.
  induction l as [|[fl [s r]] l IH]; intros Hsep H1 H2 L1 L2; [destruct H1|].
  destruct Hsep as [Hs Hsep].
  assert (Hx : forall sa ra sb rb, (false, (sa, ra)) = (fl, (s, r)) -> In (false, (sb, rb)) l -> alive sa = true -> alive sb = true -> False).
  { intros sa ra sb rb E Hin La Lb. inv E. specialize (Hs eq_refl). rewrite Forall_forall in Hs. specialize (Hs _ Hin). cbn [fst snd] in Hs.
    unfold alive in *. destruct c as [x|]; [|discriminate]. rewrite (Hs x La) in Lb. discriminate. }
  destruct H1 as [E1|H1], H2 as [E2|H2].
  - congruence.
  - exfalso. eapply Hx; [symmetry; exact E1|exact H2|exact L1|exact L2].
  - exfalso. eapply Hx; [symmetry; exact E2|exact H1|exact L2|exact L1].
  - apply IH; auto.
Qed.
End Reorder.

(** * choices evaluate to the first success of their alternatives *)
Section AltFirst.
Variable g : grammar.
Variable ptx : nat.
Variable buf : list rune.
Variable penv : nat -> nat -> bool.
Notation ev := (peg_ev g ptx buf penv).

Lemma alt_ev_first n es p rs :
  Forall2 (fun e r => exists evs, ev n e p = Some (r, evs)) es rs ->
  exists evs, alt_ev (ev n) es p = Some (first_succ rs, evs).
Proof.
  induction 1 as [|e r es rs (evs1 & He) Hrest IH]; cbn [alt_ev first_succ]; [eexists; reflexivity|].
  rewrite He. destruct r as [|p1 f1]; cbn [is_succ]; [|eexists; reflexivity].
  destruct IH as (evs2 & IH).
  destruct es as [|e2 es].
  - inv Hrest. cbn [first_succ]. eexists; reflexivity.
  - rewrite IH. eexists; reflexivity.
Qed.
End AltFirst.

(** * list facts about the way [opt] partitions and orders the alternatives *)
From Coq Require Import Permutation.

Lemma place_cases_perm l : forall maxv acc, Permutation (place_cases l maxv acc) (acc ++ l).
Proof.
  induction l as [|[s e] l IH]; intros maxv acc; cbn [place_cases].
  - rewrite app_nil_r. apply Permutation_refl.
  - destruct (Z.ltb maxv (len s)).
    + eapply Permutation_trans; [apply IH|]. rewrite <- app_assoc. apply Permutation_refl.
    + eapply Permutation_trans; [apply IH|]. cbn [app]. apply Permutation_middle.
Qed.

Lemma zip_filter {A B} (P : A -> B -> Prop) (f : bool -> bool) :
  forall (la : list A) (lb : list B), Forall2 P la lb -> forall (fl : list bool) (S : list iset),
  Forall2 (fun x y => fst x = fst y /\ P (snd x) (snd y))
    (map snd (filter (fun x => f (fst x)) (combine fl (combine S la))))
    (map snd (filter (fun x => f (fst x)) (combine fl (combine S lb)))).
Proof.
  induction 1 as [|a b la lb Hab Hrest IH]; intros fl S.
  - destruct S; cbn [combine]; destruct fl; cbn; constructor.
  - destruct S as [|s S]; [destruct fl; cbn; constructor|].
    destruct fl as [|b0 fl]; [cbn; constructor|].
    cbn [combine filter fst]. destruct (f b0); cbn [map snd]; [constructor; [cbn; auto|apply IH]|apply IH].
Qed.

Lemma in_combine_map_F2 {A B C} (F : A -> C) (R : A -> B -> Prop) la lb :
  Forall2 R la lb -> forall s r, In (s, r) (combine (map F la) lb) -> exists a, In a la /\ s = F a /\ R a r.
Proof.
  induction 1 as [|a b la lb Hab Hrest IH]; intros s r Hin; [destruct Hin|].
  cbn [map combine] in Hin. destruct Hin as [E|Hin].
  - inv E. exists a. split; [left; reflexivity|auto].
  - destruct (IH _ _ Hin) as (a0 & H1 & H2 & H3). exists a0. split; [right; exact H1|auto].
Qed.

Lemma Forall2_in_l {A B} (P : A -> B -> Prop) la lb : Forall2 P la lb -> forall a, In a la -> exists b, In b lb /\ P a b.
Proof.
  induction 1 as [|a b la lb Hab Hrest IH]; intros x Hin; [destruct Hin|].
  destruct Hin as [<-|Hin]; [exists b; split; [left; reflexivity|exact Hab]|].
  destruct (IH _ Hin) as (y & H1 & H2). exists y. split; [right; exact H1|exact H2].
Qed.
Lemma Forall2_in_r {A B} (P : A -> B -> Prop) la lb : Forall2 P la lb -> forall b, In b lb -> exists a, In a la /\ P a b.
Proof.
  induction 1 as [|a b la lb Hab Hrest IH]; intros x Hin; [destruct Hin|].
  destruct Hin as [<-|Hin]; [exists a; split; [left; reflexivity|exact Hab]|].
  destruct (IH _ Hin) as (y & H1 & H2). exists y. split; [right; exact H1|exact H2].
Qed.

Lemma sep_inter_flags (S : list iset) : Forall Inv S -> forall rs : list res, sep (combine (inter_flags S) (combine S rs)).
Proof.
  induction 1 as [|s S Hs HS IH]; intros rs; [exact I|].
  destruct rs as [|r rs]; [exact I|].
  cbn [inter_flags combine sep]. split; [|apply IH].
  intros Hfl. apply Forall_forall. intros [fl0 [s0 r0]] Hin x Hx. cbn [fst snd].
  apply in_combine_r in Hin. apply in_combine_l in Hin.
  destruct S as [|s1 S1]; [destruct Hin|].
  destruct (mem s0 x) eqn:E0; [|reflexivity]. exfalso.
  assert (existsb (fun s' => intersects s s') (s1 :: S1) = true).
  { apply existsb_exists. exists s0. split; [exact Hin|]. rewrite Forall_forall in HS.
    apply intersects_spec; auto. exists x. auto. }
  congruence.
Qed.

Lemma find_case_keys_of_some (cs : list (iset * expr)) c e1 :
  find_case (map (fun x => (keys_of (fst x), snd x)) cs) c = Some e1 -> exists s, In (s, e1) cs /\ mem s c = true.
Proof.
  unfold find_case. induction cs as [|[s e] cs IH]; cbn [map find_case_keys fst snd option_map]; [discriminate|].
  destruct (existsb (Z.eqb c) (keys_of s)) eqn:E.
  - cbn [option_map snd]. intros H. inv H. exists s. split; [left; reflexivity|].
    apply existsb_exists in E as (y & Hy & Hc). apply Z.eqb_eq in Hc. subst y.
    unfold keys_of in Hy. apply filter_In in Hy as [Hy _]. apply elements_mem. exact Hy.
  - intros H. destruct (IH H) as (s0 & H1 & H2). exists s0. split; [right; exact H1|exact H2].
Qed.

Lemma find_case_keys_of_none (cs : list (iset * expr)) c : valid_rune c = true ->
  find_case (map (fun x => (keys_of (fst x), snd x)) cs) c = None -> forall s e, In (s, e) cs -> mem s c = false.
Proof.
  unfold find_case. intros Hv. induction cs as [|[s e] cs IH]; cbn [map find_case_keys fst snd option_map]; intros H s0 e0 Hin; [destruct Hin|].
  destruct (existsb (Z.eqb c) (keys_of s)) eqn:E; [discriminate|].
  destruct Hin as [Ei|Hin]; [|eapply IH; eauto]. inv Ei.
  destruct (mem s0 c) eqn:Em; [|reflexivity]. exfalso.
  assert (existsb (Z.eqb c) (keys_of s0) = true); [|congruence].
  apply existsb_exists. exists c. split; [|apply Z.eqb_refl]. unfold keys_of. apply filter_In. split; [apply elements_mem; exact Em|exact Hv].
Qed.

Lemma map_snd_snd_combine {A B C} : forall (lc : list C) (la : list A) (lb : list B),
  length la = length lc -> length lb = length lc ->
  map (fun i => snd (snd i)) (combine la (combine lb lc)) = lc.
Proof.
  induction lc as [|c lc IH]; intros la lb Ha Hb.
  - destruct la; [|discriminate]. reflexivity.
  - destruct la as [|a la]; [discriminate|]. destruct lb as [|b lb]; [discriminate|].
    cbn [combine map snd]. f_equal. apply IH; cbn in *; lia.
Qed.

Lemma inter_flags_length l : length (inter_flags l) = length l.
Proof. induction l as [|s l IH]; cbn [inter_flags length]; [reflexivity|]. rewrite IH. reflexivity. Qed.

Lemma in_unord {A} (l : list (bool * A)) y : In y (map snd (filter (fun x => negb (fst x)) l)) <-> In (false, y) l.
Proof.
  split.
  - intros H. apply in_map_iff in H as ([fl x] & E & Hin). cbn in E. subst x. apply filter_In in Hin as [Hin Hf].
    cbn in Hf. destruct fl; [discriminate|]. exact Hin.
  - intros H. apply in_map_iff. exists (false, y). split; [reflexivity|]. apply filter_In. split; [exact H|reflexivity].
Qed.

Lemma Forall2_map_snd {A B C D} (P : B -> D -> Prop) (la : list (A * B)) (lb : list (C * D)) :
  Forall2 (fun x y => P (snd x) (snd y)) la lb -> Forall2 P (map snd la) (map snd lb).
Proof. induction 1; cbn [map]; constructor; auto. Qed.

Lemma F2_impl {A B} (P Q : A -> B -> Prop) : (forall a b, P a b -> Q a b) -> forall la lb, Forall2 P la lb -> Forall2 Q la lb.
Proof. intros H la lb H2. induction H2; constructor; auto. Qed.
Lemma F2_length {A B} (P : A -> B -> Prop) la lb : Forall2 P la lb -> length la = length lb.
Proof. induction 1; cbn; auto. Qed.
Lemma F2_map_l {A B C} (f : A -> C) (P : C -> B -> Prop) la lb : Forall2 (fun a b => P (f a) b) la lb -> Forall2 P (map f la) lb.
Proof. induction 1; cbn [map]; constructor; auto. Qed.

Lemma uniform_fuel (F : nat -> expr -> option out) :
  (forall n m e x, n <= m -> F n e = Some x -> F m e = Some x)%nat ->
  forall es rs, Forall2 (fun e r => exists n evs, F n e = Some (r, evs)) es rs ->
  exists N, Forall2 (fun e (r : res) => exists evs, F N e = Some (r, evs)) es rs.
Proof.
  intros mono es rs H. induction H as [|e r es rs (n & evs & He) Hrest (N & IH)]; [exists 0%nat; constructor|].
  exists (Nat.max n N). constructor.
  - exists evs. eapply mono; [|exact He]. apply Nat.le_max_l.
  - eapply F2_impl; [|exact IH]. intros a b (evs0 & Hab). exists evs0. eapply mono; [|exact Hab]. apply Nat.le_max_r.
Qed.

Lemma first_succ_single r : first_succ [r] = r.
Proof. cbn. destruct r; reflexivity. Qed.

(** * the rewrite preserves the semantics *)
Section Opt.
Local Open Scope nat_scope.
Variable g : grammar.
Variable T : list fsres.
Variable tab : list bool.
Variable rank : list nat.
Hypothesis Hwf : wf_b g tab rank = true.
Hypothesis HT : t_ok_b g T = true.
Variable ptx : nat.
Variable buf : list rune.
Variable penv : nat -> nat -> bool.
(** runes of the buffer are code points that can label a case (what []rune(string) yields) *)
Hypothesis Hbuf : forall c, In c buf -> valid_rune c = true.
Variable br : nat -> bool.               (* which rules are optimised (the reachable ones) *)

Definition tr (b : bool) (e : expr) : expr := if b then opt T e else e.
Definition g' : grammar :=
  map (fun p => match snd p with RBody b => RBody (tr (br (fst p)) b) | rb => rb end) (combine (seq 0 (length g)) g).

Notation ev := (peg_ev g ptx buf penv).
Notation ev' := (peg_ev g' ptx buf penv).
Notation local_ok := (local_ok g tab).
Notation hrank := (hrank tab rank).

Lemma Hbuf_range c : In c buf -> (0 <= c <= maxRune)%Z.
Proof.
  intros H. pose proof (Hbuf c H) as V. unfold valid_rune in V.
  apply andb_true_iff in V as [V _]. apply andb_true_iff in V as [V1 V2]. apply Z.leb_le in V1, V2. lia.
Qed.

Lemma esize_pos e : 1 <= esize e.
Proof. exact (Total.esize_pos g ptx penv tab rank Hwf e). Qed.
Lemma esize_in x es : In x es -> esize x <= fold_right (fun y a => esize y + a) 0 es.
Proof. exact (Total.esize_in g ptx penv tab rank Hwf x es). Qed.
Lemma hr_app l1 l2 : hr rank (l1 ++ l2) = Nat.max (hr rank l1) (hr rank l2).
Proof. exact (Total.hr_app g penv tab rank Hwf l1 l2). Qed.
Lemma hr_flat_map (f : expr -> list nat) x xs : In x xs -> hr rank (f x) <= hr rank (flat_map f xs).
Proof. exact (Total.hr_flat_map g ptx penv tab rank Hwf f x xs). Qed.

Lemma g'_nth r : nth_error g' r =
  match nth_error g r with Some (RBody b) => Some (RBody (tr (br r) b)) | x => x end.
Proof.
  unfold g'.
  assert (E : forall (l : list rbody) s k,
            nth_error (map (fun p => match snd p with RBody b => RBody (tr (br (fst p)) b) | rb => rb end) (combine (seq s (length l)) l)) k =
            match nth_error l k with Some (RBody b) => Some (RBody (tr (br (s + k)) b)) | x => x end).
  { induction l as [|y l IH]; intros s k; [destruct k; reflexivity|].
    destruct k; cbn [length seq combine map nth_error fst snd].
    - rewrite Nat.add_0_r. destruct y; reflexivity.
    - rewrite (IH (S s) k). replace (S s + k) with (s + S k) by lia. reflexivity. }
  rewrite (E g 0 r). reflexivity.
Qed.

Lemma rule_facts r b : nth_error g r = Some (RBody b) -> local_ok b = true /\ ranges_ok b = true.
Proof.
  intros Hr. split.
  - pose proof (wf_rule g penv tab rank Hwf _ _ Hr) as W. cbn [rule_wf] in W.
    apply andb_true_iff in W as [W _]. apply andb_true_iff in W as [W _]. exact W.
  - pose proof (rule_ok g T HT _ _ Hr) as K. cbn [rule_t_ok] in K.
    apply andb_true_iff in K as [K _]. apply andb_true_iff in K as [K _]. exact K.
Qed.

Lemma tr_seq b es : tr b (ESeq es) = ESeq (map (tr b) es).
Proof. destruct b; cbn [tr opt]; [reflexivity|]. unfold tr. rewrite map_id. reflexivity. Qed.

Lemma tr_alt_false es : tr false (EAlt es) = EAlt (map (tr false) es).
Proof. unfold tr. rewrite map_id. reflexivity. Qed.

Definition preserved (e : expr) (p : nat) : Prop :=
  forall b n r, ev n e p = Some r -> exists m evs', ev' m (tr b e) p = Some (fst r, evs').

Definition Q (k h s : nat) : Prop :=
  forall e p, p <= length buf -> length buf - p <= k -> hrank e <= h -> esize e <= s ->
    local_ok e = true -> ranges_ok e = true -> preserved e p.

Lemma seq_ev'_fuel n m es p x : n <= m -> seq_ev (ev' n) es p = Some x -> seq_ev (ev' m) es p = Some x.
Proof. intros L. apply seq_ev_mono. intros e q y. apply peg_ev_mono. exact L. Qed.
Lemma alt_ev'_fuel n m es p x : n <= m -> alt_ev (ev' n) es p = Some x -> alt_ev (ev' m) es p = Some x.
Proof. intros L. apply alt_ev_mono. intros e q y. apply peg_ev_mono. exact L. Qed.

(** element-wise translation of a choice (no reordering) *)
Lemma alt_elementwise b es p :
  (forall x, In x es -> preserved x p) ->
  forall n r, alt_ev (ev n) es p = Some r -> exists m evs', alt_ev (ev' m) (map (tr b) es) p = Some (fst r, evs').
Proof.
  induction es as [|x es IH]; intros Hp n r H; cbn [alt_ev map] in *.
  - inv H. exists 0. eexists. reflexivity.
  - destruct (ev n x p) as [[[|p1 f1] evs1]|] eqn:E; try discriminate.
    + destruct (Hp x (or_introl eq_refl) b n _ E) as (m1 & e1 & E1). cbn [fst] in E1.
      destruct es as [|x2 es].
      * inv H. exists m1. cbn [map alt_ev]. rewrite E1. eexists; reflexivity.
      * destruct (alt_ev (ev n) (x2 :: es) p) as [[r2 evs2]|] eqn:E2; [|discriminate]. inv H.
        destruct (IH (fun y Hy => Hp y (or_intror Hy)) n _ E2) as (m2 & e2 & E2'). cbn [fst] in *.
        exists (Nat.max m1 m2).
        pose proof (alt_ev'_fuel _ _ _ _ _ (Nat.le_max_r m1 m2) E2') as E3.
        change (map (tr b) (x :: x2 :: es)) with (tr b x :: map (tr b) (x2 :: es)).
        remember (map (tr b) (x2 :: es)) as l2 eqn:El2.
        destruct l2 as [|y2 l2]; [discriminate|].
        cbn [alt_ev]. rewrite (peg_ev_mono _ _ _ _ _ _ _ _ _ (Nat.le_max_l m1 m2) E1).
        cbn [alt_ev] in E3. rewrite E3. eexists; reflexivity.
    + inv H. destruct (Hp x (or_introl eq_refl) b n _ E) as (m1 & e1 & E1). cbn [fst] in *.
      exists m1. rewrite E1. eexists; reflexivity.
Qed.


Definition sets_of (es : list expr) : list iset := map (fun x => snd (fs T x)) es.
Definition items_of (es : list expr) := combine (inter_flags (sets_of es)) (combine (sets_of es) (map (opt T) es)).
Definition unord_of (es : list expr) := map snd (filter (fun x => negb (fst x)) (items_of es)).
Definition ordered_of (es : list expr) := map (fun x => snd (snd x)) (filter (fun x => fst x) (items_of es)).

Lemma opt_alt es : opt T (EAlt es) =
  if negb (forallb (fun x => fst (fs T x)) es) then EAlt (map (opt T) es)
  else if Nat.leb (length es) (2 + length (filter (fun b => b) (inter_flags (sets_of es)))) then EAlt (map (opt T) es)
  else match rev (place_cases (unord_of es) 0 []) with
       | [] => EAlt (map (opt T) es)
       | (_, d) :: before =>
           if existsb (fun x => too_big (fst x)) before then EAlt (map (opt T) es)
           else let sw := ESwitch (map (fun x => (keys_of (fst x), snd x)) (rev before)) d in
                match ordered_of es with [] => sw | _ => EAlt (ordered_of es ++ [sw]) end
       end.
Proof.
  cbn [opt]. unfold unord_of, ordered_of, items_of, sets_of. rewrite !map_map.
  replace (forallb fst (map (fs T) es)) with (forallb (fun x => fst (fs T x)) es); [reflexivity|].
  induction es as [|x es IH]; cbn [forallb map]; [reflexivity|]. rewrite IH. reflexivity.
Qed.

(** the rewritten choice: ordered alternatives first, then the switch *)
Lemma alt_rewritten es p sd d before :
  p <= length buf ->
  forallb ranges_ok es = true ->
  forallb (fun x => fst (fs T x)) es = true ->
  (forall x, In x es -> has_result g ptx buf penv x p) ->
  (forall x, In x es -> preserved x p) ->
  rev (place_cases (unord_of es) 0%Z []) = (sd, d) :: before ->
  forall n r, alt_ev (ev n) es p = Some r ->
  exists m evs', ev' m (match ordered_of es with
                        | [] => ESwitch (map (fun x => (keys_of (fst x), snd x)) (rev before)) d
                        | _ => EAlt (ordered_of es ++ [ESwitch (map (fun x => (keys_of (fst x), snd x)) (rev before)) d])
                        end) p = Some (fst r, evs').
Proof.
  intros Hp Hr Hc Htot Hpres Hplace n r Hder.
  set (sw := ESwitch (map (fun x => (keys_of (fst x), snd x)) (rev before)) d).
  rewrite forallb_forall in Hr, Hc.
  (* results of every alternative, original and translated *)
  assert (Hrs : exists rs, Forall2 (fun e r0 => (exists n0 evs, ev n0 e p = Some (r0, evs)) /\
                                               (exists m0 evs, ev' m0 (opt T e) p = Some (r0, evs))) es rs).
  { clear -Htot Hpres. induction es as [|x es IH]; [exists []; constructor|].
    destruct IH as (rs & IH); [intros; apply Htot; right; auto|intros; apply Hpres; right; auto|].
    destruct (Htot x (or_introl eq_refl)) as (n0 & [r0 evs0] & E0).
    destruct (Hpres x (or_introl eq_refl) true n0 _ E0) as (m0 & evs1 & E1). cbn [fst tr] in E1.
    exists (r0 :: rs). constructor; [|exact IH]. split; eauto. }
  destruct Hrs as (rs & Hrs).
  destruct (uniform_fuel (fun k e => ev k e p)) with (es := es) (rs := rs) as (N & HN).
  { intros a b e x L. apply peg_ev_mono. exact L. }
  { eapply F2_impl; [|exact Hrs]. intros a b [H _]. exact H. }
  destruct (uniform_fuel (fun k e => ev' k e p)) with (es := map (opt T) es) (rs := rs) as (M & HM).
  { intros a b e x L. apply peg_ev_mono. exact L. }
  { apply F2_map_l. eapply F2_impl; [|exact Hrs]. intros a b [_ H]. exact H. }
  pose proof (F2_length _ _ _ Hrs) as Hlen.
  (* the original evaluates to the first success *)
  destruct (alt_ev_first g ptx buf penv N es p rs HN) as (evsN & EN).
  assert (Hfst : fst r = first_succ rs).
  { pose proof (alt_ev_fuel g ptx buf penv _ _ _ _ _ (Nat.le_max_l n N) Hder) as A1.
    pose proof (alt_ev_fuel g ptx buf penv _ _ _ _ _ (Nat.le_max_r n N) EN) as A2.
    rewrite A1 in A2. inv A2. reflexivity. }
  set (S0 := sets_of es) in *.
  set (l := combine (inter_flags S0) (combine S0 rs)).
  set (copt := nth_error buf p).
  assert (Hmapl : map (fun i => snd (snd i)) l = rs).
  { unfold l. apply map_snd_snd_combine; [rewrite inter_flags_length|]; unfold S0, sets_of; rewrite map_length; exact Hlen. }
  (* success implies the first character is in the set *)
  assert (F1 : forall fl s r0, In (fl, (s, r0)) l -> is_succ r0 = true -> alive copt s = true).
  { intros fl s r0 Hin Hs. unfold l in Hin. apply in_combine_r in Hin.
    destruct (in_combine_map_F2 (fun x => snd (fs T x)) _ _ _ HN _ _ Hin) as (e & He & -> & (evs & Ee)).
    destruct r0 as [|p' f]; [discriminate|].
    destruct (first_sound g T HT ptx buf penv Hbuf_range N e (Hr _ He) p p' f evs Hp Ee) as [A B].
    destruct (B (A (Hc _ He))) as (c & Hc1 & Hc2). unfold alive, copt. rewrite Hc1. exact Hc2. }
  assert (Hsep : sep l).
  { unfold l. apply sep_inter_flags. unfold S0, sets_of. apply Forall_forall. intros s Hs.
    apply in_map_iff in Hs as (e & <- & He). apply (fs_inv g T HT). apply Hr. exact He. }
  (* unordered items: expressions and results side by side *)
  assert (HU : Forall2 (fun x y => fst x = fst y /\ exists evs, ev' M (snd x) p = Some (snd y, evs))
                 (unord_of es) (map snd (filter (fun x => negb (fst x)) l))).
  { unfold unord_of, items_of, l. fold S0. apply (zip_filter (fun e' r0 => exists evs, ev' M e' p = Some (r0, evs)) negb). exact HM. }
  assert (HO : Forall2 (fun e' r0 => exists evs, ev' M e' p = Some (r0, evs))
                 (ordered_of es) (map (fun i => snd (snd i)) (filter fst l))).
  { unfold ordered_of, items_of, l. fold S0.
    rewrite <- !(map_map snd snd). apply Forall2_map_snd.
    eapply F2_impl; [|apply (zip_filter (fun e' r0 => exists evs, ev' M e' p = Some (r0, evs)) (fun b => b)); exact HM].
    intros a b [_ H]. exact H. }
  (* the case list is a permutation of the unordered items *)
  assert (Hperm : forall x, In x (unord_of es) <-> In x (rev before ++ [(sd, d)])).
  { intros x. assert (E : place_cases (unord_of es) 0%Z [] = rev before ++ [(sd, d)]).
    { rewrite <- (rev_involutive (place_cases _ _ _)). rewrite Hplace. reflexivity. }
    rewrite <- E. pose proof (place_cases_perm (unord_of es) 0%Z []) as Pm. cbn [app] in Pm.
    split; intros Hx; [eapply Permutation_in; [apply Permutation_sym; exact Pm|exact Hx]|eapply Permutation_in; [exact Pm|exact Hx]]. }
  (* the default has a result *)
  assert (Hd : exists rd evs, In (false, (sd, rd)) l /\ ev' M d p = Some (rd, evs)).
  { assert (Hin : In (sd, d) (unord_of es)) by (apply Hperm; apply in_or_app; right; left; reflexivity).
    destruct (Forall2_in_l _ _ _ HU _ Hin) as ([s1 r1] & H1 & H2 & (evs & H3)). cbn [fst snd] in *. subst s1.
    exists r1, evs. split; [apply in_unord; exact H1|exact H3]. }
  destruct Hd as (rd & evsd & Hdin & Hdev).
  (* no success without a alive set *)
  assert (Hdead : (forall s r0, In (false, (s, r0)) l -> alive copt s = false) -> is_succ rd = false).
  { intros Hno. destruct (is_succ rd) eqn:E; [|reflexivity]. specialize (Hno sd rd Hdin). rewrite (F1 _ _ _ Hdin E) in Hno. discriminate. }
  (* the switch *)
  assert (Hsw : exists sel evs, ev' (S M) sw p = Some (sel, evs) /\
                  (forall s r0, In (false, (s, r0)) l -> alive copt s = true -> sel = r0) /\
                  ((forall s r0, In (false, (s, r0)) l -> alive copt s = false) -> is_succ sel = false)).
  { unfold sw. cbn [peg_ev]. fold copt. destruct copt as [c|] eqn:Ec.
    - assert (Hv : valid_rune c = true) by (apply Hbuf; eapply nth_error_In; exact Ec).
      destruct (find_case (map (fun x => (keys_of (fst x), snd x)) (rev before)) c) as [e1|] eqn:Ef.
      + destruct (find_case_keys_of_some _ _ _ Ef) as (s1 & Hin1 & Hm1).
        assert (Hin : In (s1, e1) (unord_of es)) by (apply Hperm; apply in_or_app; left; exact Hin1).
        destruct (Forall2_in_l _ _ _ HU _ Hin) as ([s1' r1] & H1 & H2 & (evs & H3)). cbn [fst snd] in *. subst s1'.
        apply in_unord in H1.
        exists r1, evs. split; [exact H3|]. split.
        * intros s r0 Hin0 Hl0. assert (E : (s, r0) = (s1, r1)); [|congruence].
          eapply (uniq_live (Some c)); eauto.
        * intros Hno. specialize (Hno _ _ H1). unfold alive in Hno. congruence.
      + exists rd, evsd. split; [exact Hdev|]. split; [|exact Hdead].
        intros s r0 Hin0 Hl0. apply in_unord in Hin0.
        destruct (Forall2_in_r _ _ _ HU _ Hin0) as ([s' e] & H1 & H2 & (evs & H3)). cbn [fst snd] in *. subst s'.
        apply Hperm in H1. apply in_app_or in H1 as [H1|[H1|[]]].
        * unfold alive in Hl0. rewrite (find_case_keys_of_none _ _ Hv Ef _ _ H1) in Hl0. discriminate.
        * assert (e = d) by congruence. subst e. pose proof (peg_ev_det _ _ _ _ _ _ _ _ _ _ H3 Hdev) as E. congruence.
    - exists rd, evsd. split; [exact Hdev|]. split; [|exact Hdead]. intros s r0 _ Hl0. discriminate. }
  destruct Hsw as (sel & evss & Esw & Hsel1 & Hsel2).
  pose proof (switch_reorder copt l sel F1 Hsep Hsel1 Hsel2) as Hre. rewrite Hmapl in Hre.
  rewrite Hfst, Hre.
  destruct (ordered_of es) as [|o1 os] eqn:Eo.
  - assert (E : map (fun i => snd (snd i)) (filter fst l) = []) by (inversion HO; congruence).
    rewrite E. cbn [app]. rewrite first_succ_single.
    exists (S M), evss. exact Esw.
  - rewrite <- Eo in *.
    assert (HA : Forall2 (fun e' r0 => exists evs, ev' (S M) e' p = Some (r0, evs))
                   (ordered_of es ++ [sw]) (map (fun i => snd (snd i)) (filter fst l) ++ [sel])).
    { apply Forall2_app.
      - eapply F2_impl; [|exact HO]. intros a b (evs & H). exists evs. eapply peg_ev_mono; [|exact H]. lia.
      - constructor; [exists evss; exact Esw|constructor]. }
    destruct (alt_ev_first g' ptx buf penv (S M) _ p _ HA) as (evsA & EA).
    exists (S (S M)), evsA. rewrite Eo. rewrite Eo in EA. exact EA.
Qed.


Lemma tr_leaf b e : (match e with ESeq _ | EAlt _ | EAnd _ | ENot _ | EQuery _ | EStar _ | EPlus _ | EPush _ => False | _ => True end) -> tr b e = e.
Proof. destruct b; [|reflexivity]. destruct e; cbn [tr opt]; intros H; try reflexivity; destruct H. Qed.

Lemma tr_and b e : tr b (EAnd e) = EAnd (tr b e).   Proof. destruct b; reflexivity. Qed.
Lemma tr_not b e : tr b (ENot e) = ENot (tr b e).   Proof. destruct b; reflexivity. Qed.
Lemma tr_query b e : tr b (EQuery e) = EQuery (tr b e). Proof. destruct b; reflexivity. Qed.
Lemma tr_star b e : tr b (EStar e) = EStar (tr b e). Proof. destruct b; reflexivity. Qed.
Lemma tr_plus b e : tr b (EPlus e) = EPlus (tr b e). Proof. destruct b; reflexivity. Qed.
Lemma tr_push b e : tr b (EPush e) = EPush (tr b e). Proof. destruct b; reflexivity. Qed.

Ltac leaf_case :=
  let b := fresh "b" in let n := fresh "n" in let r := fresh "r" in let H := fresh "H" in
  intros b n r H; destruct n as [|n]; [discriminate|];
  rewrite tr_leaf by exact I; exists (S n), (snd r); cbn [peg_ev] in *; rewrite H; destruct r; reflexivity.

Theorem opt_preserved : forall k h s, Q k h s.
Proof.
  induction k as [k IHk] using lt_wf_ind. induction h as [h IHh] using lt_wf_ind.
  induction s as [|s IHs]; intros e p Hp Hk Hh Hs Hl Hr; [pose proof (esize_pos e); lia|].
  assert (Hsub : forall x q, p <= q -> q <= length buf -> local_ok x = true -> ranges_ok x = true ->
                   (q = p -> hrank x <= h /\ esize x <= s) -> preserved x q).
  { intros x q Hq Hqb Hlx Hrx Hc. destruct (Nat.eq_dec q p) as [->|Hne].
    - destruct (Hc eq_refl). apply IHs; auto.
    - apply (IHk (length buf - q)) with (h := hrank x) (s := esize x); auto; lia. }
  destruct e; cbn [WF.local_ok] in Hl; cbn [ranges_ok] in Hr.
  - leaf_case.
  - leaf_case.
  - leaf_case.
  - (* EName *)
    intros b n r0 H. destruct n as [|n]; [discriminate|]. rewrite tr_leaf by exact I. cbn [peg_ev] in H.
    destruct (nth_error g r) as [[body|a|]|] eqn:Eg; try discriminate.
    + pose proof (wf_rule g penv tab rank Hwf _ _ Eg) as W. cbn [rule_wf] in W.
      apply andb_true_iff in W as [W Wh]. apply andb_true_iff in W as [Wl Wn].
      destruct (rule_facts _ _ Eg) as [_ Wr].
      assert (Hb : hrank body < h).
      { unfold hrank, Total.hrank in *. cbn [WF.heads hr fold_right] in Hh.
        assert (hr rank (WF.heads tab body) <= rk rank r).
        { rewrite forallb_forall in Wh. clear -Wh. unfold hr. induction (WF.heads tab body) as [|y l IH]; cbn [fold_right]; [lia|].
          assert (rk rank y < rk rank r) by (apply Nat.ltb_lt; apply Wh; left; reflexivity).
          assert (fold_right (fun r0 a => Nat.max (S (rk rank r0)) a) 0 l <= rk rank r) by (apply IH; intros; apply Wh; right; auto).
          lia. }
        lia. }
      destruct (ev n body p) as [[rb evsb]|] eqn:E; [|discriminate].
      destruct (IHh (hrank body) Hb (esize body) body p Hp Hk (le_n _) (le_n _) Wl Wr (br r) n _ E) as (m & evs' & E').
      cbn [fst] in E'. exists (S m). cbn [peg_ev]. rewrite g'_nth, Eg, E'.
      destruct rb as [|p1 f1]; inv H; eexists; reflexivity.
    + inv H. exists 1. cbn [peg_ev]. rewrite g'_nth, Eg. eexists; reflexivity.
  - leaf_case.
  - leaf_case.
  - leaf_case.
  - leaf_case.
  - (* ESeq *)
    intros b n r0 H. destruct n as [|n]; [discriminate|]. cbn [peg_ev] in H. rewrite tr_seq. cbn [esize] in Hs.
    assert (Hseq : forall l q, p <= q -> q <= length buf -> forallb local_ok l = true -> forallb ranges_ok l = true ->
                     fold_right (fun y a => esize y + a) 0 l <= s ->
                     (q = p -> hrank (ESeq l) <= h) ->
                     forall r1, seq_ev (ev n) l q = Some r1 -> exists m evs', seq_ev (ev' m) (map (tr b) l) q = Some (fst r1, evs')).
    { induction l as [|x l IHl]; intros q Hq Hqb Hll Hrl Hsz Hc r1 Hd; cbn [seq_ev map] in *.
      - inv Hd. exists 0. eexists; reflexivity.
      - cbn [forallb fold_right] in *. apply andb_true_iff in Hll as [Hlx Hll]. apply andb_true_iff in Hrl as [Hrx Hrl].
        destruct (ev n x q) as [[rx evsx]|] eqn:Ex; [|discriminate].
        destruct (Hsub x q Hq Hqb Hlx Hrx) with (b := b) (n := n) (r := (rx, evsx)) as (m1 & evs1 & E1); [|exact Ex|].
        { intros ->. specialize (Hc eq_refl). unfold hrank, Total.hrank in *. rewrite heads_seq_cons, hr_app in Hc. lia. }
        cbn [fst] in E1. destruct rx as [|q1 f1].
        + inv Hd. exists m1. rewrite E1. eexists; reflexivity.
        + destruct (Total.ev_le g ptx buf penv _ _ _ _ _ _ Hqb Ex) as [L1 B1].
          destruct (seq_ev (ev n) l q1) as [[r2 evs2]|] eqn:E2; [|discriminate].
          destruct (IHl q1 ltac:(lia) B1 Hll Hrl ltac:(lia)) with (r1 := (r2, evs2)) as (m2 & evs2' & E2'); [|exact E2|].
          { intros ->. assert (q = p) by lia. subst q. specialize (Hc eq_refl).
            unfold hrank, Total.hrank in *. rewrite heads_seq_cons, hr_app in Hc.
            destruct (WF.nul tab x) eqn:Enx; [lia|].
            pose proof (consumes g ptx buf penv tab rank Hwf _ _ _ _ _ _ Hqb Hlx Enx Ex). lia. }
          cbn [fst] in E2'. exists (Nat.max m1 m2).
          rewrite (peg_ev_mono _ _ _ _ _ _ _ _ _ (Nat.le_max_l m1 m2) E1).
          rewrite (seq_ev'_fuel _ _ _ _ _ (Nat.le_max_r m1 m2) E2').
          destruct r2 as [|q2 f2]; inv Hd; eexists; reflexivity. }
    destruct (Hseq es p (le_n _) Hp Hl Hr ltac:(lia) (fun _ => Hh) _ H) as (m & evs' & E).
    exists (S m), evs'. exact E.
  - (* EAlt *)
    intros b n r0 H. destruct n as [|n]; [discriminate|]. cbn [peg_ev] in H. cbn [esize] in Hs.
    assert (Hin : forall x, In x es -> local_ok x = true /\ ranges_ok x = true /\ hrank x <= h /\ esize x <= s).
    { intros x Hx. rewrite forallb_forall in Hl, Hr. split; [auto|]. split; [auto|]. split.
      - unfold hrank, Total.hrank in *. cbn [WF.heads] in Hh. pose proof (hr_flat_map (WF.heads tab) x es Hx). lia.
      - pose proof (esize_in x es Hx). lia. }
    assert (Hpres : forall x, In x es -> preserved x p).
    { intros x Hx. destruct (Hin x Hx) as (A1 & A2 & A3 & A4). apply Hsub; auto. }
    assert (Helem : forall b0, exists m evs', ev' m (EAlt (map (tr b0) es)) p = Some (fst r0, evs')).
    { intros b0. destruct (alt_elementwise b0 es p Hpres n r0 H) as (m & evs' & E). exists (S m), evs'. exact E. }
    destruct b; [|rewrite tr_alt_false; apply Helem].
    unfold tr at 1. rewrite opt_alt.
    destruct (negb (forallb (fun x => fst (fs T x)) es)) eqn:Ec; [apply (Helem true)|]. apply negb_false_iff in Ec.
    destruct (Nat.leb (length es) (2 + length (filter (fun b => b) (inter_flags (sets_of es))))); [apply (Helem true)|].
    destruct (rev (place_cases (unord_of es) 0%Z [])) as [|[sd d] before] eqn:Epl; [apply (Helem true)|].
    destruct (existsb (fun x => too_big (fst x)) before); [apply (Helem true)|].
    cbv zeta. eapply alt_rewritten; eauto.
    intros x Hx. destruct (Hin x Hx) as (A1 & _).
    exact (total g ptx buf penv tab rank Hwf _ _ _ x p Hp (le_n _) (le_n _) (le_n _) A1).
  - (* EAnd *)
    intros b n r0 H. destruct n as [|n]; [discriminate|]. cbn [peg_ev] in H. rewrite tr_and.
    assert (Hsz : esize e <= s) by (cbn [esize] in Hs; lia).
    destruct (ev n e p) as [[r1 evs1]|] eqn:E; [|discriminate].
    destruct (Hsub e p (le_n _) Hp Hl Hr (fun _ => conj Hh Hsz) b n _ E) as (m & evs' & E'). cbn [fst] in E'.
    exists (S m). cbn [peg_ev]. rewrite E'. destruct r1; inv H; eexists; reflexivity.
  - (* ENot *)
    intros b n r0 H. destruct n as [|n]; [discriminate|]. cbn [peg_ev] in H. rewrite tr_not.
    assert (Hsz : esize e <= s) by (cbn [esize] in Hs; lia).
    destruct (ev n e p) as [[r1 evs1]|] eqn:E; [|discriminate].
    destruct (Hsub e p (le_n _) Hp Hl Hr (fun _ => conj Hh Hsz) b n _ E) as (m & evs' & E'). cbn [fst] in E'.
    exists (S m). cbn [peg_ev]. rewrite E'. destruct r1; inv H; eexists; reflexivity.
  - (* EQuery *)
    intros b n r0 H. destruct n as [|n]; [discriminate|]. cbn [peg_ev] in H. rewrite tr_query.
    assert (Hsz : esize e <= s) by (cbn [esize] in Hs; lia).
    destruct (ev n e p) as [[r1 evs1]|] eqn:E; [|discriminate].
    destruct (Hsub e p (le_n _) Hp Hl Hr (fun _ => conj Hh Hsz) b n _ E) as (m & evs' & E'). cbn [fst] in E'.
    exists (S m). cbn [peg_ev]. rewrite E'. destruct r1; inv H; eexists; reflexivity.
  - (* EStar *)
    intros b n r0 H. destruct n as [|n]; [discriminate|]. cbn [peg_ev] in H. rewrite tr_star.
    cbn [esize] in Hs. apply andb_true_iff in Hl as [Hne Hle]. apply negb_true_iff in Hne.
    assert (Hsz : esize e <= s) by lia.
    destruct (ev n e p) as [[r1 evs1]|] eqn:E; [|discriminate].
    destruct (Hsub e p (le_n _) Hp Hle Hr (fun _ => conj Hh Hsz) b n _ E) as (m1 & evs1' & E1). cbn [fst] in E1.
    destruct r1 as [|p1 f1].
    + inv H. exists (S m1). cbn [peg_ev]. rewrite E1. eexists; reflexivity.
    + pose proof (consumes g ptx buf penv tab rank Hwf _ _ _ _ _ _ Hp Hle Hne E) as Hc.
      destruct (Total.ev_le g ptx buf penv _ _ _ _ _ _ Hp E) as [_ B1].
      assert (Hl2 : local_ok (EStar e) = true) by (cbn [WF.local_ok]; rewrite Hne, Hle; reflexivity).
      destruct (ev n (EStar e) p1) as [[r2 evs2]|] eqn:E2; [|discriminate].
      destruct (IHk (length buf - p1) ltac:(lia) (hrank (EStar e)) (esize (EStar e)) (EStar e) p1 B1 (le_n _) (le_n _) (le_n _) Hl2 Hr b n _ E2) as (m2 & evs2' & E2').
      cbn [fst] in E2'. rewrite tr_star in E2'.
      exists (S (Nat.max m1 m2)). cbn [peg_ev].
      rewrite (peg_ev_mono _ _ _ _ _ _ _ _ _ (Nat.le_max_l m1 m2) E1).
      rewrite (peg_ev_mono _ _ _ _ _ _ _ _ _ (Nat.le_max_r m1 m2) E2').
      destruct r2 as [|q2 f2]; inv H; eexists; reflexivity.
  - (* EPlus *)
    intros b n r0 H. destruct n as [|n]; [discriminate|]. cbn [peg_ev] in H. rewrite tr_plus.
    cbn [esize] in Hs. apply andb_true_iff in Hl as [Hne Hle]. apply negb_true_iff in Hne.
    assert (Hsz : esize e <= s) by lia.
    destruct (ev n e p) as [[r1 evs1]|] eqn:E; [|discriminate].
    destruct (Hsub e p (le_n _) Hp Hle Hr (fun _ => conj Hh Hsz) b n _ E) as (m1 & evs1' & E1). cbn [fst] in E1.
    destruct r1 as [|p1 f1].
    + inv H. exists (S m1). cbn [peg_ev]. rewrite E1. eexists; reflexivity.
    + pose proof (consumes g ptx buf penv tab rank Hwf _ _ _ _ _ _ Hp Hle Hne E) as Hc.
      destruct (Total.ev_le g ptx buf penv _ _ _ _ _ _ Hp E) as [_ B1].
      assert (Hl2 : local_ok (EStar e) = true) by (cbn [WF.local_ok]; rewrite Hne, Hle; reflexivity).
      destruct (ev n (EStar e) p1) as [[r2 evs2]|] eqn:E2; [|discriminate].
      destruct (IHk (length buf - p1) ltac:(lia) (hrank (EStar e)) (esize (EStar e)) (EStar e) p1 B1 (le_n _) (le_n _) (le_n _) Hl2 Hr b n _ E2) as (m2 & evs2' & E2').
      cbn [fst] in E2'. rewrite tr_star in E2'.
      exists (S (Nat.max m1 m2)). cbn [peg_ev].
      rewrite (peg_ev_mono _ _ _ _ _ _ _ _ _ (Nat.le_max_l m1 m2) E1).
      rewrite (peg_ev_mono _ _ _ _ _ _ _ _ _ (Nat.le_max_r m1 m2) E2').
      destruct r2 as [|q2 f2]; inv H; eexists; reflexivity.
  - (* EPush *)
    intros b n r0 H. destruct n as [|n]; [discriminate|]. cbn [peg_ev] in H. rewrite tr_push.
    assert (Hsz : esize e <= s) by (cbn [esize] in Hs; lia).
    destruct (ev n e p) as [[r1 evs1]|] eqn:E; [|discriminate].
    destruct (Hsub e p (le_n _) Hp Hl Hr (fun _ => conj Hh Hsz) b n _ E) as (m & evs' & E'). cbn [fst] in E'.
    exists (S m). cbn [peg_ev]. rewrite E'. destruct r1; inv H; eexists; reflexivity.
  - discriminate.
Qed.

(** every parse of the original grammar is reproduced by the optimised one: same result and forest *)
Theorem optimize_sound_rules r n x :
  peg_parse g ptx buf penv n r = Some x -> exists m evs', peg_parse g' ptx buf penv m r = Some (fst x, evs').
Proof.
  unfold peg_parse. intros H.
  assert (Hd : exists body, nth_error g r = Some (RBody body) \/ exists a, nth_error g r = Some (RAct a)).
  { destruct n as [|n]; [discriminate|]. cbn [peg_ev] in H. destruct (nth_error g r) as [[body|a|]|]; try discriminate; [exists body; auto|exists ENil; right; eauto]. }
  destruct n as [|n]; [discriminate|]. cbn [peg_ev] in H.
  destruct (nth_error g r) as [[body|a|]|] eqn:Eg; try discriminate.
  - destruct (rule_facts _ _ Eg) as [Wl Wr].
    destruct (ev n body 0) as [[rb evsb]|] eqn:E; [|discriminate].
    destruct (opt_preserved _ _ _ body 0 (Nat.le_0_l _) (le_n _) (le_n _) (le_n _) Wl Wr (br r) n _ E) as (m & evs' & E').
    cbn [fst] in E'. exists (S m). cbn [peg_ev]. rewrite g'_nth, Eg, E'. destruct rb; inv H; eexists; reflexivity.
  - inv H. exists 1. cbn [peg_ev]. rewrite g'_nth, Eg. eexists; reflexivity.
Qed.

End Opt.

(** * the whole pass *)
Definition valid_buf (buf : list rune) : Prop := forall c, In c buf -> valid_rune c = true.

Lemma optimize_is_g' g T : fs_table g = (T, true) ->
  optimize g = g' g T (fun i => nth i (fst (count_rules g)) false).
Proof.
  intros E. unfold optimize, g'. rewrite E. cbn [negb]. apply map_ext. intros [i rb]. cbn [fst snd].
  destruct rb; try reflexivity. unfold tr. destruct (nth i (fst (count_rules g)) false); reflexivity.
Qed.

Section Whole.
Local Open Scope nat_scope.
Variable g : grammar.
Variable tab : list bool.
Variable rank : list nat.
Hypothesis Hwf : wf_b g tab rank = true.
Hypothesis Hopt : opt_ok_b g = true.
Variable ptx : nat.
Variable buf : list rune.
Variable penv : nat -> nat -> bool.
Hypothesis Hbuf : valid_buf buf.

(** every parse of the original grammar is a parse of the optimised one with the same result *)
Theorem optimize_sound r n x :
  peg_parse g ptx buf penv n r = Some x ->
  exists m evs', peg_parse (optimize g) ptx buf penv m r = Some (fst x, evs').
Proof.
  unfold opt_ok_b in Hopt. destruct (fs_table g) as [T st] eqn:E.
  apply andb_true_iff in Hopt as [Hst HT]. subst st.
  rewrite (optimize_is_g' g T E). apply (optimize_sound_rules g T tab rank Hwf HT ptx buf penv Hbuf).
Qed.

(** and conversely: the optimised grammar has no other results *)
Theorem optimize_complete r m y :
  peg_parse (optimize g) ptx buf penv m r = Some y ->
  exists n evs, peg_parse g ptx buf penv n r = Some (fst y, evs).
Proof.
  intros H.
  assert (Hl : local_ok g tab (EName r) = true).
  { unfold opt_ok_b in Hopt. destruct (fs_table g) as [T st] eqn:E.
    apply andb_true_iff in Hopt as [Hst HT]. subst st. rewrite (optimize_is_g' g T E) in H.
    unfold peg_parse in H. destruct m as [|m]; [discriminate|]. cbn [peg_ev] in H. rewrite (g'_nth g T tab rank Hwf HT penv) in H.
    cbn [local_ok]. destruct (nth_error g r) as [[b|k|]|]; try reflexivity; discriminate. }
  destruct (total g ptx buf penv tab rank Hwf _ _ _ (EName r) 0 (Nat.le_0_l _) (le_n _) (le_n _) (le_n _) Hl) as (n & [rx evs] & Ex).
  destruct (optimize_sound r n _ Ex) as (m' & evs' & E'). cbn [fst] in E'.
  unfold peg_parse in *. pose proof (peg_ev_det _ _ _ _ _ _ _ _ _ _ H E') as Ey. subst y.
  exists n, evs. exact Ex.
Qed.
End Whole.
