(** Soundness of the -switch rewrite (Model/Optimize.v): on a well-formed grammar with a consistent
    first-set table, the optimised tree has the same PEG semantics (result and derivation forest) as
    the original one. *)
From PegV Require Import Base.Tac Base.ListX Spec.Syntax Spec.Peg Spec.WF Model.SetImpl Model.Analyses Model.Optimize
  Proofs.SetProofs Proofs.PegFacts Proofs.Forest Proofs.Total Proofs.FirstSound.

(** * the combinatorial core: moving guarded alternatives behind the ordered ones *)
Definition is_succ (r : res) : bool := match r with Succ _ _ => true | Fail => false end.
Fixpoint first_succ (l : list res) : res :=
  match l with
  | [] => Fail
  | r :: l' => if is_succ r then r else first_succ l'
  end.

Lemma first_succ_app l1 l2 : first_succ (l1 ++ l2) = if is_succ (first_succ l1) then first_succ l1 else first_succ l2.
Proof.
  induction l1 as [|r l1 IH]; cbn [app first_succ]; [reflexivity|].
  destruct (is_succ r) eqn:E; [rewrite E; reflexivity|exact IH].
Qed.

Lemma first_succ_all_fail l : Forall (fun r => is_succ r = false) l -> first_succ l = Fail.
Proof. induction 1 as [|r l Hr Hl IH]; cbn [first_succ]; [reflexivity|]. rewrite Hr. exact IH. Qed.

Section Reorder.
Open Scope Z_scope.
Variable c : option Z.                      (* the next character, if any *)
Definition live (s : iset) : bool := match c with Some x => mem s x | None => false end.

(** items in the original order: (intersects a later alternative, first set, result) *)
Definition item := (bool * (iset * res))%type.

(** no set of an unordered item meets the set of a later item *)
Fixpoint sep (l : list item) : Prop :=
  match l with
  | [] => True
  | (fl, (s, _)) :: l' => (fl = false -> Forall (fun j => forall x, mem s x = true -> mem (fst (snd j)) x = false) l') /\ sep l'
  end.

Lemma switch_reorder (l : list item) (sel : res) :
  (forall fl s r, In (fl, (s, r)) l -> is_succ r = true -> live s = true) ->
  sep l ->
  (forall s r, In (false, (s, r)) l -> live s = true -> sel = r) ->
  ((forall s r, In (false, (s, r)) l -> live s = false) -> is_succ sel = false) ->
  first_succ (map (fun i => snd (snd i)) l) =
  first_succ (map (fun i => snd (snd i)) (filter fst l) ++ [sel]).
Proof.
  induction l as [|[fl [s r]] l IH]; intros F1 Hsep Hsel1 Hsel2; cbn [map filter first_succ app fst snd].
  - rewrite Hsel2; [reflexivity|]. intros s r [].
  - destruct Hsep as [Hs Hsep].
    assert (F1' : forall fl0 s0 r0, In (fl0, (s0, r0)) l -> is_succ r0 = true -> live s0 = true) by (intros; eapply F1; [right|]; eauto).
    destruct fl; cbn [map first_succ app fst snd].
    + destruct (is_succ r) eqn:Er; [reflexivity|].
      apply IH; auto.
      * intros s0 r0 Hin. apply Hsel1. right. exact Hin.
      * intros Hno. apply Hsel2. intros s0 r0 [E|Hin]; [discriminate|]. eapply Hno; eauto.
    + destruct (is_succ r) eqn:Er.
      * (* the unordered item succeeds: it is live, every later ordered item is dead *)
        assert (Hl : live s = true) by (eapply F1; [left; reflexivity|exact Er]).
        rewrite (Hsel1 s r (or_introl eq_refl) Hl).
        rewrite first_succ_app. cbn [first_succ]. rewrite Er.
        rewrite first_succ_all_fail; [reflexivity|].
        apply Forall_forall. intros r0 Hr0. apply in_map_iff in Hr0 as ([fl0 [s0 r1]] & <- & Hin). cbn [snd].
        apply filter_In in Hin as [Hin _].
        destruct (is_succ r1) eqn:E1; [|reflexivity]. exfalso.
        pose proof (F1' _ _ _ Hin E1) as Hl0. specialize (Hs eq_refl). rewrite Forall_forall in Hs. specialize (Hs _ Hin). cbn [fst snd] in Hs.
        unfold live in *. destruct c as [x|]; [|discriminate]. rewrite (Hs x Hl) in Hl0. discriminate.
      * apply IH; auto.
        -- intros s0 r0 Hin. apply Hsel1. right. exact Hin.
        -- intros Hno. destruct (live s) eqn:Hl.
           ++ rewrite (Hsel1 s r (or_introl eq_refl) Hl). exact Er.
           ++ apply Hsel2. intros s0 r0 [E|Hin]; [inv E; exact Hl|]. eapply Hno; eauto.
Qed.
End Reorder.

(** * choices evaluate to the first success of their alternatives *)
Section AltFirst.
Variable g : grammar.
Variable ptx : nat.
Variable buf : list rune.
Variable penv : nat -> nat -> bool.
Notation ev := (peg_ev g ptx buf penv).

Lemma alt_ev_first n es p rs :
  Forall2 (fun e r => exists evs, ev n e p = Some (r, evs)) es rs ->
  exists evs, alt_ev (ev n) es p = Some (first_succ rs, evs).
Proof.
  induction 1 as [|e r es rs (evs1 & He) Hrest IH]; cbn [alt_ev first_succ]; [eexists; reflexivity|].
  rewrite He. destruct r as [|p1 f1]; cbn [is_succ]; [|eexists; reflexivity].
  destruct IH as (evs2 & IH).
  destruct es as [|e2 es].
  - inv Hrest. cbn [first_succ]. eexists; reflexivity.
  - rewrite IH. eexists; reflexivity.
Qed.
End AltFirst.

(** * the rewrite preserves the semantics *)
Section Opt.
Local Open Scope nat_scope.
Variable g : grammar.
Variable T : list fsres.
Variable tab : list bool.
Variable rank : list nat.
Hypothesis Hwf : wf_b g tab rank = true.
Hypothesis HT : t_ok_b g T = true.
Variable ptx : nat.
Variable buf : list rune.
Variable penv : nat -> nat -> bool.
(** runes of the buffer are code points that can label a case (what []rune(string) yields) *)
Hypothesis Hbuf : forall c, In c buf -> valid_rune c = true.
Variable br : nat -> bool.               (* which rules are optimised (the reachable ones) *)

Definition tr (b : bool) (e : expr) : expr := if b then opt T e else e.
Definition g' : grammar :=
  map (fun p => match snd p with RBody b => RBody (tr (br (fst p)) b) | rb => rb end) (combine (seq 0 (length g)) g).

Notation ev := (peg_ev g ptx buf penv).
Notation ev' := (peg_ev g' ptx buf penv).
Notation local_ok := (local_ok g tab).
Notation hrank := (hrank tab rank).

Lemma Hbuf_range c : In c buf -> (0 <= c <= maxRune)%Z.
Proof.
  intros H. pose proof (Hbuf c H) as V. unfold valid_rune in V.
  apply andb_true_iff in V as [V _]. apply andb_true_iff in V as [V1 V2]. apply Z.leb_le in V1, V2. lia.
Qed.

Lemma g'_nth r : nth_error g' r =
  match nth_error g r with Some (RBody b) => Some (RBody (tr (br r) b)) | x => x end.
Proof.
  unfold g'.
  assert (E : forall (l : list rbody) s k,
            nth_error (map (fun p => match snd p with RBody b => RBody (tr (br (fst p)) b) | rb => rb end) (combine (seq s (length l)) l)) k =
            match nth_error l k with Some (RBody b) => Some (RBody (tr (br (s + k)) b)) | x => x end).
  { induction l as [|y l IH]; intros s k; [destruct k; reflexivity|].
    destruct k; cbn [length seq combine map nth_error fst snd].
    - rewrite Nat.add_0_r. destruct y; reflexivity.
    - rewrite (IH (S s) k). replace (S s + k) with (s + S k) by lia. reflexivity. }
  rewrite (E g 0 r). reflexivity.
Qed.

Lemma rule_facts r b : nth_error g r = Some (RBody b) -> local_ok b = true /\ ranges_ok b = true.
Proof.
  intros Hr. split.
  - pose proof (wf_rule g penv tab rank Hwf _ _ Hr) as W. cbn [rule_wf] in W.
    apply andb_true_iff in W as [W _]. apply andb_true_iff in W as [W _]. exact W.
  - pose proof (rule_ok g T HT _ _ Hr) as K. cbn [rule_t_ok] in K.
    apply andb_true_iff in K as [K _]. apply andb_true_iff in K as [K _]. exact K.
Qed.

Lemma tr_seq b es : tr b (ESeq es) = ESeq (map (tr b) es).
Proof. destruct b; cbn [tr opt]; [reflexivity|]. unfold tr. rewrite map_id. reflexivity. Qed.

Lemma tr_alt_false es : tr false (EAlt es) = EAlt (map (tr false) es).
Proof. unfold tr. rewrite map_id. reflexivity. Qed.

Definition preserved (e : expr) (p : nat) : Prop :=
  forall b n r, ev n e p = Some r -> exists m evs', ev' m (tr b e) p = Some (fst r, evs').

Definition Q (k h s : nat) : Prop :=
  forall e p, p <= length buf -> length buf - p <= k -> hrank e <= h -> esize e <= s ->
    local_ok e = true -> ranges_ok e = true -> preserved e p.

Lemma seq_ev'_fuel n m es p x : n <= m -> seq_ev (ev' n) es p = Some x -> seq_ev (ev' m) es p = Some x.
Proof. intros L. apply seq_ev_mono. intros e q y. apply peg_ev_mono. exact L. Qed.
Lemma alt_ev'_fuel n m es p x : n <= m -> alt_ev (ev' n) es p = Some x -> alt_ev (ev' m) es p = Some x.
Proof. intros L. apply alt_ev_mono. intros e q y. apply peg_ev_mono. exact L. Qed.

(** element-wise translation of a choice (no reordering) *)
Lemma alt_elementwise b es p :
  (forall x, In x es -> preserved x p) ->
  forall n r, alt_ev (ev n) es p = Some r -> exists m evs', alt_ev (ev' m) (map (tr b) es) p = Some (fst r, evs').
Proof.
  induction es as [|x es IH]; intros Hp n r H; cbn [alt_ev map] in *.
  - inv H. exists 0. eexists. reflexivity.
  - destruct (ev n x p) as [[[|p1 f1] evs1]|] eqn:E; try discriminate.
    + destruct (Hp x (or_introl eq_refl) b n _ E) as (m1 & e1 & E1). cbn [fst] in E1.
      destruct es as [|x2 es].
      * inv H. exists m1. cbn [map alt_ev]. rewrite E1. eexists; reflexivity.
      * destruct (alt_ev (ev n) (x2 :: es) p) as [[r2 evs2]|] eqn:E2; [|discriminate]. inv H.
        destruct (IH (fun y Hy => Hp y (or_intror Hy)) n _ E2) as (m2 & e2 & E2'). cbn [fst] in *.
        exists (Nat.max m1 m2).
        pose proof (alt_ev'_fuel _ _ _ _ _ (Nat.le_max_r m1 m2) E2') as E3.
        change (map (tr b) (x :: x2 :: es)) with (tr b x :: map (tr b) (x2 :: es)).
        remember (map (tr b) (x2 :: es)) as l2 eqn:El2.
        destruct l2 as [|y2 l2]; [discriminate|].
        cbn [alt_ev]. rewrite (peg_ev_mono _ _ _ _ _ _ _ _ _ (Nat.le_max_l m1 m2) E1).
        cbn [alt_ev] in E3. rewrite E3. eexists; reflexivity.
    + inv H. destruct (Hp x (or_introl eq_refl) b n _ E) as (m1 & e1 & E1). cbn [fst] in *.
      exists m1. rewrite E1. eexists; reflexivity.
Qed.

End Opt.
