(** The headline statement for the parser peg generates, at the level of the statements it writes: for every grammar with
    a well-formedness certificate, under every combination of -inline and -switch and with or without the memo table, on
    every input and from every earlier parser state, the call Parse() makes - the first rule's function in a reset
    parser - terminates, is deterministic, and returns the verdict, the offset and the token list of the PEG semantics
    of the grammar AS WRITTEN (the unoptimised tree).  No hypothesis about the analysis, the optimised tree, the emitter's
    bookkeeping or the existence of a result. *)
From PegV Require Import Base.Tac Spec.Syntax Spec.Peg Spec.WF Model.Machine Model.SkipCheck Model.Analyses Model.Optimize Model.Gen
  Model.Emit Model.SEmit Model.Exec Proofs.PegFacts Proofs.OptSound Proofs.OptSwok Proofs.Top Proofs.OptTop Proofs.SEmitFile Proofs.SEmitOpt
  Proofs.EmitUse Proofs.CountReach Proofs.DeepDefault Proofs.CountInline Proofs.ExecDet Proofs.OptClosed Proofs.Forest Spec.Tokens Model.Runtime Proofs.RuntimeProofs Proofs.Sim.
Local Open Scope nat_scope.

Lemma optimize_length g : length (optimize g) = length g.
Proof.
  unfold optimize. destruct (fs_table g) as [T st]. destruct (negb st); [reflexivity|].
  rewrite map_length, combine_length, seq_length. lia.
Qed.

Lemma slot_ok_start g inline : slot_ok g inline 0.
Proof. unfold slot_ok, mk_opts. cbn [o_inline]. apply inline_table_0. Qed.

Lemma reached_start g : g <> [] -> reached (count_rules g) 0 = true.
Proof. intros H. exact (count_rules_start g H). Qed.

Definition tree_of (sw : bool) (g : grammar) : grammar := if sw then optimize g else g.

Theorem generated_parser_correct g tab rank :
  wf_b g tab rank = true -> good_grammar g ->
  (forall r b, nth_error g r = Some (RBody b) -> ranges_ok b = true) ->
  grammar_alt2 g -> closed_names g ->
  forall ptx buf penv, good_buf buf -> valid_buf buf ->
  forall memo inline sw rb st0,
    nth_error g 0 = Some rb -> rb <> RNil ->
    exists n res evs b st',
      peg_parse g ptx buf penv n 0 = Some (res, evs) /\
      xcall buf penv (mk_opts true memo inline (tree_of sw g)) (gen_fn (tree_of sw g) ptx inline) 0 (reset st0) (Ret b st') /\
      (forall out, xcall buf penv (mk_opts true memo inline (tree_of sw g)) (gen_fn (tree_of sw g) ptx inline) 0 (reset st0) out -> out = Ret b st') /\
      match res with
      | Succ p f => b = true /\ pos st' = p /\ live st' = Syntax.flat f
      | Fail => b = false
      end.
Proof.
  intros Hwf Hg Hro Ha Hc ptx buf penv Hbuf Hvalid memo inline sw rb st0 Hr Hn.
  assert (Hne : g <> []) by (intros E; rewrite E in Hr; discriminate).
  destruct sw; cbn [tree_of].
  - assert (Hne' : optimize g <> []).
    { intros E. apply Hne. apply length_zero_iff_nil. rewrite <- optimize_length, E. reflexivity. }
    destruct (generated_code_switch_all_options g tab rank Hwf Hg Hro Ha Hc ptx buf penv Hbuf Hvalid memo inline 0 rb st0 Hr Hn
                (slot_ok_start _ inline) (reached_start _ Hne')) as (n & res & evs & H & K).
    destruct (generated_code_switch_terminates g tab rank Hwf Hg Hro Ha Hc ptx buf penv Hbuf Hvalid memo inline 0 rb st0 Hr Hn
                (slot_ok_start _ inline) (reached_start _ Hne')) as (b & st' & Hx & Hu).
    exists n, res, evs, b, st'. split; [exact H|]. split; [exact Hx|]. split; [exact Hu|].
    specialize (K _ Hx). destruct res as [|p f].
    + destruct K as (s & E). inv E. reflexivity.
    + destruct K as (s & E & P & L). inv E. auto.
  - destruct (c01_total g ptx buf penv tab rank 0 rb Hwf Hr Hn) as (n & [res evs] & H).
    destruct n as [|n]; [discriminate|].
    destruct (generated_code_terminates g tab rank Hwf Hg (plain_good_switches g Hro) Ha Hc ptx buf penv Hbuf memo inline 0 rb st0 Hr Hn
                (slot_ok_start _ inline) (reached_start _ Hne)) as (b & st' & Hx & Hu).
    exists (S n), res, evs, b, st'. split; [exact H|]. split; [exact Hx|]. split; [exact Hu|].
    pose proof (generated_code_all_options g ptx buf penv Hg Hbuf (plain_good_switches g Hro) Ha Hc memo inline n 0 st0 _
                  (slot_ok_start _ inline) (reached_start _ Hne) H _ Hx) as K.
    destruct res as [|p f].
    + destruct K as (s & E & _). inv E. reflexivity.
    + destruct K as (s & E & P & L). inv E. auto.
Qed.
Print Assumptions generated_parser_correct.

(** ... so the parsers generated under any two option combinations agree with each other: same verdict and, on
    success, same offset and same token list - from any two earlier states (C02 / C06 / C12 at the level of the
    generated statements, no side condition). *)
Corollary generated_parsers_agree g tab rank :
  wf_b g tab rank = true -> good_grammar g ->
  (forall r b, nth_error g r = Some (RBody b) -> ranges_ok b = true) ->
  grammar_alt2 g -> closed_names g ->
  forall ptx buf penv, good_buf buf -> valid_buf buf ->
  forall memo1 inline1 sw1 memo2 inline2 sw2 rb st1 st2,
    nth_error g 0 = Some rb -> rb <> RNil ->
    forall out1 out2,
      xcall buf penv (mk_opts true memo1 inline1 (tree_of sw1 g)) (gen_fn (tree_of sw1 g) ptx inline1) 0 (reset st1) out1 ->
      xcall buf penv (mk_opts true memo2 inline2 (tree_of sw2 g)) (gen_fn (tree_of sw2 g) ptx inline2) 0 (reset st2) out2 ->
      exists b s1 s2, out1 = Ret b s1 /\ out2 = Ret b s2 /\ (b = true -> pos s1 = pos s2 /\ live s1 = live s2).
Proof.
  intros Hwf Hg Hro Ha Hc ptx buf penv Hbuf Hvalid memo1 inline1 sw1 memo2 inline2 sw2 rb st1 st2 Hr Hn out1 out2 X1 X2.
  destruct (generated_parser_correct g tab rank Hwf Hg Hro Ha Hc ptx buf penv Hbuf Hvalid memo1 inline1 sw1 rb st1 Hr Hn)
    as (n1 & res1 & evs1 & b1 & s1 & P1 & _ & U1 & K1).
  destruct (generated_parser_correct g tab rank Hwf Hg Hro Ha Hc ptx buf penv Hbuf Hvalid memo2 inline2 sw2 rb st2 Hr Hn)
    as (n2 & res2 & evs2 & b2 & s2 & P2 & _ & U2 & K2).
  rewrite (U1 _ X1), (U2 _ X2).
  pose proof (peg_ev_det g ptx buf penv _ _ _ _ _ _ P1 P2) as E. inv E.
  destruct res2 as [|p f].
  - subst. exists false, s1, s2. split; [reflexivity|]. split; [reflexivity|]. discriminate.
  - destruct K1 as (-> & Q1 & L1). destruct K2 as (-> & Q2 & L2).
    exists true, s1, s2. split; [reflexivity|]. split; [reflexivity|]. intros _. split; congruence.
Qed.
Print Assumptions generated_parsers_agree.

(** * The -noast parser

    The same for the file generated with -noast (no tokens, no memo table; actions run inline): under either -inline
    setting and with or without -switch the call Parse() makes terminates, is deterministic, and returns the verdict and
    the offset of the PEG semantics of the grammar as written. *)
Lemma noast_slot_start g inline : o_inline (mk_opts false false inline g) 0 = false.
Proof. unfold mk_opts. cbn [o_inline]. apply inline_table_0. Qed.

Theorem generated_noast_parser_correct g tab rank :
  wf_b g tab rank = true -> good_grammar g ->
  (forall r b, nth_error g r = Some (RBody b) -> ranges_ok b = true) ->
  grammar_alt2 g -> closed_names g ->
  forall ptx buf penv, good_buf buf -> valid_buf buf ->
  forall inline sw rb st0,
    (forall rb0, nth_error (tree_of sw g) ptx = Some rb0 -> rb0 = RNil) ->
    nth_error g 0 = Some rb -> rb <> RNil ->
    exists n res evs st',
      peg_parse g ptx buf penv n 0 = Some (res, evs) /\
      xcall buf penv (mk_opts false false inline (tree_of sw g)) (gen_fn_noast (tree_of sw g) ptx inline) 0 (reset st0)
            (Ret (match res with Fail => false | Succ _ _ => true end) st') /\
      (forall out, xcall buf penv (mk_opts false false inline (tree_of sw g)) (gen_fn_noast (tree_of sw g) ptx inline) 0 (reset st0) out ->
                   out = Ret (match res with Fail => false | Succ _ _ => true end) st') /\
      match res with Succ p _ => pos st' = p /\ p <= length buf | Fail => True end.
Proof.
  intros Hwf Hg Hro Ha Hc ptx buf penv Hbuf Hvalid inline sw rb st0 Hptx Hr Hn.
  assert (Hne : g <> []) by (intros E; rewrite E in Hr; discriminate).
  assert (K : exists g' n res evs evs', g' = tree_of sw g /\ good_grammar g' /\ good_switches g' /\ deep_table_b g' inline = true /\ g' <> [] /\
                peg_parse g ptx buf penv (S n) 0 = Some (res, evs) /\ peg_parse g' ptx buf penv (S n) 0 = Some (res, evs')).
  { destruct sw; cbn [tree_of].
    - assert (Hne' : optimize g <> []).
      { intros E. apply Hne. apply length_zero_iff_nil. rewrite <- optimize_length, E. reflexivity. }
      destruct (fs_table g) as [T st] eqn:E. destruct st.
      + destruct (common_result g tab rank Hwf (stable_opt_ok g Hro T E) ptx buf penv Hvalid 0 rb Hr Hn) as (n & res & evs & evs' & H & H').
        destruct n as [|n]; [discriminate|].
        exists (optimize g), n, res, evs, evs'. split; [reflexivity|]. split; [exact (optimize_good_grammar g tab rank Hwf Hg Hro)|].
        split; [exact (optimize_good_switches g tab rank Hwf Hro)|]. split; [exact (deep_table_optimize g inline Ha Hc)|]. auto.
      + destruct (c01_total g ptx buf penv tab rank 0 rb Hwf Hr Hn) as (n & [res evs] & H). destruct n as [|n]; [discriminate|].
        exists (optimize g), n, res, evs, evs. rewrite (optimize_unstable g T E). split; [reflexivity|]. split; [exact Hg|].
        split; [exact (plain_good_switches g Hro)|]. split; [exact (deep_table_all g inline Ha Hc)|]. auto.
    - destruct (c01_total g ptx buf penv tab rank 0 rb Hwf Hr Hn) as (n & [res evs] & H). destruct n as [|n]; [discriminate|].
      exists g, n, res, evs, evs. split; [reflexivity|]. split; [exact Hg|].
      split; [exact (plain_good_switches g Hro)|]. split; [exact (deep_table_all g inline Ha Hc)|]. auto. }
  destruct K as (g' & n & res & evs & evs' & Eg & Hg' & Hs' & Hd & Hne' & H & H'). rewrite <- Eg in *.
  destruct (generated_code_noast g' ptx buf penv Hg' Hbuf Hs' inline n 0 st0 _ Hptx Hd (noast_slot_start g' inline) (reached_start g' Hne') H')
    as (st' & Hx & _ & P). cbn [fst] in *.
  exists (S n), res, evs, st'. split; [exact H|]. split; [exact Hx|]. split; [|exact P].
  intros out Hx'. exact (xcall_det _ _ _ _ _ _ _ _ Hx' Hx).
Qed.
Print Assumptions generated_noast_parser_correct.

(** * The error token

    When the grammar as written rejects the input, the parser generated without -switch (memo table on or off, -inline
    on or off) leaves in [maxToken] the first non-empty token that reached the furthest offset of the attempt, and that
    token lies within the input - with no hypothesis that the semantics has a result. *)
Theorem generated_parser_error_token g tab rank :
  wf_b g tab rank = true -> good_grammar g ->
  (forall r b, nth_error g r = Some (RBody b) -> ranges_ok b = true) ->
  grammar_alt2 g -> closed_names g ->
  forall ptx buf penv, good_buf buf ->
  forall memo inline rb st0,
    nth_error g 0 = Some rb -> rb <> RNil ->
    exists n res evs, peg_parse g ptx buf penv n 0 = Some (res, evs) /\
      (res = Fail ->
       forall out, xcall buf penv (mk_opts true memo inline g) (gen_fn g ptx inline) 0 (reset st0) out ->
         exists st', out = Ret false st' /\ maxtok st' = first_furthest evs /\ tok_ok (length buf) (maxtok st')).
Proof.
  intros Hwf Hg Hro Ha Hc ptx buf penv Hbuf memo inline rb st0 Hr Hn.
  assert (Hne : g <> []) by (intros E; rewrite E in Hr; discriminate).
  destruct (c01_total g ptx buf penv tab rank 0 rb Hwf Hr Hn) as (n & [res evs] & H).
  destruct n as [|n]; [discriminate|].
  exists (S n), res, evs. split; [exact H|]. intros -> out Hx.
  exact (generated_code_error_token g ptx buf penv Hg Hbuf (plain_good_switches g Hro) memo inline n 0 st0 evs
           (deep_table_all g inline Ha Hc) (slot_ok_start g inline) (reached_start g Hne) H out Hx).
Qed.
Print Assumptions generated_parser_error_token.

(** * Tokens, actions and the syntax tree of an accepted input (C03, C04, C05)

    When the grammar as written accepts a prefix with derivation forest [f], whatever the option combination the tokens
    the generated parser has recorded are the post-order of [f]: the last one is the first rule over the consumed prefix,
    all lie within the input; Execute() over them runs the actions of the derivation in order, each with the most
    recently completed capture; AST() is the derivation tree without its empty nodes and the printers walk it in
    pre-order. *)
Theorem generated_parser_tokens_actions_tree g tab rank :
  wf_b g tab rank = true -> good_grammar g ->
  (forall r b, nth_error g r = Some (RBody b) -> ranges_ok b = true) ->
  grammar_alt2 g -> closed_names g ->
  forall ptx buf penv, good_buf buf -> valid_buf buf ->
  forall memo inline sw rb st0,
    nth_error g 0 = Some rb -> rb <> RNil ->
    exists n res evs, peg_parse g ptx buf penv n 0 = Some (res, evs) /\
      forall p f, res = Succ p f ->
      forall out, xcall buf penv (mk_opts true memo inline (tree_of sw g)) (gen_fn (tree_of sw g) ptx inline) 0 (reset st0) out ->
        exists st' kids, out = Ret true st' /\ pos st' = p /\ f = [Node 0 0 p kids] /\
          live st' = Syntax.flat kids ++ [(0, (0, p))] /\
          Forall (inb 0 (length buf)) (live st') /\
          execute g ptx (live st') (0, 0) = fst (trace_forest g ptx f (0, 0)) /\
          ast (live st') = (if 0 =? p then None else Some (Rose (0, (0, p)) (prune_forest kids))) /\
          print_tree (live st') = (if 0 =? p then [] else preorder 0 (Rose (0, (0, p)) (prune_forest kids))).
Proof.
  intros Hwf Hg Hro Ha Hc ptx buf penv Hbuf Hvalid memo inline sw rb st0 Hr Hn.
  destruct (generated_parser_correct g tab rank Hwf Hg Hro Ha Hc ptx buf penv Hbuf Hvalid memo inline sw rb st0 Hr Hn)
    as (n & res & evs & b & st' & H & _ & Hu & K).
  exists n, res, evs. split; [exact H|]. intros p f -> out Hx. rewrite (Hu _ Hx). destruct K as (-> & Hp & L).
  (* the facts about [f] come from the semantics alone: read them off the machine of the tree as written *)
  pose proof (plain_good_switches g Hro) as Hs.
  destruct (c03_tokens g ptx buf penv Hg Hbuf Hs true false n 0 zero_state p f evs (slot_ok_start g false) H) as (s3 & kids & R3 & L3 & Hf & L3' & F3).
  destruct (c04_execute g ptx buf penv Hg Hbuf Hs true false n 0 zero_state p f evs (slot_ok_start g false) H) as (s4 & R4 & E4).
  destruct (c05_ast g ptx buf penv Hg Hbuf Hs true false n 0 zero_state p f evs (slot_ok_start g false) H) as (s5 & kids5 & R5 & Hf5 & A5 & P5).
  assert (s4 = s3) by congruence. assert (s5 = s3) by congruence. subst s4 s5.
  assert (kids5 = kids) by (rewrite Hf in Hf5; inv Hf5; reflexivity). subst kids5.
  exists st', kids. split; [reflexivity|]. split; [exact Hp|]. split; [exact Hf|].
  rewrite L, <- L3. repeat split; assumption.
Qed.
Print Assumptions generated_parser_tokens_actions_tree.

(** the three parts, as the properties state them *)
Corollary generated_parser_tokens g tab rank :
  wf_b g tab rank = true -> good_grammar g ->
  (forall r b, nth_error g r = Some (RBody b) -> ranges_ok b = true) ->
  grammar_alt2 g -> closed_names g ->
  forall ptx buf penv, good_buf buf -> valid_buf buf ->
  forall memo inline sw rb st0,
    nth_error g 0 = Some rb -> rb <> RNil ->
    exists n res evs, peg_parse g ptx buf penv n 0 = Some (res, evs) /\
      forall p f, res = Succ p f ->
      forall out, xcall buf penv (mk_opts true memo inline (tree_of sw g)) (gen_fn (tree_of sw g) ptx inline) 0 (reset st0) out ->
        exists st' kids, out = Ret true st' /\ pos st' = p /\ live st' = Syntax.flat f /\ f = [Node 0 0 p kids] /\
          live st' = Syntax.flat kids ++ [(0, (0, p))] /\ Forall (inb 0 (length buf)) (live st').
Proof.
  intros Hwf Hg Hro Ha Hc ptx buf penv Hbuf Hvalid memo inline sw rb st0 Hr Hn.
  destruct (generated_parser_tokens_actions_tree g tab rank Hwf Hg Hro Ha Hc ptx buf penv Hbuf Hvalid memo inline sw rb st0 Hr Hn)
    as (n & res & evs & H & K).
  exists n, res, evs. split; [exact H|]. intros p f E out Hx.
  destruct (K p f E out Hx) as (st' & kids & E1 & E2 & E3 & E4 & E5 & E6 & E7 & E8).
  exists st', kids. repeat split; try assumption. rewrite E4, E3. symmetry. apply flat_node.
Qed.

Corollary generated_parser_actions g tab rank :
  wf_b g tab rank = true -> good_grammar g ->
  (forall r b, nth_error g r = Some (RBody b) -> ranges_ok b = true) ->
  grammar_alt2 g -> closed_names g ->
  forall ptx buf penv, good_buf buf -> valid_buf buf ->
  forall memo inline sw rb st0,
    nth_error g 0 = Some rb -> rb <> RNil ->
    exists n res evs, peg_parse g ptx buf penv n 0 = Some (res, evs) /\
      forall p f, res = Succ p f ->
      forall out, xcall buf penv (mk_opts true memo inline (tree_of sw g)) (gen_fn (tree_of sw g) ptx inline) 0 (reset st0) out ->
        exists st', out = Ret true st' /\ execute g ptx (live st') (0, 0) = fst (trace_forest g ptx f (0, 0)).
Proof.
  intros Hwf Hg Hro Ha Hc ptx buf penv Hbuf Hvalid memo inline sw rb st0 Hr Hn.
  destruct (generated_parser_tokens_actions_tree g tab rank Hwf Hg Hro Ha Hc ptx buf penv Hbuf Hvalid memo inline sw rb st0 Hr Hn)
    as (n & res & evs & H & K).
  exists n, res, evs. split; [exact H|]. intros p f E out Hx.
  destruct (K p f E out Hx) as (st' & kids & E1 & E2 & E3 & E4 & E5 & E6 & E7 & E8).
  exists st'. split; assumption.
Qed.

Corollary generated_parser_ast g tab rank :
  wf_b g tab rank = true -> good_grammar g ->
  (forall r b, nth_error g r = Some (RBody b) -> ranges_ok b = true) ->
  grammar_alt2 g -> closed_names g ->
  forall ptx buf penv, good_buf buf -> valid_buf buf ->
  forall memo inline sw rb st0,
    nth_error g 0 = Some rb -> rb <> RNil ->
    exists n res evs, peg_parse g ptx buf penv n 0 = Some (res, evs) /\
      forall p f, res = Succ p f ->
      forall out, xcall buf penv (mk_opts true memo inline (tree_of sw g)) (gen_fn (tree_of sw g) ptx inline) 0 (reset st0) out ->
        exists st' kids, out = Ret true st' /\ f = [Node 0 0 p kids] /\
          ast (live st') = (if 0 =? p then None else Some (Rose (0, (0, p)) (prune_forest kids))) /\
          print_tree (live st') = (if 0 =? p then [] else preorder 0 (Rose (0, (0, p)) (prune_forest kids))).
Proof.
  intros Hwf Hg Hro Ha Hc ptx buf penv Hbuf Hvalid memo inline sw rb st0 Hr Hn.
  destruct (generated_parser_tokens_actions_tree g tab rank Hwf Hg Hro Ha Hc ptx buf penv Hbuf Hvalid memo inline sw rb st0 Hr Hn)
    as (n & res & evs & H & K).
  exists n, res, evs. split; [exact H|]. intros p f E out Hx.
  destruct (K p f E out Hx) as (st' & kids & E1 & E2 & E3 & E4 & E5 & E6 & E7 & E8).
  exists st', kids. repeat split; assumption.
Qed.
Print Assumptions generated_parser_ast.
