From PegV Require Import Base.Tac Model.EmitFacts.
Open Scope Z_scope.

(** every rule constant and memo id fits the type chosen for pegRule: the largest id is the number of
    rule nodes, which is below the number of top-level nodes the type is chosen from *)
Theorem rule_ids_fit tlen id : 0 <= id -> id <= tlen -> tlen < 2 ^ 63 -> id <= umax (peg_rule_type tlen).
Proof.
  intros H0 H Hb. unfold peg_rule_type.
  destruct (Z.ltb_spec 4294967295 tlen); [cbn [umax]; lia|].
  destruct (Z.ltb_spec 65535 tlen); [cbn [umax]; lia|].
  destruct (Z.ltb_spec 255 tlen); cbn [umax]; lia.
Qed.

Lemma esc_cons2 c d r :
  escape_comment (c :: d :: r) =
    if (Z.eqb c star && Z.eqb d slash)%bool then star :: blank :: slash :: escape_comment r
    else c :: escape_comment (d :: r).
Proof. reflexivity. Qed.
Lemma term_cons2 c d r : has_terminator (c :: d :: r) = (Z.eqb c star && Z.eqb d slash)%bool || has_terminator (d :: r).
Proof. reflexivity. Qed.

(** the escaped text never contains the comment terminator, and its first character is a slash only if
    the original's is *)
Lemma escape_no_terminator s :
  has_terminator (escape_comment s) = false /\
  (forall r, escape_comment s = slash :: r -> exists r0, s = slash :: r0).
Proof.
  induction s as [s IH] using (well_founded_induction (well_founded_ltof _ (@length Z))).
  destruct s as [|c [|d r]].
  - split; [reflexivity|]. intros r H; discriminate.
  - split; [reflexivity|]. intros r H. inv H. eauto.
  - rewrite esc_cons2.
    destruct (Z.eqb_spec c star) as [->|Hc]; [destruct (Z.eqb_spec d slash) as [->|Hd]|]; cbn [andb].
    + destruct (IH r) as [I1 I2]; [unfold ltof; cbn; lia|].
      split; [|intros r0 H; inv H].
      destruct (escape_comment r) as [|x xs] eqn:E; [reflexivity|].
      rewrite !term_cons2. replace (star =? star) with true by reflexivity. replace (blank =? slash) with false by reflexivity.
      replace (blank =? star) with false by reflexivity. replace (slash =? star) with false by reflexivity.
      cbn [andb orb]. exact I1.
    + destruct (IH (d :: r)) as [I1 I2]; [unfold ltof; cbn; lia|].
      split; [|intros r0 H; inv H].
      destruct (escape_comment (d :: r)) as [|x xs] eqn:E; [reflexivity|].
      rewrite term_cons2. replace (star =? star) with true by reflexivity. cbn [andb].
      destruct (Z.eqb_spec x slash) as [->|Hx]; [|cbn [orb]; exact I1].
      destruct (I2 xs eq_refl) as (r0 & E0). inv E0. contradiction.
    + destruct (IH (d :: r)) as [I1 I2]; [unfold ltof; cbn; lia|].
      split.
      * destruct (escape_comment (d :: r)) as [|x xs] eqn:E; [reflexivity|].
        rewrite term_cons2. destruct (Z.eqb_spec c star); [contradiction|]. cbn [andb orb]. exact I1.
      * intros r0 H. inv H. eauto.
Qed.

Theorem comment_never_terminated s : has_terminator (escape_comment s) = false.
Proof. apply escape_no_terminator. Qed.
