(** The generated parser (Model/Machine.v, AST mode, any memo / inline / always-succeeds decisions)
    computes exactly the reference semantics (Spec/Peg.v): verdict, end position, live tokens
    = post-order of the derivation forest, maxToken = first-furthest fold over the attempt's
    events; the memo table stays justified and absorbed. *)
From PegV Require Import Base.Tac Base.ListX Spec.Syntax Spec.Peg Spec.WF Model.Machine Model.SkipCheck Proofs.PegFacts.

Arguments live : simpl never.
Arguments flat : simpl never.

Lemma set_at_firstn l : forall i (x : tok), i <= length l -> firstn (S i) (set_at l i x) = firstn i l ++ [x].
Proof.
  induction l as [|y l IH]; intros [|i] x H; cbn in *; try lia; try reflexivity.
  f_equal. apply IH. lia.
Qed.

Lemma set_at_length l : forall i (x : tok), i <= length l -> S i <= length (set_at l i x).
Proof.
  induction l as [|y l IH]; intros [|i] x H; cbn in *; try lia.
  specialize (IH i x). lia.
Qed.

Lemma flat_app f1 f2 : flat (f1 ++ f2) = flat f1 ++ flat f2.
Proof. unfold flat. apply flat_map_app. Qed.

Lemma flat_node r b e kids : flat [Node r b e kids] = flat kids ++ [(r, (b, e))].
Proof. unfold flat at 1. cbn [flat_map]. rewrite app_nil_r. apply postorder_node. Qed.

Section Sim.
Variable g : grammar.
Variable ptx : nat.
Variable buf : list rune.
Variable penv : nat -> nat -> bool.
Variable o : opts.

Hypothesis Hast : o_ast o = true.
Hypothesis Hg : forall r b, nth_error g r = Some (RBody b) -> expr_ok b = true.
(** every switch of the grammar is well guarded (trivial when -switch is off; re-checked per grammar otherwise) *)
Hypothesis Hsw : grammar_swok g (o_inline o).
(** calls emitted without a failure branch really cannot fail (discharged by always_succeeds_sound) *)
Hypothesis Hasu : forall r, o_asu o r = true -> forall n p evs, peg_ev g ptx buf penv n (EName r) p <> Some (Fail, evs).

Notation ev := (peg_ev g ptx buf penv).
Notation run := (run_f g ptx buf penv o).

Definition okst (st : mstate) : Prop := pos st <= length buf /\ tix st <= length (toks st).

Inductive mmatch : mentry -> res -> Prop :=
| mm_fail : mmatch MFail Fail
| mm_ok p f : mmatch (MOk (flat f)) (Succ p f).

Definition memo_okm (mm : list ((nat * nat) * mentry)) (mt : tok) : Prop :=
  forall r p m, lookup mm r p = Some m ->
    exists k rs evs, ev k (EName r) p = Some (rs, evs) /\ absorbed evs mt /\ mmatch m rs /\
                     match rs with Succ p' _ => p' <= length buf | Fail => True end.
Definition memo_ok (st : mstate) : Prop := memo_okm (memo st) (maxtok st).

Lemma memo_okm_mono mm mt mt' : memo_okm mm mt -> tk_end mt <= tk_end mt' -> memo_okm mm mt'.
Proof.
  intros H L r p m Hl. destruct (H r p m Hl) as (k & rs & evs & H1 & H2 & H3 & H4).
  exists k, rs, evs. split; [|split; [|split]]; auto. eapply absorbed_mono; eauto.
Qed.

Definition simr (lv : list tok) (mt : tok) (r : out) (m : option mres) : Prop :=
  match r with
  | (Fail, evs) =>
      exists st', m = Some (Ret false st') /\ length lv <= length (toks st') /\ firstn (length lv) (toks st') = lv
                  /\ maxtok st' = fold_left upd_max evs mt /\ memo_ok st'
  | (Succ p' f, evs) =>
      exists st', m = Some (Ret true st') /\ pos st' = p' /\ okst st' /\ tix st' = length lv + length (flat f)
                  /\ live st' = lv ++ flat f /\ maxtok st' = fold_left upd_max evs mt /\ memo_ok st'
  end.

Lemma live_length st : okst st -> length (live st) = tix st.
Proof. intros [_ H]. unfold live. apply firstn_length_le. exact H. Qed.

(** a success leaves the earlier live tokens in place *)
Lemma succ_frame lv x st' : live st' = lv ++ x -> tix st' = length lv + length x -> tix st' <= length (toks st') ->
  length lv <= length (toks st') /\ firstn (length lv) (toks st') = lv.
Proof.
  intros Hl Ht Hle. split; [lia|].
  rewrite <- (firstn_firstn_le (toks st') (length lv) (tix st')) by lia.
  change (firstn (tix st') (toks st')) with (live st'). rewrite Hl. apply firstn_app_exact.
Qed.

(** after a failure, the catcher's restore re-establishes the state *)
Lemma after_fail lv mt evs st1 p0 :
  length lv <= length (toks st1) -> firstn (length lv) (toks st1) = lv ->
  maxtok st1 = fold_left upd_max evs mt -> memo_ok st1 -> p0 <= length buf ->
  let st1' := restore p0 (length lv) st1 in
  okst st1' /\ memo_ok st1' /\ live st1' = lv /\ maxtok st1' = fold_left upd_max evs mt /\ pos st1' = p0.
Proof. intros H1 H2 H3 H4 H5. cbv zeta. unfold okst, memo_ok, live, restore; cbn. auto 10. Qed.

Definition combine (r1 : out) (r2 : out) : out :=
  match r1, r2 with
  | (Succ p1 f1, evs1), (Fail, evs2) => (Fail, evs1 ++ evs2)
  | (Succ p1 f1, evs1), (Succ p2 f2, evs2) => (Succ p2 (f1 ++ f2), evs1 ++ evs2)
  | _, _ => r1
  end.

Lemma simr_seq lv mt p1 f1 evs1 st1 r2 m :
  live st1 = lv ++ flat f1 -> tix st1 = length lv + length (flat f1) -> tix st1 <= length (toks st1) ->
  maxtok st1 = fold_left upd_max evs1 mt ->
  simr (live st1) (maxtok st1) r2 m ->
  simr lv mt (combine (Succ p1 f1, evs1) r2) m.
Proof.
  intros Hl Ht Hle Hm H. destruct r2 as [[|p2 f2] evs2]; cbn [combine simr] in *.
  - destruct H as (st' & E & A & B & D & F). exists st'. split; [exact E|].
    rewrite Hl, app_length in A, B.
    split; [lia|]. split.
    + rewrite <- (firstn_firstn_le (toks st') (length lv) (length lv + length (flat f1))) by lia.
      rewrite B. apply firstn_app_exact.
    + split; [|exact F]. rewrite D, Hm, fold_left_app. reflexivity.
  - destruct H as (st' & E & A & B & D & F & G & I). exists st'. split; [exact E|]. split; [exact A|]. split; [exact B|].
    rewrite Hl, app_length in D. rewrite Hl in F. rewrite flat_app, app_length.
    split; [lia|]. split; [rewrite F, app_assoc; reflexivity|].
    split; [|exact I]. rewrite G, Hm, fold_left_app. reflexivity.
Qed.

Lemma simr_prepend lv mt evs1 r2 m :
  simr lv (fold_left upd_max evs1 mt) r2 m -> simr lv mt (fst r2, evs1 ++ snd r2) m.
Proof.
  destruct r2 as [[|p2 f2] evs2]; cbn [simr fst snd]; intros H.
  - destruct H as (st' & E & A & B & D & F). exists st'. rewrite fold_left_app. auto 10.
  - destruct H as (st' & E & A & B & D & F & G & I). exists st'. rewrite fold_left_app. auto 10.
Qed.

(** add(rule, begin) in AST mode *)
Lemma add_facts r b st : tix st <= length (toks st) ->
  let st' := add o r b st in
  pos st' = pos st /\ tix st' = S (tix st) /\ tix st' <= length (toks st') /\
  live st' = live st ++ [(r, (b, pos st))] /\ maxtok st' = upd_max (maxtok st) (r, (b, pos st)) /\ memo st' = memo st.
Proof.
  intros H. cbv zeta. unfold add, live. rewrite Hast. cbn [pos tix toks maxtok memo].
  split; [reflexivity|]. split; [reflexivity|]. split; [apply set_at_length; exact H|].
  split; [apply set_at_firstn; exact H|]. split; reflexivity.
Qed.

Notation chain := (chain g (o_inline o)).
Notation swok := (swok g (o_inline o)).

(** when the skip flag is set, the case guard has established a character that the first terminal accepts *)
Definition flag_ok (e : expr) (pd mk : bool) (st : mstate) : Prop :=
  pd = true -> exists c, nth_error buf (pos st) = Some c /\ chain e mk c.

Lemma flag_ok_false e mk st : flag_ok e false mk st.
Proof. intros H; discriminate. Qed.

Lemma swok_seq es : swok (ESeq es) <-> Forall swok es.
Proof. cbn [SkipCheck.swok]. induction es as [|x es IH]; [split; constructor|]. rewrite IH. split; [intros [A B]; constructor; auto|intros H; inv H; auto]. Qed.
Lemma swok_alt es : swok (EAlt es) <-> Forall swok es.
Proof. cbn [SkipCheck.swok]. induction es as [|x es IH]; [split; constructor|]. rewrite IH. split; [intros [A B]; constructor; auto|intros H; inv H; auto]. Qed.

Definition IHn (n : nat) : Prop :=
  forall e pd mk st r, okst st -> memo_ok st -> expr_ok e = true -> swok e -> flag_ok e pd mk st ->
    ev n e (pos st) = Some r -> simr (live st) (maxtok st) r (run n e pd mk st).

Lemma seq_sim n (IH : IHn n) :
  forall es pd mk st r, okst st -> memo_ok st -> forallb expr_ok es = true -> Forall swok es ->
    flag_ok (ESeq es) pd mk st ->
    seq_ev (ev n) es (pos st) = Some r -> simr (live st) (maxtok st) r (seq_run (run n) es pd mk st).
Proof.
  induction es as [|e es IHes]; intros pd mk st r Hok Hm Hes Hsws Hfl H; cbn [seq_ev seq_run forallb] in *.
  - inv H. cbn [simr]. exists st. rewrite app_nil_r, Nat.add_0_r. pose proof (live_length st Hok). auto 10.
  - apply andb_true_iff in Hes as [He Hes]. pose proof (Forall_inv Hsws) as Hsw1; pose proof (Forall_inv_tail Hsws) as Hsw2.
    assert (Hfe : flag_ok e pd mk st).
    { intros Hpd. destruct (Hfl Hpd) as (c & Hc & Hch). exists c. split; [exact Hc|]. inv Hch. assumption. }
    destruct (ev n e (pos st)) as [[[|p1 f1] evs1]|] eqn:E; try discriminate.
    + inv H. specialize (IH e pd mk st _ Hok Hm He Hsw1 Hfe E). cbn [simr] in IH. destruct IH as (st' & R & IH).
      rewrite R. cbn [simr]. exists st'. auto.
    + specialize (IH e pd mk st _ Hok Hm He Hsw1 Hfe E). cbn [simr] in IH.
      destruct IH as (st1 & R & P1 & Ok1 & T1 & L1 & M1 & Mm1). rewrite R.
      destruct (seq_ev (ev n) es p1) as [r2|] eqn:E2; [|discriminate].
      rewrite <- P1 in E2. specialize (IHes false false st1 r2 Ok1 Mm1 Hes Hsw2 (flag_ok_false _ _ _) E2).
      assert (r = combine (Succ p1 f1, evs1) r2) as -> by (destruct r2 as [[|? ?] ?]; inv H; reflexivity).
      eapply simr_seq; eauto. apply Ok1.
Qed.

Lemma alt_sim n (IH : IHn n) :
  forall es st r, okst st -> memo_ok st -> forallb expr_ok es = true -> Forall swok es ->
    alt_ev (ev n) es (pos st) = Some r ->
    simr (live st) (maxtok st) r (alt_run (run n) es false false (pos st) (tix st) st).
Proof.
  induction es as [|e es IHes]; intros st r Hok Hm Hes Hsws H; cbn [alt_ev alt_run forallb] in *.
  - inv H. cbn [simr]. exists st. pose proof (live_length st Hok). destruct Hok. unfold live in *.
    split; [reflexivity|]. split; [lia|]. split; [rewrite H; reflexivity|]. auto.
  - apply andb_true_iff in Hes as [He Hes]. pose proof (Forall_inv Hsws) as Hsw1; pose proof (Forall_inv_tail Hsws) as Hsw2.
    destruct (ev n e (pos st)) as [[[|p1 f1] evs1]|] eqn:E; try discriminate.
    + specialize (IH e false false st _ Hok Hm He Hsw1 (flag_ok_false _ _ _) E). cbn [simr] in IH. destruct IH as (st1 & R & A & B & D & F). rewrite R.
      destruct es as [|e2 es].
      * inv H. cbn [simr]. exists st1. auto 10.
      * destruct (alt_ev (ev n) (e2 :: es) (pos st)) as [[r2 evs2]|] eqn:E2; [|discriminate]. inv H.
        destruct Hok as [Hp Ht].
        destruct (after_fail _ _ _ st1 (pos st) A B D F Hp) as (Ok1 & Mm1 & L1 & M1 & P1).
        pose proof (live_length st (conj Hp Ht)) as LL.
        rewrite LL in *. set (st1' := restore (pos st) (tix st) st1) in *.
        assert (E2' : alt_ev (ev n) (e2 :: es) (pos st1') = Some (r2, evs2)) by (rewrite P1; exact E2).
        specialize (IHes st1' _ Ok1 Mm1 Hes Hsw2 E2').
        rewrite L1, M1 in IHes. apply simr_prepend in IHes. cbn [fst snd] in IHes.
        replace (pos st1') with (pos st) in IHes by (symmetry; exact P1).
        replace (tix st1') with (tix st) in IHes by reflexivity. exact IHes.
    + inv H. specialize (IH e false false st _ Hok Hm He Hsw1 (flag_ok_false _ _ _) E). cbn [simr] in IH.
      destruct IH as (st1 & R & IH). rewrite R. cbn [simr]. exists st1. auto.
Qed.

Hypothesis Hbuf : forall c, In c buf -> c <> endSymbol.

Lemma term_sim oks okm (Hs : okm endSymbol = false) (Hagree : forall c, c <> endSymbol -> oks c = okm c) st :
  okst st -> memo_ok st ->
  simr (live st) (maxtok st) (term buf oks (pos st)) (Some (mterm buf okm st)).
Proof.
  intros Hok Hm. pose proof (live_length st Hok) as LL. destruct Hok as [Hp Ht].
  unfold term, mterm, rd, sbuf.
  destruct (nth_error buf (pos st)) as [c|] eqn:E.
  - rewrite nth_error_app1 by (apply nth_error_Some; congruence). rewrite E.
    rewrite <- (Hagree c) by (apply Hbuf; eapply nth_error_In; eauto).
    destruct (oks c).
    + cbn [simr]. exists (advance st). unfold okst, live, advance, set_pos, memo_ok in *; cbn.
      assert (pos st < length buf) by (apply nth_error_Some; congruence).
      rewrite app_nil_r, Nat.add_0_r. split; [reflexivity|]. split; [reflexivity|]. split; [split; lia|].
      split; [lia|]. auto.
    + cbn [simr]. exists st. unfold live in *. split; [reflexivity|]. split; [lia|]. split; [rewrite LL; reflexivity|]. auto.
  - apply nth_error_None in E. assert (pos st = length buf) by lia.
    rewrite nth_error_app2 by lia. replace (pos st - length buf) with 0 by lia. cbn [nth_error]. rewrite Hs.
    cbn [simr]. exists st. unfold live in *. split; [reflexivity|]. split; [lia|]. split; [rewrite LL; reflexivity|]. auto.
Qed.

(** success of a sub-expression followed by restore (lookahead) or failure followed by restore:
    the state is as before except for maxToken and the memo table *)
Lemma simr_succ_empty lv mt evs st' p0 :
  okst st' -> pos st' = p0 -> tix st' = length lv -> live st' = lv ->
  maxtok st' = fold_left upd_max evs mt -> memo_ok st' ->
  simr lv mt (Succ p0 [], evs) (Some (Ret true st')).
Proof.
  intros. cbn [simr]. exists st'. change (flat []) with (@nil tok). rewrite app_nil_r. cbn [length]. rewrite Nat.add_0_r. auto 10.
Qed.

Lemma simr_fail lv mt evs st' :
  length lv <= length (toks st') -> firstn (length lv) (toks st') = lv ->
  maxtok st' = fold_left upd_max evs mt -> memo_ok st' ->
  simr lv mt (Fail, evs) (Some (Ret false st')).
Proof. intros. cbn [simr]. exists st'. auto 10. Qed.

Lemma wrap_facts lv mt r p0 p' f evs st1 :
  pos st1 = p' -> okst st1 -> tix st1 = length lv + length (flat f) -> live st1 = lv ++ flat f ->
  maxtok st1 = fold_left upd_max evs mt -> memo_ok st1 ->
  let st2 := add o r p0 st1 in
  pos st2 = p' /\ okst st2 /\ tix st2 = length lv + length (flat [Node r p0 p' f]) /\
  live st2 = lv ++ flat [Node r p0 p' f] /\
  maxtok st2 = fold_left upd_max (evs ++ [(r, (p0, p'))]) mt /\ memo_ok st2.
Proof.
  intros P1 [Hp Ht] T1 L1 M1 Mm1. cbv zeta.
  destruct (add_facts r p0 st1 Ht) as (A & B & C & D & E & F).
  rewrite flat_node, app_length. cbn [length]. unfold okst, memo_ok.
  rewrite A, B, D, E, F, P1, L1, T1, M1, fold_left_app, app_assoc. cbn [fold_left].
  split; [reflexivity|]. split; [split; [lia|]|].
  - rewrite <- T1, <- B. exact C.
  - split; [lia|]. split; [reflexivity|]. split; [reflexivity|].
    eapply memo_okm_mono; [exact Mm1|]. rewrite M1. apply upd_max_end.
Qed.

Lemma name_shape m r p p' f evs :
  ev m (EName r) p = Some (Succ p' f, evs) ->
  exists kids, f = [Node r p p' kids] /\ In (r, (p, p')) evs.
Proof.
  destruct m as [|m]; [discriminate|]. cbn [peg_ev].
  destruct (nth_error g r) as [[b|k|]|]; try discriminate.
  - destruct (ev m b p) as [[[|p1 f1] evs1]|]; try discriminate. intros H; inv H.
    exists f1. split; [reflexivity|]. apply in_or_app. right. left. reflexivity.
  - intros H; inv H. exists []. split; [reflexivity|]. left. reflexivity.
Qed.

Lemma ipush_sim n (IH : IHn n) r pd mk st rr :
  okst st -> memo_ok st -> (pd = true -> o_inline o r = true) -> flag_ok (EName r) pd mk st ->
  ev (S n) (EName r) (pos st) = Some rr ->
  simr (live st) (maxtok st) rr (ipush_run g o (run n) r pd mk st).
Proof.
  intros Hok Hm Hinl Hfl H. pose proof (live_length st Hok) as LL.
  cbn [peg_ev] in H. unfold ipush_run.
  destruct (nth_error g r) as [[b|k|]|] eqn:Eg; try discriminate.
  - pose proof (Hg _ _ Eg) as Hb. pose proof (Hsw _ _ Eg) as Hswb.
    assert (Hfb : flag_ok b pd mk st).
    { intros Hpd. destruct (Hfl Hpd) as (c & Hc & Hch). exists c. split; [exact Hc|].
      inv Hch;
        first
        [ match goal with H1 : nth_error g r = Some (RBody ?b0), H2 : SkipCheck.chain _ _ ?b0 _ _ |- _ =>
            rewrite Eg in H1; inv H1; exact H2 end
        | match goal with H1 : forall b, nth_error g r <> Some (RBody b) |- _ => exfalso; exact (H1 _ Eg) end
        | match goal with H1 : o_inline o r = false |- _ => rewrite (Hinl eq_refl) in H1; discriminate end ]. }
    destruct (ev n b (pos st)) as [[[|p1 f1] evs1]|] eqn:E; try discriminate; inv H;
      specialize (IH b pd mk st _ Hok Hm Hb Hswb Hfb E); cbn [simr] in IH.
    + destruct IH as (st1 & R & IH). rewrite R. cbn [simr]. exists st1. auto.
    + destruct IH as (st1 & R & P1 & Ok1 & T1 & L1 & M1 & Mm1). rewrite R.
      destruct (wrap_facts _ _ r (pos st) _ _ _ st1 P1 Ok1 T1 L1 M1 Mm1) as (A & B & C & D & F & G).
      cbn [simr]. eexists. split; [reflexivity|]. auto 10.
  - inv H. rewrite Hast.
    assert (L0 : live st = live st ++ flat []) by (change (flat []) with (@nil tok); rewrite app_nil_r; reflexivity).
    assert (T0 : tix st = length (live st) + length (flat [])) by (change (flat []) with (@nil tok); cbn; lia).
    destruct (wrap_facts (live st) (maxtok st) r (pos st) (pos st) [] [] st eq_refl Hok T0 L0 eq_refl Hm) as (A & B & C & D & F & G).
    cbn [simr]. eexists. split; [reflexivity|]. auto 10.
Qed.

Lemma slice_live st lv x : live st = lv ++ x -> tix st = length lv + length x -> tix st <= length (toks st) ->
  slice (toks st) (length lv) (tix st) = x.
Proof.
  intros L T Hle. unfold slice. rewrite T. replace (length lv + length x - length lv) with (length x) by lia.
  unfold live in L. rewrite T in L. rewrite firstn_plus_app in L.
  assert (length (firstn (length lv) (toks st)) = length lv) by (apply firstn_length_le; lia).
  assert (firstn (length lv) (toks st) = lv /\ firstn (length x) (skipn (length lv) (toks st)) = x) as [_ E].
  { apply app_inj_len in L; auto. }
  exact E.
Qed.

Lemma lookup_cons mm r0 p0 e r p :
  lookup (((r0, p0), e) :: mm) r p = if ((r =? r0) && (p =? p0))%bool then Some e else lookup mm r p.
Proof. reflexivity. Qed.

Lemma memoize_facts r p t b st :
  let st' := memoize o r p t b st in
  pos st' = pos st /\ tix st' = tix st /\ toks st' = toks st /\ maxtok st' = maxtok st.
Proof. cbv zeta. unfold memoize. destruct (o_memo o); cbn; auto. Qed.

Lemma rule_fn_sim n (IH : IHn n) r st rr :
  okst st -> memo_ok st -> ev (S n) (EName r) (pos st) = Some rr ->
  simr (live st) (maxtok st) rr (rule_fn g o (run n) r st).
Proof.
  intros Hok Hm H. pose proof (live_length st Hok) as LL. pose proof Hok as [Hp Ht].
  unfold rule_fn. rewrite Hast.
  destruct (lookup (memo st) r (pos st)) as [m|] eqn:El.
  - (* memo hit *)
    destruct (Hm _ _ _ El) as (k & rs & evs & Hk & Habs & Hmm & Hb).
    pose proof (peg_ev_det _ _ _ _ _ _ _ _ _ _ Hk H) as <-.
    pose proof (absorbed_fold _ _ Habs) as Hfold.
    inv Hmm.
    + cbn [memoized]. apply simr_fail; auto; rewrite LL; [lia|reflexivity].
    + destruct (name_shape _ _ _ _ _ _ Hk) as (kids & -> & Hin).
      rewrite flat_node. cbn [memoized]. rewrite rev_snoc.
      destruct (Nat.ltb_spec (length (toks st)) (tix st)); [lia|].
      cbn [simr]. eexists. split; [reflexivity|]. cbn [pos tix toks maxtok memo tk_end tk_begin snd fst].
      unfold okst, live, memo_ok. cbn [pos tix toks maxtok memo].
      assert (Lf : length (firstn (tix st) (toks st)) = tix st) by (apply firstn_length_le; lia).
      rewrite <- flat_node. set (part := flat [Node r (pos st) p kids]).
      split; [reflexivity|]. split; [split; [exact Hb|rewrite app_length, Lf; lia]|].
      split; [rewrite Lf; reflexivity|].
      split.
      { rewrite <- Lf at 1. rewrite <- (app_length (firstn (tix st) (toks st)) part). rewrite firstn_all. reflexivity. }
      match goal with |- context [if ?c then _ else _] => assert (Hc : c = false) end.
      { destruct (Nat.eqb_spec (pos st) p) as [Eq|Ne]; [reflexivity|]. cbn [negb andb].
        specialize (Habs _ Hin Ne). cbn in Habs. destruct (Nat.ltb_spec (tk_end (maxtok st)) p); [lia|reflexivity]. }
      rewrite Hc. split; [symmetry; exact Hfold|]. exact Hm.
  - (* miss: run the body *)
    pose proof (ipush_sim n IH r false false st rr Hok Hm (fun Hx => ltac:(discriminate)) (flag_ok_false _ _ _) H) as S1.
    destruct rr as [[|p1 f1] evs1]; cbn [simr] in S1.
    + destruct S1 as (st1 & R & A & B & M1 & Mm1). rewrite R.
      destruct (memoize_facts r (pos st) (tix st) false st1) as (F1 & F2 & F3 & F4).
      apply simr_fail; cbn [restore toks maxtok memo]; rewrite ?F3, ?F4; auto.
      unfold memo_ok. cbn [restore memo maxtok]. rewrite F4.
      unfold memoize; destruct (o_memo o); [|exact Mm1]. cbn [memo].
      intros r' p' m'. rewrite lookup_cons.
      destruct ((r' =? r) && (p' =? pos st))%bool eqn:Ek; [|apply Mm1].
      apply andb_true_iff in Ek as [E1 E2]. apply Nat.eqb_eq in E1, E2. subst r' p'.
      intros Hs; inv Hs. exists (S n), Fail, evs1. split; [exact H|]. split; [rewrite M1; apply fold_upd_absorbs|].
      split; [constructor|exact I].
    + destruct S1 as (st1 & R & P1 & Ok1 & T1 & L1 & M1 & Mm1). rewrite R.
      destruct (memoize_facts r (pos st) (tix st) true st1) as (F1 & F2 & F3 & F4).
      cbn [simr]. eexists. split; [reflexivity|].
      unfold okst, live, memo_ok in *. rewrite F1, F2, F3, F4.
      subst p1.
      split; [reflexivity|]. split; [exact Ok1|]. split; [exact T1|]. split; [exact L1|]. split; [exact M1|].
      unfold memoize; destruct (o_memo o); [|exact Mm1]. cbn [memo].
      intros r' p' m'. rewrite lookup_cons.
      destruct ((r' =? r) && (p' =? pos st))%bool eqn:Ek; [|apply Mm1].
      apply andb_true_iff in Ek as [E1 E2]. apply Nat.eqb_eq in E1, E2. subst r' p'.
      intros Hs; inv Hs. exists (S n), (Succ (pos st1) f1), evs1. split; [exact H|]. split; [rewrite M1; apply fold_upd_absorbs|].
      split; [|apply Ok1].
      rewrite <- LL. rewrite (slice_live st1 (firstn (tix st) (toks st)) (flat f1)); [constructor|exact L1|exact T1|apply Ok1].
Qed.

Lemma call_sim n (IH : IHn n) r st rr :
  okst st -> memo_ok st -> ev (S n) (EName r) (pos st) = Some rr ->
  simr (live st) (maxtok st) rr (call_run g o (run n) r st).
Proof.
  intros Hok Hm H. pose proof (rule_fn_sim n IH r st rr Hok Hm H) as S1. unfold call_run.
  destruct (o_asu o r) eqn:Ea; [|exact S1].
  destruct rr as [[|p1 f1] evs1].
  - exfalso. eapply Hasu; eauto.
  - cbn [simr] in S1. destruct S1 as (st1 & R & S1). rewrite R. cbn [simr]. exists st1. auto.
Qed.

Lemma find_case_keys_spec cs c keys e1 :
  find_case_keys cs c = Some (keys, e1) -> In (keys, e1) cs /\ In c keys.
Proof.
  induction cs as [|[k x] cs IH]; cbn [find_case_keys]; [discriminate|].
  destruct (existsb (Z.eqb c) k) eqn:E.
  - intros H; inv H. split; [left; reflexivity|]. apply existsb_exists in E as (y & Hy & Ey). apply Z.eqb_eq in Ey. subst. exact Hy.
  - intros H. destruct (IH H). split; [right|]; auto.
Qed.

Lemma find_case_keys_end cs :
  forallb (fun c => forallb (fun k => Z.ltb k endSymbol) (fst c) && expr_ok (snd c)) cs = true ->
  find_case_keys cs endSymbol = None.
Proof.
  induction cs as [|[k x] cs IH]; cbn [find_case_keys forallb]; intros H; [reflexivity|].
  apply andb_true_iff in H as [H1 H2]. cbn [fst snd] in H1. apply andb_true_iff in H1 as [Hk _].
  destruct (existsb (Z.eqb endSymbol) k) eqn:E; [|auto].
  apply existsb_exists in E as (y & Hy & Ey). apply Z.eqb_eq in Ey. subst y.
  rewrite forallb_forall in Hk. specialize (Hk _ Hy). apply Z.ltb_lt in Hk. lia.
Qed.

Lemma swok_switch_case cs d keys e1 c :
  swok (ESwitch cs d) -> In (keys, e1) cs -> In c keys -> swok e1 /\ chain e1 (Nat.ltb 1 (length keys)) c.
Proof.
  cbn [SkipCheck.swok]. intros [_ H] Hin Hc. induction cs as [|[k x] cs IH]; [destruct Hin|].
  destruct H as [[H1 H2] H3]. destruct Hin as [E|Hin]; [inv E; auto|auto].
Qed.

Theorem sim n : IHn n.
Proof.
  induction n as [|n IH]; intros e pd mk st r Hok Hm He Hswe Hfl H; [discriminate|].
  pose proof (live_length st Hok) as LL. pose proof Hok as [Hp Ht].
  destruct e; cbn [expr_ok] in He; try discriminate; cbn [peg_ev] in H; cbn [run_f andb negb].
  - (* EDot *) destruct pd.
    + destruct (Hfl eq_refl) as (c & _ & Hch). inv Hch.
    + inv H. apply term_sim; auto.
      intros c Hc. destruct (Z.eqb_spec c endSymbol); [contradiction|reflexivity].
  - (* EChar *) apply Z.ltb_lt in He.
    destruct pd; [destruct mk|]; cbn [andb negb].
    + inv H. apply term_sim; auto. destruct (Z.eqb_spec c endSymbol); [lia|reflexivity].
    + (* the test is skipped: the guard has established the character *)
      destruct (Hfl eq_refl) as (c0 & Hc0 & Hch). inv Hch. inv H. unfold term. rewrite Hc0, Z.eqb_refl.
      cbn [simr]. exists (advance st). unfold okst, live, advance, set_pos, memo_ok in *; cbn.
      assert (pos st < length buf) by (apply nth_error_Some; congruence).
      rewrite app_nil_r, Nat.add_0_r. split; [reflexivity|]. split; [reflexivity|]. split; [split; lia|]. split; [lia|]. auto.
    + inv H. apply term_sim; auto. destruct (Z.eqb_spec c endSymbol); [lia|reflexivity].
  - (* ERange *) apply Z.ltb_lt in He. destruct pd.
    + destruct (Hfl eq_refl) as (c0 & Hc0 & Hch). inv Hch. inv H. unfold term. rewrite Hc0.
      match goal with Hr : in_range lo hi c0 = true |- _ => rewrite Hr end.
      cbn [simr]. exists (advance st). unfold okst, live, advance, set_pos, memo_ok in *; cbn.
      assert (pos st < length buf) by (apply nth_error_Some; congruence).
      rewrite app_nil_r, Nat.add_0_r. split; [reflexivity|]. split; [reflexivity|]. split; [split; lia|]. split; [lia|]. auto.
    + inv H. apply term_sim; auto. unfold in_range. destruct (Z.leb_spec endSymbol hi); [lia|]. rewrite andb_false_r. reflexivity.
  - (* EName *)
    assert (H' : ev (S n) (EName r0) (pos st) = Some r) by exact H.
    destruct (o_inline o r0) eqn:Einl; [apply ipush_sim | apply call_sim]; auto.
  - (* EPred *) inv H. destruct (penv k (pos st)).
    + apply simr_succ_empty; auto.
    + apply simr_fail; auto; rewrite LL; [lia|reflexivity].
  - (* EState *) inv H. apply simr_succ_empty; auto.
  - (* EAct *) inv H. apply simr_succ_empty; auto.
  - (* ENil *) inv H. apply simr_succ_empty; auto.
  - (* ESeq *) apply seq_sim; auto. apply swok_seq. exact Hswe.
  - (* EAlt *) apply alt_sim; auto. apply swok_alt. exact Hswe.
  - (* EAnd *)
    destruct (ev n e (pos st)) as [[[|p1 f1] evs1]|] eqn:E; try discriminate; inv H;
      specialize (IH e false false st _ Hok Hm He Hswe (flag_ok_false _ _ _) E); cbn [simr] in IH.
    + destruct IH as (st1 & R & IH). rewrite R. cbn [simr]. exists st1. auto.
    + destruct IH as (st1 & R & P1 & Ok1 & T1 & L1 & M1 & Mm1). rewrite R.
      destruct (succ_frame _ _ _ L1 T1 (proj2 Ok1)) as [A B].
      destruct (after_fail _ _ _ st1 (pos st) A B M1 Mm1 Hp) as (Ok' & Mm' & L' & M' & P').
      rewrite LL in *. apply simr_succ_empty; auto; try (rewrite LL; reflexivity).
  - (* ENot *)
    destruct (ev n e (pos st)) as [[[|p1 f1] evs1]|] eqn:E; try discriminate; inv H;
      specialize (IH e false false st _ Hok Hm He Hswe (flag_ok_false _ _ _) E); cbn [simr] in IH.
    + destruct IH as (st1 & R & A & B & M1 & Mm1). rewrite R.
      destruct (after_fail _ _ _ st1 (pos st) A B M1 Mm1 Hp) as (Ok' & Mm' & L' & M' & P').
      rewrite LL in *. apply simr_succ_empty; auto; try (rewrite LL; reflexivity).
    + destruct IH as (st1 & R & P1 & Ok1 & T1 & L1 & M1 & Mm1). rewrite R.
      destruct (succ_frame _ _ _ L1 T1 (proj2 Ok1)) as [A B]. apply simr_fail; auto.
  - (* EQuery *)
    destruct (ev n e (pos st)) as [[[|p1 f1] evs1]|] eqn:E; try discriminate; inv H;
      specialize (IH e false false st _ Hok Hm He Hswe (flag_ok_false _ _ _) E); cbn [simr] in IH.
    + destruct IH as (st1 & R & A & B & M1 & Mm1). rewrite R.
      destruct (after_fail _ _ _ st1 (pos st) A B M1 Mm1 Hp) as (Ok' & Mm' & L' & M' & P').
      rewrite LL in *. apply simr_succ_empty; auto; try (rewrite LL; reflexivity).
    + destruct IH as (st1 & R & IH). rewrite R. cbn [simr]. exists st1. auto.
  - (* EStar *)
    destruct (ev n e (pos st)) as [[[|p1 f1] evs1]|] eqn:E; try discriminate;
      pose proof (IH e false false st _ Hok Hm He Hswe (flag_ok_false _ _ _) E) as IH1; cbn [simr] in IH1.
    + inv H. destruct IH1 as (st1 & R & A & B & M1 & Mm1). rewrite R.
      destruct (after_fail _ _ _ st1 (pos st) A B M1 Mm1 Hp) as (Ok' & Mm' & L' & M' & P').
      rewrite LL in *. apply simr_succ_empty; auto; try (rewrite LL; reflexivity).
    + destruct IH1 as (st1 & R & P1 & Ok1 & T1 & L1 & M1 & Mm1). rewrite R.
      destruct (ev n (EStar e) p1) as [r2|] eqn:E2; [|discriminate].
      rewrite <- P1 in E2. pose proof (IH (EStar e) false false st1 r2 Ok1 Mm1 He Hswe (flag_ok_false _ _ _) E2) as IH2.
      assert (r = combine (Succ p1 f1, evs1) r2) as -> by (destruct r2 as [[|? ?] ?]; inv H; reflexivity).
      eapply simr_seq; eauto. apply Ok1.
  - (* EPlus *)
    destruct (ev n e (pos st)) as [[[|p1 f1] evs1]|] eqn:E; try discriminate;
      pose proof (IH e false false st _ Hok Hm He Hswe (flag_ok_false _ _ _) E) as IH1; cbn [simr] in IH1.
    + inv H. destruct IH1 as (st1 & R & IH1). rewrite R. cbn [simr]. exists st1. auto.
    + destruct IH1 as (st1 & R & P1 & Ok1 & T1 & L1 & M1 & Mm1). rewrite R.
      destruct (ev n (EStar e) p1) as [r2|] eqn:E2; [|discriminate].
      rewrite <- P1 in E2. pose proof (IH (EStar e) false false st1 r2 Ok1 Mm1 He Hswe (flag_ok_false _ _ _) E2) as IH2.
      assert (r = combine (Succ p1 f1, evs1) r2) as -> by (destruct r2 as [[|? ?] ?]; inv H; reflexivity).
      eapply simr_seq; eauto. apply Ok1.
  - (* EPush *)
    assert (Hfe : flag_ok e pd mk st).
    { intros Hpd. destruct (Hfl Hpd) as (c & Hc & Hch). exists c. split; [exact Hc|]. inv Hch. assumption. }
    destruct (ev n e (pos st)) as [[[|p1 f1] evs1]|] eqn:E; try discriminate; inv H;
      specialize (IH e pd mk st _ Hok Hm He Hswe Hfe E); cbn [simr] in IH.
    + destruct IH as (st1 & R & IH). rewrite R. cbn [simr]. exists st1. auto.
    + destruct IH as (st1 & R & P1 & Ok1 & T1 & L1 & M1 & Mm1). rewrite R, Hast.
      destruct (wrap_facts _ _ ptx (pos st) _ _ _ st1 P1 Ok1 T1 L1 M1 Mm1) as (A & B & C & D & F & G).
      cbn [simr]. eexists. split; [reflexivity|]. auto 10.
  - (* ESwitch *)
    apply andb_true_iff in He as [Hec Hed].
    assert (Hswd : swok e) by (cbn [SkipCheck.swok] in Hswe; apply Hswe).
    unfold rd, sbuf.
    destruct (nth_error buf (pos st)) as [c|] eqn:Ec.
    + rewrite nth_error_app1 by (apply nth_error_Some; congruence). rewrite Ec.
      unfold find_case in H. destruct (find_case_keys cs c) as [[keys e1]|] eqn:Ef; cbn [option_map snd] in H.
      * destruct (find_case_keys_spec _ _ _ _ Ef) as [Hin Hck].
        destruct (swok_switch_case _ _ _ _ _ Hswe Hin Hck) as [Hsw1 Hch1].
        assert (He1 : expr_ok e1 = true).
        { rewrite forallb_forall in Hec. specialize (Hec _ Hin). cbn [fst snd] in Hec. apply andb_true_iff in Hec as [_ X]. exact X. }
        apply IH; auto. intros _. exists c. auto.
      * apply IH; auto. apply flag_ok_false.
    + apply nth_error_None in Ec. assert (pos st = length buf) by lia.
      rewrite nth_error_app2 by lia. replace (pos st - length buf) with 0 by lia. cbn [nth_error].
      rewrite (find_case_keys_end _ Hec). apply IH; auto. apply flag_ok_false.
Qed.

End Sim.
