(** C10: the builder calls made for any well-formed surface expression leave exactly one node on the
    stack, whatever was below (stack discipline); escape decoding is exact. *)
From PegV Require Import Base.Tac Spec.Syntax Model.Front.
Open Scope Z_scope.

Section SxInd.
Variable P : sx -> Prop.
Hypothesis H0 : P XDot.
Hypothesis H1 : forall n, P (XName n).
Hypothesis H2 : forall k, P (XAct k).
Hypothesis H3 : forall k, P (XPred k).
Hypothesis H4 : forall k, P (XState k).
Hypothesis H5 : P XNil.
Hypothesis H6 : forall cs, P (XLit cs).
Hypothesis H7 : forall cs, P (XILit cs).
Hypothesis H8 : forall a b items, P (XClass a b items).
Hypothesis H9 : forall l, Forall P l -> P (XSeq l).
Hypothesis H10 : forall l t, Forall P l -> P (XAlt l t).
Hypothesis H11 : forall e, P e -> P (XAnd e).
Hypothesis H12 : forall e, P e -> P (XNot e).
Hypothesis H13 : forall e, P e -> P (XQuery e).
Hypothesis H14 : forall e, P e -> P (XStar e).
Hypothesis H15 : forall e, P e -> P (XPlus e).
Hypothesis H16 : forall e, P e -> P (XPush e).
Hypothesis H17 : forall e, P e -> P (XGroup e).
Fixpoint sx_ind2 (t : sx) : P t :=
  match t with
  | XDot => H0 | XName n => H1 n | XAct k => H2 k | XPred k => H3 k | XState k => H4 k | XNil => H5
  | XLit cs => H6 cs | XILit cs => H7 cs | XClass a b items => H8 a b items
  | XSeq l => H9 l ((fix go (l : list sx) : Forall P l := match l with [] => Forall_nil P | x :: l' => Forall_cons x (sx_ind2 x) (go l') end) l)
  | XAlt l t => H10 l t ((fix go (l : list sx) : Forall P l := match l with [] => Forall_nil P | x :: l' => Forall_cons x (sx_ind2 x) (go l') end) l)
  | XAnd e => H11 e (sx_ind2 e) | XNot e => H12 e (sx_ind2 e) | XQuery e => H13 e (sx_ind2 e)
  | XStar e => H14 e (sx_ind2 e) | XPlus e => H15 e (sx_ind2 e) | XPush e => H16 e (sx_ind2 e) | XGroup e => H17 e (sx_ind2 e)
  end.
End SxInd.

(** "these calls push exactly one node, the same whatever is below" *)
Definition pushes1 (ops : list bop) : Prop := exists e, forall stk, brun ops stk = Some (e :: stk).
(** ... and that node is a character (needed by the range builders) *)
Definition pushes_char (ops : list bop) : Prop := exists c, forall stk, brun ops stk = Some (EChar c :: stk).

Lemma brun_app a b stk : brun (a ++ b) stk = match brun a stk with Some s => brun b s | None => None end.
Proof. revert stk; induction a as [|o a IH]; intros stk; cbn [app brun]; [reflexivity|]. destruct (bstep stk o); auto. Qed.

Lemma char_ops_char c : pushes_char (char_ops c).
Proof. destruct c; cbn [char_ops]; eexists; intros stk; reflexivity. Qed.
Lemma pushes_char_1 ops : pushes_char ops -> pushes1 ops.
Proof. intros (c & H). exists (EChar c). exact H. Qed.
Lemma dchar_ops_1 c : pushes1 (dchar_ops c).
Proof.
  destruct c as [v| |]; cbn [dchar_ops]; [destruct (is_letter v)|..]; try (eexists; intros stk; reflexivity).
Qed.

Lemma chain_pushes1 op parts :
  (op = BSequence \/ op = BAlternate) -> parts <> [] -> Forall pushes1 parts -> pushes1 (chain_ops op parts).
Proof.
  intros Hop Hne Hall. destruct parts as [|p ps]; [contradiction|]. cbn [chain_ops].
  pose proof (Forall_inv Hall) as Hp. pose proof (Forall_inv_tail Hall) as Hps. clear Hall Hne.
  revert p Hp. induction ps as [|q ps IH]; intros p Hp; cbn [flat_map].
  - rewrite app_nil_r. exact Hp.
  - pose proof (Forall_inv Hps) as Hq. pose proof (Forall_inv_tail Hps) as Hps'.
    destruct Hp as (e1 & E1). destruct Hq as (e2 & E2).
    assert (Hpq : pushes1 (p ++ q ++ [op])).
    { destruct Hop as [-> | ->]; eexists; intros stk; rewrite brun_app, E1, brun_app, E2; cbn [brun bstep]; reflexivity. }
    specialize (IH Hps' (p ++ q ++ [op]) Hpq). rewrite <- !app_assoc in IH. rewrite <- app_assoc. exact IH.
Qed.

Lemma item_ops_1 insens i : pushes1 (item_ops insens i).
Proof.
  destruct i as [c|lo hi]; cbn [item_ops].
  - destruct insens; [apply dchar_ops_1|apply pushes_char_1, char_ops_char].
  - destruct (char_ops_char lo) as (a & Ea). destruct (char_ops_char hi) as (b & Eb).
    destruct insens; eexists; intros stk; rewrite brun_app, Ea, brun_app, Eb; cbn [brun bstep]; reflexivity.
Qed.

Lemma pushes1_snoc ops o : pushes1 ops -> In o [BPeekFor; BPeekNot; BQuery; BStar; BPlus; BPush] -> pushes1 (ops ++ [o]).
Proof.
  intros (e & E) Hin. cbn [In] in Hin.
  destruct Hin as [<-|[<-|[<-|[<-|[<-|[<-|[]]]]]]]; eexists; intros stk; rewrite brun_app, E; cbn [brun bstep]; reflexivity.
Qed.

Theorem builder_stack_discipline t : sx_ok t = true -> pushes1 (ops_of t).
Proof.
  induction t using sx_ind2; cbn [sx_ok ops_of]; intros Hok; try (eexists; intros stk; reflexivity).
  - (* XLit *) destruct cs as [|c cs]; [eexists; intros stk; reflexivity|]. apply chain_pushes1; auto; [discriminate|].
    apply Forall_forall. intros p Hp. apply in_map_iff in Hp as (x & <- & _). apply pushes_char_1, char_ops_char.
  - (* XILit *) destruct cs as [|c cs]; [eexists; intros stk; reflexivity|]. apply chain_pushes1; auto; [discriminate|].
    apply Forall_forall. intros p Hp. apply in_map_iff in Hp as (x & <- & _). apply dchar_ops_1.
  - (* XClass *) destruct items as [|i items]; [destruct a; [discriminate|eexists; intros stk; reflexivity]|].
    assert (Hc : pushes1 (chain_ops BAlternate (map (item_ops b) (i :: items)))).
    { apply chain_pushes1; auto; [discriminate|]. apply Forall_forall. intros p Hp. apply in_map_iff in Hp as (x & <- & _). apply item_ops_1. }
    destruct a; [|rewrite app_nil_r; exact Hc].
    destruct Hc as (e & E). eexists. intros stk. rewrite brun_app, E. cbn [brun bstep add_list_seq]. reflexivity.
  - (* XSeq *) destruct l as [|x l]; [discriminate|]. apply andb_true_iff in Hok as [_ Hok].
    apply chain_pushes1; auto; [discriminate|].
    rewrite forallb_forall in Hok. rewrite Forall_forall in H. apply Forall_forall. intros p Hp.
    apply in_map_iff in Hp as (y & <- & Hy). apply H; auto.
  - (* XAlt *) destruct l as [|x l]; [discriminate|]. apply andb_true_iff in Hok as [_ Hok].
    assert (Hc : pushes1 (chain_ops BAlternate (map ops_of (x :: l)))).
    { apply chain_pushes1; auto; [discriminate|].
      rewrite forallb_forall in Hok. rewrite Forall_forall in H. apply Forall_forall. intros p Hp.
      apply in_map_iff in Hp as (y & <- & Hy). apply H; auto. }
    destruct t; [|rewrite app_nil_r; exact Hc].
    destruct Hc as (e & E). eexists. intros stk. rewrite brun_app, E. cbn [brun bstep]. reflexivity.
  - apply pushes1_snoc; auto. cbn; auto.
  - apply pushes1_snoc; auto. cbn; auto.
  - apply pushes1_snoc; auto. cbn; auto 10.
  - apply pushes1_snoc; auto. cbn; auto 10.
  - apply pushes1_snoc; auto. cbn; auto 10.
  - apply pushes1_snoc; auto. cbn; auto 10.
  - auto.
Qed.

Corollary elab_defined t : sx_ok t = true -> exists e, elab t = Some e.
Proof. intros H. destruct (builder_stack_discipline t H) as (e & E). exists e. unfold elab. rewrite E. reflexivity. Qed.

(** * escape table *)
Definition valid_scalar (v : Z) : Prop := 0 <= v <= 1114111 /\ ~ (55296 <= v <= 57343).

Lemma digits_value_nonneg base ds : 0 <= base -> Forall (fun d => 0 <= d) ds -> forall a, 0 <= a -> 0 <= fold_left (fun a d => a * base + d) ds a.
Proof. intros Hb H. induction H as [|d ds Hd Hds IH]; intros a Ha; cbn [fold_left]; [exact Ha|]. apply IH. nia. Qed.

(** \0x hex: every spelling whose value is a Unicode scalar value denotes exactly that code point *)
Theorem hex_exact ds : valid_scalar (digits_value 16 ds) -> add_hexa ds = digits_value 16 ds.
Proof.
  intros [[H0 H1] Hs]. unfold add_hexa, parse_int, to_rune.
  replace (2 ^ (32 - 1) - 1) with 2147483647 by reflexivity. rewrite Z.min_l by lia.
  destruct (Z.leb_spec 0 (digits_value 16 ds)); [|lia]. destruct (Z.leb_spec (digits_value 16 ds) 1114111); [|lia].
  cbn [andb]. destruct (Z.leb_spec 55296 (digits_value 16 ds)); destruct (Z.leb_spec (digits_value 16 ds) 57343); cbn [andb negb]; try reflexivity. lia.
Qed.

(** octal: all of \0 .. \377 in the one-, two- and three-digit spellings the grammar accepts *)
Definition octal_spellings : list (list Z) :=
  map (fun a => [a]) (map Z.of_nat (seq 0 8)) ++
  flat_map (fun a => map (fun b => [a; b]) (map Z.of_nat (seq 0 8))) (map Z.of_nat (seq 0 8)) ++
  flat_map (fun a => flat_map (fun b => map (fun c => [a; b; c]) (map Z.of_nat (seq 0 8))) (map Z.of_nat (seq 0 8))) (map Z.of_nat (seq 0 4)).

Theorem octal_exact : forallb (fun ds => Z.eqb (add_octal ds) (digits_value 8 ds)) octal_spellings = true.
Proof. vm_compute. reflexivity. Qed.
