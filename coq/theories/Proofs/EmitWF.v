(** What the Go compiler demands of the label / block skeleton of an emitted rule function
    (Model/Emit.v), and the proof that [emit] meets it for every expression:
    - label numbers stay in the range the call allocated; jumps go to that range or to the failure label;
    - a label is declared at most once;
    - every goto has its label in scope: declared directly in the statement list the goto is in, or in an
      enclosing one (Go: "goto outside a block cannot jump to a label inside it");
    - the flag [emit] returns is exact: it is true iff the last thing printed is a label (which is what
      puts a break before the next case clause, where Go wants a statement after a label);
    - variables are declared at the head of their block, so no goto jumps over a declaration. *)
From PegV Require Import Base.Tac Spec.Syntax Model.Analyses Model.Emit.
Local Open Scope nat_scope.

(** * induction on code *)
Section CodeInd.
Variable P : code -> Prop.
Hypothesis HSt : P KSt.
Hypothesis HLbl : forall n, P (KLbl n).
Hypothesis HJmp : forall n, P (KJmp n).
Hypothesis HCJmp : forall n, P (KCJmp n).
Hypothesis HSave : forall n, P (KSave n).
Hypothesis HRestore : forall n, P (KRestore n).
Hypothesis HSaveP : forall n, P (KSaveP n).
Hypothesis HUseP : forall n, P (KUseP n).
Hypothesis HBrk : P KBrk.
Hypothesis HBlock : forall b, Forall P b -> P (KBlock b).
Hypothesis HSwitch : forall cs d, Forall (Forall P) cs -> Forall P d -> P (KSwitch cs d).

Fixpoint code_ind2 (x : code) : P x :=
  match x with
  | KSt => HSt | KLbl n => HLbl n | KJmp n => HJmp n | KCJmp n => HCJmp n
  | KSave n => HSave n | KRestore n => HRestore n | KSaveP n => HSaveP n | KUseP n => HUseP n | KBrk => HBrk
  | KBlock b => HBlock b ((fix go (l : list code) : Forall P l := match l with [] => Forall_nil _ | y :: l' => Forall_cons _ (code_ind2 y) (go l') end) b)
  | KSwitch cs d =>
      HSwitch cs d
        ((fix goo (ll : list (list code)) : Forall (Forall P) ll :=
            match ll with
            | [] => Forall_nil _
            | k :: ll' => Forall_cons _ ((fix go (l : list code) : Forall P l := match l with [] => Forall_nil _ | y :: l' => Forall_cons _ (code_ind2 y) (go l') end) k) (goo ll')
            end) cs)
        ((fix go (l : list code) : Forall P l := match l with [] => Forall_nil _ | y :: l' => Forall_cons _ (code_ind2 y) (go l') end) d)
  end.
End CodeInd.

(** * the rules *)
Definition dlbl1 (x : code) : list nat := match x with KLbl n => [n] | _ => [] end.
Definition dlbls (c : list code) : list nat := flat_map dlbl1 c.

Fixpoint lbls1 (x : code) : list nat :=
  match x with
  | KLbl n => [n]
  | KBlock b => flat_map lbls1 b
  | KSwitch cs d => flat_map (flat_map lbls1) cs ++ flat_map lbls1 d
  | _ => []
  end.
Definition lbls (c : list code) : list nat := flat_map lbls1 c.

(** every goto's label is declared in the statement list it is in or in an enclosing one *)
Fixpoint scoped1 (sc : list nat) (x : code) : bool :=
  match x with
  | KJmp n | KCJmp n => memb n sc
  | KBlock b => forallb (scoped1 (dlbls b ++ sc)) b
  | KSwitch cs d => forallb (fun k => forallb (scoped1 (dlbls k ++ sc)) k) cs && forallb (scoped1 (dlbls d ++ sc)) d
  | _ => true
  end.
Definition scoped (sc : list nat) (c : list code) : bool := forallb (scoped1 (dlbls c ++ sc)) c.

(** declarations stand at the head of their statement list (after plain statements at most) *)
Definition is_decl (x : code) : bool := match x with KSave _ | KSaveP _ => true | _ => false end.
Definition is_st (x : code) : bool := match x with KSt => true | _ => false end.
Fixpoint drop_while {A} (f : A -> bool) (l : list A) : list A :=
  match l with [] => [] | x :: l' => if f x then drop_while f l' else l end.
Definition head_decls (c : list code) : bool :=
  forallb (fun x => negb (is_decl x)) (drop_while is_decl (drop_while is_st c)).
Fixpoint decl1 (x : code) : bool :=
  match x with
  | KBlock b => head_decls b && forallb decl1 b
  | KSwitch cs d => forallb (fun k => forallb (fun y => negb (is_decl y)) k && forallb decl1 k) cs
                    && forallb (fun y => negb (is_decl y)) d && forallb decl1 d
  | _ => true
  end.

(** no label directly before a case clause *)
Definition ends_lbl (c : list code) : bool := match rev c with KLbl _ :: _ => true | _ => false end.
Fixpoint cases1 (x : code) : bool :=
  match x with
  | KBlock b => forallb cases1 b
  | KSwitch cs d => forallb (fun k => negb (ends_lbl k) && forallb cases1 k) cs && forallb cases1 d
  | _ => true
  end.

(** * basic facts *)
Lemma memb_in x l : memb x l = true <-> In x l.
Proof.
  unfold memb. rewrite existsb_exists. split.
  - intros (y & Hy & E). apply Nat.eqb_eq in E. subst. exact Hy.
  - intros H. exists x. split; [exact H|apply Nat.eqb_refl].
Qed.

Lemma in_flat_map_intro {A B} (f : A -> list B) l x y : In x l -> In y (f x) -> In y (flat_map f l).
Proof. intros. apply in_flat_map. exists x. auto. Qed.

(** only the labels that are actually jumped to matter *)
Lemma scoped1_mono x : forall sc sc', (forall n, In n (jumps1 x) -> In n sc -> In n sc') -> scoped1 sc x = true -> scoped1 sc' x = true.
Proof.
  induction x using code_ind2; intros sc sc' Hi Hs; cbn [scoped1 jumps1] in *; auto.
  - apply memb_in. apply Hi; [left; reflexivity|]. apply memb_in. exact Hs.
  - apply memb_in. apply Hi; [left; reflexivity|]. apply memb_in. exact Hs.
  - rewrite forallb_forall in *. intros y Hy. rewrite Forall_forall in H.
    eapply H; [exact Hy| |apply Hs; exact Hy]. intros n Hj Hn. apply in_app_or in Hn as [Hn|Hn]; apply in_or_app; [left; exact Hn|right].
    apply Hi; [eapply in_flat_map_intro; eauto|exact Hn].
  - apply andb_true_iff in Hs as [H1 H2]. apply andb_true_iff. split.
    + rewrite forallb_forall in *. intros k Hk. specialize (H1 k Hk). rewrite forallb_forall in *. intros y Hy.
      rewrite Forall_forall in H. specialize (H k Hk). rewrite Forall_forall in H.
      eapply H; [exact Hy| |apply H1; exact Hy]. intros n Hj Hn. apply in_app_or in Hn as [Hn|Hn]; apply in_or_app; [left; exact Hn|right].
      apply Hi; [|exact Hn]. apply in_or_app. left. eapply in_flat_map_intro; [exact Hk|]. eapply in_flat_map_intro; eauto.
    + rewrite forallb_forall in *. intros y Hy. rewrite Forall_forall in H0.
      eapply H0; [exact Hy| |apply H2; exact Hy]. intros n Hj Hn. apply in_app_or in Hn as [Hn|Hn]; apply in_or_app; [left; exact Hn|right].
      apply Hi; [|exact Hn]. apply in_or_app. right. eapply in_flat_map_intro; eauto.
Qed.

Lemma dlbls_app a b : dlbls (a ++ b) = dlbls a ++ dlbls b.
Proof. unfold dlbls. apply flat_map_app. Qed.
Lemma lbls_app a b : lbls (a ++ b) = lbls a ++ lbls b.
Proof. unfold lbls. apply flat_map_app. Qed.
Lemma jumps_app a b : jumps (a ++ b) = jumps a ++ jumps b.
Proof. unfold jumps. apply flat_map_app. Qed.

(** fragments compose: a list is scoped when its parts are, each seeing the other's labels *)
Lemma scoped_app sc a b : scoped (dlbls b ++ sc) a = true -> scoped (dlbls a ++ sc) b = true -> scoped sc (a ++ b) = true.
Proof.
  unfold scoped. intros Ha Hb. rewrite forallb_app, dlbls_app. apply andb_true_iff. split.
  - rewrite forallb_forall in *. intros x Hx. eapply scoped1_mono; [|apply Ha; exact Hx].
    intros n _ Hn. rewrite !in_app_iff in *. tauto.
  - rewrite forallb_forall in *. intros x Hx. eapply scoped1_mono; [|apply Hb; exact Hx].
    intros n _ Hn. rewrite !in_app_iff in *. tauto.
Qed.

Lemma scoped_mono sc sc' c : (forall n, In n (jumps c) -> In n sc -> In n sc') -> scoped sc c = true -> scoped sc' c = true.
Proof.
  unfold scoped. intros Hi H. rewrite forallb_forall in *. intros x Hx. eapply scoped1_mono; [|apply H; exact Hx].
  intros n Hj Hn. rewrite !in_app_iff in *. destruct Hn as [Hn|Hn]; [left; exact Hn|right]. apply Hi; [|exact Hn].
  unfold jumps. eapply in_flat_map_intro; eauto.
Qed.

(** * the shape of everything [emit] can produce, as a relation (no fuel, no grammar) *)
Section Shape.
Variable ast : bool.
Variable used : nat -> bool.
Notation lbl_if := (lbl_if used).

Definition brk (ll : bool) : list code := if ll then [KBrk] else [].

(** [Em ko l c l' ll]: code c, failing to label ko, allocating the labels l .. l'-1 *)
Inductive Em : nat -> nat -> list code -> nat -> bool -> Prop :=
| em_nil ko l : Em ko l [] l false
| em_cjmp ko l : Em ko l [KCJmp ko] l false
| em_st ko l : Em ko l [KSt] l false
| em_cjmp_st ko l : Em ko l [KCJmp ko; KSt] l false
| em_seq ko l a l1 lla b l2 llb :
    Em ko l a l1 lla -> Em ko l1 b l2 llb -> Em ko l (a ++ b) l2 (match b with [] => lla | _ => llb end)
| em_ipush ko l c l1 ll : Em ko (S l) c l1 ll -> Em ko l [KBlock (KSaveP l :: c ++ [KUseP l])] l1 false
| em_iact ko l : Em ko l [KBlock [KSt]] (S l) false
| em_iundef ko l : Em ko l [KBlock [KSaveP l; KUseP l]] (S l) false
| em_alt ko ok c l1 : AltEm ko ok (S ok) c l1 -> Em ko ok ([KBlock (KSave ok :: c)] ++ lbl_if ok) l1 (used ok)
| em_switch ko ok cls l1 cd l2 lld :
    CasesEm ko (S ok) cls l1 -> Em ko l1 cd l2 lld ->
    Em ko ok ([KBlock [KSwitch cls (cd ++ brk lld)]] ++ lbl_if ok) l2 (used ok)
| em_and ko ok c l1 ll : Em ko (S ok) c l1 ll -> Em ko ok [KBlock (KSave ok :: c ++ [KRestore ok])] l1 false
| em_not ko ok c l1 ll : Em ok (S ok) c l1 ll -> Em ko ok [KBlock (KSave ok :: c ++ [KJmp ko] ++ lbl_if ok ++ [KRestore ok])] l1 false
| em_query ko qko c l1 ll :
    Em qko (S (S qko)) c l1 ll ->
    Em ko qko ([KBlock (KSave qko :: c ++ [KJmp (S qko)] ++ lbl_if qko ++ [KRestore qko])] ++ lbl_if (S qko)) l1 (used (S qko))
| em_star ko again c l1 ll :
    Em (S again) (S (S again)) c l1 ll ->
    Em ko again (lbl_if again ++ [KBlock (KSave (S again) :: c ++ [KJmp again] ++ lbl_if (S again) ++ [KRestore (S again)])]) l1 false
| em_plus ko again c1 l1 ll1 c2 l2 ll2 :
    Em ko (S (S again)) c1 l1 ll1 -> Em (S again) l1 c2 l2 ll2 ->
    Em ko again (c1 ++ lbl_if again ++ [KBlock (KSave (S again) :: c2 ++ [KJmp again] ++ lbl_if (S again) ++ [KRestore (S again)])]) l2 false
| em_push ko ok c l1 ll :
    Em ko (S ok) c l1 ll -> Em ko ok [KBlock (KSaveP ok :: c ++ (if ast then [KUseP ok] else [KUseP ok; KSt]))] l1 false
with AltEm : nat -> nat -> nat -> list code -> nat -> Prop :=
| alt_nil ko ok l : AltEm ko ok l [] l
| alt_one ko ok l c l1 ll : Em ko l c l1 ll -> AltEm ko ok l c l1
| alt_cons ko ok l c l1 ll c' l2 :
    Em l (S l) c l1 ll -> AltEm ko ok l1 c' l2 ->
    AltEm ko ok l (c ++ [KJmp ok] ++ lbl_if l ++ [KRestore ok] ++ c') l2
with CasesEm : nat -> nat -> list (list code) -> nat -> Prop :=
| cases_nil ko l : CasesEm ko l [] l
| cases_cons ko l c l1 ll cls l2 :
    Em ko l c l1 ll -> CasesEm ko l1 cls l2 -> CasesEm ko l ((c ++ brk ll) :: cls) l2.

Scheme Em_mind := Minimality for Em Sort Prop
  with AltEm_mind := Minimality for AltEm Sort Prop
  with CasesEm_mind := Minimality for CasesEm Sort Prop.
Combined Scheme Em_mutind from Em_mind, AltEm_mind, CasesEm_mind.

(** [emit] only produces such code *)
Section Emits.
Variable g : grammar.
Variable inl asu : nat -> bool.
Notation emit := (emit g ast inl asu used).

Lemma seq_emit_Em (f : expr -> nat -> bool -> bool -> nat -> res) :
  (forall e ko pd mk l c l1 ll, f e ko pd mk l = (c, l1, ll) -> Em ko l c l1 ll) ->
  forall es ko pd mk l ll0 c l1 ll, seq_emit f es ko pd mk l ll0 = (c, l1, ll) ->
    exists ll', Em ko l c l1 ll' /\ ll = match c with [] => ll0 | _ => ll' end.
Proof.
  intros Hf. induction es as [|x es IH]; intros ko pd mk l ll0 c l1 ll H; cbn [seq_emit] in H.
  - inv H. exists false. split; [constructor|reflexivity].
  - destruct (f x ko pd mk l) as [[cx lx] llx] eqn:Ex.
    destruct (seq_emit f es ko false false lx (match cx with [] => ll0 | _ => llx end)) as [[cr lr] llr] eqn:Er. inv H.
    destruct (IH _ _ _ _ _ _ _ _ Er) as (ll' & Hr & El).
    exists (match cr with [] => llx | _ => ll' end). split; [eapply em_seq; eauto|].
    rewrite El. destruct cr as [|y cr]; [rewrite app_nil_r; destruct cx; reflexivity|].
    destruct cx; reflexivity.
Qed.

Lemma alt_emit_Em (f : expr -> nat -> bool -> bool -> nat -> res) :
  (forall e ko pd mk l c l1 ll, f e ko pd mk l = (c, l1, ll) -> Em ko l c l1 ll) ->
  forall es ko ok l c l1, alt_emit used f es ko ok l = (c, l1) -> AltEm ko ok l c l1.
Proof.
  intros Hf. induction es as [|x es IH]; intros ko ok l c l1 H; cbn [alt_emit] in H.
  - inv H. constructor.
  - destruct es as [|y es].
    + destruct (f x ko false false l) as [[cx lx] llx] eqn:Ex. inv H. eapply alt_one. eauto.
    + destruct (f x l false false (S l)) as [[cx lx] llx] eqn:Ex.
      destruct (alt_emit used f (y :: es) ko ok lx) as [cr lr] eqn:Er. inv H.
      eapply alt_cons; eauto.
Qed.

Lemma cases_emit_Em (f : expr -> nat -> bool -> bool -> nat -> res) :
  (forall e ko pd mk l c l1 ll, f e ko pd mk l = (c, l1, ll) -> Em ko l c l1 ll) ->
  forall cs ko l cls l1, cases_emit f cs ko l = (cls, l1) -> CasesEm ko l cls l1.
Proof.
  intros Hf. induction cs as [|[keys b] cs IH]; intros ko l cls l1 H; cbn [cases_emit] in H.
  - inv H. constructor.
  - destruct (f b ko true (Nat.ltb 1 (length keys)) l) as [[cx lx] llx] eqn:Ex.
    destruct (cases_emit f cs ko lx) as [rest lr] eqn:Er. inv H.
    eapply cases_cons; eauto.
Qed.

Lemma ipush_emit_Em (f : expr -> nat -> bool -> bool -> nat -> res) :
  (forall e ko pd mk l c l1 ll, f e ko pd mk l = (c, l1, ll) -> Em ko l c l1 ll) ->
  forall r ko pd mk l c l1 ll, ipush_emit g f r ko pd mk l = (c, l1, ll) -> Em ko l c l1 ll.
Proof.
  intros Hf r ko pd mk l c l1 ll H. unfold ipush_emit in H.
  destruct (nth_error g r) as [[b|k|]|].
  - destruct (f b ko pd mk (S l)) as [[cx lx] llx] eqn:Ex. inv H. eapply em_ipush; eauto.
  - inv H. constructor.
  - inv H. constructor.
  - inv H. constructor.
Qed.

Theorem emit_Em : forall n e ko pd mk l c l1 ll, emit n e ko pd mk l = (c, l1, ll) -> Em ko l c l1 ll.
Proof.
  induction n as [|n IH]; intros e ko pd mk l c l1 ll H; [inv H; constructor|].
  destruct e; cbn [Emit.emit] in H.
  - destruct pd; inv H; constructor.
  - destruct (pd && negb mk)%bool; inv H; constructor.
  - destruct pd; inv H; constructor.
  - destruct (inl r).
    + destruct (ipush_emit g (emit n) r ko pd mk l) as [[cx lx] llx] eqn:Ex. inv H.
      pose proof (ipush_emit_Em _ IH _ _ _ _ _ _ _ _ Ex) as E.
      unfold ipush_emit in Ex. destruct (nth_error g r) as [[b|k|]|]; try (inv Ex; exact E).
      destruct (emit n b ko pd mk (S l)) as [[c0 l0] ll0]. inv Ex. exact E.
    + destruct (asu r); inv H; constructor.
  - inv H; constructor.
  - inv H; constructor.
  - inv H; constructor.
  - inv H; constructor.
  - destruct (seq_emit_Em _ IH _ _ _ _ _ _ _ _ _ H) as (ll' & E & El). subst ll.
    destruct c; [|exact E]. inv E; try constructor.
    all: try match goal with H : [] = _ ++ _ |- _ => symmetry in H; apply app_eq_nil in H; destruct H; subst end.
    all: try constructor.
    all: try (destruct (used _); discriminate).
  - destruct (alt_emit used (emit n) es ko l (S l)) as [cx lx] eqn:Ex. inv H.
    apply em_alt. eapply alt_emit_Em; eauto.
  - destruct (emit n e ko false false (S l)) as [[cx lx] llx] eqn:Ex. inv H. eapply em_and; eauto.
  - destruct (emit n e l false false (S l)) as [[cx lx] llx] eqn:Ex. inv H. eapply em_not; eauto.
  - destruct (emit n e l false false (S (S l))) as [[cx lx] llx] eqn:Ex. inv H. eapply em_query; eauto.
  - destruct (emit n e (S l) false false (S (S l))) as [[cx lx] llx] eqn:Ex. inv H. eapply em_star; eauto.
  - destruct (emit n e ko false false (S (S l))) as [[c1 lx1] ll1] eqn:E1.
    destruct (emit n e (S l) false false lx1) as [[c2 lx2] ll2] eqn:E2. inv H. eapply em_plus; eauto.
  - destruct (emit n e ko pd mk (S l)) as [[cx lx] llx] eqn:Ex. inv H. eapply em_push; eauto.
  - destruct (cases_emit (emit n) cs ko (S l)) as [cls lx] eqn:Ex.
    destruct (emit n e ko false false lx) as [[cd ld] lld] eqn:Ed. inv H.
    eapply em_switch; eauto. eapply cases_emit_Em; eauto.
Qed.
End Emits.
End Shape.
