(** What the Go compiler demands of the label / block skeleton of an emitted rule function
    (Model/Emit.v), and the proof that [emit] meets it for every expression:
    - label numbers stay in the range the call allocated; jumps go to that range or to the failure label;
    - a label is declared at most once;
    - every goto has its label in scope: declared directly in the statement list the goto is in, or in an
      enclosing one (Go: "goto outside a block cannot jump to a label inside it");
    - the flag [emit] returns is exact: it is true iff the last thing printed is a label (which is what
      puts a break before the next case clause, where Go wants a statement after a label);
    - variables are declared at the head of their block, so no goto jumps over a declaration. *)
From PegV Require Import Base.Tac Spec.Syntax Model.Analyses Model.Emit.
Local Open Scope nat_scope.

(** * induction on code *)
Section CodeInd.
Variable P : code -> Prop.
Hypothesis HSt : P KSt.
Hypothesis HLbl : forall n, P (KLbl n).
Hypothesis HJmp : forall n, P (KJmp n).
Hypothesis HCJmp : forall n, P (KCJmp n).
Hypothesis HSave : forall n, P (KSave n).
Hypothesis HRestore : forall n, P (KRestore n).
Hypothesis HSaveP : forall n, P (KSaveP n).
Hypothesis HUseP : forall n, P (KUseP n).
Hypothesis HMemo : forall n, P (KMemo n).
Hypothesis HBrk : P KBrk.
Hypothesis HBlock : forall b, Forall P b -> P (KBlock b).
Hypothesis HSwitch : forall cs d, Forall (Forall P) cs -> Forall P d -> P (KSwitch cs d).

Fixpoint code_ind2 (x : code) : P x :=
  match x with
  | KSt => HSt | KLbl n => HLbl n | KJmp n => HJmp n | KCJmp n => HCJmp n
  | KSave n => HSave n | KRestore n => HRestore n | KSaveP n => HSaveP n | KUseP n => HUseP n | KMemo n => HMemo n | KBrk => HBrk
  | KBlock b => HBlock b ((fix go (l : list code) : Forall P l := match l with [] => Forall_nil _ | y :: l' => Forall_cons _ (code_ind2 y) (go l') end) b)
  | KSwitch cs d =>
      HSwitch cs d
        ((fix goo (ll : list (list code)) : Forall (Forall P) ll :=
            match ll with
            | [] => Forall_nil _
            | k :: ll' => Forall_cons _ ((fix go (l : list code) : Forall P l := match l with [] => Forall_nil _ | y :: l' => Forall_cons _ (code_ind2 y) (go l') end) k) (goo ll')
            end) cs)
        ((fix go (l : list code) : Forall P l := match l with [] => Forall_nil _ | y :: l' => Forall_cons _ (code_ind2 y) (go l') end) d)
  end.
End CodeInd.

(** * the rules *)
Definition dlbl1 (x : code) : list nat := match x with KLbl n => [n] | _ => [] end.
Definition dlbls (c : list code) : list nat := flat_map dlbl1 c.

Fixpoint lbls1 (x : code) : list nat :=
  match x with
  | KLbl n => [n]
  | KBlock b => flat_map lbls1 b
  | KSwitch cs d => flat_map (flat_map lbls1) cs ++ flat_map lbls1 d
  | _ => []
  end.
Definition lbls (c : list code) : list nat := flat_map lbls1 c.

(** every goto's label is declared in the statement list it is in or in an enclosing one *)
Fixpoint scoped1 (sc : list nat) (x : code) : bool :=
  match x with
  | KJmp n | KCJmp n => memb n sc
  | KBlock b => forallb (scoped1 (dlbls b ++ sc)) b
  | KSwitch cs d => forallb (fun k => forallb (scoped1 (dlbls k ++ sc)) k) cs && forallb (scoped1 (dlbls d ++ sc)) d
  | _ => true
  end.
Definition scoped (sc : list nat) (c : list code) : bool := forallb (scoped1 (dlbls c ++ sc)) c.

(** declarations stand at the head of their statement list (after plain statements at most) *)
Definition is_decl (x : code) : bool := match x with KSave _ | KSaveP _ => true | _ => false end.
Definition is_st (x : code) : bool := match x with KSt => true | _ => false end.
Fixpoint drop_while {A} (f : A -> bool) (l : list A) : list A :=
  match l with [] => [] | x :: l' => if f x then drop_while f l' else l end.
Definition head_decls (c : list code) : bool :=
  forallb (fun x => negb (is_decl x)) (drop_while is_decl (drop_while is_st c)).
Fixpoint decl1 (x : code) : bool :=
  match x with
  | KBlock b => head_decls b && forallb decl1 b
  | KSwitch cs d => forallb (fun k => forallb (fun y => negb (is_decl y)) k && forallb decl1 k) cs
                    && forallb (fun y => negb (is_decl y)) d && forallb decl1 d
  | _ => true
  end.

(** no label directly before a case clause *)
Definition ends_lbl (c : list code) : bool := match rev c with KLbl _ :: _ => true | _ => false end.
Fixpoint cases1 (x : code) : bool :=
  match x with
  | KBlock b => forallb cases1 b
  | KSwitch cs d => forallb (fun k => negb (ends_lbl k) && forallb cases1 k) cs && forallb cases1 d
  | _ => true
  end.

(** * basic facts *)
Lemma memb_in x l : memb x l = true <-> In x l.
Proof.
  unfold memb. rewrite existsb_exists. split.
  - intros (y & Hy & E). apply Nat.eqb_eq in E. subst. exact Hy.
  - intros H. exists x. split; [exact H|apply Nat.eqb_refl].
Qed.

Lemma in_flat_map_intro {A B} (f : A -> list B) l x y : In x l -> In y (f x) -> In y (flat_map f l).
Proof. intros. apply in_flat_map. exists x. auto. Qed.

(** only the labels that are actually jumped to matter *)
Lemma scoped1_mono x : forall sc sc', (forall n, In n (jumps1 x) -> In n sc -> In n sc') -> scoped1 sc x = true -> scoped1 sc' x = true.
Proof.
  induction x using code_ind2; intros sc sc' Hi Hs; cbn [scoped1 jumps1] in *; auto.
  - apply memb_in. apply Hi; [left; reflexivity|]. apply memb_in. exact Hs.
  - apply memb_in. apply Hi; [left; reflexivity|]. apply memb_in. exact Hs.
  - rewrite forallb_forall in *. intros y Hy. rewrite Forall_forall in H.
    eapply H; [exact Hy| |apply Hs; exact Hy]. intros n Hj Hn. apply in_app_or in Hn as [Hn|Hn]; apply in_or_app; [left; exact Hn|right].
    apply Hi; [eapply in_flat_map_intro; eauto|exact Hn].
  - apply andb_true_iff in Hs as [H1 H2]. apply andb_true_iff. split.
    + rewrite forallb_forall in *. intros k Hk. specialize (H1 k Hk). rewrite forallb_forall in *. intros y Hy.
      rewrite Forall_forall in H. specialize (H k Hk). rewrite Forall_forall in H.
      eapply H; [exact Hy| |apply H1; exact Hy]. intros n Hj Hn. apply in_app_or in Hn as [Hn|Hn]; apply in_or_app; [left; exact Hn|right].
      apply Hi; [|exact Hn]. apply in_or_app. left. eapply in_flat_map_intro; [exact Hk|]. eapply in_flat_map_intro; eauto.
    + rewrite forallb_forall in *. intros y Hy. rewrite Forall_forall in H0.
      eapply H0; [exact Hy| |apply H2; exact Hy]. intros n Hj Hn. apply in_app_or in Hn as [Hn|Hn]; apply in_or_app; [left; exact Hn|right].
      apply Hi; [|exact Hn]. apply in_or_app. right. eapply in_flat_map_intro; eauto.
Qed.

Lemma dlbls_app a b : dlbls (a ++ b) = dlbls a ++ dlbls b.
Proof. unfold dlbls. apply flat_map_app. Qed.
Lemma lbls_app a b : lbls (a ++ b) = lbls a ++ lbls b.
Proof. unfold lbls. apply flat_map_app. Qed.
Lemma jumps_app a b : jumps (a ++ b) = jumps a ++ jumps b.
Proof. unfold jumps. apply flat_map_app. Qed.

(** fragments compose: a list is scoped when its parts are, each seeing the other's labels *)
Lemma scoped_app sc a b : scoped (dlbls b ++ sc) a = true -> scoped (dlbls a ++ sc) b = true -> scoped sc (a ++ b) = true.
Proof.
  unfold scoped. intros Ha Hb. rewrite forallb_app, dlbls_app. apply andb_true_iff. split.
  - rewrite forallb_forall in *. intros x Hx. eapply scoped1_mono; [|apply Ha; exact Hx].
    intros n _ Hn. rewrite !in_app_iff in *. tauto.
  - rewrite forallb_forall in *. intros x Hx. eapply scoped1_mono; [|apply Hb; exact Hx].
    intros n _ Hn. rewrite !in_app_iff in *. tauto.
Qed.

Lemma scoped_mono sc sc' c : (forall n, In n (jumps c) -> In n sc -> In n sc') -> scoped sc c = true -> scoped sc' c = true.
Proof.
  unfold scoped. intros Hi H. rewrite forallb_forall in *. intros x Hx. eapply scoped1_mono; [|apply H; exact Hx].
  intros n Hj Hn. rewrite !in_app_iff in *. destruct Hn as [Hn|Hn]; [left; exact Hn|right]. apply Hi; [|exact Hn].
  unfold jumps. eapply in_flat_map_intro; eauto.
Qed.

(** * the shape of everything [emit] can produce, as a relation (no fuel, no grammar) *)
Section Shape.
Variable ast : bool.
Variable used : nat -> bool.
Notation lbl_if := (lbl_if used).

Definition brk (ll : bool) : list code := if ll then [KBrk] else [].

(** [Em ko l c l' ll]: code c, failing to label ko, allocating the labels l .. l'-1 *)
Inductive Em : nat -> nat -> list code -> nat -> bool -> Prop :=
| em_nil ko l : Em ko l [] l false
| em_cjmp ko l : Em ko l [KCJmp ko] l false
| em_st ko l : Em ko l [KSt] l false
| em_cjmp_st ko l : Em ko l [KCJmp ko; KSt] l false
| em_pred ko l : Em ko l [KBlock [KSt; KCJmp ko]] l false
| em_seq ko l a l1 lla b l2 llb :
    Em ko l a l1 lla -> Em ko l1 b l2 llb -> Em ko l (a ++ b) l2 (match b with [] => lla | _ => llb end)
| em_ipush ko l c l1 ll : Em ko (S l) c l1 ll -> Em ko l [KBlock (KSaveP l :: c ++ [KUseP l])] l1 false
| em_iact ko l : Em ko l [KBlock [KSt]] (S l) false
| em_iundef ko l : Em ko l [KBlock [KSaveP l; KUseP l]] (S l) false
| em_alt ko ok c l1 : AltEm ko ok (S ok) c l1 -> Em ko ok ([KBlock (KSave ok :: c)] ++ lbl_if ok) l1 (used ok)
| em_switch ko ok cls l1 cd l2 lld :
    CasesEm ko (S ok) cls l1 -> Em ko l1 cd l2 lld ->
    Em ko ok ([KBlock [KSwitch cls (cd ++ brk lld)]] ++ lbl_if ok) l2 (used ok)
| em_and ko ok c l1 ll : Em ko (S ok) c l1 ll -> Em ko ok [KBlock (KSave ok :: c ++ [KRestore ok])] l1 false
| em_not ko ok c l1 ll : Em ok (S ok) c l1 ll -> Em ko ok [KBlock (KSave ok :: c ++ [KJmp ko] ++ lbl_if ok ++ [KRestore ok])] l1 false
| em_query ko qko c l1 ll :
    Em qko (S (S qko)) c l1 ll ->
    Em ko qko ([KBlock (KSave qko :: c ++ [KJmp (S qko)] ++ lbl_if qko ++ [KRestore qko])] ++ lbl_if (S qko)) l1 (used (S qko))
| em_star ko again c l1 ll :
    Em (S again) (S (S again)) c l1 ll ->
    Em ko again (lbl_if again ++ [KBlock (KSave (S again) :: c ++ [KJmp again] ++ lbl_if (S again) ++ [KRestore (S again)])]) l1 false
| em_plus ko again c1 l1 ll1 c2 l2 ll2 :
    Em ko (S (S again)) c1 l1 ll1 -> Em (S again) l1 c2 l2 ll2 ->
    Em ko again (c1 ++ lbl_if again ++ [KBlock (KSave (S again) :: c2 ++ [KJmp again] ++ lbl_if (S again) ++ [KRestore (S again)])]) l2 false
| em_push ko ok c l1 ll :
    Em ko (S ok) c l1 ll -> Em ko ok [KBlock (KSaveP ok :: c ++ (if ast then [KUseP ok] else [KUseP ok; KSt]))] l1 false
with AltEm : nat -> nat -> nat -> list code -> nat -> Prop :=
| alt_nil ko ok l : AltEm ko ok l [] l
| alt_one ko ok l c l1 ll : Em ko l c l1 ll -> AltEm ko ok l c l1
| alt_cons ko ok l c l1 ll c' l2 :
    Em l (S l) c l1 ll -> AltEm ko ok l1 c' l2 ->
    AltEm ko ok l (c ++ [KJmp ok] ++ lbl_if l ++ [KRestore ok] ++ c') l2
with CasesEm : nat -> nat -> list (list code) -> nat -> Prop :=
| cases_nil ko l : CasesEm ko l [] l
| cases_cons ko l c l1 ll cls l2 :
    Em ko l c l1 ll -> CasesEm ko l1 cls l2 -> CasesEm ko l ((c ++ brk ll) :: cls) l2.

Scheme Em_mind := Minimality for Em Sort Prop
  with AltEm_mind := Minimality for AltEm Sort Prop
  with CasesEm_mind := Minimality for CasesEm Sort Prop.
Combined Scheme Em_mutind from Em_mind, AltEm_mind, CasesEm_mind.

Lemma Em_nil_inv ko l c l1 ll : Em ko l c l1 ll -> c = [] -> l1 = l.
Proof.
  induction 1; intros E; try reflexivity; try discriminate.
  - apply app_eq_nil in E as [-> ->]. rewrite IHEm2 by reflexivity. apply IHEm1. reflexivity.
  - apply app_eq_nil in E as [_ E]. discriminate.
  - apply app_eq_nil in E as [_ E]. apply app_eq_nil in E as [_ E]. discriminate.
Qed.

(** [emit] only produces such code *)
Section Emits.
Variable g : grammar.
Variable inl asu : nat -> bool.
Notation emit := (emit g ast inl asu used).

Lemma seq_emit_Em (f : expr -> nat -> bool -> bool -> nat -> res) :
  (forall e ko pd mk l c l1 ll, f e ko pd mk l = (c, l1, ll) -> Em ko l c l1 ll) ->
  forall es ko pd mk l ll0 c l1 ll, seq_emit f es ko pd mk l ll0 = (c, l1, ll) ->
    exists ll', Em ko l c l1 ll' /\ ll = match c with [] => ll0 | _ => ll' end.
Proof.
  intros Hf. induction es as [|x es IH]; intros ko pd mk l ll0 c l1 ll H; cbn [seq_emit] in H.
  - inv H. exists false. split; [constructor|reflexivity].
  - destruct (f x ko pd mk l) as [[cx lx] llx] eqn:Ex.
    destruct (seq_emit f es ko false false lx (match cx with [] => ll0 | _ => llx end)) as [[cr lr] llr] eqn:Er. inv H.
    destruct (IH _ _ _ _ _ _ _ _ Er) as (ll' & Hr & El).
    exists (match cr with [] => llx | _ => ll' end). split; [eapply em_seq; eauto|].
    rewrite El. destruct cr as [|y cr]; [rewrite app_nil_r; destruct cx; reflexivity|].
    destruct cx; reflexivity.
Qed.

Lemma alt_emit_Em (f : expr -> nat -> bool -> bool -> nat -> res) :
  (forall e ko pd mk l c l1 ll, f e ko pd mk l = (c, l1, ll) -> Em ko l c l1 ll) ->
  forall es ko ok l c l1, alt_emit used f es ko ok l = (c, l1) -> AltEm ko ok l c l1.
Proof.
  intros Hf. induction es as [|x es IH]; intros ko ok l c l1 H; cbn [alt_emit] in H.
  - inv H. constructor.
  - destruct es as [|y es].
    + destruct (f x ko false false l) as [[cx lx] llx] eqn:Ex. inv H. eapply alt_one. eauto.
    + destruct (f x l false false (S l)) as [[cx lx] llx] eqn:Ex.
      destruct (alt_emit used f (y :: es) ko ok lx) as [cr lr] eqn:Er. inv H.
      eapply alt_cons; eauto.
Qed.

Lemma cases_emit_Em (f : expr -> nat -> bool -> bool -> nat -> res) :
  (forall e ko pd mk l c l1 ll, f e ko pd mk l = (c, l1, ll) -> Em ko l c l1 ll) ->
  forall cs ko l cls l1, cases_emit f cs ko l = (cls, l1) -> CasesEm ko l cls l1.
Proof.
  intros Hf. induction cs as [|[keys b] cs IH]; intros ko l cls l1 H; cbn [cases_emit] in H.
  - inv H. constructor.
  - destruct (f b ko true (Nat.ltb 1 (length keys)) l) as [[cx lx] llx] eqn:Ex.
    destruct (cases_emit f cs ko lx) as [rest lr] eqn:Er. inv H.
    eapply cases_cons; eauto.
Qed.

Lemma ipush_emit_Em (f : expr -> nat -> bool -> bool -> nat -> res) :
  (forall e ko pd mk l c l1 ll, f e ko pd mk l = (c, l1, ll) -> Em ko l c l1 ll) ->
  forall r ko pd mk l c l1 ll, ipush_emit g f r ko pd mk l = (c, l1, ll) -> Em ko l c l1 ll.
Proof.
  intros Hf r ko pd mk l c l1 ll H. unfold ipush_emit in H.
  destruct (nth_error g r) as [[b|k|]|].
  - destruct (f b ko pd mk (S l)) as [[cx lx] llx] eqn:Ex. inv H. eapply em_ipush; eauto.
  - inv H. constructor.
  - inv H. constructor.
  - inv H. constructor.
Qed.

Theorem emit_Em : forall n e ko pd mk l c l1 ll, emit n e ko pd mk l = (c, l1, ll) -> Em ko l c l1 ll.
Proof.
  induction n as [|n IH]; intros e ko pd mk l c l1 ll H; [inv H; constructor|].
  destruct e; cbn [Emit.emit] in H.
  - destruct pd; inv H; constructor.
  - destruct (pd && negb mk)%bool; inv H; constructor.
  - destruct pd; inv H; constructor.
  - destruct (inl r).
    + destruct (ipush_emit g (emit n) r ko pd mk l) as [[cx lx] llx] eqn:Ex. inv H.
      pose proof (ipush_emit_Em _ IH _ _ _ _ _ _ _ _ Ex) as E.
      unfold ipush_emit in Ex. destruct (nth_error g r) as [[b|k|]|]; try (inv Ex; exact E).
      destruct (emit n b ko pd mk (S l)) as [[c0 l0] ll0]. inv Ex. exact E.
    + destruct (asu r); inv H; constructor.
  - inv H; constructor.
  - inv H; constructor.
  - inv H; constructor.
  - inv H; constructor.
  - destruct (seq_emit_Em _ IH _ _ _ _ _ _ _ _ _ H) as (ll' & E & El). subst ll.
    destruct c; [|exact E]. rewrite (Em_nil_inv _ _ _ _ _ E eq_refl). constructor.
  - destruct (alt_emit used (emit n) es ko l (S l)) as [cx lx] eqn:Ex. inv H.
    apply em_alt. eapply alt_emit_Em; eauto.
  - destruct (emit n e ko false false (S l)) as [[cx lx] llx] eqn:Ex. inv H. eapply em_and; eauto.
  - destruct (emit n e l false false (S l)) as [[cx lx] llx] eqn:Ex. inv H. eapply em_not; eauto.
  - destruct (emit n e l false false (S (S l))) as [[cx lx] llx] eqn:Ex. inv H. eapply em_query; eauto.
  - destruct (emit n e (S l) false false (S (S l))) as [[cx lx] llx] eqn:Ex. inv H. eapply em_star; eauto.
  - destruct (emit n e ko false false (S (S l))) as [[c1 lx1] ll1] eqn:E1.
    destruct (emit n e (S l) false false lx1) as [[c2 lx2] ll2] eqn:E2. inv H. eapply em_plus; eauto.
  - destruct (emit n e ko pd mk (S l)) as [[cx lx] llx] eqn:Ex. inv H. eapply em_push; eauto.
  - destruct (cases_emit (emit n) cs ko (S l)) as [cls lx] eqn:Ex.
    destruct (emit n e ko false false lx) as [[cd ld] lld] eqn:Ed. inv H.
    eapply em_switch; eauto. eapply cases_emit_Em; eauto.
Qed.
End Emits.

(** * computing with jumps / labels of the shapes *)
Lemma jumps_cons x c : jumps (x :: c) = jumps1 x ++ jumps c.  Proof. reflexivity. Qed.
Lemma lbls_cons x c : lbls (x :: c) = lbls1 x ++ lbls c.  Proof. reflexivity. Qed.
Lemma jumps_block b : jumps [KBlock b] = jumps b.
Proof. unfold jumps. cbn [flat_map jumps1]. apply app_nil_r. Qed.
Lemma lbls_block b : lbls [KBlock b] = lbls b.
Proof. unfold lbls. cbn [flat_map lbls1]. apply app_nil_r. Qed.
Lemma jumps_lbl_if n : jumps (lbl_if n) = [].
Proof. unfold Emit.lbl_if. destruct (used n); reflexivity. Qed.
Lemma lbls_lbl_if n x : In x (lbls (lbl_if n)) -> x = n /\ used n = true.
Proof. unfold Emit.lbl_if. destruct (used n) eqn:E; cbn; [intros [<-|[]]; auto|intros []]. Qed.
Lemma jumps_usep ok : jumps (if ast then [KUseP ok] else [KUseP ok; KSt]) = [].
Proof. destruct ast; reflexivity. Qed.
Lemma lbls_usep ok : lbls (if ast then [KUseP ok] else [KUseP ok; KSt]) = [].
Proof. destruct ast; reflexivity. Qed.
Lemma jumps_brk ll : jumps (brk ll) = [].  Proof. destruct ll; reflexivity. Qed.
Lemma lbls_brk ll : lbls (brk ll) = [].  Proof. destruct ll; reflexivity. Qed.

Lemma jumps_switch cls d : jumps [KSwitch cls d] = flat_map jumps cls ++ jumps d.
Proof. unfold jumps. cbn [flat_map jumps1]. rewrite app_nil_r. reflexivity. Qed.
Lemma lbls_switch cls d : lbls [KSwitch cls d] = flat_map lbls cls ++ lbls d.
Proof. unfold lbls. cbn [flat_map lbls1]. rewrite app_nil_r. reflexivity. Qed.

Ltac inx :=
  repeat match goal with
         | H : In _ (jumps (_ ++ _)) |- _ => rewrite jumps_app in H
         | H : In _ (lbls (_ ++ _)) |- _ => rewrite lbls_app in H
         | H : In _ (jumps [KBlock _]) |- _ => rewrite jumps_block in H
         | H : In _ (lbls [KBlock _]) |- _ => rewrite lbls_block in H
         | H : In _ (jumps (lbl_if _)) |- _ => rewrite jumps_lbl_if in H
         | H : In _ (jumps (brk _)) |- _ => rewrite jumps_brk in H
         | H : In _ (lbls (brk _)) |- _ => rewrite lbls_brk in H
         | H : In _ (lbls (lbl_if _)) |- _ => apply lbls_lbl_if in H; destruct H
         | H : In _ (jumps [KSwitch _ _]) |- _ => rewrite jumps_switch in H
         | H : In _ (lbls [KSwitch _ _]) |- _ => rewrite lbls_switch in H
         | H : In _ (flat_map jumps _) |- _ => apply in_flat_map in H; destruct H as (? & ? & ?)
         | H : In _ (flat_map lbls _) |- _ => apply in_flat_map in H; destruct H as (? & ? & ?)
         | H : In _ (jumps (_ :: _)) |- _ => rewrite jumps_cons in H; cbn [jumps1] in H
         | H : In _ (lbls (_ :: _)) |- _ => rewrite lbls_cons in H; cbn [lbls1] in H
         | H : In _ (jumps []) |- _ => destruct H
         | H : In _ (lbls []) |- _ => destruct H
         | H : In _ (_ ++ _) |- _ => apply in_app_or in H; destruct H
         | H : In _ (_ :: _) |- _ => destruct H as [H|H]; [try subst|]
         | H : In _ [] |- _ => destruct H
         end.

(** * A: label numbers stay in the allocated range; jumps go there or to the failure label *)
Definition rngE (ko l : nat) (c : list code) (l' : nat) (ll : bool) : Prop :=
  l <= l' /\ (forall j, In j (jumps c) -> j = ko \/ l <= j < l') /\ (forall x, In x (lbls c) -> l <= x < l' /\ used x = true).
Definition rngA (ko ok l : nat) (c : list code) (l' : nat) : Prop :=
  l <= l' /\ (forall j, In j (jumps c) -> j = ko \/ j = ok \/ l <= j < l') /\ (forall x, In x (lbls c) -> l <= x < l' /\ used x = true).
Definition rngC (ko l : nat) (cls : list (list code)) (l' : nat) : Prop :=
  l <= l' /\ (forall k j, In k cls -> In j (jumps k) -> j = ko \/ l <= j < l') /\
  (forall k x, In k cls -> In x (lbls k) -> l <= x < l' /\ used x = true).

Ltac inx2 :=
  repeat (first [progress inx | match goal with
         | H : In _ (jumps [KSwitch _ _]) |- _ => rewrite jumps_switch in H
         | H : In _ (lbls [KSwitch _ _]) |- _ => rewrite lbls_switch in H
         | H : In _ (flat_map jumps _) |- _ => apply in_flat_map in H; destruct H as (? & ? & ?)
         | H : In _ (flat_map lbls _) |- _ => apply in_flat_map in H; destruct H as (? & ? & ?)
         | H : In _ (jumps (if _ then _ else _)) |- _ => rewrite jumps_usep in H
         | H : In _ (lbls (if _ then _ else _)) |- _ => rewrite lbls_usep in H
         end]).

Ltac fin :=
  repeat match goal with
         | Hi : In ?j (jumps ?a), H : forall j, In j (jumps ?a) -> _ |- _ => specialize (H _ Hi)
         | Hi : In ?j (lbls ?a), H : forall x, In x (lbls ?a) -> _ |- _ => specialize (H _ Hi)
         | Hk : In ?k ?cls, Hi : In ?j (jumps ?k), H : forall k j, In k ?cls -> In j (jumps k) -> _ |- _ => specialize (H _ _ Hk Hi)
         | Hk : In ?k ?cls, Hi : In ?j (lbls ?k), H : forall k x, In k ?cls -> In x (lbls k) -> _ |- _ => specialize (H _ _ Hk Hi)
         | H : _ /\ _ |- _ => destruct H
         | H : _ \/ _ |- _ => destruct H
         end; subst;
  try (split; [lia|assumption]);
  try (first [left; lia | right; left; lia | right; right; lia | right; lia | lia]).

Theorem ranges :
  (forall ko l c l' ll, Em ko l c l' ll -> rngE ko l c l' ll) /\
  (forall ko ok l c l', AltEm ko ok l c l' -> rngA ko ok l c l') /\
  (forall ko l cls l', CasesEm ko l cls l' -> rngC ko l cls l').
Proof.
  apply Em_mutind; unfold rngE, rngA, rngC; intros.
  all: repeat match goal with H : _ /\ _ |- _ => destruct H end.
  all: (split; [lia|split; intros; inx2; try discriminate; fin]).
Qed.


(** * B: a label is declared at most once *)
Lemma nodup_app {A} (a b : list A) : NoDup a -> NoDup b -> (forall x, In x a -> In x b -> False) -> NoDup (a ++ b).
Proof.
  induction a as [|y a IH]; intros Ha Hb Hd; [exact Hb|]. inv Ha. cbn [app]. constructor.
  - intros Hi. apply in_app_or in Hi as [Hi|Hi]; [auto|]. eapply Hd; [left; reflexivity|exact Hi].
  - apply IH; auto. intros x Hx. apply Hd. right. exact Hx.
Qed.
Lemma nodup_lbl_if n : NoDup (lbls (lbl_if n)).
Proof. unfold Emit.lbl_if. destruct (used n); cbn; repeat constructor. intros []. Qed.

Ltac ranges_of :=
  repeat match goal with
         | H : Em _ _ _ _ _ |- _ => let R := fresh "R" in pose proof (proj1 ranges _ _ _ _ _ H) as R; unfold rngE in R; revert H
         | H : AltEm _ _ _ _ _ |- _ => let R := fresh "R" in pose proof (proj1 (proj2 ranges) _ _ _ _ _ H) as R; unfold rngA in R; revert H
         | H : CasesEm _ _ _ _ |- _ => let R := fresh "R" in pose proof (proj2 (proj2 ranges) _ _ _ _ H) as R; unfold rngC in R; revert H
         end; intros.

Ltac nd :=
  repeat match goal with
         | |- NoDup (lbls (_ ++ _)) => rewrite lbls_app; apply nodup_app
         | |- NoDup (lbls [KBlock _]) => rewrite lbls_block
         | |- NoDup (lbls [KSwitch _ _]) => rewrite lbls_switch; apply nodup_app
         | |- NoDup (lbls (lbl_if _)) => apply nodup_lbl_if
         | |- NoDup (lbls (if _ then _ else _)) => rewrite lbls_usep; constructor
         | |- NoDup (lbls (brk _)) => rewrite lbls_brk; constructor
         | |- NoDup (lbls []) => constructor
         | |- NoDup [] => constructor
         | |- NoDup (lbls (_ :: _)) => rewrite lbls_cons; cbn [lbls1 app]
         | |- NoDup _ => assumption
         end.

Theorem labels_unique :
  (forall ko l c l' ll, Em ko l c l' ll -> NoDup (lbls c)) /\
  (forall ko ok l c l', AltEm ko ok l c l' -> NoDup (lbls c)) /\
  (forall ko l cls l', CasesEm ko l cls l' -> NoDup (flat_map lbls cls)).
Proof.
  apply Em_mutind; intros; ranges_of.
  all: try (cbn [flat_map]; fold (lbls (c ++ brk ll))).
  all: nd.
  all: try (intros; inx2; try discriminate; fin; fail).
  apply nodup_app; [nd; intros; inx2|exact H2|intros; inx2; fin].
Qed.


(** * C: every goto has its label in scope *)
Lemma scoped_nil sc : scoped sc [] = true.  Proof. reflexivity. Qed.
Lemma scoped_block sc b : scoped sc [KBlock b] = scoped sc b.
Proof. unfold scoped. cbn [dlbls flat_map dlbl1 app forallb scoped1]. rewrite andb_true_r. reflexivity. Qed.
Lemma scoped_jmp sc t : In t sc -> scoped sc [KJmp t] = true.
Proof. intros H. unfold scoped. cbn. rewrite andb_true_r. apply memb_in. exact H. Qed.
Lemma scoped_cjmp sc t : In t sc -> scoped sc [KCJmp t] = true.
Proof. intros H. unfold scoped. cbn. rewrite andb_true_r. apply memb_in. exact H. Qed.
Lemma scoped_lbl_if sc n : scoped sc (lbl_if n) = true.
Proof. unfold Emit.lbl_if. destruct (used n); reflexivity. Qed.
Lemma scoped_brk sc ll : scoped sc (brk ll) = true.  Proof. destruct ll; reflexivity. Qed.
Lemma scoped_usep sc ok : scoped sc (if ast then [KUseP ok] else [KUseP ok; KSt]) = true.
Proof. destruct ast; reflexivity. Qed.
Lemma scoped_cons sc x c : scoped (dlbls c ++ sc) [x] = true -> scoped (dlbl1 x ++ sc) c = true -> scoped sc (x :: c) = true.
Proof.
  intros H1 H2. change (x :: c) with ([x] ++ c). apply scoped_app; [exact H1|].
  unfold dlbls at 1. cbn [flat_map]. rewrite app_nil_r. exact H2.
Qed.
Lemma in_dlbls_lbl_if n : used n = true -> In n (dlbls (lbl_if n)).
Proof. intros H. unfold Emit.lbl_if. rewrite H. left. reflexivity. Qed.
Lemma scoped_switch sc cls d : (forall k, In k cls -> scoped sc k = true) -> scoped sc d = true -> scoped sc [KSwitch cls d] = true.
Proof.
  intros Hc Hd. unfold scoped. cbn [dlbls flat_map dlbl1 app forallb scoped1]. rewrite andb_true_r.
  apply andb_true_iff. split; [|exact Hd]. apply forallb_forall. intros k Hk. apply (Hc k Hk).
Qed.

(** a fragment proved against its own failure label fits wherever that label is visible *)
Lemma scoped_into (k : nat) sc c : scoped [k] c = true -> (In k (jumps c) -> In k sc) -> scoped sc c = true.
Proof.
  intros H Hk. eapply scoped_mono; [|exact H]. intros n Hj [<-|[]]. apply Hk. exact Hj.
Qed.
Lemma scoped_into2 (k1 k2 : nat) sc c : scoped [k1; k2] c = true -> (In k1 (jumps c) -> In k1 sc) -> (In k2 (jumps c) -> In k2 sc) -> scoped sc c = true.
Proof.
  intros H H1 H2. eapply scoped_mono; [|exact H]. intros n Hj [<-|[<-|[]]]; auto.
Qed.

Ltac hu_norm Hu :=
  repeat first [rewrite jumps_app in Hu | rewrite jumps_block in Hu | rewrite jumps_switch in Hu | rewrite jumps_lbl_if in Hu
               | rewrite jumps_usep in Hu | rewrite jumps_brk in Hu | rewrite jumps_cons in Hu];
  cbn [jumps1 app flat_map] in Hu.
Ltac by_hu Hu := apply Hu; repeat rewrite in_app_iff; cbn [In]; auto 12.
Ltac in_scope := repeat rewrite in_app_iff; repeat rewrite dlbls_app; repeat rewrite in_app_iff; cbn [dlbls flat_map dlbl1 app In]; auto 12.

Theorem gotos_in_scope :
  (forall ko l c l' ll, Em ko l c l' ll -> (forall j, In j (jumps c) -> used j = true) -> scoped [ko] c = true) /\
  (forall ko ok l c l', AltEm ko ok l c l' -> (forall j, In j (jumps c) -> used j = true) -> scoped [ko; ok] c = true) /\
  (forall ko l cls l', CasesEm ko l cls l' -> (forall k j, In k cls -> In j (jumps k) -> used j = true) -> forall k, In k cls -> scoped [ko] k = true).
Proof.
  apply Em_mutind; intros.
  - reflexivity.
  - apply scoped_cjmp. left. reflexivity.
  - reflexivity.
  - apply scoped_cons; [apply scoped_cjmp; in_scope|reflexivity].
  - (* pred *) rewrite scoped_block. apply scoped_cons; [reflexivity|]. apply scoped_cjmp. in_scope.
  - (* seq *) hu_norm H3. apply scoped_app.
    + eapply scoped_into; [apply H0; intros; by_hu H3|]. intros _. in_scope.
    + eapply scoped_into; [apply H2; intros; by_hu H3|]. intros _. in_scope.
  - (* ipush *) rewrite scoped_block. hu_norm H1. apply scoped_cons; [reflexivity|]. apply scoped_app; [|reflexivity].
    eapply scoped_into; [apply H0; intros; by_hu H1|]. intros _. in_scope.
  - reflexivity.
  - reflexivity.
  - (* alt *) hu_norm H1. apply scoped_app; [|apply scoped_lbl_if]. rewrite scoped_block. apply scoped_cons; [reflexivity|].
    eapply scoped_into2; [apply H0; intros; by_hu H1| |].
    + intros _. in_scope.
    + intros Hj. assert (used ok = true) by (by_hu H1). pose proof (in_dlbls_lbl_if _ H2). in_scope.
  - (* switch *) hu_norm H3. apply scoped_app; [|apply scoped_lbl_if]. rewrite scoped_block. apply scoped_switch.
    + intros k Hk. eapply scoped_into; [eapply H0; [|exact Hk]|].
      * intros k0 j Hk0 Hj. apply H3. repeat rewrite in_app_iff. left. left. eapply in_flat_map_intro; eauto.
      * intros _. in_scope.
    + apply scoped_app; [|apply scoped_brk]. eapply scoped_into; [apply H2; intros; by_hu H3|]. intros _. in_scope.
  - (* and *) rewrite scoped_block. hu_norm H1. apply scoped_cons; [reflexivity|]. apply scoped_app; [|reflexivity].
    eapply scoped_into; [apply H0; intros; by_hu H1|]. intros _. in_scope.
  - (* not *) rewrite scoped_block. hu_norm H1. apply scoped_cons; [reflexivity|]. apply scoped_app.
    + eapply scoped_into; [apply H0; intros; by_hu H1|]. intros Hj.
      assert (used ok = true) by (by_hu H1). pose proof (in_dlbls_lbl_if _ H2). in_scope.
    + apply scoped_cons; [apply scoped_jmp; in_scope|]. apply scoped_app; [apply scoped_lbl_if|reflexivity].
  - (* query *) hu_norm H1. apply scoped_app; [|apply scoped_lbl_if]. rewrite scoped_block. apply scoped_cons; [reflexivity|]. apply scoped_app.
    + eapply scoped_into; [apply H0; intros; by_hu H1|]. intros Hj.
      assert (used qko = true) by (by_hu H1). pose proof (in_dlbls_lbl_if _ H2). in_scope.
    + apply scoped_cons; [apply scoped_jmp|apply scoped_app; [apply scoped_lbl_if|reflexivity]].
      assert (used (S qko) = true) by (by_hu H1). pose proof (in_dlbls_lbl_if _ H2). in_scope.
  - (* star *) hu_norm H1. apply scoped_app; [apply scoped_lbl_if|]. rewrite scoped_block. apply scoped_cons; [reflexivity|]. apply scoped_app.
    + eapply scoped_into; [apply H0; intros; by_hu H1|]. intros Hj.
      assert (used (S again) = true) by (by_hu H1). pose proof (in_dlbls_lbl_if _ H2). in_scope.
    + apply scoped_cons; [apply scoped_jmp|apply scoped_app; [apply scoped_lbl_if|reflexivity]].
      assert (used again = true) by (by_hu H1). pose proof (in_dlbls_lbl_if _ H2). in_scope.
  - (* plus *) hu_norm H3. apply scoped_app.
    + eapply scoped_into; [apply H0; intros; by_hu H3|]. intros _. in_scope.
    + apply scoped_app; [apply scoped_lbl_if|]. rewrite scoped_block. apply scoped_cons; [reflexivity|]. apply scoped_app.
      * eapply scoped_into; [apply H2; intros; by_hu H3|]. intros Hj.
        assert (used (S again) = true) by (by_hu H3). pose proof (in_dlbls_lbl_if _ H4). in_scope.
      * apply scoped_cons; [apply scoped_jmp|apply scoped_app; [apply scoped_lbl_if|reflexivity]].
        assert (used again = true) by (by_hu H3). pose proof (in_dlbls_lbl_if _ H4). in_scope.
  - (* push *) rewrite scoped_block. hu_norm H1. apply scoped_cons; [reflexivity|]. apply scoped_app; [|apply scoped_usep].
    eapply scoped_into; [apply H0; intros; by_hu H1|]. intros _. in_scope.
  - reflexivity.
  - (* alt_one *) eapply scoped_into; [apply H0; exact H1|]. intros _. in_scope.
  - (* alt_cons *) hu_norm H3. apply scoped_app.
    + eapply scoped_into; [apply H0; intros; by_hu H3|]. intros Hj.
      assert (used l = true) by (by_hu H3). pose proof (in_dlbls_lbl_if _ H4). in_scope.
    + apply scoped_cons; [apply scoped_jmp; in_scope|]. apply scoped_app; [apply scoped_lbl_if|]. apply scoped_cons; [reflexivity|].
      eapply scoped_into2; [apply H2; intros; by_hu H3| |]; intros _; in_scope.
  - destruct H0.
  - (* cases_cons *) destruct H4 as [<-|Hk].
    + apply scoped_app; [|apply scoped_brk]. eapply scoped_into; [apply H0|].
      * intros j Hj. apply (H3 (c ++ brk ll) j); [left; reflexivity|]. rewrite jumps_app. apply in_or_app. left. exact Hj.
      * intros _. in_scope.
    + apply H2; [|exact Hk]. intros k0 j Hk0 Hj. apply (H3 k0 j); [right; exact Hk0|exact Hj].
Qed.


(** * D: the flag is exact, and no label stands directly before a case clause *)
Lemma ends_lbl_app a b : ends_lbl (a ++ b) = match b with [] => ends_lbl a | _ => ends_lbl b end.
Proof.
  destruct b as [|y b]; [rewrite app_nil_r; reflexivity|]. unfold ends_lbl. rewrite rev_app_distr.
  destruct (rev (y :: b)) as [|z r] eqn:E; [|reflexivity].
  apply (f_equal (@length _)) in E. rewrite rev_length in E. discriminate.
Qed.
Lemma ends_lbl_if a n : (a <> [] -> ends_lbl a = false) -> a <> [] -> ends_lbl (a ++ lbl_if n) = used n.
Proof.
  intros Ha Hn. rewrite ends_lbl_app. unfold Emit.lbl_if. destruct (used n); [reflexivity|]. auto.
Qed.
Lemma ends_brk c ll : ll = ends_lbl c -> ends_lbl (c ++ brk ll) = false.
Proof. intros ->. rewrite ends_lbl_app. destruct (ends_lbl c) eqn:E; cbn [brk]; reflexivity. Qed.
Lemma cases1_lbl_if n : forallb cases1 (lbl_if n) = true.
Proof. unfold Emit.lbl_if. destruct (used n); reflexivity. Qed.
Lemma cases1_brk ll : forallb cases1 (brk ll) = true.  Proof. destruct ll; reflexivity. Qed.
Lemma cases1_usep ok : forallb cases1 (if ast then [KUseP ok] else [KUseP ok; KSt]) = true.
Proof. destruct ast; reflexivity. Qed.

Ltac fa := repeat first [rewrite forallb_app | rewrite cases1_lbl_if | rewrite cases1_brk | rewrite cases1_usep
                        | progress cbn [forallb cases1 andb]]; repeat rewrite andb_true_r.

Ltac rw_all := repeat match goal with H : _ = true |- _ => rewrite H; clear H end; try reflexivity.

Theorem flag_exact_and_cases :
  (forall ko l c l' ll, Em ko l c l' ll -> ll = ends_lbl c /\ forallb cases1 c = true) /\
  (forall ko ok l c l', AltEm ko ok l c l' -> forallb cases1 c = true) /\
  (forall ko l cls l', CasesEm ko l cls l' -> forallb (fun k => negb (ends_lbl k) && forallb cases1 k) cls = true).
Proof.
  apply Em_mutind; intros; repeat match goal with H : _ /\ _ |- _ => destruct H end.
  all: try split.
  all: try reflexivity.
  all: try (fa; rw_all; fail).
  all: try (symmetry; apply ends_lbl_if; [reflexivity|discriminate]).
  - (* seq *) rewrite ends_lbl_app. destruct b; auto.
  - (* star *) rewrite ends_lbl_app. reflexivity.
  - (* plus *) rewrite app_assoc, ends_lbl_app. reflexivity.
  - (* cases_cons *) cbn [forallb]. match goal with H : ll = ends_lbl c |- _ => rewrite (ends_brk _ _ H) end. fa. rw_all.
Qed.

(** * E: declarations stand at the head of their block *)
Definition nodecl (c : list code) : bool := forallb (fun y => negb (is_decl y)) c.
Lemma nodecl_app a b : nodecl (a ++ b) = nodecl a && nodecl b.  Proof. apply forallb_app. Qed.
Lemma nodecl_lbl_if n : nodecl (lbl_if n) = true.  Proof. unfold Emit.lbl_if. destruct (used n); reflexivity. Qed.
Lemma nodecl_brk ll : nodecl (brk ll) = true.  Proof. destruct ll; reflexivity. Qed.
Lemma nodecl_usep ok : nodecl (if ast then [KUseP ok] else [KUseP ok; KSt]) = true.  Proof. destruct ast; reflexivity. Qed.
Lemma decl1_lbl_if n : forallb decl1 (lbl_if n) = true.  Proof. unfold Emit.lbl_if. destruct (used n); reflexivity. Qed.
Lemma decl1_brk ll : forallb decl1 (brk ll) = true.  Proof. destruct ll; reflexivity. Qed.
Lemma decl1_usep ok : forallb decl1 (if ast then [KUseP ok] else [KUseP ok; KSt]) = true.  Proof. destruct ast; reflexivity. Qed.
Lemma nodecl_suffix (f : code -> bool) c : nodecl c = true -> nodecl (drop_while f c) = true.
Proof.
  induction c as [|x c IH]; intros H; [reflexivity|]. cbn [drop_while]. destruct (f x); [|exact H].
  apply IH. cbn [nodecl forallb] in H. apply andb_true_iff in H. tauto.
Qed.
Lemma head_decls_cons d c : is_decl d = true -> nodecl c = true -> head_decls (d :: c) = true.
Proof.
  intros Hd Hc. unfold head_decls. assert (is_st d = false) by (destruct d; try discriminate; reflexivity).
  cbn [drop_while]. rewrite H. cbn [drop_while]. rewrite Hd. apply (nodecl_suffix is_decl c Hc).
Qed.
Lemma head_decls_nodecl c : nodecl c = true -> head_decls c = true.
Proof. intros H. unfold head_decls. apply (nodecl_suffix is_decl). apply (nodecl_suffix is_st). exact H. Qed.

Ltac fd := repeat first [rewrite forallb_app | rewrite nodecl_app | rewrite nodecl_lbl_if | rewrite nodecl_brk | rewrite nodecl_usep
                        | rewrite decl1_lbl_if | rewrite decl1_brk | rewrite decl1_usep
                        | progress cbn [forallb decl1 is_decl negb andb]]; repeat rewrite andb_true_r.

Ltac hd := repeat first [rewrite head_decls_cons; [|reflexivity|fd; rw_all] | progress fd].

Theorem declarations_at_head :
  (forall ko l c l' ll, Em ko l c l' ll -> nodecl c = true /\ forallb decl1 c = true) /\
  (forall ko ok l c l', AltEm ko ok l c l' -> nodecl c = true /\ forallb decl1 c = true) /\
  (forall ko l cls l', CasesEm ko l cls l' -> forallb (fun k => nodecl k && forallb decl1 k) cls = true).
Proof.
  apply Em_mutind; intros; repeat match goal with H : _ /\ _ |- _ => destruct H end.
  all: try split.
  all: try reflexivity.
  all: try assumption.
  all: try (fd; rw_all; fail).
  all: try (fd; rewrite head_decls_cons; [|reflexivity|fd; rw_all]; fd; rw_all; fail).
  - (* switch *) fd.
    match goal with H : forallb _ cls = true |- _ => change (forallb (fun k => forallb (fun y => negb (is_decl y)) k && forallb decl1 k) cls = true) in H; rewrite H end.
    match goal with H : nodecl cd = true |- _ => unfold nodecl in H; rewrite H end.
    rw_all.
Qed.

End Shape.

(** * together, for the code of any expression *)
Theorem emit_wellformed g ast inl asu used n e ko pd mk l c l' ll :
  emit g ast inl asu used n e ko pd mk l = (c, l', ll) ->
  l <= l' /\
  (forall j, In j (jumps c) -> j = ko \/ l <= j < l') /\
  (forall x, In x (lbls c) -> l <= x < l' /\ used x = true) /\
  NoDup (lbls c) /\
  ((forall j, In j (jumps c) -> used j = true) -> scoped [ko] c = true) /\
  ll = ends_lbl c /\ forallb cases1 c = true /\
  nodecl c = true /\ forallb decl1 c = true.
Proof.
  intros H. apply emit_Em in H.
  destruct (proj1 (ranges ast used) _ _ _ _ _ H) as (A1 & A2 & A3).
  pose proof (proj1 (labels_unique ast used) _ _ _ _ _ H) as B.
  pose proof (proj1 (gotos_in_scope ast used) _ _ _ _ _ H) as C.
  destruct (proj1 (flag_exact_and_cases ast used) _ _ _ _ _ H) as (D1 & D2).
  destruct (proj1 (declarations_at_head ast used) _ _ _ _ _ H) as (E1 & E2).
  split; [exact A1|]. split; [exact A2|]. split; [exact A3|]. split; [exact B|]. split; [exact C|].
  split; [exact D1|]. split; [exact D2|]. split; [exact E1|exact E2].
Qed.

(** * the label numbering and the jumps do not depend on which labels get printed
    (so the dry pass, which knows no label yet, sees exactly the jumps of the real pass) *)
Section Indep.
Variable g : grammar.
Variable ast : bool.
Variable inl asu : nat -> bool.
Variable u1 u2 : nat -> bool.

Definition same (r1 r2 : res) : Prop := snd (fst r1) = snd (fst r2) /\ jumps (fst (fst r1)) = jumps (fst (fst r2)).
Definition fsame (f1 f2 : expr -> nat -> bool -> bool -> nat -> res) : Prop :=
  forall e ko pd mk l, same (f1 e ko pd mk l) (f2 e ko pd mk l).

Lemma jumps_lbl_if' u n : jumps (lbl_if u n) = [].
Proof. unfold lbl_if. destruct (u n); reflexivity. Qed.

Lemma jumps_block' b : jumps [KBlock b] = jumps b.
Proof. unfold jumps. cbn [flat_map jumps1]. apply app_nil_r. Qed.

Lemma seq_same f1 f2 : fsame f1 f2 -> forall es ko pd mk l ll1 ll2,
  same (seq_emit f1 es ko pd mk l ll1) (seq_emit f2 es ko pd mk l ll2).
Proof.
  intros Hf. induction es as [|x es IH]; intros ko pd mk l ll1 ll2; cbn [seq_emit]; [split; reflexivity|].
  destruct (Hf x ko pd mk l) as [E1 E2].
  destruct (f1 x ko pd mk l) as [[c1 l1] b1]. destruct (f2 x ko pd mk l) as [[c2 l2] b2]. cbn [fst snd] in *. subst l2.
  specialize (IH ko false false l1 (match c1 with [] => ll1 | _ => b1 end) (match c2 with [] => ll2 | _ => b2 end)).
  destruct (seq_emit f1 es ko false false l1 _) as [[d1 m1] e1]. destruct (seq_emit f2 es ko false false l1 _) as [[d2 m2] e2].
  destruct IH as [I1 I2]. unfold same in *. cbn [fst snd] in *. split; [exact I1|]. rewrite !jumps_app, E2, I2. reflexivity.
Qed.

Lemma alt_same f1 f2 : fsame f1 f2 -> forall es ko ok l,
  snd (alt_emit u1 f1 es ko ok l) = snd (alt_emit u2 f2 es ko ok l) /\
  jumps (fst (alt_emit u1 f1 es ko ok l)) = jumps (fst (alt_emit u2 f2 es ko ok l)).
Proof.
  intros Hf. induction es as [|x es IH]; intros ko ok l; cbn [alt_emit]; [split; reflexivity|].
  destruct es as [|y es].
  - destruct (Hf x ko false false l) as [E1 E2].
    destruct (f1 x ko false false l) as [[c1 l1] b1]. destruct (f2 x ko false false l) as [[c2 l2] b2]. cbn [fst snd] in *. auto.
  - destruct (Hf x l false false (S l)) as [E1 E2].
    destruct (f1 x l false false (S l)) as [[c1 l1] b1]. destruct (f2 x l false false (S l)) as [[c2 l2] b2]. cbn [fst snd] in *. subst l2.
    specialize (IH ko ok l1).
    destruct (alt_emit u1 f1 (y :: es) ko ok l1) as [d1 m1]. destruct (alt_emit u2 f2 (y :: es) ko ok l1) as [d2 m2].
    destruct IH as [I1 I2]. cbn [fst snd] in *. split; [exact I1|].
    rewrite !jumps_app, !jumps_lbl_if', E2, I2. reflexivity.
Qed.

Lemma cases_same f1 f2 : fsame f1 f2 -> forall cs ko l,
  snd (cases_emit f1 cs ko l) = snd (cases_emit f2 cs ko l) /\
  flat_map jumps (fst (cases_emit f1 cs ko l)) = flat_map jumps (fst (cases_emit f2 cs ko l)).
Proof.
  intros Hf. induction cs as [|[keys b] cs IH]; intros ko l; cbn [cases_emit]; [split; reflexivity|].
  destruct (Hf b ko true (Nat.ltb 1 (length keys)) l) as [E1 E2].
  destruct (f1 b ko true _ l) as [[c1 l1] b1]. destruct (f2 b ko true _ l) as [[c2 l2] b2]. cbn [fst snd] in *. subst l2.
  specialize (IH ko l1). destruct (cases_emit f1 cs ko l1) as [d1 m1]. destruct (cases_emit f2 cs ko l1) as [d2 m2].
  destruct IH as [I1 I2]. cbn [fst snd flat_map] in *. split; [exact I1|].
  rewrite !jumps_app, E2, I2. destruct b1, b2; reflexivity.
Qed.

Lemma ipush_same f1 f2 : fsame f1 f2 -> forall r ko pd mk l, same (ipush_emit g f1 r ko pd mk l) (ipush_emit g f2 r ko pd mk l).
Proof.
  intros Hf r ko pd mk l. unfold ipush_emit. destruct (nth_error g r) as [[b|k|]|]; try (split; reflexivity).
  destruct (Hf b ko pd mk (S l)) as [E1 E2].
  destruct (f1 b ko pd mk (S l)) as [[c1 l1] b1]. destruct (f2 b ko pd mk (S l)) as [[c2 l2] b2]. cbn [fst snd] in *.
  unfold same. cbn [fst snd]. split; [exact E1|]. rewrite !jumps_block', !jumps_cons, !jumps_app, E2. reflexivity.
Qed.

Lemma emit_same n : fsame (emit g ast inl asu u1 n) (emit g ast inl asu u2 n).
Proof.
  induction n as [|n IH]; intros e ko pd mk l; [split; reflexivity|].
  destruct e; cbn [emit]; try (split; reflexivity).
  - destruct (inl r); [|destruct (asu r); split; reflexivity].
    pose proof (ipush_same _ _ IH r ko pd mk l) as [E1 E2].
    destruct (ipush_emit g (emit g ast inl asu u1 n) r ko pd mk l) as [[c1 l1] b1].
    destruct (ipush_emit g (emit g ast inl asu u2 n) r ko pd mk l) as [[c2 l2] b2]. split; assumption.
  - apply seq_same. exact IH.
  - pose proof (alt_same _ _ IH es ko l (S l)) as [E1 E2].
    destruct (alt_emit u1 _ es ko l (S l)) as [c1 l1]. destruct (alt_emit u2 _ es ko l (S l)) as [c2 l2]. cbn [fst snd] in *.
    unfold same; cbn [fst snd]. split; [exact E1|]. rewrite !jumps_app, !jumps_block', !jumps_lbl_if'. rewrite !jumps_cons. cbn [jumps1 app]. rewrite E2. reflexivity.
  - destruct (IH e ko false false (S l)) as [E1 E2].
    destruct (emit g ast inl asu u1 n e ko false false (S l)) as [[c1 l1] b1]. destruct (emit g ast inl asu u2 n e ko false false (S l)) as [[c2 l2] b2].
    unfold same; cbn [fst snd] in *. split; [exact E1|]. rewrite !jumps_block', !jumps_cons, !jumps_app, E2. reflexivity.
  - destruct (IH e l false false (S l)) as [E1 E2].
    destruct (emit g ast inl asu u1 n e l false false (S l)) as [[c1 l1] b1]. destruct (emit g ast inl asu u2 n e l false false (S l)) as [[c2 l2] b2].
    unfold same; cbn [fst snd] in *. split; [exact E1|]. rewrite !jumps_block', !jumps_cons, !jumps_app, !jumps_lbl_if', E2. reflexivity.
  - destruct (IH e l false false (S (S l))) as [E1 E2].
    destruct (emit g ast inl asu u1 n e l false false (S (S l))) as [[c1 l1] b1]. destruct (emit g ast inl asu u2 n e l false false (S (S l))) as [[c2 l2] b2].
    unfold same; cbn [fst snd] in *. split; [exact E1|]. rewrite !jumps_app, !jumps_block', !jumps_cons, !jumps_app, !jumps_lbl_if', E2. reflexivity.
  - destruct (IH e (S l) false false (S (S l))) as [E1 E2].
    destruct (emit g ast inl asu u1 n e (S l) false false (S (S l))) as [[c1 l1] b1]. destruct (emit g ast inl asu u2 n e (S l) false false (S (S l))) as [[c2 l2] b2].
    unfold same; cbn [fst snd] in *. split; [exact E1|]. rewrite !jumps_app, !jumps_block', !jumps_cons, !jumps_app, !jumps_lbl_if', E2. reflexivity.
  - destruct (IH e ko false false (S (S l))) as [E1 E2].
    destruct (emit g ast inl asu u1 n e ko false false (S (S l))) as [[c1 l1] b1]. destruct (emit g ast inl asu u2 n e ko false false (S (S l))) as [[c2 l2] b2].
    cbn [fst snd] in *. subst l2.
    destruct (IH e (S l) false false l1) as [F1 F2].
    destruct (emit g ast inl asu u1 n e (S l) false false l1) as [[d1 m1] e1]. destruct (emit g ast inl asu u2 n e (S l) false false l1) as [[d2 m2] e2].
    unfold same; cbn [fst snd] in *. split; [exact F1|]. rewrite !jumps_app, !jumps_block', !jumps_cons, !jumps_app, !jumps_lbl_if', E2, F2. reflexivity.
  - destruct (IH e ko pd mk (S l)) as [E1 E2].
    destruct (emit g ast inl asu u1 n e ko pd mk (S l)) as [[c1 l1] b1]. destruct (emit g ast inl asu u2 n e ko pd mk (S l)) as [[c2 l2] b2].
    unfold same; cbn [fst snd] in *. split; [exact E1|]. rewrite !jumps_block', !jumps_cons, !jumps_app, E2. reflexivity.
  - pose proof (cases_same _ _ IH cs ko (S l)) as [E1 E2].
    destruct (cases_emit (emit g ast inl asu u1 n) cs ko (S l)) as [k1 l1]. destruct (cases_emit (emit g ast inl asu u2 n) cs ko (S l)) as [k2 l2].
    cbn [fst snd] in *. subst l2.
    destruct (IH e ko false false l1) as [F1 F2].
    destruct (emit g ast inl asu u1 n e ko false false l1) as [[d1 m1] e1]. destruct (emit g ast inl asu u2 n e ko false false l1) as [[d2 m2] e2].
    unfold same; cbn [fst snd] in *. split; [exact F1|]. rewrite !jumps_app, !jumps_block', !jumps_lbl_if'.
    rewrite !app_nil_r.
    assert (JS : forall cls d, jumps [KSwitch cls d] = flat_map jumps cls ++ jumps d).
    { intros cls d. unfold jumps. cbn [flat_map jumps1]. rewrite app_nil_r. reflexivity. }
    rewrite !JS, E2, !jumps_app, F2. destruct e1, e2; reflexivity.
Qed.
End Indep.

(** * a whole rule function *)
Definition fn_ok (F : list code) : Prop :=
  NoDup (lbls F) /\ scoped [] F = true /\ (forall x, In x (lbls F) -> In x (jumps F)) /\
  head_decls F = true /\ forallb decl1 F = true /\ forallb cases1 F = true.

Lemma rule_emit_wf g ast inl asu used n r ko F l1 :
  rule_emit g ast inl asu used n r ko = (F, l1) ->
  (forall j, In j (jumps F) -> used j = true) ->
  S ko <= l1 /\
  (forall j, In j (jumps F) -> ko <= j < l1) /\
  (forall x, In x (lbls F) -> ko <= x < l1 /\ used x = true) /\
  NoDup (lbls F) /\ scoped [] F = true /\
  head_decls F = true /\ forallb decl1 F = true /\ forallb cases1 F = true.
Proof.
  unfold rule_emit. destruct (ipush_emit g (emit g ast inl asu used n) r ko false false (S ko)) as [[c lx] llx] eqn:Ec.
  intros H Hu. inv H.
  assert (Em : Em ast used ko (S ko) c l1 llx).
  { eapply ipush_emit_Em; [|exact Ec]. intros. eapply emit_Em; eauto. }
  destruct (proj1 (ranges ast used) _ _ _ _ _ Em) as (A1 & A2 & A3).
  pose proof (proj1 (labels_unique ast used) _ _ _ _ _ Em) as B.
  pose proof (proj1 (gotos_in_scope ast used) _ _ _ _ _ Em) as C.
  destruct (proj1 (flag_exact_and_cases ast used) _ _ _ _ _ Em) as (_ & D2).
  destruct (proj1 (declarations_at_head ast used) _ _ _ _ _ Em) as (E1 & E2).
  set (pre1 := if ast then [KSt] else []) in *.
  set (pre2 := if (ast || used ko)%bool then [KSave ko] else []) in *.
  set (pm := if ast then [KMemo ko] else []) in *.
  set (post := pm ++ KSt :: (if used ko then KLbl ko :: pm ++ [KRestore ko; KSt] else [])) in *.
  assert (Jpre1 : jumps pre1 = []) by (unfold pre1; destruct ast; reflexivity).
  assert (Jpre2 : jumps pre2 = []) by (unfold pre2; destruct ast, (used ko); reflexivity).
  assert (Jpost : jumps post = []) by (unfold post, pm; destruct ast, (used ko); reflexivity).
  assert (Lpre1 : lbls pre1 = []) by (unfold pre1; destruct ast; reflexivity).
  assert (Lpre2 : lbls pre2 = []) by (unfold pre2; destruct ast, (used ko); reflexivity).
  assert (Lpost : lbls post = if used ko then [ko] else []) by (unfold post, pm; destruct ast, (used ko); reflexivity).
  assert (Dpost : dlbls post = if used ko then [ko] else []) by (unfold post, pm; destruct ast, (used ko); reflexivity).
  assert (JF : jumps (pre1 ++ pre2 ++ c ++ post) = jumps c) by (rewrite !jumps_app, Jpre1, Jpre2, Jpost, app_nil_r; reflexivity).
  assert (LF : lbls (pre1 ++ pre2 ++ c ++ post) = lbls c ++ (if used ko then [ko] else [])) by (rewrite !lbls_app, Lpre1, Lpre2, Lpost; reflexivity).
  rewrite JF in Hu.
  split; [lia|]. split; [|split; [|split; [|split; [|split; [|split]]]]].
  - intros j Hj. rewrite JF in Hj. destruct (A2 _ Hj); lia.
  - intros x Hx. rewrite LF in Hx. apply in_app_or in Hx as [Hx|Hx].
    + destruct (A3 _ Hx). split; [lia|auto].
    + destruct (used ko) eqn:Eu; [|destruct Hx]. destruct Hx as [<-|[]]. split; [lia|exact Eu].
  - rewrite LF. apply nodup_app; [exact B|destruct (used ko); repeat constructor; intros []|].
    intros x Hx Hk. destruct (A3 _ Hx). destruct (used ko); [|destruct Hk]. destruct Hk as [<-|[]]. lia.
  - apply scoped_app; [unfold pre1; destruct ast; reflexivity|].
    apply scoped_app; [unfold pre2; destruct ast, (used ko); reflexivity|].
    apply scoped_app; [|unfold post, pm; destruct ast, (used ko); reflexivity].
    eapply (scoped_into ko); [apply C; exact Hu|]. intros Hj. rewrite Dpost, (Hu _ Hj). left. reflexivity.
  - assert (Np : nodecl (c ++ post) = true).
    { unfold nodecl. rewrite forallb_app. fold (nodecl c). rewrite E1. unfold post, pm. destruct ast, (used ko); reflexivity. }
    unfold pre1, pre2. destruct ast; cbn [orb app].
    + unfold head_decls. cbn [drop_while is_st is_decl]. apply (nodecl_suffix is_decl). exact Np.
    + destruct (used ko) eqn:Eu; cbn [app].
      * apply head_decls_cons; [reflexivity|exact Np].
      * apply head_decls_nodecl. exact Np.
  - rewrite !forallb_app, E2. unfold pre1, pre2, post, pm. destruct ast, (used ko); reflexivity.
  - rewrite !forallb_app, D2. unfold pre1, pre2, post, pm. destruct ast, (used ko); reflexivity.
Qed.

(** * the whole file: the labels printed are exactly the labels jumped to *)
Section File.
Variable g : grammar.
Variable ast inline : bool.
Variable asu : nat -> bool.
Variable cr : list bool * list nat.
Variable fl : nat.
Notation undef := (fun _ : nat => false).        (* no name without a definition *)
Notation pass := (pass g ast inline asu undef cr fl).
Notation once := (once inline cr).

Definition all_jumps (l : list (option (list code))) : list nat :=
  flat_map (fun o => match o with Some c => jumps c | None => [] end) l.

Lemma rule_emit_same u1 u2 n r ko :
  snd (rule_emit g ast once asu u1 n r ko) = snd (rule_emit g ast once asu u2 n r ko) /\
  jumps (fst (rule_emit g ast once asu u1 n r ko)) = jumps (fst (rule_emit g ast once asu u2 n r ko)).
Proof.
  unfold rule_emit.
  destruct (ipush_same g _ _ (emit_same g ast once asu u1 u2 n) r ko false false (S ko)) as [E1 E2].
  destruct (ipush_emit g (emit g ast once asu u1 n) r ko false false (S ko)) as [[c1 l1] b1].
  destruct (ipush_emit g (emit g ast once asu u2 n) r ko false false (S ko)) as [[c2 l2] b2].
  cbn [fst snd] in *. split; [exact E1|].
  rewrite !jumps_app, E2.
  assert (Z : forall u, jumps (if ast then [KSt] else []) = [] /\ jumps (if (ast || u ko)%bool then [KSave ko] else []) = [] /\
                        jumps [KSt] = [] /\ jumps (if u ko then [KLbl ko] ++ (if ast then [KMemo ko] else []) ++ [KRestore ko; KSt] else []) = [] /\ jumps (if ast then [KMemo ko] else []) = []).
  { intros u. destruct ast, (u ko); repeat split; reflexivity. }
  destruct (Z u1) as (Z1 & Z2 & Z3 & Z4 & Z5). destruct (Z u2) as (_ & Y2 & _ & Y4 & _).
  rewrite Z1, Z2, Z3, Z4, Z5, Y2, Y4. reflexivity.
Qed.

Lemma pass_same u1 u2 b1 b2 rs : forall r l,
  map (option_map jumps) (pass b1 u1 rs r l) = map (option_map jumps) (pass b2 u2 rs r l).
Proof.
  induction rs as [|rb rs IH]; intros r l; [reflexivity|].
  assert (Step : forall b u, Emit.pass g ast inline asu (fun _ : nat => false) cr fl b u (rb :: rs) r l =
            if (match rb with RNil => true | _ => false end) then None :: pass b u rs (S r) l
            else if negb (reached cr r) then None :: pass b u rs (S r) (S l)
            else if (once r && negb (l =? 0))%bool then None :: pass b u rs (S r) (S l)
            else let '(c, l1) := rule_emit g ast once asu u fl r l in Some c :: pass b u rs (S r) l1).
  { intros b u. cbn [Emit.pass]. destruct rb; reflexivity. }
  rewrite !Step. destruct (match rb with RNil => true | _ => false end).
  - cbn [map option_map]. rewrite IH. reflexivity.
  - destruct (negb (reached cr r)); [cbn [map option_map]; rewrite IH; reflexivity|].
    destruct (once r && negb (l =? 0))%bool; [cbn [map option_map]; rewrite IH; reflexivity|].
    destruct (rule_emit_same u1 u2 fl r l) as [E1 E2].
    destruct (rule_emit g ast once asu u1 fl r l) as [c1 l1]. destruct (rule_emit g ast once asu u2 fl r l) as [c2 l2].
    cbn [fst snd] in *. subst l2. cbn [map option_map]. rewrite E2, IH. reflexivity.
Qed.

Lemma all_jumps_map l1 l2 : map (option_map jumps) l1 = map (option_map jumps) l2 -> all_jumps l1 = all_jumps l2.
Proof.
  revert l2. induction l1 as [|o1 l1 IH]; intros [|o2 l2] H; try discriminate; [reflexivity|].
  cbn [map] in H. inv H. unfold all_jumps. cbn [flat_map]. fold (all_jumps l1). fold (all_jumps l2). rewrite (IH _ H2).
  destruct o1, o2; cbn [option_map] in *; try discriminate; [inv H1; rewrite H0; reflexivity|reflexivity].
Qed.

Definition fn_facts (used : nat -> bool) (lo : nat) (F : list code) : Prop :=
  NoDup (lbls F) /\ scoped [] F = true /\ head_decls F = true /\ forallb decl1 F = true /\ forallb cases1 F = true /\
  (forall x, In x (lbls F) -> lo <= x /\ used x = true) /\ (forall j, In j (jumps F) -> lo <= j).

Lemma fn_facts_weaken used lo lo' F : lo' <= lo -> fn_facts used lo F -> fn_facts used lo' F.
Proof.
  intros L (a & b & c & d & e & f & h). unfold fn_facts. split; [exact a|]. split; [exact b|]. split; [exact c|]. split; [exact d|]. split; [exact e|].
  split; [intros x Hx; destruct (f x Hx); split; [lia|assumption]|intros j Hj; specialize (h j Hj); lia].
Qed.

Lemma pass_wf used rs : forall r l,
  (forall j, In j (all_jumps (pass true used rs r l)) -> used j = true) ->
  Forall (fun o => match o with Some F => fn_facts used l F | None => True end) (pass true used rs r l) /\
  (forall F x, In (Some F) (pass true used rs r l) -> In x (lbls F) -> In x (all_jumps (pass true used rs r l)) -> In x (jumps F)).
Proof.
  induction rs as [|rb rs IH]; intros r l Hu; cbn [Emit.pass] in *; [split; [constructor|intros F x []]|].
  destruct (match rb with RNil => if false then true else true | _ => false end).
  { unfold all_jumps in Hu. cbn [flat_map app] in Hu. destruct (IH (S r) l Hu) as [I1 I2].
    split; [constructor; [exact I|exact I1]|]. intros F x [E|Hin]; [discriminate|]. unfold all_jumps. cbn [flat_map app]. apply I2. exact Hin. }
  destruct (negb (reached cr r)).
  { unfold all_jumps in Hu. cbn [flat_map app] in Hu. destruct (IH (S r) (S l) Hu) as [I1 I2].
    split.
    - constructor; [exact I|]. eapply Forall_impl; [|exact I1]. intros [F|] HF; [|exact I].
      eapply fn_facts_weaken; [|exact HF]. lia.
    - intros F x [E|Hin]; [discriminate|]. unfold all_jumps. cbn [flat_map app]. apply I2. exact Hin. }
  destruct (once r && negb (l =? 0))%bool.
  { unfold all_jumps in Hu. cbn [flat_map app] in Hu. destruct (IH (S r) (S l) Hu) as [I1 I2].
    split.
    - constructor; [exact I|]. eapply Forall_impl; [|exact I1]. intros [F|] HF; [|exact I].
      eapply fn_facts_weaken; [|exact HF]. lia.
    - intros F x [E|Hin]; [discriminate|]. unfold all_jumps. cbn [flat_map app]. apply I2. exact Hin. }
  destruct (rule_emit g ast once asu used fl r l) as [F0 l1] eqn:EF.
  unfold all_jumps in Hu. cbn [flat_map] in Hu. fold (all_jumps (pass true used rs (S r) l1)) in Hu.
  assert (Hu0 : forall j, In j (jumps F0) -> used j = true) by (intros j Hj; apply Hu; apply in_or_app; left; exact Hj).
  assert (Hu1 : forall j, In j (all_jumps (pass true used rs (S r) l1)) -> used j = true) by (intros j Hj; apply Hu; apply in_or_app; right; exact Hj).
  destruct (rule_emit_wf _ _ _ _ _ _ _ _ _ _ EF Hu0) as (W1 & W2 & W3 & W4 & W5 & W6 & W7 & W8).
  destruct (IH (S r) l1 Hu1) as [I1 I2].
  assert (Rest : forall F, In (Some F) (pass true used rs (S r) l1) -> (forall x, In x (lbls F) -> l1 <= x) /\ (forall j, In j (jumps F) -> l1 <= j)).
  { intros F HF. rewrite Forall_forall in I1. specialize (I1 _ HF). cbn in I1. destruct I1 as (_ & _ & _ & _ & _ & f & h).
    split; [intros x Hx; destruct (f x Hx); auto|exact h]. }
  assert (RestJ : forall j, In j (all_jumps (pass true used rs (S r) l1)) -> l1 <= j).
  { intros j Hj. unfold all_jumps in Hj. apply in_flat_map in Hj as ([F|] & HF & Hj); [|destruct Hj]. destruct (Rest F HF) as [_ h]. auto. }
  split.
  - constructor.
    + unfold fn_facts. split; [exact W4|]. split; [exact W5|]. split; [exact W6|]. split; [exact W7|]. split; [exact W8|].
      split; [intros y Hy; destruct (W3 y Hy); split; [lia|assumption]|intros y Hy; destruct (W2 y Hy); lia].
    + eapply Forall_impl; [|exact I1]. intros [F|] HF; [|exact I].
      eapply fn_facts_weaken; [|exact HF]. lia.
  - intros F x [E|Hin] Hx Hj.
    + inv E. unfold all_jumps in Hj. cbn [flat_map] in Hj. apply in_app_or in Hj as [Hj|Hj]; [exact Hj|].
      fold (all_jumps (pass true used rs (S r) l1)) in Hj. specialize (RestJ _ Hj). destruct (W3 x Hx). lia.
    + unfold all_jumps in Hj. cbn [flat_map] in Hj. apply in_app_or in Hj as [Hj|Hj].
      * destruct (Rest F Hin) as [f _]. specialize (f x Hx). destruct (W2 x Hj). lia.
      * apply I2; auto.
Qed.

End File.

(** every rule function of a generated file is well formed as far as labels, gotos, declarations and
    case clauses go (grammars in which every name is defined) *)
Theorem emit_all_wellformed g ast inline asu :
  Forall (fun o => match o with Some F => fn_ok F | None => True end) (emit_all g ast inline asu (fun _ => false)).
Proof.
  unfold emit_all.
  set (cr := count_rules g). set (fl := fuel g).
  set (dj := dry_jumps_of g ast inline asu (fun _ => false) cr fl).
  set (used := used_of dj).
  assert (Ej : all_jumps (pass g ast inline asu (fun _ => false) cr fl true used g 0 0) = dj).
  { unfold dj, dry_jumps_of. apply all_jumps_map. apply pass_same. }
  assert (Hused : forall x, used x = true <-> In x dj).
  { intros x. unfold used, used_of. rewrite existsb_exists. split.
    - intros (y & Hy & E). apply Nat.eqb_eq in E. subst. exact Hy.
    - intros H. exists x. split; [exact H|apply Nat.eqb_refl]. }
  destruct (pass_wf g ast inline asu cr fl used g 0 0) as [W1 W2].
  { intros j Hj. apply Hused. rewrite <- Ej. exact Hj. }
  apply Forall_forall. intros o Ho. rewrite Forall_forall in W1. specialize (W1 o Ho).
  destruct o as [F|]; [|exact I].
  destruct W1 as (a & b & c & d & e & f & h).
  unfold fn_ok. split; [exact a|]. split; [exact b|]. split; [|auto].
  intros x Hx. apply (W2 F x Ho Hx). rewrite Ej. apply Hused. destruct (f x Hx). assumption.
Qed.

(** * linked grammars with names that have no definition
    The user's rules come first; behind them stand only rules made for actions, for undefined names and
    for captures (Model/Link.v).  The dry pass also walks the slots of undefined names - they take labels
    there and none in the real pass - but only behind the last user rule, where no function jumps. *)
Section Linked.
Variable g : grammar.
Variable ast inline : bool.
Variable asu : nat -> bool.
Variable undef : nat -> bool.
Variable cr : list bool * list nat.
Variable fl : nat.
Notation passu := (Emit.pass g ast inline asu undef cr fl).
Notation pass0 := (Emit.pass g ast inline asu (fun _ : nat => false) cr fl).
Notation once := (once inline cr).

(** the real pass never looks at [undef] *)
Lemma pass_real_undef u rs : forall r l, passu true u rs r l = pass0 true u rs r l.
Proof.
  induction rs as [|rb rs IH]; intros r l; [reflexivity|]. cbn [Emit.pass].
  assert (E : (match rb with RNil => if undef r then true else true | _ => false end) = (match rb with RNil => if false then true else true | _ => false end)).
  { destruct rb; try reflexivity. destruct (undef r); reflexivity. }
  rewrite E. destruct (match rb with RNil => if false then true else true | _ => false end); [rewrite IH; reflexivity|].
  destruct (negb (reached cr r)); [rewrite IH; reflexivity|].
  destruct (once r && negb (l =? 0))%bool; [rewrite IH; reflexivity|].
  destruct (rule_emit g ast once asu u fl r l) as [c l1]. rewrite IH. reflexivity.
Qed.

(** where a pass ends *)
Fixpoint pend (real : bool) (u : nat -> bool) (rs : list rbody) (r l : nat) : nat :=
  match rs with
  | [] => l
  | rb :: rs' =>
      if (match rb with RNil => if undef r then real else true | _ => false end) then pend real u rs' (S r) l
      else if negb (reached cr r) then pend real u rs' (S r) (S l)
      else if (once r && negb (l =? 0))%bool then pend real u rs' (S r) (S l)
      else pend real u rs' (S r) (snd (rule_emit g ast once asu u fl r l))
  end.

Lemma pass_app b u rs1 : forall rs2 r l,
  passu b u (rs1 ++ rs2) r l = passu b u rs1 r l ++ passu b u rs2 (r + length rs1) (pend b u rs1 r l).
Proof.
  induction rs1 as [|rb rs1 IH]; intros rs2 r l; [cbn; rewrite Nat.add_0_r; reflexivity|].
  cbn [app Emit.pass pend length].
  destruct (match rb with RNil => if undef r then b else true | _ => false end).
  { rewrite IH. cbn [app]. replace (S r + length rs1) with (r + S (length rs1)) by lia. reflexivity. }
  destruct (negb (reached cr r)).
  { rewrite IH. cbn [app]. replace (S r + length rs1) with (r + S (length rs1)) by lia. reflexivity. }
  destruct (once r && negb (l =? 0))%bool.
  { rewrite IH. cbn [app]. replace (S r + length rs1) with (r + S (length rs1)) by lia. reflexivity. }
  destruct (rule_emit g ast once asu u fl r l) as [c l1]. cbn [snd]. rewrite IH. cbn [app].
  replace (S r + length rs1) with (r + S (length rs1)) by lia. reflexivity.
Qed.

Lemma all_jumps_app a b : all_jumps (a ++ b) = all_jumps a ++ all_jumps b.
Proof. unfold all_jumps. apply flat_map_app. Qed.

(** on the user's rules the two passes agree, whatever [undef] says *)
Lemma pass_bodies b u bs : forall r l, passu b u (map RBody bs) r l = pass0 b u (map RBody bs) r l.
Proof.
  induction bs as [|x bs IH]; intros r l; [reflexivity|]. cbn [map Emit.pass].
  destruct (negb (reached cr r)); [rewrite IH; reflexivity|].
  destruct (once r && negb (l =? 0))%bool; [rewrite IH; reflexivity|].
  destruct (rule_emit g ast once asu u fl r l) as [c l1]. rewrite IH. reflexivity.
Qed.

(** functions of action rules and of slots without a body contain no goto *)
Lemma rule_emit_nobody_jumps u n r ko :
  (forall b, nth_error g r <> Some (RBody b)) -> jumps (fst (rule_emit g ast once asu u n r ko)) = [].
Proof.
  intros Hn. unfold rule_emit, ipush_emit.
  destruct (nth_error g r) as [[b|k|]|] eqn:E; [exfalso; eapply Hn; reflexivity| | |]; cbn [fst];
    rewrite !jumps_app; destruct ast, (u ko); reflexivity.
Qed.

Lemma pass_nobody_jumps b u rs : forall r l,
  (forall i rb, nth_error rs i = Some rb -> nth_error g (r + i) = Some rb /\ forall x, rb <> RBody x) ->
  all_jumps (passu b u rs r l) = [].
Proof.
  induction rs as [|rb rs IH]; intros r l H; [reflexivity|]. cbn [Emit.pass].
  assert (Hrest : forall i rb0, nth_error rs i = Some rb0 -> nth_error g (S r + i) = Some rb0 /\ forall x, rb0 <> RBody x).
  { intros i rb0 Hi. replace (S r + i) with (r + S i) by lia. apply (H (S i)). exact Hi. }
  destruct (match rb with RNil => if undef r then b else true | _ => false end); [unfold all_jumps; cbn [flat_map app]; apply IH; exact Hrest|].
  destruct (negb (reached cr r)); [unfold all_jumps; cbn [flat_map app]; apply IH; exact Hrest|].
  destruct (once r && negb (l =? 0))%bool; [unfold all_jumps; cbn [flat_map app]; apply IH; exact Hrest|].
  destruct (H 0 rb eq_refl) as [Hg Hnb]. rewrite Nat.add_0_r in Hg.
  pose proof (rule_emit_nobody_jumps u fl r l) as J.
  destruct (rule_emit g ast once asu u fl r l) as [c l1]. cbn [fst] in J.
  unfold all_jumps. cbn [flat_map]. rewrite J; [|intros x Hx; rewrite Hg in Hx; inv Hx; eapply Hnb; reflexivity].
  cbn [app]. apply IH. exact Hrest.
Qed.

End Linked.

Theorem emit_all_wellformed_linked bs app ast inline asu undef :
  (forall rb, In rb app -> forall x, rb <> RBody x) ->
  Forall (fun o => match o with Some F => fn_ok F | None => True end) (emit_all (map RBody bs ++ app) ast inline asu undef).
Proof.
  intros Happ. set (g := map RBody bs ++ app). unfold emit_all.
  set (cr := count_rules g). set (fl := fuel g).
  set (dj := dry_jumps_of g ast inline asu undef cr fl).
  set (used := used_of dj).
  rewrite pass_real_undef.
  assert (Hsuffix : forall i rb, nth_error app i = Some rb -> nth_error g (0 + length (map RBody bs) + i) = Some rb /\ forall x, rb <> RBody x).
  { intros i rb Hi. split; [|apply Happ; eapply nth_error_In; eauto]. unfold g. cbn [Nat.add]. rewrite nth_error_app2 by lia.
    replace (length (map RBody bs) + i - length (map RBody bs)) with i by lia. exact Hi. }
  assert (Ej : all_jumps (Emit.pass g ast inline asu (fun _ => false) cr fl true used g 0 0) = dj).
  { unfold dj, dry_jumps_of. fold (all_jumps (Emit.pass g ast inline asu undef cr fl false (fun _ => false) g 0 0)).
    rewrite <- (pass_real_undef g ast inline asu undef cr fl used g 0 0).
    unfold g at 2 4. rewrite !pass_app, !all_jumps_app.
    rewrite (pass_nobody_jumps g ast inline asu undef cr fl true used app _ _ Hsuffix).
    rewrite (pass_nobody_jumps g ast inline asu undef cr fl false (fun _ => false) app _ _ Hsuffix).
    rewrite !app_nil_r.
    rewrite (pass_bodies g ast inline asu undef cr fl true used bs 0 0).
    rewrite (pass_bodies g ast inline asu undef cr fl false (fun _ => false) bs 0 0).
    apply all_jumps_map. apply pass_same. }
  assert (Hused : forall x, used x = true <-> In x dj).
  { intros x. unfold used, used_of. rewrite existsb_exists. split.
    - intros (y & Hy & E). apply Nat.eqb_eq in E. subst. exact Hy.
    - intros H. exists x. split; [exact H|apply Nat.eqb_refl]. }
  destruct (pass_wf g ast inline asu cr fl used g 0 0) as [W1 W2].
  { intros j Hj. apply Hused. rewrite <- Ej. exact Hj. }
  apply Forall_forall. intros o Ho. rewrite Forall_forall in W1. specialize (W1 o Ho).
  destruct o as [F|]; [|exact I].
  destruct W1 as (a & b & c & d & e & f & h).
  unfold fn_ok. split; [exact a|]. split; [exact b|]. split; [|auto].
  intros x Hx. apply (W2 F x Ho Hx). rewrite Ej. apply Hused. destruct (f x Hx). assumption.
Qed.
