(** Execute(), AST() and translatePositions() compute what the derivation forest / the line
    structure of the input say (C04, C05, C11 positions). *)
From Coq Require Import Sorting.Sorted.
From PegV Require Import Base.Tac Base.ListX Spec.Syntax Spec.Peg Spec.Tokens Model.Machine Model.Runtime Proofs.Forest.

(** * C04 *)
Section Exec.
Variable g : grammar.
Variable ptx : nat.

Lemma trace_dt_node r b e kids txt :
  trace_dt g ptx (Node r b e kids) txt =
    let '(evs, txt1) := trace_forest g ptx kids txt in
    if r =? ptx then (evs, (b, e))
    else match nth_error g r with
         | Some (RAct k) => (evs ++ [(k, txt1)], txt1)
         | _ => (evs, txt1)
         end.
Proof.
  cbn [trace_dt].
  replace ((fix go (l : list dt) (txt0 : nat * nat) {struct l} := match l with
            | [] => ([], txt0)
            | k :: l' => let '(e1, t1) := trace_dt g ptx k txt0 in let '(e2, t2) := go l' t1 in (e1 ++ e2, t2)
            end) kids txt) with (trace_forest g ptx kids txt); [reflexivity|].
  revert txt; induction kids as [|k kids IH]; intros txt; cbn; [reflexivity|].
  destruct (trace_dt g ptx k txt) as [e1 t1]. rewrite IH. reflexivity.
Qed.

(** the text register after executing a token list *)
Definition text_after (ts : list tok) (txt : nat * nat) : nat * nat :=
  fold_left (fun t (tk : tok) => if fst tk =? ptx then snd tk else t) ts txt.

Lemma text_after_app ts1 ts2 txt : text_after (ts1 ++ ts2) txt = text_after ts2 (text_after ts1 txt).
Proof. unfold text_after. apply fold_left_app. Qed.

Lemma execute_app ts1 : forall ts2 txt,
  execute g ptx (ts1 ++ ts2) txt = execute g ptx ts1 txt ++ execute g ptx ts2 (text_after ts1 txt).
Proof.
  induction ts1 as [|[r [b e]] ts1 IH]; intros ts2 txt; cbn [execute app]; [reflexivity|].
  unfold text_after. cbn [fold_left fst snd]. fold (text_after ts1).
  destruct (r =? ptx) eqn:Er.
  - rewrite IH. reflexivity.
  - destruct (nth_error g r) as [[?|k|]|]; rewrite IH; reflexivity.
Qed.

Definition exec_dt_ok (t : dt) : Prop :=
  forall txt, execute g ptx (postorder t) txt = fst (trace_dt g ptx t txt) /\
              text_after (postorder t) txt = snd (trace_dt g ptx t txt).
Definition exec_forest_ok (f : list dt) : Prop :=
  forall txt, execute g ptx (flat f) txt = fst (trace_forest g ptx f txt) /\
              text_after (flat f) txt = snd (trace_forest g ptx f txt).

Lemma exec_cons t f : exec_dt_ok t -> exec_forest_ok f -> exec_forest_ok (t :: f).
Proof.
  intros IHt IHf txt. rewrite flat_cons. cbn [trace_forest].
  destruct (IHt txt) as [E1 E2]. destruct (trace_dt g ptx t txt) as [e1 t1]. cbn [fst snd] in *.
  destruct (IHf t1) as [F1 F2]. destruct (trace_forest g ptx f t1) as [e2 t2]. cbn [fst snd] in *.
  rewrite execute_app, text_after_app. rewrite E1, E2, F1, F2. auto.
Qed.

Lemma exec_node r b e kids : exec_forest_ok kids -> exec_dt_ok (Node r b e kids).
Proof.
  intros IH txt. rewrite postorder_node, trace_dt_node.
  destruct (IH txt) as [E1 E2]. destruct (trace_forest g ptx kids txt) as [evs txt1]. cbn [fst snd] in *.
  rewrite execute_app, text_after_app. rewrite E1, E2.
  cbn [execute]. unfold text_after at 1. cbn [fold_left fst snd].
  destruct (r =? ptx) eqn:Er; cbn [fst snd]; [rewrite app_nil_r; auto|].
  destruct (nth_error g r) as [[?|k|]|]; cbn [fst snd]; rewrite ?app_nil_r; auto.
Qed.

Theorem execute_is_trace f txt : execute g ptx (flat f) txt = fst (trace_forest g ptx f txt).
Proof.
  apply (forest_ind2 exec_dt_ok exec_forest_ok exec_node (fun txt => conj eq_refl eq_refl) exec_cons f txt).
Qed.

End Exec.

(** * C05: the stack algorithm of AST() rebuilds the pruned derivation forest *)
Definition rroot (x : rose) : tok := match x with Rose t _ => t end.
Definition before (lo : nat) (S : list rose) : Prop :=
  Forall (fun x => tk_begin (rroot x) < tk_end (rroot x) /\ tk_end (rroot x) <= lo) S.
Definition within (b e : nat) (xs : list rose) : Prop :=
  Forall (fun x => b <= tk_begin (rroot x) /\ tk_end (rroot x) <= e) xs.

Lemma prune_dt_node r b e kids :
  prune_dt (Node r b e kids) = if b =? e then [] else [Rose (r, (b, e)) (prune_forest kids)].
Proof. reflexivity. Qed.

Lemma absorb_all t xs : forall S acc,
  within (tk_begin t) (tk_end t) xs ->
  (match S with [] => True | s :: _ => ~ (tk_begin t <= tk_begin (rroot s) /\ tk_end (rroot s) <= tk_end t) end) ->
  absorb t (rev xs ++ S) acc = (xs ++ acc, S).
Proof.
  induction xs as [|x xs IH] using rev_ind; intros S acc Hw HS.
  - cbn [rev app]. destruct S as [|[s ks] S]; cbn [absorb]; [reflexivity|].
    cbn [rroot] in HS. destruct (tk_begin t <=? tk_begin s) eqn:E1; destruct (tk_end s <=? tk_end t) eqn:E2; cbn [andb]; try reflexivity.
    apply Nat.leb_le in E1, E2. exfalso. apply HS. auto.
  - rewrite rev_app_distr. cbn [rev app]. destruct x as [s ks]. cbn [absorb].
    unfold within in Hw. apply Forall_app in Hw as [Hw Hx]. inv Hx. cbn [rroot] in *.
    destruct (Nat.leb_spec (tk_begin t) (tk_begin s)); [|lia]. destruct (Nat.leb_spec (tk_end s) (tk_end t)); [|lia].
    cbn [andb]. rewrite IH; auto. rewrite <- app_assoc. reflexivity.
Qed.

Lemma prune_empty_span f : forall b, wf_forest b b f -> prune_forest f = [].
Proof.
  induction f as [|[r b' e' kids] f IH]; intros b H; [reflexivity|].
  inv H. match goal with H : wf_dt _ |- _ => inv H end.
  match goal with H : wf_forest e' b f |- _ => pose proof (wf_forest_le _ _ _ H); pose proof H as Hrest end.
  assert (b' = b /\ e' = b) as [-> ->] by lia.
  unfold prune_forest. cbn [flat_map]. rewrite prune_dt_node, Nat.eqb_refl. cbn [app]. apply (IH b). exact Hrest.
Qed.

Lemma prune_within : forall lo hi f, wf_forest lo hi f -> within lo hi (prune_forest f).
Proof.
  apply (wf_forest_mut (fun t => match t with Node r b e kids => within b e (prune_dt t) end)
                       (fun lo hi f => within lo hi (prune_forest f))).
  - intros r b e kids Hbe Hk IH. rewrite prune_dt_node. destruct (b =? e); constructor; [|constructor]. cbn; lia.
  - intros; constructor.
  - intros lo hi r b e kids rest Hlo Hdt IHt Hrest IHr.
    pose proof (wf_forest_le _ _ _ Hrest). inv Hdt.
    unfold prune_forest. cbn [flat_map]. apply Forall_app. split.
    + eapply Forall_impl; [|exact IHt]. cbn. intros; lia.
    + eapply Forall_impl; [|exact IHr]. cbn. intros; lia.
Qed.

Lemma before_weaken lo lo' S : before lo S -> lo <= lo' -> before lo' S.
Proof. intros H L. eapply Forall_impl; [|exact H]. cbn. intros; lia. Qed.

Definition ast_dt_ok (t : dt) : Prop :=
  match t with Node r b e kids =>
    forall S, before b S -> fold_left ast_step (postorder t) S = rev (prune_dt t) ++ S end.
Definition ast_forest_ok (lo hi : nat) (f : list dt) : Prop :=
  forall S, before lo S -> fold_left ast_step (flat f) S = rev (prune_forest f) ++ S.

Theorem ast_rebuilds : forall lo hi f, wf_forest lo hi f -> ast_forest_ok lo hi f.
Proof.
  apply (wf_forest_mut ast_dt_ok ast_forest_ok).
  - (* node *)
    intros r b e kids Hbe Hk IH S HS. rewrite postorder_node, fold_left_app, (IH S HS). cbn [fold_left].
    rewrite prune_dt_node. unfold ast_step. cbn [tk_begin tk_end fst snd].
    destruct (Nat.eqb_spec b e) as [->|Hne].
    + rewrite (prune_empty_span kids e Hk). reflexivity.
    + rewrite (absorb_all (r, (b, e)) (prune_forest kids) S []).
      * rewrite app_nil_r. reflexivity.
      * apply prune_within. exact Hk.
      * destruct S as [|s S]; [exact I|]. inv HS. cbn [tk_begin tk_end fst snd]. lia.
  - intros lo hi Hle S HS. reflexivity.
  - intros lo hi r b e kids rest Hlo Hdt IHt Hrest IHr S HS.
    rewrite flat_cons, fold_left_app. unfold ast_dt_ok in IHt.
    rewrite (IHt S (before_weaken _ _ _ HS Hlo)).
    rewrite IHr.
    + unfold prune_forest. cbn [flat_map]. rewrite rev_app_distr, app_assoc. reflexivity.
    + inv Hdt. rewrite prune_dt_node. destruct (Nat.eqb_spec b e) as [->|Hne]; cbn [rev app].
      * eapply before_weaken; [exact HS|lia].
      * constructor; [cbn; lia|]. eapply before_weaken; [exact HS|lia].
Qed.

(** AST() of the token list of a successful parse *)
Corollary ast_of_parse r p kids :
  wf_forest 0 p [Node r 0 p kids] ->
  ast (flat [Node r 0 p kids]) = if 0 =? p then None else Some (Rose (r, (0, p)) (prune_forest kids)).
Proof.
  intros W. unfold ast, ast_stack. rewrite (ast_rebuilds 0 p _ W []) by constructor.
  rewrite app_nil_r. unfold prune_forest. cbn [flat_map]. rewrite app_nil_r, prune_dt_node.
  destruct (0 =? p); reflexivity.
Qed.

(** * C11: translatePositions reports 1-based line and column *)
Lemma translate_f_spec b : forall i line sym want acc,
  StronglySorted le want -> (forall p, In p want -> i <= p < i + length b) ->
  translate_f b i line sym want acc = acc ++ map (fun p => (p, linecol_f b (p - i) line (S sym))) want.
Proof.
  induction b as [|c b IH]; intros i line sym want acc Hs Hr.
  - destruct want as [|p want]; [cbn; rewrite app_nil_r; reflexivity|].
    specialize (Hr p (or_introl eq_refl)). cbn in Hr. lia.
  - cbn [translate_f].
    (* the inner loop consumes the leading positions equal to i *)
    set (take := fix take (w : list nat) (acc0 : list (nat * (nat * nat))) {struct w} :=
                   match w with
                   | [] => ([], acc0)
                   | p :: w' => if p =? i then take w' (acc0 ++ [(p, (line, S sym))]) else (w, acc0)
                   end).
    assert (Htake : forall w acc0, StronglySorted le w -> (forall p, In p w -> i <= p) ->
              exists w1 w2, w = w1 ++ w2 /\ Forall (fun p => p = i) w1 /\ (forall p, In p w2 -> i < p) /\
                            take w acc0 = (w2, acc0 ++ map (fun p => (p, (line, S sym))) w1)).
    { induction w as [|p w IHw]; intros acc0 Hsw Hlo.
      - exists [], []. cbn. rewrite app_nil_r. repeat split; auto. intros ? [].
      - inv Hsw. cbn [take]. destruct (Nat.eqb_spec p i) as [->|Hne].
        + destruct (IHw (acc0 ++ [(i, (line, S sym))]) H1 (fun q Hq => Hlo q (or_intror Hq))) as (w1 & w2 & -> & F1 & F2 & E).
          exists (i :: w1), w2. split; [reflexivity|]. split; [constructor; auto|]. split; [exact F2|].
          rewrite E. cbn [map]. rewrite <- app_assoc. reflexivity.
        + exists [], (p :: w). split; [reflexivity|]. split; [constructor|]. split.
          * intros q [<-|Hq]; [specialize (Hlo p (or_introl eq_refl)); lia|].
            rewrite Forall_forall in H2. specialize (H2 q Hq). specialize (Hlo p (or_introl eq_refl)). lia.
          * cbn. rewrite app_nil_r. reflexivity. }
    destruct (Htake want acc Hs (fun p Hp => proj1 (Hr p Hp))) as (w1 & w2 & -> & F1 & F2 & E).
    rewrite E. rewrite map_app, app_assoc.
    assert (M1 : map (fun p => (p, linecol_f (c :: b) (p - i) line (S sym))) w1 = map (fun p => (p, (line, S sym))) w1).
    { apply map_ext_in. intros p Hp. rewrite Forall_forall in F1. rewrite (F1 p Hp), Nat.sub_diag. reflexivity. }
    rewrite M1.
    destruct w2 as [|q w2]; [cbn; rewrite app_nil_r; reflexivity|].
    assert (Hs2 : StronglySorted le (q :: w2)).
    { clear -Hs. induction w1 as [|x w1 IHw1]; [exact Hs|]. inv Hs. auto. }
    assert (Hr2 : forall p, In p (q :: w2) -> S i <= p < S i + length b).
    { intros p Hp. specialize (F2 p Hp). specialize (Hr p (in_or_app _ _ _ (or_intror Hp))). cbn [length] in Hr. lia. }
    assert (M2 : map (fun p => (p, linecol_f (c :: b) (p - i) line (S sym))) (q :: w2)
                 = map (fun p => (p, if Z.eqb c newline then linecol_f b (p - S i) (S line) 1 else linecol_f b (p - S i) line (S (S sym)))) (q :: w2)).
    { apply map_ext_in. intros p Hp. specialize (F2 p Hp).
      replace (p - i) with (S (p - S i)) by lia. cbn [linecol_f]. reflexivity. }
    rewrite M2.
    destruct (Z.eqb c newline).
    + rewrite IH; auto.
    + rewrite IH; auto.
Qed.

Lemma linecol_f_irrel b : forall i line col, i <= length b -> forall b', linecol_f (b ++ b') i line col = linecol_f b i line col.
Proof.
  induction b as [|c b IH]; intros i line col Hi b'; cbn in Hi.
  - assert (i = 0) by lia. subst. destruct b'; reflexivity.
  - destruct i; [reflexivity|]. cbn [app linecol_f]. destruct (Z.eqb c newline); apply IH; lia.
Qed.

Theorem error_fields_spec buf t :
  tk_begin t <= tk_end t -> tk_end t <= length buf ->
  error_fields (buf ++ [endSymbol]) t =
    Some (tk_rule t, linecol buf (tk_begin t), linecol buf (tk_end t),
          firstn (tk_end t - tk_begin t) (skipn (tk_begin t) buf)).
Proof.
  intros Hbe He. unfold error_fields.
  destruct (Nat.leb_spec (tk_begin t) (tk_end t)); [|lia].
  rewrite app_length. cbn [length]. destruct (Nat.leb_spec (tk_end t) (length buf + 1)); [|lia]. cbn [andb].
  unfold translate. rewrite translate_f_spec.
  - cbn [app map assoc]. rewrite !Nat.sub_0_r, Nat.eqb_refl.
    unfold linecol. rewrite !linecol_f_irrel by lia.
    assert (Hslice : firstn (tk_end t - tk_begin t) (skipn (tk_begin t) (buf ++ [endSymbol]))
                     = firstn (tk_end t - tk_begin t) (skipn (tk_begin t) buf)).
    { rewrite skipn_app. rewrite firstn_app. rewrite skipn_length.
      replace (tk_end t - tk_begin t - (length buf - tk_begin t)) with 0 by lia. cbn [firstn]. apply app_nil_r. }
    rewrite Hslice.
    destruct (Nat.eqb_spec (tk_end t) (tk_begin t)) as [Eq|Ne]; [rewrite Eq|rewrite Nat.eqb_refl]; reflexivity.
  - repeat constructor; auto.
  - intros p [<-|[<-|[]]]; rewrite app_length; cbn; lia.
Qed.
