(** Top-level statements about Parse: the machine started by p.parse on a reset state returns what
    the reference semantics says, for every memo / inline setting the generator can choose. *)
From PegV Require Import Base.Tac Base.ListX Spec.Syntax Spec.Peg Model.Machine Model.SkipCheck Model.Runtime Model.Analyses Model.Gen
  Spec.Tokens Spec.WF Proofs.PegFacts Proofs.Sim Proofs.AsuSound Proofs.Forest Proofs.RuntimeProofs Proofs.Total Proofs.SimNoast.

Definition good_grammar (g : grammar) : Prop := forall r b, nth_error g r = Some (RBody b) -> expr_ok b = true.
Definition good_buf (buf : list rune) : Prop := forall c, In c buf -> c <> endSymbol.

(** every switch node is well guarded, whichever rules end up inlined (vacuous without -switch) *)
Definition good_switches (g : grammar) : Prop :=
  forall inline, grammar_swok g (fun r => nth r (inline_table inline g) false).
Definition good_switches_b (g : grammar) : bool :=
  let fuel := S (gsize g) * S (length g) in
  grammar_swok_b g (fun r => nth r (inline_table true g) false) fuel &&
  grammar_swok_b g (fun r => nth r (inline_table false g) false) fuel.
Lemma good_switches_b_ok g : good_switches_b g = true -> good_switches g.
Proof.
  unfold good_switches_b. intros H inline. apply andb_true_iff in H as [H1 H2].
  destruct inline; eapply grammar_swok_b_sound; eauto.
Qed.

Lemma good_grammar_b_ok g : good_grammar_b g = true -> good_grammar g.
Proof.
  intros H r b Hr. unfold good_grammar_b in H. rewrite forallb_forall in H.
  specialize (H _ (nth_error_In _ _ Hr)). exact H.
Qed.

Lemma nth_map_seq (f : nat -> bool) n r : nth r (map f (seq 0 n)) false = true -> f r = true.
Proof.
  intros H. destruct (Nat.ltb_spec r n) as [L|L].
  - rewrite (nth_indep _ false (f 0)) in H by (rewrite map_length, seq_length; exact L).
    rewrite map_nth in H. rewrite seq_nth in H by exact L. exact H.
  - rewrite nth_overflow in H by (rewrite map_length, seq_length; lia). discriminate.
Qed.

Section Top.
Variable g : grammar.
Variable ptx : nat.
Variable buf : list rune.
Variable penv : nat -> nat -> bool.
Hypothesis Hg : good_grammar g.
Hypothesis Hbuf : good_buf buf.
Hypothesis Hsw : good_switches g.

(** The result of p.parse(r) on a parser that was Reset: any previous state [st0] only survives
    as the stale token slice. *)
Definition parse_spec (o : opts) (n r : nat) (st0 : mstate) (rr : out) : Prop :=
  match rr with
  | (Succ p f, evs) =>
      exists st', entry g ptx buf penv o n r (reset st0) = Some (Ret true st') /\
                  pos st' = p /\ p <= length buf /\ live st' = flat f /\ tix st' = length (flat f) /\
                  (exists kids, f = [Node r 0 p kids])
  | (Fail, evs) =>
      exists st', entry g ptx buf penv o n r (reset st0) = Some (Ret false st') /\
                  maxtok st' = first_furthest evs
  end.

Theorem parse_correct_gen (o : opts) :
  o_ast o = true ->
  (forall r, o_asu o r = true -> asu_rule g r = true) ->
  grammar_swok g (o_inline o) ->
  forall n r st0 rr, o_inline o r = false ->
    peg_parse g ptx buf penv n r = Some rr -> parse_spec o n r st0 rr.
Proof.
  intros Hast Hasu Hswo n r st0 rr Hinl H. unfold peg_parse in H.
  assert (Hasu' : forall r, o_asu o r = true -> forall n p evs, peg_ev g ptx buf penv n (EName r) p <> Some (Fail, evs)).
  { intros r' Hr'. apply asu_rule_sound. apply Hasu. exact Hr'. }
  set (st := reset st0).
  assert (Hok : okst buf st) by (unfold okst, st, reset; cbn; lia).
  assert (Hm : memo_ok g ptx buf penv st) by (intros r' p' m' Hl; discriminate).
  pose proof (sim g ptx buf penv o Hast Hg Hswo Hasu' Hbuf n (EName r) false false st rr Hok Hm eq_refl I (flag_ok_false g buf o (EName r) false st) H) as HS.
  destruct n as [|n]; [discriminate|].
  assert (Hslot : exists rb, nth_error g r = Some rb /\ rb <> RNil).
  { cbn [peg_ev] in H. destruct (nth_error g r) as [[b|k|]|]; try discriminate; eexists; split; eauto; discriminate. }
  destruct Hslot as (rb & Erb & Hnn).
  assert (Hentry : entry g ptx buf penv o (S n) r st = run_f g ptx buf penv o (S n) (EName r) false false st).
  { unfold entry. rewrite Erb, Hinl. destruct rb; congruence. }
  change (live st) with (@nil tok) in HS. change (maxtok st) with zero_tok in HS.
  destruct rr as [[|p f] evs]; cbn [simr parse_spec] in *; fold st; rewrite Hentry.
  - destruct HS as (st' & R & _ & _ & M & _). exists st'. auto.
  - destruct HS as (st' & R & P & Ok & T & L & M & _).
    destruct (name_shape _ _ _ _ _ _ _ _ _ _ H) as (kids & Hf & _).
    exists st'. rewrite <- P. repeat split; auto; try apply Ok. exists kids. rewrite P. exact Hf.
Qed.

(** instance: the options the generator computes (any memo / inline switch) *)
Theorem parse_correct (memo inline : bool) :
  let o := mk_opts true memo inline g in
  forall n r st0 rr, o_inline o r = false ->
    peg_parse g ptx buf penv n r = Some rr -> parse_spec o n r st0 rr.
Proof.
  intros o. apply parse_correct_gen; [reflexivity| |].
  - intros r Hr. unfold o, mk_opts in Hr. cbn [o_asu] in Hr. apply nth_map_seq in Hr. exact Hr.
  - exact (Hsw inline).
Qed.

End Top.

(** * Corollaries in the vocabulary of the properties *)
Section Corollaries.
Variable g : grammar.
Variable ptx : nat.
Variable buf : list rune.
Variable penv : nat -> nat -> bool.
Hypothesis Hg : good_grammar g.
Hypothesis Hbuf : good_buf buf.
Hypothesis Hsw : good_switches g.

Definition machine (memo inline : bool) (n r : nat) (st0 : mstate) : option mres :=
  entry g ptx buf penv (mk_opts true memo inline g) n r (reset st0).
Definition slot_ok (inline : bool) (r : nat) : Prop := o_inline (mk_opts true true inline g) r = false.

Lemma slot_ok_memo memo inline r : slot_ok inline r -> o_inline (mk_opts true memo inline g) r = false.
Proof. intros H. exact H. Qed.

(** C01: verdict and consumed prefix are those of the PEG semantics *)
Lemma c01_verdict_prefix memo inline n r st0 rr :
  slot_ok inline r -> peg_parse g ptx buf penv n r = Some rr ->
  match fst rr with
  | Succ p _ => exists st', machine memo inline n r st0 = Some (Ret true st') /\ pos st' = p
  | Fail => exists st', machine memo inline n r st0 = Some (Ret false st')
  end.
Proof.
  intros Hs H. pose proof (parse_correct g ptx buf penv Hg Hbuf Hsw memo inline n r st0 rr (slot_ok_memo memo inline r Hs) H) as P.
  destruct rr as [[|p f] evs]; cbn [parse_spec fst] in *.
  - destruct P as (st' & R & _). exists st'. exact R.
  - destruct P as (st' & R & P1 & _). exists st'. auto.
Qed.

(** C03: the recorded tokens are the post-order of the derivation forest, the last one is the entry
    rule spanning the consumed prefix, and every token lies inside the input *)
Lemma c03_tokens memo inline n r st0 p f evs :
  slot_ok inline r -> peg_parse g ptx buf penv n r = Some (Succ p f, evs) ->
  exists st' kids, machine memo inline n r st0 = Some (Ret true st') /\
    live st' = flat f /\ f = [Node r 0 p kids] /\
    live st' = flat kids ++ [(r, (0, p))] /\
    Forall (inb 0 (length buf)) (live st').
Proof.
  intros Hs H. pose proof (parse_correct g ptx buf penv Hg Hbuf Hsw memo inline n r st0 _ (slot_ok_memo memo inline r Hs) H) as P.
  cbn [parse_spec] in P. destruct P as (st' & R & P1 & Pb & L & T & (kids & Hf)).
  exists st', kids. split; [exact R|]. split; [exact L|]. split; [exact Hf|].
  split; [rewrite L, Hf; apply flat_node|].
  rewrite L. unfold peg_parse in H.
  destruct (ev_ok g ptx buf penv n (EName r) 0 _ (Nat.le_0_l _) H) as [_ [W Wb]]. cbn [fst] in *.
  eapply inb_weaken; [| |apply wf_forest_toks; exact W]; lia.
Qed.

(** C06: memoisation on / off give the same verdict, position, tokens and error token *)
Lemma c06_memo_invisible inline n r st0 st0' rr :
  slot_ok inline r -> peg_parse g ptx buf penv n r = Some rr ->
  exists b st1 st2,
    machine true inline n r st0 = Some (Ret b st1) /\ machine false inline n r st0' = Some (Ret b st2) /\
    (b = true -> pos st1 = pos st2 /\ live st1 = live st2) /\
    (b = false -> maxtok st1 = maxtok st2).
Proof.
  intros Hs H.
  pose proof (parse_correct g ptx buf penv Hg Hbuf Hsw true inline n r st0 rr (slot_ok_memo true inline r Hs) H) as P1.
  pose proof (parse_correct g ptx buf penv Hg Hbuf Hsw false inline n r st0' rr (slot_ok_memo false inline r Hs) H) as P2.
  destruct rr as [[|p f] evs]; cbn [parse_spec] in *.
  - destruct P1 as (s1 & R1 & M1). destruct P2 as (s2 & R2 & M2). exists false, s1, s2.
    split; [exact R1|]. split; [exact R2|]. split; [discriminate|]. intros _. congruence.
  - destruct P1 as (s1 & R1 & A1 & _ & L1 & _). destruct P2 as (s2 & R2 & A2 & _ & L2 & _). exists true, s1, s2.
    split; [exact R1|]. split; [exact R2|]. split; [|discriminate]. intros _. split; congruence.
Qed.

(** C11 (token part): the error token is the first non-empty token that reached the furthest offset
    during the attempt, and it lies inside the input *)
Lemma fold_upd_ok len evs : forall m, tok_ok len m -> evs_ok len evs -> tok_ok len (fold_left upd_max evs m).
Proof.
  induction evs as [|t evs IH]; intros m Hm He; cbn; [exact Hm|]. inv He. apply IH; auto.
  unfold upd_max. destruct (negb (tk_begin t =? tk_end t) && (tk_end m <? tk_end t))%bool; auto.
Qed.

Lemma c11_error_token memo inline n r st0 evs :
  slot_ok inline r -> peg_parse g ptx buf penv n r = Some (Fail, evs) ->
  exists st', machine memo inline n r st0 = Some (Ret false st') /\
    maxtok st' = first_furthest evs /\ tok_ok (length buf) (maxtok st').
Proof.
  intros Hs H. pose proof (parse_correct g ptx buf penv Hg Hbuf Hsw memo inline n r st0 _ (slot_ok_memo memo inline r Hs) H) as P.
  cbn [parse_spec] in P. destruct P as (st' & R & M). exists st'. split; [exact R|]. split; [exact M|].
  rewrite M. unfold first_furthest. apply fold_upd_ok.
  - unfold tok_ok, zero_tok; cbn; lia.
  - unfold peg_parse in H. destruct (ev_ok g ptx buf penv n (EName r) 0 _ (Nat.le_0_l _) H) as [E _]. exact E.
Qed.

(** C12 (state part): whatever the parser did before Reset is invisible *)
Lemma c12_history_irrelevant memo inline n r st0 st0' rr :
  slot_ok inline r -> peg_parse g ptx buf penv n r = Some rr ->
  exists b st1 st2,
    machine memo inline n r st0 = Some (Ret b st1) /\ machine memo inline n r st0' = Some (Ret b st2) /\
    (b = true -> pos st1 = pos st2 /\ live st1 = live st2) /\
    (b = false -> maxtok st1 = maxtok st2).
Proof.
  intros Hs H.
  pose proof (parse_correct g ptx buf penv Hg Hbuf Hsw memo inline n r st0 rr (slot_ok_memo memo inline r Hs) H) as P1.
  pose proof (parse_correct g ptx buf penv Hg Hbuf Hsw memo inline n r st0' rr (slot_ok_memo memo inline r Hs) H) as P2.
  destruct rr as [[|p f] evs]; cbn [parse_spec] in *.
  - destruct P1 as (s1 & R1 & M1). destruct P2 as (s2 & R2 & M2). exists false, s1, s2.
    split; [exact R1|]. split; [exact R2|]. split; [discriminate|]. intros _. congruence.
  - destruct P1 as (s1 & R1 & A1 & _ & L1 & _). destruct P2 as (s2 & R2 & A2 & _ & L2 & _). exists true, s1, s2.
    split; [exact R1|]. split; [exact R2|]. split; [|discriminate]. intros _. split; congruence.
Qed.

(** C13: whenever the semantics has a result the machine returns (never Crash: no read outside
    buffer + sentinel, no nil slot called), the position and every token index the rune sequence *)
Lemma c13_no_crash memo inline n r st0 rr :
  slot_ok inline r -> peg_parse g ptx buf penv n r = Some rr ->
  exists b st', machine memo inline n r st0 = Some (Ret b st') /\
    (b = true -> pos st' <= length buf /\ Forall (inb 0 (length buf)) (live st')) /\
    (b = false -> tok_ok (length buf) (maxtok st')).
Proof.
  intros Hs H. destruct rr as [[|p f] evs].
  - destruct (c11_error_token memo inline n r st0 evs Hs H) as (st' & R & _ & T). exists false, st'.
    split; [exact R|]. split; [discriminate|]. auto.
  - destruct (c03_tokens memo inline n r st0 p f evs Hs H) as (st' & kids & R & L & _ & _ & F).
    pose proof (parse_correct g ptx buf penv Hg Hbuf Hsw memo inline n r st0 _ (slot_ok_memo memo inline r Hs) H) as P.
    cbn [parse_spec] in P. destruct P as (st'' & R' & P1 & Pb & _).
    assert (st'' = st') by (unfold machine in R; congruence). subst st''.
    exists true, st'. split; [exact R|]. split; [|discriminate]. intros _. split; [lia|exact F].
Qed.

(** C04: Execute() on the recorded tokens runs the actions of the derivation, in order, each with the
    most recently completed capture *)
Lemma c04_execute memo inline n r st0 p f evs :
  slot_ok inline r -> peg_parse g ptx buf penv n r = Some (Succ p f, evs) ->
  exists st', machine memo inline n r st0 = Some (Ret true st') /\
    execute g ptx (live st') (0, 0) = fst (trace_forest g ptx f (0, 0)).
Proof.
  intros Hs H. destruct (c03_tokens memo inline n r st0 p f evs Hs H) as (st' & kids & R & L & _).
  exists st'. split; [exact R|]. rewrite L. apply execute_is_trace.
Qed.

(** C05: AST() is the derivation tree without its empty nodes, children in input order *)
Lemma c05_ast memo inline n r st0 p f evs :
  slot_ok inline r -> peg_parse g ptx buf penv n r = Some (Succ p f, evs) ->
  exists st' kids, machine memo inline n r st0 = Some (Ret true st') /\ f = [Node r 0 p kids] /\
    ast (live st') = (if 0 =? p then None else Some (Rose (r, (0, p)) (prune_forest kids))) /\
    print_tree (live st') = (if 0 =? p then [] else preorder 0 (Rose (r, (0, p)) (prune_forest kids))).
Proof.
  intros Hs H. destruct (c03_tokens memo inline n r st0 p f evs Hs H) as (st' & kids & R & L & Hf & _).
  exists st', kids. split; [exact R|]. split; [exact Hf|].
  unfold peg_parse in H.
  destruct (ev_ok g ptx buf penv n (EName r) 0 _ (Nat.le_0_l _) H) as [_ [W _]]. cbn [fst] in W.
  assert (A : ast (live st') = (if 0 =? p then None else Some (Rose (r, (0, p)) (prune_forest kids)))).
  { rewrite L, Hf. apply ast_of_parse. rewrite <- Hf. exact W. }
  split; [exact A|]. unfold print_tree. rewrite A. destruct (0 =? p); reflexivity.
Qed.

(** C01 (totality): on a well-formed grammar the semantics - hence the machine - has a result for
    every input and every entry rule whose slot holds a function: the parser always terminates
    with a verdict. *)
Lemma c01_total tab rank r rb :
  wf_b g tab rank = true -> nth_error g r = Some rb -> rb <> RNil ->
  exists n rr, peg_parse g ptx buf penv n r = Some rr.
Proof.
  intros Hwf Hr Hn. unfold peg_parse.
  apply (total g ptx buf penv tab rank Hwf (length buf) (hrank tab rank (EName r)) 1 (EName r) 0); auto; try lia.
  cbn [local_ok]. rewrite Hr. destruct rb; congruence.
Qed.

Lemma c01_total_machine tab rank memo inline r rb st0 :
  wf_b g tab rank = true -> nth_error g r = Some rb -> rb <> RNil -> slot_ok inline r ->
  exists n rr b st', peg_parse g ptx buf penv n r = Some rr /\
    machine memo inline n r st0 = Some (Ret b st') /\
    (b = true <-> exists p f, fst rr = Succ p f /\ pos st' = p).
Proof.
  intros Hwf Hr Hn Hs. destruct (c01_total tab rank r rb Hwf Hr Hn) as (n & rr & H).
  pose proof (c01_verdict_prefix memo inline n r st0 rr Hs H) as V.
  exists n, rr. destruct rr as [[|p f] evs]; cbn [fst] in V.
  - destruct V as (st' & R). exists false, st'. split; [exact H|]. split; [exact R|].
    split; [discriminate|]. intros (p & f & E & _). discriminate.
  - destruct V as (st' & R & P1). exists true, st'. split; [exact H|]. split; [exact R|].
    split; [intros _; exists p, f; auto|reflexivity].
Qed.

(** C12 (width): every buffer offset the parser reports is at most the length of the input *)
Lemma c12_offsets_fit memo inline n r st0 rr :
  slot_ok inline r -> peg_parse g ptx buf penv n r = Some rr ->
  exists b st', machine memo inline n r st0 = Some (Ret b st') /\
    (b = true -> pos st' <= length buf /\ Forall (inb 0 (length buf)) (live st')) /\
    (b = false -> tok_ok (length buf) (maxtok st')).
Proof.
  destruct rr as [[|p f] evs]; intros Hslot H.
  - destruct (c11_error_token memo inline n r st0 evs Hslot H) as (st' & R & _ & T).
    exists false, st'. split; [exact R|]. split; [discriminate|intros _; exact T].
  - destruct (c03_tokens memo inline n r st0 p f evs Hslot H) as (st' & kids & R & L & Hf & L2 & F).
    pose proof (c01_verdict_prefix memo inline n r st0 _ Hslot H) as V. cbn [fst] in V. destruct V as (st2 & R2 & P2).
    rewrite R in R2. inv R2.
    exists true, st2. split; [exact R|]. split; [|discriminate]. intros _. split; [|exact F].
    rewrite Forall_forall in F. rewrite L2 in F.
    assert (Hin : In (r, (0, pos st2)) (flat kids ++ [(r, (0, pos st2))])) by (apply in_or_app; right; left; reflexivity).
    specialize (F _ Hin). unfold inb in F. cbn [tk_begin tk_end fst snd] in F. lia.
Qed.

(** C02 (inline part, and the machine side of -switch): the same grammar term run with or without
    -inline gives the same verdict, prefix and tokens (both equal the semantics). For -switch the
    term is the optimised tree: the theorem then says that the skip-check flags and the switch
    dispatch compute the semantics of that tree whenever its switches are well guarded. *)
Lemma c02_inline_invisible memo memo' inline inline' n r st0 st0' rr :
  slot_ok inline r -> slot_ok inline' r -> peg_parse g ptx buf penv n r = Some rr ->
  exists b st1 st2,
    machine memo inline n r st0 = Some (Ret b st1) /\ machine memo' inline' n r st0' = Some (Ret b st2) /\
    (b = true -> pos st1 = pos st2 /\ live st1 = live st2).
Proof.
  intros Hs Hs' H.
  pose proof (parse_correct g ptx buf penv Hg Hbuf Hsw memo inline n r st0 rr (slot_ok_memo memo inline r Hs) H) as P1.
  pose proof (parse_correct g ptx buf penv Hg Hbuf Hsw memo' inline' n r st0' rr (slot_ok_memo memo' inline' r Hs') H) as P2.
  destruct rr as [[|p f] evs]; cbn [parse_spec] in *.
  - destruct P1 as (s1 & R1 & M1). destruct P2 as (s2 & R2 & M2). exists false, s1, s2.
    split; [exact R1|]. split; [exact R2|]. discriminate.
  - destruct P1 as (s1 & R1 & A1 & _ & L1 & _). destruct P2 as (s2 & R2 & A2 & _ & L2 & _). exists true, s1, s2.
    split; [exact R1|]. split; [exact R2|]. intros _. split; congruence.
Qed.

End Corollaries.


(** * -noast *)
Section Noast.
Variable g : grammar.
Variable ptx : nat.
Variable buf : list rune.
Variable penv : nat -> nat -> bool.
Hypothesis Hg : good_grammar g.
Hypothesis Hbuf : good_buf buf.
Hypothesis Hsw : good_switches g.
Hypothesis Hptx : forall rb, nth_error g ptx = Some rb -> rb = RNil.

Definition machine_noast (inline : bool) (n r : nat) (st0 : mstate) : option mres :=
  entry g ptx buf penv (mk_opts false false inline g) n r (reset st0).

(** C07: the -noast machine returns the verdict and prefix of the semantics; its inline action log is
    Execute's loop over all events of the attempt in time order, starting from the text register the
    parser object already had (a fresh object has (0,0), the empty text). *)
Theorem c07_noast inline n r st0 rr :
  o_inline (mk_opts false false inline g) r = false ->
  peg_parse g ptx buf penv n r = Some rr ->
  exists st', machine_noast inline n r st0 = Some (Ret (match fst rr with Fail => false | Succ _ _ => true end) st') /\
    alog st' = execute g ptx (snd rr) (text st0) /\
    match fst rr with Succ p _ => pos st' = p /\ p <= length buf | Fail => True end.
Proof.
  intros Hinl H. unfold peg_parse in H. set (o := mk_opts false false inline g).
  assert (Hasu' : forall r, o_asu o r = true -> forall n p evs, peg_ev g ptx buf penv n (EName r) p <> Some (Fail, evs)).
  { intros r' Hr'. apply asu_rule_sound. unfold o, mk_opts in Hr'. cbn [o_asu] in Hr'. apply nth_map_seq in Hr'. exact Hr'. }
  set (st := reset st0).
  assert (Hp : pos st <= length buf) by (unfold st, reset; cbn; lia).
  pose proof (simN g ptx buf penv o eq_refl Hg (Hsw inline) Hasu' Hbuf Hptx n (EName r) false false st rr Hp eq_refl I
                   (SimNoast.flag_ok_false g buf o (EName r) false st) H) as (st' & R & T & L & P).
  destruct n as [|n]; [discriminate|].
  assert (Hslot : exists rb, nth_error g r = Some rb /\ rb <> RNil).
  { cbn [peg_ev] in H. destruct (nth_error g r) as [[b|k|]|]; try discriminate; eexists; split; eauto; discriminate. }
  destruct Hslot as (rb & Erb & Hnn).
  assert (Hentry : machine_noast inline (S n) r st0 = run_f g ptx buf penv o (S n) (EName r) false false st).
  { unfold machine_noast, entry. fold o. fold st. rewrite Erb. fold o in Hinl. rewrite Hinl. destruct rb; congruence. }
  exists st'. rewrite Hentry. split; [exact R|]. split; [exact L|exact P].
Qed.

End Noast.
