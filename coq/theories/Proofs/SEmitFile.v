(** The generated file as a whole: the two passes of the emitter (a dry pass that finds the labels jumped to,
    then the real one) produce a table of rule functions that meets [table_ok] of Proofs/SEmitSound.v, so every
    rule function of the file, run under the goto semantics of Model/Exec.v, does what the machine does. *)
From PegV Require Import Base.Tac Spec.Syntax Spec.Peg Spec.Tokens Spec.WF Model.Machine Model.Runtime Model.Analyses Model.Gen Model.Emit Model.SEmit Model.Exec
  Proofs.Forest Proofs.EmitWF Proofs.ExecDet Proofs.SEmitSound Proofs.Sim Proofs.SimNoast Proofs.AsuSound Proofs.Top.
From Coq Require Import List Arith Lia Bool.
Import ListNotations.

(** induction over statements (nested lists) *)
Section SInd.
Variable P : scode -> Prop.
Hypothesis Hleaf : forall x, (match x with SBlock _ | SSwitch _ _ => False | _ => True end) -> P x.
Hypothesis Hblock : forall b, Forall P b -> P (SBlock b).
Hypothesis Hswitch : forall cs d, Forall (fun kc : list rune * list scode => Forall P (snd kc)) cs -> Forall P d -> P (SSwitch cs d).
Fixpoint scode_ind2 (x : scode) : P x :=
  let fix go (l : list scode) : Forall P l :=
    match l with [] => Forall_nil P | y :: l' => Forall_cons y (scode_ind2 y) (go l') end in
  match x with
  | SBlock b => Hblock b (go b)
  | SSwitch cs d =>
      Hswitch cs d ((fix gc (l : list (list rune * list scode)) : Forall (fun kc => Forall P (snd kc)) l :=
                       match l with [] => Forall_nil _
                       | kc :: l' => Forall_cons (P := fun kc => Forall P (snd kc)) kc (go (snd kc)) (gc l') end) cs) (go d)
  | y => Hleaf y I
  end.
End SInd.

Lemma jumps_flat_forget (b : list scode) :
  Forall (fun x => jumps (forget1 x) = sjumps1 x) b -> jumps (forget b) = sjumps b.
Proof.
  induction 1 as [|x b Hx _ IH]; [reflexivity|].
  unfold forget, sjumps. cbn [flat_map]. change (flat_map forget1 b) with (forget b). change (flat_map sjumps1 b) with (sjumps b).
  unfold jumps. rewrite flat_map_app. fold (jumps (forget1 x)). fold (jumps (forget b)). rewrite Hx, IH. reflexivity.
Qed.

Lemma sjumps_forget1 x : jumps (forget1 x) = sjumps1 x.
Proof.
  induction x as [x Hx|b IH|cs d IHc IHd] using scode_ind2.
  - destruct x; try reflexivity; destruct Hx.
  - cbn [forget1 sjumps1]. unfold jumps. cbn [flat_map jumps1]. rewrite app_nil_r. apply (jumps_flat_forget b IH).
  - cbn [forget1 sjumps1]. unfold jumps. cbn [flat_map jumps1]. rewrite app_nil_r. f_equal; [|apply (jumps_flat_forget d IHd)].
    induction IHc as [|kc cs Hk _ IH]; [reflexivity|]. cbn [map flat_map]. rewrite IH. f_equal. apply (jumps_flat_forget _ Hk).
Qed.
Lemma sjumps_forget c : jumps (forget c) = sjumps c.
Proof. apply jumps_flat_forget. apply Forall_forall. intros x _. apply sjumps_forget1. Qed.

(** * the table of rule functions *)
Lemma nth_map_false {A} (l : list A) r : nth r (map (fun _ => false) l) false = false.
Proof. revert r. induction l as [|a l IH]; intros [|r]; cbn; auto. Qed.
(** the machine's inline table is the emitter's test, except that the first rule is never "compiled in place":
    it always has a function (its count includes the parser's own reference) *)
Lemma inline_table_S inline g r : nth (S r) (inline_table inline g) false = Emit.once inline (count_rules g) (S r).
Proof.
  unfold inline_table, Emit.once. destruct inline; cbn [andb]; [|apply nth_map_false].
  destruct (snd (count_rules g)) as [|c cs]; [reflexivity|]. cbn [map nth].
  apply (map_nth (fun c => c =? 1) cs 0 r).
Qed.
Lemma inline_table_0 inline g : nth 0 (inline_table inline g) false = false.
Proof.
  unfold inline_table. destruct inline; [|apply nth_map_false]. destruct (map _ _); reflexivity.
Qed.

Section Table.
Variable g : grammar.
Variable ptx : nat.
Variable ast memo inline : bool.
Variable asu : nat -> bool.

Let cr := count_rules g.
Let fl := fuel g.
Let dj := dry_jumps_of g ast inline asu (fun _ => false) cr fl.
Let used := used_of dj.
Notation once := (Emit.once inline cr).
Notation reached := (Emit.reached cr).

(** the machine's options (Model/Gen.v mk_opts, with the always-succeeds table as a parameter) *)
Definition emit_opts : opts := mkopts ast memo (fun r => nth r (inline_table inline g) false) asu.
(** the functions of the generated file, by rule number *)
Definition emitted_fn (r : nat) : option (list scode) :=
  match nth_error (semit_all g ptx ast inline asu (fun _ => false)) r with Some (Some b) => Some b | _ => None end.

Notation spass := (SEmit.spass g ptx ast inline asu (fun _ : nat => false) cr fl).
Notation srule := (SEmit.srule_emit g ptx ast once asu).

Lemma spass_nth real u rs : forall r0 l i b,
  nth_error rs i = Some b -> b <> RNil -> reached (r0 + i) = true -> (once (r0 + i) = false \/ (i = 0 /\ l = 0)) ->
  exists ko, nth_error (spass real u rs r0 l) i = Some (Some (fst (srule u fl (r0 + i) ko))).
Proof.
  induction rs as [|rb rs IH]; intros r0 l i b Hi Hb Hr Ho; [destruct i; discriminate|].
  destruct i as [|i].
  - cbn in Hi. inv Hi. rewrite Nat.add_0_r in *. cbn [SEmit.spass].
    replace (match b with RNil => if false then real else true | _ => false end) with false by (destruct b; [reflexivity|reflexivity|congruence]).
    rewrite Hr. cbn [negb].
    replace (once r0 && negb (l =? 0))%bool with false by (destruct Ho as [->|[_ ->]]; [reflexivity|rewrite andb_false_r; reflexivity]).
    exists l. destruct (srule u fl r0 l) as [c l1]. reflexivity.
  - cbn [nth_error] in Hi. replace (r0 + S i) with (S r0 + i) in * by lia.
    assert (Ho' : forall l', once (S r0 + i) = false \/ (i = 0 /\ l' = 0)) by (intros l'; destruct Ho as [H|[H _]]; [left; exact H|discriminate]).
    cbn [SEmit.spass].
    destruct (match rb with RNil => if false then real else true | _ => false end); [apply (IH (S r0) _ i b Hi Hb Hr (Ho' _))|].
    destruct (negb (reached r0)); [apply (IH (S r0) _ i b Hi Hb Hr (Ho' _))|].
    destruct (once r0 && negb (l =? 0))%bool; [apply (IH (S r0) _ i b Hi Hb Hr (Ho' _))|].
    destruct (srule u fl r0 l) as [c l1]. apply (IH (S r0) _ i b Hi Hb Hr (Ho' _)).
Qed.
(** every goto of the real pass is one the dry pass saw *)
Lemma real_jumps_used r body j :
  nth_error (semit_all g ptx ast inline asu (fun _ => false)) r = Some (Some body) -> In j (sjumps body) -> used j = true.
Proof.
  intros Hn Hj.
  assert (Ej : all_jumps (emit_all g ast inline asu (fun _ => false)) = dj).
  { unfold emit_all, dj, dry_jumps_of. apply all_jumps_map. apply pass_same. }
  unfold used, used_of. apply existsb_exists. exists j. split; [|apply Nat.eqb_refl].
  rewrite <- Ej, <- forget_semit_all with (ptx := ptx). unfold all_jumps. apply in_flat_map.
  exists (Some (forget body)). split; [|rewrite sjumps_forget; exact Hj].
  apply in_map_iff. exists (Some body). split; [reflexivity|]. eapply nth_error_In. exact Hn.
Qed.

Theorem emitted_table_ok : deep_table_b g inline = true -> table_ok g ptx emit_opts once used emitted_fn reached fl.
Proof.
  intros Hd r Hinl Hre (b & Hb & Hne).
  assert (Hon : once (0 + r) = false \/ (r = 0 /\ 0 = 0)).
  { destruct r as [|r]; [right; split; reflexivity|left]. cbn [o_inline emit_opts] in Hinl. rewrite inline_table_S in Hinl. exact Hinl. }
  destruct (spass_nth true used g 0 0 r b Hb Hne Hre Hon) as (ko & Hn). cbn [Nat.add] in Hn.
  exists ko. destruct (srule used fl r ko) as [body lb] eqn:Es. cbn [fst] in Hn. exists body, lb.
  assert (Hn' : nth_error (semit_all g ptx ast inline asu (fun _ => false)) r = Some (Some body)) by exact Hn.
  split; [unfold emitted_fn; rewrite Hn'; reflexivity|]. split; [exact Es|]. split.
  - unfold deep_table_b in Hd. cbv zeta in Hd. rewrite forallb_forall in Hd.
    assert (Hlt : r < length g) by (apply nth_error_Some; rewrite Hb; discriminate).
    specialize (Hd r ltac:(apply in_seq; lia)). cbv beta in Hd. fold cr in Hd. cbn [o_inline emit_opts] in Hinl.
    rewrite Hre, Hinl, Hb in Hd. cbn [andb negb implb] in Hd. fold fl in Hd. destruct b; [exact Hd|exact Hd|congruence].
  - intros j Hj. exact (real_jumps_used r body j Hn' Hj).
Qed.

(** The generated file implements the machine: every rule function of the file (the statements [semit_all]
    writes, which [forget] maps onto the skeleton the correspondence check reads back from the Go file), called
    in any state under the goto semantics of Model/Exec.v, returns what the machine's rule function returns -
    same verdict, same position, tokens, memo table, text register and action log - and crashes only where the
    machine says the generated code panics. *)
Theorem emitted_file_sound buf penv : deep_table_b g inline = true ->
  forall n r m res, o_inline emit_opts r = false -> reached r = true -> (exists b, nth_error g r = Some b /\ b <> RNil) ->
  rule_fn g emit_opts (run_f g ptx buf penv emit_opts n) r m = Some res ->
  xcall buf penv emit_opts emitted_fn r m res.
Proof.
  intros Hd n r m res Ho Hr Hex R.
  exact (rule_function_sound g ptx buf penv emit_opts once used emitted_fn reached fl (emitted_table_ok Hd) n r m res Ho Hr Hex R).
Qed.

End Table.
Print Assumptions emitted_file_sound.

(** * from the PEG semantics to the statements of the generated file *)
Section EndToEnd.
Variable g : grammar.
Variable ptx : nat.
Variable buf : list rune.
Variable penv : nat -> nat -> bool.
Hypothesis Hg : good_grammar g.
Hypothesis Hbuf : good_buf buf.
Hypothesis Hsw : good_switches g.

(** the options of the generator, and the functions it writes under them *)
Definition gen_asu (r : nat) : bool := nth r (map (fun r => asu_rule g r) (seq 0 (length g))) false.
Definition gen_fn (inline : bool) : nat -> option (list scode) := emitted_fn g ptx true inline gen_asu.

Lemma mk_opts_emit memo inline : mk_opts true memo inline g = emit_opts g true memo inline gen_asu.
Proof. reflexivity. Qed.

(** the machine's rule function at the entry, against the semantics (Sim.v's rule_fn_sim at a fresh state) *)
Lemma entry_fn_correct memo inline n r st0 rr :
  peg_parse g ptx buf penv (S n) r = Some rr ->
  simr g ptx buf penv [] zero_tok rr
       (rule_fn g (mk_opts true memo inline g) (run_f g ptx buf penv (mk_opts true memo inline g) n) r (reset st0)).
Proof.
  intros H. set (o := mk_opts true memo inline g).
  assert (Hasu' : forall r, o_asu o r = true -> forall n p evs, peg_ev g ptx buf penv n (EName r) p <> Some (Fail, evs)).
  { intros r' Hr'. apply asu_rule_sound. unfold o, mk_opts in Hr'. cbn [o_asu] in Hr'. apply nth_map_seq in Hr'. exact Hr'. }
  set (st := reset st0).
  assert (Hok : okst buf st) by (unfold okst, st, reset; cbn; lia).
  assert (Hm : memo_ok g ptx buf penv st) by (intros r' p' m' Hl; discriminate).
  exact (rule_fn_sim g ptx buf penv o eq_refl Hg (Hsw inline) Hasu' Hbuf n (sim g ptx buf penv o eq_refl Hg (Hsw inline) Hasu' Hbuf n) r st rr Hok Hm H).
Qed.

(** The generated Go code computes the PEG semantics.  For every grammar the generator handles, every input,
    memo / inline setting and entry rule that has a function: whenever the semantics has a result, calling the
    entry's function in a reset parser - the statements of the generated file under the goto semantics of
    Model/Exec.v - returns it: true at the same offset with the derivation's tokens, or false with the error
    token the semantics gives.  [deep_table_b] (Model/SEmit.v) is the decidable side condition on the grammar;
    the correspondence run evaluates it for every grammar it generates. *)
Theorem generated_code_is_peg memo inline n r st0 rr :
  deep_table_b g inline = true -> slot_ok g inline r -> reached (count_rules g) r = true ->
  peg_parse g ptx buf penv (S n) r = Some rr ->
  exists res, xcall buf penv (mk_opts true memo inline g) (gen_fn inline) r (reset st0) res /\
    match rr with
    | (Succ p f, _) => exists st', res = Ret true st' /\ pos st' = p /\ live st' = Syntax.flat f
    | (Fail, evs) => exists st', res = Ret false st' /\ maxtok st' = first_furthest evs
    end.
Proof.
  intros Hd Hs Hr H. pose proof (entry_fn_correct memo inline n r st0 rr H) as S1.
  assert (Hex : exists b, nth_error g r = Some b /\ b <> RNil).
  { unfold peg_parse in H. cbn [peg_ev] in H. destruct (nth_error g r) as [[b|k|]|]; try discriminate; eexists; (split; [reflexivity|discriminate]). }
  destruct rr as [[|p f] evs]; cbn [simr] in S1.
  - destruct S1 as (st' & R & _ & _ & M & _). exists (Ret false st'). split; [|exists st'; split; [reflexivity|exact M]].
    rewrite mk_opts_emit in *. exact (emitted_file_sound g ptx true memo inline gen_asu buf penv Hd n r _ _ Hs Hr Hex R).
  - destruct S1 as (st' & R & P & _ & _ & L & _). exists (Ret true st'). split; [|exists st'; split; [reflexivity|split; [exact P|exact L]]].
    rewrite mk_opts_emit in *. exact (emitted_file_sound g ptx true memo inline gen_asu buf penv Hd n r _ _ Hs Hr Hex R).
Qed.

(** ... and, the goto semantics being deterministic (Proofs/ExecDet.v), that is what EVERY execution of the entry's
    function returns; in particular none crashes (no read outside the buffer, no nil rule function, no slice beyond
    the token buffer). *)
Theorem generated_code_every_execution memo inline n r st0 rr :
  deep_table_b g inline = true -> slot_ok g inline r -> reached (count_rules g) r = true ->
  peg_parse g ptx buf penv (S n) r = Some rr ->
  forall res, xcall buf penv (mk_opts true memo inline g) (gen_fn inline) r (reset st0) res ->
    match rr with
    | (Succ p f, _) => exists st', res = Ret true st' /\ pos st' = p /\ live st' = Syntax.flat f
    | (Fail, evs) => exists st', res = Ret false st' /\ maxtok st' = first_furthest evs
    end.
Proof.
  intros Hd Hs Hr H res Hx. destruct (generated_code_is_peg memo inline n r st0 rr Hd Hs Hr H) as (res0 & Hx0 & Hspec).
  rewrite (xcall_det _ _ _ _ _ _ _ _ Hx Hx0). exact Hspec.
Qed.

Corollary generated_code_never_crashes memo inline n r st0 rr :
  deep_table_b g inline = true -> slot_ok g inline r -> reached (count_rules g) r = true ->
  peg_parse g ptx buf penv (S n) r = Some rr ->
  ~ xcall buf penv (mk_opts true memo inline g) (gen_fn inline) r (reset st0) Crash.
Proof.
  intros Hd Hs Hr H Hx. pose proof (generated_code_every_execution memo inline n r st0 rr Hd Hs Hr H Crash Hx) as K.
  destruct rr as [[|p f] evs]; destruct K as (st' & E & _); discriminate E.
Qed.

(** The bridge for every other machine-level theorem (tokens, actions, syntax tree, error token, reuse): whatever the
    entry's function of the generated file returns IS what the machine returns. *)
Theorem generated_code_is_machine memo inline n r st0 rr :
  deep_table_b g inline = true -> slot_ok g inline r -> reached (count_rules g) r = true ->
  peg_parse g ptx buf penv (S n) r = Some rr ->
  forall res, xcall buf penv (mk_opts true memo inline g) (gen_fn inline) r (reset st0) res ->
    machine g ptx buf penv memo inline (S n) r st0 = Some res /\ res <> Crash.
Proof.
  intros Hd Hs Hr H res Hx. set (o := mk_opts true memo inline g).
  pose proof (entry_fn_correct memo inline n r st0 rr H) as S1. fold o in S1.
  assert (Hex : exists b, nth_error g r = Some b /\ b <> RNil).
  { unfold peg_parse in H. cbn [peg_ev] in H. destruct (nth_error g r) as [[b|k|]|]; try discriminate; eexists; (split; [reflexivity|discriminate]). }
  destruct Hex as (rb & Erb & Hnn).
  assert (Hent : machine g ptx buf penv memo inline (S n) r st0 = call_run g o (run_f g ptx buf penv o n) r (reset st0)).
  { unfold machine, entry. fold o. rewrite Erb. unfold slot_ok in Hs. change (o_inline o r = false) in Hs. rewrite Hs. destruct rb; try congruence; cbn [run_f]; rewrite Hs; reflexivity. }
  assert (Hasu : o_asu o r = true -> exists p f evs, rr = (Succ p f, evs)).
  { intros Ha. destruct rr as [[|p f] evs]; [|eauto]. exfalso.
    eapply (asu_rule_sound g ptx buf penv r); [|exact H]. unfold o, mk_opts in Ha. cbn [o_asu] in Ha. apply nth_map_seq in Ha. exact Ha. }
  rewrite Hent. unfold call_run.
  destruct rr as [[|p f] evs]; cbn [simr] in S1.
  - destruct S1 as (st' & R & _). 
    assert (Hx0 : xcall buf penv o (gen_fn inline) r (reset st0) (Ret false st')).
    { unfold o in *. rewrite mk_opts_emit in *. exact (emitted_file_sound g ptx true memo inline gen_asu buf penv Hd n r _ _ Hs Hr (ex_intro _ rb (conj Erb Hnn)) R). }
    rewrite (xcall_det _ _ _ _ _ _ _ _ Hx Hx0). rewrite R.
    destruct (o_asu o r) eqn:Ea; [destruct (Hasu eq_refl) as (? & ? & ? & E); discriminate E|]. split; [reflexivity|discriminate].
  - destruct S1 as (st' & R & _).
    assert (Hx0 : xcall buf penv o (gen_fn inline) r (reset st0) (Ret true st')).
    { unfold o in *. rewrite mk_opts_emit in *. exact (emitted_file_sound g ptx true memo inline gen_asu buf penv Hd n r _ _ Hs Hr (ex_intro _ rb (conj Erb Hnn)) R). }
    rewrite (xcall_det _ _ _ _ _ _ _ _ Hx Hx0). rewrite R. destruct (o_asu o r); split; try reflexivity; discriminate.
Qed.

(** three of them, transported *)
Corollary generated_code_actions memo inline n r st0 p f evs :
  deep_table_b g inline = true -> slot_ok g inline r -> reached (count_rules g) r = true ->
  peg_parse g ptx buf penv (S n) r = Some (Succ p f, evs) ->
  forall res, xcall buf penv (mk_opts true memo inline g) (gen_fn inline) r (reset st0) res ->
    exists st', res = Ret true st' /\ execute g ptx (live st') (0, 0) = fst (trace_forest g ptx f (0, 0)).
Proof.
  intros Hd Hs Hr H res Hx. destruct (generated_code_is_machine memo inline n r st0 _ Hd Hs Hr H res Hx) as [M _].
  destruct (c04_execute g ptx buf penv Hg Hbuf Hsw memo inline (S n) r st0 p f evs Hs H) as (st' & M' & E).
  rewrite M in M'. inv M'. eauto.
Qed.
Corollary generated_code_tokens memo inline n r st0 p f evs :
  deep_table_b g inline = true -> slot_ok g inline r -> reached (count_rules g) r = true ->
  peg_parse g ptx buf penv (S n) r = Some (Succ p f, evs) ->
  forall res, xcall buf penv (mk_opts true memo inline g) (gen_fn inline) r (reset st0) res ->
    exists st' kids, res = Ret true st' /\ live st' = Syntax.flat f /\ f = [Node r 0 p kids] /\
      live st' = Syntax.flat kids ++ [(r, (0, p))] /\ Forall (inb 0 (length buf)) (live st').
Proof.
  intros Hd Hs Hr H res Hx. destruct (generated_code_is_machine memo inline n r st0 _ Hd Hs Hr H res Hx) as [M _].
  destruct (c03_tokens g ptx buf penv Hg Hbuf Hsw memo inline (S n) r st0 p f evs Hs H) as (st' & kids & M' & E).
  rewrite M in M'. inv M'. eauto.
Qed.
Corollary generated_code_ast memo inline n r st0 p f evs :
  deep_table_b g inline = true -> slot_ok g inline r -> reached (count_rules g) r = true ->
  peg_parse g ptx buf penv (S n) r = Some (Succ p f, evs) ->
  forall res, xcall buf penv (mk_opts true memo inline g) (gen_fn inline) r (reset st0) res ->
    exists st' kids, res = Ret true st' /\ f = [Node r 0 p kids] /\
      ast (live st') = (if 0 =? p then None else Some (Rose (r, (0, p)) (prune_forest kids))) /\
      print_tree (live st') = (if 0 =? p then [] else preorder 0 (Rose (r, (0, p)) (prune_forest kids))).
Proof.
  intros Hd Hs Hr H res Hx. destruct (generated_code_is_machine memo inline n r st0 _ Hd Hs Hr H res Hx) as [M _].
  destruct (c05_ast g ptx buf penv Hg Hbuf Hsw memo inline (S n) r st0 p f evs Hs H) as (st' & kids & M' & E).
  rewrite M in M'. inv M'. eauto.
Qed.
Corollary generated_code_error_token memo inline n r st0 evs :
  deep_table_b g inline = true -> slot_ok g inline r -> reached (count_rules g) r = true ->
  peg_parse g ptx buf penv (S n) r = Some (Fail, evs) ->
  forall res, xcall buf penv (mk_opts true memo inline g) (gen_fn inline) r (reset st0) res ->
    exists st', res = Ret false st' /\ maxtok st' = first_furthest evs /\ tok_ok (length buf) (maxtok st').
Proof.
  intros Hd Hs Hr H res Hx. destruct (generated_code_is_machine memo inline n r st0 _ Hd Hs Hr H res Hx) as [M _].
  destruct (c11_error_token g ptx buf penv Hg Hbuf Hsw memo inline (S n) r st0 evs Hs H) as (st' & M' & E).
  rewrite M in M'. inv M'. eauto.
Qed.

(** memoisation and -inline are invisible in what the generated code returns: two files generated for the same tree
    under different settings, run from any two earlier states, agree on verdict, offset, tokens and error token *)
Corollary generated_code_options_invisible memo1 inline1 memo2 inline2 n r st1 st2 rr :
  deep_table_b g inline1 = true -> slot_ok g inline1 r ->
  deep_table_b g inline2 = true -> slot_ok g inline2 r ->
  reached (count_rules g) r = true -> peg_parse g ptx buf penv (S n) r = Some rr ->
  forall res1 res2,
    xcall buf penv (mk_opts true memo1 inline1 g) (gen_fn inline1) r (reset st1) res1 ->
    xcall buf penv (mk_opts true memo2 inline2 g) (gen_fn inline2) r (reset st2) res2 ->
    exists b s1 s2, res1 = Ret b s1 /\ res2 = Ret b s2 /\
      (b = true -> pos s1 = pos s2 /\ live s1 = live s2) /\ (b = false -> maxtok s1 = maxtok s2).
Proof.
  intros Hd1 Hs1 Hd2 Hs2 Hr H res1 res2 X1 X2.
  pose proof (generated_code_every_execution memo1 inline1 n r st1 rr Hd1 Hs1 Hr H res1 X1) as K1.
  pose proof (generated_code_every_execution memo2 inline2 n r st2 rr Hd2 Hs2 Hr H res2 X2) as K2.
  destruct rr as [[|p f] evs].
  - destruct K1 as (s1 & -> & M1). destruct K2 as (s2 & -> & M2). exists false, s1, s2. repeat split; try discriminate. congruence.
  - destruct K1 as (s1 & -> & P1 & L1). destruct K2 as (s2 & -> & P2 & L2). exists true, s1, s2. repeat split; try discriminate; congruence.
Qed.

(** -noast: the same for the parser without a token tree, whose actions are pasted into the rule functions
    ([SLogAct k]: the text of action k runs there and then; the model logs (k, text register)) and whose captures
    set the text register ([SCapture]).  The functions of the generated file return the verdict and the offset of
    the semantics, and the actions have run in the order of Execute's loop over every event of the attempt. *)
Definition gen_fn_noast (inline : bool) : nat -> option (list scode) := emitted_fn g ptx false inline gen_asu.

Theorem generated_code_noast inline n r st0 rr :
  (forall rb, nth_error g ptx = Some rb -> rb = RNil) ->
  deep_table_b g inline = true -> o_inline (mk_opts false false inline g) r = false -> reached (count_rules g) r = true ->
  peg_parse g ptx buf penv (S n) r = Some rr ->
  exists st', xcall buf penv (mk_opts false false inline g) (gen_fn_noast inline) r (reset st0)
                    (Ret (match fst rr with Fail => false | Succ _ _ => true end) st') /\
    alog st' = Runtime.execute g ptx (snd rr) (text st0) /\
    match fst rr with Succ p _ => pos st' = p /\ p <= length buf | Fail => True end.
Proof.
  intros Hptx Hd Hs Hr H. set (o := mk_opts false false inline g).
  assert (Hasu' : forall r, o_asu o r = true -> forall n p evs, peg_ev g ptx buf penv n (EName r) p <> Some (Fail, evs)).
  { intros r' Hr'. apply asu_rule_sound. unfold o, mk_opts in Hr'. cbn [o_asu] in Hr'. apply nth_map_seq in Hr'. exact Hr'. }
  set (st := reset st0).
  assert (Hp : pos st <= length buf) by (unfold st, reset; cbn; lia).
  pose proof (rule_fn_simn g ptx buf penv o eq_refl Hg (Hsw inline) Hptx n
                (simN g ptx buf penv o eq_refl Hg (Hsw inline) Hasu' Hbuf Hptx n) r st rr Hp H) as (st' & R & T & L & P).
  assert (Hex : exists b, nth_error g r = Some b /\ b <> RNil).
  { unfold peg_parse in H. cbn [peg_ev] in H. destruct (nth_error g r) as [[b|k|]|]; try discriminate; eexists; (split; [reflexivity|discriminate]). }
  exists st'. split; [|split; [exact L|exact P]].
  exact (emitted_file_sound g ptx false false inline gen_asu buf penv Hd n r _ _ Hs Hr Hex R).
Qed.

Corollary generated_code_noast_every inline n r st0 rr :
  (forall rb, nth_error g ptx = Some rb -> rb = RNil) ->
  deep_table_b g inline = true -> o_inline (mk_opts false false inline g) r = false -> reached (count_rules g) r = true ->
  peg_parse g ptx buf penv (S n) r = Some rr ->
  forall res, xcall buf penv (mk_opts false false inline g) (gen_fn_noast inline) r (reset st0) res ->
    exists st', res = Ret (match fst rr with Fail => false | Succ _ _ => true end) st' /\
      alog st' = Runtime.execute g ptx (snd rr) (text st0) /\
      match fst rr with Succ p _ => pos st' = p /\ p <= length buf | Fail => True end.
Proof.
  intros Hptx Hd Hs Hr H res Hx. destruct (generated_code_noast inline n r st0 rr Hptx Hd Hs Hr H) as (st' & Hx0 & L & P).
  rewrite (xcall_det _ _ _ _ _ _ _ _ Hx Hx0). eauto.
Qed.

End EndToEnd.
Print Assumptions generated_code_is_peg.
Print Assumptions generated_code_noast.
