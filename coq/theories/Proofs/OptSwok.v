(** The switches that the -switch pass builds are well guarded: a case body may drop its
    first-character test (Model/SkipCheck.v) because every key of the case is a first character of the
    body, and the terminal reached through first elements of sequences, captures and inlined rules
    has exactly the body's first-character set.  Hence [good_switches (optimize g)] and
    [good_grammar (optimize g)] need not be assumed. *)
From PegV Require Import Base.Tac Base.ListX Spec.Syntax Spec.Peg Spec.WF Model.SetImpl Model.Analyses Model.Optimize Model.SkipCheck
  Proofs.SetProofs Proofs.PegFacts Proofs.Forest Proofs.Total Proofs.FirstSound Proofs.OptSound.
From Coq Require Import Permutation.

Lemma existsb_exists_false {A} (f : A -> bool) l : existsb f l = false <-> forall x, In x l -> f x = false.
Proof.
  split.
  - intros H x Hx. destruct (f x) eqn:E; [|reflexivity]. assert (existsb f l = true) by (apply existsb_exists; exists x; auto). congruence.
  - intros H. destruct (existsb f l) eqn:E; [|reflexivity]. apply existsb_exists in E as (x & Hx & Ex). rewrite (H x Hx) in Ex. discriminate.
Qed.

Section Swok.
Local Open Scope nat_scope.
Variable g : grammar.
Variable T : list fsres.
Variable tab : list bool.
Variable rank : list nat.
Hypothesis Hwf : wf_b g tab rank = true.
(** the table is a fixed point of the analysis, with well-formed sets, and the grammar has no switch yet *)
Hypothesis Hfix : forall r b, nth_error g r = Some (RBody b) -> tget T r = fs T b.
Hypothesis Hro : forall r b, nth_error g r = Some (RBody b) -> ranges_ok b = true.
Variable br : nat -> bool.
Variable inl : nat -> bool.

Notation g' := (g' g T br).
Notation tr := (tr T).
Notation hrank := (hrank tab rank).
Notation chain := (chain g' inl).

Lemma g'_at r : nth_error g' r = match nth_error g r with Some (RBody b) => Some (RBody (tr (br r) b)) | x => x end.
Proof.
  unfold OptSound.g'.
  assert (E : forall (l : list rbody) s k,
            nth_error (map (fun p => match snd p with RBody b => RBody (tr (br (fst p)) b) | rb => rb end) (combine (seq s (length l)) l)) k =
            match nth_error l k with Some (RBody b) => Some (RBody (tr (br (s + k)) b)) | x => x end).
  { induction l as [|y l IH]; intros s k; [destruct k; reflexivity|].
    destruct k; cbn [length seq combine map nth_error fst snd].
    - rewrite Nat.add_0_r. destruct y; reflexivity.
    - rewrite (IH (S s) k). replace (S s + k) with (s + S k) by lia. reflexivity. }
  rewrite (E g 0 r). reflexivity.
Qed.

Lemma hr_app' l1 l2 : hr rank (l1 ++ l2) = Nat.max (hr rank l1) (hr rank l2).
Proof. unfold hr. induction l1 as [|x l1 IH]; cbn [fold_right app]; [reflexivity|]. rewrite IH. lia. Qed.

Lemma body_rank r b : nth_error g r = Some (RBody b) -> hrank b < hrank (EName r).
Proof.
  intros Eg. pose proof (wf_rule g (fun _ _ => true) tab rank Hwf _ _ Eg) as W. cbn [rule_wf] in W.
  apply andb_true_iff in W as [_ Wh]. unfold Total.hrank. cbn [WF.heads hr fold_right].
  assert (hr rank (WF.heads tab b) <= rk rank r); [|lia].
  rewrite forallb_forall in Wh. clear -Wh. unfold hr. induction (WF.heads tab b) as [|y l IH]; cbn [fold_right]; [lia|].
  assert (rk rank y < rk rank r) by (apply Nat.ltb_lt; apply Wh; left; reflexivity).
  assert (fold_right (fun r0 a => Nat.max (S (rk rank r0)) a) 0 l <= rk rank r) by (apply IH; intros; apply Wh; right; auto).
  lia.
Qed.

Lemma tr_name bb r : tr bb (EName r) = EName r.  Proof. destruct bb; reflexivity. Qed.
Lemma tr_seq' bb es : tr bb (ESeq es) = ESeq (map (tr bb) es).
Proof. destruct bb; cbn [OptSound.tr opt]; [reflexivity|]. unfold OptSound.tr. rewrite map_id. reflexivity. Qed.
Lemma tr_push' bb e : tr bb (EPush e) = EPush (tr bb e).  Proof. destruct bb; reflexivity. Qed.

(** the head of a case body: demanding only when the body must consume, and then it sees the body's set *)
Definition head_ok (x : expr) : Prop :=
  forall bb mk c,
    (fst (fs T x) = false -> chain (tr bb x) mk c) /\
    (fst (fs T x) = true -> too_big (snd (fs T x)) = false -> mem (snd (fs T x)) c = true -> chain (tr bb x) mk c).

Lemma chain_trivial_alt bb es mk c : chain (tr bb (EAlt es)) mk c.
Proof.
  destruct bb; [|constructor]. unfold OptSound.tr. rewrite opt_alt.
  destruct (negb (forallb (fun x => fst (fs T x)) es)); [constructor|].
  destruct (Nat.leb (length es) (2 + length (filter (fun b => b) (inter_flags (sets_of T es))))); [constructor|].
  destruct (rev (place_cases (unord_of T es) 0%Z [])) as [|[sd d] before]; [constructor|].
  destruct (existsb (fun x => too_big (fst x)) before); [constructor|].
  cbv zeta. destruct (ordered_of T es); constructor.
Qed.

Lemma heads_seq_le x es : hrank x <= hrank (ESeq (x :: es)).
Proof. unfold Total.hrank. rewrite heads_seq_cons, hr_app'. lia. Qed.

Lemma head_chain : forall h s x, hrank x <= h -> esize x <= s -> ranges_ok x = true -> head_ok x.
Proof.
  induction h as [h IHh] using lt_wf_ind. induction s as [|s IHs]; intros x Hh Hs Hr; [destruct x; cbn in Hs; lia|].
  destruct x as [|k|lo hi|r|k|k|k| |es|es|x|x|x|x|x|x|cs d]; intros bb mk c; cbn [ranges_ok] in Hr.
  - (* EDot *) split; [discriminate|]. intros _ Hb. exfalso. cbn [fs snd] in Hb. vm_compute in Hb. discriminate.
  - (* EChar *) split; [discriminate|]. intros _ _ Hm. replace (tr bb (EChar k)) with (EChar k) by (destruct bb; reflexivity).
    cbn [fs snd] in Hm. rewrite mem_cons, mem_nil, orb_false_r in Hm. apply andb_true_iff in Hm as [H1 H2].
    apply Z.leb_le in H1, H2. assert (k = c) by lia. subst. destruct mk; constructor.
  - (* ERange *) split; [discriminate|]. intros _ _ Hm. replace (tr bb (ERange lo hi)) with (ERange lo hi) by (destruct bb; reflexivity).
    apply andb_true_iff in Hr as [H1 H2]. apply Z.leb_le in H1, H2.
    cbn [fs snd] in Hm. rewrite (add_range_mem [] 0%Z) in Hm by (cbn; auto). rewrite mem_nil in Hm. cbn [orb] in Hm.
    constructor. exact Hm.
  - (* EName *) rewrite tr_name. cbn [fs].
    destruct (inl r) eqn:Ei; [|split; intros; apply ch_call; exact Ei].
    destruct (nth_error g r) as [[b|k|]|] eqn:Eg.
    + assert (Eg' : nth_error g' r = Some (RBody (tr (br r) b))) by (rewrite g'_at, Eg; reflexivity).
      pose proof (body_rank _ _ Eg) as Hb.
      assert (Hk : head_ok b) by (apply (IHh (hrank b)) with (s := esize b); [lia|lia|lia|eapply Hro; eauto]).
      rewrite (Hfix _ _ Eg). destruct (Hk (br r) mk c) as [K1 K2].
      split; intros; eapply ch_inline; eauto.
    + split; intros; apply ch_inline_other; auto; intros b0 Hb0; rewrite g'_at, Eg in Hb0; discriminate.
    + split; intros; apply ch_inline_other; auto; intros b0 Hb0; rewrite g'_at, Eg in Hb0; discriminate.
    + split; intros; apply ch_inline_other; auto; intros b0 Hb0; rewrite g'_at, Eg in Hb0; discriminate.
  - split; intros; replace (tr bb (EPred k)) with (EPred k) by (destruct bb; reflexivity); constructor.
  - split; intros; replace (tr bb (EState k)) with (EState k) by (destruct bb; reflexivity); constructor.
  - split; intros; replace (tr bb (EAct k)) with (EAct k) by (destruct bb; reflexivity); constructor.
  - split; intros; replace (tr bb ENil) with ENil by (destruct bb; reflexivity); constructor.
  - (* ESeq *) rewrite tr_seq'. destruct es as [|e1 es]; [split; intros; constructor|].
    cbn [map forallb] in *. apply andb_true_iff in Hr as [Hr1 Hr2].
    assert (Hk : head_ok e1).
    { apply IHs; [pose proof (heads_seq_le e1 es); lia|cbn [esize fold_right] in Hs; lia|exact Hr1]. }
    destruct (Hk bb mk c) as [K1 K2]. cbn [fs].
    destruct (fst (fs T e1)) eqn:E1; cbn [fst snd].
    + split; [discriminate|]. intros _ Hb Hm. constructor. apply K2; auto.
    + split; intros; constructor; apply K1; reflexivity.
  - (* EAlt *) split; intros; apply chain_trivial_alt.
  - split; intros; replace (tr bb (EAnd x)) with (EAnd (tr bb x)) by (destruct bb; reflexivity); constructor.
  - split; intros; replace (tr bb (ENot x)) with (ENot (tr bb x)) by (destruct bb; reflexivity); constructor.
  - split; intros; replace (tr bb (EQuery x)) with (EQuery (tr bb x)) by (destruct bb; reflexivity); constructor.
  - split; intros; replace (tr bb (EStar x)) with (EStar (tr bb x)) by (destruct bb; reflexivity); constructor.
  - split; intros; replace (tr bb (EPlus x)) with (EPlus (tr bb x)) by (destruct bb; reflexivity); constructor.
  - (* EPush *) rewrite tr_push'. cbn [fs].
    assert (Hk : head_ok x) by (apply IHs; [exact Hh|cbn [esize] in Hs; lia|exact Hr]).
    destruct (Hk bb mk c) as [K1 K2]. split; intros; constructor; auto.
  - discriminate.
Qed.


(** * every switch of the optimised tree is well guarded *)
Notation swok := (swok g' inl).

Definition swok_all (l : list expr) : Prop :=
  (fix all (l : list expr) : Prop := match l with [] => True | x :: l' => swok x /\ all l' end) l.
Lemma swok_all_forall l : swok_all l <-> Forall (fun x => swok x) l.
Proof.
  induction l as [|x l IH]; cbn; [split; [constructor|auto]|].
  split; [intros [H1 H2]; constructor; [exact H1|apply IH; exact H2]|intros H; inv H; split; [assumption|apply IH; assumption]].
Qed.

Lemma in_combine_maps {A B C} (F : A -> B) (G : A -> C) l a b : In (a, b) (combine (map F l) (map G l)) -> exists x, In x l /\ a = F x /\ b = G x.
Proof.
  induction l as [|y l IH]; cbn [map combine]; intros H; [destruct H|].
  destruct H as [E|H].
  - inv E. exists y. split; [left; reflexivity|auto].
  - destruct (IH H) as (x & H1 & H2 & H3). exists x. split; [right; exact H1|auto].
Qed.

Lemma unord_in s e' es : In (s, e') (unord_of T es) -> exists x, In x es /\ s = snd (fs T x) /\ e' = opt T x.
Proof.
  unfold unord_of, items_of, sets_of. intros H. apply in_map_iff in H as ([fl0 [s0 e0]] & E & H). cbn [snd] in E. inv E.
  apply filter_In in H as [H _]. apply in_combine_r in H. eapply in_combine_maps; eauto.
Qed.
Lemma ordered_in e' es : In e' (ordered_of T es) -> exists x, In x es /\ e' = opt T x.
Proof.
  unfold ordered_of, items_of, sets_of. intros H. apply in_map_iff in H as ([fl0 [s0 e0]] & E & H). cbn [snd] in E. subst e0.
  apply filter_In in H as [H _]. apply in_combine_r in H. destruct (in_combine_maps _ _ _ _ _ H) as (x & H1 & _ & H3). exists x. auto.
Qed.

Lemma swok_plain : forall e, ranges_ok e = true -> swok e.
Proof.
  induction e using expr_ind2; cbn [ranges_ok SkipCheck.swok]; intros Hr; auto; try discriminate.
  - change (swok_all es). apply swok_all_forall. rewrite Forall_forall in *. rewrite forallb_forall in Hr. intros x Hx. apply H; auto.
  - change (swok_all es). apply swok_all_forall. rewrite Forall_forall in *. rewrite forallb_forall in Hr. intros x Hx. apply H; auto.
Qed.

Lemma swok_cases (cs : list (list rune * expr)) :
  (forall keys b, In (keys, b) cs -> swok b /\ forall c, In c keys -> chain b (Nat.ltb 1 (length keys)) c) ->
  (fix allc (l : list (list rune * expr)) : Prop :=
     match l with
     | [] => True
     | (keys, b) :: l' => (swok b /\ forall c, In c keys -> chain b (Nat.ltb 1 (length keys)) c) /\ allc l'
     end) cs.
Proof.
  induction cs as [|[keys b] cs IH]; intros H; [exact I|]. split; [apply H; left; reflexivity|].
  apply IH. intros k b0 Hin. apply H. right. exact Hin.
Qed.

Lemma swok_opt : forall e, ranges_ok e = true -> swok (opt T e).
Proof.
  induction e using expr_ind2; cbn [ranges_ok]; intros Hr; try (cbn [opt SkipCheck.swok]; auto; fail).
  - (* ESeq *) cbn [opt SkipCheck.swok]. change (swok_all (map (opt T) es)). apply swok_all_forall. apply Forall_forall.
    intros y Hy. apply in_map_iff in Hy as (x & <- & Hx). rewrite Forall_forall in H. rewrite forallb_forall in Hr. apply H; auto.
  - (* EAlt *)
    rewrite forallb_forall in Hr. rewrite Forall_forall in H.
    assert (Hplain : swok (EAlt (map (opt T) es))).
    { cbn [SkipCheck.swok]. change (swok_all (map (opt T) es)). apply swok_all_forall. apply Forall_forall.
      intros y Hy. apply in_map_iff in Hy as (x & <- & Hx). apply H; auto. }
    rewrite opt_alt.
    destruct (negb (forallb (fun x => fst (fs T x)) es)) eqn:Ec; [exact Hplain|]. apply negb_false_iff in Ec. rewrite forallb_forall in Ec.
    destruct (Nat.leb (length es) (2 + length (filter (fun b => b) (inter_flags (sets_of T es))))); [exact Hplain|].
    destruct (rev (place_cases (unord_of T es) 0%Z [])) as [|[sd d] before] eqn:Epl; [exact Hplain|].
    destruct (existsb (fun x => too_big (fst x)) before) eqn:Eb; [exact Hplain|].
    cbv zeta.
    assert (Hperm : forall y, In y (rev before ++ [(sd, d)]) -> In y (unord_of T es)).
    { intros y Hy. assert (E : place_cases (unord_of T es) 0%Z [] = rev before ++ [(sd, d)]).
      { rewrite <- (rev_involutive (place_cases _ _ _)). rewrite Epl. reflexivity. }
      rewrite <- E in Hy. pose proof (place_cases_perm (unord_of T es) 0%Z []) as Pm. cbn [app] in Pm.
      eapply Permutation_in; [exact Pm|exact Hy]. }
    assert (Hsw : swok (ESwitch (map (fun x => (keys_of (fst x), snd x)) (rev before)) d)).
    { cbn [SkipCheck.swok]. split.
      - assert (Hd : In (sd, d) (rev before ++ [(sd, d)])) by (apply in_or_app; right; left; reflexivity).
        destruct (unord_in sd d es (Hperm _ Hd)) as (x & Hx & _ & ->). apply H; auto.
      - apply swok_cases. intros keys b Hin. apply in_map_iff in Hin as ([s e'] & E & Hin). cbn [fst snd] in E. injection E as E1 E2. subst keys b.
        destruct (unord_in s e' es (Hperm _ (in_or_app _ _ _ (or_introl Hin)))) as (x & Hx & -> & ->).
        split; [apply H; auto|]. intros c Hc.
        assert (Hk : head_ok x) by (apply (head_chain (hrank x) (esize x)); auto).
        destruct (Hk true (Nat.ltb 1 (length (keys_of (snd (fs T x))))) c) as [_ K2]. apply K2.
        + apply Ec. exact Hx.
        + rewrite existsb_exists_false in Eb. apply (Eb (snd (fs T x), opt T x)). apply in_rev. exact Hin.
        + unfold keys_of in Hc. apply filter_In in Hc as [Hc _]. apply elements_mem. exact Hc. }
    destruct (ordered_of T es) as [|o1 os] eqn:Eo; [exact Hsw|].
    cbn [SkipCheck.swok]. change (swok_all ((o1 :: os) ++ [ESwitch (map (fun x => (keys_of (fst x), snd x)) (rev before)) d])).
    apply swok_all_forall. apply Forall_app. split; [|constructor; [exact Hsw|constructor]].
    apply Forall_forall. intros y Hy. rewrite <- Eo in Hy. destruct (ordered_in y es Hy) as (x & Hx & ->). apply H; auto.
  - discriminate.
Qed.

Lemma swok_tr bb e : ranges_ok e = true -> swok (tr bb e).
Proof. destruct bb; [apply swok_opt|apply swok_plain]. Qed.

Theorem g'_swok : grammar_swok g' inl.
Proof.
  intros r b' Hb'. rewrite g'_at in Hb'. destruct (nth_error g r) as [[b|k|]|] eqn:Eg; try discriminate.
  inv Hb'. apply swok_tr. eapply Hro; eauto.
Qed.


(** * literals and keys of the optimised tree are code points *)
Lemma keys_lt s : forallb (fun k => Z.ltb k endSymbol) (keys_of s) = true.
Proof.
  apply forallb_forall. intros k Hk. unfold keys_of in Hk. apply filter_In in Hk as [_ Hv].
  unfold valid_rune in Hv. apply andb_true_iff in Hv as [Hv _]. apply andb_true_iff in Hv as [_ Hv].
  apply Z.leb_le in Hv. apply Z.ltb_lt. unfold maxRune, endSymbol in *. lia.
Qed.

Lemma expr_ok_opt : forall e, expr_ok e = true -> expr_ok (opt T e) = true.
Proof.
  induction e using expr_ind2; cbn [expr_ok]; intros Hk; try (cbn [opt expr_ok]; auto; fail).
  - cbn [opt expr_ok]. apply forallb_forall. intros y Hy. apply in_map_iff in Hy as (x & <- & Hx).
    rewrite Forall_forall in H. rewrite forallb_forall in Hk. apply H; auto.
  - rewrite forallb_forall in Hk. rewrite Forall_forall in H.
    assert (Hplain : expr_ok (EAlt (map (opt T) es)) = true).
    { cbn [expr_ok]. apply forallb_forall. intros y Hy. apply in_map_iff in Hy as (x & <- & Hx). apply H; auto. }
    rewrite opt_alt.
    destruct (negb (forallb (fun x => fst (fs T x)) es)); [exact Hplain|].
    destruct (Nat.leb (length es) (2 + length (filter (fun b => b) (inter_flags (sets_of T es))))); [exact Hplain|].
    destruct (rev (place_cases (unord_of T es) 0%Z [])) as [|[sd d] before] eqn:Epl; [exact Hplain|].
    destruct (existsb (fun x => too_big (fst x)) before); [exact Hplain|].
    cbv zeta.
    assert (Hperm : forall y, In y (rev before ++ [(sd, d)]) -> In y (unord_of T es)).
    { intros y Hy. assert (E : place_cases (unord_of T es) 0%Z [] = rev before ++ [(sd, d)]).
      { rewrite <- (rev_involutive (place_cases _ _ _)). rewrite Epl. reflexivity. }
      rewrite <- E in Hy. pose proof (place_cases_perm (unord_of T es) 0%Z []) as Pm. cbn [app] in Pm.
      eapply Permutation_in; [exact Pm|exact Hy]. }
    assert (Hsw : expr_ok (ESwitch (map (fun x => (keys_of (fst x), snd x)) (rev before)) d) = true).
    { cbn [expr_ok]. apply andb_true_iff. split.
      - apply forallb_forall. intros [keys b] Hin. apply in_map_iff in Hin as ([s e'] & E & Hin). cbn [fst snd] in *. injection E as E1 E2. subst keys b.
        rewrite keys_lt. cbn [andb].
        destruct (unord_in s e' es (Hperm _ (in_or_app _ _ _ (or_introl Hin)))) as (x & Hx & _ & ->). apply H; auto.
      - assert (Hd : In (sd, d) (rev before ++ [(sd, d)])) by (apply in_or_app; right; left; reflexivity).
        destruct (unord_in sd d es (Hperm _ Hd)) as (x & Hx & _ & ->). apply H; auto. }
    destruct (ordered_of T es) as [|o1 os] eqn:Eo; [exact Hsw|].
    cbn [expr_ok]. rewrite forallb_app. apply andb_true_iff. split; [|cbn [forallb]; rewrite Hsw; reflexivity].
    apply forallb_forall. intros y Hy. rewrite <- Eo in Hy. destruct (ordered_in y es Hy) as (x & Hx & ->). apply H; auto.
Qed.

Theorem g'_good : (forall r b, nth_error g r = Some (RBody b) -> expr_ok b = true) ->
  forall r b', nth_error g' r = Some (RBody b') -> expr_ok b' = true.
Proof.
  intros Hg r b' Hb'. rewrite g'_at in Hb'. destruct (nth_error g r) as [[b|k|]|] eqn:Eg; try discriminate.
  inv Hb'. unfold OptSound.tr. destruct (br r); [apply expr_ok_opt|]; eapply Hg; eauto.
Qed.

End Swok.

(** * what the fixed-point iteration delivers *)
Section Stable.
Open Scope Z_scope.
Variable g : grammar.
Hypothesis Hro : forall r b, nth_error g r = Some (RBody b) -> ranges_ok b = true.

Definition tinv (T : list fsres) : Prop := length T = length g /\ forall s, In s T -> Inv (snd s).

Lemma tget_inv T r : tinv T -> Inv (snd (tget T r)).
Proof.
  intros [_ H]. unfold tget. destruct (nth_in_or_default r T (false, [])) as [Hin|E]; [apply H; exact Hin|rewrite E; exact I].
Qed.

Lemma fs_inv_gen T e : tinv T -> ranges_ok e = true -> Inv (snd (fs T e)).
Proof.
  intros HT. induction e using expr_ind2; cbn [ranges_ok fs snd fst]; intros Hr; try exact I.
  - unfold Inv, maxRune. cbn [inv_from]. lia.
  - apply Z.leb_le in Hr. unfold Inv. cbn [inv_from]. lia.
  - apply andb_true_iff in Hr as [H1 H2]. apply Z.leb_le in H1, H2. apply add_range_inv; [exact I|lia|lia].
  - apply tget_inv. exact HT.
  - induction H as [|x es Hx Hes IHes]; cbn [forallb] in Hr; [exact I|]. apply andb_true_iff in Hr as [Hr1 Hr2].
    destruct (fst (fs T x)); cbn [snd]; [auto|]. apply union_inv; auto.
  - assert (G : forall acc, Inv (snd acc) ->
              Inv (snd (fold_left (fun acc x => let r := fs T x in (fst acc && fst r, union (snd acc) (snd r))) es acc))).
    { induction H as [|x es Hx Hes IHes]; cbn [forallb fold_left] in *; intros acc Ha; [exact Ha|].
      apply andb_true_iff in Hr as [Hr1 Hr2]. apply IHes; auto. cbn [snd]. apply union_inv; auto. }
    apply G. exact I.
  - auto.
  - auto.
  - auto.
  - auto.
Qed.

Lemma step_tinv T : tinv T -> tinv (fs_step g T).
Proof.
  intros HT. split; [unfold fs_step; apply map_length|].
  intros s Hs. unfold fs_step in Hs. apply in_map_iff in Hs as (rb & <- & Hrb).
  destruct rb as [b|k|]; try exact I. apply In_nth_error in Hrb as (r & Hr). apply fs_inv_gen; [exact HT|eapply Hro; eauto].
Qed.

Lemma iter_tinv n : forall T T' st, tinv T -> fs_iter n g T = (T', st) -> tinv T' /\ (st = true -> table_eqb T' (fs_step g T') = true).
Proof.
  induction n as [|n IH]; intros T T' st HT H; cbn [fs_iter] in H; [inv H; split; [exact HT|discriminate]|].
  destruct (table_eqb T (fs_step g T)) eqn:E.
  - inv H. split; [exact HT|intros _; exact E].
  - eapply IH; [apply step_tinv; exact HT|exact H].
Qed.

Lemma init_tinv : tinv (map (fun _ => (false, @nil (Z * Z))) g).
Proof. split; [apply map_length|]. intros s Hs. apply in_map_iff in Hs as (x & <- & _). exact I. Qed.

Lemma eqb_entries a : forall b r x y, forallb (fun p => fsres_eqb (fst p) (snd p)) (combine a b) = true ->
  nth_error a r = Some x -> nth_error b r = Some y -> fsres_eqb x y = true.
Proof.
  induction a as [|x0 a IH]; intros [|y0 b] r x y H Hx Hy; try (destruct r; discriminate).
  cbn [combine forallb fst snd] in H. apply andb_true_iff in H as [H1 H2].
  destruct r; cbn [nth_error] in *; [inv Hx; inv Hy; exact H1|eapply IH; eauto].
Qed.

Theorem stable_fix T : fs_table g = (T, true) ->
  tinv T /\ forall r b, nth_error g r = Some (RBody b) -> tget T r = fs T b.
Proof.
  intros H. unfold fs_table in H. destruct (iter_tinv _ _ _ _ init_tinv H) as [HT Heq]. split; [exact HT|].
  intros r b Hr. specialize (Heq eq_refl). unfold table_eqb in Heq. apply andb_true_iff in Heq as [_ Heq].
  assert (Hlen : (r < length T)%nat) by (destruct HT as [L _]; rewrite L; apply nth_error_Some; congruence).
  destruct (nth_error T r) as [x|] eqn:Ex; [|apply nth_error_None in Ex; lia].
  assert (Ey : nth_error (fs_step g T) r = Some (fs T b)) by (unfold fs_step; rewrite nth_error_map, Hr; reflexivity).
  pose proof (eqb_entries _ _ _ _ _ Heq Ex Ey) as E. unfold fsres_eqb in E. apply andb_true_iff in E as [E1 E2].
  assert (Etg : tget T r = x) by (unfold tget; apply nth_error_nth; exact Ex).
  rewrite Etg. apply eqb_prop in E1.
  assert (Ix : Inv (snd x)) by (destruct HT as [_ HI]; apply HI; eapply nth_error_In; eauto).
  assert (Iy : Inv (snd (fs T b))) by (apply fs_inv_gen; [exact HT|eapply Hro; eauto]).
  pose proof (proj1 (equal_spec _ _ Ix Iy) E2) as Em.
  pose proof (canonical _ 0 _ Ix Iy Em) as Es.
  destruct x as [xf xs]. destruct (fs T b) as [yf ys]. cbn [fst snd] in *. subst. reflexivity.
Qed.

End Stable.

(** * hence the executable side condition of the soundness theorems holds whenever the iteration is stable *)
Section OptOk.
Open Scope Z_scope.
Variable g : grammar.
Hypothesis Hro : forall r b, nth_error g r = Some (RBody b) -> ranges_ok b = true.

Lemma inv_b_complete l : forall lo, inv_from lo l -> inv_b lo l = true.
Proof.
  induction l as [|[b e] l IH]; intros lo H; cbn [inv_b inv_from] in *; [reflexivity|].
  destruct H as (H1 & H2 & H3). rewrite (IH _ H3).
  destruct (Z.leb_spec lo b); [|lia]. destruct (Z.leb_spec b e); [|lia]. reflexivity.
Qed.

Lemma stable_act T r k : fs_table g = (T, true) -> nth_error g r = Some (RAct k) -> fst (tget T r) = false.
Proof.
  intros H Hr. unfold fs_table in H. destruct (iter_tinv g Hro _ _ _ _ (init_tinv g) H) as [HT Heq].
  specialize (Heq eq_refl). unfold table_eqb in Heq. apply andb_true_iff in Heq as [_ Heq].
  assert (Hlen : (r < length T)%nat) by (destruct HT as [L _]; rewrite L; apply nth_error_Some; congruence).
  destruct (nth_error T r) as [x|] eqn:Ex; [|apply nth_error_None in Ex; lia].
  assert (Ey : nth_error (fs_step g T) r = Some (false, [])) by (unfold fs_step; rewrite nth_error_map, Hr; reflexivity).
  pose proof (eqb_entries _ _ _ _ _ Heq Ex Ey) as E. unfold fsres_eqb in E. apply andb_true_iff in E as [E1 _].
  assert (Etg : tget T r = x) by (unfold tget; apply nth_error_nth; exact Ex).
  rewrite Etg. apply eqb_prop in E1. exact E1.
Qed.

Lemma combine_seq_in (l : list rbody) : forall s p, In p (combine (seq s (length l)) l) -> nth_error l (fst p - s) = Some (snd p) /\ (s <= fst p)%nat.
Proof.
  induction l as [|y l IH]; intros s p H; [destruct H|]. cbn [length seq combine] in H. destruct H as [<-|H].
  - cbn [fst snd]. rewrite Nat.sub_diag. split; [reflexivity|lia].
  - destruct (IH (S s) p H) as [E L]. split; [|lia]. replace (fst p - s)%nat with (S (fst p - S s)) by lia. exact E.
Qed.

Theorem stable_opt_ok T : fs_table g = (T, true) -> opt_ok_b g = true.
Proof.
  intros H. unfold opt_ok_b. rewrite H. cbn [andb].
  destruct (stable_fix g Hro T H) as [HT Hfix]. unfold t_ok_b. apply andb_true_iff. split.
  - apply forallb_forall. intros s Hs. apply inv_b_complete. destruct HT as [_ HI]. apply (HI s Hs).
  - apply forallb_forall. intros p Hp. destruct (combine_seq_in g 0%nat p Hp) as [E _]. rewrite Nat.sub_0_r in E.
    destruct p as [r rb]. cbn [fst snd] in *. destruct rb as [b|k|]; cbn [rule_t_ok]; [|rewrite (stable_act T r k H E); reflexivity|reflexivity].
    rewrite (Hro _ _ E), (Hfix _ _ E). cbn [andb].
    assert (Is : Inv (snd (fs T b))) by (apply (fs_inv_gen g); [exact HT|eapply Hro; eauto]).
    destruct (fst (fs T b)); cbn [implb andb]; unfold subset_b; apply equal_spec; auto; try (apply union_inv; auto);
      intros x; rewrite union_mem by auto; destruct (mem (snd (fs T b)) x); reflexivity.
Qed.

End OptOk.
