(** C09 / C14: non-conflicting programs commute under every interleaving; instances of a product
    system see only their own operations. *)
From PegV Require Import Base.Tac Model.Conc.

Section Commute.
Variable V : Type.
Notation store := (store V).
Notation action := (action V).

Lemma respects_proper (a : action) : respects V a -> forall s s', seq_eq V s s' -> seq_eq V (a_fun V a s) (a_fun V a s').
Proof.
  intros [Hw Hd] s s' E k. destruct (in_dec Nat.eq_dec k (a_writes V a)) as [Hin|Hnin].
  - apply Hd; auto.
  - rewrite !Hw by exact Hnin. apply E.
Qed.

Lemma run_proper l : Forall (respects V) l -> forall s s', seq_eq V s s' -> seq_eq V (run V l s) (run V l s').
Proof.
  induction l as [|a l IH]; intros Hl s s' E; cbn [run]; [exact E|].
  inv Hl. apply IH; auto. apply respects_proper; auto.
Qed.

(** two non-conflicting actions commute *)
Lemma commute (a b : action) : respects V a -> respects V b -> no_conflict V a b ->
  forall s, seq_eq V (a_fun V a (a_fun V b s)) (a_fun V b (a_fun V a s)).
Proof.
  intros [Hwa Hda] [Hwb Hdb] [D1 D2] s k.
  destruct (in_dec Nat.eq_dec k (a_writes V a)) as [Ka|Ka]; destruct (in_dec Nat.eq_dec k (a_writes V b)) as [Kb|Kb].
  - exfalso. apply (D1 k Ka). apply in_or_app. right. exact Kb.
  - rewrite (Hwb (a_fun V a s) k Kb). apply Hda; auto.
    intros j Hj. apply Hwb. intros Hjb. apply (D2 j Hjb). exact Hj.
  - rewrite (Hwa (a_fun V b s) k Ka). symmetry. apply Hdb; auto.
    intros j Hj. apply Hwa. intros Hja. apply (D1 j Hja). exact Hj.
  - rewrite (Hwa _ k Ka), (Hwb _ k Kb), (Hwb _ k Kb), (Hwa _ k Ka). reflexivity.
Qed.

(** moving an action of the second program in front of the whole first program *)
Lemma run_swap (b : action) p1 : respects V b -> Forall (respects V) p1 -> Forall (fun a => no_conflict V a b) p1 ->
  forall rest, Forall (respects V) rest ->
  forall s, seq_eq V (run V (p1 ++ b :: rest) s) (run V (b :: p1 ++ rest) s).
Proof.
  intros Hb. induction p1 as [|a p1 IH]; intros H1 Hc rest Hr s; cbn [app run]; [intros k; reflexivity|].
  pose proof (Forall_inv H1) as Ra. pose proof (Forall_inv_tail H1) as R1.
  pose proof (Forall_inv Hc) as Ca. pose proof (Forall_inv_tail Hc) as C1.
  intros k. rewrite (IH R1 C1 rest Hr (a_fun V a s) k). cbn [run].
  apply run_proper; [apply Forall_app; auto|]. intros j. symmetry. apply commute; auto.
Qed.

(** every interleaving of two programs without conflicts ends in the state of running them one after the other *)
Theorem interleavings_commute p1 p2 l :
  interleaving V p1 p2 l ->
  Forall (respects V) p1 -> Forall (respects V) p2 ->
  (forall a b, In a p1 -> In b p2 -> no_conflict V a b) ->
  forall s, seq_eq V (run V l s) (run V (p1 ++ p2) s).
Proof.
  induction 1 as [|a p1 p2 l Hi IH|b p1 p2 l Hi IH]; intros H1 H2 Hc s; cbn [app run].
  - intros k; reflexivity.
  - pose proof (Forall_inv_tail H1) as R1. apply IH; auto. intros a' b' Ha' Hb'. apply Hc; [right|]; auto.
  - pose proof (Forall_inv H2) as Rb. pose proof (Forall_inv_tail H2) as R2. intros k.
    rewrite (IH H1 R2 (fun a' b' Ha' Hb' => Hc a' b' Ha' (or_intror Hb')) (a_fun V b s) k).
    symmetry. apply (run_swap b p1 Rb H1); auto.
    rewrite Forall_forall. intros a Ha. apply Hc; [exact Ha|left; reflexivity].
Qed.

(** in no interleaving do two steps of different programs conflict (race-freedom in the
    happens-before sense for a fork/join pair): immediate from the hypothesis, recorded as a statement *)
Theorem no_adjacent_conflict p1 p2 :
  (forall a b, In a p1 -> In b p2 -> no_conflict V a b) ->
  forall a b, In a p1 -> In b p2 ->
    disjoint (a_writes V a) (a_reads V b ++ a_writes V b) /\ disjoint (a_writes V b) (a_reads V a ++ a_writes V a).
Proof. intros H a b Ha Hb. exact (H a b Ha Hb). Qed.

End Commute.

(** executable disjointness of footprints given as lists of cell names *)
Definition disjoint_b (l1 l2 : list nat) : bool := forallb (fun k => negb (existsb (Nat.eqb k) l2)) l1.
Lemma disjoint_b_ok l1 l2 : disjoint_b l1 l2 = true -> disjoint l1 l2.
Proof.
  unfold disjoint_b, disjoint. rewrite forallb_forall. intros H k Hk Hk2. specialize (H k Hk).
  apply negb_true_iff in H. assert (existsb (Nat.eqb k) l2 = true) by (apply existsb_exists; exists k; split; auto; apply Nat.eqb_refl).
  congruence.
Qed.

Section Product.
Variable S O Op : Type.
Variable step : S -> Op -> S * O.

Lemma upd_same (gs : gstate S) i s : upd S gs i s i = s.
Proof. unfold upd. rewrite Nat.eqb_refl. reflexivity. Qed.
Lemma upd_other (gs : gstate S) i j s : j <> i -> upd S gs i s j = gs j.
Proof. unfold upd. intros H. destruct (Nat.eqb_spec j i); [contradiction|reflexivity]. Qed.

(** whatever the schedule, instance i ends in the state, and produces the outputs, of running its own
    operations alone *)
Theorem instances_independent : forall sched (gs : gstate S) i,
  fst (grun S O Op step gs sched) i = fst (lrun S O Op step (gs i) (proj_ops Op i sched)) /\
  proj_outs O i (snd (grun S O Op step gs sched)) = snd (lrun S O Op step (gs i) (proj_ops Op i sched)).
Proof.
  induction sched as [|[j op] rest IH]; intros gs i; [split; reflexivity|].
  unfold proj_ops, proj_outs in *. cbn [grun filter fst snd].
  destruct (step (gs j) op) as [s' o] eqn:Es.
  destruct (grun S O Op step (upd S gs j s') rest) as [gs' outs] eqn:Eg.
  cbn [fst snd filter].
  destruct (IH (upd S gs j s') i) as [I1 I2]. rewrite Eg in I1, I2. cbn [fst snd] in I1, I2.
  destruct (Nat.eqb_spec j i) as [->|Hne].
  - rewrite upd_same in I1, I2. cbn [map snd lrun]. rewrite Es.
    destruct (lrun S O Op step s' (map snd (filter (fun x => fst x =? i) rest))) as [s'' outs'] eqn:El.
    cbn [fst snd] in *. split; [exact I1|]. rewrite I2. reflexivity.
  - rewrite upd_other in I1, I2 by (intros E; apply Hne; symmetry; exact E).
    split; [exact I1|exact I2].
Qed.

(** steps of different instances commute: the global state after (i,a);(j,b) equals the one after (j,b);(i,a) *)
Theorem steps_of_different_instances_commute (gs : gstate S) i j a b : i <> j ->
  forall k, fst (grun S O Op step gs [(i, a); (j, b)]) k = fst (grun S O Op step gs [(j, b); (i, a)]) k.
Proof.
  intros Hne k. cbn [grun].
  destruct (step (gs i) a) as [si oi] eqn:Ei. destruct (step (gs j) b) as [sj oj] eqn:Ej.
  rewrite (upd_other gs i j si) by (intros E; apply Hne; symmetry; exact E). rewrite Ej.
  rewrite (upd_other gs j i sj) by exact Hne. rewrite Ei. cbn [fst].
  unfold upd. destruct (Nat.eqb_spec k j), (Nat.eqb_spec k i); subst; try reflexivity. contradiction.
Qed.
End Product.
