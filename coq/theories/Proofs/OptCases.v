(** Go rejects a switch with the same constant in two case clauses.  The switches the -switch pass builds never
    have one: the clauses are made of the alternatives whose first sets meet no later alternative's, so their
    key lists are pairwise disjoint, and the keys of one clause are the elements of one interval list. *)
From PegV Require Import Base.Tac Base.ListX Spec.Syntax Model.SetImpl Model.Analyses Model.Optimize
  Proofs.SetProofs Proofs.OptSound Proofs.OptSwok.
From Coq Require Import Permutation Lia.
Local Open Scope Z_scope.

(** no character stands in two clauses of one switch (nor twice in one clause), anywhere in the expression *)
Fixpoint sw_distinct (e : expr) : Prop :=
  match e with
  | ESeq es | EAlt es => (fix go (l : list expr) : Prop := match l with [] => True | x :: l' => sw_distinct x /\ go l' end) es
  | EAnd e1 | ENot e1 | EQuery e1 | EStar e1 | EPlus e1 | EPush e1 => sw_distinct e1
  | ESwitch cs d =>
      NoDup (flat_map fst cs) /\
      (fix go (l : list (list rune * expr)) : Prop := match l with [] => True | x :: l' => sw_distinct (snd x) /\ go l' end) cs /\
      sw_distinct d
  | _ => True
  end.

Lemma sw_list_forall es : (fix go (l : list expr) : Prop := match l with [] => True | x :: l' => sw_distinct x /\ go l' end) es <-> Forall sw_distinct es.
Proof. induction es as [|x es IH]; [split; constructor|]. split; [intros [A B]; constructor; [exact A|apply IH; exact B]|intros H; inv H; split; [assumption|apply IH; assumption]]. Qed.
Lemma sw_cases_forall cs : (fix go (l : list (list rune * expr)) : Prop := match l with [] => True | x :: l' => sw_distinct (snd x) /\ go l' end) cs <-> Forall (fun x => sw_distinct (snd x)) cs.
Proof. induction cs as [|x cs IH]; [split; constructor|]. split; [intros [A B]; constructor; [exact A|apply IH; exact B]|intros H; inv H; split; [assumption|apply IH; assumption]]. Qed.

Lemma ascending_lt lo l : ascending_from lo l -> forall x, In x l -> lo <= x.
Proof. induction 1 as [|lo y l Hy Hl IH]; intros x Hx; [destruct Hx|]. destruct Hx as [<-|Hx]; [exact Hy|]. specialize (IH x Hx). lia. Qed.
Lemma ascending_nodup lo l : ascending_from lo l -> NoDup l.
Proof.
  induction 1 as [|lo y l Hy Hl IH]; constructor; [|exact IH]. intros Hin. pose proof (ascending_lt _ _ Hl y Hin). lia.
Qed.
Lemma keys_nodup s : Inv s -> NoDup (keys_of s).
Proof. intros H. unfold keys_of. apply NoDup_filter. eapply ascending_nodup. apply (elements_ascending s 0 H). Qed.
Lemma keys_mem s x : In x (keys_of s) -> mem s x = true.
Proof. unfold keys_of. intros H. apply filter_In in H as [H _]. apply elements_mem. exact H. Qed.

Lemma NoDup_app_intro {A} (a b : list A) : NoDup a -> NoDup b -> (forall x, In x a -> In x b -> False) -> NoDup (a ++ b).
Proof.
  induction 1 as [|x a Hx Ha IH]; intros Hb Hd; [exact Hb|]. cbn [app]. constructor.
  - intros Hin. apply in_app_or in Hin as [Hin|Hin]; [exact (Hx Hin)|exact (Hd x (or_introl eq_refl) Hin)].
  - apply IH; [exact Hb|]. intros y Hy. apply Hd. right. exact Hy.
Qed.

Lemma NoDup_app_l {A} (a b : list A) : NoDup (a ++ b) -> NoDup a.
Proof.
  induction a as [|x a IH]; intros H; [constructor|]. cbn [app] in H. inv H. constructor; [|apply IH; assumption].
  intros Hin. match goal with Hn : ~ In x (a ++ b) |- _ => apply Hn end. apply in_or_app. left. exact Hin.
Qed.

(** the alternatives that meet no later one, in order: their keys are all different *)
Lemma unflagged_nodup {A} (S : list iset) : Forall Inv S -> forall xs : list A,
  NoDup (flat_map (fun x : iset * A => keys_of (fst x)) (map snd (filter (fun x => negb (fst x)) (combine (inter_flags S) (combine S xs))))).
Proof.
  induction 1 as [|s S Hs HS IH]; intros xs; [constructor|].
  destruct xs as [|a xs]; [constructor|].
  cbn [inter_flags combine filter]. 
  destruct (match S with [] => false | _ => existsb (fun s' => intersects s s') S end) eqn:Efl; cbn [negb]; [apply IH|].
  cbn [map flat_map snd fst]. apply NoDup_app_intro; [apply keys_nodup; exact Hs|apply IH|].
  intros x Hx Hin. apply keys_mem in Hx.
  apply in_flat_map in Hin as ([s' a'] & Hin & Hk). cbn [fst] in Hk. apply keys_mem in Hk.
  apply in_map_iff in Hin as ([fl [s2 a2]] & E & Hin). cbn [snd] in E. inv E.
  apply filter_In in Hin as [Hin _]. apply in_combine_r in Hin. apply in_combine_l in Hin.
  destruct S as [|s1 S1]; [destruct Hin|].
  assert (existsb (fun s0 => intersects s s0) (s1 :: S1) = true); [|congruence].
  apply existsb_exists. exists s'. split; [exact Hin|]. rewrite Forall_forall in HS. apply intersects_spec; auto. exists x. auto.
Qed.

Section Cases.
Variable g : grammar.
Hypothesis Hro : forall r b, nth_error g r = Some (RBody b) -> ranges_ok b = true.
Variable T : list fsres.
Hypothesis HT : tinv g T.

Theorem opt_sw_distinct : forall e, ranges_ok e = true -> sw_distinct (opt T e).
Proof.
  induction e using expr_ind2; cbn [ranges_ok]; intros Hr; try exact I; try discriminate.
  - (* sequence *) cbn [opt sw_distinct]. apply sw_list_forall. apply Forall_forall. intros y Hy. apply in_map_iff in Hy as (x & <- & Hx).
    rewrite Forall_forall in H. apply H; [exact Hx|]. exact (proj1 (forallb_forall _ _) Hr x Hx).
  - (* choice *)
    assert (Hplain : sw_distinct (EAlt (map (opt T) es))).
    { cbn [sw_distinct]. apply sw_list_forall. apply Forall_forall. intros y Hy. apply in_map_iff in Hy as (x & <- & Hx).
      rewrite Forall_forall in H. apply H; [exact Hx|]. exact (proj1 (forallb_forall _ _) Hr x Hx). }
    rewrite opt_alt.
    destruct (negb (forallb (fun x => fst (fs T x)) es)); [exact Hplain|].
    destruct (Nat.leb (length es) (2 + length (filter (fun b => b) (inter_flags (sets_of T es))))); [exact Hplain|].
    destruct (rev (place_cases (unord_of T es) 0 [])) as [|[sd d] before] eqn:Epl; [exact Hplain|].
    destruct (existsb (fun x => too_big (fst x)) before); [exact Hplain|].
    cbv zeta.
    assert (E : place_cases (unord_of T es) 0 [] = rev before ++ [(sd, d)]).
    { rewrite <- (rev_involutive (place_cases _ _ _)). rewrite Epl. reflexivity. }
    assert (Pm : Permutation (rev before ++ [(sd, d)]) (unord_of T es)).
    { rewrite <- E. pose proof (place_cases_perm (unord_of T es) 0 []) as P. cbn [app] in P. exact P. }
    assert (Hinv : Forall Inv (sets_of T es)).
    { unfold sets_of. apply Forall_forall. intros s Hs. apply in_map_iff in Hs as (x & <- & Hx).
      apply (fs_inv_gen g); [exact HT|]. exact (proj1 (forallb_forall _ _) Hr x Hx). }
    assert (Hnd : NoDup (flat_map (fun x : iset * expr => keys_of (fst x)) (rev before))).
    { pose proof (unflagged_nodup (sets_of T es) Hinv (map (opt T) es)) as N. fold (items_of T es) in N. fold (unord_of T es) in N.
      eapply Permutation_NoDup in N; [|apply Permutation_flat_map; symmetry; exact Pm].
      rewrite flat_map_app in N. eapply NoDup_app_l. exact N. }
    assert (Hun : forall s e', In (s, e') (unord_of T es) -> exists x, In x es /\ e' = opt T x).
    { intros s e' Hin. unfold unord_of, items_of, sets_of in Hin. apply in_map_iff in Hin as ([fl0 [s0 e0]] & E0 & Hin). cbn [snd] in E0. inv E0.
      apply filter_In in Hin as [Hin _]. apply in_combine_r in Hin. apply in_combine_r in Hin. apply in_map_iff in Hin as (x & <- & Hx). exists x. auto. }
    assert (Hsub : forall x, In x es -> sw_distinct (opt T x)).
    { intros x Hx. rewrite Forall_forall in H. apply H; [exact Hx|]. exact (proj1 (forallb_forall _ _) Hr x Hx). }
    assert (Hsw : sw_distinct (ESwitch (map (fun x => (keys_of (fst x), snd x)) (rev before)) d)).
    { cbn [sw_distinct]. split; [|split].
      - rewrite flat_map_concat_map, map_map. cbn [fst]. rewrite <- flat_map_concat_map. exact Hnd.
      - apply sw_cases_forall. apply Forall_forall. intros [keys b] Hin. apply in_map_iff in Hin as ([s e'] & E0 & Hin). cbn [fst snd] in *. injection E0 as E1 E2. subst keys b.
        assert (Hin' : In (s, e') (unord_of T es)) by (eapply Permutation_in; [exact Pm|]; apply in_or_app; left; exact Hin).
        destruct (Hun s e' Hin') as (x & Hx & ->). apply Hsub. exact Hx.
      - assert (Hin' : In (sd, d) (unord_of T es)) by (eapply Permutation_in; [exact Pm|]; apply in_or_app; right; left; reflexivity).
        destruct (Hun sd d Hin') as (x & Hx & ->). apply Hsub. exact Hx. }
    destruct (ordered_of T es) as [|o1 os] eqn:Eo; [exact Hsw|].
    cbn [sw_distinct]. apply sw_list_forall. apply Forall_app. split; [|constructor; [exact Hsw|constructor]].
    apply Forall_forall. intros y Hy. rewrite <- Eo in Hy.
    unfold ordered_of, items_of, sets_of in Hy. apply in_map_iff in Hy as ([fl0 [s0 e0]] & E0 & Hy). cbn [snd] in E0. subst e0.
    apply filter_In in Hy as [Hy _]. apply in_combine_r in Hy. apply in_combine_r in Hy. apply in_map_iff in Hy as (x & <- & Hx). apply Hsub. exact Hx.
  - cbn [opt sw_distinct]. auto.
  - cbn [opt sw_distinct]. auto.
  - cbn [opt sw_distinct]. auto.
  - cbn [opt sw_distinct]. auto.
  - cbn [opt sw_distinct]. auto.
  - cbn [opt sw_distinct]. auto.
Qed.
End Cases.

(** a tree without switch nodes has nothing to check *)
Lemma plain_sw_distinct : forall e, ranges_ok e = true -> sw_distinct e.
Proof.
  induction e using expr_ind2; cbn [ranges_ok]; intros Hr; try exact I; try discriminate; cbn [sw_distinct]; auto.
  - apply sw_list_forall. apply Forall_forall. intros x Hx. rewrite Forall_forall in H. apply H; [exact Hx|]. exact (proj1 (forallb_forall _ _) Hr x Hx).
  - apply sw_list_forall. apply Forall_forall. intros x Hx. rewrite Forall_forall in H. apply H; [exact Hx|]. exact (proj1 (forallb_forall _ _) Hr x Hx).
Qed.

(** the whole pass: no switch of the optimised tree has a character in two clauses *)
Theorem optimize_cases_distinct g : (forall r b, nth_error g r = Some (RBody b) -> ranges_ok b = true) ->
  forall r b, nth_error (optimize g) r = Some (RBody b) -> sw_distinct b.
Proof.
  intros Hro r b' Hb'. unfold optimize in Hb'. destruct (fs_table g) as [T st] eqn:Et. destruct st; cbn [negb] in Hb'.
  2: { apply plain_sw_distinct. eapply Hro; eauto. }
  destruct (stable_fix g Hro T Et) as [HT _].
  assert (E : forall (l : list rbody) s k rb, nth_error (map (fun p => match snd p with
                | RBody b => if nth (fst p) (fst (count_rules g)) false then RBody (opt T b) else RBody b
                | rb => rb end) (combine (seq s (length l)) l)) k = Some rb ->
              exists rb0, nth_error l k = Some rb0 /\ (forall b0, rb0 = RBody b0 -> rb = RBody (opt T b0) \/ rb = RBody b0) /\ (forall b1, rb = RBody b1 -> exists b0, rb0 = RBody b0)).
  { induction l as [|y l IH]; intros s k rb Hk; [destruct k; discriminate|].
    destruct k; cbn [length seq combine map nth_error fst snd] in *.
    - inv Hk. exists y. split; [reflexivity|]. split.
      + intros b0 ->. destruct (nth s (fst (count_rules g)) false); auto.
      + intros b1 Hb1. destruct y; [eauto|discriminate|discriminate].
    - apply (IH (S s) k rb Hk). }
  destruct (E g 0%nat r _ Hb') as (rb0 & Hr0 & Hc & Hx). destruct (Hx b' eq_refl) as (b0 & ->).
  destruct (Hc b0 eq_refl) as [Eq|Eq]; inv Eq; [eapply opt_sw_distinct; [exact HT|]|apply plain_sw_distinct]; eapply Hro; eauto.
Qed.

(** the emitter writes the keys of a switch node as they are: clause by clause, in order *)
From PegV Require Import Model.Emit Model.SEmit.
Lemma scases_keys (f : expr -> nat -> bool -> bool -> nat -> sres) cs : forall ko l,
  map fst (fst (scases_emit f cs ko l)) = map fst cs.
Proof.
  induction cs as [|[keys b] cs IH]; intros ko l; cbn [scases_emit]; [reflexivity|].
  destruct (f b ko true (Nat.ltb 1 (length keys)) l) as [[c l1] ll]. specialize (IH ko l1).
  destruct (scases_emit f cs ko l1) as [rest l2]. cbn [fst map] in *. rewrite IH. reflexivity.
Qed.
