(** Compositional reading of the reference semantics: "e succeeds from p to p' with action trace evs"
    and "e fails at p" as propositions (fuel existentially quantified), with one rule per construct.
    Used to reason about a fixed grammar (peg.peg's own tree) on a symbolic input. *)
From PegV Require Import Base.Tac Base.ListX Spec.Syntax Spec.Peg Spec.Tokens Proofs.PegFacts Proofs.RuntimeProofs.

Section Rel.
Variable g : grammar.
Variable ptx : nat.
Variable buf : list rune.
Variable penv : nat -> nat -> bool.

Notation ev := (peg_ev g ptx buf penv).

Definition ok (e : expr) (p p' : nat) (f : list dt) : Prop := exists n evs, ev n e p = Some (Succ p' f, evs).
Definition ko (e : expr) (p : nat) : Prop := exists n evs, ev n e p = Some (Fail, evs).
Definition oks (es : list expr) (p p' : nat) (f : list dt) : Prop := exists n evs, seq_ev (ev n) es p = Some (Succ p' f, evs).
Definition kos (es : list expr) (p : nat) : Prop := exists n evs, seq_ev (ev n) es p = Some (Fail, evs).
Definition oka (es : list expr) (p p' : nat) (f : list dt) : Prop := exists n evs, alt_ev (ev n) es p = Some (Succ p' f, evs).
Definition koa (es : list expr) (p : nat) : Prop := exists n evs, alt_ev (ev n) es p = Some (Fail, evs).

Lemma up n m e p x : ev n e p = Some x -> ev (Nat.max n m) e p = Some x.
Proof. apply peg_ev_mono. lia. Qed.
Lemma up' n m e p x : ev m e p = Some x -> ev (Nat.max n m) e p = Some x.
Proof. apply peg_ev_mono. lia. Qed.
Lemma ups n m es p x : seq_ev (ev n) es p = Some x -> seq_ev (ev (Nat.max m n)) es p = Some x.
Proof. apply seq_ev_mono. intros. eapply peg_ev_mono; [|eassumption]. lia. Qed.
Lemma upa n m es p x : alt_ev (ev n) es p = Some x -> alt_ev (ev (Nat.max m n)) es p = Some x.
Proof. apply alt_ev_mono. intros. eapply peg_ev_mono; [|eassumption]. lia. Qed.

(** ** terminals *)
Lemma ok_char c p : nth_error buf p = Some c -> ok (EChar c) p (S p) [].
Proof. intros H. exists 1, []. cbn. unfold term. rewrite H, Z.eqb_refl. reflexivity. Qed.
Lemma ko_char c p : (forall c', nth_error buf p = Some c' -> c' <> c) -> ko (EChar c) p.
Proof.
  intros H. exists 1, []. cbn. unfold term. destruct (nth_error buf p) as [c'|]; [|reflexivity].
  destruct (Z.eqb_spec c c'); [|reflexivity]. exfalso. apply (H c'); congruence.
Qed.
Lemma ok_dot c p : nth_error buf p = Some c -> ok EDot p (S p) [].
Proof. intros H. exists 1, []. cbn. unfold term. rewrite H. reflexivity. Qed.
Lemma ko_dot p : nth_error buf p = None -> ko EDot p.
Proof. intros H. exists 1, []. cbn. unfold term. rewrite H. reflexivity. Qed.
Lemma ok_range lo hi c p : nth_error buf p = Some c -> in_range lo hi c = true -> ok (ERange lo hi) p (S p) [].
Proof. intros H R. exists 1, []. cbn. unfold term. rewrite H, R. reflexivity. Qed.
Lemma ko_range lo hi p : (forall c, nth_error buf p = Some c -> in_range lo hi c = false) -> ko (ERange lo hi) p.
Proof.
  intros H. exists 1, []. cbn. unfold term. destruct (nth_error buf p) as [c|]; [|reflexivity].
  rewrite (H c eq_refl). reflexivity.
Qed.
Lemma ok_nil p : ok ENil p p [].
Proof. exists 1, []. reflexivity. Qed.

(** ** sequences *)
Lemma oks_nil p : oks [] p p [].
Proof. exists 0, []. reflexivity. Qed.
Lemma oks_cons e es p p1 p2 f1 f2 : ok e p p1 f1 -> oks es p1 p2 f2 -> oks (e :: es) p p2 (f1 ++ f2).
Proof.
  intros (n1 & v1 & H1) (n2 & v2 & H2). exists (Nat.max n1 n2), (v1 ++ v2). cbn [seq_ev].
  rewrite (up _ n2 _ _ _ H1), (ups _ n1 _ _ _ H2). reflexivity.
Qed.
Lemma seq_ev_app (f : expr -> nat -> option out) l1 : forall l2 p p1 p2 f1 f2 v1 v2,
  seq_ev f l1 p = Some (Succ p1 f1, v1) -> seq_ev f l2 p1 = Some (Succ p2 f2, v2) ->
  seq_ev f (l1 ++ l2) p = Some (Succ p2 (f1 ++ f2), v1 ++ v2).
Proof.
  induction l1 as [|e l1 IH]; intros l2 p p1 p2 f1 f2 v1 v2 H1 H2; cbn [seq_ev app] in *.
  - inv H1. exact H2.
  - destruct (f e p) as [[[|q fq] vq]|]; try discriminate.
    destruct (seq_ev f l1 q) as [[[|q' fq'] vq']|] eqn:E; try discriminate. inv H1.
    rewrite (IH l2 _ _ _ _ _ _ _ E H2). rewrite !app_assoc. reflexivity.
Qed.
Lemma oks_app l1 l2 p p1 p2 f1 f2 : oks l1 p p1 f1 -> oks l2 p1 p2 f2 -> oks (l1 ++ l2) p p2 (f1 ++ f2).
Proof.
  intros (n1 & v1 & H1) (n2 & v2 & H2). exists (Nat.max n1 n2), (v1 ++ v2).
  eapply seq_ev_app; [eapply (seq_ev_mono _ _ _ _ _ _ H1)|apply (ups _ n1 _ _ _ H2)].
  Unshelve. intros. eapply peg_ev_mono; [|eassumption]. lia.
Qed.
Lemma seq_ev_app_fail (f : expr -> nat -> option out) l1 : forall l2 p p1 f1 v1 v2,
  seq_ev f l1 p = Some (Succ p1 f1, v1) -> seq_ev f l2 p1 = Some (Fail, v2) ->
  seq_ev f (l1 ++ l2) p = Some (Fail, v1 ++ v2).
Proof.
  induction l1 as [|e l1 IH]; intros l2 p p1 f1 v1 v2 H1 H2; cbn [seq_ev app] in *.
  - inv H1. exact H2.
  - destruct (f e p) as [[[|q fq] vq]|]; try discriminate.
    destruct (seq_ev f l1 q) as [[[|q' fq'] vq']|] eqn:E; try discriminate. inv H1.
    rewrite (IH l2 _ _ _ _ _ E H2). rewrite !app_assoc. reflexivity.
Qed.
Lemma kos_app l1 l2 p p1 f1 : oks l1 p p1 f1 -> kos l2 p1 -> kos (l1 ++ l2) p.
Proof.
  intros (n1 & v1 & H1) (n2 & v2 & H2). exists (Nat.max n1 n2), (v1 ++ v2).
  eapply seq_ev_app_fail; [eapply (seq_ev_mono _ _ _ _ _ _ H1)|apply (ups _ n1 _ _ _ H2)].
  Unshelve. intros. eapply peg_ev_mono; [|eassumption]. lia.
Qed.
Lemma kos_head e es p : ko e p -> kos (e :: es) p.
Proof. intros (n & v & H). exists n, v. cbn [seq_ev]. rewrite H. reflexivity. Qed.
Lemma kos_tail e es p p1 f1 : ok e p p1 f1 -> kos es p1 -> kos (e :: es) p.
Proof.
  intros (n1 & v1 & H1) (n2 & v2 & H2). exists (Nat.max n1 n2), (v1 ++ v2). cbn [seq_ev].
  rewrite (up _ n2 _ _ _ H1), (ups _ n1 _ _ _ H2). reflexivity.
Qed.
Lemma ok_seq es p p' f : oks es p p' f -> ok (ESeq es) p p' f.
Proof. intros (n & v & H). exists (S n), v. exact H. Qed.
Lemma ko_seq es p : kos es p -> ko (ESeq es) p.
Proof. intros (n & v & H). exists (S n), v. exact H. Qed.

(** ** ordered choice *)
Lemma alt_ev_cons2 (f : expr -> nat -> option out) e e2 es p :
  alt_ev f (e :: e2 :: es) p =
    match f e p with
    | None => None
    | Some (Succ p1 f1, evs1) => Some (Succ p1 f1, evs1)
    | Some (Fail, evs1) => match alt_ev f (e2 :: es) p with None => None | Some (r, evs2) => Some (r, evs1 ++ evs2) end
    end.
Proof. reflexivity. Qed.
Lemma oka_head e es p p' f : ok e p p' f -> oka (e :: es) p p' f.
Proof. intros (n & v & H). exists n, v. cbn [alt_ev]. rewrite H. reflexivity. Qed.
Lemma oka_tail e es p p' f : ko e p -> oka es p p' f -> oka (e :: es) p p' f.
Proof.
  intros (n1 & v1 & H1) (n2 & v2 & H2). exists (Nat.max n1 n2), (v1 ++ v2).
  destruct es as [|e2 es]; [cbn in H2; discriminate|].
  rewrite alt_ev_cons2, (up _ n2 _ _ _ H1), (upa _ n1 _ _ _ H2). reflexivity.
Qed.
Lemma koa_nil p : koa [] p.
Proof. exists 0, []. reflexivity. Qed.
Lemma koa_cons e es p : ko e p -> koa es p -> koa (e :: es) p.
Proof.
  intros (n1 & v1 & H1) (n2 & v2 & H2). destruct es as [|e2 es].
  - exists n1, v1. cbn [alt_ev]. rewrite H1. reflexivity.
  - exists (Nat.max n1 n2), (v1 ++ v2). rewrite alt_ev_cons2, (up _ n2 _ _ _ H1), (upa _ n1 _ _ _ H2). reflexivity.
Qed.
Lemma ok_alt es p p' f : oka es p p' f -> ok (EAlt es) p p' f.
Proof. intros (n & v & H). exists (S n), v. exact H. Qed.
Lemma ko_alt es p : koa es p -> ko (EAlt es) p.
Proof. intros (n & v & H). exists (S n), v. exact H. Qed.

(** ** rule references *)
Lemma ok_name r b p p' f : nth_error g r = Some (RBody b) -> ok b p p' f -> ok (EName r) p p' [Node r p p' f].
Proof. intros Hr (n & v & H). exists (S n), (v ++ [(r, (p, p'))]). cbn [peg_ev]. rewrite Hr, H. reflexivity. Qed.
Lemma ko_name r b p : nth_error g r = Some (RBody b) -> ko b p -> ko (EName r) p.
Proof. intros Hr (n & v & H). exists (S n), v. cbn [peg_ev]. rewrite Hr, H. reflexivity. Qed.
Lemma ok_act r k p : nth_error g r = Some (RAct k) -> ok (EName r) p p [Node r p p []].
Proof. intros Hr. exists 1, [(r, (p, p))]. cbn [peg_ev]. rewrite Hr. reflexivity. Qed.

(** ** lookahead, repetition, capture *)
Lemma ok_and e p p' f : ok e p p' f -> ok (EAnd e) p p [].
Proof. intros (n & v & H). exists (S n), v. cbn [peg_ev]. rewrite H. reflexivity. Qed.
Lemma ko_and e p : ko e p -> ko (EAnd e) p.
Proof. intros (n & v & H). exists (S n), v. cbn [peg_ev]. rewrite H. reflexivity. Qed.
Lemma ok_not e p : ko e p -> ok (ENot e) p p [].
Proof. intros (n & v & H). exists (S n), v. cbn [peg_ev]. rewrite H. reflexivity. Qed.
Lemma ko_not e p p' f : ok e p p' f -> ko (ENot e) p.
Proof. intros (n & v & H). exists (S n), v. cbn [peg_ev]. rewrite H. reflexivity. Qed.
Lemma ok_query_some e p p' f : ok e p p' f -> ok (EQuery e) p p' f.
Proof. intros (n & v & H). exists (S n), v. cbn [peg_ev]. rewrite H. reflexivity. Qed.
Lemma ok_query_none e p : ko e p -> ok (EQuery e) p p [].
Proof. intros (n & v & H). exists (S n), v. cbn [peg_ev]. rewrite H. reflexivity. Qed.
Lemma ok_star_nil e p : ko e p -> ok (EStar e) p p [].
Proof. intros (n & v & H). exists (S n), v. cbn [peg_ev]. rewrite H. reflexivity. Qed.
Lemma ok_star_cons e p p1 p2 f1 f2 : ok e p p1 f1 -> ok (EStar e) p1 p2 f2 -> ok (EStar e) p p2 (f1 ++ f2).
Proof.
  intros (n1 & v1 & H1) (n2 & v2 & H2). exists (S (Nat.max n1 n2)), (v1 ++ v2). cbn [peg_ev].
  rewrite (up _ n2 _ _ _ H1), (up' n1 _ _ _ _ H2). reflexivity.
Qed.
Lemma ok_plus e p p1 p2 f1 f2 : ok e p p1 f1 -> ok (EStar e) p1 p2 f2 -> ok (EPlus e) p p2 (f1 ++ f2).
Proof.
  intros (n1 & v1 & H1) (n2 & v2 & H2). exists (S (Nat.max n1 n2)), (v1 ++ v2). cbn [peg_ev].
  rewrite (up _ n2 _ _ _ H1), (up' n1 _ _ _ _ H2). reflexivity.
Qed.
Lemma ko_plus e p : ko e p -> ko (EPlus e) p.
Proof. intros (n & v & H). exists (S n), v. cbn [peg_ev]. rewrite H. reflexivity. Qed.
Lemma ok_push e p p' f : ok e p p' f -> ok (EPush e) p p' [Node ptx p p' f].
Proof. intros (n & v & H). exists (S n), (v ++ [(ptx, (p, p'))]). cbn [peg_ev]. rewrite H. reflexivity. Qed.
Lemma ko_push e p : ko e p -> ko (EPush e) p.
Proof. intros (n & v & H). exists (S n), v. cbn [peg_ev]. rewrite H. reflexivity. Qed.

(** * with the action trace: what Execute() does over the derivation *)
Definition sub (t : nat * nat) : list rune := firstn (snd t - fst t) (skipn (fst t) buf).
Definition evt := (nat * list rune)%type.       (* action number, captured text *)
Definition tr (f : list dt) (txt : nat * nat) : list evt * (nat * nat) :=
  (map (fun kt : nat * (nat * nat) => (fst kt, sub (snd kt))) (fst (trace_forest g ptx f txt)), snd (trace_forest g ptx f txt)).

(** [T e p p' evs t t']: e succeeds from p to p'; walking its derivation with text register t emits evs and leaves t' *)
Definition T (e : expr) (p p' : nat) (evs : list evt) (t t' : nat * nat) : Prop :=
  exists f, ok e p p' f /\ tr f t = (evs, t').
Definition Ts (es : list expr) (p p' : nat) (evs : list evt) (t t' : nat * nat) : Prop :=
  exists f, oks es p p' f /\ tr f t = (evs, t').
Definition Ta (es : list expr) (p p' : nat) (evs : list evt) (t t' : nat * nat) : Prop :=
  exists f, oka es p p' f /\ tr f t = (evs, t').

Lemma trace_forest_app f1 : forall f2 t,
  trace_forest g ptx (f1 ++ f2) t =
    (fst (trace_forest g ptx f1 t) ++ fst (trace_forest g ptx f2 (snd (trace_forest g ptx f1 t))),
     snd (trace_forest g ptx f2 (snd (trace_forest g ptx f1 t)))).
Proof.
  induction f1 as [|k f1 IH]; intros f2 t; cbn [app trace_forest fst snd].
  - destruct (trace_forest g ptx f2 t); reflexivity.
  - destruct (trace_dt g ptx k t) as [e1 t1]. rewrite IH.
    destruct (trace_forest g ptx f1 t1) as [e2 t2]. cbn [fst snd]. rewrite app_assoc. reflexivity.
Qed.

Lemma tr_nil t : tr [] t = ([], t).
Proof. reflexivity. Qed.
Lemma tr_app f1 f2 t e1 t1 e2 t2 : tr f1 t = (e1, t1) -> tr f2 t1 = (e2, t2) -> tr (f1 ++ f2) t = (e1 ++ e2, t2).
Proof.
  unfold tr. rewrite trace_forest_app. cbn [fst snd]. intros H1 H2. inv H1. inv H2. rewrite map_app. reflexivity.
Qed.
Lemma tr_node_body r b p p' f t : nth_error g r = Some (RBody b) -> r <> ptx -> tr [Node r p p' f] t = tr f t.
Proof.
  intros Hr Hp. unfold tr. cbn [trace_forest]. rewrite trace_dt_node.
  destruct (trace_forest g ptx f t) as [e1 t1]. destruct (Nat.eqb_spec r ptx); [contradiction|]. rewrite Hr.
  cbn [fst snd]. rewrite app_nil_r. reflexivity.
Qed.
Lemma tr_node_act r k p t : nth_error g r = Some (RAct k) -> r <> ptx -> tr [Node r p p []] t = ([(k, sub t)], t).
Proof.
  intros Hr Hp. unfold tr. cbn [trace_forest]. rewrite trace_dt_node. cbn [trace_forest].
  destruct (Nat.eqb_spec r ptx); [contradiction|]. rewrite Hr. reflexivity.
Qed.
Lemma tr_node_push p p' f t : tr [Node ptx p p' f] t = (fst (tr f t), (p, p')).
Proof.
  unfold tr. cbn [trace_forest]. rewrite trace_dt_node.
  destruct (trace_forest g ptx f t) as [e1 t1]. rewrite Nat.eqb_refl. cbn [fst snd]. rewrite app_nil_r. reflexivity.
Qed.

Lemma T_silent e p p' t : ok e p p' [] -> T e p p' [] t t.
Proof. intros H. exists []. split; [exact H|reflexivity]. Qed.
Lemma Ts_nil p t : Ts [] p p [] t t.
Proof. exists []. split; [apply oks_nil|reflexivity]. Qed.
Lemma Ts_cons e es p p1 p2 e1 e2 t t1 t2 : T e p p1 e1 t t1 -> Ts es p1 p2 e2 t1 t2 -> Ts (e :: es) p p2 (e1 ++ e2) t t2.
Proof. intros (f1 & O1 & H1) (f2 & O2 & H2). exists (f1 ++ f2). split; [eapply oks_cons; eassumption|eapply tr_app; eassumption]. Qed.
Lemma Ts_app l1 l2 p p1 p2 e1 e2 t t1 t2 : Ts l1 p p1 e1 t t1 -> Ts l2 p1 p2 e2 t1 t2 -> Ts (l1 ++ l2) p p2 (e1 ++ e2) t t2.
Proof. intros (f1 & O1 & H1) (f2 & O2 & H2). exists (f1 ++ f2). split; [eapply oks_app; eassumption|eapply tr_app; eassumption]. Qed.
Lemma T_seq es p p' evs t t' : Ts es p p' evs t t' -> T (ESeq es) p p' evs t t'.
Proof. intros (f & O & H). exists f. split; [apply ok_seq; exact O|exact H]. Qed.
Lemma Ta_head e es p p' evs t t' : T e p p' evs t t' -> Ta (e :: es) p p' evs t t'.
Proof. intros (f & O & H). exists f. split; [apply oka_head; exact O|exact H]. Qed.
Lemma Ta_tail e es p p' evs t t' : ko e p -> Ta es p p' evs t t' -> Ta (e :: es) p p' evs t t'.
Proof. intros K (f & O & H). exists f. split; [apply oka_tail; assumption|exact H]. Qed.
Lemma T_alt es p p' evs t t' : Ta es p p' evs t t' -> T (EAlt es) p p' evs t t'.
Proof. intros (f & O & H). exists f. split; [apply ok_alt; exact O|exact H]. Qed.
Lemma T_name r b p p' evs t t' : nth_error g r = Some (RBody b) -> r <> ptx -> T b p p' evs t t' -> T (EName r) p p' evs t t'.
Proof.
  intros Hr Hp (f & O & H). exists [Node r p p' f]. split; [eapply ok_name; eassumption|].
  rewrite (tr_node_body _ _ _ _ _ _ Hr Hp). exact H.
Qed.
Lemma T_act r k p t : nth_error g r = Some (RAct k) -> r <> ptx -> T (EName r) p p [(k, sub t)] t t.
Proof. intros Hr Hp. exists [Node r p p []]. split; [eapply ok_act; eassumption|apply tr_node_act; assumption]. Qed.
Lemma T_and e p p' f t : ok e p p' f -> T (EAnd e) p p [] t t.
Proof. intros O. apply T_silent. eapply ok_and; eassumption. Qed.
Lemma T_not e p t : ko e p -> T (ENot e) p p [] t t.
Proof. intros K. apply T_silent. apply ok_not; assumption. Qed.
Lemma T_query_some e p p' evs t t' : T e p p' evs t t' -> T (EQuery e) p p' evs t t'.
Proof. intros (f & O & H). exists f. split; [eapply ok_query_some; exact O|exact H]. Qed.
Lemma T_query_none e p t : ko e p -> T (EQuery e) p p [] t t.
Proof. intros K. apply T_silent. apply ok_query_none; assumption. Qed.
Lemma T_star_nil e p t : ko e p -> T (EStar e) p p [] t t.
Proof. intros K. apply T_silent. apply ok_star_nil; assumption. Qed.
Lemma T_star_cons e p p1 p2 e1 e2 t t1 t2 : T e p p1 e1 t t1 -> T (EStar e) p1 p2 e2 t1 t2 -> T (EStar e) p p2 (e1 ++ e2) t t2.
Proof. intros (f1 & O1 & H1) (f2 & O2 & H2). exists (f1 ++ f2). split; [eapply ok_star_cons; eassumption|eapply tr_app; eassumption]. Qed.
Lemma T_plus e p p1 p2 e1 e2 t t1 t2 : T e p p1 e1 t t1 -> T (EStar e) p1 p2 e2 t1 t2 -> T (EPlus e) p p2 (e1 ++ e2) t t2.
Proof. intros (f1 & O1 & H1) (f2 & O2 & H2). exists (f1 ++ f2). split; [eapply ok_plus; eassumption|eapply tr_app; eassumption]. Qed.
Lemma T_push e p p' evs t t' : T e p p' evs t t' -> T (EPush e) p p' evs t (p, p').
Proof.
  intros (f & O & H). exists [Node ptx p p' f]. split; [apply ok_push; exact O|].
  rewrite tr_node_push, H. reflexivity.
Qed.
Lemma T_nil p t : T ENil p p [] t t.
Proof. apply T_silent. apply ok_nil. Qed.

(** the failure of a T is excluded: success and failure are exclusive *)
Lemma ok_ko_excl e p p' f : ok e p p' f -> ko e p -> False.
Proof. intros (n1 & v1 & H1) (n2 & v2 & H2). pose proof (peg_ev_det _ _ _ _ _ _ _ _ _ _ H1 H2). discriminate. Qed.

End Rel.

Section AtSec.
Variable buf : list rune.
(** * the input seen from a position *)
Definition At (p : nat) (s : list rune) : Prop := p <= length buf /\ skipn p buf = s.

Lemma At_cons p c s : At p (c :: s) -> nth_error buf p = Some c /\ At (S p) s.
Proof.
  intros [L H]. assert (E : buf = firstn p buf ++ c :: s) by (rewrite <- H; symmetry; apply firstn_skipn).
  assert (Lp : length (firstn p buf) = p) by (apply firstn_length_le; exact L).
  split.
  - rewrite E at 1. rewrite nth_error_app2 by lia. rewrite Lp, Nat.sub_diag. reflexivity.
  - split.
    + rewrite E. rewrite app_length. cbn. lia.
    + rewrite E at 1. replace (S p) with (length (firstn p buf ++ [c])) by (rewrite app_length; cbn; lia).
      replace (firstn p buf ++ c :: s) with ((firstn p buf ++ [c]) ++ s) by (rewrite <- app_assoc; reflexivity).
      apply skipn_app_exact.
Qed.
Lemma At_nil p : At p [] -> nth_error buf p = None.
Proof.
  intros [L H]. apply nth_error_None. assert (length (skipn p buf) = 0) by (rewrite H; reflexivity).
  rewrite skipn_length in H0. lia.
Qed.
Lemma At_app p m s : At p (m ++ s) -> At (p + length m) s.
Proof.
  revert p; induction m as [|c m IH]; intros p H; cbn [app length] in *.
  - rewrite Nat.add_0_r. exact H.
  - apply At_cons in H. destruct H as [_ H]. replace (p + S (length m)) with (S p + length m) by lia. apply IH. exact H.
Qed.
Lemma At_sub p m s : At p (m ++ s) -> sub buf (p, p + length m) = m.
Proof.
  intros [L H]. unfold sub. cbn [fst snd]. rewrite H. replace (p + length m - p) with (length m) by lia.
  rewrite firstn_app, Nat.sub_diag, firstn_all. cbn. apply app_nil_r.
Qed.
Lemma At_start : At 0 buf.
Proof. split; [lia|reflexivity]. Qed.
Lemma At_end p : At p [] -> p = length buf.
Proof. intros [L H]. assert (length (skipn p buf) = 0) by (rewrite H; reflexivity). rewrite skipn_length in H0. lia. Qed.

Lemma At_inj p q s : At p s -> At q s -> p = q.
Proof.
  intros [Lp Sp] [Lq Sq]. assert (H : length (skipn p buf) = length (skipn q buf)) by (rewrite Sp, Sq; reflexivity).
  rewrite !skipn_length in H. lia.
Qed.
End AtSec.
