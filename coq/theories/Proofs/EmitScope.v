(** Go rejects an identifier that is not declared.  Every positionN / tokenIndexN the emitted code reads - in a
    restore, a memoize call, an add or a capture - was declared earlier in the same statement list or in an
    enclosing one ("positionN, tokenIndexN := position, tokenIndex" declares both, "positionN := position" the first). *)
From PegV Require Import Base.Tac Spec.Syntax Model.Analyses Model.Emit Proofs.EmitWF.
Local Open Scope nat_scope.

Definition declp (y : code) : list nat := match y with KSave n | KSaveP n => [n] | _ => [] end.
Definition declt (y : code) : list nat := match y with KSave n => [n] | _ => [] end.
Definition mem (n : nat) (l : list nat) : bool := existsb (Nat.eqb n) l.

Definition vok_list (f : list nat -> list nat -> code -> bool) : list nat -> list nat -> list code -> bool :=
  fix go (sp st : list nat) (l : list code) : bool :=
    match l with
    | [] => true
    | y :: l' => f sp st y && go (declp y ++ sp) (declt y ++ st) l'
    end.
(** [sp] / [st]: the N whose positionN / tokenIndexN is in scope *)
Fixpoint vok1 (sp st : list nat) (x : code) : bool :=
  match x with
  | KRestore n | KMemo n => mem n sp && mem n st
  | KUseP n => mem n sp
  | KBlock b => vok_list (fun sp st y => vok1 sp st y) sp st b
  | KSwitch cs d => forallb (fun k => vok_list (fun sp st y => vok1 sp st y) sp st k) cs && vok_list (fun sp st y => vok1 sp st y) sp st d
  | _ => true
  end.
Definition vok (sp st : list nat) (c : list code) : bool := vok_list (fun sp st y => vok1 sp st y) sp st c.

Lemma mem_here n l : mem n (n :: l) = true.
Proof. unfold mem. cbn. rewrite Nat.eqb_refl. reflexivity. Qed.
Lemma mem_cons n m l : mem n l = true -> mem n (m :: l) = true.
Proof. unfold mem. cbn. intros ->. apply orb_true_r. Qed.

(** a fragment without declarations at its top level: the scope is the same all along *)
Lemma vok_app_nodecl sp st a : forall b, nodecl a = true -> vok sp st (a ++ b) = vok sp st a && vok sp st b.
Proof.
  unfold vok, nodecl. induction a as [|y a IH]; intros b Hn; [reflexivity|]. cbn [app vok_list forallb] in *.
  apply andb_true_iff in Hn as [Hy Hn].
  assert (E1 : declp y = []) by (destruct y; try reflexivity; discriminate).
  assert (E2 : declt y = []) by (destruct y; try reflexivity; discriminate).
  rewrite E1, E2. cbn [app]. rewrite (IH b Hn), andb_assoc. reflexivity.
Qed.

(** what is shown of every fragment: no declaration at its top level, well scoped in any scope *)
Definition closed (c : list code) : Prop := nodecl c = true /\ forall sp st, vok sp st c = true.
(** ... in any scope that holds [n] *)
Definition closed_with (n : nat) (c : list code) : Prop :=
  nodecl c = true /\ forall sp st, mem n sp = true -> mem n st = true -> vok sp st c = true.
Definition closed_withp (n : nat) (c : list code) : Prop :=
  nodecl c = true /\ forall sp st, mem n sp = true -> vok sp st c = true.

Lemma closed_nil : closed [].  Proof. split; reflexivity. Qed.
Lemma closed_app a b : closed a -> closed b -> closed (a ++ b).
Proof.
  intros [A1 A2] [B1 B2]. split; [rewrite nodecl_app, A1, B1; reflexivity|]. intros sp st. rewrite vok_app_nodecl by exact A1. rewrite A2, B2. reflexivity.
Qed.
Lemma closed_weak n c : closed c -> closed_with n c.
Proof. intros [A B]. split; [exact A|]. intros; apply B. Qed.
Lemma closed_weakp n c : closed c -> closed_withp n c.
Proof. intros [A B]. split; [exact A|]. intros; apply B. Qed.
Lemma closed_with_app n a b : closed_with n a -> closed_with n b -> closed_with n (a ++ b).
Proof.
  intros [A1 A2] [B1 B2]. split; [rewrite nodecl_app, A1, B1; reflexivity|]. intros sp st Hp Ht. rewrite vok_app_nodecl by exact A1. rewrite A2, B2; auto.
Qed.
Lemma closed_withp_app n a b : closed_withp n a -> closed_withp n b -> closed_withp n (a ++ b).
Proof.
  intros [A1 A2] [B1 B2]. split; [rewrite nodecl_app, A1, B1; reflexivity|]. intros sp st Hp. rewrite vok_app_nodecl by exact A1. rewrite A2, B2; auto.
Qed.
Lemma closed_atoms c : forallb (fun x => match x with KRestore _ | KMemo _ | KUseP _ | KSave _ | KSaveP _ | KBlock _ | KSwitch _ _ => false | _ => true end) c = true -> closed c.
Proof.
  intros H. split.
  - unfold nodecl. apply forallb_forall. intros x Hx. rewrite forallb_forall in H. specialize (H x Hx). destruct x; try reflexivity; discriminate.
  - intros sp st. unfold vok. revert sp st. induction c as [|y c IH]; intros sp st; [reflexivity|]. cbn [forallb vok_list] in *.
    apply andb_true_iff in H as [Hy H]. assert (E : vok1 sp st y = true) by (destruct y; try reflexivity; discriminate).
    assert (E1 : declp y = []) by (destruct y; try reflexivity; discriminate).
    assert (E2 : declt y = []) by (destruct y; try reflexivity; discriminate).
    rewrite E, E1, E2. cbn [app andb]. apply IH. exact H.
Qed.
Lemma closed_with_restore n : closed_with n [KRestore n].
Proof. split; [reflexivity|]. intros sp st Hp Ht. unfold vok. cbn. rewrite Hp, Ht. reflexivity. Qed.
Lemma closed_with_memo n : closed_with n [KMemo n].
Proof. split; [reflexivity|]. intros sp st Hp Ht. unfold vok. cbn. rewrite Hp, Ht. reflexivity. Qed.

Lemma closed_block_save n body : closed_with n body -> closed [KBlock (KSave n :: body)].
Proof.
  intros [B1 B2]. split; [reflexivity|]. intros sp st. unfold vok. cbn [vok_list vok1 declp declt app]. rewrite andb_true_r. cbn [andb].
  apply (B2 (n :: sp) (n :: st)); apply mem_here.
Qed.
Lemma closed_block_savep n body : closed_withp n body -> closed [KBlock (KSaveP n :: body)].
Proof.
  intros [B1 B2]. split; [reflexivity|]. intros sp st. unfold vok. cbn [vok_list vok1 declp declt app]. rewrite andb_true_r. cbn [andb].
  apply (B2 (n :: sp) st). apply mem_here.
Qed.

Section Scope.
Variable g : grammar.
Variable ast : bool.
Variable inl asu used : nat -> bool.
Notation emit := (emit g ast inl asu used).
Notation lbl_if := (lbl_if used).

Lemma closed_lbl_if n : closed (lbl_if n).
Proof. unfold Emit.lbl_if. destruct (used n); apply closed_atoms; reflexivity. Qed.
Lemma closed_brk (ll : bool) : closed (if ll then [KBrk] else []).
Proof. destruct ll; apply closed_atoms; reflexivity. Qed.

Definition fclosed (f : expr -> nat -> bool -> bool -> nat -> res) : Prop :=
  forall e ko pd mk l, closed (fst (fst (f e ko pd mk l))).

Lemma seq_closed f : fclosed f -> forall es ko pd mk l ll, closed (fst (fst (seq_emit f es ko pd mk l ll))).
Proof.
  intros Hf. induction es as [|x es IH]; intros ko pd mk l ll; cbn [seq_emit]; [apply closed_nil|].
  pose proof (Hf x ko pd mk l) as Fx. destruct (f x ko pd mk l) as [[c l1] ll1]. cbn [fst] in Fx.
  specialize (IH ko false false l1 (match c with [] => ll | _ => ll1 end)).
  destruct (seq_emit f es ko false false l1 _) as [[c' l2] ll2]. cbn [fst] in *. apply closed_app; auto.
Qed.

Lemma alt_closed f : fclosed f -> forall es ko ok l, closed_with ok (fst (alt_emit used f es ko ok l)).
Proof.
  intros Hf. induction es as [|x es IH]; intros ko ok l; cbn [alt_emit]; [apply closed_weak, closed_nil|].
  destruct es as [|y es].
  - pose proof (Hf x ko false false l) as Fx. destruct (f x ko false false l) as [[c l1] ll1]. cbn [fst] in *. apply closed_weak. exact Fx.
  - pose proof (Hf x l false false (S l)) as Fx. destruct (f x l false false (S l)) as [[c l1] ll1]. cbn [fst] in Fx.
    specialize (IH ko ok l1). destruct (alt_emit used f (y :: es) ko ok l1) as [c' l2]. cbn [fst] in *.
    apply closed_with_app; [apply closed_weak; exact Fx|]. apply (closed_with_app ok [KJmp ok]); [apply closed_weak, closed_atoms; reflexivity|].
    apply closed_with_app; [apply closed_weak, closed_lbl_if|]. apply (closed_with_app ok [KRestore ok]); [apply closed_with_restore|exact IH].
Qed.

Lemma cases_closed f : fclosed f -> forall cs ko l sp st,
  forallb (fun k => vok sp st k) (fst (cases_emit f cs ko l)) = true.
Proof.
  intros Hf. induction cs as [|[keys b] cs IH]; intros ko l sp st; cbn [cases_emit]; [reflexivity|].
  pose proof (Hf b ko true (Nat.ltb 1 (length keys)) l) as Fx.
  destruct (f b ko true (Nat.ltb 1 (length keys)) l) as [[c l1] ll]. cbn [fst] in Fx.
  specialize (IH ko l1 sp st). destruct (cases_emit f cs ko l1) as [rest l2]. cbn [fst forallb] in *.
  rewrite IH, andb_true_r. exact (proj2 (closed_app _ _ Fx (closed_brk ll)) sp st).
Qed.

Lemma closed_usep n : closed_withp n (if ast then [KUseP n] else [KUseP n; KSt]).
Proof. destruct ast; (split; [reflexivity|]); intros sp st Hp; unfold vok; cbn; rewrite Hp; reflexivity. Qed.

Lemma ipush_closed f : fclosed f -> forall r ko pd mk l, closed (fst (fst (ipush_emit g f r ko pd mk l))).
Proof.
  intros Hf r ko pd mk l. unfold ipush_emit. destruct (nth_error g r) as [[b|k|]|] eqn:E; cbn [fst].
  - pose proof (Hf b ko pd mk (S l)) as Fb. destruct (f b ko pd mk (S l)) as [[c l1] ll]. cbn [fst] in *.
    apply closed_block_savep. apply closed_withp_app; [apply closed_weakp; exact Fb|].
    split; [reflexivity|]. intros sp st Hp. unfold vok. cbn. rewrite Hp. reflexivity.
  - split; [reflexivity|]. intros sp st. reflexivity.
  - apply closed_block_savep. split; [reflexivity|]. intros sp st Hp. unfold vok. cbn. rewrite Hp. reflexivity.
  - apply closed_block_savep. split; [reflexivity|]. intros sp st Hp. unfold vok. cbn. rewrite Hp. reflexivity.
Qed.
Lemma closed_switch cls d : (forall sp st, forallb (fun k => vok sp st k) cls = true) -> closed d -> closed [KBlock [KSwitch cls d]].
Proof.
  intros Hc [D1 D2]. split; [reflexivity|]. intros sp st. unfold vok. cbn [vok_list vok1 declp declt app]. rewrite !andb_true_r.
  fold (vok sp st d). rewrite D2, andb_true_r. exact (Hc sp st).
Qed.

Lemma emit_closed n : fclosed (emit n).
Proof.
  induction n as [|n IH]; intros e ko pd mk l; [apply closed_nil|].
  destruct e; cbn [Emit.emit] in *.
  - destruct pd; apply closed_atoms; reflexivity.
  - destruct (pd && negb mk)%bool; apply closed_atoms; reflexivity.
  - destruct pd; apply closed_atoms; reflexivity.
  - destruct (inl r); [|destruct (asu r); apply closed_atoms; reflexivity].
    pose proof (ipush_closed _ IH r ko pd mk l) as F. destruct (ipush_emit g (emit n) r ko pd mk l) as [[c l1] ll]. exact F.
  - split; [reflexivity|]. intros sp st. reflexivity.
  - apply closed_atoms; reflexivity.
  - apply closed_nil.
  - apply closed_nil.
  - apply seq_closed; auto.
  - (* EAlt *) pose proof (alt_closed _ IH es ko l (S l)) as F.
    destruct (alt_emit used (emit n) es ko l (S l)) as [c l1]. cbn [fst] in *.
    apply closed_app; [|apply closed_lbl_if]. apply closed_block_save. exact F.
  - (* EAnd *) pose proof (IH e ko false false (S l)) as F. destruct (emit n e ko false false (S l)) as [[c l1] ll]. cbn [fst] in *.
    apply closed_block_save. apply closed_with_app; [apply closed_weak; exact F|apply closed_with_restore].
  - (* ENot *) pose proof (IH e l false false (S l)) as F. destruct (emit n e l false false (S l)) as [[c l1] ll]. cbn [fst] in *.
    apply closed_block_save. apply closed_with_app; [apply closed_weak; exact F|].
    apply (closed_with_app l [KJmp ko]); [apply closed_weak, closed_atoms; reflexivity|].
    apply closed_with_app; [apply closed_weak, closed_lbl_if|apply closed_with_restore].
  - (* EQuery *) pose proof (IH e l false false (S (S l))) as F. destruct (emit n e l false false (S (S l))) as [[c l1] ll]. cbn [fst] in *.
    apply closed_app; [|apply closed_lbl_if]. apply closed_block_save. apply closed_with_app; [apply closed_weak; exact F|].
    apply (closed_with_app l [KJmp (S l)]); [apply closed_weak, closed_atoms; reflexivity|].
    apply closed_with_app; [apply closed_weak, closed_lbl_if|apply closed_with_restore].
  - (* EStar *) pose proof (IH e (S l) false false (S (S l))) as F. destruct (emit n e (S l) false false (S (S l))) as [[c l1] ll]. cbn [fst] in *.
    apply closed_app; [apply closed_lbl_if|]. apply closed_block_save. apply closed_with_app; [apply closed_weak; exact F|].
    apply (closed_with_app (S l) [KJmp l]); [apply closed_weak, closed_atoms; reflexivity|].
    apply closed_with_app; [apply closed_weak, closed_lbl_if|apply closed_with_restore].
  - (* EPlus *) pose proof (IH e ko false false (S (S l))) as F1. destruct (emit n e ko false false (S (S l))) as [[c1 l1] ll1]. cbn [fst] in *.
    pose proof (IH e (S l) false false l1) as F2. destruct (emit n e (S l) false false l1) as [[c2 l2] ll2]. cbn [fst] in *.
    apply closed_app; [exact F1|]. apply closed_app; [apply closed_lbl_if|]. apply closed_block_save.
    apply closed_with_app; [apply closed_weak; exact F2|].
    apply (closed_with_app (S l) [KJmp l]); [apply closed_weak, closed_atoms; reflexivity|].
    apply closed_with_app; [apply closed_weak, closed_lbl_if|apply closed_with_restore].
  - (* EPush *) pose proof (IH e ko pd mk (S l)) as F. destruct (emit n e ko pd mk (S l)) as [[c l1] ll]. cbn [fst] in *.
    apply closed_block_savep. apply closed_withp_app; [apply closed_weakp; exact F|apply closed_usep].
  - (* ESwitch *)
    pose proof (cases_closed _ IH cs ko (S l)) as Fc. destruct (cases_emit (emit n) cs ko (S l)) as [cls l1]. cbn [fst] in *.
    pose proof (IH e ko false false l1) as Fd. destruct (emit n e ko false false l1) as [[cd l2] lld]. cbn [fst] in *.
    apply closed_app; [|apply closed_lbl_if]. apply closed_switch; [exact Fc|]. apply closed_app; [exact Fd|apply closed_brk].
Qed.

(** a whole rule function, from the empty scope: the position saved on entry is there for memoize and for the restore *)
Theorem rule_emit_scoped n r ko : vok [] [] (fst (rule_emit g ast inl asu used n r ko)) = true.
Proof.
  unfold rule_emit. pose proof (ipush_closed _ (emit_closed n) r ko false false (S ko)) as F.
  destruct (ipush_emit g (emit n) r ko false false (S ko)) as [[c l1] ll]. cbn [fst] in *. destruct F as [F1 F2].
  assert (K : forall tl, nodecl c = true -> (forall sp st, vok sp st c = true) -> forall sp st, vok sp st (c ++ tl) = vok sp st tl).
  { intros tl Hn Hv sp st. rewrite vok_app_nodecl by exact Hn. rewrite Hv. reflexivity. }
  destruct ast, (used ko) eqn:Eu; cbn [orb app]; unfold vok; cbn [vok_list vok1 declp declt app andb];
    fold (vok [ko] [ko] (c ++ [KMemo ko; KSt; KLbl ko; KMemo ko; KRestore ko; KSt]));
    fold (vok [ko] [ko] (c ++ [KMemo ko; KSt]));
    fold (vok [ko] [ko] (c ++ [KSt; KLbl ko; KRestore ko; KSt]));
    fold (vok [] [] (c ++ [KSt]));
    rewrite K by assumption; unfold vok; cbn; rewrite ?Nat.eqb_refl; reflexivity.
Qed.

End Scope.

(** every function of the file *)
Lemma pass_scoped g ast inline asu undef cr fl real u : forall rs r l,
  Forall (fun o => match o with Some F => vok [] [] F = true | None => True end) (pass g ast inline asu undef cr fl real u rs r l).
Proof.
  induction rs as [|rb rs IH]; intros r l; cbn [pass]; [constructor|].
  destruct (match rb with RNil => if undef r then real else true | _ => false end); [constructor; [exact I|apply IH]|].
  destruct (negb (reached cr r)); [constructor; [exact I|apply IH]|].
  destruct (once inline cr r && negb (l =? 0))%bool; [constructor; [exact I|apply IH]|].
  pose proof (rule_emit_scoped g ast (once inline cr) asu u fl r l) as U.
  destruct (rule_emit g ast (once inline cr) asu u fl r l) as [c l1]. cbn [fst] in U.
  constructor; [exact U|apply IH].
Qed.

Theorem emit_all_scoped g ast inline asu undef :
  Forall (fun o => match o with Some F => vok [] [] F = true | None => True end) (emit_all g ast inline asu undef).
Proof. unfold emit_all. apply pass_scoped. Qed.
