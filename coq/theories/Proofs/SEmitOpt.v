(** -switch at the level of the generated statements: the code generated from the optimised tree returns the verdict,
    the offset and the tokens of the semantics of the ORIGINAL tree.  (optimize_sound + totality + SEmitFile.) *)
From PegV Require Import Base.Tac Spec.Syntax Spec.Peg Spec.WF Model.Machine Model.SkipCheck Model.Analyses Model.Optimize Model.Gen
  Model.Emit Model.SEmit Model.Exec Proofs.PegFacts Proofs.OptSound Proofs.Top Proofs.OptTop Proofs.SEmitFile.
Local Open Scope nat_scope.

Section Switch.
Variable g : grammar.
Variable tab : list bool.
Variable rank : list nat.
Hypothesis Hwf : wf_b g tab rank = true.
Hypothesis Hopt : opt_ok_b g = true.
Hypothesis Hg' : good_grammar (optimize g).
Hypothesis Hsw' : good_switches (optimize g).
Variable ptx : nat.
Variable buf : list rune.
Variable penv : nat -> nat -> bool.
Hypothesis Hbuf : good_buf buf.
Hypothesis Hvalid : valid_buf buf.

Theorem generated_code_switch memo inline r rb st0 :
  nth_error g r = Some rb -> rb <> RNil ->
  deep_table_b (optimize g) inline = true -> slot_ok (optimize g) inline r -> reached (count_rules (optimize g)) r = true ->
  exists n res evs, peg_parse g ptx buf penv n r = Some (res, evs) /\
    forall out, xcall buf penv (mk_opts true memo inline (optimize g)) (gen_fn (optimize g) ptx inline) r (reset st0) out ->
      match res with
      | Succ p f => exists st', out = Ret true st' /\ pos st' = p /\ live st' = Syntax.flat f
      | Fail => exists st', out = Ret false st'
      end.
Proof.
  intros Hr Hn Hd Hs Hre.
  destruct (common_result g tab rank Hwf Hopt ptx buf penv Hvalid r rb Hr Hn) as (n & res & evs & evs' & H & H').
  exists n, res, evs. split; [exact H|]. intros out Hx.
  destruct n as [|n]; [discriminate|].
  pose proof (generated_code_every_execution (optimize g) ptx buf penv Hg' Hbuf Hsw' memo inline n r st0 _ Hd Hs Hre H' out Hx) as K.
  destruct res as [|p f]; [destruct K as (st' & E & _); eauto|exact K].
Qed.
End Switch.
Print Assumptions generated_code_switch.
