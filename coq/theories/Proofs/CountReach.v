(** countRules (Model/Analyses.v count_f: depth-first from the first rule, with fuel) marks a set of rules that is
    closed: every name in the body of a marked rule is marked.  The fuel Compile's model gives it is enough. *)
From PegV Require Import Base.Tac Spec.Syntax Model.Analyses.
From Coq Require Import List Arith Lia Bool.
Import ListNotations.

Lemma firstn_snoc {A} (d : A) : forall (l : list A) k, k < length l -> firstn (S k) l = firstn k l ++ [nth k l d].
Proof.
  induction l as [|x l IH]; intros k Hk; [cbn in Hk; lia|]. destruct k; [reflexivity|].
  cbn [firstn nth app]. rewrite <- IH by (cbn in Hk; lia). reflexivity.
Qed.
Lemma sum_snoc {A} (f : A -> nat) : forall (l : list A) w, fold_right (fun x a => f x + a) 0 (l ++ [w]) = fold_right (fun x a => f x + a) 0 l + f w.
Proof. induction l as [|y l IH]; intros w; cbn [app fold_right]; [lia|]. rewrite IH. lia. Qed.

Section CR.
Variable g : grammar.
Notation count_f := (count_f g).

Definition rget (R : list bool) (r : nat) : bool := nth r R false.
Definition rs (r : nat) : nat := rsize (nth r g RNil).

(** the weight of the rules not yet marked *)
Fixpoint unvk (R : list bool) (k : nat) : nat :=
  match k with O => 0 | S k' => unvk R k' + (if rget R k' then 0 else rs k') end.
Definition unv (R : list bool) : nat := unvk R (length g).

(** setb *)
Lemma setb_go_nth r : forall l i j d,
  nth j ((fix go (l : list bool) (i : nat) := match l with [] => [] | c :: l' => (if i =? r then true else c) :: go l' (S i) end) l i) d =
  if ((i + j =? r) && (j <? length l))%bool then true else nth j l d.
Proof.
  induction l as [|c l IH]; intros i j d.
  - destruct j; cbn; rewrite andb_false_r; reflexivity.
  - destruct j as [|j].
    + cbn [nth length]. rewrite Nat.add_0_r. cbn. destruct (i =? r); reflexivity.
    + cbn [nth length]. rewrite IH. replace (S i + j) with (i + S j) by lia.
      replace (S j <? S (length l)) with (j <? length l) by reflexivity. reflexivity.
Qed.
Lemma setb_nth R r j d : nth j (setb R r) d = if ((j =? r) && (j <? length R))%bool then true else nth j R d.
Proof. unfold setb. rewrite setb_go_nth. reflexivity. Qed.
Lemma setb_go_length r : forall l i,
  length ((fix go (l : list bool) (i : nat) := match l with [] => [] | c :: l' => (if i =? r then true else c) :: go l' (S i) end) l i) = length l.
Proof. induction l as [|c l IH]; intros i; cbn; [reflexivity|]. rewrite IH. reflexivity. Qed.
Lemma setb_length R r : length (setb R r) = length R.
Proof. unfold setb. apply setb_go_length. Qed.
Lemma rget_setb R r j : rget (setb R r) j = if ((j =? r) && (j <? length R))%bool then true else rget R j.
Proof. unfold rget. apply setb_nth. Qed.

Lemma unvk_mono R R' : (forall r, rget R r = true -> rget R' r = true) -> forall k, unvk R' k <= unvk R k.
Proof.
  intros H. induction k as [|k IH]; cbn [unvk]; [lia|]. destruct (rget R k) eqn:E; [rewrite (H _ E); lia|]. destruct (rget R' k); lia.
Qed.
Lemma unvk_setb R r : r < length R -> rget R r = false -> forall k,
  unvk (setb R r) k + (if r <? k then rs r else 0) = unvk R k.
Proof.
  intros Hr Hf. induction k as [|k IH]; cbn [unvk]; [reflexivity|].
  rewrite rget_setb. destruct (Nat.eqb_spec k r) as [->|N].
  - assert (E : (r <? length R) = true) by (apply Nat.ltb_lt; exact Hr). rewrite E. cbn [andb]. rewrite Hf.
    replace (r <? S r) with true by (symmetry; apply Nat.ltb_lt; lia).
    replace (r <? r) with false in IH by (symmetry; apply Nat.ltb_ge; lia). lia.
  - cbn [andb]. destruct (Nat.ltb_spec r (S k)) as [L|L]; destruct (Nat.ltb_spec r k) as [L'|L']; try lia.
Qed.

(** what one traversal establishes *)
Definition Post (ns : list nat) (R R' : list bool) : Prop :=
  length R' = length R /\ (forall r, rget R r = true -> rget R' r = true) /\
  (forall r, In r ns -> r < length g -> rget R' r = true) /\
  (forall r, rget R' r = true -> rget R r = false -> forall b, nth_error g r = Some (RBody b) ->
     forall r', In r' (names_of b) -> r' < length g -> rget R' r' = true).

Lemma Post_refl R : Post [] R R.
Proof. split; [reflexivity|]. split; [auto|]. split; [intros r0 []|intros r0 H1 H2; congruence]. Qed.
Lemma Post_trans n1 n2 R R1 R2 : Post n1 R R1 -> Post n2 R1 R2 -> Post (n1 ++ n2) R R2.
Proof.
  intros (L1 & M1 & N1 & C1) (L2 & M2 & N2 & C2). split; [congruence|]. split; [auto|]. split.
  - intros r Hin Hr. apply in_app_or in Hin as [Hin|Hin]; [apply M2, N1; auto|apply N2; auto].
  - intros r H2 H0 b Hb r' Hr' Hl. destruct (rget R1 r) eqn:E1.
    + apply M2. eapply C1; eauto.
    + eapply C2; eauto.
Qed.
Lemma Post_names ns ns' R R' : Post ns R R' -> (forall r, In r ns' -> In r ns) -> Post ns' R R'.
Proof. intros (L & M & N & C) H. repeat split; auto. Qed.

Lemma unv_post ns R R' : Post ns R R' -> unv R' <= unv R.
Proof. intros (_ & M & _). apply unvk_mono. exact M. Qed.

Lemma fold_post n (IH : forall e R C, length R = length g -> esize e + unv R <= n -> Post (names_of e) R (fst (count_f n e (R, C)))) :
  forall es R C, length R = length g -> fold_right (fun x a => esize x + a) 0 es + unv R <= n ->
    Post (flat_map names_of es) R (fst (fold_left (fun s x => count_f n x s) es (R, C))).
Proof.
  induction es as [|x es IHes]; intros R C L F; cbn [fold_left flat_map fold_right] in *; [apply Post_refl|].
  pose proof (IH x R C L ltac:(lia)) as P1. destruct (count_f n x (R, C)) as [R1 C1]. cbn [fst] in P1.
  pose proof (unv_post _ _ _ P1) as U1. destruct P1 as (L1 & P1').
  eapply Post_trans; [split; [exact L1|exact P1']|]. apply IHes; [congruence|lia].
Qed.
Lemma fold_post_cs n (IH : forall e R C, length R = length g -> esize e + unv R <= n -> Post (names_of e) R (fst (count_f n e (R, C)))) :
  forall (cs : list (list rune * expr)) R C, length R = length g -> fold_right (fun x a => esize (snd x) + a) 0 cs + unv R <= n ->
    Post (flat_map (fun c => names_of (snd c)) cs) R (fst (fold_left (fun s x => count_f n (snd x) s) cs (R, C))).
Proof.
  induction cs as [|x cs IHes]; intros R C L F; cbn [fold_left flat_map fold_right] in *; [apply Post_refl|].
  pose proof (IH (snd x) R C L ltac:(lia)) as P1. destruct (count_f n (snd x) (R, C)) as [R1 C1]. cbn [fst] in P1.
  pose proof (unv_post _ _ _ P1) as U1. destruct P1 as (L1 & P1').
  eapply Post_trans; [split; [exact L1|exact P1']|]. apply IHes; [congruence|lia].
Qed.

Theorem count_f_post n : forall e R C, length R = length g -> esize e + unv R <= n ->
  Post (names_of e) R (fst (count_f n e (R, C))).
Proof.
  induction n as [|n IH]; intros e R C L F; [destruct e; cbn [esize] in F; lia|].
  destruct e; cbn [Analyses.count_f names_of esize] in *; try apply Post_refl.
  - (* a name *)
    destruct (nth r R true) eqn:Ev.
    + cbn [fst]. repeat split; auto; [|intros r0 H1 H2; congruence].
      intros r0 [<-|[]] Hr. unfold rget. rewrite <- Ev. apply nth_indep. congruence.
    + assert (Hr : r < length R).
      { destruct (Nat.lt_ge_cases r (length R)) as [H|H]; [exact H|]. rewrite nth_overflow in Ev by exact H. discriminate. }
      assert (Hf : rget R r = false) by (unfold rget; rewrite <- Ev; apply nth_indep; exact Hr).
      pose proof (unvk_setb R r Hr Hf (length g)) as U. replace (r <? length g) with true in U by (symmetry; apply Nat.ltb_lt; lia).
      fold (unv (setb R r)) in U. fold (unv R) in U.
      assert (Pset : forall R', Post [] (setb R r) R' ->
                (forall b, nth_error g r = Some (RBody b) -> forall r', In r' (names_of b) -> r' < length g -> rget R' r' = true) ->
                Post [r] R R').
      { intros R' (L' & M' & _ & C') Hb. split; [rewrite L', setb_length; reflexivity|]. split.
        - intros r0 H0. apply M'. rewrite rget_setb, H0. destruct (_ && _)%bool; reflexivity.
        - split.
          + intros r0 [<-|[]] _. apply M'. rewrite rget_setb, Nat.eqb_refl. replace (r <? length R) with true by (symmetry; apply Nat.ltb_lt; exact Hr). reflexivity.
          + intros r0 H1 H0 b Hb0 r' Hr' Hl. destruct (Nat.eq_dec r0 r) as [->|N]; [eapply Hb; eauto|].
            eapply C'; eauto. rewrite rget_setb. replace (r0 =? r) with false by (symmetry; apply Nat.eqb_neq; exact N). exact H0. }
      destruct (nth_error g r) as [[b|k|]|] eqn:Eg.
      * assert (Ers : rs r = S (esize b)).
        { unfold rs. rewrite (nth_error_nth _ _ _ Eg). reflexivity. }
        pose proof (IH b (setb R r) (bump C r) ltac:(rewrite setb_length; exact L) ltac:(lia)) as P.
        destruct (count_f n b (setb R r, bump C r)) as [R' C']. cbn [fst] in *.
        apply Pset; [eapply Post_names; [exact P|intros ? []]|].
        intros b0 E0 r' Hr' Hl. inv E0. destruct P as (_ & _ & N & _). apply N; auto.
      * cbn [fst]. apply Pset; [apply Post_refl|intros b0 E0; discriminate].
      * cbn [fst]. apply Pset; [apply Post_refl|intros b0 E0; discriminate].
      * cbn [fst]. apply Pset; [apply Post_refl|intros b0 E0; discriminate].
  - apply (fold_post n IH); [exact L|lia].
  - apply (fold_post n IH); [exact L|lia].
  - apply IH; [exact L|lia].
  - apply IH; [exact L|lia].
  - apply IH; [exact L|lia].
  - apply IH; [exact L|lia].
  - apply IH; [exact L|lia].
  - apply IH; [exact L|lia].
  - (* switch *)
    pose proof (fold_post_cs n IH cs R C L ltac:(lia)) as P1.
    destruct (fold_left (fun s x => count_f n (snd x) s) cs (R, C)) as [R1 C1]. cbn [fst] in P1.
    pose proof (unv_post _ _ _ P1) as U1. destruct P1 as (L1 & P1').
    eapply Post_trans; [split; [exact L1|exact P1']|]. apply IH; [congruence|lia].
Qed.

Lemma unvk_all_false k : k <= length g -> unvk (map (fun _ => false) g) k = fold_right (fun rb a => rsize rb + a) 0 (firstn k g).
Proof.
  induction k as [|k IH]; intros Hk; [reflexivity|]. cbn [unvk]. rewrite IH by lia.
  assert (E : rget (map (fun _ => false) g) k = false).
  { unfold rget. change false with ((fun _ : rbody => false) RNil) at 2. rewrite map_nth. reflexivity. }
  rewrite E. unfold rs.
  rewrite (firstn_snoc RNil g k) by lia. rewrite (sum_snoc rsize). lia.
Qed.
Lemma unv_all_false : unv (map (fun _ => false) g) = gsize g.
Proof. unfold unv. rewrite unvk_all_false by lia. rewrite firstn_all. reflexivity. Qed.

(** the rules countRules marks are closed under the names in their bodies *)
Theorem count_rules_closed : forall r, rget (fst (count_rules g)) r = true -> forall b, nth_error g r = Some (RBody b) ->
  forall r', In r' (names_of b) -> r' < length g -> rget (fst (count_rules g)) r' = true.
Proof.
  unfold count_rules. destruct g as [|rb0 g0] eqn:Eg; [intros r _ b Hb; destruct r; discriminate|]. rewrite <- Eg.
  intros r Hr b Hb r' Hr' Hl.
  pose proof (count_f_post (S (gsize g) * S (length g)) (EName 0) (map (fun _ => false) g) (map (fun _ => 0) g)
                ltac:(apply map_length) ltac:(rewrite unv_all_false; cbn [esize]; nia)) as (_ & _ & _ & C).
  eapply C; eauto. unfold rget. change false with ((fun _ : rbody => false) RNil) at 2. rewrite map_nth. reflexivity.
Qed.

(** ... and the first rule is marked *)
Theorem count_rules_start : g <> [] -> rget (fst (count_rules g)) 0 = true.
Proof.
  intros Hne. unfold count_rules. destruct g as [|rb0 g0] eqn:Eg; [congruence|]. rewrite <- Eg.
  pose proof (count_f_post (S (gsize g) * S (length g)) (EName 0) (map (fun _ => false) g) (map (fun _ => 0) g)
                ltac:(apply map_length) ltac:(rewrite unv_all_false; cbn [esize]; nia)) as (_ & _ & N & _).
  apply N; [left; reflexivity|rewrite Eg; cbn; lia].
Qed.
End CR.
