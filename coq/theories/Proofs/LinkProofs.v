(** Facts about Compile's first passes (Model/Link.v): actions are numbered in the order they are met
    (pre-order over the rules in definition order), the rules created for them carry those numbers in
    order, and the linked tree has no dangling reference. *)
From PegV Require Import Base.Tac Spec.Syntax Model.Link.

Fixpoint acts_of (e : expr) : list nat :=
  match e with
  | EAct k => [k]
  | ESeq es | EAlt es => flat_map acts_of es
  | EAnd e1 | ENot e1 | EQuery e1 | EStar e1 | EPlus e1 | EPush e1 => acts_of e1
  | _ => []
  end.

Fixpoint names_of_e (e : expr) : list nat :=
  match e with
  | EName r => [r]
  | ESeq es | EAlt es => flat_map names_of_e es
  | EAnd e1 | ENot e1 | EQuery e1 | EStar e1 | EPlus e1 | EPush e1 => names_of_e e1
  | _ => []
  end.

Definition ract_ids (l : list rbody) : list nat :=
  flat_map (fun rb => match rb with RAct k => [k] | _ => [] end) l.

Section LinkFacts.
Variable nuser : nat.
Notation link_e := (link_e nuser).
Notation next_slot := (next_slot nuser).

Definition linv (st : lstate) : Prop :=
  ract_ids (l_app st) = seq 0 (length (l_acts st)) /\
  (forall n i, In (n, i) (l_undef st) -> i < next_slot st) /\
  (forall i, l_ptx st = Some i -> i < next_slot st) /\
  (forall rb, In rb (l_app st) -> match rb with RBody _ => False | _ => True end).

Definition lstep (st st' : lstate) (acts : list nat) : Prop :=
  l_acts st' = l_acts st ++ acts /\ (exists ext, l_app st' = l_app st ++ ext) /\ (linv st -> linv st').

Lemma lstep_refl st : lstep st st [].
Proof. split; [rewrite app_nil_r; reflexivity|]. split; [exists []; rewrite app_nil_r; reflexivity|auto]. Qed.

Lemma lstep_trans st1 st2 st3 a b : lstep st1 st2 a -> lstep st2 st3 b -> lstep st1 st3 (a ++ b).
Proof.
  intros (A1 & (x & A2) & A3) (B1 & (y & B2) & B3). split; [rewrite B1, A1, app_assoc; reflexivity|].
  split; [exists (x ++ y); rewrite B2, A2, app_assoc; reflexivity|auto].
Qed.

Lemma next_mono st st' a : lstep st st' a -> next_slot st <= next_slot st'.
Proof. intros (_ & (x & E) & _). unfold Link.next_slot. rewrite E, app_length. lia. Qed.

Lemma ract_ids_app a b : ract_ids (a ++ b) = ract_ids a ++ ract_ids b.
Proof. unfold ract_ids. apply flat_map_app. Qed.

Lemma lookup_u_in l n i : lookup_u l n = Some i -> In (n, i) l.
Proof.
  induction l as [|[m j] l IH]; cbn [lookup_u]; [discriminate|].
  destruct (Nat.eqb_spec n m) as [->|Hne]; [intros E; inv E; left; reflexivity|intros H; right; auto].
Qed.

(** the elementary steps *)
Lemma step_act st k :
  lstep st (mkl (l_app st ++ [RAct (length (l_acts st))]) (l_undef st) (l_ptx st) (l_acts st ++ [k])) [k].
Proof.
  split; [reflexivity|]. split; [eexists; reflexivity|]. intros (I1 & I2 & I3 & I4). unfold linv, Link.next_slot in *. cbn [l_app l_undef l_ptx l_acts].
  split; [rewrite ract_ids_app, I1, app_length; cbn [ract_ids flat_map app length]; rewrite Nat.add_1_r, seq_S; reflexivity|].
  rewrite app_length. cbn [length]. split; [intros n i Hi; specialize (I2 n i Hi); lia|].
  split; [intros i Hi; specialize (I3 i Hi); lia|]. intros rb Hrb. apply in_app_or in Hrb as [Hrb|[<-|[]]]; [apply I4; exact Hrb|exact I].
Qed.

Lemma step_undef st n :
  lstep st (mkl (l_app st ++ [RNil]) ((n, next_slot st) :: l_undef st) (l_ptx st) (l_acts st)) [].
Proof.
  split; [rewrite app_nil_r; reflexivity|]. split; [eexists; reflexivity|]. intros (I1 & I2 & I3 & I4). unfold linv, Link.next_slot in *. cbn [l_app l_undef l_ptx l_acts].
  split; [rewrite ract_ids_app, I1; cbn [ract_ids flat_map app]; rewrite app_nil_r; reflexivity|].
  rewrite app_length. cbn [length]. split; [intros m i [E|Hi]; [inv E; lia|specialize (I2 m i Hi); lia]|].
  split; [intros i Hi; specialize (I3 i Hi); lia|]. intros rb Hrb. apply in_app_or in Hrb as [Hrb|[<-|[]]]; [apply I4; exact Hrb|exact I].
Qed.

Lemma step_ptx st : l_ptx st = None ->
  lstep st (mkl (l_app st ++ [RNil]) (l_undef st) (Some (next_slot st)) (l_acts st)) [].
Proof.
  intros Hp. split; [rewrite app_nil_r; reflexivity|]. split; [eexists; reflexivity|]. intros (I1 & I2 & I3 & I4). unfold linv, Link.next_slot in *. cbn [l_app l_undef l_ptx l_acts].
  split; [rewrite ract_ids_app, I1; cbn [ract_ids flat_map app]; rewrite app_nil_r; reflexivity|].
  rewrite app_length. cbn [length]. split; [intros m i Hi; specialize (I2 m i Hi); lia|].
  split; [intros i Hi; inv Hi; lia|]. intros rb Hrb. apply in_app_or in Hrb as [Hrb|[<-|[]]]; [apply I4; exact Hrb|exact I].
Qed.

(** the main lemma: one expression *)
Definition espec (e : expr) : Prop :=
  forall st e' st', link_e e st = (e', st') ->
    lstep st st' (acts_of e) /\ (linv st -> forall r, In r (names_of_e e') -> r < next_slot st').

Lemma list_spec (es : list expr) : Forall espec es ->
  forall st es' st',
    (fix go (l : list expr) (st : lstate) : list expr * lstate :=
       match l with
       | [] => ([], st)
       | x :: l' => let '(x', st1) := link_e x st in let '(l'', st2) := go l' st1 in (x' :: l'', st2)
       end) es st = (es', st') ->
    lstep st st' (flat_map acts_of es) /\ (linv st -> forall r, In r (flat_map names_of_e es') -> r < next_slot st').
Proof.
  induction 1 as [|x es Hx Hes IH]; intros st es' st' H.
  - inv H. split; [apply lstep_refl|intros _ r []].
  - destruct (link_e x st) as [x' st1] eqn:Ex.
    destruct ((fix go (l : list expr) (st : lstate) : list expr * lstate :=
                 match l with
                 | [] => ([], st)
                 | x :: l' => let '(x', st1) := link_e x st in let '(l'', st2) := go l' st1 in (x' :: l'', st2)
                 end) es st1) as [l'' st2] eqn:El. inv H.
    destruct (Hx _ _ _ Ex) as [S1 N1]. destruct (IH _ _ _ El) as [S2 N2].
    split; [cbn [flat_map]; eapply lstep_trans; eauto|].
    intros Hi r Hr. cbn [flat_map] in Hr. apply in_app_or in Hr as [Hr|Hr].
    + specialize (N1 Hi r Hr). pose proof (next_mono _ _ _ S2). lia.
    + apply N2; [|exact Hr]. destruct S1 as (_ & _ & K). auto.
Qed.

Lemma link_e_spec : forall e, espec e.
Proof.
  induction e using expr_ind2; intros st e' st' Hl; cbn [Link.link_e] in Hl; rename Hl into H'.
  - inv H'. split; [apply lstep_refl|intros _ r []].
  - inv H'. split; [apply lstep_refl|intros _ r []].
  - inv H'. split; [apply lstep_refl|intros _ r []].
  - (* EName *)
    destruct (Nat.ltb_spec r nuser) as [L|L].
    + inv H'. split; [apply lstep_refl|]. intros _ r0 [<-|[]]. unfold Link.next_slot. lia.
    + destruct (lookup_u (l_undef st) r) as [i|] eqn:El.
      * inv H'. split; [apply lstep_refl|]. intros (_ & I2 & _ & _) r0 [<-|[]]. apply (I2 r). apply lookup_u_in. exact El.
      * inv H'. split; [apply step_undef|]. intros _ r0 [<-|[]]. unfold Link.next_slot. cbn [l_app]. rewrite app_length. cbn. lia.
  - inv H'. split; [apply lstep_refl|intros _ r []].
  - inv H'. split; [apply lstep_refl|intros _ r []].
  - (* EAct *) inv H'. split; [apply step_act|]. intros _ r0 [<-|[]]. unfold Link.next_slot. cbn [l_app]. rewrite app_length. cbn. lia.
  - inv H'. split; [apply lstep_refl|intros _ r []].
  - (* ESeq *)
    destruct ((fix go (l : list expr) (st : lstate) : list expr * lstate :=
                 match l with
                 | [] => ([], st)
                 | x :: l' => let '(x', st1) := link_e x st in let '(l'', st2) := go l' st1 in (x' :: l'', st2)
                 end) es st) as [es' st2] eqn:El. inv H'.
    exact (list_spec es H _ _ _ El).
  - (* EAlt *)
    destruct ((fix go (l : list expr) (st : lstate) : list expr * lstate :=
                 match l with
                 | [] => ([], st)
                 | x :: l' => let '(x', st1) := link_e x st in let '(l'', st2) := go l' st1 in (x' :: l'', st2)
                 end) es st) as [es' st2] eqn:El. inv H'.
    exact (list_spec es H _ _ _ El).
  - destruct (link_e e st) as [e1 st1] eqn:E. inv H'. exact (IHe _ _ _ E).
  - destruct (link_e e st) as [e1 st1] eqn:E. inv H'. exact (IHe _ _ _ E).
  - destruct (link_e e st) as [e1 st1] eqn:E. inv H'. exact (IHe _ _ _ E).
  - destruct (link_e e st) as [e1 st1] eqn:E. inv H'. exact (IHe _ _ _ E).
  - destruct (link_e e st) as [e1 st1] eqn:E. inv H'. exact (IHe _ _ _ E).
  - (* EPush *)
    set (st1 := match l_ptx st with Some _ => st | None => mkl (l_app st ++ [RNil]) (l_undef st) (Some (next_slot st)) (l_acts st) end) in *.
    destruct (link_e e st1) as [e1 st2] eqn:E. inv H'.
    assert (S0 : lstep st st1 []) by (unfold st1; destruct (l_ptx st) eqn:Ep; [apply lstep_refl|apply step_ptx; exact Ep]).
    destruct (IHe _ _ _ E) as [S1 N1]. split; [exact (lstep_trans _ _ _ _ _ S0 S1)|].
    intros Hi. apply N1. destruct S0 as (_ & _ & K). auto.
  - inv H'. split; [apply lstep_refl|intros _ r []].
Qed.

Lemma link_rules_spec : forall bodies st bs st', link_rules nuser bodies st = (bs, st') ->
  lstep st st' (flat_map acts_of bodies) /\ (linv st -> forall r, In r (flat_map names_of_e bs) -> r < next_slot st') /\
  length bs = length bodies.
Proof.
  induction bodies as [|b bodies IH]; intros st bs st' H; cbn [link_rules] in H.
  - inv H. split; [apply lstep_refl|]. split; [intros _ r []|reflexivity].
  - destruct (link_e b st) as [b' st1] eqn:Eb. destruct (link_rules nuser bodies st1) as [bs' st2] eqn:Er. inv H.
    destruct (link_e_spec b _ _ _ Eb) as [S1 N1]. destruct (IH _ _ _ Er) as (S2 & N2 & L2).
    split; [cbn [flat_map]; eapply lstep_trans; eauto|]. split; [|cbn [length]; rewrite L2; reflexivity].
    intros Hi r Hr. cbn [flat_map] in Hr. apply in_app_or in Hr as [Hr|Hr].
    + specialize (N1 Hi r Hr). pose proof (next_mono _ _ _ S2). lia.
    + apply N2; [|exact Hr]. destruct S1 as (_ & _ & K). auto.
Qed.

End LinkFacts.

Definition grammar_names (g : grammar) : list nat :=
  flat_map (fun rb => match rb with RBody b => names_of_e b | _ => [] end) g.

(** * the theorems *)
Theorem link_facts bodies g ptx acts :
  link bodies = (g, ptx, acts) ->
  (* actions are numbered in the order they are met *)
  acts = flat_map acts_of bodies /\
  (* the rules created for them carry these numbers, in order, behind the user's rules *)
  ract_ids g = seq 0 (length acts) /\
  (forall i b, nth_error bodies i = Some b -> exists b', nth_error g i = Some (RBody b')) /\
  (* no dangling reference, and the capture rule exists when it is named *)
  (forall r, In r (grammar_names g) -> r < length g) /\
  (forall i, ptx = Some i -> i < length g).
Proof.
  unfold link. destruct (link_rules (length bodies) bodies (mkl [] [] None [])) as [bs st] eqn:E. intros H. inv H.
  destruct (link_rules_spec (length bodies) bodies _ _ _ E) as ((A1 & (ext & A2) & A3) & N & L).
  assert (I0 : linv (length bodies) (mkl [] [] None [])).
  { split; [reflexivity|]. split; [intros n i []|]. split; [intros i Hi; discriminate|intros rb []]. }
  destruct (A3 I0) as (J1 & J2 & J3 & J4). cbn [l_acts l_app app] in *.
  assert (Hlen : length (map RBody bs ++ l_app st) = next_slot (length bodies) st).
  { rewrite app_length, map_length, L. reflexivity. }
  split; [exact A1|]. split.
  - rewrite ract_ids_app. replace (ract_ids (map RBody bs)) with (@nil nat); [exact J1|].
    clear. induction bs as [|b bs IH]; [reflexivity|exact IH].
  - split.
    + intros i b Hb. assert (Hi : i < length bs) by (rewrite L; apply nth_error_Some; congruence).
      destruct (nth_error bs i) as [b'|] eqn:Eb; [|apply nth_error_None in Eb; lia].
      exists b'. rewrite nth_error_app1 by (rewrite map_length; exact Hi). rewrite nth_error_map, Eb. reflexivity.
    + split.
      * intros r Hr. rewrite Hlen. unfold grammar_names in Hr. rewrite flat_map_app in Hr. apply in_app_or in Hr as [Hr|Hr].
        -- apply (N I0). clear -Hr. induction bs as [|b bs IH]; [destruct Hr|]. cbn [map flat_map] in *. apply in_app_or in Hr as [Hr|Hr]; apply in_or_app; auto.
        -- exfalso. apply in_flat_map in Hr as (rb & Hrb & Hr). specialize (J4 rb Hrb). destruct rb; [destruct J4|destruct Hr|destruct Hr].
      * intros i Hi. rewrite Hlen. apply J3. exact Hi.
Qed.

(** the user's rules come first; behind them stand only rules without a body of their own *)
Theorem link_shape bodies g ptx acts :
  link bodies = (g, ptx, acts) ->
  exists bs app, g = map RBody bs ++ app /\ forall rb, In rb app -> forall x, rb <> RBody x.
Proof.
  unfold link. destruct (link_rules (length bodies) bodies (mkl [] [] None [])) as [bs st] eqn:E. intros H. inv H.
  destruct (link_rules_spec (length bodies) bodies _ _ _ E) as ((_ & _ & A3) & _ & _).
  assert (I0 : linv (length bodies) (mkl [] [] None [])).
  { split; [reflexivity|]. split; [intros n i []|]. split; [intros i Hi; discriminate|intros rb []]. }
  destruct (A3 I0) as (_ & _ & _ & J4).
  exists bs, (l_app st). split; [reflexivity|]. intros rb Hrb x Hx. specialize (J4 rb Hrb). subst rb. exact J4.
Qed.

(** with the emission theorem (Proofs/EmitWF.v): every tree these passes produce is emitted well *)
From PegV Require Import Model.Emit Proofs.EmitWF.
Theorem emit_linked_wellformed bodies g ptx acts :
  link bodies = (g, ptx, acts) ->
  forall ast inline asu undef,
    Forall (fun o => match o with Some F => fn_ok F | None => True end) (emit_all g ast inline asu undef).
Proof.
  intros H ast inline asu undef.
  destruct (link_shape bodies g ptx acts H) as (bs & app & -> & Happ).
  apply emit_all_wellformed_linked. exact Happ.
Qed.
