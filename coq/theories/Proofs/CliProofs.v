(** C18 over the whole (finite) input space of the CLI model, for the facts read from main.go. *)
From Coq Require Import List Bool.
Import ListNotations.
From PegV Require Import Model.Cli Generated.CliFacts.

Lemma in_bools (b : bool) : In b [true; false].
Proof. destruct b; cbn; auto. Qed.

Lemma all_inputs_complete : forall i, In i all_inputs.
Proof.
  intros [st sr ou a b c d e w]. unfold all_inputs.
  apply in_flat_map. exists st. split; [apply in_bools|].
  apply in_flat_map. exists sr. split; [destruct sr; cbn; auto|].
  apply in_flat_map. exists ou. split; [destruct ou; cbn; auto|].
  apply in_flat_map. exists a. split; [apply in_bools|].
  apply in_flat_map. exists b. split; [apply in_bools|].
  apply in_flat_map. exists c. split; [apply in_bools|].
  apply in_flat_map. exists d. split; [apply in_bools|].
  apply in_flat_map. exists e. split; [destruct e; cbn; auto|].
  apply in_map. apply in_bools.
Qed.

Lemma c18_all : forallb (c18_ok fatal_on_error fatal_only_if_strict) all_inputs = true.
Proof. vm_compute. reflexivity. Qed.

Theorem c18_holds : forall i, c18_ok fatal_on_error fatal_only_if_strict i = true.
Proof. intros i. exact (proj1 (forallb_forall _ _) c18_all i (all_inputs_complete i)). Qed.
