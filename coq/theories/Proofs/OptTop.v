(** -switch end to end: the parser generated from the optimised tree (any memo / inline decisions)
    and the parser generated from the original tree give the same verdict, consumed prefix and token
    sequence.  Composition of the machine theorems (Proofs/Top.v), totality (Proofs/Total.v) and the
    soundness of the rewrite (Proofs/OptSound.v). *)
From PegV Require Import Base.Tac Spec.Syntax Spec.Peg Spec.WF Model.Machine Model.SkipCheck Model.Analyses Model.Optimize Model.Gen
  Proofs.PegFacts Proofs.Total Proofs.FirstSound Proofs.OptSound Proofs.Top.

Local Open Scope nat_scope.
Section SwitchInvisible.
Variable g : grammar.
Variable tab : list bool.
Variable rank : list nat.
Hypothesis Hwf : wf_b g tab rank = true.
Hypothesis Hopt : opt_ok_b g = true.
Hypothesis Hg : good_grammar g.
Hypothesis Hg' : good_grammar (optimize g).
Hypothesis Hsw : good_switches g.
Hypothesis Hsw' : good_switches (optimize g).
Variable ptx : nat.
Variable buf : list rune.
Variable penv : nat -> nat -> bool.
Hypothesis Hbuf : good_buf buf.
Hypothesis Hvalid : valid_buf buf.

(** both semantics have the same result, at one common fuel *)
Lemma common_result r rb :
  nth_error g r = Some rb -> rb <> RNil ->
  exists n res evs evs', peg_parse g ptx buf penv n r = Some (res, evs) /\
                         peg_parse (optimize g) ptx buf penv n r = Some (res, evs').
Proof.
  intros Hr Hn.
  destruct (c01_total g ptx buf penv tab rank r rb Hwf Hr Hn) as (n & [res evs] & H).
  destruct (optimize_sound g tab rank Hwf Hopt ptx buf penv Hvalid r n _ H) as (m & evs' & H'). cbn [fst] in H'.
  exists (Nat.max n m), res, evs, evs'. unfold peg_parse in *. split.
  - eapply peg_ev_mono; [apply Nat.le_max_l|exact H].
  - eapply peg_ev_mono; [apply Nat.le_max_r|exact H'].
Qed.

Theorem c02_switch_invisible memo memo' inline inline' r rb st0 st0' :
  nth_error g r = Some rb -> rb <> RNil ->
  slot_ok g inline r -> slot_ok (optimize g) inline' r ->
  exists n b st1 st2,
    machine g ptx buf penv memo inline n r st0 = Some (Ret b st1) /\
    machine (optimize g) ptx buf penv memo' inline' n r st0' = Some (Ret b st2) /\
    (b = true -> pos st1 = pos st2 /\ Machine.live st1 = Machine.live st2).
Proof.
  intros Hr Hn Hs Hs'.
  destruct (common_result r rb Hr Hn) as (n & res & evs & evs' & H & H').
  pose proof (parse_correct g ptx buf penv Hg Hbuf Hsw memo inline n r st0 _ (slot_ok_memo g memo inline r Hs) H) as P1.
  pose proof (parse_correct (optimize g) ptx buf penv Hg' Hbuf Hsw' memo' inline' n r st0' _ (slot_ok_memo (optimize g) memo' inline' r Hs') H') as P2.
  exists n. destruct res as [|p f]; cbn [parse_spec] in *.
  - destruct P1 as (s1 & R1 & _). destruct P2 as (s2 & R2 & _). exists false, s1, s2.
    split; [exact R1|]. split; [exact R2|]. discriminate.
  - destruct P1 as (s1 & R1 & A1 & _ & L1 & _). destruct P2 as (s2 & R2 & A2 & _ & L2 & _). exists true, s1, s2.
    split; [exact R1|]. split; [exact R2|]. intros _. split; congruence.
Qed.

(** C07 with -switch: the -noast parser of the optimised tree gives the verdict and prefix of the
    semantics of the original tree *)
Theorem c07_noast_switch inline r rb st0 :
  (forall rb0, nth_error (optimize g) ptx = Some rb0 -> rb0 = RNil) ->
  nth_error g r = Some rb -> rb <> RNil ->
  o_inline (mk_opts false false inline (optimize g)) r = false ->
  exists n res evs st',
    peg_parse g ptx buf penv n r = Some (res, evs) /\
    machine_noast (optimize g) ptx buf penv inline n r st0 = Some (Ret (match res with Fail => false | Succ _ _ => true end) st') /\
    match res with Succ p _ => pos st' = p /\ p <= length buf | Fail => True end.
Proof.
  intros Hptx Hr Hn Hinl.
  destruct (common_result r rb Hr Hn) as (n & res & evs & evs' & H & H').
  destruct (c07_noast (optimize g) ptx buf penv Hg' Hbuf Hsw' Hptx inline n r st0 _ Hinl H') as (st' & R & _ & P).
  cbn [fst] in *. exists n, res, evs, st'. auto.
Qed.

End SwitchInvisible.

(** * without side conditions on the analysis: a well-formed grammar whose characters and ranges are
    code points in order is all that is needed *)
From PegV Require Import Proofs.OptSwok.

Section Strong.
Variable g : grammar.
Variable tab : list bool.
Variable rank : list nat.
Hypothesis Hwf : wf_b g tab rank = true.
Hypothesis Hg : good_grammar g.
Hypothesis Hro : forall r b, nth_error g r = Some (RBody b) -> ranges_ok b = true.

Lemma g'_false T : g' g T (fun _ => false) = g.
Proof.
  unfold g'.
  assert (E : forall (l : list rbody) s,
            map (fun p => match snd p with RBody b => RBody (tr T ((fun _ : nat => false) (fst p)) b) | rb => rb end) (combine (seq s (length l)) l) = l).
  { induction l as [|y l IH]; intros s; [reflexivity|]. cbn [length seq combine map fst snd]. rewrite IH. destruct y; reflexivity. }
  apply E.
Qed.

Lemma optimize_unstable T : fs_table g = (T, false) -> optimize g = g.
Proof. intros E. unfold optimize. rewrite E. reflexivity. Qed.

Theorem plain_good_switches : good_switches g.
Proof.
  intros inline r b Hb. rewrite <- (g'_false []) at 1.
  apply (swok_plain g [] (fun _ => false)). eapply Hro; eauto.
Qed.

Theorem optimize_good_switches : good_switches (optimize g).
Proof.
  destruct (fs_table g) as [T st] eqn:E. destruct st.
  - rewrite (optimize_is_g' g T E). intros inline.
    destruct (stable_fix g Hro T E) as [_ Hfix].
    apply (g'_swok g T tab rank Hwf Hfix Hro).
  - rewrite (optimize_unstable T E). exact plain_good_switches.
Qed.

Theorem optimize_good_grammar : good_grammar (optimize g).
Proof.
  destruct (fs_table g) as [T st] eqn:E. destruct st.
  - rewrite (optimize_is_g' g T E). destruct (stable_fix g Hro T E) as [_ Hfix].
    exact (g'_good g T tab rank Hwf Hfix Hro _ (fun _ => false) Hg).
  - rewrite (optimize_unstable T E). exact Hg.
Qed.

Variable ptx : nat.
Variable buf : list rune.
Variable penv : nat -> nat -> bool.
Hypothesis Hbuf : good_buf buf.
Hypothesis Hvalid : valid_buf buf.

Theorem c02_switch_invisible_strong memo memo' inline inline' r rb st0 st0' :
  nth_error g r = Some rb -> rb <> RNil ->
  slot_ok g inline r -> slot_ok (optimize g) inline' r ->
  exists n b st1 st2,
    machine g ptx buf penv memo inline n r st0 = Some (Ret b st1) /\
    machine (optimize g) ptx buf penv memo' inline' n r st0' = Some (Ret b st2) /\
    (b = true -> pos st1 = pos st2 /\ Machine.live st1 = Machine.live st2).
Proof.
  intros Hr Hn Hs Hs'.
  destruct (fs_table g) as [T st] eqn:E. destruct st.
  - eapply (c02_switch_invisible g tab rank Hwf (stable_opt_ok g Hro T E) Hg optimize_good_grammar plain_good_switches optimize_good_switches
              ptx buf penv Hbuf Hvalid); eauto.
  - rewrite (optimize_unstable T E) in *.
    destruct (c01_total g ptx buf penv tab rank r rb Hwf Hr Hn) as (n & rr & H).
    destruct (c02_inline_invisible g ptx buf penv Hg Hbuf plain_good_switches memo memo' inline inline' n r st0 st0' rr Hs Hs' H) as (b & s1 & s2 & A).
    exists n, b, s1, s2. exact A.
Qed.


Theorem c07_noast_switch_strong inline r rb st0 :
  (forall rb0, nth_error (optimize g) ptx = Some rb0 -> rb0 = RNil) ->
  nth_error g r = Some rb -> rb <> RNil ->
  o_inline (mk_opts false false inline (optimize g)) r = false ->
  exists n res evs st',
    peg_parse g ptx buf penv n r = Some (res, evs) /\
    machine_noast (optimize g) ptx buf penv inline n r st0 = Some (Ret (match res with Fail => false | Succ _ _ => true end) st') /\
    match res with Succ p _ => pos st' = p /\ p <= length buf | Fail => True end.
Proof.
  intros Hptx Hr Hn Hinl.
  destruct (fs_table g) as [T st] eqn:E. destruct st.
  - eapply (c07_noast_switch g tab rank Hwf (stable_opt_ok g Hro T E) optimize_good_grammar optimize_good_switches ptx buf penv Hbuf Hvalid); eauto.
  - rewrite (optimize_unstable T E) in *.
    destruct (c01_total g ptx buf penv tab rank r rb Hwf Hr Hn) as (n & [res evs] & H).
    destruct (c07_noast g ptx buf penv Hg Hbuf plain_good_switches Hptx inline n r st0 _ Hinl H) as (st' & R & _ & P).
    cbn [fst] in *. exists n, res, evs, st'. auto.
Qed.

End Strong.
