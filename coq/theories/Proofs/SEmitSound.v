(** The emitted code implements the machine: running [semit e] (Model/SEmit.v) under the execution semantics of
    Model/Exec.v does what [run_f e] (Model/Machine.v) does - falls through with the machine's state on success,
    jumps to the failure label on failure, crashes when it crashes -, and a call of a rule function returns what
    [rule_fn] returns.  Together with [forget (semit ..) = emit ..] this closes the gap between the structured
    interpreter the other theorems are about and the goto code whose skeleton is compared with the generated file. *)
From PegV Require Import Base.Tac Base.ListX Spec.Syntax Spec.Peg Model.Analyses Model.Machine Model.Emit Model.SEmit Model.Exec.

(** * forgetting the statements gives the skeleton *)
Section Forget.
Variable g : grammar.
Variable ptx : nat.
Variable ast : bool.
Variable inl asu used : nat -> bool.

Notation emit := (Emit.emit g ast inl asu used).
Notation semit := (SEmit.semit g ptx ast inl asu used).

Lemma forget_app a b : forget (a ++ b) = forget a ++ forget b.
Proof. apply flat_map_app. Qed.
Lemma forget_lbl_if n : forget (slbl_if used n) = lbl_if used n.
Proof. unfold slbl_if, lbl_if. destruct (used n); reflexivity. Qed.

Lemma forget_cons x c : forget (x :: c) = forget1 x ++ forget c.
Proof. reflexivity. Qed.
Ltac fg :=
  repeat (rewrite ?forget_app, ?forget_cons, ?forget_lbl_if; cbn [forget1 app];
          repeat match goal with |- context [flat_map forget1 ?b] => change (flat_map forget1 b) with (forget b) end);
  rewrite ?app_nil_r.

Lemma forget_seq (se : expr -> nat -> bool -> bool -> nat -> sres) (ke : expr -> nat -> bool -> bool -> nat -> Emit.res) es :
  (forall x ko pd mk l, let '(c, l1, ll) := se x ko pd mk l in ke x ko pd mk l = (forget c, l1, ll)) ->
  forall ko pd mk l ll, let '(c, l1, ll1) := sseq_emit se es ko pd mk l ll in seq_emit ke es ko pd mk l ll = (forget c, l1, ll1).
Proof.
  intros H. induction es as [|x es IH]; intros ko pd mk l ll; cbn [sseq_emit seq_emit]; [reflexivity|].
  specialize (H x ko pd mk l). destruct (se x ko pd mk l) as [[c l1] ll1]. rewrite H.
  assert (E : match forget c with [] => ll | _ => ll1 end = match c with [] => ll | _ => ll1 end).
  { destruct c as [|i c]; [reflexivity|]. cbn [forget flat_map]. destruct i; reflexivity. }
  rewrite E. specialize (IH ko false false l1 (match c with [] => ll | _ => ll1 end)).
  destruct (sseq_emit se es ko false false l1 _) as [[c' l2] ll2]. rewrite IH, forget_app. reflexivity.
Qed.

Lemma forget_alt (se : expr -> nat -> bool -> bool -> nat -> sres) (ke : expr -> nat -> bool -> bool -> nat -> Emit.res) es :
  (forall x ko pd mk l, let '(c, l1, ll) := se x ko pd mk l in ke x ko pd mk l = (forget c, l1, ll)) ->
  forall ko ok l, let '(c, l1) := salt_emit used se es ko ok l in alt_emit used ke es ko ok l = (forget c, l1).
Proof.
  intros H. induction es as [|x es IH]; intros ko ok l; [reflexivity|]. destruct es as [|y es].
  - cbn [salt_emit alt_emit]. specialize (H x ko false false l). destruct (se x ko false false l) as [[c l1] ll1]. rewrite H. reflexivity.
  - change (salt_emit used se (x :: y :: es) ko ok l) with
      (let '(c, l1, _) := se x l false false (S l) in let '(c', l2) := salt_emit used se (y :: es) ko ok l1 in
       (c ++ [SJmp ok] ++ slbl_if used l ++ [SRestore ok] ++ c', l2)).
    change (alt_emit used ke (x :: y :: es) ko ok l) with
      (let '(c, l1, _) := ke x l false false (S l) in let '(c', l2) := alt_emit used ke (y :: es) ko ok l1 in
       (c ++ [KJmp ok] ++ lbl_if used l ++ [KRestore ok] ++ c', l2)).
    specialize (H x l false false (S l)). destruct (se x l false false (S l)) as [[c l1] ll1]. rewrite H.
    specialize (IH ko ok l1). destruct (salt_emit used se (y :: es) ko ok l1) as [c' l2]. rewrite IH.
    rewrite !forget_app, forget_lbl_if. reflexivity.
Qed.

Lemma forget_cases (se : expr -> nat -> bool -> bool -> nat -> sres) (ke : expr -> nat -> bool -> bool -> nat -> Emit.res) cs :
  (forall x ko pd mk l, let '(c, l1, ll) := se x ko pd mk l in ke x ko pd mk l = (forget c, l1, ll)) ->
  forall ko l, let '(cl, l1) := scases_emit se cs ko l in
               cases_emit ke cs ko l = (map (fun kc : list rune * list scode => forget (snd kc)) cl, l1).
Proof.
  intros H. induction cs as [|[keys b] cs IH]; intros ko l; cbn [scases_emit cases_emit]; [reflexivity|].
  specialize (H b ko true (Nat.ltb 1 (length keys)) l). destruct (se b ko true _ l) as [[c l1] ll]. rewrite H.
  specialize (IH ko l1). destruct (scases_emit se cs ko l1) as [rest l2]. rewrite IH. cbn [map snd].
  rewrite forget_app. destruct ll; reflexivity.
Qed.

Theorem forget_semit n : forall e ko pd mk l, let '(c, l1, ll) := semit n e ko pd mk l in emit n e ko pd mk l = (forget c, l1, ll).
Proof.
  induction n as [|n IH]; intros e ko pd mk l; [reflexivity|].
  assert (Hip : forall r ko pd mk l, let '(c, l1, ll) := sipush_emit g ast (semit n) r ko pd mk l in
                                   ipush_emit g (emit n) r ko pd mk l = (forget c, l1, ll)).
  { intros r ko0 pd0 mk0 l0. unfold sipush_emit, ipush_emit. destruct (nth_error g r) as [[b|k|]|]; try reflexivity.
    - specialize (IH b ko0 pd0 mk0 (S l0)). destruct (semit n b ko0 pd0 mk0 (S l0)) as [[c l1] ll]. rewrite IH. fg. reflexivity.
    - destruct ast; reflexivity. }
  destruct e; cbn [SEmit.semit Emit.emit].
  - destruct pd; reflexivity.
  - destruct (pd && negb mk)%bool; reflexivity.
  - destruct pd; reflexivity.
  - destruct (inl r).
    + specialize (Hip r ko pd mk l). destruct (sipush_emit g ast (semit n) r ko pd mk l) as [[c l1] ll]. rewrite Hip. reflexivity.
    + destruct (asu r); reflexivity.
  - reflexivity.
  - reflexivity.
  - reflexivity.
  - reflexivity.
  - apply (forget_seq (semit n) (emit n) es IH).
  - pose proof (forget_alt (semit n) (emit n) es IH ko l (S l)) as H. destruct (salt_emit used (semit n) es ko l (S l)) as [c l1]. rewrite H. fg. reflexivity.
  - specialize (IH e ko false false (S l)). destruct (semit n e ko false false (S l)) as [[c l1] ll]. rewrite IH. fg. reflexivity.
  - specialize (IH e l false false (S l)). destruct (semit n e l false false (S l)) as [[c l1] ll]. rewrite IH. fg. reflexivity.
  - specialize (IH e l false false (S (S l))). destruct (semit n e l false false (S (S l))) as [[c l1] ll]. rewrite IH. fg. reflexivity.
  - specialize (IH e (S l) false false (S (S l))). destruct (semit n e (S l) false false (S (S l))) as [[c l1] ll]. rewrite IH. fg. reflexivity.
  - pose proof (IH e ko false false (S (S l))) as H1. destruct (semit n e ko false false (S (S l))) as [[c1 l1] ll1]. rewrite H1.
    pose proof (IH e (S l) false false l1) as H2. destruct (semit n e (S l) false false l1) as [[c2 l2] ll2]. rewrite H2. fg. reflexivity.
  - specialize (IH e ko pd mk (S l)). destruct (semit n e ko pd mk (S l)) as [[c l1] ll]. rewrite IH. destruct ast; fg; reflexivity.
  - pose proof (forget_cases (semit n) (emit n) cs IH ko (S l)) as H. destruct (scases_emit (semit n) cs ko (S l)) as [cl l1]. rewrite H.
    specialize (IH e ko false false l1). destruct (semit n e ko false false l1) as [[cd l2] lld]. rewrite IH.
    destruct lld; fg; reflexivity.
Qed.

End Forget.

(** the file level: rule functions and the pass over the rule list *)
Section ForgetFile.
Variable g : grammar.
Variable ptx : nat.
Variable ast : bool.

Lemma forget_ipush inl asu used n r ko pd mk l :
  let '(c, l1, ll) := sipush_emit g ast (SEmit.semit g ptx ast inl asu used n) r ko pd mk l in
  ipush_emit g (Emit.emit g ast inl asu used n) r ko pd mk l = (forget c, l1, ll).
Proof.
  unfold sipush_emit, ipush_emit. destruct (nth_error g r) as [[b|k|]|]; try reflexivity.
  - pose proof (forget_semit g ptx ast inl asu used n b ko pd mk (S l)) as H.
    destruct (SEmit.semit g ptx ast inl asu used n b ko pd mk (S l)) as [[c l1] ll]. rewrite H.
    cbn [forget flat_map forget1 app]. change (flat_map forget1) with forget. rewrite forget_app. reflexivity.
  - destruct ast; reflexivity.
Qed.

Lemma forget_srule inl asu used n r ko :
  let '(c, l1) := srule_emit g ptx ast inl asu used n r ko in rule_emit g ast inl asu used n r ko = (forget c, l1).
Proof.
  unfold srule_emit, rule_emit. pose proof (forget_ipush inl asu used n r ko false false (S ko)) as H.
  destruct (sipush_emit g ast (SEmit.semit g ptx ast inl asu used n) r ko false false (S ko)) as [[c l1] ll]. rewrite H.
  rewrite !forget_app. destruct ast, (used ko); reflexivity.
Qed.

Lemma forget_spass inline asu undef cr fl real used rs : forall r l,
  map (option_map forget) (spass g ptx ast inline asu undef cr fl real used rs r l) = pass g ast inline asu undef cr fl real used rs r l.
Proof.
  induction rs as [|rb rs IH]; intros r l; cbn [spass pass map]; [reflexivity|].
  destruct (match rb with RNil => if undef r then real else true | _ => false end); [cbn [map option_map]; rewrite IH; reflexivity|].
  destruct (negb (reached cr r)); [cbn [map option_map]; rewrite IH; reflexivity|].
  destruct (once inline cr r && negb (l =? 0))%bool; [cbn [map option_map]; rewrite IH; reflexivity|].
  pose proof (forget_srule (once inline cr) asu used fl r l) as H.
  destruct (srule_emit g ptx ast (once inline cr) asu used fl r l) as [c l1]. rewrite H. cbn [map option_map]. rewrite IH. reflexivity.
Qed.

Theorem forget_semit_all inline asu undef :
  map (option_map forget) (semit_all g ptx ast inline asu undef) = emit_all g ast inline asu undef.
Proof. unfold semit_all, emit_all. apply forget_spass. Qed.

End ForgetFile.

(** * labels and jumps of the emitted code *)
Fixpoint slbls1 (x : scode) : list nat :=
  match x with
  | SLbl n => [n]
  | SBlock b => flat_map slbls1 b
  | SSwitch cs d => flat_map (fun kc : list rune * list scode => flat_map slbls1 (snd kc)) cs ++ flat_map slbls1 d
  | _ => []
  end.
Definition slbls (c : list scode) : list nat := flat_map slbls1 c.
Fixpoint sjumps1 (x : scode) : list nat :=
  match x with
  | SJmp n | SCond _ n => [n]
  | SBlock b => flat_map sjumps1 b
  | SSwitch cs d => flat_map (fun kc : list rune * list scode => flat_map sjumps1 (snd kc)) cs ++ flat_map sjumps1 d
  | _ => []
  end.
Definition sjumps (c : list scode) : list nat := flat_map sjumps1 c.
Definition top1 (x : scode) : list nat := match x with SLbl n => [n] | _ => [] end.
Definition toplbls (c : list scode) : list nat := flat_map top1 c.

Lemma slbls_app a b : slbls (a ++ b) = slbls a ++ slbls b.
Proof. apply flat_map_app. Qed.
Lemma sjumps_app a b : sjumps (a ++ b) = sjumps a ++ sjumps b.
Proof. apply flat_map_app. Qed.
Lemma toplbls_app a b : toplbls (a ++ b) = toplbls a ++ toplbls b.
Proof. apply flat_map_app. Qed.
Lemma top_in_all c j : In j (toplbls c) -> In j (slbls c).
Proof.
  induction c as [|i c IH]; [auto|]. cbn [toplbls slbls flat_map]. rewrite !in_app_iff. intros [H|H]; [left|right; apply IH; exact H].
  destruct i; cbn in *; tauto.
Qed.

Lemma after_label_skip l a b : ~ In l (toplbls a) -> after_label l (a ++ b) = after_label l b.
Proof.
  induction a as [|i a IH]; intros H; [reflexivity|]. cbn [toplbls flat_map] in H. rewrite in_app_iff in H.
  cbn [app after_label]. destruct i; try (apply IH; tauto).
  cbn [top1] in H. destruct (Nat.eqb_spec n l) as [->|N]; [exfalso; apply H; left; left; reflexivity|apply IH; tauto].
Qed.
Lemma after_label_none l c : ~ In l (toplbls c) -> after_label l c = None.
Proof. intros H. rewrite <- (app_nil_r c). rewrite after_label_skip by exact H. reflexivity. Qed.
Lemma after_label_hit l k : after_label l (SLbl l :: k) = Some k.
Proof. cbn. rewrite Nat.eqb_refl. reflexivity. Qed.

Section Ranges.
Variable g : grammar.
Variable ptx : nat.
Variable ast : bool.
Variable inl asu used : nat -> bool.
Notation semit := (SEmit.semit g ptx ast inl asu used).

Definition rng (ko l : nat) (c : list scode) (l1 : nat) : Prop :=
  l <= l1 /\ (forall j, In j (slbls c) -> l <= j < l1) /\ (forall j, In j (sjumps c) -> j = ko \/ l <= j < l1).

Lemma slbl_if_lbls n j : In j (slbls (slbl_if used n)) -> j = n.
Proof. unfold slbl_if. destruct (used n); cbn; intros H; [destruct H as [H|[]]; auto|destruct H]. Qed.
Lemma slbl_if_jumps n : sjumps (slbl_if used n) = [].
Proof. unfold slbl_if. destruct (used n); reflexivity. Qed.

Ltac inx :=
  repeat first
    [ progress (cbn [slbls sjumps flat_map slbls1 sjumps1 app In] in * )
    | match goal with
      | H : In _ (_ ++ _) |- _ => apply in_app_or in H; destruct H as [H|H]
      | H : In _ (flat_map slbls1 _) |- _ => change (flat_map slbls1) with slbls in H
      | H : In _ (flat_map sjumps1 _) |- _ => change (flat_map sjumps1) with sjumps in H
      | H : In _ (slbls (_ ++ _)) |- _ => rewrite slbls_app in H
      | H : In _ (sjumps (_ ++ _)) |- _ => rewrite sjumps_app in H
      | H : In _ (slbls (_ :: _)) |- _ => cbn [slbls flat_map] in H
      | H : In _ (sjumps (_ :: _)) |- _ => cbn [sjumps flat_map] in H
      | H : In _ (slbls (slbl_if used _)) |- _ => apply slbl_if_lbls in H
      | H : In _ (sjumps (slbl_if used _)) |- _ => rewrite slbl_if_jumps in H
      | H : In _ [] |- _ => destruct H
      | H : _ \/ _ |- _ => destruct H
      | H : False |- _ => destruct H
      end ].

Ltac rfin :=
  try lia;
  try (match goal with A : forall j, In j ?X -> _, H : In ?j ?X |- _ => specialize (A j H) end; intuition lia);
  try (intuition lia).

Lemma rng_seq (se : expr -> nat -> bool -> bool -> nat -> sres) es :
  (forall x ko pd mk l c l1 ll, se x ko pd mk l = (c, l1, ll) -> rng ko l c l1) ->
  forall ko pd mk l ll c l1 ll1, sseq_emit se es ko pd mk l ll = (c, l1, ll1) -> rng ko l c l1.
Proof.
  clear g ptx ast inl asu used.
  intros H. induction es as [|x es IH]; intros ko pd mk l ll c l1 ll1 E; cbn [sseq_emit] in E.
  - inv E. (split; [lia|split; intros j []]).
  - destruct (se x ko pd mk l) as [[c0 l0] ll0] eqn:E0. destruct (sseq_emit se es ko false false l0 _) as [[c' l2] ll2] eqn:E1. inv E.
    destruct (H _ _ _ _ _ _ _ _ E0) as (A1 & A2 & A3). destruct (IH _ _ _ _ _ _ _ _ E1) as (B1 & B2 & B3).
    (split; [lia|split]); intros j Hj; inx; rfin.
Qed.

Lemma rng_alt (se : expr -> nat -> bool -> bool -> nat -> sres) es :
  (forall x ko pd mk l c l1 ll, se x ko pd mk l = (c, l1, ll) -> rng ko l c l1) ->
  forall ko ok l c l1, salt_emit used se es ko ok l = (c, l1) ->
    l <= l1 /\ (forall j, In j (slbls c) -> l <= j < l1) /\ (forall j, In j (sjumps c) -> j = ko \/ j = ok \/ l <= j < l1).
Proof.
  clear g ptx ast inl asu.
  intros H. induction es as [|x es IH]; intros ko ok l c l1 E.
  - cbn in E. inv E. (split; [lia|split; intros j []]).
  - destruct es as [|y es].
    + cbn [salt_emit] in E. destruct (se x ko false false l) as [[c0 l0] ll0] eqn:E0. inv E.
      destruct (H _ _ _ _ _ _ _ _ E0) as (A1 & A2 & A3). split; [lia|split; [exact A2|]]. intros j Hj. destruct (A3 j Hj); auto.
    + change (salt_emit used se (x :: y :: es) ko ok l) with
        (let '(c, l1, _) := se x l false false (S l) in let '(c', l2) := salt_emit used se (y :: es) ko ok l1 in
         (c ++ [SJmp ok] ++ slbl_if used l ++ [SRestore ok] ++ c', l2)) in E.
      destruct (se x l false false (S l)) as [[c0 l0] ll0] eqn:E0. destruct (salt_emit used se (y :: es) ko ok l0) as [c' l2] eqn:E1. inv E.
      destruct (H _ _ _ _ _ _ _ _ E0) as (A1 & A2 & A3). destruct (IH _ _ _ _ _ E1) as (B1 & B2 & B3).
      (split; [lia|split]); intros j Hj; inx; subst; rfin.
Qed.

Lemma rng_cases (se : expr -> nat -> bool -> bool -> nat -> sres) cs :
  (forall x ko pd mk l c l1 ll, se x ko pd mk l = (c, l1, ll) -> rng ko l c l1) ->
  forall ko l cl l1, scases_emit se cs ko l = (cl, l1) ->
    l <= l1 /\ (forall j, In j (flat_map (fun kc : list rune * list scode => slbls (snd kc)) cl) -> l <= j < l1) /\
    (forall j, In j (flat_map (fun kc : list rune * list scode => sjumps (snd kc)) cl) -> j = ko \/ l <= j < l1).
Proof.
  clear g ptx ast inl asu used.
  intros H. induction cs as [|[keys b] cs IH]; intros ko l cl l1 E; cbn [scases_emit] in E.
  - inv E. (split; [lia|split; intros j []]).
  - destruct (se b ko true _ l) as [[c0 l0] ll0] eqn:E0. destruct (scases_emit se cs ko l0) as [rest l2] eqn:E1. inv E.
    destruct (H _ _ _ _ _ _ _ _ E0) as (A1 & A2 & A3). destruct (IH _ _ _ _ E1) as (B1 & B2 & B3).
    (split; [lia|split]); intros j Hj; cbn [flat_map snd] in Hj; apply in_app_or in Hj; destruct Hj as [Hj|Hj]; destruct ll0; rewrite ?app_nil_r in Hj; inx; rfin.
Qed.

Theorem semit_rng n : forall e ko pd mk l c l1 ll, semit n e ko pd mk l = (c, l1, ll) -> rng ko l c l1.
Proof.
  induction n as [|n IH]; intros e ko pd mk l c l1 ll E.
  - cbn in E. inv E. (split; [lia|split; intros j []]).
  - assert (Hip : forall r ko pd mk l c l1 ll, sipush_emit g ast (semit n) r ko pd mk l = (c, l1, ll) -> rng ko l c l1).
    { intros r ko0 pd0 mk0 l0 c0 l2 ll0 E0. unfold sipush_emit in E0. destruct (nth_error g r) as [[b|k|]|].
      - destruct (semit n b ko0 pd0 mk0 (S l0)) as [[cb lb] llb] eqn:Eb. inv E0. destruct (IH _ _ _ _ _ _ _ _ Eb) as (A1 & A2 & A3).
        (split; [lia|split]); intros j Hj; inx; try (specialize (A2 j Hj); lia). destruct (A3 j Hj); [auto|right; lia].
      - inv E0. (split; [lia|split]); intros j Hj; destruct ast; inx.
      - inv E0. (split; [lia|split]); intros j Hj; inx.
      - inv E0. (split; [lia|split]); intros j Hj; inx. }
    destruct e; cbn [SEmit.semit] in E.
    + destruct pd; inv E; (split; [lia|split]); intros j Hj; inx; auto.
    + destruct (pd && negb mk)%bool; inv E; (split; [lia|split]); intros j Hj; inx; auto.
    + destruct pd; inv E; (split; [lia|split]); intros j Hj; inx; auto.
    + destruct (inl r).
      * destruct (sipush_emit g ast (semit n) r ko pd mk l) as [[c0 l0] ll0] eqn:E0. inv E. eapply Hip; exact E0.
      * destruct (asu r); inv E; (split; [lia|split]); intros j Hj; inx; auto.
    + inv E; (split; [lia|split]); intros j Hj; inx; auto.
    + inv E; (split; [lia|split]); intros j Hj; inx; auto.
    + inv E; (split; [lia|split]); intros j Hj; inx; auto.
    + inv E; (split; [lia|split]); intros j Hj; inx; auto.
    + eapply (rng_seq (semit n) es IH); exact E.
    + destruct (salt_emit used (semit n) es ko l (S l)) as [c0 l0] eqn:E0. inv E.
      destruct (rng_alt (semit n) es IH _ _ _ _ _ E0) as (A1 & A2 & A3).
      (split; [lia|split]); intros j Hj; inx; subst; try lia; try (specialize (A2 j Hj); lia).
      destruct (A3 j Hj) as [?|[?|?]]; [auto|right; lia|right; lia].
    + destruct (semit n e ko false false (S l)) as [[c0 l0] ll0] eqn:E0. inv E. destruct (IH _ _ _ _ _ _ _ _ E0) as (A1 & A2 & A3).
      (split; [lia|split]); intros j Hj; inx; try (specialize (A2 j Hj); lia). destruct (A3 j Hj); [auto|right; lia].
    + destruct (semit n e l false false (S l)) as [[c0 l0] ll0] eqn:E0. inv E. destruct (IH _ _ _ _ _ _ _ _ E0) as (A1 & A2 & A3).
      (split; [lia|split]); intros j Hj; inx; subst; try lia; try (specialize (A2 j Hj); lia); auto. destruct (A3 j Hj); right; lia.
    + destruct (semit n e l false false (S (S l))) as [[c0 l0] ll0] eqn:E0. inv E. destruct (IH _ _ _ _ _ _ _ _ E0) as (A1 & A2 & A3).
      (split; [lia|split]); intros j Hj; inx; subst; try lia; try (specialize (A2 j Hj); lia); try (right; lia). destruct (A3 j Hj); right; lia.
    + destruct (semit n e (S l) false false (S (S l))) as [[c0 l0] ll0] eqn:E0. inv E. destruct (IH _ _ _ _ _ _ _ _ E0) as (A1 & A2 & A3).
      (split; [lia|split]); intros j Hj; inx; subst; try lia; try (specialize (A2 j Hj); lia); try (right; lia). destruct (A3 j Hj); right; lia.
    + destruct (semit n e ko false false (S (S l))) as [[c1 l2] ll1] eqn:E1. destruct (semit n e (S l) false false l2) as [[c2 l3] ll2] eqn:E2. inv E.
      destruct (IH _ _ _ _ _ _ _ _ E1) as (A1 & A2 & A3). destruct (IH _ _ _ _ _ _ _ _ E2) as (B1 & B2 & B3).
      (split; [lia|split]); intros j Hj; inx; subst; try lia; try (specialize (A2 j Hj); lia); try (specialize (B2 j Hj); lia); try (right; lia).
      * destruct (A3 j Hj); [auto|right; lia].
      * destruct (B3 j Hj); right; lia.
    + destruct (semit n e ko pd mk (S l)) as [[c0 l0] ll0] eqn:E0. inv E. destruct (IH _ _ _ _ _ _ _ _ E0) as (A1 & A2 & A3).
      (split; [lia|split]); intros j Hj; destruct ast; inx; try (specialize (A2 j Hj); lia); try (destruct (A3 j Hj); [auto|right; lia]).
    + destruct (scases_emit (semit n) cs ko (S l)) as [cl l0] eqn:E0. destruct (semit n e ko false false l0) as [[cd l2] lld] eqn:E1. inv E.
      destruct (rng_cases (semit n) cs IH _ _ _ _ E0) as (A1 & A2 & A3). destruct (IH _ _ _ _ _ _ _ _ E1) as (B1 & B2 & B3).
      (split; [lia|split]); intros j Hj; destruct lld; rewrite ?app_nil_r in Hj; inx; subst; rfin.
Qed.

End Ranges.

(** * the simulation *)
Section Sound.
Variable g : grammar.
Variable ptx : nat.
Variable buf : list rune.
Variable penv : nat -> nat -> bool.
Variable o : opts.
Variable inl : nat -> bool.          (* where the emitter compiles a rule in place; [deep] asks that it agrees with [o] on the names met *)
Variable used : nat -> bool.
Variable fn : nat -> option (list scode).
Variable callable : nat -> bool.          (* the rules that have a function in the table *)

Notation semit := (SEmit.semit g ptx (o_ast o) inl (o_asu o) used).
Notation sipush := (SEmit.sipush_emit g (o_ast o)).
Notation run := (run_f g ptx buf penv o).
Notation xs := (Exec.xs buf penv o fn).
Notation xi := (Exec.xi buf penv o fn).
Notation xcall := (Exec.xcall buf penv o fn).
Notation jump := (Exec.jump buf penv o fn).

Notation deep := (SEmit.deep g (o_inline o) inl callable).
Notation rdeep := (SEmit.rdeep g (o_inline o) inl callable).

Definition frame (l l1 : nat) (e e' : nat -> nat * nat) : Prop := forall j, j < l \/ l1 <= j -> e' j = e j.
Lemma frame_refl l l1 e : frame l l1 e e.
Proof. intros j _. reflexivity. Qed.
Lemma frame_trans l l1 l2 e e1 e2 : l <= l1 -> l1 <= l2 -> frame l l1 e e1 -> frame l1 l2 e1 e2 -> frame l l2 e e2.
Proof. intros L1 L2 H1 H2 j Hj. rewrite H2 by lia. apply H1. lia. Qed.
Lemma frame_weaken l l1 a b e e' : a <= l -> l1 <= b -> frame l l1 e e' -> frame a b e e'.
Proof. intros A B H j Hj. apply H. lia. Qed.

Definition sim (c ce post : list scode) (ko l l1 : nat) (x : xst) (res : mres) : Prop :=
  match res with
  | Crash => xs c (ce ++ post) x OCrash
  | Ret true m' => exists e' pf', frame l l1 (xenv x) e' /\
      forall out, xs c post (mkx m' e' pf') out -> xs c (ce ++ post) x out
  | Ret false m' => In ko (sjumps ce) /\ exists e' pf', frame l l1 (xenv x) e' /\
      forall out, jump c ko (mkx m' e' pf') out -> xs c (ce ++ post) x out
  end.

(** [c] is the statement list [ce] sits in; its other top-level labels are outside the range of [ce]'s *)
Definition ctx (c pre ce post : list scode) (l l1 : nat) : Prop :=
  c = pre ++ ce ++ post /\ forall j, l <= j < l1 -> ~ In j (toplbls pre) /\ ~ In j (toplbls post).

(** what a call of a rule function does, up to the run fuel [n] *)
Definition calls_ok (n : nat) : Prop :=
  forall r m res, o_inline o r = false -> callable r = true -> (exists b, nth_error g r = Some b /\ b <> RNil) ->
    rule_fn g o (run n) r m = Some res -> xcall r m res.

(** stepping through single statements *)
Lemma step_fall c i k x x' out : xi i x (OFall x') -> xs c k x' out -> xs c (i :: k) x out.
Proof. apply xs_fall. Qed.

Lemma xi_char_ok c l x c' : rd buf (xm x) = Some c' -> Z.eqb c c' = true -> xi (SCond (QChar c) l) x (OFall x).
Proof. intros H E. pose proof (xi_char buf penv o fn c l x) as X. unfold rdtest in X. rewrite H, E in X. exact X. Qed.
Lemma xi_char_ko c l x c' : rd buf (xm x) = Some c' -> Z.eqb c c' = false -> xi (SCond (QChar c) l) x (OGoto l x).
Proof. intros H E. pose proof (xi_char buf penv o fn c l x) as X. unfold rdtest in X. rewrite H, E in X. exact X. Qed.
Lemma xi_char_crash c l x : rd buf (xm x) = None -> xi (SCond (QChar c) l) x OCrash.
Proof. intros H. pose proof (xi_char buf penv o fn c l x) as X. unfold rdtest in X. rewrite H in X. exact X. Qed.
Lemma xi_range_ok lo hi l x c' : rd buf (xm x) = Some c' -> in_range lo hi c' = true -> xi (SCond (QRange lo hi) l) x (OFall x).
Proof. intros H E. pose proof (xi_range buf penv o fn lo hi l x) as X. unfold rdtest in X. rewrite H, E in X. exact X. Qed.
Lemma xi_range_ko lo hi l x c' : rd buf (xm x) = Some c' -> in_range lo hi c' = false -> xi (SCond (QRange lo hi) l) x (OGoto l x).
Proof. intros H E. pose proof (xi_range buf penv o fn lo hi l x) as X. unfold rdtest in X. rewrite H, E in X. exact X. Qed.
Lemma xi_range_crash lo hi l x : rd buf (xm x) = None -> xi (SCond (QRange lo hi) l) x OCrash.
Proof. intros H. pose proof (xi_range buf penv o fn lo hi l x) as X. unfold rdtest in X. rewrite H in X. exact X. Qed.

(** a jump raised by the first statement of a suffix is a [jump] of the list *)
Lemma xs_jump c i k x l x' out : xi i x (OGoto l x') -> jump c l x' out -> xs c (i :: k) x out.
Proof.
  intros Hi Hj. unfold Exec.jump in Hj. destruct (after_label l c) as [k2|] eqn:E.
  - eapply xs_goto_here; eassumption.
  - subst out. eapply xs_goto_out; eassumption.
Qed.

Definition SoundE (n : nat) : Prop :=
  forall nf e ko pd mk l ce l1 ll, deep nf e = true -> semit nf e ko pd mk l = (ce, l1, ll) -> ko < l ->
  forall m res, run n e pd mk m = Some res ->
  forall c pre post env pf, ctx c pre ce post l l1 -> (forall j, In j (sjumps ce) -> used j = true) ->
    sim c ce post ko l l1 (mkx m env pf) res.

(** composing with what comes before *)
Lemma sim_after c c0 c' post ko l l0 l2 x m1 e1 pf1 res :
  l <= l0 -> l0 <= l2 -> frame l l0 (xenv x) e1 ->
  (forall out, xs c (c' ++ post) (mkx m1 e1 pf1) out -> xs c (c0 ++ c' ++ post) x out) ->
  sim c c' post ko l0 l2 (mkx m1 e1 pf1) res -> sim c (c0 ++ c') post ko l l2 x res.
Proof.
  intros L1 L2 F K S. destruct res as [|[|] m2]; cbn [sim] in *.
  - rewrite <- app_assoc. apply K. exact S.
  - destruct S as (e2 & pf2 & F2 & K2). exists e2, pf2. split; [eapply frame_trans; eassumption|].
    intros out H. rewrite <- app_assoc. apply K. apply K2. exact H.
  - destruct S as (J & e2 & pf2 & F2 & K2). split; [rewrite sjumps_app; apply in_or_app; right; exact J|].
    exists e2, pf2. split; [eapply frame_trans; eassumption|].
    intros out H. rewrite <- app_assoc. apply K. apply K2. exact H.
Qed.

(** ... and stopping in the first part *)
Lemma sim_first_gen c c0 c' post ko l la l0 l2 x res :
  l <= la -> l0 <= l2 -> sim c c0 (c' ++ post) ko la l0 x res -> (match res with Ret true _ => False | _ => True end) ->
  sim c (c0 ++ c') post ko l l2 x res.
Proof.
  intros L0 L S N. destruct res as [|[|] m2]; cbn [sim] in *; [|destruct N|].
  - rewrite <- app_assoc. exact S.
  - destruct S as (J & e2 & pf2 & F2 & K2). split; [rewrite sjumps_app; apply in_or_app; left; exact J|].
    exists e2, pf2. split; [eapply frame_weaken; [exact L0|exact L|exact F2]|].
    intros out H. rewrite <- app_assoc. apply K2. exact H.
Qed.
Lemma sim_first c c0 c' post ko l l0 l2 x res :
  l0 <= l2 -> sim c c0 (c' ++ post) ko l l0 x res -> (match res with Ret true _ => False | _ => True end) ->
  sim c (c0 ++ c') post ko l l2 x res.
Proof. intros L. apply sim_first_gen; [apply le_n|exact L]. Qed.

Lemma ctx_first c pre a b post l l0 l2 :
  ctx c pre (a ++ b) post l l2 -> l <= l0 -> l0 <= l2 -> (forall j, In j (slbls b) -> l0 <= j < l2) -> ctx c pre a (b ++ post) l l0.
Proof.
  intros [E H] L1 L2 Hb. split; [rewrite E, <- app_assoc; reflexivity|].
  intros j Hj. destruct (H j ltac:(lia)) as [H1 H2]. split; [exact H1|].
  rewrite toplbls_app. intros X. apply in_app_or in X. destruct X as [X|X]; [|exact (H2 X)].
  apply top_in_all in X. specialize (Hb j X). lia.
Qed.
Lemma ctx_second c pre a b post l l0 l2 :
  ctx c pre (a ++ b) post l l2 -> l <= l0 -> l0 <= l2 -> (forall j, In j (slbls a) -> l <= j < l0) -> ctx c (pre ++ a) b post l0 l2.
Proof.
  intros [E H] L1 L2 Ha. split; [rewrite E, <- !app_assoc; reflexivity|].
  intros j Hj. destruct (H j ltac:(lia)) as [H1 H2]. split; [|exact H2].
  rewrite toplbls_app. intros X. apply in_app_or in X. destruct X as [X|X]; [exact (H1 X)|].
  apply top_in_all in X. specialize (Ha j X). lia.
Qed.

Lemma seq_sound n : SoundE n -> forall nf es ko pd mk l ll0 ce l1 ll1,
  forallb (deep nf) es = true -> sseq_emit (semit nf) es ko pd mk l ll0 = (ce, l1, ll1) -> ko < l ->
  forall m res, seq_run (run n) es pd mk m = Some res ->
  forall c pre post env pf, ctx c pre ce post l l1 -> (forall j, In j (sjumps ce) -> used j = true) ->
    sim c ce post ko l l1 (mkx m env pf) res.
Proof.
  intros IH nf es. induction es as [|x es IHes]; intros ko pd mk l ll0 ce l1 ll1 Hd E Hko m res R c pre post env pf Hc Hu.
  - cbn in E, R. inv E. inv R. cbn [sim app]. exists env, pf. split; [apply frame_refl|auto].
  - cbn [forallb] in Hd. apply andb_true_iff in Hd. destruct Hd as [Hdx Hdes]. cbn [sseq_emit] in E.
    destruct (semit nf x ko pd mk l) as [[c0 l0] llx] eqn:Ex. destruct (sseq_emit (semit nf) es ko false false l0 _) as [[c' l2] ll2] eqn:Ees. inv E.
    destruct (semit_rng _ _ _ _ _ _ _ _ _ _ _ _ _ _ _ Ex) as (A1 & A2 & A3).
    destruct (rng_seq (semit nf) es (semit_rng g ptx (o_ast o) inl (o_asu o) used nf) _ _ _ _ _ _ _ _ Ees) as (B1 & B2 & B3).
    cbn [seq_run] in R.
    assert (Hu0 : forall j, In j (sjumps c0) -> used j = true) by (intros j Hj; apply Hu; rewrite sjumps_app; apply in_or_app; left; exact Hj).
    assert (Hu' : forall j, In j (sjumps c') -> used j = true) by (intros j Hj; apply Hu; rewrite sjumps_app; apply in_or_app; right; exact Hj).
    pose proof (ctx_first _ _ _ _ _ _ _ _ Hc A1 B1 B2) as Hc0. pose proof (ctx_second _ _ _ _ _ _ _ _ Hc A1 B1 A2) as Hc'.
    destruct (run n x pd mk m) as [[|[|] m1]|] eqn:Rx; try discriminate.
    + inv R. apply (sim_first _ _ _ _ _ _ l0); [exact B1| |exact I]. exact (IH _ _ _ _ _ _ _ _ _ Hdx Ex Hko _ _ Rx _ _ _ env pf Hc0 Hu0).
    + pose proof (IH _ _ _ _ _ _ _ _ _ Hdx Ex Hko _ _ Rx _ _ _ env pf Hc0 Hu0) as S0. cbn [sim] in S0.
      destruct S0 as (e1 & pf1 & F1 & K1).
      eapply sim_after; [exact A1|exact B1|exact F1|exact K1|].
      eapply IHes; try eassumption. lia.
    + inv R. apply (sim_first _ _ _ _ _ _ l0); [exact B1| |exact I]. exact (IH _ _ _ _ _ _ _ _ _ Hdx Ex Hko _ _ Rx _ _ _ env pf Hc0 Hu0).
Qed.

(** ** blocks *)
Lemma after_label_at l a rest : ~ In l (toplbls a) -> after_label l (a ++ SLbl l :: rest) = Some rest.
Proof. intros H. rewrite after_label_skip by exact H. apply after_label_hit. Qed.
Lemma jump_out b l x : ~ In l (toplbls b) -> jump b l x (OGoto l x).
Proof. intros H. unfold Exec.jump. rewrite after_label_none by exact H. reflexivity. Qed.
Lemma jump_at b a rest l x out : ~ In l (toplbls a) -> b = a ++ SLbl l :: rest -> xs b rest x out -> jump b l x out.
Proof. intros H -> X. unfold Exec.jump. rewrite after_label_at by exact H. exact X. Qed.

Lemma block_fall c b k x x' out : xs b b x (OFall x') -> xs c k x' out -> xs c (SBlock b :: k) x out.
Proof. intros B K. eapply xs_fall; [apply xi_block; exact B|exact K]. Qed.
Lemma block_goto c b k x l x' out : xs b b x (OGoto l x') -> jump c l x' out -> xs c (SBlock b :: k) x out.
Proof. intros B K. eapply xs_jump; [apply xi_block; exact B|exact K]. Qed.
Lemma block_crash c b k x : xs b b x OCrash -> xs c (SBlock b :: k) x OCrash.
Proof. intros B. apply xs_crash. apply xi_block. exact B. Qed.

Lemma top_lt b l l1 ko : (forall j, In j (slbls b) -> l <= j < l1) -> ko < l -> ~ In ko (toplbls b).
Proof. intros H L X. apply top_in_all in X. specialize (H ko X). lia. Qed.

Lemma jumps_block_mid a c1 z ko : In ko (sjumps c1) -> In ko (sjumps [SBlock (a ++ c1 ++ z)]).
Proof.
  intros H. cbn [sjumps flat_map sjumps1]. change (flat_map sjumps1) with sjumps. rewrite app_nil_r, !sjumps_app.
  apply in_or_app. right. apply in_or_app. left. exact H.
Qed.

(** a state after [SSave n] *)
Definition saved (x : xst) (n : nat) : xst := setenv x n (pos (xm x), tix (xm x)).
Lemma frame_saved l l1 x n e' : l <= n < l1 -> frame (S n) l1 (xenv (saved x n)) e' ->
  frame l l1 (xenv x) e' /\ e' n = (pos (xm x), tix (xm x)).
Proof.
  intros Hn F. split.
  - intros j Hj. rewrite F by lia. cbn [saved setenv xenv]. destruct (Nat.eqb_spec j n); [lia|reflexivity].
  - rewrite F by lia. cbn [saved setenv xenv]. rewrite Nat.eqb_refl. reflexivity.
Qed.

(** &e *)
Lemma and_sound n : SoundE n -> forall nf e1 ko l c1 l1 ll1,
  deep nf e1 = true -> semit nf e1 ko false false (S l) = (c1, l1, ll1) -> ko < l ->
  forall m r1, run n e1 false false m = Some r1 ->
  forall c pre post env pf, ctx c pre [SBlock (SSave l :: c1 ++ [SRestore l])] post l l1 ->
    (forall j, In j (sjumps c1) -> used j = true) ->
    sim c [SBlock (SSave l :: c1 ++ [SRestore l])] post ko l l1 (mkx m env pf)
        (match r1 with Ret true m1 => Ret true (restore (pos m) (tix m) m1) | x => x end).
Proof.
  intros IH nf e1 ko l c1 l1 ll1 Hd E Hko m r1 R c pre post env pf Hc Hu.
  destruct (semit_rng _ _ _ _ _ _ _ _ _ _ _ _ _ _ _ E) as (A1 & A2 & A3).
  set (b := SSave l :: c1 ++ [SRestore l]).
  assert (Hcb : ctx b [SSave l] c1 [SRestore l] (S l) l1) by (split; [reflexivity|intros j Hj; cbn; tauto]).
  pose proof (IH _ _ _ _ _ _ _ _ _ Hd E ltac:(lia) _ _ R b _ _ (xenv (saved (mkx m env pf) l)) pf Hcb Hu) as S1.
  assert (Hb_lbls : forall j, In j (slbls b) -> l <= j < l1).
  { intros j Hj. unfold b in Hj. cbn [slbls flat_map slbls1 app] in Hj. change (flat_map slbls1) with slbls in Hj.
    rewrite slbls_app in Hj. apply in_app_or in Hj. destruct Hj as [Hj|Hj]; [specialize (A2 j Hj); lia|destruct Hj]. }
  destruct r1 as [|[|] m1]; cbn [sim app] in *.
  - apply block_crash. unfold b. eapply xs_fall; [apply xi_save|]. exact S1.
  - destruct S1 as (e1' & pf1 & F1 & K1). destruct (frame_saved l l1 (mkx m env pf) l e1' ltac:(lia) F1) as [F Hl].
    exists e1', pf1. split; [exact F|]. intros out H.
    eapply block_fall; [|exact H]. unfold b. eapply xs_fall; [apply xi_save|]. apply K1.
    eapply xs_fall; [apply xi_restore|]. cbn [xenv xm setm]. rewrite Hl. cbn [fst snd]. apply xs_nil.
  - destruct S1 as (J & e1' & pf1 & F1 & K1). destruct (frame_saved l l1 (mkx m env pf) l e1' ltac:(lia) F1) as [F Hl].
    split; [exact (jumps_block_mid [SSave l] c1 [SRestore l] ko J)|].
    exists e1', pf1. split; [exact F|]. intros out H.
    eapply block_goto; [|exact H]. unfold b. eapply xs_fall; [apply xi_save|]. apply K1.
    apply jump_out. eapply top_lt; [exact Hb_lbls|exact Hko].
Qed.

Lemma slbl_if_used n : used n = true -> slbl_if used n = [SLbl n].
Proof. intros H. unfold slbl_if. rewrite H. reflexivity. Qed.
Lemma xs_skip_lbl_if c n k x out : xs c k x out -> xs c (slbl_if used n ++ k) x out.
Proof. intros H. unfold slbl_if. destruct (used n); cbn [app]; [eapply xs_fall; [apply xi_lbl|exact H]|exact H]. Qed.
Lemma toplbls_lbl_if n j : In j (toplbls (slbl_if used n)) -> j = n.
Proof. unfold slbl_if. destruct (used n); cbn; intros H; [destruct H as [H|[]]; auto|destruct H]. Qed.

(** !e *)
Lemma not_sound n : SoundE n -> forall nf e1 ko l c1 l1 ll1,
  deep nf e1 = true -> semit nf e1 l false false (S l) = (c1, l1, ll1) -> ko < l ->
  forall m r1, run n e1 false false m = Some r1 ->
  forall c pre post env pf,
    ctx c pre [SBlock (SSave l :: c1 ++ [SJmp ko] ++ slbl_if used l ++ [SRestore l])] post l l1 ->
    (forall j, In j (sjumps c1) -> used j = true) ->
    sim c [SBlock (SSave l :: c1 ++ [SJmp ko] ++ slbl_if used l ++ [SRestore l])] post ko l l1 (mkx m env pf)
        (match r1 with Ret true m1 => Ret false m1 | Ret false m1 => Ret true (restore (pos m) (tix m) m1) | x => x end).
Proof.
  intros IH nf e1 ko l c1 l1 ll1 Hd E Hko m r1 R c pre post env pf Hc Hu.
  destruct (semit_rng _ _ _ _ _ _ _ _ _ _ _ _ _ _ _ E) as (A1 & A2 & A3).
  set (tl := [SJmp ko] ++ slbl_if used l ++ [SRestore l]).
  set (b := SSave l :: c1 ++ tl).
  assert (Hcb : ctx b [SSave l] c1 tl (S l) l1).
  { split; [reflexivity|]. intros j Hj. split; [cbn; tauto|]. unfold tl. rewrite !toplbls_app. intros X.
    apply in_app_or in X. destruct X as [[]|X]. apply in_app_or in X. destruct X as [X|[]]. apply toplbls_lbl_if in X. lia. }
  pose proof (IH _ _ _ _ _ _ _ _ _ Hd E ltac:(lia) _ _ R b _ _ (xenv (saved (mkx m env pf) l)) pf Hcb Hu) as S1.
  assert (Hko_b : ~ In ko (toplbls b)).
  { unfold b, tl. cbn [toplbls flat_map top1 app]. change (flat_map top1) with toplbls. rewrite !toplbls_app. intros X.
    apply in_app_or in X. destruct X as [X|X]; [apply top_in_all in X; specialize (A2 _ X); lia|].
    cbn [toplbls flat_map top1 app] in X. change (flat_map top1) with toplbls in X. rewrite toplbls_app in X.
    apply in_app_or in X. destruct X as [X|[]]. apply toplbls_lbl_if in X. lia. }
  destruct r1 as [|[|] m1]; cbn [sim app] in *.
  - apply block_crash. unfold b. eapply xs_fall; [apply xi_save|]. exact S1.
  - (* e matched: the test fails *)
    destruct S1 as (e1' & pf1 & F1 & K1). destruct (frame_saved l l1 (mkx m env pf) l e1' ltac:(lia) F1) as [F Hl].
    split; [apply (jumps_block_mid (SSave l :: c1) [SJmp ko] (slbl_if used l ++ [SRestore l]) ko); left; reflexivity|].
    exists e1', pf1. split; [exact F|]. intros out H.
    eapply block_goto; [|exact H]. unfold b. eapply xs_fall; [apply xi_save|]. apply K1.
    unfold tl. cbn [app]. eapply xs_goto_out; [apply xi_jmp|]. apply after_label_none. exact Hko_b.
  - (* e did not match: restore and go on *)
    destruct S1 as (J & e1' & pf1 & F1 & K1). destruct (frame_saved l l1 (mkx m env pf) l e1' ltac:(lia) F1) as [F Hl].
    exists e1', pf1. split; [exact F|]. intros out H.
    eapply block_fall; [|exact H]. unfold b. eapply xs_fall; [apply xi_save|]. apply K1.
    eapply (jump_at b (SSave l :: c1 ++ [SJmp ko]) [SRestore l]).
    + cbn [toplbls flat_map top1 app]. change (flat_map top1) with toplbls. rewrite toplbls_app. intros X.
      apply in_app_or in X. destruct X as [X|[]]. apply top_in_all in X. specialize (A2 _ X). lia.
    + unfold b, tl. rewrite (slbl_if_used l (Hu _ J)). cbn [app]. rewrite <- app_assoc. reflexivity.
    + eapply xs_fall; [apply xi_restore|]. cbn [xenv xm setm]. rewrite Hl. cbn [fst snd]. apply xs_nil.
Qed.

(** e? *)
Lemma query_sound n : SoundE n -> forall nf e1 ko l c1 l1 ll1,
  deep nf e1 = true -> semit nf e1 l false false (S (S l)) = (c1, l1, ll1) -> ko < l ->
  forall m r1, run n e1 false false m = Some r1 ->
  forall c pre post env pf,
    ctx c pre ([SBlock (SSave l :: c1 ++ [SJmp (S l)] ++ slbl_if used l ++ [SRestore l])] ++ slbl_if used (S l)) post l l1 ->
    (forall j, In j (sjumps c1) -> used j = true) -> used (S l) = true ->
    sim c ([SBlock (SSave l :: c1 ++ [SJmp (S l)] ++ slbl_if used l ++ [SRestore l])] ++ slbl_if used (S l)) post ko l l1 (mkx m env pf)
        (match r1 with Ret false m1 => Ret true (restore (pos m) (tix m) m1) | x => x end).
Proof.
  intros IH nf e1 ko l c1 l1 ll1 Hd E Hko m r1 R c pre post env pf Hc Hu Hqok.
  destruct (semit_rng _ _ _ _ _ _ _ _ _ _ _ _ _ _ _ E) as (A1 & A2 & A3).
  set (tl := [SJmp (S l)] ++ slbl_if used l ++ [SRestore l]).
  set (b := SSave l :: c1 ++ tl).
  assert (Hcb : ctx b [SSave l] c1 tl (S (S l)) l1).
  { split; [reflexivity|]. intros j Hj. split; [cbn; tauto|]. unfold tl. rewrite !toplbls_app. intros X.
    apply in_app_or in X. destruct X as [[]|X]. apply in_app_or in X. destruct X as [X|[]]. apply toplbls_lbl_if in X. lia. }
  pose proof (IH _ _ _ _ _ _ _ _ _ Hd E ltac:(lia) _ _ R b _ _ (xenv (saved (mkx m env pf) l)) pf Hcb Hu) as S1.
  assert (Hqok_b : ~ In (S l) (toplbls b)).
  { unfold b, tl. cbn [toplbls flat_map top1 app]. change (flat_map top1) with toplbls. rewrite !toplbls_app. intros X.
    apply in_app_or in X. destruct X as [X|X]; [apply top_in_all in X; specialize (A2 _ X); lia|].
    cbn [toplbls flat_map top1 app] in X. change (flat_map top1) with toplbls in X. rewrite toplbls_app in X.
    apply in_app_or in X. destruct X as [X|[]]. apply toplbls_lbl_if in X. lia. }
  destruct Hc as [Ec Hcl]. rewrite (slbl_if_used (S l) Hqok) in *. cbn [app] in Ec |- *.
  destruct r1 as [|[|] m1]; cbn [sim app] in *.
  - apply block_crash. unfold b. eapply xs_fall; [apply xi_save|]. exact S1.
  - (* matched: skip the restore *)
    destruct S1 as (e1' & pf1 & F1 & K1).
    assert (F : frame l l1 env e1').
    { intros j Hj. rewrite F1 by lia. cbn [saved setenv xenv xm]. destruct (Nat.eqb_spec j l); [lia|reflexivity]. }
    exists e1', pf1. split; [exact F|]. intros out H.
    eapply block_goto.
    + unfold b. eapply xs_fall; [apply xi_save|]. apply K1. unfold tl. cbn [app].
      eapply xs_goto_out; [apply xi_jmp|]. apply after_label_none. exact Hqok_b.
    + unfold Exec.jump.
      assert (Ea : after_label (S l) c = Some post).
      { rewrite Ec. rewrite after_label_skip by (apply (Hcl (S l)); lia). cbn [after_label]. rewrite Nat.eqb_refl. reflexivity. }
      rewrite Ea. exact H.
  - destruct S1 as (J & e1' & pf1 & F1 & K1). destruct (frame_saved l l1 (mkx m env pf) l e1' ltac:(lia) (frame_weaken (S (S l)) l1 (S l) l1 _ _ ltac:(lia) (le_n _) F1)) as [F Hl].
    exists e1', pf1. split; [exact F|]. intros out H.
    eapply block_fall; [|eapply xs_fall; [apply xi_lbl|exact H]]. unfold b. eapply xs_fall; [apply xi_save|]. apply K1.
    eapply (jump_at b (SSave l :: c1 ++ [SJmp (S l)]) [SRestore l]).
    + cbn [toplbls flat_map top1 app]. change (flat_map top1) with toplbls. rewrite toplbls_app. intros X.
      apply in_app_or in X. destruct X as [X|[]]. apply top_in_all in X. specialize (A2 _ X). lia.
    + unfold b, tl. rewrite (slbl_if_used l (Hu _ J)). cbn [app]. rewrite <- app_assoc. reflexivity.
    + eapply xs_fall; [apply xi_restore|]. cbn [xenv xm setm]. rewrite Hl. cbn [fst snd]. apply xs_nil.
Qed.

(** ** loops *)
Definition SoundLe (n : nat) : Prop := forall k, k <= n -> SoundE k.

Definition loop_body (again out : nat) (c2 : list scode) : list scode :=
  SSave out :: c2 ++ [SJmp again] ++ slbl_if used out ++ [SRestore out].

Lemma loop_sound n : SoundLe n -> forall k, k <= S n -> forall nf e1 again out la lb c2 ll2,
  deep nf e1 = true -> semit nf e1 out false false la = (c2, lb, ll2) -> again < out -> out < la ->
  forall m res, run k (EStar e1) false false m = Some res ->
  forall c pre post env pf,
    c = pre ++ SLbl again :: SBlock (loop_body again out c2) :: post -> ~ In again (toplbls pre) ->
    (forall j, In j (sjumps c2) -> used j = true) ->
    match res with
    | Crash => xs c (SBlock (loop_body again out c2) :: post) (mkx m env pf) OCrash
    | Ret true m' => exists e' pf', (forall j, j <> out -> j < la \/ lb <= j -> e' j = env j) /\
        forall o', xs c post (mkx m' e' pf') o' -> xs c (SBlock (loop_body again out c2) :: post) (mkx m env pf) o'
    | Ret false _ => False
    end.
Proof.
  intros IH k. induction k as [|k IHk]; intros Lk nf e1 again out la lb c2 ll2 Hd E Hao Hol m res R c pre post env pf Ec Hpre Hu; [discriminate|].
  destruct (semit_rng _ _ _ _ _ _ _ _ _ _ _ _ _ _ _ E) as (A1 & A2 & A3).
  set (tl := [SJmp again] ++ slbl_if used out ++ [SRestore out]).
  set (bb := loop_body again out c2) in *.
  assert (Hcb : ctx bb [SSave out] c2 tl la lb).
  { split; [reflexivity|]. intros j Hj. split; [cbn; tauto|]. unfold tl. rewrite !toplbls_app. intros X.
    apply in_app_or in X. destruct X as [[]|X]. apply in_app_or in X. destruct X as [X|[]]. apply toplbls_lbl_if in X. lia. }
  assert (Hag_b : ~ In again (toplbls bb)).
  { unfold bb, loop_body. cbn [toplbls flat_map top1 app]. change (flat_map top1) with toplbls. rewrite !toplbls_app. intros X.
    apply in_app_or in X. destruct X as [X|X]; [apply top_in_all in X; specialize (A2 _ X); lia|].
    cbn [toplbls flat_map top1 app] in X. change (flat_map top1) with toplbls in X. rewrite toplbls_app in X.
    apply in_app_or in X. destruct X as [X|[]]. apply toplbls_lbl_if in X. lia. }
  cbn [run_f] in R.
  destruct (run k e1 false false m) as [[|[|] m1]|] eqn:R1; try discriminate.
  - inv R. pose proof (IH k ltac:(lia) _ _ _ _ _ _ _ _ _ Hd E ltac:(lia) _ _ R1 bb _ _ (xenv (saved (mkx m env pf) out)) pf Hcb Hu) as S1.
    cbn [sim] in S1. apply block_crash. unfold bb, loop_body. eapply xs_fall; [apply xi_save|]. exact S1.
  - (* one more round *)
    pose proof (IH k ltac:(lia) _ _ _ _ _ _ _ _ _ Hd E ltac:(lia) _ _ R1 bb _ _ (xenv (saved (mkx m env pf) out)) pf Hcb Hu) as S1.
    cbn [sim] in S1. destruct S1 as (e1' & pf1 & F1 & K1).
    pose proof (IHk ltac:(lia) _ _ _ _ _ _ _ _ Hd E Hao Hol _ _ R c pre post e1' pf1 Ec Hpre Hu) as S2.
    assert (Hgo : forall o', xs c (SBlock bb :: post) (mkx m1 e1' pf1) o' -> xs c (SBlock bb :: post) (mkx m env pf) o').
    { intros o' H. eapply block_goto.
      - unfold bb, loop_body. eapply xs_fall; [apply xi_save|]. apply K1. unfold tl. cbn [app].
        eapply xs_goto_out; [apply xi_jmp|]. apply after_label_none. exact Hag_b.
      - unfold Exec.jump. assert (Ea : after_label again c = Some (SBlock bb :: post)) by (rewrite Ec; apply after_label_at; exact Hpre).
        rewrite Ea. exact H. }
    destruct res as [|[|] m2].
    + apply Hgo. exact S2.
    + destruct S2 as (e2 & pf2 & F2 & K2). exists e2, pf2. split.
      * intros j Hj1 Hj2. rewrite F2 by assumption. rewrite F1 by lia. cbn [saved setenv xenv xm]. destruct (Nat.eqb_spec j out); [contradiction|reflexivity].
      * intros o' H. apply Hgo. apply K2. exact H.
    + exact S2.
  - (* the body fails: restore and leave *)
    inv R. pose proof (IH k ltac:(lia) _ _ _ _ _ _ _ _ _ Hd E ltac:(lia) _ _ R1 bb _ _ (xenv (saved (mkx m env pf) out)) pf Hcb Hu) as S1.
    cbn [sim] in S1. destruct S1 as (J & e1' & pf1 & F1 & K1).
    assert (Hl : e1' out = (pos m, tix m)) by (rewrite F1 by lia; cbn [saved setenv xenv xm]; rewrite Nat.eqb_refl; reflexivity).
    exists e1', pf1. split.
    + intros j Hj1 Hj2. rewrite F1 by lia. cbn [saved setenv xenv xm]. destruct (Nat.eqb_spec j out); [contradiction|reflexivity].
    + intros o' H. eapply block_fall; [|exact H]. unfold bb, loop_body. eapply xs_fall; [apply xi_save|]. apply K1.
      eapply (jump_at bb (SSave out :: c2 ++ [SJmp again]) [SRestore out]).
      * cbn [toplbls flat_map top1 app]. change (flat_map top1) with toplbls. rewrite toplbls_app. intros X.
        apply in_app_or in X. destruct X as [X|[]]. apply top_in_all in X. specialize (A2 _ X). lia.
      * unfold bb, loop_body. rewrite (slbl_if_used out (Hu _ J)). cbn [app]. rewrite <- app_assoc. reflexivity.
      * eapply xs_fall; [apply xi_restore|]. cbn [xenv xm setm]. rewrite Hl. cbn [fst snd]. apply xs_nil.
Qed.

(** ** alternation *)
Lemma jumps_alt_tail c0 ok l c' j : In j (sjumps c') -> In j (sjumps (c0 ++ [SJmp ok] ++ slbl_if used l ++ [SRestore ok] ++ c')).
Proof.
  intros H. rewrite sjumps_app. apply in_or_app. right. cbn [app sjumps flat_map sjumps1]. right.
  change (flat_map sjumps1) with sjumps. rewrite sjumps_app. apply in_or_app. right. cbn [app sjumps flat_map sjumps1]. exact H.
Qed.
Lemma alt_sound n : SoundE n -> forall nf es ko ok l calt l1,
  forallb (deep nf) es = true -> salt_emit used (semit nf) es ko ok l = (calt, l1) -> es <> [] -> ko < ok -> ok < l ->
  forall m res p0 t0, alt_run (run n) es false false p0 t0 m = Some res ->
  forall b preb env pf, b = preb ++ calt -> (forall j, l <= j < l1 -> ~ In j (toplbls preb)) ->
    ~ In ok (toplbls preb) -> ~ In ko (toplbls preb) -> env ok = (p0, t0) ->
    (forall j, In j (sjumps calt) -> used j = true) ->
    match res with
    | Crash => xs b calt (mkx m env pf) OCrash
    | Ret true m' => exists e' pf', frame l l1 env e' /\
        (xs b calt (mkx m env pf) (OFall (mkx m' e' pf')) \/ (In ok (sjumps calt) /\ xs b calt (mkx m env pf) (OGoto ok (mkx m' e' pf'))))
    | Ret false m' => In ko (sjumps calt) /\ exists e' pf', frame l l1 env e' /\ xs b calt (mkx m env pf) (OGoto ko (mkx m' e' pf'))
    end.
Proof.
  intros IH nf es. induction es as [|x es IHes]; intros ko ok l calt l1 Hd E Hne Hkk Hokl m res p0 t0 R b preb env pf Eb Hpre Hokp Hkop Henv Hu; [congruence|].
  cbn [forallb] in Hd. apply andb_true_iff in Hd. destruct Hd as [Hdx Hdes].
  destruct es as [|y es].
  - (* the last alternative fails to the outer label *)
    cbn [salt_emit] in E. destruct (semit nf x ko false false l) as [[c0 l0] ll0] eqn:Ex. inv E.
    destruct (semit_rng _ _ _ _ _ _ _ _ _ _ _ _ _ _ _ Ex) as (A1 & A2 & A3).
    cbn [alt_run] in R.
    assert (Hc : ctx (preb ++ calt) preb calt [] l l1) by (split; [rewrite app_nil_r; reflexivity|intros j Hj; split; [apply Hpre; exact Hj|cbn; tauto]]).
    assert (Hko_b : ~ In ko (toplbls (preb ++ calt))).
    { rewrite toplbls_app. intros X. apply in_app_or in X. destruct X as [X|X]; [exact (Hkop X)|]. apply top_in_all in X. specialize (A2 _ X). lia. }
    destruct (run n x false false m) as [[|[|] m1]|] eqn:Rx; try discriminate; inv R;
      pose proof (IH _ _ _ _ _ _ _ _ _ Hdx Ex ltac:(lia) _ _ Rx _ _ _ env pf Hc Hu) as S1; cbn [sim] in S1; rewrite ?app_nil_r in S1.
    + exact S1.
    + destruct S1 as (e1 & pf1 & F1 & K1). exists e1, pf1. split; [exact F1|]. left. apply K1. apply xs_nil.
    + destruct S1 as (J & e1 & pf1 & F1 & K1). split; [exact J|]. exists e1, pf1. split; [exact F1|]. apply K1. apply jump_out. exact Hko_b.
  - (* an alternative that is not the last: on failure restore and try the next *)
    change (salt_emit used (semit nf) (x :: y :: es) ko ok l) with
      (let '(c, l1, _) := semit nf x l false false (S l) in let '(c', l2) := salt_emit used (semit nf) (y :: es) ko ok l1 in
       (c ++ [SJmp ok] ++ slbl_if used l ++ [SRestore ok] ++ c', l2)) in E.
    destruct (semit nf x l false false (S l)) as [[c0 l0] ll0] eqn:Ex. destruct (salt_emit used (semit nf) (y :: es) ko ok l0) as [c' l2] eqn:Ees. inv E.
    destruct (semit_rng _ _ _ _ _ _ _ _ _ _ _ _ _ _ _ Ex) as (A1 & A2 & A3).
    destruct (rng_alt used (semit nf) (y :: es) (semit_rng g ptx (o_ast o) inl (o_asu o) used nf) _ _ _ _ _ Ees) as (B1 & B2 & B3).
    set (tl0 := [SJmp ok] ++ slbl_if used l ++ [SRestore ok] ++ c').
    set (b := preb ++ c0 ++ tl0).
    assert (Hc : ctx b preb c0 tl0 (S l) l0).
    { split; [reflexivity|]. intros j Hj. split; [apply Hpre; lia|]. unfold tl0. rewrite !toplbls_app. intros X.
      apply in_app_or in X. destruct X as [[]|X]. apply in_app_or in X. destruct X as [X|X]; [apply toplbls_lbl_if in X; lia|].
      apply in_app_or in X. destruct X as [[]|X]. apply top_in_all in X. specialize (B2 _ X). lia. }
    assert (Hu0 : forall j, In j (sjumps c0) -> used j = true) by (intros j Hj; apply Hu; rewrite sjumps_app; apply in_or_app; left; exact Hj).
    assert (Hok_b : ~ In ok (toplbls b)).
    { unfold b, tl0. rewrite !toplbls_app. intros X. apply in_app_or in X. destruct X as [X|X]; [exact (Hokp X)|].
      apply in_app_or in X. destruct X as [X|X]; [apply top_in_all in X; specialize (A2 _ X); lia|].
      apply in_app_or in X. destruct X as [[]|X]. apply in_app_or in X. destruct X as [X|X]; [apply toplbls_lbl_if in X; lia|].
      apply in_app_or in X. destruct X as [[]|X]. apply top_in_all in X. specialize (B2 _ X). lia. }
    cbn [alt_run] in R.
    destruct (run n x false false m) as [[|[|] m1]|] eqn:Rx; try discriminate;
      pose proof (IH _ _ _ _ _ _ _ _ _ Hdx Ex ltac:(lia) _ _ Rx b _ _ env pf Hc Hu0) as S1; cbn [sim] in S1.
    + inv R. exact S1.
    + inv R. destruct S1 as (e1 & pf1 & F1 & K1). exists e1, pf1. split; [eapply frame_weaken; [| |exact F1]; lia|].
      right. split; [rewrite sjumps_app; apply in_or_app; right; left; reflexivity|]. apply K1. unfold tl0. cbn [app]. eapply xs_goto_out; [apply xi_jmp|]. apply after_label_none. exact Hok_b.
    + destruct S1 as (J & e1 & pf1 & F1 & K1).
      assert (He1 : e1 ok = (p0, t0)) by (rewrite F1 by lia; exact Henv).
      assert (Hdes' : forallb (deep nf) (y :: es) = true) by exact Hdes.
      pose proof (IHes ko ok l0 c' l1 Hdes' Ees ltac:(discriminate) Hkk ltac:(lia) _ _ _ _ R b
                   (preb ++ c0 ++ [SJmp ok] ++ [SLbl l] ++ [SRestore ok]) e1 pf1) as S2.
      assert (Eb2 : b = (preb ++ c0 ++ [SJmp ok] ++ [SLbl l] ++ [SRestore ok]) ++ c').
      { unfold b, tl0. rewrite (slbl_if_used l (Hu0 _ J)). rewrite <- !app_assoc. reflexivity. }
      specialize (S2 Eb2).
      assert (Hp2 : forall j, l0 <= j < l1 -> ~ In j (toplbls (preb ++ c0 ++ [SJmp ok] ++ [SLbl l] ++ [SRestore ok]))).
      { intros j Hj. rewrite !toplbls_app. intros X. apply in_app_or in X. destruct X as [X|X]; [exact (Hpre j ltac:(lia) X)|].
        apply in_app_or in X. destruct X as [X|X]; [apply top_in_all in X; specialize (A2 _ X); lia|].
        cbn in X. destruct X as [X|[]]. lia. }
      assert (Hok2 : ~ In ok (toplbls (preb ++ c0 ++ [SJmp ok] ++ [SLbl l] ++ [SRestore ok]))).
      { rewrite !toplbls_app. intros X. apply in_app_or in X. destruct X as [X|X]; [exact (Hokp X)|].
        apply in_app_or in X. destruct X as [X|X]; [apply top_in_all in X; specialize (A2 _ X); lia|]. cbn in X. destruct X as [X|[]]. lia. }
      assert (Hko2 : ~ In ko (toplbls (preb ++ c0 ++ [SJmp ok] ++ [SLbl l] ++ [SRestore ok]))).
      { rewrite !toplbls_app. intros X. apply in_app_or in X. destruct X as [X|X]; [exact (Hkop X)|].
        apply in_app_or in X. destruct X as [X|X]; [apply top_in_all in X; specialize (A2 _ X); lia|]. cbn in X. destruct X as [X|[]]. lia. }
      assert (Hu' : forall j, In j (sjumps c') -> used j = true).
      { intros j Hj. apply Hu. apply jumps_alt_tail. exact Hj. }
      specialize (S2 Hp2 Hok2 Hko2 He1 Hu').
      (* from the failure of x to the code of the others *)
      assert (Hgo : forall o', xs b c' (mkx (restore p0 t0 m1) e1 pf1) o' -> xs b (c0 ++ tl0) (mkx m env pf) o').
      { intros o' H. apply K1.
        eapply (jump_at b (preb ++ c0 ++ [SJmp ok]) ([SRestore ok] ++ c')).
        - rewrite !toplbls_app. intros X. apply in_app_or in X. destruct X as [X|X]; [exact (Hpre l ltac:(lia) X)|].
          apply in_app_or in X. destruct X as [X|[]]. apply top_in_all in X. specialize (A2 _ X). lia.
        - unfold b, tl0. rewrite (slbl_if_used l (Hu0 _ J)). rewrite <- !app_assoc. reflexivity.
        - cbn [app]. eapply xs_fall; [apply xi_restore|]. cbn [xenv xm setm]. rewrite He1. cbn [fst snd]. exact H. }
      destruct res as [|[|] m2].
      * apply Hgo. exact S2.
      * destruct S2 as (e2 & pf2 & F2 & S2). exists e2, pf2. split.
        { eapply frame_trans; [| |eapply frame_weaken; [| |exact F1]|exact F2]; lia. }
        destruct S2 as [S2|[J2 S2]]; [left; apply Hgo; exact S2|right; split; [apply jumps_alt_tail; exact J2|apply Hgo; exact S2]].
      * destruct S2 as (J2 & e2 & pf2 & F2 & S2). split.
        { apply jumps_alt_tail. exact J2. }
        exists e2, pf2. split; [eapply frame_trans; [| |eapply frame_weaken; [| |exact F1]|exact F2]; lia|]. apply Hgo. exact S2.
Qed.

(** ** captures and rule bodies: { positionN := position; ...; <use of positionN> } *)
Lemma push_sound n : SoundE n -> forall nf e1 ko pd mk l c1 l1 ll1,
  deep nf e1 = true -> semit nf e1 ko pd mk (S l) = (c1, l1, ll1) -> ko < l ->
  forall m r1, run n e1 pd mk m = Some r1 ->
  forall (fin : scode) (final : mstate -> nat -> mstate),
    (forall x, xi fin x (OFall (setm x (final (xm x) (fst (xenv x l)))))) -> sjumps [fin] = [] -> slbls [fin] = [] ->
  forall c pre post env pf, ctx c pre [SBlock (SSaveP l :: c1 ++ [fin])] post l l1 ->
    (forall j, In j (sjumps c1) -> used j = true) ->
    sim c [SBlock (SSaveP l :: c1 ++ [fin])] post ko l l1 (mkx m env pf)
        (match r1 with Ret true m1 => Ret true (final m1 (pos m)) | x => x end).
Proof.
  intros IH nf e1 ko pd mk l c1 l1 ll1 Hd E Hko m r1 R fin final Hfin Hfj Hfl c pre post env pf Hc Hu.
  destruct (semit_rng _ _ _ _ _ _ _ _ _ _ _ _ _ _ _ E) as (A1 & A2 & A3).
  set (b := SSaveP l :: c1 ++ [fin]).
  set (x1 := setenv (mkx m env pf) l (pos m, snd (env l))).
  assert (Hcb : ctx b [SSaveP l] c1 [fin] (S l) l1).
  { split; [reflexivity|]. intros j Hj. split; [cbn; tauto|]. intros X. apply top_in_all in X. rewrite Hfl in X. destruct X. }
  pose proof (IH _ _ _ _ _ _ _ _ _ Hd E ltac:(lia) _ _ R b _ _ (xenv x1) pf Hcb Hu) as S1.
  assert (Hko_b : ~ In ko (toplbls b)).
  { unfold b. cbn [toplbls flat_map top1 app]. change (flat_map top1) with toplbls. rewrite toplbls_app. intros X.
    apply in_app_or in X. destruct X as [X|X]; apply top_in_all in X; [specialize (A2 _ X); lia|rewrite Hfl in X; destruct X]. }
  assert (Hstep : forall o', xs b (c1 ++ [fin]) (mkx m (xenv x1) pf) o' -> xs b b (mkx m env pf) o').
  { intros o' H. unfold b. eapply xs_fall; [apply xi_savep|]. exact H. }
  destruct r1 as [|[|] m1]; cbn [sim app] in *.
  - apply block_crash. apply Hstep. exact S1.
  - destruct S1 as (e1' & pf1 & F1 & K1).
    assert (Hl : fst (e1' l) = pos m) by (rewrite F1 by lia; unfold x1; cbn [setenv xenv xm]; rewrite Nat.eqb_refl; reflexivity).
    exists e1', pf1. split.
    + intros j Hj. rewrite F1 by lia. unfold x1. cbn [setenv xenv xm]. destruct (Nat.eqb_spec j l); [lia|reflexivity].
    + intros out H. eapply block_fall; [|exact H]. apply Hstep. apply K1.
      eapply xs_fall; [apply Hfin|]. cbn [xenv xm setm]. rewrite Hl. apply xs_nil.
  - destruct S1 as (J & e1' & pf1 & F1 & K1). split.
    + apply (jumps_block_mid [SSaveP l] c1 [fin] ko J).
    + exists e1', pf1. split.
      * intros j Hj. rewrite F1 by lia. unfold x1. cbn [setenv xenv xm]. destruct (Nat.eqb_spec j l); [lia|reflexivity].
      * intros out H. eapply block_goto; [|exact H]. apply Hstep. apply K1. apply jump_out. exact Hko_b.
Qed.

(** ** switches *)
Lemma cases_find (se : expr -> nat -> bool -> bool -> nat -> sres) cs :
  (forall x ko pd mk l c l1 ll, se x ko pd mk l = (c, l1, ll) -> l <= l1) ->
  forall ko l cl l1, scases_emit se cs ko l = (cl, l1) -> forall ch,
  match find_case_keys cs ch with
  | Some (keys, e1) => exists la c lb ll, se e1 ko true (Nat.ltb 1 (length keys)) la = (c, lb, ll) /\
      find_scase cl ch = Some (c ++ if ll then [SBrk] else []) /\ l <= la /\ lb <= l1 /\ In (keys, e1) cs /\
      In (keys, c ++ if ll then [SBrk] else []) cl
  | None => find_scase cl ch = None
  end.
Proof.
  intros Hle. induction cs as [|[keys b] cs IH]; intros ko l cl l1 E ch; cbn [scases_emit] in E.
  - inv E. reflexivity.
  - destruct (se b ko true _ l) as [[c0 l0] ll0] eqn:E0. destruct (scases_emit se cs ko l0) as [rest l2] eqn:E1. inv E.
    pose proof (Hle _ _ _ _ _ _ _ _ E0) as L0.
    assert (L1 : l0 <= l1).
    { clear -Hle E1. revert l0 rest l1 E1. induction cs as [|[k2 b2] cs IHc]; intros l0 rest l1 E1; cbn [scases_emit] in E1; [inv E1; lia|].
      destruct (se b2 ko true _ l0) as [[c3 l3] ll3] eqn:E3. destruct (scases_emit se cs ko l3) as [r4 l4] eqn:E4. inv E1.
      pose proof (Hle _ _ _ _ _ _ _ _ E3). specialize (IHc _ _ _ E4). lia. }
    cbn [find_case_keys find_scase]. destruct (existsb (Z.eqb ch) keys).
    + exists l, c0, l0, ll0. repeat split; try assumption; try lia; left; reflexivity.
    + specialize (IH _ _ _ _ E1 ch). destruct (find_case_keys cs ch) as [[k' e']|]; [|exact IH].
      destruct IH as (la & c & lb & ll & H1 & H2 & H3 & H4 & H5 & H6). exists la, c, lb, ll. repeat split; try assumption; try lia; right; assumption.
Qed.

Lemma switch_sound n : SoundE n -> forall nf cs d ko l clauses l0 cd l2 lld,
  forallb (fun kc : list rune * expr => deep nf (snd kc)) cs = true -> deep nf d = true ->
  scases_emit (semit nf) cs ko (S l) = (clauses, l0) -> semit nf d ko false false l0 = (cd, l2, lld) -> ko < l ->
  forall m res, run (S n) (ESwitch cs d) false false m = Some res ->
  forall c pre post env pf,
    ctx c pre ([SBlock [SSwitch clauses (cd ++ if lld then [SBrk] else [])]] ++ slbl_if used l) post l l2 ->
    (forall j, In j (sjumps ([SBlock [SSwitch clauses (cd ++ if lld then [SBrk] else [])]])) -> used j = true) ->
    sim c ([SBlock [SSwitch clauses (cd ++ if lld then [SBrk] else [])]] ++ slbl_if used l) post ko l l2 (mkx m env pf) res.
Proof.
  intros IH nf cs d ko l clauses l0 cd l2 lld Hdc Hdd Ec Ed Hko m res R c pre post env pf Hc Hu.
  set (sw := SSwitch clauses (cd ++ if lld then [SBrk] else [])) in *.
  destruct (rng_cases (semit nf) cs (semit_rng g ptx (o_ast o) inl (o_asu o) used nf) _ _ _ _ Ec) as (C1 & C2 & C3).
  destruct (semit_rng _ _ _ _ _ _ _ _ _ _ _ _ _ _ _ Ed) as (D1 & D2 & D3).
  cbn [run_f] in R.
  (* running one body, whichever it is *)
  assert (Hbody : forall e1 pd mk la c1 lb ll1 r1, deep nf e1 = true -> semit nf e1 ko pd mk la = (c1, lb, ll1) -> S l <= la -> lb <= l2 ->
            run n e1 pd mk m = Some r1 -> (forall j, In j (sjumps c1) -> used j = true) ->
            let bd := c1 ++ (if ll1 then [SBrk] else []) in
            match r1 with
            | Crash => xs bd bd (mkx m env pf) OCrash
            | Ret true m' => exists e' pf', frame l l2 env e' /\
                (xs bd bd (mkx m env pf) (OFall (mkx m' e' pf')) \/ xs bd bd (mkx m env pf) (OBrk (mkx m' e' pf')))
            | Ret false m' => In ko (sjumps c1) /\ exists e' pf', frame l l2 env e' /\ xs bd bd (mkx m env pf) (OGoto ko (mkx m' e' pf'))
            end).
  { intros e1 pd1 mk1 la c1 lb ll1 r1 Hd1 E1 La Lb R1 Hu1 bd.
    destruct (semit_rng _ _ _ _ _ _ _ _ _ _ _ _ _ _ _ E1) as (A1 & A2 & A3).
    assert (Hcb : ctx bd [] c1 (if ll1 then [SBrk] else []) la lb) by (split; [reflexivity|intros j Hj; split; [cbn; tauto|destruct ll1; cbn; tauto]]).
    pose proof (IH _ _ _ _ _ _ _ _ _ Hd1 E1 ltac:(lia) _ _ R1 bd _ _ env pf Hcb Hu1) as S1.
    assert (Hko_b : ~ In ko (toplbls bd)).
    { unfold bd. rewrite toplbls_app. intros X. apply in_app_or in X. destruct X as [X|X]; [apply top_in_all in X; specialize (A2 _ X); lia|destruct ll1; destruct X]. }
    destruct r1 as [|[|] m1]; cbn [sim] in S1.
    - exact S1.
    - destruct S1 as (e1' & pf1 & F1 & K1). exists e1', pf1. split; [eapply frame_weaken; [| |exact F1]; lia|].
      destruct ll1; [right; apply K1; apply xs_brk; apply xi_brk|left; apply K1; apply xs_nil].
    - destruct S1 as (J & e1' & pf1 & F1 & K1). split; [exact J|]. exists e1', pf1. split; [eapply frame_weaken; [| |exact F1]; lia|].
      apply K1. apply jump_out. exact Hko_b. }
  destruct (rd buf m) as [ch|] eqn:Erd.
  2: { inv R. cbn [sim app]. apply xs_crash. apply xi_block. apply xs_crash. apply xi_switch_crash. exact Erd. }
  pose proof (cases_find (semit nf) cs ltac:(intros ? ? ? ? ? ? ? ? Hx; exact (proj1 (semit_rng _ _ _ _ _ _ _ _ _ _ _ _ _ _ _ Hx))) _ _ _ _ Ec ch) as Hf.
  (* the body that is selected, its code and its result *)
  assert (Hsel : exists body r1, (match find_scase clauses ch with Some b0 => b0 | None => cd ++ if lld then [SBrk] else [] end) = body /\
            Some r1 = Some res /\
            (forall j, In j (sjumps body) -> In j (sjumps [SBlock [sw]])) /\
            match r1 with
            | Crash => xs body body (mkx m env pf) OCrash
            | Ret true m' => exists e' pf', frame l l2 env e' /\
                (xs body body (mkx m env pf) (OFall (mkx m' e' pf')) \/ xs body body (mkx m env pf) (OBrk (mkx m' e' pf')))
            | Ret false m' => (exists c1 brk, body = c1 ++ brk /\ In ko (sjumps c1)) /\ exists e' pf', frame l l2 env e' /\ xs body body (mkx m env pf) (OGoto ko (mkx m' e' pf'))
            end).
  { destruct (find_case_keys cs ch) as [[keys e1]|] eqn:Ef.
    - destruct Hf as (la & c1 & lb & ll1 & E1 & Hfs & La & Lb & Hin & Hin2). rewrite Hfs.
      assert (Hd1 : deep nf e1 = true) by (exact (proj1 (forallb_forall _ _) Hdc _ Hin)).
      assert (Hj : forall j, In j (sjumps (c1 ++ if ll1 then [SBrk] else [])) -> In j (sjumps [SBlock [sw]])).
      { intros j Hj. unfold sw. cbn [sjumps flat_map sjumps1 app]. rewrite !app_nil_r. apply in_or_app. left.
        apply in_flat_map. exists (keys, c1 ++ if ll1 then [SBrk] else []). split; [exact Hin2|exact Hj]. }
      assert (Hu1 : forall j, In j (sjumps c1) -> used j = true).
      { intros j Hj1. apply Hu. apply Hj. rewrite sjumps_app. apply in_or_app. left. exact Hj1. }
      pose proof (Hbody e1 true (1 <? length keys) la c1 lb ll1) as HB.
      destruct (run n e1 true (1 <? length keys) m) as [r1|] eqn:R1; [|discriminate].
      specialize (HB r1 Hd1 E1 La ltac:(lia) eq_refl Hu1). cbn zeta in HB.
      exists (c1 ++ if ll1 then [SBrk] else []), r1. split; [reflexivity|]. split; [exact R|]. split; [exact Hj|].
      destruct r1 as [|[|] m1]; try exact HB. destruct HB as (J & HB). split; [eexists _, _; split; [reflexivity|exact J]|exact HB].
    - rewrite Hf.
      assert (Hj : forall j, In j (sjumps (cd ++ if lld then [SBrk] else [])) -> In j (sjumps [SBlock [sw]])).
      { intros j Hj. unfold sw. cbn [sjumps flat_map sjumps1 app]. rewrite !app_nil_r. apply in_or_app. right. exact Hj. }
      assert (Hu1 : forall j, In j (sjumps cd) -> used j = true).
      { intros j Hj1. apply Hu. apply Hj. rewrite sjumps_app. apply in_or_app. left. exact Hj1. }
      pose proof (Hbody d false false l0 cd l2 lld) as HB.
      destruct (run n d false false m) as [r1|] eqn:R1; [|discriminate].
      specialize (HB r1 Hdd Ed ltac:(lia) (le_n _) eq_refl Hu1). cbn zeta in HB.
      exists (cd ++ if lld then [SBrk] else []), r1. split; [reflexivity|]. split; [exact R|]. split; [exact Hj|].
      destruct r1 as [|[|] m1]; try exact HB. destruct HB as (J & HB). split; [eexists _, _; split; [reflexivity|exact J]|exact HB]. }
  destruct Hsel as (body & r1 & Ebody & Er & Hjb & HB). assert (r1 = res) by congruence. subst r1. clear Er.
  pose proof (fun out H => xi_switch buf penv o fn clauses (cd ++ if lld then [SBrk] else []) (mkx m env pf) ch out Erd H) as Hsw.
  rewrite Ebody in Hsw.
  destruct res as [|[|] m1]; cbn [sim app].
  - apply block_crash. apply xs_crash. exact (Hsw _ HB).
  - destruct HB as (e' & pf' & F & HB). exists e', pf'. split; [exact F|]. intros out H.
    eapply block_fall; [|apply xs_skip_lbl_if; exact H].
    eapply xs_fall; [|apply xs_nil]. destruct HB as [HB|HB]; exact (Hsw _ HB).
  - destruct HB as ((c1 & brk & Eb & J) & e' & pf' & F & HB). split.
    + change (SBlock [sw] :: slbl_if used l) with ([SBlock [sw]] ++ slbl_if used l). rewrite sjumps_app. apply in_or_app. left. apply Hjb. rewrite Eb, sjumps_app. apply in_or_app. left. exact J.
    + exists e', pf'. split; [exact F|]. intros out H.
      eapply block_goto; [|exact H]. eapply xs_goto_out; [exact (Hsw _ HB)|reflexivity].
Qed.

Lemma jumps_mid a c1 z j : In j (sjumps c1) -> In j (sjumps (a ++ c1 ++ z)).
Proof. intros H. rewrite !sjumps_app. apply in_or_app. right. apply in_or_app. left. exact H. Qed.
Lemma jumps_cons_block b tl j : In j (sjumps b) -> In j (sjumps (SBlock b :: tl)).
Proof. intros H. cbn [sjumps flat_map sjumps1]. apply in_or_app. left. exact H. Qed.

(** ** one more unit of run fuel *)
Lemma sim_nil c post ko l x m : xm x = m -> sim c [] post ko l l x (Ret true m).
Proof. intros <-. cbn [sim app]. exists (xenv x), (xpf x). split; [apply frame_refl|]. destruct x; auto. Qed.

Lemma ctx_top c pre ce post l l1 j : ctx c pre ce post l l1 -> l <= j < l1 -> ~ In j (toplbls pre).
Proof. intros [_ H] Hj. apply (H j Hj). Qed.

Theorem sound_step n : SoundLe n -> calls_ok n -> SoundE (S n).
Proof.
  intros IHle Hcalls. pose proof (IHle n (le_n _)) as IH.
  intros nf e ko pd mk l ce l1 ll Hd E Hko m res R c pre post env pf Hc Hu.
  destruct nf as [|nf]; [discriminate|].
  destruct e as [|ch|lo hi|r|k|k|k| |es|es|e1|e1|e1|e1|e1|e1|cs d]; cbn [SEmit.semit SEmit.deep] in E, Hd; cbn [run_f] in R.
  - (* . *)
    destruct pd; inv E; inv R.
    + apply sim_nil. reflexivity.
    + pose proof (xi_dot buf penv o fn ko (mkx m env pf)) as X. cbn [xm] in X.
      destruct (mterm buf _ m) as [|[|] m1]; cbn [sim app].
      * apply xs_crash. exact X.
      * exists env, pf. split; [apply frame_refl|]. intros out H. eapply xs_fall; [exact X|exact H].
      * split; [left; reflexivity|]. exists env, pf. split; [apply frame_refl|]. intros out H. eapply xs_jump; [exact X|exact H].
  - (* 'c' *)
    destruct (pd && negb mk)%bool; inv E; inv R.
    + cbn [sim app]. exists env, pf. split; [apply frame_refl|]. intros out H. eapply xs_fall; [apply xi_inc|exact H].
    + unfold mterm. destruct (rd buf m) as [c'|] eqn:Erd; cbn [sim app].
      * destruct (Z.eqb ch c') eqn:Ec.
        -- exists env, pf. split; [apply frame_refl|]. intros out H.
           eapply xs_fall; [eapply xi_char_ok; [exact Erd|exact Ec]|]. eapply xs_fall; [apply xi_inc|exact H].
        -- split; [left; reflexivity|]. exists env, pf. split; [apply frame_refl|]. intros out H.
           eapply xs_jump; [eapply xi_char_ko; [exact Erd|exact Ec]|exact H].
      * apply xs_crash. apply xi_char_crash. exact Erd.
  - (* [lo-hi] *)
    destruct pd; inv E; inv R.
    + cbn [sim app]. exists env, pf. split; [apply frame_refl|]. intros out H. eapply xs_fall; [apply xi_inc|exact H].
    + unfold mterm. destruct (rd buf m) as [c'|] eqn:Erd; cbn [sim app].
      * destruct (in_range lo hi c') eqn:Ec.
        -- exists env, pf. split; [apply frame_refl|]. intros out H.
           eapply xs_fall; [eapply xi_range_ok; [exact Erd|exact Ec]|]. eapply xs_fall; [apply xi_inc|exact H].
        -- split; [left; reflexivity|]. exists env, pf. split; [apply frame_refl|]. intros out H.
           eapply xs_jump; [eapply xi_range_ko; [exact Erd|exact Ec]|exact H].
      * apply xs_crash. apply xi_range_crash. exact Erd.
  - (* a rule *)
    destruct (nth_error g r) as [[b|k|]|] eqn:Eg; try discriminate;
      apply andb_prop in Hd; destruct Hd as [Hi Hd]; apply eqb_prop in Hi; rewrite Hi in E.
    + destruct (o_inline o r) eqn:Einl.
      * (* compiled in place *)
        unfold sipush_emit in E. rewrite Eg in E. destruct (semit nf b ko pd mk (S l)) as [[cb lb] llb] eqn:Eb. inv E.
        unfold ipush_run in R. rewrite Eg in R.
        destruct (run n b pd mk m) as [r1|] eqn:Rb; [|discriminate].
        assert (Hu1 : forall j, In j (sjumps cb) -> used j = true).
        { intros j Hj. apply Hu. apply (jumps_block_mid [SSaveP l] cb [SAddRule r l] j Hj). }
        pose proof (push_sound n IH _ _ _ _ _ _ _ _ _ Hd Eb Hko _ _ Rb (SAddRule r l) (fun m' p0 => add o r p0 m')
                      (fun x => xi_addrule buf penv o fn r l x) eq_refl eq_refl _ _ _ env pf Hc Hu1) as S1.
        destruct r1 as [|[|] m1]; inv R; exact S1.
      * (* a call *)
        assert (Hex : exists b0, nth_error g r = Some b0 /\ b0 <> RNil) by (eexists; split; [exact Eg|discriminate]).
        unfold call_run in R. destruct (o_asu o r) eqn:Easu; inv E.
        -- destruct (rule_fn g o (run n) r m) as [r1|] eqn:Rf; [|discriminate].
           pose proof (xi_callasu buf penv o fn r (mkx m env pf) r1 (Hcalls _ _ _ Einl Hd Hex Rf)) as X.
           destruct r1 as [|b1 m1]; inv R; cbn [sim app].
           ++ apply xs_crash. exact X.
           ++ exists env, pf. split; [apply frame_refl|]. intros out H. eapply xs_fall; [exact X|exact H].
        -- pose proof (xi_call buf penv o fn r ko (mkx m env pf) res (Hcalls _ _ _ Einl Hd Hex R)) as X.
           destruct res as [|[|] m1]; cbn [sim app].
           ++ apply xs_crash. exact X.
           ++ exists env, pf. split; [apply frame_refl|]. intros out H. eapply xs_fall; [exact X|exact H].
           ++ split; [left; reflexivity|]. exists env, pf. split; [apply frame_refl|]. intros out H. eapply xs_jump; [exact X|exact H].
    + destruct (o_inline o r) eqn:Einl.
      * unfold sipush_emit in E. rewrite Eg in E. inv E. unfold ipush_run in R. rewrite Eg in R.
        destruct (o_ast o); inv R; cbn [sim app]; exists env, pf; (split; [intros j Hj; reflexivity|]); intros out H;
          (eapply block_fall; [|exact H]); (eapply xs_fall; [|apply xs_nil]).
        -- apply xi_addact.
        -- apply xi_logact.
      * assert (Hex : exists b0, nth_error g r = Some b0 /\ b0 <> RNil) by (eexists; split; [exact Eg|discriminate]).
        unfold call_run in R. destruct (o_asu o r) eqn:Easu; inv E.
        -- destruct (rule_fn g o (run n) r m) as [r1|] eqn:Rf; [|discriminate].
           pose proof (xi_callasu buf penv o fn r (mkx m env pf) r1 (Hcalls _ _ _ Einl Hd Hex Rf)) as X.
           destruct r1 as [|b1 m1]; inv R; cbn [sim app].
           ++ apply xs_crash. exact X.
           ++ exists env, pf. split; [apply frame_refl|]. intros out H. eapply xs_fall; [exact X|exact H].
        -- pose proof (xi_call buf penv o fn r ko (mkx m env pf) res (Hcalls _ _ _ Einl Hd Hex R)) as X.
           destruct res as [|[|] m1]; cbn [sim app].
           ++ apply xs_crash. exact X.
           ++ exists env, pf. split; [apply frame_refl|]. intros out H. eapply xs_fall; [exact X|exact H].
           ++ split; [left; reflexivity|]. exists env, pf. split; [apply frame_refl|]. intros out H. eapply xs_jump; [exact X|exact H].
  - (* &{..} *)
    inv E. inv R.
    assert (Hko_b : ~ In ko (toplbls [SPredSet k; SCond QPred ko])) by (cbn; tauto).
    destruct (penv k (pos m)) eqn:Ep; cbn [sim app].
    + exists env, (penv k (pos m)). split; [apply frame_refl|]. intros out H. eapply block_fall; [|exact H].
      eapply xs_fall; [apply xi_predset|]. cbn [xm setpf].
      pose proof (xi_predtest buf penv o fn ko (mkx m env (penv k (pos m)))) as X. cbn [xpf] in X. rewrite Ep in X.
      rewrite Ep. eapply xs_fall; [exact X|apply xs_nil].
    + split; [cbn; tauto|]. exists env, (penv k (pos m)). split; [apply frame_refl|]. intros out H. eapply block_goto; [|exact H].
      eapply xs_fall; [apply xi_predset|]. cbn [xm setpf].
      pose proof (xi_predtest buf penv o fn ko (mkx m env (penv k (pos m)))) as X. cbn [xpf] in X. rewrite Ep in X.
      rewrite Ep. eapply xs_goto_out; [exact X|apply after_label_none; exact Hko_b].
  - (* !{..} *)
    inv E. inv R. cbn [sim app]. exists env, pf. split; [apply frame_refl|]. intros out H. eapply xs_fall; [apply xi_state|exact H].
  - inv E. inv R. apply sim_nil. reflexivity.
  - inv E. inv R. apply sim_nil. reflexivity.
  - (* sequence *)
    eapply (seq_sound n IH); eassumption.
  - (* alternation *)
    assert (Hne : es <> []) by (intros ->; discriminate Hd).
    assert (Hd' : forallb (deep nf) es = true) by (destruct es; [congruence|exact Hd]).
    destruct (salt_emit used (semit nf) es ko l (S l)) as [calt la] eqn:Ea. inv E.
    destruct (rng_alt used (semit nf) es (semit_rng g ptx (o_ast o) inl (o_asu o) used nf) _ _ _ _ _ Ea) as (B1 & B2 & B3).
    set (b := SSave l :: calt).
    assert (Hua : forall j, In j (sjumps calt) -> used j = true).
    { intros j Hj. apply Hu. apply jumps_cons_block. exact Hj. }
    pose proof (alt_sound n IH nf es ko l (S l) calt l1 Hd' Ea Hne Hko ltac:(lia) _ _ _ _ R b [SSave l]
                  (xenv (saved (mkx m env pf) l)) pf eq_refl ltac:(intros; cbn; tauto) ltac:(cbn; tauto) ltac:(cbn; tauto)) as S1.
    cbn [saved setenv xenv xm] in S1. rewrite Nat.eqb_refl in S1. specialize (S1 eq_refl Hua).
    assert (Hstep : forall o', xs b calt (mkx m (fun j => if j =? l then (pos m, tix m) else env j) pf) o' -> xs b b (mkx m env pf) o').
    { intros o' H. unfold b. eapply xs_fall; [apply xi_save|]. exact H. }
    assert (Hframe : forall e', frame (S l) l1 (fun j => if j =? l then (pos m, tix m) else env j) e' -> frame l l1 env e').
    { intros e' F j Hj. rewrite F by lia. destruct (Nat.eqb_spec j l); [lia|reflexivity]. }
    destruct Hc as [Ec Hcl].
    destruct res as [|[|] m1]; cbn [sim].
    + cbn [app]. apply block_crash. apply Hstep. exact S1.
    + destruct S1 as (e' & pf' & F & S1). exists e', pf'. split; [apply Hframe; exact F|]. intros out H.
      cbn [app]. destruct S1 as [S1|[J S1]].
      * eapply block_fall; [apply Hstep; exact S1|]. apply xs_skip_lbl_if. exact H.
      * (* a jump to ok: an alternative before the last matched *)
        eapply block_goto; [apply Hstep; exact S1|].
        unfold Exec.jump.
        assert (Ea2 : after_label l c = Some post).
        { rewrite Ec. rewrite (slbl_if_used l (Hua _ J)). rewrite after_label_skip by (apply (Hcl l); lia).
          cbn [app after_label]. rewrite Nat.eqb_refl. reflexivity. }
        rewrite Ea2. exact H.
    + destruct S1 as (J & e' & pf' & F & S1). split.
      * apply jumps_cons_block. exact J.
      * exists e', pf'. split; [apply Hframe; exact F|]. intros out H.
        cbn [app]. eapply block_goto; [apply Hstep; exact S1|exact H].
  - (* & *)
    destruct (semit nf e1 ko false false (S l)) as [[c1 la] ll1] eqn:E1. inv E.
    destruct (run n e1 false false m) as [r1|] eqn:R1; [|discriminate].
    assert (Hu1 : forall j, In j (sjumps c1) -> used j = true).
    { intros j Hj. apply Hu. apply (jumps_block_mid [SSave l] c1 [SRestore l] j Hj). }
    pose proof (and_sound n IH _ _ _ _ _ _ _ Hd E1 Hko _ _ R1 _ _ _ env pf Hc Hu1) as S1.
    destruct r1 as [|[|] m1]; inv R; exact S1.
  - (* ! *)
    destruct (semit nf e1 l false false (S l)) as [[c1 la] ll1] eqn:E1. inv E.
    destruct (run n e1 false false m) as [r1|] eqn:R1; [|discriminate].
    assert (Hu1 : forall j, In j (sjumps c1) -> used j = true).
    { intros j Hj. apply Hu. apply (jumps_block_mid [SSave l] c1 ([SJmp ko] ++ slbl_if used l ++ [SRestore l]) j Hj). }
    pose proof (not_sound n IH _ _ _ _ _ _ _ Hd E1 Hko _ _ R1 _ _ _ env pf Hc Hu1) as S1.
    destruct r1 as [|[|] m1]; inv R; exact S1.
  - (* ? *)
    destruct (semit nf e1 l false false (S (S l))) as [[c1 la] ll1] eqn:E1. inv E.
    destruct (run n e1 false false m) as [r1|] eqn:R1; [|discriminate].
    assert (Hu1 : forall j, In j (sjumps c1) -> used j = true).
    { intros j Hj. apply Hu. apply jumps_cons_block. apply (jumps_mid [SSave l] c1 ([SJmp (S l)] ++ slbl_if used l ++ [SRestore l]) j Hj). }
    assert (Hq : used (S l) = true).
    { apply Hu. apply jumps_cons_block. apply (jumps_mid (SSave l :: c1) [SJmp (S l)] (slbl_if used l ++ [SRestore l])). left. reflexivity. }
    pose proof (query_sound n IH _ _ _ _ _ _ _ Hd E1 Hko _ _ R1 _ _ _ env pf Hc Hu1 Hq) as S1.
    destruct r1 as [|[|] m1]; inv R; exact S1.
  - (* * *)
    destruct (semit nf e1 (S l) false false (S (S l))) as [[c2 lb] ll2] eqn:E1. inv E.
    destruct (semit_rng _ _ _ _ _ _ _ _ _ _ _ _ _ _ _ E1) as (A1 & A2 & A3).
    assert (Hu2 : forall j, In j (sjumps c2) -> used j = true).
    { intros j Hj. apply Hu. rewrite sjumps_app. apply in_or_app. right. apply jumps_cons_block.
      apply (jumps_mid [SSave (S l)] c2 ([SJmp l] ++ slbl_if used (S l) ++ [SRestore (S l)]) j Hj). }
    assert (Hag : used l = true).
    { apply Hu. rewrite sjumps_app. apply in_or_app. right. apply jumps_cons_block.
      apply (jumps_mid (SSave (S l) :: c2) [SJmp l] (slbl_if used (S l) ++ [SRestore (S l)])). left. reflexivity. }
    destruct Hc as [Ec Hcl]. rewrite (slbl_if_used l Hag) in *. cbn [app] in Ec.
    pose proof (loop_sound n IHle (S n) (le_n _) nf e1 l (S l) (S (S l)) l1 c2 ll2 Hd E1 ltac:(lia) ltac:(lia) m res) as S1.
    assert (R' : run (S n) (EStar e1) false false m = Some res) by exact R.
    specialize (S1 R' c pre post env pf Ec ltac:(apply (Hcl l); lia) Hu2).
    fold (loop_body l (S l) c2).
    destruct res as [|[|] m1]; cbn [sim app].
    + eapply xs_fall; [apply xi_lbl|]. exact S1.
    + destruct S1 as (e' & pf' & F & K). exists e', pf'. split.
      * intros j Hj. apply F; lia.
      * intros out H. eapply xs_fall; [apply xi_lbl|]. apply K. exact H.
    + destruct S1.
  - (* + *)
    destruct (semit nf e1 ko false false (S (S l))) as [[c1 la] ll1] eqn:E1.
    destruct (semit nf e1 (S l) false false la) as [[c2 lb] ll2] eqn:E2. inv E.
    destruct (semit_rng _ _ _ _ _ _ _ _ _ _ _ _ _ _ _ E1) as (A1 & A2 & A3).
    destruct (semit_rng _ _ _ _ _ _ _ _ _ _ _ _ _ _ _ E2) as (B1 & B2 & B3).
    assert (Hu1 : forall j, In j (sjumps c1) -> used j = true).
    { intros j Hj. apply Hu. rewrite sjumps_app. apply in_or_app. left. exact Hj. }
    assert (Hu2 : forall j, In j (sjumps c2) -> used j = true).
    { intros j Hj. apply Hu. rewrite !sjumps_app. apply in_or_app. right. apply in_or_app. right. apply jumps_cons_block.
      apply (jumps_mid [SSave (S l)] c2 ([SJmp l] ++ slbl_if used (S l) ++ [SRestore (S l)]) j Hj). }
    assert (Hag : used l = true).
    { apply Hu. rewrite !sjumps_app. apply in_or_app. right. apply in_or_app. right. apply jumps_cons_block.
      apply (jumps_mid (SSave (S l) :: c2) [SJmp l] (slbl_if used (S l) ++ [SRestore (S l)])). left. reflexivity. }
    rewrite (slbl_if_used l Hag) in *.
    fold (loop_body l (S l) c2) in *.
    set (star := [SLbl l] ++ [SBlock (loop_body l (S l) c2)]) in *.
    assert (Hstar_lbls : forall j, In j (slbls star) -> l <= j < l1).
    { intros j Hj. unfold star, loop_body in Hj. cbn [slbls flat_map slbls1 app] in Hj. change (flat_map slbls1) with slbls in Hj.
      destruct Hj as [<-|Hj]; [lia|]. rewrite app_nil_r in Hj. rewrite !slbls_app in Hj.
      apply in_app_or in Hj. destruct Hj as [Hj|Hj]; [specialize (B2 _ Hj); lia|].
      cbn [slbls flat_map slbls1 app] in Hj. change (flat_map slbls1) with slbls in Hj. rewrite slbls_app in Hj.
      apply in_app_or in Hj. destruct Hj as [Hj|[]]. apply slbl_if_lbls in Hj. lia. }
    destruct Hc as [Ec Hcl].
    assert (Hc1 : ctx c pre c1 (star ++ post) (S (S l)) la).
    { split; [rewrite Ec, <- app_assoc; reflexivity|]. intros j Hj. split; [apply (Hcl j); lia|].
      unfold star. cbn [app toplbls flat_map top1]. intros [X|X]; [lia|]. exact (proj2 (Hcl j ltac:(lia)) X). }
    destruct (run n e1 false false m) as [[|[|] m1]|] eqn:R1; try discriminate.
    + inv R. apply (sim_first_gen _ _ _ _ _ l (S (S l)) la); [lia|exact B1| |exact I].
      exact (IH _ _ _ _ _ _ _ _ _ Hd E1 ltac:(lia) _ _ R1 _ _ _ env pf Hc1 Hu1).
    + pose proof (IH _ _ _ _ _ _ _ _ _ Hd E1 ltac:(lia) _ _ R1 _ _ _ env pf Hc1 Hu1) as S0. cbn [sim] in S0.
      destruct S0 as (e1' & pf1 & F1 & K1).
      assert (Ec2 : c = (pre ++ c1) ++ SLbl l :: SBlock (loop_body l (S l) c2) :: post).
      { rewrite Ec. unfold star. rewrite <- !app_assoc. reflexivity. }
      assert (Hag_pre : ~ In l (toplbls (pre ++ c1))).
      { rewrite toplbls_app. intros X. apply in_app_or in X. destruct X as [X|X]; [exact (proj1 (Hcl l ltac:(lia)) X)|].
        apply top_in_all in X. specialize (A2 _ X). lia. }
      pose proof (loop_sound n IHle n ltac:(lia) nf e1 l (S l) la l1 c2 ll2 Hd E2 ltac:(lia) ltac:(lia) m1 res R c (pre ++ c1) post e1' pf1 Ec2 Hag_pre Hu2) as S1.
      assert (Hgo : forall o', xs c (SBlock (loop_body l (S l) c2) :: post) (mkx m1 e1' pf1) o' -> xs c ((c1 ++ star) ++ post) (mkx m env pf) o').
      { intros o' H. rewrite <- app_assoc. apply K1. unfold star. cbn [app]. eapply xs_fall; [apply xi_lbl|exact H]. }
      destruct res as [|[|] m2]; cbn [sim].
      * apply Hgo. exact S1.
      * destruct S1 as (e' & pf' & F & K). exists e', pf'. split.
        -- intros j Hj. rewrite F by lia. apply F1. lia.
        -- intros out H. apply Hgo. apply K. exact H.
      * destruct S1.
    + inv R. apply (sim_first_gen _ _ _ _ _ l (S (S l)) la); [lia|exact B1| |exact I].
      exact (IH _ _ _ _ _ _ _ _ _ Hd E1 ltac:(lia) _ _ R1 _ _ _ env pf Hc1 Hu1).
  - (* < > *)
    destruct (semit nf e1 ko pd mk (S l)) as [[c1 la] ll1] eqn:E1. inv E.
    destruct (run n e1 pd mk m) as [r1|] eqn:R1; [|discriminate].
    assert (Hu1 : forall j, In j (sjumps c1) -> used j = true).
    { intros j Hj. apply Hu. apply (jumps_block_mid [SSaveP l] c1 [if o_ast o then SAddRule ptx l else SCapture l] j Hj). }
    pose proof (push_sound n IH _ _ _ _ _ _ _ _ _ Hd E1 Hko _ _ R1 (if o_ast o then SAddRule ptx l else SCapture l)
                  (fun m' p0 => if o_ast o then add o ptx p0 m' else set_text p0 (pos m') m')
                  ltac:(intros x; destruct (o_ast o); [apply xi_addrule|apply xi_capture])
                  ltac:(destruct (o_ast o); reflexivity) ltac:(destruct (o_ast o); reflexivity) _ _ _ env pf Hc Hu1) as S1.
    destruct r1 as [|[|] m1]; inv R; exact S1.
  - (* switch *)
    apply andb_true_iff in Hd. destruct Hd as [Hdc Hdd].
    destruct (scases_emit (semit nf) cs ko (S l)) as [clauses l0] eqn:Ecs.
    destruct (semit nf d ko false false l0) as [[cd l2] lld] eqn:Ed. inv E.
    eapply (switch_sound n IH); try eassumption.
    intros j Hj. apply Hu. cbn [sjumps flat_map] in Hj |- *. rewrite app_nil_r in Hj. apply in_or_app. left. exact Hj.
Qed.

(** ** rule functions *)
Lemma ipush_sound n : SoundE n -> forall nf r ko pd mk l ce l1 ll,
  rdeep nf r = true -> sipush (semit nf) r ko pd mk l = (ce, l1, ll) -> ko < l ->
  forall m res, ipush_run g o (run n) r pd mk m = Some res ->
  forall c pre post env pf, ctx c pre ce post l l1 -> (forall j, In j (sjumps ce) -> used j = true) ->
    sim c ce post ko l l1 (mkx m env pf) res.
Proof.
  intros IH nf r ko pd mk l ce l1 ll Hd E Hko m res R c pre post env pf Hc Hu.
  unfold SEmit.rdeep in Hd. unfold sipush_emit in E. unfold ipush_run in R.
  destruct (nth_error g r) as [[b|k|]|] eqn:Eg; try discriminate.
  - destruct (semit nf b ko pd mk (S l)) as [[cb lb] llb] eqn:Eb. inv E.
    destruct (run n b pd mk m) as [r1|] eqn:Rb; [|discriminate].
    assert (Hu1 : forall j, In j (sjumps cb) -> used j = true).
    { intros j Hj. apply Hu. apply (jumps_block_mid [SSaveP l] cb [SAddRule r l] j Hj). }
    pose proof (push_sound n IH _ _ _ _ _ _ _ _ _ Hd Eb Hko _ _ Rb (SAddRule r l) (fun m' p0 => add o r p0 m')
                  (fun x => xi_addrule buf penv o fn r l x) eq_refl eq_refl _ _ _ env pf Hc Hu1) as S1.
    destruct r1 as [|[|] m1]; inv R; exact S1.
  - inv E. destruct (o_ast o); inv R; cbn [sim app]; exists env, pf; (split; [intros j Hj; reflexivity|]); intros out H;
      (eapply block_fall; [|exact H]); (eapply xs_fall; [|apply xs_nil]).
    + apply xi_addact.
    + apply xi_logact.
Qed.

Notation srule := (SEmit.srule_emit g ptx (o_ast o) inl (o_asu o) used).

Lemma fn_sound n : SoundE n -> forall nf r ko body lb,
  srule nf r ko = (body, lb) -> rdeep nf r = true -> (forall j, In j (sjumps body) -> used j = true) ->
  forall m res, rule_fn g o (run n) r m = Some res ->
    xs body body (mkx m env0 false) (match res with Crash => OCrash | Ret b m' => ORet b m' end).
Proof.
  intros IH nf r ko body lb E Hd Hu m res R.
  unfold srule_emit in E. destruct (sipush (semit nf) r ko false false (S ko)) as [[cip l1] llp] eqn:Eip. inv E.
  set (mc := if o_ast o then [SMemoCheck r] else []).
  set (sv := if (o_ast o || used ko)%bool then [SSave ko] else []).
  set (mt := if o_ast o then [SMemo r ko true] else []).
  set (tlk := if used ko then [SLbl ko] ++ (if o_ast o then [SMemo r ko false] else []) ++ [SRestore ko; SReturn false] else []).
  set (body := mc ++ sv ++ cip ++ mt ++ [SReturn true] ++ tlk) in *.
  assert (Hrng : rng ko (S ko) cip lb).
  { unfold sipush_emit in Eip. unfold SEmit.rdeep in Hd. destruct (nth_error g r) as [[b|k|]|]; try discriminate.
    - destruct (semit nf b ko false false (S (S ko))) as [[cb lb0] llb] eqn:Eb. inv Eip.
      destruct (semit_rng _ _ _ _ _ _ _ _ _ _ _ _ _ _ _ Eb) as (A1 & A2 & A3).
      split; [lia|split]; intros j Hj; cbn [slbls sjumps flat_map slbls1 sjumps1 app] in Hj; rewrite app_nil_r in Hj;
        [change (flat_map slbls1) with slbls in Hj; rewrite slbls_app in Hj|change (flat_map sjumps1) with sjumps in Hj; rewrite sjumps_app in Hj];
        apply in_app_or in Hj; destruct Hj as [Hj|Hj]; try (destruct Hj; fail).
      + specialize (A2 _ Hj). lia.
      + destruct (A3 _ Hj); [auto|right; lia].
    - inv Eip. split; [lia|split]; intros j Hj; destruct (o_ast o); cbn in Hj; tauto. }
  destruct Hrng as (A1 & A2 & A3).
  unfold rule_fn in R.
  (* the memo table *)
  assert (Hmc : forall o', (match (if o_ast o then lookup (memo m) r (pos m) else None) with
                           | Some me => o' = (match memoized me m with Crash => OCrash | Ret b m' => ORet b m' end)
                           | None => xs body (sv ++ cip ++ mt ++ [SReturn true] ++ tlk) (mkx m env0 false) o' end) ->
                          xs body body (mkx m env0 false) o').
  { intros o' H. unfold body at 2, mc. destruct (o_ast o) eqn:East; cbn [app]; [|exact H].
    pose proof (xi_memocheck buf penv o fn r (mkx m env0 false)) as X. cbn [xm] in X.
    destruct (lookup (memo m) r (pos m)) as [me|].
    - subst o'. destruct (memoized me m) as [|b0 m0]; [apply xs_crash; exact X|apply xs_ret; exact X].
    - eapply xs_fall; [exact X|exact H]. }
  apply Hmc. destruct (if o_ast o then lookup (memo m) r (pos m) else None) as [me|] eqn:Elk.
  { inv R. reflexivity. }
  (* save, body, memoize, return *)
  set (x1 := if (o_ast o || used ko)%bool then setenv (mkx m env0 false) ko (pos m, tix m) else mkx m env0 false).
  assert (Hsv : forall o', xs body (cip ++ mt ++ [SReturn true] ++ tlk) x1 o' -> xs body (sv ++ cip ++ mt ++ [SReturn true] ++ tlk) (mkx m env0 false) o').
  { intros o' H. unfold sv, x1 in *. destruct (o_ast o || used ko)%bool; cbn [app]; [eapply xs_fall; [apply xi_save|exact H]|exact H]. }
  apply Hsv.
  assert (Hc : ctx body (mc ++ sv) cip (mt ++ [SReturn true] ++ tlk) (S ko) lb).
  { split; [unfold body; rewrite <- !app_assoc; reflexivity|]. intros j Hj. split.
    - unfold mc, sv. destruct (o_ast o); cbn [orb]; destruct (used ko); cbn; tauto.
    - unfold mt, tlk. destruct (o_ast o), (used ko); cbn; intuition lia. }
  assert (Hu1 : forall j, In j (sjumps cip) -> used j = true).
  { intros j Hj. apply Hu. unfold body. rewrite !sjumps_app. apply in_or_app. right. apply in_or_app. right. apply in_or_app. left. exact Hj. }
  destruct (ipush_run g o (run n) r false false m) as [r1|] eqn:Rip; [|discriminate].
  pose proof (ipush_sound n IH nf r ko false false (S ko) cip lb llp Hd Eip ltac:(lia) m r1 Rip body _ _ (xenv x1) (xpf x1) Hc Hu1) as S1.
  assert (Ex1 : mkx m (xenv x1) (xpf x1) = x1) by (unfold x1; destruct (o_ast o || used ko)%bool; reflexivity).
  rewrite Ex1 in S1.
  destruct r1 as [|[|] m1]; cbn [sim] in S1.
  - inv R. exact S1.
  - inv R. destruct S1 as (e1 & pf1 & F1 & K1). apply K1.
    unfold mt. destruct (o_ast o) eqn:East; cbn [app].
    + eapply xs_fall; [apply xi_memo|]. apply xs_ret. cbn [xm setm xenv].
      assert (He : e1 ko = (pos m, tix m)).
      { rewrite F1 by lia. unfold x1. cbn [orb setenv xenv]. rewrite Nat.eqb_refl. reflexivity. }
      rewrite He. cbn [fst snd]. apply xi_return.
    + apply xs_ret. apply xi_return.
  - inv R. destruct S1 as (J & e1 & pf1 & F1 & K1). apply K1.
    assert (Hk : used ko = true) by (apply Hu1; exact J).
    assert (He : e1 ko = (pos m, tix m)).
    { rewrite F1 by lia. unfold x1. rewrite Hk, orb_true_r. cbn [setenv xenv]. rewrite Nat.eqb_refl. reflexivity. }
    eapply (jump_at body (mc ++ sv ++ cip ++ mt ++ [SReturn true])).
    + unfold mc, sv, mt. rewrite !toplbls_app. intros X.
      apply in_app_or in X. destruct X as [X|X]; [destruct (o_ast o); destruct X|].
      apply in_app_or in X. destruct X as [X|X]; [destruct (o_ast o || used ko)%bool; cbn in X; tauto|].
      apply in_app_or in X. destruct X as [X|X]; [apply top_in_all in X; specialize (A2 _ X); lia|].
      apply in_app_or in X. destruct X as [X|X]; [destruct (o_ast o); cbn in X; tauto|cbn in X; tauto].
    + unfold body, tlk. rewrite Hk. rewrite <- !app_assoc. reflexivity.
    + destruct (o_ast o) eqn:East; cbn [app].
      * eapply xs_fall; [apply xi_memo|]. eapply xs_fall; [apply xi_restore|]. apply xs_ret.
        cbn [xm setm xenv]. rewrite He. cbn [fst snd]. apply xi_return.
      * eapply xs_fall; [apply xi_restore|]. apply xs_ret. cbn [xm setm xenv]. rewrite He. cbn [fst snd]. apply xi_return.
Qed.

(** ** the whole program *)
Definition table_ok (nf : nat) : Prop :=
  forall r, o_inline o r = false -> callable r = true -> (exists b, nth_error g r = Some b /\ b <> RNil) ->
    exists ko body lb, fn r = Some body /\ srule nf r ko = (body, lb) /\ rdeep nf r = true /\
                       (forall j, In j (sjumps body) -> used j = true).

Theorem program_sound nf : table_ok nf -> forall n, SoundLe n /\ calls_ok n.
Proof.
  intros Ht.
  assert (Hcall : forall n, SoundE n -> calls_ok n).
  { intros n IH r m res Hinl Hcl Hex R. destruct (Ht r Hinl Hcl Hex) as (ko & body & lb & Ef & Es & Hd & Hu).
    pose proof (fn_sound n IH nf r ko body lb Es Hd Hu m res R) as X.
    destruct res as [|b m']; [eapply xcall_crash; eassumption|eapply xcall_ret; eassumption]. }
  induction n as [|n [IHle IHc]].
  - assert (E0 : SoundE 0) by (intros nf0 e ko pd mk l ce l1 ll _ _ _ m res R; discriminate R).
    split; [intros k Hk; replace k with 0 by lia; exact E0|apply Hcall; exact E0].
  - pose proof (sound_step n IHle IHc) as ES. split; [|apply Hcall; exact ES].
    intros k Hk. destruct (Nat.eq_dec k (S n)) as [->|N]; [exact ES|apply IHle; lia].
Qed.

(** the parser entry: calling the function of rule r does what the machine's rule function does *)
Corollary rule_function_sound nf : table_ok nf -> forall n r m res,
  o_inline o r = false -> callable r = true -> (exists b, nth_error g r = Some b /\ b <> RNil) ->
  rule_fn g o (run n) r m = Some res -> xcall r m res.
Proof. intros Ht n r m res Hinl Hcl Hex R. exact (proj2 (program_sound nf Ht n) r m res Hinl Hcl Hex R). Qed.

End Sound.
