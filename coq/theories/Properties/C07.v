(** C07: -noast parsers accept the same language and feed captures to inline actions. *)
From PegV Require Import Base.Tac Spec.Syntax Spec.Peg Spec.WF Model.Machine Model.Runtime Model.Gen Proofs.Top Properties.Example.

(** A parser generated with -noast (with any -inline decision; with -switch the grammar term is the
    optimised tree, as in C02) returns the verdict and consumes the prefix of the PEG semantics - the
    same as the default parser by C01.  Its actions run inline when reached: the action log equals
    Execute's loop applied to every event of the attempt in time order (abandoned branches and
    lookahead included), so that each action sees the most recently completed capture. *)
Theorem C07_noast_language_and_actions :
  forall g ptx buf penv, good_grammar g -> good_buf buf -> good_switches g ->
  (forall rb, nth_error g ptx = Some rb -> rb = RNil) ->
  forall inline n r st0 rr,
    o_inline (mk_opts false false inline g) r = false ->
    peg_parse g ptx buf penv n r = Some rr ->
    exists st', machine_noast g ptx buf penv inline n r st0 = Some (Ret (match fst rr with Fail => false | Succ _ _ => true end) st') /\
      alog st' = execute g ptx (snd rr) (text st0) /\
      match fst rr with Succ p _ => pos st' = p /\ p <= length buf | Fail => True end.
Proof. exact c07_noast. Qed.
Print Assumptions C07_noast_language_and_actions.

(** non-vacuity: on "aby" the action of the abandoned first alternative R1 'x' DOES run inline
    (three times in all: once per attempt of R1), each time with text = [0,2) *)
Example C07_nonvacuous :
  exists st, machine_noast ex_g ex_ptx ex_in_ok (std_penv ex_in_ok) false 60 0 zero_state = Some (Ret true st) /\
    pos st = 3 /\ alog st = [(0, (0, 2)); (0, (0, 2))].
Proof. eexists. split; [vm_compute; reflexivity|]. vm_compute. split; reflexivity. Qed.
