(** C07: -noast parsers accept the same language and feed captures to inline actions. *)
From PegV Require Import Base.Tac Spec.Syntax Spec.Peg Spec.WF Model.Machine Model.Runtime Model.Optimize Model.Gen
  Model.Analyses Model.Emit Model.SEmit Model.Exec Proofs.OptSound Proofs.Top Proofs.OptTop Proofs.SEmitFile Proofs.EmitUse Proofs.DeepDefault Proofs.CountInline Proofs.OptClosed Proofs.ParseTop Properties.Example.
Local Open Scope nat_scope.

(** A parser generated with -noast (with any -inline decision; with -switch the grammar term is the
    optimised tree, as in C02) returns the verdict and consumes the prefix of the PEG semantics - the
    same as the default parser by C01.  Its actions run inline when reached: the action log equals
    Execute's loop applied to every event of the attempt in time order (abandoned branches and
    lookahead included), so that each action sees the most recently completed capture. *)
Theorem C07_noast_language_and_actions :
  forall g ptx buf penv, good_grammar g -> good_buf buf -> good_switches g ->
  (forall rb, nth_error g ptx = Some rb -> rb = RNil) ->
  forall inline n r st0 rr,
    o_inline (mk_opts false false inline g) r = false ->
    peg_parse g ptx buf penv n r = Some rr ->
    exists st', machine_noast g ptx buf penv inline n r st0 = Some (Ret (match fst rr with Fail => false | Succ _ _ => true end) st') /\
      alog st' = execute g ptx (snd rr) (text st0) /\
      match fst rr with Succ p _ => pos st' = p /\ p <= length buf | Fail => True end.
Proof. exact c07_noast. Qed.
Print Assumptions C07_noast_language_and_actions.

(** ... and for the statements of the generated -noast file (Model/SEmit.v under the goto semantics of
    Model/Exec.v, see C01): the action texts are pasted into the rule functions ([SLogAct k]) and captures set the
    text register ([SCapture n]: begin := positionN; end := position; text = ...).  Calling the entry's function
    in a reset parser returns the verdict and offset of the semantics and has run the actions in the order of
    Execute's loop over every event of the attempt. *)
Theorem C07_generated_code_noast :
  forall g ptx buf penv, good_grammar g -> good_buf buf -> good_switches g ->
  forall inline n r st0 rr,
    (forall rb, nth_error g ptx = Some rb -> rb = RNil) ->
    deep_table_b g inline = true -> o_inline (mk_opts false false inline g) r = false -> reached (count_rules g) r = true ->
    peg_parse g ptx buf penv (S n) r = Some rr ->
    exists st', xcall buf penv (mk_opts false false inline g) (gen_fn_noast g ptx inline) r (reset st0)
                      (Ret (match fst rr with Fail => false | Succ _ _ => true end) st') /\
      alog st' = execute g ptx (snd rr) (text st0) /\
      match fst rr with Succ p _ => pos st' = p /\ p <= length buf | Fail => True end.
Proof. exact generated_code_noast. Qed.
Print Assumptions C07_generated_code_noast.

(** ... and that is what every execution returns (the goto semantics is deterministic, Proofs/ExecDet.v) *)
Theorem C07_generated_code_noast_every_execution :
  forall g ptx buf penv, good_grammar g -> good_buf buf -> good_switches g ->
  forall inline n r st0 rr,
    (forall rb, nth_error g ptx = Some rb -> rb = RNil) ->
    deep_table_b g inline = true -> o_inline (mk_opts false false inline g) r = false -> reached (count_rules g) r = true ->
    peg_parse g ptx buf penv (S n) r = Some rr ->
    forall res, xcall buf penv (mk_opts false false inline g) (gen_fn_noast g ptx inline) r (reset st0) res ->
      exists st', res = Ret (match fst rr with Fail => false | Succ _ _ => true end) st' /\
        alog st' = execute g ptx (snd rr) (text st0) /\
        match fst rr with Succ p _ => pos st' = p /\ p <= length buf | Fail => True end.
Proof. exact generated_code_noast_every. Qed.
Print Assumptions C07_generated_code_noast_every_execution.

(** ... with the emitter's fuel condition discharged for every grammar whose references are defined and whose choices
    have two alternatives or more (what the front end builds), under either -inline setting (Proofs/CountInline.v) *)
Theorem C07_generated_code_noast_all_options :
  forall g ptx buf penv, good_grammar g -> good_buf buf -> good_switches g -> grammar_alt2 g -> closed_names g ->
  forall inline n r st0 rr,
    (forall rb, nth_error g ptx = Some rb -> rb = RNil) ->
    o_inline (mk_opts false false inline g) r = false -> reached (count_rules g) r = true ->
    peg_parse g ptx buf penv (S n) r = Some rr ->
    forall res, xcall buf penv (mk_opts false false inline g) (gen_fn_noast g ptx inline) r (reset st0) res ->
      exists st', res = Ret (match fst rr with Fail => false | Succ _ _ => true end) st' /\
        alog st' = execute g ptx (snd rr) (text st0) /\
        match fst rr with Succ p _ => pos st' = p /\ p <= length buf | Fail => True end.
Proof. exact generated_code_noast_all_options. Qed.
Print Assumptions C07_generated_code_noast_all_options.

(** -noast together with -switch: the -noast parser of the optimised tree terminates with the verdict
    and the consumed prefix of the PEG semantics of the ORIGINAL tree - the language of the default
    parser (C01) - for every grammar with a well-formedness certificate and a consistent analysis table,
    every input of code points and every entry rule. *)
Theorem C07_noast_switch_language :
  forall g tab rank, wf_b g tab rank = true -> opt_ok_b g = true ->
  good_grammar g -> good_grammar (optimize g) -> good_switches g -> good_switches (optimize g) ->
  forall ptx buf penv, good_buf buf -> valid_buf buf ->
  forall inline r rb st0,
    (forall rb0, nth_error (optimize g) ptx = Some rb0 -> rb0 = RNil) ->
    nth_error g r = Some rb -> rb <> RNil ->
    o_inline (mk_opts false false inline (optimize g)) r = false ->
    exists n res evs st',
      peg_parse g ptx buf penv n r = Some (res, evs) /\
      machine_noast (optimize g) ptx buf penv inline n r st0 = Some (Ret (match res with Fail => false | Succ _ _ => true end) st') /\
      match res with Succ p _ => pos st' = p /\ p <= length buf | Fail => True end.
Proof. intros g tab rank Hwf Hopt Hg Hg' Hsw Hsw' ptx buf penv Hb Hv. exact (c07_noast_switch g tab rank Hwf Hopt Hg' Hsw' ptx buf penv Hb Hv). Qed.
Print Assumptions C07_noast_switch_language.

(** The same without side conditions on the analysis or on the optimised tree (Proofs/OptSwok.v). *)
Theorem C07_noast_switch_language_unconditional :
  forall g tab rank, wf_b g tab rank = true -> good_grammar g ->
  (forall r b, nth_error g r = Some (RBody b) -> ranges_ok b = true) ->
  forall ptx buf penv, good_buf buf -> valid_buf buf ->
  forall inline r rb st0,
    (forall rb0, nth_error (optimize g) ptx = Some rb0 -> rb0 = RNil) ->
    nth_error g r = Some rb -> rb <> RNil ->
    o_inline (mk_opts false false inline (optimize g)) r = false ->
    exists n res evs st',
      peg_parse g ptx buf penv n r = Some (res, evs) /\
      machine_noast (optimize g) ptx buf penv inline n r st0 = Some (Ret (match res with Fail => false | Succ _ _ => true end) st') /\
      match res with Succ p _ => pos st' = p /\ p <= length buf | Fail => True end.
Proof. exact c07_noast_switch_strong. Qed.
Print Assumptions C07_noast_switch_language_unconditional.

(** ... and for the statements of the -noast file generated from the optimised tree (-noast -switch, either -inline
    setting), with no side condition on the analysis, the optimised tree or the emitter: every execution of the entry's
    function returns the verdict and the offset of the semantics of the ORIGINAL tree (Proofs/OptClosed.v). *)
Theorem C07_generated_code_noast_switch :
  forall g tab rank, wf_b g tab rank = true -> good_grammar g ->
  (forall r b, nth_error g r = Some (RBody b) -> ranges_ok b = true) ->
  grammar_alt2 g -> closed_names g ->
  forall ptx buf penv, good_buf buf -> valid_buf buf ->
  forall inline r rb st0,
    (forall rb0, nth_error (optimize g) ptx = Some rb0 -> rb0 = RNil) ->
    nth_error g r = Some rb -> rb <> RNil ->
    o_inline (mk_opts false false inline (optimize g)) r = false -> reached (count_rules (optimize g)) r = true ->
    exists n res evs, peg_parse g ptx buf penv n r = Some (res, evs) /\
      forall out, xcall buf penv (mk_opts false false inline (optimize g)) (gen_fn_noast (optimize g) ptx inline) r (reset st0) out ->
        exists st', out = Ret (match res with Fail => false | Succ _ _ => true end) st' /\
          match res with Succ p _ => pos st' = p /\ p <= length buf | Fail => True end.
Proof. exact generated_code_noast_switch_all_options. Qed.
Print Assumptions C07_generated_code_noast_switch.

(** The language part of the property in one statement, at the level of the statements peg writes and with no side
    condition: for every grammar with a well-formedness certificate, under either -inline setting and with or without
    -switch ([tree_of sw g]), on every input and from every earlier state, the call Parse() makes in the -noast file has
    an execution, it is the only one, and it returns the verdict and the offset of the PEG semantics of the grammar as
    written - which by C01_generated_parser_correct is what the default parser returns (Proofs/ParseTop.v). *)
Theorem C07_generated_noast_parser_correct :
  forall g tab rank, wf_b g tab rank = true -> good_grammar g ->
  (forall r b, nth_error g r = Some (RBody b) -> ranges_ok b = true) ->
  grammar_alt2 g -> closed_names g ->
  forall ptx buf penv, good_buf buf -> valid_buf buf ->
  forall inline sw rb st0,
    (forall rb0, nth_error (tree_of sw g) ptx = Some rb0 -> rb0 = RNil) ->
    nth_error g 0 = Some rb -> rb <> RNil ->
    exists n res evs st',
      peg_parse g ptx buf penv n 0 = Some (res, evs) /\
      xcall buf penv (mk_opts false false inline (tree_of sw g)) (gen_fn_noast (tree_of sw g) ptx inline) 0 (reset st0)
            (Ret (match res with Fail => false | Succ _ _ => true end) st') /\
      (forall out, xcall buf penv (mk_opts false false inline (tree_of sw g)) (gen_fn_noast (tree_of sw g) ptx inline) 0 (reset st0) out ->
                   out = Ret (match res with Fail => false | Succ _ _ => true end) st') /\
      match res with Succ p _ => pos st' = p /\ p <= length buf | Fail => True end.
Proof. exact generated_noast_parser_correct. Qed.
Print Assumptions C07_generated_noast_parser_correct.

(** non-vacuity: on "aby" the action of the abandoned first alternative R1 'x' DOES run inline
    (three times in all: once per attempt of R1), each time with text = [0,2) *)
Example C07_nonvacuous :
  exists st, machine_noast ex_g ex_ptx ex_in_ok (std_penv ex_in_ok) false 60 0 zero_state = Some (Ret true st) /\
    pos st = 3 /\ alog st = [(0, (0, 2)); (0, (0, 2))].
Proof. eexists. split; [vm_compute; reflexivity|]. vm_compute. split; reflexivity. Qed.
