(** C13: generated parsers never crash or misindex on arbitrary input text. *)
From PegV Require Import Base.Tac Spec.Syntax Spec.Peg Model.Machine Model.Gen Model.Analyses Model.Emit Model.SEmit Model.Exec
  Proofs.Forest Proofs.Top Proofs.SEmitFile Properties.Example.

(** Whenever the semantics has a result, the machine returns a verdict - never [Crash], the model's
    value for a buffer read outside runes+sentinel, a call through a nil rule slot, or slicing the
    token buffer beyond its length - the final position is within the input, and every recorded
    token (or the error token) satisfies begin <= end <= number of runes. *)
Theorem C13_no_crash :
  forall g ptx buf penv, good_grammar g -> good_buf buf -> good_switches g ->
  forall memo inline n r st0 rr,
    slot_ok g inline r -> peg_parse g ptx buf penv n r = Some rr ->
    exists b st', machine g ptx buf penv memo inline n r st0 = Some (Ret b st') /\
      (b = true -> pos st' <= length buf /\ Forall (inb 0 (length buf)) (live st')) /\
      (b = false -> tok_ok (length buf) (maxtok st')).
Proof. exact c13_no_crash. Qed.
Print Assumptions C13_no_crash.

(** The same for the statements of the generated file (Model/SEmit.v under the goto semantics of Model/Exec.v, see
    C01): no execution of the entry's function ends in [OCrash] - a read of buffer[position] outside runes + sentinel,
    a call through a nil slot of the rule table, memoizedResult slicing the token buffer beyond its length. *)
Theorem C13_generated_code_never_crashes :
  forall g ptx buf penv, good_grammar g -> good_buf buf -> good_switches g ->
  forall memo inline n r st0 rr,
    deep_table_b g inline = true -> slot_ok g inline r -> reached (count_rules g) r = true ->
    peg_parse g ptx buf penv (S n) r = Some rr ->
    ~ xcall buf penv (mk_opts true memo inline g) (gen_fn g ptx inline) r (reset st0) Crash.
Proof. exact generated_code_never_crashes. Qed.
Print Assumptions C13_generated_code_never_crashes.

Example C13_nonvacuous :
  verdict_of (peg_parse ex_g ex_ptx [] (std_penv []) 60 0) = Some None /\
  mach_view (machine ex_g ex_ptx [] (std_penv []) true false 60 0 zero_state) = Some (false, 0, [], zero_tok).
Proof. vm_compute. split; reflexivity. Qed.
