(** C13: generated parsers never crash or misindex on arbitrary input text. *)
From PegV Require Import Base.Tac Spec.Syntax Spec.Peg Spec.WF Model.Machine Model.Gen Model.Analyses Model.Optimize Model.Emit Model.SEmit Model.Exec Model.Premises
  Proofs.Forest Proofs.OptSound Proofs.Top Proofs.SEmitFile Proofs.OptClosed Properties.Example.
Local Open Scope nat_scope.

(** Whenever the semantics has a result, the machine returns a verdict - never [Crash], the model's
    value for a buffer read outside runes+sentinel, a call through a nil rule slot, or slicing the
    token buffer beyond its length - the final position is within the input, and every recorded
    token (or the error token) satisfies begin <= end <= number of runes. *)
Theorem C13_no_crash :
  forall g ptx buf penv, good_grammar g -> good_buf buf -> good_switches g ->
  forall memo inline n r st0 rr,
    slot_ok g inline r -> peg_parse g ptx buf penv n r = Some rr ->
    exists b st', machine g ptx buf penv memo inline n r st0 = Some (Ret b st') /\
      (b = true -> pos st' <= length buf /\ Forall (inb 0 (length buf)) (live st')) /\
      (b = false -> tok_ok (length buf) (maxtok st')).
Proof. exact c13_no_crash. Qed.
Print Assumptions C13_no_crash.

(** The same for the statements of the generated file (Model/SEmit.v under the goto semantics of Model/Exec.v, see
    C01): no execution of the entry's function ends in [OCrash] - a read of buffer[position] outside runes + sentinel,
    a call through a nil slot of the rule table, memoizedResult slicing the token buffer beyond its length. *)
Theorem C13_generated_code_never_crashes :
  forall g ptx buf penv, good_grammar g -> good_buf buf -> good_switches g ->
  forall memo inline n r st0 rr,
    deep_table_b g inline = true -> slot_ok g inline r -> reached (count_rules g) r = true ->
    peg_parse g ptx buf penv (S n) r = Some rr ->
    ~ xcall buf penv (mk_opts true memo inline g) (gen_fn g ptx inline) r (reset st0) Crash.
Proof. exact generated_code_never_crashes. Qed.
Print Assumptions C13_generated_code_never_crashes.

(** Termination at the level of the generated statements, with no hypothesis that the semantics has a result: for every
    grammar with a well-formedness certificate (no left recursion, no loop over an expression that can succeed without
    consuming), two alternatives per choice and every reference defined, on EVERY input and from EVERY earlier parser
    state the entry's function has an execution, that execution returns a verdict - no crash, no divergence - and no
    other execution exists (Ford's totality, [generated_code_is_peg], determinism of the goto semantics;
    Proofs/OptClosed.v).  The second theorem is the same for the file generated from the optimised tree (-switch). *)
Theorem C13_generated_code_terminates :
  forall g tab rank, wf_b g tab rank = true -> good_grammar g -> good_switches g -> grammar_alt2 g -> closed_names g ->
  forall ptx buf penv, good_buf buf ->
  forall memo inline r rb st0,
    nth_error g r = Some rb -> rb <> RNil -> slot_ok g inline r -> reached (count_rules g) r = true ->
    exists b st', xcall buf penv (mk_opts true memo inline g) (gen_fn g ptx inline) r (reset st0) (Ret b st') /\
      forall res, xcall buf penv (mk_opts true memo inline g) (gen_fn g ptx inline) r (reset st0) res -> res = Ret b st'.
Proof. exact generated_code_terminates. Qed.
Print Assumptions C13_generated_code_terminates.

Theorem C13_generated_code_switch_terminates :
  forall g tab rank, wf_b g tab rank = true -> good_grammar g ->
  (forall r b, nth_error g r = Some (RBody b) -> ranges_ok b = true) ->
  grammar_alt2 g -> closed_names g ->
  forall ptx buf penv, good_buf buf -> valid_buf buf ->
  forall memo inline r rb st0,
    nth_error g r = Some rb -> rb <> RNil ->
    slot_ok (optimize g) inline r -> reached (count_rules (optimize g)) r = true ->
    exists b st', xcall buf penv (mk_opts true memo inline (optimize g)) (gen_fn (optimize g) ptx inline) r (reset st0) (Ret b st') /\
      forall res, xcall buf penv (mk_opts true memo inline (optimize g)) (gen_fn (optimize g) ptx inline) r (reset st0) res -> res = Ret b st'.
Proof. exact generated_code_switch_terminates. Qed.
Print Assumptions C13_generated_code_switch_terminates.

(** ... and for the -noast file *)
Theorem C13_generated_code_noast_terminates :
  forall g tab rank, wf_b g tab rank = true -> good_grammar g -> good_switches g -> grammar_alt2 g -> closed_names g ->
  forall ptx buf penv, good_buf buf ->
  forall inline r rb st0,
    (forall rb0, nth_error g ptx = Some rb0 -> rb0 = RNil) ->
    nth_error g r = Some rb -> rb <> RNil ->
    o_inline (mk_opts false false inline g) r = false -> reached (count_rules g) r = true ->
    exists b st', xcall buf penv (mk_opts false false inline g) (gen_fn_noast g ptx inline) r (reset st0) (Ret b st') /\
      forall res, xcall buf penv (mk_opts false false inline g) (gen_fn_noast g ptx inline) r (reset st0) res -> res = Ret b st'.
Proof. exact generated_code_noast_terminates. Qed.
Print Assumptions C13_generated_code_noast_terminates.

(** non-vacuity: the example grammar meets the premises of the termination theorems *)
Example C13_terminates_nonvacuous :
  wf_auto ex_g = true /\ good_grammar_b ex_g = true /\ grammar_alt2_b ex_g = true /\ closed_names_b ex_g = true /\
  reached (count_rules ex_g) 0 = true.
Proof. vm_compute. repeat split; reflexivity. Qed.

Example C13_nonvacuous :
  verdict_of (peg_parse ex_g ex_ptx [] (std_penv []) 60 0) = Some None /\
  mach_view (machine ex_g ex_ptx [] (std_penv []) true false 60 0 zero_state) = Some (false, 0, [], zero_tok).
Proof. vm_compute. split; reflexivity. Qed.
