(** C16: the set package behaves as a mathematical set of code points.
    Only statements, [exact], [Print Assumptions] and non-vacuity examples live here. *)
From PegV Require Import Base.Tac Model.SetImpl Proofs.SetProofs.
Open Scope Z_scope.

(** Every store reachable by a sequence of New / AddRange / Copy / Union / Complement calls
    (arguments: 0 <= begin <= end, 0 <= limit) holds, entry by entry, a representation that
    satisfies the invariant and denotes exactly the set of integers the same sequence builds
    mathematically; an operation changes no entry other than the one it is specified to change
    ([srun] updates pointwise). *)
Theorem C16_store_refines_math :
  forall ops, ops_okb 0 ops = true -> refines (run ops) (srun ops).
Proof. exact store_refines. Qed.
Print Assumptions C16_store_refines_math.

(** The observers report what the set of integers would, on every representation satisfying
    the invariant (hence on every reachable set). *)
Theorem C16_has : forall s x, Inv s -> has s x = mem s x.
Proof. intros s x H. exact (has_spec s 0 x H). Qed.
Print Assumptions C16_has.

Theorem C16_len : forall s, Inv s -> len s = Z.of_nat (length (elements s)).
Proof. intros s H. exact (len_spec s 0 H). Qed.
Print Assumptions C16_len.

Theorem C16_string_elements :
  forall s, Inv s -> ascending_from 0 (elements s) /\ forall x, In x (elements s) <-> mem s x = true.
Proof. intros s H. split; [exact (elements_ascending s 0 H) | intro x; exact (elements_mem s x)]. Qed.
Print Assumptions C16_string_elements.

Theorem C16_union : forall s a x, Inv s -> Inv a -> Inv (union s a) /\ mem (union s a) x = mem s x || mem a x.
Proof. intros s a x Hs Ha. split; [exact (union_inv s a Hs Ha) | exact (union_mem s a x Hs Ha)]. Qed.
Print Assumptions C16_union.

Theorem C16_complement : forall s lim x, Inv s -> 0 <= lim ->
  Inv (complement s lim) /\ mem (complement s lim) x = (0 <=? x) && (x <=? lim) && negb (mem s x).
Proof. intros s lim x Hs Hl. split; [exact (complement_inv s lim Hs Hl) | exact (complement_mem s lim x Hs Hl)]. Qed.
Print Assumptions C16_complement.

Theorem C16_intersects : forall s b, Inv s -> Inv b ->
  (intersects s b = true <-> exists x, mem s x = true /\ mem b x = true).
Proof. exact intersects_spec. Qed.
Print Assumptions C16_intersects.

Theorem C16_equal_extensional : forall s a, Inv s -> Inv a ->
  (equal s a = true <-> forall x, mem s x = mem a x).
Proof. exact equal_spec. Qed.
Print Assumptions C16_equal_extensional.

(** Non-vacuity: a non-trivial op sequence meets the hypothesis, and the reachable sets are non-trivial. *)
Example C16_nonvacuous :
  let ops := [ONew; OAddRange 0 5 6; OAddRange 0 1 2; OAddRange 0 3 4; OComplement 0 9; OUnion 0 1; OCopy 2] in
  ops_okb 0 ops = true /\ run ops = [[(1, 6)]; [(0, 0); (7, 9)]; [(0, 9)]; [(0, 9)]].
Proof. vm_compute. split; reflexivity. Qed.
