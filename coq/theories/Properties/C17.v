(** C17: bootstrap chain and self-regeneration converge on the checked-in front end.
    What Coq decides: facts about peg.peg's own rule trees (regenerated on every run by dumping what the
    real front end + Compile build, Generated/PegPeg.v) and the corollaries of C01/C02 at these terms, for
    EVERY grammar text.  Byte-level convergence of the chain of go-run processes and the agreement of the
    shipped grammars on their samples are execution facts, decided by the check itself. *)
From PegV Require Import Base.Tac Spec.Syntax Spec.Peg Spec.WF Model.Machine Model.SkipCheck Model.Optimize Model.Gen
  Proofs.OptSound Proofs.Top Proofs.OptTop Generated.PegPeg.

(** peg.peg is a well-formed grammar, its trees contain only code-point literals, and every switch of
    the -inline -switch tree is well guarded *)
Theorem C17_pegpeg_wellformed :
  wf_auto pegpeg_d = true /\ good_grammar_b pegpeg_d = true /\ good_switches_b pegpeg_d = true /\
  wf_auto pegpeg_is = true /\ good_grammar_b pegpeg_is = true /\ good_switches_b pegpeg_is = true.
Proof. vm_compute. repeat split; reflexivity. Qed.
Print Assumptions C17_pegpeg_wellformed.

(** Hence, for EVERY text (rune list) and either tree: the front end terminates with exactly the verdict
    and consumed prefix of the PEG semantics of that tree, whatever the memo / inline decisions and the
    previous state of the parser object - not only on the grammars that were tried. *)
Theorem C17_frontend_total :
  forall (g : grammar), g = pegpeg_d \/ g = pegpeg_is ->
  forall ptx buf penv memo inline st0, good_buf buf -> slot_ok g inline 0 ->
    exists n rr b st', peg_parse g ptx buf penv n 0 = Some rr /\
      machine g ptx buf penv memo inline n 0 st0 = Some (Ret b st') /\
      (b = true <-> exists p f, fst rr = Succ p f /\ pos st' = p).
Proof.
  intros g Hg ptx buf penv memo inline st0 Hb Hs.
  destruct C17_pegpeg_wellformed as (W1 & G1 & S1 & W2 & G2 & S2).
  destruct Hg as [-> | ->].
  - destruct (nth_error pegpeg_d 0) as [rb|] eqn:E; [|vm_compute in E; discriminate].
    eapply (c01_total_machine pegpeg_d ptx buf penv (good_grammar_b_ok _ G1) Hb (good_switches_b_ok _ S1)
              (nul_table pegpeg_d) (rank_table pegpeg_d (nul_table pegpeg_d)) memo inline 0 rb st0); auto.
    intros ->. vm_compute in E. discriminate.
  - destruct (nth_error pegpeg_is 0) as [rb|] eqn:E; [|vm_compute in E; discriminate].
    eapply (c01_total_machine pegpeg_is ptx buf penv (good_grammar_b_ok _ G2) Hb (good_switches_b_ok _ S2)
              (nul_table pegpeg_is) (rank_table pegpeg_is (nul_table pegpeg_is)) memo inline 0 rb st0); auto.
    intros ->. vm_compute in E. discriminate.
Qed.
Print Assumptions C17_frontend_total.

(** The -inline -switch tree that the implementation builds for peg.peg IS the model's optimiser applied
    to the default tree, and the analysis table of peg.peg is consistent. *)
Theorem C17_switch_tree_is_optimize : optimize pegpeg_d = pegpeg_is /\ opt_ok_b pegpeg_d = true.
Proof. vm_compute. split; reflexivity. Qed.
Print Assumptions C17_switch_tree_is_optimize.

(** Hence a front end regenerated with -switch (with or without -inline, memoised or not) and the
    default one read EVERY grammar text alike: same verdict, same consumed prefix, same token
    sequence - therefore the same syntax tree handed to the actions that build the rule tree. *)
Theorem C17_frontends_agree :
  forall ptx buf penv memo memo' inline inline' st0 st0',
    good_buf buf -> valid_buf buf -> slot_ok pegpeg_d inline 0 -> slot_ok pegpeg_is inline' 0 ->
    exists n b st1 st2,
      machine pegpeg_d ptx buf penv memo inline n 0 st0 = Some (Ret b st1) /\
      machine pegpeg_is ptx buf penv memo' inline' n 0 st0' = Some (Ret b st2) /\
      (b = true -> pos st1 = pos st2 /\ Machine.live st1 = Machine.live st2).
Proof.
  intros ptx buf penv memo memo' inline inline' st0 st0' Hb Hv Hs Hs'.
  destruct C17_pegpeg_wellformed as (W1 & G1 & S1 & W2 & G2 & S2).
  destruct C17_switch_tree_is_optimize as (Eo & Ho).
  destruct (nth_error pegpeg_d 0) as [rb|] eqn:E; [|vm_compute in E; discriminate].
  rewrite <- Eo in *.
  eapply (c02_switch_invisible pegpeg_d (nul_table pegpeg_d) (rank_table pegpeg_d (nul_table pegpeg_d)) W1 Ho
            (good_grammar_b_ok _ G1) (good_grammar_b_ok _ G2) (good_switches_b_ok _ S1) (good_switches_b_ok _ S2)
            ptx buf penv Hb Hv memo memo' inline inline' 0 rb st0 st0' E); auto.
  intros ->. vm_compute in E. discriminate.
Qed.
Print Assumptions C17_frontends_agree.
