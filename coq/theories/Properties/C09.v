(** C09: code generation is deterministic and free of data races. *)
From PegV Require Import Base.Tac Model.Conc Proofs.ConcProofs Generated.Footprints.

(** General theorem (sequentially consistent interleaving model): two programs of atomic actions, each
    action respecting its declared footprint, such that no action of one writes a cell the other reads
    or writes: every interleaving ends in the store of running one after the other, and no two steps
    of different programs conflict. *)
Theorem C09_sections_commute :
  forall V p1 p2 l, interleaving V p1 p2 l ->
    Forall (respects V) p1 -> Forall (respects V) p2 ->
    (forall a b, In a p1 -> In b p2 -> no_conflict V a b) ->
    forall s, seq_eq V (run V l s) (run V (p1 ++ p2) s).
Proof. exact interleavings_commute. Qed.
Print Assumptions C09_sections_commute.

(** Instance at the footprints regenerated from tree/peg.go on every run: Compile starts exactly two
    goroutines (reference counting / reachability, and the left-recursion walk); what either writes,
    the other neither reads nor writes.  Hence any two action sequences staying inside these
    footprints satisfy the hypothesis of the theorem above. *)
Theorem C09_compile_race_free :
  goroutines = 2 /\
  disjoint g1_writes (g2_reads ++ g2_writes) /\ disjoint g2_writes (g1_reads ++ g1_writes).
Proof.
  split; [reflexivity|]. split; apply disjoint_b_ok; vm_compute; reflexivity.
Qed.
Print Assumptions C09_compile_race_free.

Theorem C09_footprints_imply_no_conflict :
  forall V (a b : action V),
    incl (a_reads V a) g1_reads -> incl (a_writes V a) g1_writes ->
    incl (a_reads V b) g2_reads -> incl (a_writes V b) g2_writes ->
    no_conflict V a b.
Proof.
  intros V a b Ra Wa Rb Wb. destruct C09_compile_race_free as (_ & D1 & D2).
  split; intros k Hk Hk2.
  - apply (D1 k (Wa k Hk)). apply in_app_or in Hk2 as [H|H]; apply in_or_app; [left; apply Rb|right; apply Wb]; exact H.
  - apply (D2 k (Wb k Hk)). apply in_app_or in Hk2 as [H|H]; apply in_or_app; [left; apply Ra|right; apply Wa]; exact H.
Qed.
Print Assumptions C09_footprints_imply_no_conflict.

(** No iteration over a map and no other source of run-to-run variation (time, random numbers,
    environment, pointer formatting) in tree/*.go and set/*.go: with the goroutines commuting, the
    output is a function of (tree, options, arguments). *)
Theorem C09_no_nondeterminism_source : map_ranges = [] /\ nondet_sources = [].
Proof. split; reflexivity. Qed.
Print Assumptions C09_no_nondeterminism_source.
