(** C10: documented .peg syntax means what the docs say; malformed text is rejected.
    Coq decides: the stack discipline of the tree builder for every well-formed surface expression, and
    the escape table.  That the real front end (a generated parser + these builder calls) maps every
    spelling of a construct to the tree [elab] computes, and rejects malformed text, is decided by the
    correspondence run (spelling variants, malformed-by-construction texts). *)
From PegV Require Import Base.Tac Spec.Syntax Model.Front Proofs.FrontProofs.
Open Scope Z_scope.

(** For every surface expression without empty literals / classes / lists, the builder calls peg.peg's
    actions make for it (flattening sequences and choices, expanding double-quoted letters and [[...]]
    ranges into lower/upper choices, [^...] into !class followed by dot) never pop an empty stack and
    leave exactly one node on top of whatever was on the stack: nesting and precedence are preserved. *)
Theorem C10_builder_stack_discipline :
  forall t, sx_ok t = true -> exists e, forall stk, brun (ops_of t) stk = Some (e :: stk).
Proof. exact builder_stack_discipline. Qed.
Print Assumptions C10_builder_stack_discipline.

(** \0x escapes: every spelling whose value is a Unicode scalar value denotes that code point *)
Theorem C10_hex_escapes :
  forall ds, valid_scalar (digits_value 16 ds) -> add_hexa ds = digits_value 16 ds.
Proof. exact hex_exact. Qed.
Print Assumptions C10_hex_escapes.

(** octal escapes \0 .. \377 (one, two and three digits: 8 + 64 + 256 spellings) denote their value *)
Theorem C10_octal_escapes :
  forall ds, In ds octal_spellings -> add_octal ds = digits_value 8 ds.
Proof.
  intros ds H. pose proof (proj1 (forallb_forall _ _) octal_exact ds H) as E. apply Z.eqb_eq in E. exact E.
Qed.
Print Assumptions C10_octal_escapes.

(** non-vacuity: ("ab" / [^x-z\0x41]) 'c'   flattens into the enclosing sequence only where addList does *)
Example C10_nonvacuous :
  elab (XSeq [XGroup (XAlt [XILit [SC 97; SC 98]; XClass true false [CRange (SC 120) (SC 122); CChar (SHex [4; 1])]] false); XLit [SC 99]])
  = Some (ESeq [EAlt [ESeq [EAlt [EChar 97; EChar 65]; EAlt [EChar 98; EChar 66]];
                      ESeq [ENot (EAlt [ERange 120 122; EChar 65]); EDot]]; EChar 99]) /\
  length octal_spellings = 328%nat /\ add_octal [3; 7; 7] = 255.
Proof. vm_compute. repeat split; reflexivity. Qed.
