(** C10: documented .peg syntax means what the docs say; malformed text is rejected.
    Coq decides: the stack discipline of the tree builder for every well-formed surface expression, the
    escape table, and - for every expression as written, with any layout and any spelling of its characters -
    that the front end's own grammar (Generated/PegPeg.v, regenerated from peg.peg on every run) reads the
    text back and makes exactly the builder calls that build the tree the expression denotes; the same for a
    whole file (header comments, package, imports, parser type and state, the rules with either arrow).  The
    rejection of malformed text, and that the Go builder does what Model/Front.v and Reader/FileBridge.v say
    it does, are decided by the correspondence run. *)
From PegV Require Import Base.Tac Spec.Syntax Spec.Peg Proofs.PegRel Model.Calls Model.Front Proofs.FrontProofs
  Generated.PegPeg Reader.Base Reader.Lex Reader.Chars Reader.Lits Reader.Expr Reader.Bridge Reader.BridgeDefs Reader.File Reader.FileBridge Reader.Reject Reader.RejectImport Reader.Safe Reader.Top Reader.Shipped.
From PegV Require Import Model.Machine Model.Gen Proofs.OptSound Proofs.Top.
Open Scope Z_scope.

(** For every surface expression without empty literals / classes / lists, the builder calls peg.peg's
    actions make for it (flattening sequences and choices, expanding double-quoted letters and [[...]]
    ranges into lower/upper choices, [^...] into !class followed by dot) never pop an empty stack and
    leave exactly one node on top of whatever was on the stack: nesting and precedence are preserved. *)
Theorem C10_builder_stack_discipline :
  forall t, sx_ok t = true -> exists e, forall stk, brun (ops_of t) stk = Some (e :: stk).
Proof. exact builder_stack_discipline. Qed.
Print Assumptions C10_builder_stack_discipline.

(** \0x escapes: every spelling whose value is a Unicode scalar value denotes that code point *)
Theorem C10_hex_escapes :
  forall ds, valid_scalar (digits_value 16 ds) -> add_hexa ds = digits_value 16 ds.
Proof. exact hex_exact. Qed.
Print Assumptions C10_hex_escapes.

(** octal escapes \0 .. \377 (one, two and three digits: 8 + 64 + 256 spellings) denote their value *)
Theorem C10_octal_escapes :
  forall ds, In ds octal_spellings -> add_octal ds = digits_value 8 ds.
Proof.
  intros ds H. pose proof (proj1 (forallb_forall _ _) octal_exact ds H) as E. apply Z.eqb_eq in E. exact E.
Qed.
Print Assumptions C10_octal_escapes.

(** The reader, expression level.  [e] is an expression as written: every token with the blanks, line ends and
    comments behind it, characters raw or as one of the documented escapes (either letter case), \0x hex or
    octal; [wf e] says that the precedence levels nest (alternation < sequence < prefix < suffix < primary),
    that braces in action text balance and that each spelling is one the scanner reads back as written (a digit
    run is not followed by another digit, a name is not glued to the next one ...).  Then peg.peg's own rule
    tree, under the reference semantics, accepts exactly the text [show e] from the rule Expression, the calls
    its actions make while Execute() walks the derivation are [xcalls e], and the tree builder, given those
    calls, leaves the single node [elab (erase e)] - the tree Model/Front.v says the construct denotes:
    'x' case-sensitive, "x" and [[x]] both cases, [^...] as !class followed by dot, escapes by their code point,
    both arrow and comment spellings irrelevant (they are layout), nesting by precedence. *)
Theorem C10_reader_expression :
  forall (nm ak : list rune -> nat) penv e, wf e ->
  exists n f evs tree,
    peg_ev pegpeg_d pegpeg_d_ptx (show e) penv n (EName pr_Expression) 0 = Some (Succ (length (show e)) f, evs) /\
    calls_of_forest (show e) f = xcalls e /\
    build nm ak (xcalls e) [] = Some [tree] /\ elab (erase nm ak e) = Some tree.
Proof. exact reader_expression. Qed.
Print Assumptions C10_reader_expression.

(** ... and inside any text: wherever [show e] stands in the input, followed by something that cannot continue
    it (no suffix operator, no slash, nothing that starts a Prefix, no arrow, no letter glued to a final name) *)
Theorem C10_reader_expression_in_context :
  forall (nm ak : list rune -> nat) penv buf e rest p,
  wf e -> At buf p (show e ++ rest) -> fol buf penv (p + length (show e))%nat rest ->
  (glue e = true -> not_icont_head rest) ->
  ko pegpeg_d pegpeg_d_ptx buf penv (EName pr_Prefix) (p + length (show e))%nat ->
  ko pegpeg_d pegpeg_d_ptx buf penv (EName pr_Slash) (p + length (show e))%nat -> head_ne 47 rest ->
  exists n f evs tree,
    peg_ev pegpeg_d pegpeg_d_ptx buf penv n (EName pr_Expression) p = Some (Succ (p + length (show e))%nat f, evs) /\
    calls_of_forest buf f = xcalls e /\
    (forall stk, build nm ak (xcalls e) stk = Some (tree :: stk)) /\ elab (erase nm ak e) = Some tree.
Proof. exact reader_expression_in_context. Qed.
Print Assumptions C10_reader_expression_in_context.

(** The reader, file level.  [f] is a grammar file as written: comments and blank runs before "package", the
    package name, imports (single or grouped, with or without alias), "type" Name "Peg" { state }, and one or more
    rules  name arrow expression  with either arrow spelling, each token with its layout.  peg.peg's own rule
    tree reads all of [fshow f] from the rule Grammar, its actions make the calls [fcalls f], and the builder
    (expression stack + the node under construction, tree/peg.go AddRule ... AddExpression, AddPeg/AddState)
    is left with exactly the nodes the file denotes, every rule with the tree of its expression. *)
Theorem C10_reader_file :
  forall (nm ak : list rune -> nat) penv f, file_ok f ->
  exists n fo evs nodes,
    peg_ev pegpeg_d pegpeg_d_ptx (fshow f) penv n (EName pr_Grammar) 0 = Some (Succ (length (fshow f)) fo, evs) /\
    calls_of_forest (fshow f) fo = fcalls f /\
    frun nm ak (fcalls f) finit = Some {| back := nodes; pend := None; stk := []; pegn := None |} /\
    file_nodes nm ak f = Some nodes.
Proof. exact reader_file. Qed.
Print Assumptions C10_reader_file.

(** ... and for the parser that is shipped: the machine (Model/Machine.v, the model of the generated Go code that
    C01-C06 tie to the implementation) of the -inline -switch tree the front end is generated from, memoised or
    not, accepts the text of every well-formed file whose characters are code points other than the end symbol;
    Execute() over its tokens makes the calls of the file.  (reader_file + optimize_sound + the machine theorems,
    at the regenerated trees.) *)
Theorem C10_reader_file_shipped :
  forall (nm ak : list rune -> nat) penv f memo inline st0,
  file_ok f -> good_buf (fshow f) -> valid_buf (fshow f) -> slot_ok pegpeg_is inline 0 ->
  exists n st' nodes,
    machine pegpeg_is pegpeg_is_ptx (fshow f) penv memo inline n 0 st0 = Some (Ret true st') /\
    calls_of_tokens pegpeg_is pegpeg_is_ptx (fshow f) (live st') = fcalls f /\
    frun nm ak (fcalls f) finit = Some {| back := nodes; pend := None; stk := []; pegn := None |} /\
    file_nodes nm ak f = Some nodes.
Proof. exact reader_file_shipped. Qed.
Print Assumptions C10_reader_file_shipped.

(** ** malformed text
    Three families of text that is not a grammar, each refused by peg.peg's own rule tree under the reference
    semantics (the rule Grammar fails) and hence, by [C10_rejected_by_shipped_parser], by the parser that is
    shipped (Parse() returns an error): a well-formed file followed by a character that starts nothing - a closing
    bracket, '=', ',', ';', '|', a non-ASCII character ... -, by a literal, group, capture, action or class that is opened and
    never closed (a rule ends only before another rule or at the end of the text); a text whose first token after comments and blank lines is not the word "package" (the empty text
    and a text of comments only included); a text with no rule behind the parser type. *)
Theorem C10_rejects_trailing_text :
  forall penv f c m, file_ok f -> junk_head c = true ->
  exists n evs, peg_ev pegpeg_d pegpeg_d_ptx (fshow f ++ c :: m) penv n (EName pr_Grammar) 0 = Some (Fail, evs).
Proof. intros penv f c m Hf Hj. exact (grammar_rejects_trailing _ penv f c m Hf Hj eq_refl). Qed.
Print Assumptions C10_rejects_trailing_text.

(** ... or by a literal that is opened and never closed (a single or a double quote with no second one in the rest
    of the text): however the characters behind the quote are read, the closing quote is not found; every parsing
    expression of the rule tree has a result (Proofs/Total.v), so nothing is assumed about them. *)
Theorem C10_rejects_unclosed_literal :
  forall penv f c s, file_ok f -> c = 39 \/ c = 34 -> ~ In c s ->
  exists n evs, peg_ev pegpeg_d pegpeg_d_ptx (fshow f ++ c :: s) penv n (EName pr_Grammar) 0 = Some (Fail, evs).
Proof. intros penv f c s Hf Hc Hn. exact (grammar_rejects_unclosed_quote _ penv f c s Hf Hc Hn eq_refl). Qed.
Print Assumptions C10_rejects_unclosed_literal.

(** ... or by a group, a capture, an action or a class that is opened and never closed *)
Theorem C10_rejects_unclosed_bracket :
  forall penv f o s, file_ok f ->
  (o = 40 /\ ~ In 41 s) \/ (o = 60 /\ ~ In 62 s /\ head_ne 45 s) \/ (o = 123 /\ ~ In 125 s) \/ (o = 91 /\ ~ In 93 s) ->
  exists n evs, peg_ev pegpeg_d pegpeg_d_ptx (fshow f ++ o :: s) penv n (EName pr_Grammar) 0 = Some (Fail, evs).
Proof. intros penv f o s Hf Ho. exact (grammar_rejects_unclosed_bracket _ penv f o s Hf Ho eq_refl). Qed.
Print Assumptions C10_rejects_unclosed_bracket.

(** ... or by a prefix operator with nothing to apply to: & or ! and then only blanks and comments to the end *)
Theorem C10_rejects_dangling_prefix :
  forall penv f o l, file_ok f -> o = 38 \/ o = 33 -> lay l ->
  exists n evs, peg_ev pegpeg_d pegpeg_d_ptx (fshow f ++ o :: l) penv n (EName pr_Grammar) 0 = Some (Fail, evs).
Proof. intros penv f o l Hf Ho Hl. exact (grammar_rejects_dangling_prefix _ penv f o l Hf Ho Hl eq_refl). Qed.
Print Assumptions C10_rejects_dangling_prefix.

Theorem C10_rejects_text_without_package :
  forall penv hdr tl, header_ok hdr tl -> stop tl -> (forall r, tl <> kw_package ++ r) ->
  exists n evs, peg_ev pegpeg_d pegpeg_d_ptx (flat_map hshow hdr ++ tl) penv n (EName pr_Grammar) 0 = Some (Fail, evs).
Proof. intros penv hdr tl Hh Hst N. exact (grammar_rejects_no_package _ penv hdr tl Hh Hst N eq_refl). Qed.
Print Assumptions C10_rejects_text_without_package.

Theorem C10_rejects_text_without_rules :
  forall penv f J, head_ok f -> stop J -> (forall c r, J = c :: r -> is_istart c = false) ->
  exists n evs, peg_ev pegpeg_d pegpeg_d_ptx (head_text f ++ J) penv n (EName pr_Grammar) 0 = Some (Fail, evs).
Proof. intros penv f J Hf HJ Hn. exact (grammar_rejects_no_rules _ penv f J Hf HJ Hn eq_refl). Qed.
Print Assumptions C10_rejects_text_without_rules.

Theorem C10_rejected_by_shipped_parser :
  forall penv buf memo inline st0,
  (exists n evs, peg_ev pegpeg_d pegpeg_d_ptx buf penv n (EName pr_Grammar) 0 = Some (Fail, evs)) ->
  good_buf buf -> valid_buf buf -> slot_ok pegpeg_is inline 0 ->
  exists n st', machine pegpeg_is pegpeg_is_ptx buf penv memo inline n 0 st0 = Some (Ret false st').
Proof. exact rejected_shipped. Qed.
Print Assumptions C10_rejected_by_shipped_parser.

(** non-vacuity: the sample file followed by ")" and by "'ab" and by "('a' x" ; "type T Peg {}" alone; the sample's head with nothing behind *)
Example C10_reject_nonvacuous :
  junk_head 41 = true /\ junk_head 61 = true /\ junk_head 233 = true /\ junk_head 97 = false /\ junk_head 32 = false /\
  fst (match peg_ev pegpeg_d pegpeg_d_ptx (fshow sample_file ++ [41]) (fun _ _ => false) 1500 (EName pr_Grammar) 0 with
       | Some r => r | None => (Succ 0 [], []) end) = Fail /\
  fst (match peg_ev pegpeg_d pegpeg_d_ptx (fshow sample_file ++ [40; 39; 97; 39; 32; 120; 10]) (fun _ _ => false) 1500 (EName pr_Grammar) 0 with
       | Some r => r | None => (Succ 0 [], []) end) = Fail /\
  fst (match peg_ev pegpeg_d pegpeg_d_ptx (fshow sample_file ++ [39; 97; 98; 10]) (fun _ _ => false) 1500 (EName pr_Grammar) 0 with
       | Some r => r | None => (Succ 0 [], []) end) = Fail /\
  fst (match peg_ev pegpeg_d pegpeg_d_ptx [116; 121; 112; 101; 32; 84; 32; 80; 101; 103; 32; 123; 125] (fun _ _ => false) 300 (EName pr_Grammar) 0 with
       | Some r => r | None => (Succ 0 [], []) end) = Fail /\
  fst (match peg_ev pegpeg_d pegpeg_d_ptx (head_text sample_file) (fun _ _ => false) 1500 (EName pr_Grammar) 0 with
       | Some r => r | None => (Succ 0 [], []) end) = Fail.
Proof. vm_compute. repeat split; reflexivity. Qed.

(** ** every accepted text
    Whatever text the rule Grammar accepts - one that Reader/Defs.v describes or any other -, the builder calls its
    actions make go through: no call pops an empty expression stack, AddRange / AddDoubleRange find two character
    nodes, AddCharacter / AddDoubleCharacter get exactly one character, a rule is opened and closed in turn; at the
    end there is a package name, the parser type with its state, at least one rule, and nothing half-built.  (A
    stack-effect analysis of the rule tree, proved sound for every derivation - Reader/Safe.v - with the table of
    rule effects computed and checked by evaluation on the regenerated tree.)  Since the builder runs only after
    the whole text was accepted, "never a crash, never an empty parser" holds for every text. *)
Theorem C10_accepted_text_builds_a_grammar :
  forall (nm ak : list rune -> nat) penv buf n p f evs,
  peg_ev pegpeg_d pegpeg_d_ptx buf penv n (EName pr_Grammar) 0 = Some (Succ p f, evs) ->
  exists s', frun nm ak (calls_of_forest buf f) finit = Some s' /\ stk s' = [] /\ pend s' = None /\ pegn s' = None /\
    (exists pk, In (NPackage pk) (back s')) /\ (exists name st, In (NPeg name st) (back s')) /\
    (exists name e, In (NRule name e) (back s')).
Proof. intros nm ak penv buf. exact (accepted_text_builds nm ak buf penv). Qed.
Print Assumptions C10_accepted_text_builds_a_grammar.

(** ... and for the parser that is shipped, on EVERY text: whatever runes it is given (code points other than the end
    symbol), the machine of the -inline -switch tree terminates, and either Parse() reports an error or Execute()'s
    calls over the recorded tokens build a well-formed grammar.  Never a crash, never a silently empty parser. *)
Theorem C10_every_text_shipped :
  forall (nm ak : list rune -> nat) penv buf memo inline st0,
  good_buf buf -> valid_buf buf -> slot_ok pegpeg_is inline 0 ->
  exists n b st', machine pegpeg_is pegpeg_is_ptx buf penv memo inline n 0 st0 = Some (Ret b st') /\
    (b = true ->
     exists s', frun nm ak (calls_of_tokens pegpeg_is pegpeg_is_ptx buf (live st')) finit = Some s' /\
       stk s' = [] /\ pend s' = None /\ pegn s' = None /\
       (exists pk, In (NPackage pk) (back s')) /\ (exists name st, In (NPeg name st) (back s')) /\
       (exists name e, In (NRule name e) (back s'))).
Proof. exact every_text_shipped. Qed.
Print Assumptions C10_every_text_shipped.

(** the analysis is not vacuous: the table gives an effect to every rule but Grammar and Definition (whose
    AddRule / AddExpression / AddPeg / AddState protocol the theorem handles itself), and an expression pushes one node *)
Example C10_effects_nonvacuous :
  length (filter (fun r => match nth_error pegpeg_d r, eff_tab r with Some (RBody _), None => true | _, _ => false end) (seq 0 (length pegpeg_d))) = 2%nat /\
  eff_tab pr_Expression = Some (mkeff [] [KAny] false (Some false)) /\
  eff_tab pr_Char = Some (mkeff [] [KChr] false (Some false)).
Proof. vm_compute. repeat split; reflexivity. Qed.

(** a text that stops inside the parser's state - "type T Peg {" opened and never closed - is refused *)
Theorem C10_rejects_unclosed_state :
  forall penv f T, head_ok f -> ~ In 125 T ->
  exists n evs, peg_ev pegpeg_d pegpeg_d_ptx (pre_text f ++ kw_Peg ++ f_s3 f ++ 123 :: T) penv n (EName pr_Grammar) 0 = Some (Fail, evs).
Proof. intros penv f T Hf HT. exact (grammar_rejects_unclosed_state _ penv f T Hf HT eq_refl). Qed.
Print Assumptions C10_rejects_unclosed_state.

(** an import block that is opened and never closed - after the package clause and any number of well-formed imports:
    `import`, layout, `(` and a text without `)` - is refused (Reader/RejectImport.v: MultiImport finds no closing
    parenthesis however far it reads, SingleImport cannot start at `(`, Import* ends before this import, and the keyword
    `type` does not match `import`).  The shape of the change stored as seeded/C17-alt-norestore-after-rule-ref, which
    made the shipped front end accept such a text. *)
Theorem C10_rejects_unclosed_import :
  forall penv hdr spkg pkg s1 imps sp T,
    header_ok hdr [112] -> lay spkg -> spkg <> [] -> ident_ok pkg = true -> lay s1 -> s1 <> [] ->
    Forall imp_ok imps -> lay sp -> ~ In 41 T ->
    exists n evs, peg_ev pegpeg_d pegpeg_d_ptx
      (flat_map hshow hdr ++ kw_package ++ spkg ++ pkg ++ s1 ++ flat_map impshow imps ++ kw_import ++ sp ++ 40 :: T)
      penv n (EName pr_Grammar) 0 = Some (Fail, evs).
Proof.
  intros penv hdr spkg pkg s1 imps sp T H1 H2 H3 H4 H5 H6 H7 H8 H9.
  exact (grammar_rejects_unclosed_import _ penv hdr spkg pkg s1 imps sp T H1 H2 H3 H4 H5 H6 H7 H8 H9 eq_refl).
Qed.
Print Assumptions C10_rejects_unclosed_import.

(** non-vacuity: "package p\n\nimport (\n\"a\" \n" followed by the rest of a file without a closing parenthesis *)
Example C10_unclosed_import_nonvacuous :
  exists n evs, peg_ev pegpeg_d pegpeg_d_ptx
    ([] ++ kw_package ++ [32] ++ [112] ++ [10; 10] ++ [] ++ kw_import ++ [32] ++ 40 :: [10; 34; 97; 34; 32; 10; 116; 121; 112; 101; 32; 84; 32; 80; 101; 103; 32; 123; 125; 10; 83; 32; 60; 45; 32; 39; 97; 39; 10])
    (fun _ _ => true) n (EName pr_Grammar) 0 = Some (Fail, evs).
Proof. exists 400%nat. eexists. vm_compute. reflexivity. Qed.

(** after the package clause and any number of well-formed imports, a text that begins with neither `import` nor `type`
    (nor layout, which the clause before it has consumed) is refused: a grammar whose parser type is missing - the rules
    straight after the package clause -, a misspelt keyword, anything else (Reader/RejectImport.v). *)
Theorem C10_rejects_missing_type :
  forall penv hdr spkg pkg s1 imps rest,
    header_ok hdr [112] -> lay spkg -> spkg <> [] -> ident_ok pkg = true -> lay s1 -> s1 <> [] ->
    Forall imp_ok imps -> stop rest -> (forall r, rest <> kw_import ++ r) -> (forall r, rest <> kw_type ++ r) ->
    exists n evs, peg_ev pegpeg_d pegpeg_d_ptx
      (flat_map hshow hdr ++ kw_package ++ spkg ++ pkg ++ s1 ++ flat_map impshow imps ++ rest)
      penv n (EName pr_Grammar) 0 = Some (Fail, evs).
Proof.
  intros penv hdr spkg pkg s1 imps rest H1 H2 H3 H4 H5 H6 H7 H8 H9 H10.
  exact (grammar_rejects_missing_type _ penv hdr spkg pkg s1 imps rest H1 H2 H3 H4 H5 H6 H7 H8 H9 H10 eq_refl).
Qed.
Print Assumptions C10_rejects_missing_type.

(** non-vacuity: "package p\n\nS <- 'a'\n" - the rules straight after the package clause *)
Example C10_missing_type_nonvacuous :
  exists n evs, peg_ev pegpeg_d pegpeg_d_ptx
    ([] ++ kw_package ++ [32] ++ [112] ++ [10; 10] ++ [] ++ [83; 32; 60; 45; 32; 39; 97; 39; 10])
    (fun _ _ => true) n (EName pr_Grammar) 0 = Some (Fail, evs).
Proof. exists 200%nat. eexists. vm_compute. reflexivity. Qed.

(** the parser type without its `Peg` keyword: after `type`, layout, a name and layout comes a text that does not begin with
    `Peg` (Reader/RejectImport.v) *)
Theorem C10_rejects_missing_Peg :
  forall penv f rest, head_ok f -> stop rest -> (forall r, rest <> kw_Peg ++ r) ->
  exists n evs, peg_ev pegpeg_d pegpeg_d_ptx (pre_text f ++ rest) penv n (EName pr_Grammar) 0 = Some (Fail, evs).
Proof. intros penv f rest Hf Hs N. exact (grammar_rejects_missing_Peg _ penv f rest Hf Hs N eq_refl). Qed.
Print Assumptions C10_rejects_missing_Peg.

(** `import` followed by something that can start neither an import block nor an import name - single quotes, angle
    brackets, a digit, the end of the text (Reader/RejectImport.v) *)
Theorem C10_rejects_bad_import :
  forall penv hdr spkg pkg s1 imps sp T,
    header_ok hdr [112] -> lay spkg -> spkg <> [] -> ident_ok pkg = true -> lay s1 -> s1 <> [] ->
    Forall imp_ok imps -> lay sp -> stop T ->
    (forall c r, T = c :: r -> c <> 40 /\ is_istart c = false /\ c <> 34) ->
    exists n evs, peg_ev pegpeg_d pegpeg_d_ptx
      (flat_map hshow hdr ++ kw_package ++ spkg ++ pkg ++ s1 ++ flat_map impshow imps ++ kw_import ++ sp ++ T)
      penv n (EName pr_Grammar) 0 = Some (Fail, evs).
Proof.
  intros penv hdr spkg pkg s1 imps sp T H1 H2 H3 H4 H5 H6 H7 H8 H9 H10.
  exact (grammar_rejects_bad_import _ penv hdr spkg pkg s1 imps sp T H1 H2 H3 H4 H5 H6 H7 H8 H9 H10 eq_refl).
Qed.
Print Assumptions C10_rejects_bad_import.

(** non-vacuity: "package p\n\nimport 'fmt'\n..." *)
Example C10_bad_import_nonvacuous :
  exists n evs, peg_ev pegpeg_d pegpeg_d_ptx
    ([] ++ kw_package ++ [32] ++ [112] ++ [10; 10] ++ [] ++ kw_import ++ [32] ++ [39; 102; 109; 116; 39; 10; 116; 121; 112; 101; 32; 84; 32; 80; 101; 103; 32; 123; 125; 10; 83; 32; 60; 45; 32; 39; 97; 39; 10])
    (fun _ _ => true) n (EName pr_Grammar) 0 = Some (Fail, evs).
Proof. exists 200%nat. eexists. vm_compute. reflexivity. Qed.

(** the lexical layer on its own: any layout is skipped; every spelling of a character is read as its call *)
Theorem C10_reader_spacing :
  forall buf penv s rest p t, lay s -> stop rest -> At buf p (s ++ rest) ->
  C buf penv (EName pr_Spacing) p (p + length s)%nat [] t t.
Proof. exact spacing_ok. Qed.
Print Assumptions C10_reader_spacing.
Theorem C10_reader_char :
  forall buf penv k rest p t, kvalid k = true -> kfollow k rest = true -> At buf p (kshow k ++ rest) ->
  exists t', C buf penv (EName pr_Char) p (p + length (kshow k))%nat [kcall false k] t t'.
Proof. exact char_ok. Qed.
Print Assumptions C10_reader_char.

(** non-vacuity of the reader theorems:  a 'x\n\0x41'* ![a-z\12] <. {x{}}> &{t} () #c (newline) "A" / (newline)
    is well formed *)
Example C10_reader_nonvacuous :
  wf sample /\ length (show sample) = 53%nat /\
  (* ... and the executable semantics, run on that text, computes what the theorem says *)
  match peg_ev pegpeg_d pegpeg_d_ptx (show sample) (fun _ _ => false) 300 (EName pr_Expression) 0 with
  | Some (Succ p f, _) => Some (p, calls_of_forest (show sample) f)
  | _ => None
  end = Some (53%nat, xcalls sample).
Proof. split; [exact sample_wf|split; vm_compute; reflexivity]. Qed.

Example C10_reader_file_nonvacuous :
  file_ok sample_file /\
  match peg_ev pegpeg_d pegpeg_d_ptx (fshow sample_file) (fun _ _ => false) 1500 (EName pr_Grammar) 0 with
  | Some (Succ p f, _) => Some (p, calls_of_forest (fshow sample_file) f)
  | _ => None
  end = Some (length (fshow sample_file), fcalls sample_file).
Proof. split; [exact sample_file_ok|vm_compute; reflexivity]. Qed.

(** non-vacuity: ("ab" / [^x-z\0x41]) 'c'   flattens into the enclosing sequence only where addList does *)
Example C10_nonvacuous :
  elab (Front.XSeq [Front.XGroup (Front.XAlt [Front.XILit [SC 97; SC 98]; Front.XClass true false [CRange (SC 120) (SC 122); CChar (SHex [4; 1])]] false); Front.XLit [SC 99]])
  = Some (ESeq [EAlt [ESeq [EAlt [EChar 97; EChar 65]; EAlt [EChar 98; EChar 66]];
                      ESeq [ENot (EAlt [ERange 120 122; EChar 65]); EDot]]; EChar 99]) /\
  length octal_spellings = 328%nat /\ add_octal [3; 7; 7] = 255.
Proof. vm_compute. repeat split; reflexivity. Qed.
