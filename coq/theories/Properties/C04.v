(** C04: actions run once each, in derivation order, with the right captured text. *)
From PegV Require Import Model.Link Proofs.LinkProofs Base.Tac Spec.Syntax Spec.Peg Spec.Tokens Model.Machine Model.Runtime Model.Gen Proofs.Top Properties.Example Model.Analyses Model.Emit Model.SEmit Model.Exec Proofs.SEmitFile Spec.WF Model.Optimize Model.Premises Proofs.OptSound Proofs.ParseTop.
Local Open Scope nat_scope.

(** Execute() over the tokens of a successful parse produces exactly the trace obtained by walking
    the derivation forest left to right: each action node of the derivation emits once, in order,
    paired with the span of the most recently completed capture (PegText node) that precedes it;
    nothing outside the derivation (backtracked branches, lookahead) is in the forest at all. *)
Theorem C04_execute_trace :
  forall g ptx buf penv, good_grammar g -> good_buf buf -> good_switches g ->
  forall memo inline n r st0 p f evs,
    slot_ok g inline r -> peg_parse g ptx buf penv n r = Some (Succ p f, evs) ->
    exists st', machine g ptx buf penv memo inline n r st0 = Some (Ret true st') /\
      execute g ptx (live st') (0, 0) = fst (trace_forest g ptx f (0, 0)).
Proof. exact c04_execute. Qed.
Print Assumptions C04_execute_trace.

(** ... and so for the tokens the statements of the generated file record (Model/SEmit.v, Model/Exec.v, see C01) *)
Theorem C04_generated_code_actions :
  forall g ptx buf penv, good_grammar g -> good_buf buf -> good_switches g ->
  forall memo inline n r st0 p f evs,
    deep_table_b g inline = true -> slot_ok g inline r -> reached (count_rules g) r = true ->
    peg_parse g ptx buf penv (S n) r = Some (Succ p f, evs) ->
    forall res, xcall buf penv (mk_opts true memo inline g) (gen_fn g ptx inline) r (reset st0) res ->
      exists st', res = Ret true st' /\ execute g ptx (live st') (0, 0) = fst (trace_forest g ptx f (0, 0)).
Proof. exact generated_code_actions. Qed.
Print Assumptions C04_generated_code_actions.

(** non-vacuity: on "aby" the action of the abandoned first alternative does not run again;
    Action0 runs once with text = [0,2) *)
(** ... and with no side condition and no hypothesis that the semantics has a result (Proofs/ParseTop.v): for every grammar
    with a well-formedness certificate, every combination of memo table / -inline / -switch ([tree_of sw g] is the
    optimised tree), every input and every earlier parser state - when the grammar as written accepts a prefix with
    derivation forest [f], every execution of the call Parse() makes returns true and Execute() over the tokens it
    has recorded runs the actions of the derivation in order, each with the most recently completed capture. *)
Theorem C04_generated_parser_actions :
  forall g tab rank, wf_b g tab rank = true -> good_grammar g ->
  (forall r b, nth_error g r = Some (RBody b) -> ranges_ok b = true) ->
  grammar_alt2 g -> closed_names g ->
  forall ptx buf penv, good_buf buf -> valid_buf buf ->
  forall memo inline sw rb st0,
    nth_error g 0 = Some rb -> rb <> RNil ->
    exists n res evs, peg_parse g ptx buf penv n 0 = Some (res, evs) /\
      forall p f, res = Succ p f ->
      forall out, xcall buf penv (mk_opts true memo inline (tree_of sw g)) (gen_fn (tree_of sw g) ptx inline) 0 (reset st0) out ->
        exists st', out = Ret true st' /\ execute g ptx (live st') (0, 0) = fst (trace_forest g ptx f (0, 0)).
Proof. exact generated_parser_actions. Qed.
Print Assumptions C04_generated_parser_actions.

(** Which action is which: Compile's first passes (Model/Link.v, compared with the implementation's
    linked tree for every grammar of the run) number the actions in the order they are met - pre-order
    over the rules in definition order -, give each a rule of its own that carries that number, in
    order, behind the user's rules, and leave no dangling reference. *)
Theorem C04_action_numbering :
  forall bodies g ptx acts, link bodies = (g, ptx, acts) ->
    acts = flat_map acts_of bodies /\
    ract_ids g = seq 0 (length acts) /\
    (forall i b, nth_error bodies i = Some b -> exists b', nth_error g i = Some (RBody b')) /\
    (forall r, In r (grammar_names g) -> r < length g) /\
    (forall i, ptx = Some i -> i < length g).
Proof. exact link_facts. Qed.
Print Assumptions C04_action_numbering.

Example C04_link_nonvacuous :
  link [ESeq [EAct 7; EName 1; EName 5; EPush (EAct 8)]; EAlt [EAct 9; EName 5]] =
  ([RBody (ESeq [EName 2; EName 1; EName 3; EPush (EName 5)]); RBody (EAlt [EName 6; EName 3]);
    RAct 0; RNil; RNil; RAct 1; RAct 2], Some 4, [7; 8; 9]).
Proof. vm_compute. reflexivity. Qed.

Example C04_nonvacuous :
  exists st, mach_of true ex_in_ok 0 zero_state = Some (Ret true st) /\
             execute ex_g ex_ptx (live st) (0, 0) = [(0, (0, 2))].
Proof. eexists. split; vm_compute; reflexivity. Qed.
