(** C15: grammar diagnostics are exact and -strict turns them into failure. *)
From PegV Require Import Base.Tac Spec.Syntax Model.Analyses Model.Cli Generated.CliFacts Proofs.DiagProofs Proofs.LeftRec Proofs.CliProofs.
From Coq Require Import Relations.

(** "used but not defined" names exactly the referenced names that have no definition
    (references from unreachable rules included). *)
Theorem C15_undefined_exact :
  forall g n, In n (undefined_names g) <-> referenced g n /\ defined g n = false.
Proof. exact undefined_exact. Qed.
Print Assumptions C15_undefined_exact.

(** "defined but not used" names exactly the defined rules that are not reachable from the first
    rule through any operator.  [closed_b] is an executable closure test of the computed set; the
    check re-evaluates it for every grammar it runs. *)
Theorem C15_unused_exact :
  forall g n, closed_b g (reached_names g) = true ->
    (In n (unused_names g) <-> In n (map fst g) /\ ~ reach g n).
Proof. exact unused_exact. Qed.
Print Assumptions C15_unused_exact.

(** a rule defined twice is reported (the generator returns an error instead of crashing) *)
Theorem C15_duplicates_exact :
  forall g n, In n (duplicate_names g) <-> exists l1 l2, map fst g = l1 ++ n :: l2 /\ In n l2.
Proof. exact duplicates_exact. Qed.
Print Assumptions C15_duplicates_exact.

(** -strict: in the CLI model a Compile outcome with warnings exits non-zero under -strict and zero
    otherwise, and a Compile outcome without diagnostics is a silent success (instance of C18). *)
Theorem C15_strict :
  forall i, c18_ok fatal_on_error fatal_only_if_strict i = true.
Proof. exact c18_holds. Qed.
Print Assumptions C15_strict.

(** Left recursion.  [hstep g m k]: the body of rule m can reach a reference to rule k before having
    consumed anything - through any operator: alternatives, sequences whose earlier elements may
    succeed without consuming ([nullable], the least fixed point; lookahead, ? and * are transparent),
    &, !, ?, *, + and captures.  Some "possible infinite left recursion" warning is issued exactly
    when some rule can come back to itself that way (direct, indirect or behind a nullable prefix). *)
Theorem C15_left_recursion_exact :
  forall g, leftrec_warnings g <> [] <-> exists r, clos_trans nat (hstep g) r r.
Proof. exact leftrec_exact. Qed.
Print Assumptions C15_left_recursion_exact.

(** non-vacuity of both directions: indirect recursion behind a nullable prefix and under operators is
    warned; right recursion and recursion behind a consuming element is not *)
Example C15_leftrec_nonvacuous :
  leftrec_warnings [(0, ESeq [EQuery (EChar 97%Z); EName 1]); (1, EAlt [EChar 98%Z; EPlus (ENot (EName 0))])] <> [] /\
  leftrec_warnings [(0, ESeq [EChar 97%Z; EName 0]); (1, EAlt [EChar 98%Z; ESeq [EPlus (EChar 99%Z); EName 1]])] = [].
Proof. vm_compute. split; [discriminate|reflexivity]. Qed.

Example C15_nonvacuous :
  let g : rawg := [(0, ESeq [EQuery (EName 0); EChar 97%Z; EName 7]); (1, EName 2); (2, EName 1); (1, EDot)] in
  undefined_names g = [7] /\ unused_names g = [2; 1] /\ duplicate_names g = [1] /\
  leftrec_warnings g = [0; 1; 2; 1] /\ closed_b g (reached_names g) = true.
Proof. vm_compute. repeat split; reflexivity. Qed.
