(** C03: the token stream is the post-order record of the successful derivation only. *)
From PegV Require Import Base.Tac Spec.Syntax Spec.Peg Model.Machine Model.Gen Model.Analyses Model.Emit Model.SEmit Model.Exec
  Proofs.Forest Proofs.Top Proofs.SEmitFile Spec.WF Model.Optimize Model.Premises Proofs.OptSound Proofs.ParseTop Properties.Example.
Local Open Scope nat_scope.

(** After a successful parse the live tokens (Tokens() after Trim) are exactly the post-order
    flattening of the derivation forest the PEG semantics returns - which by construction contains
    nothing from failed alternatives, abandoned iterations or lookahead; the last token is the entry
    rule spanning the consumed prefix; every token has 0 <= begin <= end <= number of runes.
    The result does not depend on the parser's earlier state [st0] (stale token slice). *)
Theorem C03_tokens_postorder :
  forall g ptx buf penv, good_grammar g -> good_buf buf -> good_switches g ->
  forall memo inline n r st0 p f evs,
    slot_ok g inline r -> peg_parse g ptx buf penv n r = Some (Succ p f, evs) ->
    exists st' kids, machine g ptx buf penv memo inline n r st0 = Some (Ret true st') /\
      live st' = Syntax.flat f /\ f = [Node r 0 p kids] /\
      live st' = Syntax.flat kids ++ [(r, (0, p))] /\
      Forall (inb 0 (length buf)) (live st').
Proof. exact c03_tokens. Qed.
Print Assumptions C03_tokens_postorder.

(** ... and so for the tokens the statements of the generated file record (Model/SEmit.v under the goto semantics of
    Model/Exec.v, see C01): whatever execution of the entry's function, the tokens are that post-order *)
Theorem C03_generated_code_tokens :
  forall g ptx buf penv, good_grammar g -> good_buf buf -> good_switches g ->
  forall memo inline n r st0 p f evs,
    deep_table_b g inline = true -> slot_ok g inline r -> reached (count_rules g) r = true ->
    peg_parse g ptx buf penv (S n) r = Some (Succ p f, evs) ->
    forall res, xcall buf penv (mk_opts true memo inline g) (gen_fn g ptx inline) r (reset st0) res ->
      exists st' kids, res = Ret true st' /\ live st' = Syntax.flat f /\ f = [Node r 0 p kids] /\
        live st' = Syntax.flat kids ++ [(r, (0, p))] /\ Forall (inb 0 (length buf)) (live st').
Proof. exact generated_code_tokens. Qed.
Print Assumptions C03_generated_code_tokens.

(** ... and with no side condition and no hypothesis that the semantics has a result (Proofs/ParseTop.v): for every grammar
    with a well-formedness certificate, every combination of memo table / -inline / -switch ([tree_of sw g] is the
    optimised tree), every input and every earlier parser state - when the grammar as written accepts a prefix with
    derivation forest [f], every execution of the call Parse() makes returns true and the tokens it has recorded are the
    post-order of [f]: nothing from abandoned alternatives or lookahead, the first rule over the consumed prefix last,
    every token within the input. *)
Theorem C03_generated_parser_tokens :
  forall g tab rank, wf_b g tab rank = true -> good_grammar g ->
  (forall r b, nth_error g r = Some (RBody b) -> ranges_ok b = true) ->
  grammar_alt2 g -> closed_names g ->
  forall ptx buf penv, good_buf buf -> valid_buf buf ->
  forall memo inline sw rb st0,
    nth_error g 0 = Some rb -> rb <> RNil ->
    exists n res evs, peg_parse g ptx buf penv n 0 = Some (res, evs) /\
      forall p f, res = Succ p f ->
      forall out, xcall buf penv (mk_opts true memo inline (tree_of sw g)) (gen_fn (tree_of sw g) ptx inline) 0 (reset st0) out ->
        exists st' kids, out = Ret true st' /\ pos st' = p /\ live st' = Syntax.flat f /\ f = [Node 0 0 p kids] /\
          live st' = Syntax.flat kids ++ [(0, (0, p))] /\ Forall (inb 0 (length buf)) (live st').
Proof. exact generated_parser_tokens. Qed.
Print Assumptions C03_generated_parser_tokens.

(** non-vacuity: on "aby" the first alternative R1 'x' is tried and abandoned (its R1, capture and
    action tokens are overwritten); 5 tokens remain *)
Example C03_nonvacuous :
  mach_view (mach_of true ex_in_ok 0 zero_state)
  = Some (true, 3, [(2, (0, 2)); (3, (2, 2)); (1, (0, 2)); (0, (0, 3))], (0, (0, 3))).
Proof. vm_compute. reflexivity. Qed.
