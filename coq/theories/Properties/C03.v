(** C03: the token stream is the post-order record of the successful derivation only. *)
From PegV Require Import Base.Tac Spec.Syntax Spec.Peg Model.Machine Model.Gen Model.Analyses Model.Emit Model.SEmit Model.Exec
  Proofs.Forest Proofs.Top Proofs.SEmitFile Properties.Example.

(** After a successful parse the live tokens (Tokens() after Trim) are exactly the post-order
    flattening of the derivation forest the PEG semantics returns - which by construction contains
    nothing from failed alternatives, abandoned iterations or lookahead; the last token is the entry
    rule spanning the consumed prefix; every token has 0 <= begin <= end <= number of runes.
    The result does not depend on the parser's earlier state [st0] (stale token slice). *)
Theorem C03_tokens_postorder :
  forall g ptx buf penv, good_grammar g -> good_buf buf -> good_switches g ->
  forall memo inline n r st0 p f evs,
    slot_ok g inline r -> peg_parse g ptx buf penv n r = Some (Succ p f, evs) ->
    exists st' kids, machine g ptx buf penv memo inline n r st0 = Some (Ret true st') /\
      live st' = Syntax.flat f /\ f = [Node r 0 p kids] /\
      live st' = Syntax.flat kids ++ [(r, (0, p))] /\
      Forall (inb 0 (length buf)) (live st').
Proof. exact c03_tokens. Qed.
Print Assumptions C03_tokens_postorder.

(** ... and so for the tokens the statements of the generated file record (Model/SEmit.v under the goto semantics of
    Model/Exec.v, see C01): whatever execution of the entry's function, the tokens are that post-order *)
Theorem C03_generated_code_tokens :
  forall g ptx buf penv, good_grammar g -> good_buf buf -> good_switches g ->
  forall memo inline n r st0 p f evs,
    deep_table_b g inline = true -> slot_ok g inline r -> reached (count_rules g) r = true ->
    peg_parse g ptx buf penv (S n) r = Some (Succ p f, evs) ->
    forall res, xcall buf penv (mk_opts true memo inline g) (gen_fn g ptx inline) r (reset st0) res ->
      exists st' kids, res = Ret true st' /\ live st' = Syntax.flat f /\ f = [Node r 0 p kids] /\
        live st' = Syntax.flat kids ++ [(r, (0, p))] /\ Forall (inb 0 (length buf)) (live st').
Proof. exact generated_code_tokens. Qed.
Print Assumptions C03_generated_code_tokens.

(** non-vacuity: on "aby" the first alternative R1 'x' is tried and abandoned (its R1, capture and
    action tokens are overwritten); 5 tokens remain *)
Example C03_nonvacuous :
  mach_view (mach_of true ex_in_ok 0 zero_state)
  = Some (true, 3, [(2, (0, 2)); (3, (2, 2)); (1, (0, 2)); (0, (0, 3))], (0, (0, 3))).
Proof. vm_compute. reflexivity. Qed.
