(** C11: a failed parse returns an error that locates the failure correctly. *)
From PegV Require Import Base.Tac Spec.Syntax Spec.Peg Model.Machine Model.Gen Proofs.Forest Proofs.Top Properties.Example.

(** Parse returns nil exactly when the entry rule matched (C01).  On failure the error's token is the
    first, in time order, of the non-empty tokens completed during the attempt (failed branches and
    lookahead included) that reached the furthest offset - or the zero token - and it lies inside
    the input. *)
Theorem C11_error_token :
  forall g ptx buf penv, good_grammar g -> good_buf buf ->
  forall memo inline n r st0 evs,
    slot_ok g inline r -> peg_parse g ptx buf penv n r = Some (Fail, evs) ->
    exists st', machine g ptx buf penv memo inline n r st0 = Some (Ret false st') /\
      maxtok st' = first_furthest evs /\ tok_ok (length buf) (maxtok st').
Proof. exact c11_error_token. Qed.
Print Assumptions C11_error_token.

Example C11_nonvacuous :
  mach_view (mach_of true ex_in_bad 0 zero_state) = Some (false, 0, [], (2, (0, 2))).
Proof. vm_compute. reflexivity. Qed.
