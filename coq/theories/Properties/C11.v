(** C11: a failed parse returns an error that locates the failure correctly. *)
From PegV Require Import Base.Tac Spec.Syntax Spec.Peg Model.Machine Model.Runtime Model.Gen Proofs.Forest Proofs.RuntimeProofs Proofs.Top Properties.Example Model.Analyses Model.Emit Model.SEmit Model.Exec Proofs.SEmitFile Spec.WF Model.Optimize Model.Premises Proofs.OptSound Proofs.ParseTop.
Local Open Scope nat_scope.

(** Parse returns nil exactly when the entry rule matched (C01).  On failure the error's token is the
    first, in time order, of the non-empty tokens completed during the attempt (failed branches and
    lookahead included) that reached the furthest offset - or the zero token - and it lies inside
    the input. *)
Theorem C11_error_token :
  forall g ptx buf penv, good_grammar g -> good_buf buf -> good_switches g ->
  forall memo inline n r st0 evs,
    slot_ok g inline r -> peg_parse g ptx buf penv n r = Some (Fail, evs) ->
    exists st', machine g ptx buf penv memo inline n r st0 = Some (Ret false st') /\
      maxtok st' = first_furthest evs /\ tok_ok (length buf) (maxtok st').
Proof. exact c11_error_token. Qed.
Print Assumptions C11_error_token.

(** ... and so for the error token the statements of the generated file leave (Model/SEmit.v, Model/Exec.v, see C01) *)
Theorem C11_generated_code_error_token :
  forall g ptx buf penv, good_grammar g -> good_buf buf -> good_switches g ->
  forall memo inline n r st0 evs,
    deep_table_b g inline = true -> slot_ok g inline r -> reached (count_rules g) r = true ->
    peg_parse g ptx buf penv (S n) r = Some (Fail, evs) ->
    forall res, xcall buf penv (mk_opts true memo inline g) (gen_fn g ptx inline) r (reset st0) res ->
      exists st', res = Ret false st' /\ maxtok st' = first_furthest evs /\ tok_ok (length buf) (maxtok st').
Proof. exact generated_code_error_token. Qed.
Print Assumptions C11_generated_code_error_token.

(** ... with no hypothesis that the semantics has a result and no side condition on the emitter: for every grammar with a
    well-formedness certificate, memo table on or off, -inline on or off, every input and every earlier parser state -
    when the grammar as written rejects the input, every execution of the call Parse() makes returns false and leaves
    that token in maxToken, within the input (Proofs/ParseTop.v). *)
Theorem C11_generated_parser_error_token :
  forall g tab rank, wf_b g tab rank = true -> good_grammar g ->
  (forall r b, nth_error g r = Some (RBody b) -> ranges_ok b = true) ->
  grammar_alt2 g -> closed_names g ->
  forall ptx buf penv, good_buf buf ->
  forall memo inline rb st0,
    nth_error g 0 = Some rb -> rb <> RNil ->
    exists n res evs, peg_parse g ptx buf penv n 0 = Some (res, evs) /\
      (res = Fail ->
       forall out, xcall buf penv (mk_opts true memo inline g) (gen_fn g ptx inline) 0 (reset st0) out ->
         exists st', out = Ret false st' /\ maxtok st' = first_furthest evs /\ tok_ok (length buf) (maxtok st')).
Proof. exact generated_parser_error_token. Qed.
Print Assumptions C11_generated_parser_error_token.

(** Why the theorem above is stated without -switch: the error token is a fact about the attempt the parser makes, and
    the -switch parser makes another attempt.  An alternative that begins with lookahead - &R1 'x' - has first set {x};
    on "ab" the default parser tries it, the lookahead matches R1 over [0,2) and records that token as the furthest before
    'x' fails; the -switch parser dispatches on 'a', never enters the alternative and reports the zero token.  Verdict,
    prefix and tokens agree (C02); the error token does not, in the model and in the shipped generator alike (the
    message reads "near R1 (line 1 symbol 1 - line 1 symbol 3)" without -switch and "near Unknown (line 1 symbol 1 -
    line 1 symbol 1)" with it).  Each parser's token is the one C11 describes for ITS attempt (C11_error_token holds of
    the optimised tree too); "invariant under -switch" would be a strengthening of C11 and C02, and it is false: *)
Definition et_g : grammar :=
  [ RBody (ESeq [EAlt [ESeq [EAnd (EName 1); EChar 120]; ERange 104 110; ERange 111 119]; ENot EDot]);
    RBody (ESeq [EChar 97; EChar 98]) ]%Z.
Example C11_error_token_invariant_under_switch_refuted :
  wf_auto et_g = true /\ good_grammar_b et_g = true /\ grammar_alt2_b et_g = true /\ closed_names_b et_g = true /\
  exists s1 s2,
    machine et_g 9 [97; 98]%Z (std_penv [97; 98]%Z) true false 30 0 zero_state = Some (Ret false s1) /\
    machine (optimize et_g) 9 [97; 98]%Z (std_penv [97; 98]%Z) true false 30 0 zero_state = Some (Ret false s2) /\
    maxtok s1 = (1, (0, 2)) /\ maxtok s2 = (0, (0, 0)).
Proof. vm_compute. repeat split; try reflexivity. eexists _, _. repeat split; reflexivity. Qed.

(** For every rune list and every token with begin <= end <= number of runes (in particular the error
    token, by the theorem above; also the empty input, offset 0 and end of input), the message fields
    computed by translatePositions + Error() are: 1-based line = 1 + newlines before the offset,
    1-based column = 1 + distance from the start of that line, for begin and for end, and the quoted
    text is exactly the runes in [begin, end).  [Some] = the slice is in range (no panic). *)
Theorem C11_positions :
  forall buf t, tk_begin t <= tk_end t -> tk_end t <= length buf ->
    error_fields (buf ++ [endSymbol]) t =
      Some (tk_rule t, linecol buf (tk_begin t), linecol buf (tk_end t),
            firstn (tk_end t - tk_begin t) (skipn (tk_begin t) buf)).
Proof. exact error_fields_spec. Qed.
Print Assumptions C11_positions.

Example C11_positions_nonvacuous :
  error_fields ([97; 10; 98; 99; 10; 10; 100] ++ [endSymbol])%Z (7, (2, 6))
  = Some (7, (2, 1), (4, 1), [98; 99; 10; 10]%Z) /\
  error_fields ([] ++ [endSymbol]) (0, (0, 0)) = Some (0, (1, 1), (1, 1), []).
Proof. vm_compute. split; reflexivity. Qed.

Example C11_nonvacuous :
  mach_view (mach_of true ex_in_bad 0 zero_state) = Some (false, 0, [], (2, (0, 2))).
Proof. vm_compute. reflexivity. Qed.
