(** C12: a parser can be reused: Reset with a new Buffer behaves like a fresh parser. *)
From PegV Require Import Base.Tac Spec.Syntax Spec.Peg Model.Machine Model.Gen Model.Analyses Model.Emit Model.SEmit Model.Exec
  Proofs.PegFacts Proofs.Forest Proofs.Top Proofs.SEmitFile Spec.WF Model.Optimize Model.Premises Proofs.OptSound Proofs.ParseTop Properties.Example.
Local Open Scope nat_scope.

(** Whatever state [st0] the parser object was left in by earlier inputs (token slice, memo table,
    maxToken, position) and a fresh object [st0'] give, after Reset, the same verdict, position,
    tokens and error token. *)
Theorem C12_reuse_is_fresh :
  forall g ptx buf penv, good_grammar g -> good_buf buf -> good_switches g ->
  forall memo inline n r st0 st0' rr,
    slot_ok g inline r -> peg_parse g ptx buf penv n r = Some rr ->
    exists b st1 st2,
      machine g ptx buf penv memo inline n r st0 = Some (Ret b st1) /\
      machine g ptx buf penv memo inline n r st0' = Some (Ret b st2) /\
      (b = true -> pos st1 = pos st2 /\ live st1 = live st2) /\
      (b = false -> maxtok st1 = maxtok st2).
Proof. exact c12_history_irrelevant. Qed.
Print Assumptions C12_reuse_is_fresh.

(** The same for the statements of the generated file (Model/SEmit.v under the goto semantics of Model/Exec.v, see
    C01): whatever the entry's function returns after Reset in an object that has parsed before equals what it
    returns in a fresh one. *)
Theorem C12_generated_code_reuse_is_fresh :
  forall g ptx buf penv, good_grammar g -> good_buf buf -> good_switches g ->
  forall memo inline n r st0 st0' rr,
    deep_table_b g inline = true -> slot_ok g inline r -> reached (count_rules g) r = true ->
    peg_parse g ptx buf penv (S n) r = Some rr ->
    forall res1 res2,
      xcall buf penv (mk_opts true memo inline g) (gen_fn g ptx inline) r (reset st0) res1 ->
      xcall buf penv (mk_opts true memo inline g) (gen_fn g ptx inline) r (reset st0') res2 ->
      exists b s1 s2, res1 = Ret b s1 /\ res2 = Ret b s2 /\
        (b = true -> pos s1 = pos s2 /\ live s1 = live s2) /\ (b = false -> maxtok s1 = maxtok s2).
Proof.
  intros g ptx buf penv Hg Hb Hs memo inline n r st0 st0' rr Hd Hsl Hr H res1 res2 X1 X2.
  exact (generated_code_options_invisible g ptx buf penv Hg Hb Hs memo inline memo inline n r st0 st0' rr Hd Hsl Hd Hsl Hr H res1 res2 X1 X2).
Qed.
Print Assumptions C12_generated_code_reuse_is_fresh.

(** ... and with no side condition at all (Proofs/ParseTop.v): for every grammar with a well-formedness certificate and
    every option combination, whatever the call Parse() makes returns after Reset in an object that has parsed before
    ([st0] arbitrary: token slice, memo table, maxToken, position left by earlier inputs) is what it returns in a fresh
    one: same verdict and, on success, same offset and token list - every execution of either. *)
Theorem C12_generated_parser_reuse_is_fresh :
  forall g tab rank, wf_b g tab rank = true -> good_grammar g ->
  (forall r b, nth_error g r = Some (RBody b) -> ranges_ok b = true) ->
  grammar_alt2 g -> closed_names g ->
  forall ptx buf penv, good_buf buf -> valid_buf buf ->
  forall memo inline sw rb st0,
    nth_error g 0 = Some rb -> rb <> RNil ->
    forall out1 out2,
      xcall buf penv (mk_opts true memo inline (tree_of sw g)) (gen_fn (tree_of sw g) ptx inline) 0 (reset st0) out1 ->
      xcall buf penv (mk_opts true memo inline (tree_of sw g)) (gen_fn (tree_of sw g) ptx inline) 0 (reset zero_state) out2 ->
      exists b s1 s2, out1 = Ret b s1 /\ out2 = Ret b s2 /\ (b = true -> pos s1 = pos s2 /\ live s1 = live s2).
Proof.
  intros g tab rank Hwf Hg Hro Ha Hc ptx buf penv Hb Hv memo inline sw rb st0 Hr Hn out1 out2 X1 X2.
  exact (generated_parsers_agree g tab rank Hwf Hg Hro Ha Hc ptx buf penv Hb Hv memo inline sw memo inline sw rb st0 zero_state Hr Hn out1 out2 X1 X2).
Qed.
Print Assumptions C12_generated_parser_reuse_is_fresh.

(** Integer width.  The generic parameter U types buffer offsets only (position, token begin/end;
    since fix a74140a the token *index* is a uint32 of its own).  Every offset the parser reports is
    at most the length of the input: the consumed prefix, both ends of every token, and both ends of
    the error token.  Hence any instantiation whose U can hold len(input) represents them all, and the
    results cannot depend on which one is chosen. *)
Theorem C12_offsets_fit_the_input :
  forall g ptx buf penv, good_grammar g -> good_buf buf -> good_switches g ->
  forall memo inline n r st0 rr,
    slot_ok g inline r -> peg_parse g ptx buf penv n r = Some rr ->
    exists b st', machine g ptx buf penv memo inline n r st0 = Some (Ret b st') /\
      (b = true -> pos st' <= length buf /\ Forall (inb 0 (length buf)) (live st')) /\
      (b = false -> tok_ok (length buf) (maxtok st')).
Proof. exact c12_offsets_fit. Qed.
Print Assumptions C12_offsets_fit_the_input.

(** non-vacuity: parse "abz" (fails, leaves stale tokens, memo entries and a maxToken), then "aby" *)
Example C12_nonvacuous :
  exists st1, mach_of true ex_in_bad 0 zero_state = Some (Ret false st1) /\
    toks st1 <> [] /\ memo st1 <> [] /\ maxtok st1 <> zero_tok /\
    mach_view (mach_of true ex_in_ok 0 st1) = mach_view (mach_of true ex_in_ok 0 zero_state).
Proof. eexists. split; [vm_compute; reflexivity|]. vm_compute. repeat split; discriminate. Qed.
