(** C02: -inline and -switch never change what the generated parser accepts or records. *)
From PegV Require Import Base.Tac Spec.Syntax Spec.Peg Spec.WF Model.Machine Model.SkipCheck Model.Optimize Model.Gen
  Model.Analyses Model.Emit Model.SEmit Model.Exec Proofs.FirstSound Proofs.OptSound Proofs.OptSwok Proofs.Top Proofs.OptTop Proofs.SEmitFile Proofs.SEmitOpt Proofs.EmitUse Proofs.DeepDefault Proofs.OptClosed Proofs.ParseTop Properties.Example.
Local Open Scope nat_scope.

(** For one grammar term [g] (the tree the generator compiles), every combination of the memo and
    inline decisions gives the same verdict, consumed prefix and token sequence, from any earlier
    parser states.  With -switch off this is the whole -inline part of the property.  With -switch
    on, [g] is the optimised tree (switch nodes, skip-check flags): the statement, through
    C01_machine_is_peg, says that the emitted switch dispatch and the dropped first-character tests
    compute the PEG semantics of the optimised tree provided its switches are well guarded
    ([good_switches], an executable check re-evaluated for every grammar of the correspondence run). *)
Theorem C02_inline_invisible :
  forall g ptx buf penv, good_grammar g -> good_buf buf -> good_switches g ->
  forall memo memo' inline inline' n r st0 st0' rr,
    slot_ok g inline r -> slot_ok g inline' r -> peg_parse g ptx buf penv n r = Some rr ->
    exists b st1 st2,
      machine g ptx buf penv memo inline n r st0 = Some (Ret b st1) /\
      machine g ptx buf penv memo' inline' n r st0' = Some (Ret b st2) /\
      (b = true -> pos st1 = pos st2 /\ live st1 = live st2).
Proof. exact c02_inline_invisible. Qed.
Print Assumptions C02_inline_invisible.

(** -switch, end to end.  [optimize] (Model/Optimize.v) is the -switch pass - first-character-set
    analysis to a fixed point, then the rewrite of ordered choices into guarded (switch) choices for
    the rules reachable from the first - and is compared structurally with the implementation's
    optimised tree for every grammar of the correspondence run.  For every grammar with a
    well-formedness certificate (wf_b: Ford's condition), whose analysis table is consistent
    (opt_ok_b, executable, re-evaluated per grammar), every input made of code points and every rule
    used as entry: the parser generated from the optimised tree and the one generated from the
    original tree, under any memo and inline decisions and from any earlier parser states, both
    terminate with the same verdict, consumed prefix and token sequence.  [good_switches (optimize g)]
    (executable) says that the case bodies may drop their first-character tests. *)
Theorem C02_switch_invisible :
  forall g tab rank, wf_b g tab rank = true -> opt_ok_b g = true ->
  good_grammar g -> good_grammar (optimize g) -> good_switches g -> good_switches (optimize g) ->
  forall ptx buf penv, good_buf buf -> valid_buf buf ->
  forall memo memo' inline inline' r rb st0 st0',
    nth_error g r = Some rb -> rb <> RNil ->
    slot_ok g inline r -> slot_ok (optimize g) inline' r ->
    exists n b st1 st2,
      machine g ptx buf penv memo inline n r st0 = Some (Ret b st1) /\
      machine (optimize g) ptx buf penv memo' inline' n r st0' = Some (Ret b st2) /\
      (b = true -> pos st1 = pos st2 /\ Machine.live st1 = Machine.live st2).
Proof. exact c02_switch_invisible. Qed.
Print Assumptions C02_switch_invisible.

(** ... and at the level of the generated statements (Model/SEmit.v under the goto semantics of Model/Exec.v, see C01):
    whatever the entry's function of the file generated from the OPTIMISED tree returns - under any memo / inline
    setting, from any earlier state - is the verdict, the offset and the token list of the semantics of the ORIGINAL
    tree; with C01_generated_code_every_execution for the original tree, the two files agree. *)
Theorem C02_generated_code_switch :
  forall g tab rank, wf_b g tab rank = true -> opt_ok_b g = true ->
  good_grammar (optimize g) -> good_switches (optimize g) ->
  forall ptx buf penv, good_buf buf -> valid_buf buf ->
  forall memo inline r rb st0,
    nth_error g r = Some rb -> rb <> RNil ->
    deep_table_b (optimize g) inline = true -> slot_ok (optimize g) inline r -> reached (count_rules (optimize g)) r = true ->
    exists n res evs, peg_parse g ptx buf penv n r = Some (res, evs) /\
      forall out, xcall buf penv (mk_opts true memo inline (optimize g)) (gen_fn (optimize g) ptx inline) r (reset st0) out ->
        match res with
        | Succ p f => exists st', out = Ret true st' /\ pos st' = p /\ Machine.live st' = Syntax.flat f
        | Fail => exists st', out = Ret false st'
        end.
Proof. exact generated_code_switch. Qed.
Print Assumptions C02_generated_code_switch.

(** ... with no side condition on the analysis, on the optimised tree or on the emitter's bookkeeping: the pass introduces
    no rule reference ([optimize_closed_names]) and keeps every choice at two alternatives or more, so the optimised tree
    meets the emitter's fuel condition under either -inline setting (Proofs/OptClosed.v, Proofs/CountInline.v). *)
Theorem C02_generated_code_switch_unconditional :
  forall g tab rank, wf_b g tab rank = true -> good_grammar g ->
  (forall r b, nth_error g r = Some (RBody b) -> ranges_ok b = true) ->
  grammar_alt2 g -> closed_names g ->
  forall ptx buf penv, good_buf buf -> valid_buf buf ->
  forall memo inline r rb st0,
    nth_error g r = Some rb -> rb <> RNil ->
    slot_ok (optimize g) inline r -> reached (count_rules (optimize g)) r = true ->
    exists n res evs, peg_parse g ptx buf penv n r = Some (res, evs) /\
      forall out, xcall buf penv (mk_opts true memo inline (optimize g)) (gen_fn (optimize g) ptx inline) r (reset st0) out ->
        match res with
        | Succ p f => exists st', out = Ret true st' /\ pos st' = p /\ Machine.live st' = Syntax.flat f
        | Fail => exists st', out = Ret false st'
        end.
Proof. exact generated_code_switch_all_options. Qed.
Print Assumptions C02_generated_code_switch_unconditional.

(** ... and so the parsers generated under ANY two option combinations - memo table on or off, -inline on or off,
    -switch on or off ([tree_of sw g]) - agree at the level of the statements peg writes: whatever the two entry
    functions return, from any two earlier states, is the same verdict and, on success, the same offset and the same
    token list.  No side condition beyond the grammar's well-formedness (Proofs/ParseTop.v). *)
Theorem C02_generated_parsers_agree :
  forall g tab rank, wf_b g tab rank = true -> good_grammar g ->
  (forall r b, nth_error g r = Some (RBody b) -> ranges_ok b = true) ->
  grammar_alt2 g -> closed_names g ->
  forall ptx buf penv, good_buf buf -> valid_buf buf ->
  forall memo1 inline1 sw1 memo2 inline2 sw2 rb st1 st2,
    nth_error g 0 = Some rb -> rb <> RNil ->
    forall out1 out2,
      xcall buf penv (mk_opts true memo1 inline1 (tree_of sw1 g)) (gen_fn (tree_of sw1 g) ptx inline1) 0 (reset st1) out1 ->
      xcall buf penv (mk_opts true memo2 inline2 (tree_of sw2 g)) (gen_fn (tree_of sw2 g) ptx inline2) 0 (reset st2) out2 ->
      exists b s1 s2, out1 = Ret b s1 /\ out2 = Ret b s2 /\ (b = true -> pos s1 = pos s2 /\ Machine.live s1 = Machine.live s2).
Proof. exact generated_parsers_agree. Qed.
Print Assumptions C02_generated_parsers_agree.

(** the pass keeps the references of a tree defined *)
Theorem C02_switch_keeps_references_defined :
  forall g, closed_names g -> closed_names (optimize g).
Proof. exact optimize_closed_names. Qed.
Print Assumptions C02_switch_keeps_references_defined.

(** The same without any side condition on the analysis or on the optimised tree: a grammar with a
    well-formedness certificate whose literals are code points and whose ranges are in order (no
    switch node yet) is all that is needed.  That the fixed-point iteration yields a consistent table,
    that the optimised tree has only code-point keys and that every switch it contains is well guarded
    - each case body may drop its first-character test - are theorems (Proofs/OptSwok.v); when the
    iteration does not stabilise within its bound the pass leaves the tree alone. *)
Theorem C02_switch_invisible_unconditional :
  forall g tab rank, wf_b g tab rank = true -> good_grammar g ->
  (forall r b, nth_error g r = Some (RBody b) -> ranges_ok b = true) ->
  forall ptx buf penv, good_buf buf -> valid_buf buf ->
  forall memo memo' inline inline' r rb st0 st0',
    nth_error g r = Some rb -> rb <> RNil ->
    slot_ok g inline r -> slot_ok (optimize g) inline' r ->
    exists n b st1 st2,
      machine g ptx buf penv memo inline n r st0 = Some (Ret b st1) /\
      machine (optimize g) ptx buf penv memo' inline' n r st0' = Some (Ret b st2) /\
      (b = true -> pos st1 = pos st2 /\ Machine.live st1 = Machine.live st2).
Proof. exact c02_switch_invisible_strong. Qed.
Print Assumptions C02_switch_invisible_unconditional.

(** the switches built by the pass are always well guarded, and its keys are code points *)
Theorem C02_optimised_tree_well_guarded :
  forall g tab rank, wf_b g tab rank = true -> good_grammar g ->
  (forall r b, nth_error g r = Some (RBody b) -> ranges_ok b = true) ->
  good_switches (optimize g) /\ good_grammar (optimize g).
Proof.
  intros g tab rank Hwf Hg Hro. split; [exact (optimize_good_switches g tab rank Hwf Hro)|exact (optimize_good_grammar g tab rank Hwf Hg Hro)].
Qed.
Print Assumptions C02_optimised_tree_well_guarded.

(** the semantic core of it: the optimised tree has exactly the results (verdict, prefix, forest) of
    the original one, in both directions *)
Theorem C02_rewrite_sound :
  forall g tab rank, wf_b g tab rank = true -> opt_ok_b g = true ->
  forall ptx buf penv, valid_buf buf ->
  (forall r n x, peg_parse g ptx buf penv n r = Some x ->
     exists m evs', peg_parse (optimize g) ptx buf penv m r = Some (fst x, evs')) /\
  (forall r m y, peg_parse (optimize g) ptx buf penv m r = Some y ->
     exists n evs, peg_parse g ptx buf penv n r = Some (fst y, evs)).
Proof.
  intros g tab rank Hwf Hopt ptx buf penv Hb. split.
  - exact (optimize_sound g tab rank Hwf Hopt ptx buf penv Hb).
  - exact (optimize_complete g tab rank Hwf Hopt ptx buf penv Hb).
Qed.
Print Assumptions C02_rewrite_sound.

(** the first-set analysis on its own: with a consistent table, an expression that succeeds having
    consumed did so on a character of its set, and a "must consume" expression never succeeds empty *)
Theorem C02_first_sets_sound :
  forall g T, t_ok_b g T = true -> forall ptx buf penv, (forall c, In c buf -> (0 <= c <= maxRune)%Z) ->
  forall n e, ranges_ok e = true -> fs_ok g ptx buf penv (fs T e) n e.
Proof. exact first_sound. Qed.
Print Assumptions C02_first_sets_sound.

(** non-vacuity: a grammar that the pass really rewrites (one ordered alternative kept in front of a
    three-way switch), with all side conditions true, parsed identically before and after *)
Definition opt_g : grammar :=
  [ RBody (ESeq [EName 1; ENot EDot]);
    RBody (EAlt [ESeq [EChar 97; EChar 120]; ESeq [EChar 97; EChar 121]; ESeq [ERange 98 99; EChar 121];
                 ESeq [EChar 100; EChar 122]; EPlus (EChar 101)]) ]%Z.
Example C02_switch_nonvacuous :
  wf_auto opt_g = true /\ opt_ok_b opt_g = true /\
  good_grammar_b opt_g = true /\ good_grammar_b (optimize opt_g) = true /\
  good_switches_b opt_g = true /\ good_switches_b (optimize opt_g) = true /\
  valid_buf_b [97; 121]%Z = true /\
  optimize opt_g <> opt_g /\
  verdict_of (peg_parse opt_g 9 [97; 121]%Z (std_penv [97; 121]%Z) 30 0) = Some (Some 2) /\
  verdict_of (peg_parse (optimize opt_g) 9 [97; 121]%Z (std_penv [97; 121]%Z) 30 0) = Some (Some 2) /\
  mach_view (machine (optimize opt_g) 9 [97; 121]%Z (std_penv [97; 121]%Z) true false 30 0 zero_state) =
  mach_view (machine opt_g 9 [97; 121]%Z (std_penv [97; 121]%Z) true false 30 0 zero_state).
Proof. vm_compute. repeat split; try reflexivity. discriminate. Qed.

(** non-vacuity of the unconditional code-level theorem: the same grammar meets its syntactic premises, the pass does
    rewrite it, and the rewritten tree meets the emitter's condition under both -inline settings *)
Example C02_code_unconditional_nonvacuous :
  wf_auto opt_g = true /\ good_grammar_b opt_g = true /\ grammar_alt2_b opt_g = true /\ closed_names_b opt_g = true /\
  forallb (fun rb => match rb with RBody b => ranges_ok b | _ => true end) opt_g = true /\
  closed_names_b (optimize opt_g) = true /\
  deep_table_b (optimize opt_g) false = true /\ deep_table_b (optimize opt_g) true = true /\
  reached (count_rules (optimize opt_g)) 0 = true.
Proof. vm_compute. repeat split; reflexivity. Qed.

(** non-vacuity: a tree with a well-guarded switch, run with a skip-check flag *)
Definition sw_g : grammar :=
  [ RBody (ESeq [ESwitch [([97], ESeq [EChar 97; EChar 120]); ([98; 99], ESeq [ERange 98 99; EChar 121])]
                          (ESeq [EChar 100; EChar 122]); ENot EDot]) ]%Z.
Example C02_nonvacuous :
  good_switches_b sw_g = true /\ good_grammar_b sw_g = true /\
  verdict_of (peg_parse sw_g 9 [99; 121]%Z (std_penv [99; 121]%Z) 30 0) = Some (Some 2) /\
  mach_view (machine sw_g 9 [99; 121]%Z (std_penv [99; 121]%Z) true false 30 0 zero_state) = Some (true, 2, [(0, (0, 2))], (0, (0, 2))).
Proof. vm_compute. repeat split; reflexivity. Qed.
