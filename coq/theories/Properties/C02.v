(** C02: -inline and -switch never change what the generated parser accepts or records. *)
From PegV Require Import Base.Tac Spec.Syntax Spec.Peg Spec.WF Model.Machine Model.SkipCheck Model.Gen Proofs.Top Properties.Example.

(** For one grammar term [g] (the tree the generator compiles), every combination of the memo and
    inline decisions gives the same verdict, consumed prefix and token sequence, from any earlier
    parser states.  With -switch off this is the whole -inline part of the property.  With -switch
    on, [g] is the optimised tree (switch nodes, skip-check flags): the statement, through
    C01_machine_is_peg, says that the emitted switch dispatch and the dropped first-character tests
    compute the PEG semantics of the optimised tree provided its switches are well guarded
    ([good_switches], an executable check re-evaluated for every grammar of the correspondence run). *)
Theorem C02_inline_invisible :
  forall g ptx buf penv, good_grammar g -> good_buf buf -> good_switches g ->
  forall memo memo' inline inline' n r st0 st0' rr,
    slot_ok g inline r -> slot_ok g inline' r -> peg_parse g ptx buf penv n r = Some rr ->
    exists b st1 st2,
      machine g ptx buf penv memo inline n r st0 = Some (Ret b st1) /\
      machine g ptx buf penv memo' inline' n r st0' = Some (Ret b st2) /\
      (b = true -> pos st1 = pos st2 /\ live st1 = live st2).
Proof. exact c02_inline_invisible. Qed.
Print Assumptions C02_inline_invisible.

(** Full statement for -switch, NOT yet proved here: the optimised tree has the same semantics as the
    original one (first-set soundness + soundness of moving guarded alternatives into a switch).
    Until then the equality "optimised tree = original tree" is decided by the correspondence run:
    implementation under {-switch} vs implementation without, and both vs the model. *)
Definition C02_switch_rewrite_statement : Prop :=
  forall (optimise : grammar -> grammar) g ptx buf penv n r,
    option_map fst (peg_parse (optimise g) ptx buf penv n r) = option_map fst (peg_parse g ptx buf penv n r).

(** non-vacuity: a tree with a well-guarded switch, run with a skip-check flag *)
Definition sw_g : grammar :=
  [ RBody (ESeq [ESwitch [([97], ESeq [EChar 97; EChar 120]); ([98; 99], ESeq [ERange 98 99; EChar 121])]
                          (ESeq [EChar 100; EChar 122]); ENot EDot]) ]%Z.
Example C02_nonvacuous :
  good_switches_b sw_g = true /\ good_grammar_b sw_g = true /\
  verdict_of (peg_parse sw_g 9 [99; 121]%Z (std_penv [99; 121]%Z) 30 0) = Some (Some 2) /\
  mach_view (machine sw_g 9 [99; 121]%Z (std_penv [99; 121]%Z) true false 30 0 zero_state) = Some (true, 2, [(0, (0, 2))], (0, (0, 2))).
Proof. vm_compute. repeat split; reflexivity. Qed.
