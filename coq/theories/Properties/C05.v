(** C05: AST() and the syntax-tree printers reproduce the derivation tree. *)
From PegV Require Import Base.Tac Spec.Syntax Spec.Peg Spec.Tokens Model.Machine Model.Runtime Model.Gen Proofs.Top Properties.Example Model.Analyses Model.Emit Model.SEmit Model.Exec Proofs.SEmitFile Spec.WF Model.Optimize Model.Premises Proofs.OptSound Proofs.ParseTop.
Local Open Scope nat_scope.

(** The stack algorithm of AST() applied to the tokens of a successful parse returns the
    derivation tree with its empty nodes removed: every non-empty token is a node, a node's children
    are the non-empty tokens nested directly inside it, in input order; the printer lists the nodes
    in pre-order with depth = nesting (the text shown is the slice [begin,end) of the runes). *)
Theorem C05_ast_is_derivation_tree :
  forall g ptx buf penv, good_grammar g -> good_buf buf -> good_switches g ->
  forall memo inline n r st0 p f evs,
    slot_ok g inline r -> peg_parse g ptx buf penv n r = Some (Succ p f, evs) ->
    exists st' kids, machine g ptx buf penv memo inline n r st0 = Some (Ret true st') /\ f = [Node r 0 p kids] /\
      ast (live st') = (if 0 =? p then None else Some (Rose (r, (0, p)) (prune_forest kids))) /\
      print_tree (live st') = (if 0 =? p then [] else preorder 0 (Rose (r, (0, p)) (prune_forest kids))).
Proof. exact c05_ast. Qed.
Print Assumptions C05_ast_is_derivation_tree.

(** ... and so for the tokens the statements of the generated file record (Model/SEmit.v, Model/Exec.v, see C01) *)
Theorem C05_generated_code_ast :
  forall g ptx buf penv, good_grammar g -> good_buf buf -> good_switches g ->
  forall memo inline n r st0 p f evs,
    deep_table_b g inline = true -> slot_ok g inline r -> reached (count_rules g) r = true ->
    peg_parse g ptx buf penv (S n) r = Some (Succ p f, evs) ->
    forall res, xcall buf penv (mk_opts true memo inline g) (gen_fn g ptx inline) r (reset st0) res ->
      exists st' kids, res = Ret true st' /\ f = [Node r 0 p kids] /\
        ast (live st') = (if 0 =? p then None else Some (Rose (r, (0, p)) (prune_forest kids))) /\
        print_tree (live st') = (if 0 =? p then [] else preorder 0 (Rose (r, (0, p)) (prune_forest kids))).
Proof. exact generated_code_ast. Qed.
Print Assumptions C05_generated_code_ast.

(** ... and with no side condition and no hypothesis that the semantics has a result (Proofs/ParseTop.v): for every grammar
    with a well-formedness certificate, every combination of memo table / -inline / -switch ([tree_of sw g] is the
    optimised tree), every input and every earlier parser state - when the grammar as written accepts a prefix with
    derivation forest [f], every execution of the call Parse() makes returns true and AST() over the tokens it has recorded
    is the derivation tree without its empty nodes, children in input order, and the printers walk it in pre-order. *)
Theorem C05_generated_parser_ast :
  forall g tab rank, wf_b g tab rank = true -> good_grammar g ->
  (forall r b, nth_error g r = Some (RBody b) -> ranges_ok b = true) ->
  grammar_alt2 g -> closed_names g ->
  forall ptx buf penv, good_buf buf -> valid_buf buf ->
  forall memo inline sw rb st0,
    nth_error g 0 = Some rb -> rb <> RNil ->
    exists n res evs, peg_parse g ptx buf penv n 0 = Some (res, evs) /\
      forall p f, res = Succ p f ->
      forall out, xcall buf penv (mk_opts true memo inline (tree_of sw g)) (gen_fn (tree_of sw g) ptx inline) 0 (reset st0) out ->
        exists st' kids, out = Ret true st' /\ f = [Node 0 0 p kids] /\
          ast (live st') = (if 0 =? p then None else Some (Rose (0, (0, p)) (prune_forest kids))) /\
          print_tree (live st') = (if 0 =? p then [] else preorder 0 (Rose (0, (0, p)) (prune_forest kids))).
Proof. exact generated_parser_ast. Qed.
Print Assumptions C05_generated_parser_ast.

(** non-vacuity: "aby": R0[0,3) > R1[0,2) > PegText[0,2); the zero-width Action0 token is dropped *)
Example C05_nonvacuous :
  exists st, mach_of true ex_in_ok 0 zero_state = Some (Ret true st) /\
    print_tree (live st) = [(0, (0, (0, 3))); (1, (1, (0, 2))); (2, (2, (0, 2)))].
Proof. eexists. split; vm_compute; reflexivity. Qed.
