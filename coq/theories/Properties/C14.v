(** C14: independent parser instances do not interfere under concurrency. *)
From PegV Require Import Base.Tac Spec.Syntax Model.Machine Model.Conc Proofs.ConcProofs Generated.Confinement.

(** For any number of instances, each a deterministic step machine over its own state (Init / Reset /
    Parse / Execute / AST / printing are steps), and EVERY schedule (interleaving of their steps):
    instance i ends in the state and produces the outputs of running its own operations alone. *)
Theorem C14_instances_independent :
  forall (S O Op : Type) (step : S -> Op -> S * O) sched (gs : gstate S) i,
    fst (grun S O Op step gs sched) i = fst (lrun S O Op step (gs i) (proj_ops Op i sched)) /\
    proj_outs O i (snd (grun S O Op step gs sched)) = snd (lrun S O Op step (gs i) (proj_ops Op i sched)).
Proof. exact instances_independent. Qed.
Print Assumptions C14_instances_independent.

(** steps of different instances commute (no step of one is visible to another) *)
Theorem C14_steps_commute :
  forall (S O Op : Type) (step : S -> Op -> S * O) (gs : gstate S) i j a b, i <> j ->
    forall k, fst (grun S O Op step gs [(i, a); (j, b)]) k = fst (grun S O Op step gs [(j, b); (i, a)]) k.
Proof. exact steps_of_different_instances_commute. Qed.
Print Assumptions C14_steps_commute.

(** The premise "each instance only touches its own state" for the generated parsers: in every
    generated file scanned in this run (and in peg.peg.go) no statement assigns to, or takes the address
    of, a package-level variable, and no goroutine is started; all mutable state lives in variables
    local to Init and in the parser struct. *)
Theorem C14_generated_parsers_confined :
  package_var_writes = [] /\ go_statements = [] /\ files_scanned >= 1.
Proof. split; [reflexivity|]. split; [reflexivity|]. unfold files_scanned. lia. Qed.
Print Assumptions C14_generated_parsers_confined.
