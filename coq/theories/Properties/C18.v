(** C18: the CLI exits zero only after writing a complete parser. *)
From Coq Require Import List Bool.
From PegV Require Import Model.Cli Generated.CliFacts Proofs.CliProofs.

(** For every combination of -strict, source (file / stdin), -output (unset / FILE / -), and outcome
    of each step of main (open input, open output, read, front-end parse, Compile in
    {ok, warnings, template error, invalid Go}, writing the result) - the enumeration [all_inputs] is proved complete -
    the decision function of main.go, instantiated with the facts regenerated from main.go's AST:
    exits 0 only after a complete parser was written to the destination the flags denote; every
    failure class gives a non-zero exit and a message with or without -strict; warnings fail under
    -strict and otherwise succeed; no diagnostics means silent success. *)
Theorem C18_exit_zero_iff_complete :
  forall i, c18_ok fatal_on_error fatal_only_if_strict i = true.
Proof. exact c18_holds. Qed.
Print Assumptions C18_exit_zero_iff_complete.

(** non-vacuity: a missing grammar file without -strict is a failing input and exits non-zero *)
Example C18_nonvacuous :
  let i := mkin false SrcFile OutUnset false true true true CompOk true in
  failing i = true /\ co_exit_zero (cli_model fatal_on_error fatal_only_if_strict i) = false /\
  length all_inputs = 1536.
Proof. vm_compute. repeat split; reflexivity. Qed.
