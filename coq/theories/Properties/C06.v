(** C06: packrat memoisation is invisible except in speed. *)
From PegV Require Import Base.Tac Spec.Syntax Spec.Peg Model.Machine Model.Gen Model.Analyses Model.Emit Model.SEmit Model.Exec
  Proofs.Top Proofs.SEmitFile Spec.WF Model.Optimize Model.Premises Proofs.OptSound Proofs.ParseTop Properties.Example.
Local Open Scope nat_scope.

(** With memoisation enabled or disabled (DisableMemoize), from any earlier states, the machine
    returns the same verdict, the same position and tokens on success and the same error token on
    failure, whenever the semantics has a result (predicates are pure: [penv]).  The proof carries
    the invariant that every memo entry equals what re-running the rule returns (replay restores
    position and tokens exactly) and that re-running could not move maxToken. *)
Theorem C06_memo_invisible :
  forall g ptx buf penv, good_grammar g -> good_buf buf -> good_switches g ->
  forall inline n r st0 st0' rr,
    slot_ok g inline r -> peg_parse g ptx buf penv n r = Some rr ->
    exists b st1 st2,
      machine g ptx buf penv true inline n r st0 = Some (Ret b st1) /\
      machine g ptx buf penv false inline n r st0' = Some (Ret b st2) /\
      (b = true -> pos st1 = pos st2 /\ live st1 = live st2) /\
      (b = false -> maxtok st1 = maxtok st2).
Proof. exact c06_memo_invisible. Qed.
Print Assumptions C06_memo_invisible.

(** The same for the statements of the generated file (Model/SEmit.v under the goto semantics of Model/Exec.v, see
    C01): whatever the entry's function returns with the memo table in use equals what it returns with
    DisableMemoize, from any two earlier parser states (and likewise for two -inline settings). *)
Theorem C06_generated_code_memo_invisible :
  forall g ptx buf penv, good_grammar g -> good_buf buf -> good_switches g ->
  forall memo1 inline1 memo2 inline2 n r st1 st2 rr,
    deep_table_b g inline1 = true -> slot_ok g inline1 r -> deep_table_b g inline2 = true -> slot_ok g inline2 r ->
    reached (count_rules g) r = true -> peg_parse g ptx buf penv (S n) r = Some rr ->
    forall res1 res2,
      xcall buf penv (mk_opts true memo1 inline1 g) (gen_fn g ptx inline1) r (reset st1) res1 ->
      xcall buf penv (mk_opts true memo2 inline2 g) (gen_fn g ptx inline2) r (reset st2) res2 ->
      exists b s1 s2, res1 = Ret b s1 /\ res2 = Ret b s2 /\
        (b = true -> pos s1 = pos s2 /\ live s1 = live s2) /\ (b = false -> maxtok s1 = maxtok s2).
Proof. exact generated_code_options_invisible. Qed.
Print Assumptions C06_generated_code_memo_invisible.

(** ... and with no side condition at all (Proofs/ParseTop.v): for every grammar with a well-formedness certificate, under
    either -inline setting and with or without -switch, from any two earlier parser states, the call Parse() makes with
    the memo table in use and the one it makes with DisableMemoize return the same verdict and, on success, the same
    offset and token list - every execution of either. *)
Theorem C06_generated_parser_memo_invisible :
  forall g tab rank, wf_b g tab rank = true -> good_grammar g ->
  (forall r b, nth_error g r = Some (RBody b) -> ranges_ok b = true) ->
  grammar_alt2 g -> closed_names g ->
  forall ptx buf penv, good_buf buf -> valid_buf buf ->
  forall inline sw rb st1 st2,
    nth_error g 0 = Some rb -> rb <> RNil ->
    forall out1 out2,
      xcall buf penv (mk_opts true true inline (tree_of sw g)) (gen_fn (tree_of sw g) ptx inline) 0 (reset st1) out1 ->
      xcall buf penv (mk_opts true false inline (tree_of sw g)) (gen_fn (tree_of sw g) ptx inline) 0 (reset st2) out2 ->
      exists b s1 s2, out1 = Ret b s1 /\ out2 = Ret b s2 /\ (b = true -> pos s1 = pos s2 /\ live s1 = live s2).
Proof.
  intros g tab rank Hwf Hg Hro Ha Hc ptx buf penv Hb Hv inline sw rb st1 st2 Hr Hn out1 out2 X1 X2.
  exact (generated_parsers_agree g tab rank Hwf Hg Hro Ha Hc ptx buf penv Hb Hv true inline sw false inline sw rb st1 st2 Hr Hn out1 out2 X1 X2).
Qed.
Print Assumptions C06_generated_parser_memo_invisible.

(** non-vacuity: on "aby" rule R1 is re-entered at offset 0 after backtracking: with memoisation the
    second and third entries are memo hits; both machines agree *)
Example C06_nonvacuous :
  mach_view (mach_of true ex_in_ok 0 zero_state) = mach_view (mach_of false ex_in_ok 0 zero_state) /\
  (exists st, mach_of true ex_in_ok 0 zero_state = Some (Ret true st) /\ length (memo st) = 3) /\
  (exists st, mach_of false ex_in_ok 0 zero_state = Some (Ret true st) /\ length (memo st) = 0).
Proof. vm_compute. split; [reflexivity|]. split; eexists; split; reflexivity. Qed.
