(** C06: packrat memoisation is invisible except in speed. *)
From PegV Require Import Base.Tac Spec.Syntax Spec.Peg Model.Machine Model.Gen Proofs.Top Properties.Example.

(** With memoisation enabled or disabled (DisableMemoize), from any earlier states, the machine
    returns the same verdict, the same position and tokens on success and the same error token on
    failure, whenever the semantics has a result (predicates are pure: [penv]).  The proof carries
    the invariant that every memo entry equals what re-running the rule returns (replay restores
    position and tokens exactly) and that re-running could not move maxToken. *)
Theorem C06_memo_invisible :
  forall g ptx buf penv, good_grammar g -> good_buf buf -> good_switches g ->
  forall inline n r st0 st0' rr,
    slot_ok g inline r -> peg_parse g ptx buf penv n r = Some rr ->
    exists b st1 st2,
      machine g ptx buf penv true inline n r st0 = Some (Ret b st1) /\
      machine g ptx buf penv false inline n r st0' = Some (Ret b st2) /\
      (b = true -> pos st1 = pos st2 /\ live st1 = live st2) /\
      (b = false -> maxtok st1 = maxtok st2).
Proof. exact c06_memo_invisible. Qed.
Print Assumptions C06_memo_invisible.

(** non-vacuity: on "aby" rule R1 is re-entered at offset 0 after backtracking: with memoisation the
    second and third entries are memo hits; both machines agree *)
Example C06_nonvacuous :
  mach_view (mach_of true ex_in_ok 0 zero_state) = mach_view (mach_of false ex_in_ok 0 zero_state) /\
  (exists st, mach_of true ex_in_ok 0 zero_state = Some (Ret true st) /\ length (memo st) = 3) /\
  (exists st, mach_of false ex_in_ok 0 zero_state = Some (Ret true st) /\ length (memo st) = 0).
Proof. vm_compute. split; [reflexivity|]. split; eexists; split; reflexivity. Qed.
