(** A concrete grammar and inputs used by the non-vacuity examples of the property files.
    R0 <- (R1 'x' / R1 'y' / R1 R1) !.     R1 <- <[a-c]+> Action0 / 'd' Action1
    (rules 2 = PegText, 3 = Action0, 4 = Action1), the first corpus grammar of the harness. *)
From PegV Require Import Base.Tac Spec.Syntax Spec.Peg Model.Machine Model.Gen Proofs.Top Proofs.Sim.
Local Open Scope Z_scope.

Definition ex_g : grammar :=
  [ RBody (ESeq [EAlt [ESeq [EName 1; EChar 120]; ESeq [EName 1; EChar 121]; ESeq [EName 1; EName 1]]; ENot EDot]);
    RBody (EAlt [ESeq [EPush (EPlus (ERange 97 99)); EName 3]; ESeq [EChar 100; EName 4]]);
    RNil; RAct 0; RAct 1 ].
Definition ex_ptx : nat := 2.
Definition ex_in_ok : list rune := [97; 98; 121].       (* "aby" : accepted through the second alternative *)
Definition ex_in_bad : list rune := [97; 98; 122].      (* "abz" : rejected *)

Lemma ex_good : good_grammar ex_g.
Proof. apply good_grammar_b_ok. vm_compute. reflexivity. Qed.
Lemma ex_sw : good_switches ex_g.
Proof. apply good_switches_b_ok. vm_compute. reflexivity. Qed.
Lemma ex_buf_ok : good_buf ex_in_ok.
Proof. intros c H. cbn in H. intuition (subst; discriminate). Qed.
Lemma ex_buf_bad : good_buf ex_in_bad.
Proof. intros c H. cbn in H. intuition (subst; discriminate). Qed.

Definition verdict_of (o : option out) : option (option nat) :=
  match o with
  | None => None
  | Some (Succ p _, _) => Some (Some p)
  | Some (Fail, _) => Some None
  end.
Definition spec_of (buf : list rune) (r : nat) : option out := peg_parse ex_g ex_ptx buf (std_penv buf) 60 r.
Definition mach_of (memo : bool) (buf : list rune) (r : nat) (st0 : mstate) : option mres :=
  machine ex_g ex_ptx buf (std_penv buf) memo false 60 r st0.
Definition mach_view (m : option mres) : option (bool * nat * list tok * tok) :=
  match m with
  | Some (Ret b st) => Some (b, pos st, live st, maxtok st)
  | _ => None
  end.
