(** C01: the generated parser recognises exactly the grammar's PEG language. *)
From PegV Require Import Base.Tac Spec.Syntax Spec.Peg Spec.WF Model.Machine Model.Gen Model.Analyses Model.Emit Model.SEmit Model.Exec
  Proofs.Top Proofs.EmitUse Proofs.SEmitSound Proofs.SEmitFile Proofs.DeepDefault Proofs.CountInline Model.Optimize Proofs.OptSound Proofs.ParseTop Properties.Example Generated.PegPeg.
From Coq Require Import Lia.
Local Open Scope nat_scope.

(** For every grammar the default generator handles (no switch nodes, literals are code points),
    every rune list, every rule used as entry whose slot holds a function, every memo / inline
    setting, every earlier state of the parser object and every fuel: whenever the PEG semantics
    (ordered choice, greedy possessive repetition, non-consuming lookahead, terminals) of the entry
    rule at offset 0 has a result, the machine returns exactly it: a match consuming the same
    prefix, or a parse error. *)
Theorem C01_machine_is_peg :
  forall g ptx buf penv, good_grammar g -> good_buf buf -> good_switches g ->
  forall memo inline n r st0 rr,
    slot_ok g inline r -> peg_parse g ptx buf penv n r = Some rr ->
    match fst rr with
    | Succ p _ => exists st', machine g ptx buf penv memo inline n r st0 = Some (Ret true st') /\ pos st' = p
    | Fail => exists st', machine g ptx buf penv memo inline n r st0 = Some (Ret false st')
    end.
Proof. exact c01_verdict_prefix. Qed.
Print Assumptions C01_machine_is_peg.

(** Totality: a grammar is well-formed when [wf_b] accepts it with some certificate (nullability table
    + rank per rule): no rule reaches itself through head positions, no repetition of an expression
    that may succeed without consuming, every referenced rule is defined.  On such a grammar the
    semantics has a result for every input and entry rule, so the statement above is unconditional:
    the machine terminates with the verdict and prefix of the PEG semantics. *)
Theorem C01_total :
  forall g ptx buf penv, good_grammar g -> good_buf buf -> good_switches g ->
  forall tab rank memo inline r rb st0,
    wf_b g tab rank = true -> nth_error g r = Some rb -> rb <> RNil -> slot_ok g inline r ->
    exists n rr b st', peg_parse g ptx buf penv n r = Some rr /\
      machine g ptx buf penv memo inline n r st0 = Some (Ret b st') /\
      (b = true <-> exists p f, fst rr = Succ p f /\ pos st' = p).
Proof. exact c01_total_machine. Qed.
Print Assumptions C01_total.

Example C01_wf_nonvacuous : wf_auto ex_g = true.
Proof. vm_compute. reflexivity. Qed.

(** non-vacuity: the example grammar accepts "aby" consuming 3 runes and rejects "abz",
    from the first rule and from rule 1 used as entry *)
Example C01_nonvacuous :
  slot_ok ex_g false 0 /\ slot_ok ex_g false 1 /\
  verdict_of (spec_of ex_in_ok 0) = Some (Some 3) /\
  verdict_of (spec_of ex_in_bad 0) = Some None /\
  verdict_of (spec_of ex_in_ok 1) = Some (Some 2).
Proof. vm_compute. repeat split; reflexivity. Qed.

(** ** the statements of the generated file

    Model/SEmit.v writes, for every rule that gets a function, the statements the generator's templates write
    (position++, the character tests with their goto, the saves and restores of position / tokenIndex, add,
    memoize, the calls of other rule functions, blocks with break, switch with its clauses); Model/Exec.v gives
    them the meaning Go gives them: a goto leaves the blocks it stands in until it finds its label, break leaves
    one block, return leaves the function.  [forget] maps the statements onto the skeleton the correspondence
    check reads back from every generated file. *)

(** the statements refine the skeleton: forgetting which statement is which gives Model/Emit.v's file *)
Theorem C01_statements_refine_skeleton :
  forall g ptx ast inline asu undef,
    map (option_map forget) (semit_all g ptx ast inline asu undef) = emit_all g ast inline asu undef.
Proof. exact forget_semit_all. Qed.
Print Assumptions C01_statements_refine_skeleton.

(** every rule function of the file, called in any state, returns what the machine's rule function returns:
    same verdict, position, tokens, memo table, text register; it crashes only where the machine says so *)
Theorem C01_rule_functions_are_the_machine :
  forall g ptx ast memo inline asu buf penv, deep_table_b g inline = true ->
  forall n r m res,
    o_inline (emit_opts g ast memo inline asu) r = false -> reached (count_rules g) r = true ->
    (exists b, nth_error g r = Some b /\ b <> RNil) ->
    rule_fn g (emit_opts g ast memo inline asu) (run_f g ptx buf penv (emit_opts g ast memo inline asu) n) r m = Some res ->
    xcall buf penv (emit_opts g ast memo inline asu) (emitted_fn g ptx ast inline asu) r m res.
Proof. exact emitted_file_sound. Qed.
Print Assumptions C01_rule_functions_are_the_machine.

(** ... and with the machine theorem above: the generated statements compute the PEG semantics *)
Theorem C01_generated_code_is_peg :
  forall g ptx buf penv, good_grammar g -> good_buf buf -> good_switches g ->
  forall memo inline n r st0 rr,
    deep_table_b g inline = true -> slot_ok g inline r -> reached (count_rules g) r = true ->
    peg_parse g ptx buf penv (S n) r = Some rr ->
    exists res, xcall buf penv (mk_opts true memo inline g) (gen_fn g ptx inline) r (reset st0) res /\
      match rr with
      | (Succ p f, _) => exists st', res = Ret true st' /\ pos st' = p /\ live st' = Syntax.flat f
      | (Fail, evs) => exists st', res = Ret false st' /\ maxtok st' = first_furthest evs
      end.
Proof. exact generated_code_is_peg. Qed.
Print Assumptions C01_generated_code_is_peg.

(** ... and every execution does: the goto semantics is deterministic (Proofs/ExecDet.v), so whatever the entry's
    function returns is that result *)
Theorem C01_generated_code_every_execution :
  forall g ptx buf penv, good_grammar g -> good_buf buf -> good_switches g ->
  forall memo inline n r st0 rr,
    deep_table_b g inline = true -> slot_ok g inline r -> reached (count_rules g) r = true ->
    peg_parse g ptx buf penv (S n) r = Some rr ->
    forall res, xcall buf penv (mk_opts true memo inline g) (gen_fn g ptx inline) r (reset st0) res ->
      match rr with
      | (Succ p f, _) => exists st', res = Ret true st' /\ pos st' = p /\ live st' = Syntax.flat f
      | (Fail, evs) => exists st', res = Ret false st' /\ maxtok st' = first_furthest evs
      end.
Proof. exact generated_code_every_execution. Qed.
Print Assumptions C01_generated_code_every_execution.

(** With the default options (-inline off) the side condition is a theorem (Proofs/CountReach.v: the rules countRules
    marks are closed under the names in their bodies and its fuel suffices; Proofs/DeepDefault.v), and the first rule
    is always marked: for every grammar whose names all stand for a rule or an action and whose choices have two
    alternatives or more (what the front end builds), every input, memo setting and earlier parser state, every
    execution of the first rule's function of the generated file returns what the PEG semantics says. *)
Theorem C01_generated_code_is_peg_default :
  forall g ptx buf penv, good_grammar g -> good_buf buf -> good_switches g -> grammar_alt2 g -> closed_names g ->
  forall memo n st0 rr, peg_parse g ptx buf penv (S n) 0 = Some rr ->
  forall res, xcall buf penv (mk_opts true memo false g) (gen_fn g ptx false) 0 (reset st0) res ->
    match rr with
    | (Succ p f, _) => exists st', res = Ret true st' /\ pos st' = p /\ live st' = Syntax.flat f
    | (Fail, evs) => exists st', res = Ret false st' /\ maxtok st' = first_furthest evs
    end.
Proof. exact generated_code_default_start. Qed.
Print Assumptions C01_generated_code_is_peg_default.
(** ... and from any other rule countRules marks *)
Theorem C01_generated_code_is_peg_default_any_rule :
  forall g ptx buf penv, good_grammar g -> good_buf buf -> good_switches g -> grammar_alt2 g -> closed_names g ->
  forall memo n r st0 rr, reached (count_rules g) r = true -> peg_parse g ptx buf penv (S n) r = Some rr ->
  forall res, xcall buf penv (mk_opts true memo false g) (gen_fn g ptx false) r (reset st0) res ->
    match rr with
    | (Succ p f, _) => exists st', res = Ret true st' /\ pos st' = p /\ live st' = Syntax.flat f
    | (Fail, evs) => exists st', res = Ret false st' /\ maxtok st' = first_furthest evs
    end.
Proof. exact generated_code_default. Qed.
Print Assumptions C01_generated_code_is_peg_default_any_rule.
(** ... and with -inline: a rule countRules arrives at once is met by its depth-first walk on the first arrival only, which
    walks the body there and then with fuel to spare, and the emitter walks the same bodies in the same nesting
    (Proofs/CountInline.v).  So [deep_table_b] holds for every grammar under either setting, and the code-level theorems
    of C01 - C07, C11 - C13 need no side condition beyond the two syntactic ones. *)
Theorem C01_side_condition_always_holds :
  forall g inline, grammar_alt2 g -> closed_names g -> deep_table_b g inline = true.
Proof. exact deep_table_all. Qed.
Print Assumptions C01_side_condition_always_holds.
Theorem C01_generated_code_is_peg_all_options :
  forall g ptx buf penv, good_grammar g -> good_buf buf -> good_switches g -> grammar_alt2 g -> closed_names g ->
  forall memo inline n r st0 rr, slot_ok g inline r -> reached (count_rules g) r = true -> peg_parse g ptx buf penv (S n) r = Some rr ->
  forall res, xcall buf penv (mk_opts true memo inline g) (gen_fn g ptx inline) r (reset st0) res ->
    match rr with
    | (Succ p f, _) => exists st', res = Ret true st' /\ pos st' = p /\ live st' = Syntax.flat f
    | (Fail, evs) => exists st', res = Ret false st' /\ maxtok st' = first_furthest evs
    end.
Proof. exact generated_code_all_options. Qed.
Print Assumptions C01_generated_code_is_peg_all_options.
Example C01_default_nonvacuous : grammar_alt2 ex_g /\ closed_names ex_g /\ grammar_alt2 pegpeg_d /\ closed_names pegpeg_d.
Proof.
  split; [apply grammar_alt2_b_ok; vm_compute; reflexivity|]. split; [apply closed_names_b_ok; vm_compute; reflexivity|].
  split; [apply grammar_alt2_b_ok; vm_compute; reflexivity|apply closed_names_b_ok; vm_compute; reflexivity].
Qed.

(** the bridge for the other properties: what the entry's function of the generated file returns IS what the machine
    returns (and is never a crash), so every theorem about [machine .. = Some (Ret b st')] - the tokens (C03), Execute's
    trace (C04), the syntax tree (C05), memoisation (C06), the error token (C11), reuse after Reset (C12: [st0] is any
    earlier state), no crash (C13) - is a theorem about the generated statements; C04, C05, C06, C11, C13 state theirs *)
Theorem C01_generated_code_is_machine :
  forall g ptx buf penv, good_grammar g -> good_buf buf -> good_switches g ->
  forall memo inline n r st0 rr,
    deep_table_b g inline = true -> slot_ok g inline r -> reached (count_rules g) r = true ->
    peg_parse g ptx buf penv (S n) r = Some rr ->
    forall res, xcall buf penv (mk_opts true memo inline g) (gen_fn g ptx inline) r (reset st0) res ->
      machine g ptx buf penv memo inline (S n) r st0 = Some res /\ res <> Crash.
Proof. exact generated_code_is_machine. Qed.
Print Assumptions C01_generated_code_is_machine.

(** THE HEADLINE, at the level of the statements peg writes: for every grammar with a well-formedness certificate
    (ranges in order, two alternatives per choice, every reference defined - what the front end builds and the link pass
    leaves), under every combination of -inline and -switch ([tree_of sw g] is the optimised tree when -switch is on) and
    with or without the memo table, on every input of code points and from every earlier parser state, the call Parse()
    makes - the first rule's function in a reset parser - has an execution, that execution returns and is the only one,
    and what it returns is the verdict, the offset and the token list of the PEG semantics of the grammar AS WRITTEN.
    No hypothesis about the analysis, the optimised tree, the emitter's bookkeeping or the existence of a result
    (Proofs/ParseTop.v: Ford's totality, the -switch rewrite's soundness, the machine simulation, the goto semantics of
    the emitted statements, its determinism, and the counting arguments for the emitter's fuel, composed). *)
Theorem C01_generated_parser_correct :
  forall g tab rank, wf_b g tab rank = true -> good_grammar g ->
  (forall r b, nth_error g r = Some (RBody b) -> ranges_ok b = true) ->
  grammar_alt2 g -> closed_names g ->
  forall ptx buf penv, good_buf buf -> valid_buf buf ->
  forall memo inline sw rb st0,
    nth_error g 0 = Some rb -> rb <> RNil ->
    exists n res evs b st',
      peg_parse g ptx buf penv n 0 = Some (res, evs) /\
      xcall buf penv (mk_opts true memo inline (tree_of sw g)) (gen_fn (tree_of sw g) ptx inline) 0 (reset st0) (Ret b st') /\
      (forall out, xcall buf penv (mk_opts true memo inline (tree_of sw g)) (gen_fn (tree_of sw g) ptx inline) 0 (reset st0) out -> out = Ret b st') /\
      match res with
      | Succ p f => b = true /\ pos st' = p /\ live st' = Syntax.flat f
      | Fail => b = false
      end.
Proof. exact generated_parser_correct. Qed.
Print Assumptions C01_generated_parser_correct.

(** non-vacuity: the side condition holds for the example grammar under both settings and for the grammar
    peg's own front end is generated from (-inline -switch), and the first rule of the example has a function of more than four statements *)
Example C01_code_nonvacuous :
  deep_table_b ex_g false = true /\ deep_table_b ex_g true = true /\ deep_table_b pegpeg_is true = true /\
  match gen_fn ex_g ex_ptx true 0 with Some body => Nat.ltb 4 (length body) | None => false end = true.
Proof. split; [vm_compute; reflexivity|]. split; [vm_compute; reflexivity|]. split; vm_compute; reflexivity. Qed.
