(** C01: the generated parser recognises exactly the grammar's PEG language. *)
From PegV Require Import Base.Tac Spec.Syntax Spec.Peg Spec.WF Model.Machine Model.Gen Proofs.Top Properties.Example.

(** For every grammar the default generator handles (no switch nodes, literals are code points),
    every rune list, every rule used as entry whose slot holds a function, every memo / inline
    setting, every earlier state of the parser object and every fuel: whenever the PEG semantics
    (ordered choice, greedy possessive repetition, non-consuming lookahead, terminals) of the entry
    rule at offset 0 has a result, the machine returns exactly it: a match consuming the same
    prefix, or a parse error. *)
Theorem C01_machine_is_peg :
  forall g ptx buf penv, good_grammar g -> good_buf buf -> good_switches g ->
  forall memo inline n r st0 rr,
    slot_ok g inline r -> peg_parse g ptx buf penv n r = Some rr ->
    match fst rr with
    | Succ p _ => exists st', machine g ptx buf penv memo inline n r st0 = Some (Ret true st') /\ pos st' = p
    | Fail => exists st', machine g ptx buf penv memo inline n r st0 = Some (Ret false st')
    end.
Proof. exact c01_verdict_prefix. Qed.
Print Assumptions C01_machine_is_peg.

(** Totality: a grammar is well-formed when [wf_b] accepts it with some certificate (nullability table
    + rank per rule): no rule reaches itself through head positions, no repetition of an expression
    that may succeed without consuming, every referenced rule is defined.  On such a grammar the
    semantics has a result for every input and entry rule, so the statement above is unconditional:
    the machine terminates with the verdict and prefix of the PEG semantics. *)
Theorem C01_total :
  forall g ptx buf penv, good_grammar g -> good_buf buf -> good_switches g ->
  forall tab rank memo inline r rb st0,
    wf_b g tab rank = true -> nth_error g r = Some rb -> rb <> RNil -> slot_ok g inline r ->
    exists n rr b st', peg_parse g ptx buf penv n r = Some rr /\
      machine g ptx buf penv memo inline n r st0 = Some (Ret b st') /\
      (b = true <-> exists p f, fst rr = Succ p f /\ pos st' = p).
Proof. exact c01_total_machine. Qed.
Print Assumptions C01_total.

Example C01_wf_nonvacuous : wf_auto ex_g = true.
Proof. vm_compute. reflexivity. Qed.

(** non-vacuity: the example grammar accepts "aby" consuming 3 runes and rejects "abz",
    from the first rule and from rule 1 used as entry *)
Example C01_nonvacuous :
  slot_ok ex_g false 0 /\ slot_ok ex_g false 1 /\
  verdict_of (spec_of ex_in_ok 0) = Some (Some 3) /\
  verdict_of (spec_of ex_in_bad 0) = Some None /\
  verdict_of (spec_of ex_in_ok 1) = Some (Some 2).
Proof. vm_compute. repeat split; reflexivity. Qed.
