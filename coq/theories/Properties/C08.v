(** C08: every accepted grammar yields valid, gofmt-clean Go under every option set.
    What Coq decides here are the pieces of the emission logic that are arithmetic / string facts for
    ALL grammars; that the emitted text parses, type-checks, compiles and is gofmt-canonical is decided
    by running the Go tools on every file the correspondence runs generate (all eight option sets, plus
    streams for many rules, imports, header comments, odd characters, comments in predicates). *)
From PegV Require Import Base.Tac Spec.Syntax Model.Analyses Model.EmitFacts Model.Emit Model.Link Model.Optimize Model.SEmit Proofs.EmitProofs Proofs.EmitWF Proofs.EmitUse Proofs.EmitScope Proofs.OptCases Proofs.SEmitShape Proofs.LinkProofs Reader.BridgeDefs Reader.BuiltAlt2.
Open Scope Z_scope.

(** The type chosen for rule constants (and, since the fix, for the memo key's rule field) holds every
    rule id: ids are at most the number of rule nodes, which is at most the number of top-level nodes
    (a Go int) the type is chosen from. *)
Theorem C08_rule_ids_fit :
  forall tlen id, 0 <= id -> id <= tlen -> tlen < 2 ^ 63 -> id <= umax (peg_rule_type tlen).
Proof. exact rule_ids_fit. Qed.
Print Assumptions C08_rule_ids_fit.

(** Whatever text a predicate, state change or action contains, the rule comment emitted for it never
    contains the comment terminator. *)
Theorem C08_comment_never_terminated :
  forall s, has_terminator (escape_comment s) = false.
Proof. exact comment_never_terminated. Qed.
Print Assumptions C08_comment_never_terminated.

(** The label / block / variable skeleton of the rule functions ([Model/Emit.v], compared token by
    token with every generated file of the run).  For every grammar in which every name is defined,
    every option set and every rule function of the generated file:
    - no label is declared twice ([NoDup (lbls F)]);
    - every goto has its label in scope - declared in the statement list the goto is in or in an
      enclosing one, never inside a block the goto is outside of ([scoped [] F]);
    - every label that is declared is the target of some goto of the same function (Go rejects unused labels);
    - variables are declared at the head of their block, so no goto jumps over a declaration;
    - no label stands directly before a case clause (where Go wants a statement).
    The dry pass that decides which labels to print is part of the model: the theorem covers the
    agreement of the two passes. *)
Theorem C08_labels_gotos_declarations :
  forall g ast inline asu,
    Forall (fun o => match o with Some F => fn_ok F | None => True end) (emit_all g ast inline asu (fun _ => false)).
Proof. exact emit_all_wellformed. Qed.
Print Assumptions C08_labels_gotos_declarations.

(** ... and for every tree that Compile's first passes produce (Model/Link.v), names without a
    definition included: there the dry pass also walks the slots of the undefined names and numbers the
    labels behind them differently from the real pass, but only where no function contains a goto. *)
Theorem C08_labels_gotos_declarations_linked :
  forall bodies g ptx acts, link bodies = (g, ptx, acts) ->
  forall ast inline asu undef,
    Forall (fun o => match o with Some F => fn_ok F | None => True end) (emit_all g ast inline asu undef).
Proof. exact emit_linked_wellformed. Qed.
Print Assumptions C08_labels_gotos_declarations_linked.

(** Go also rejects a variable that is declared and not used.  Every position / tokenIndex variable
    the emitted code declares is used later in its own statement list (restored, handed to memoize or to
    add), provided every ordered choice of the tree has at least two alternatives ([grammar_alt2], which
    is what the front end builds and what the -switch pass preserves: [C08_switch_keeps_two_alternatives]). *)
Theorem C08_declared_variables_used :
  forall g ast inline asu undef, grammar_alt2 g ->
    Forall (fun o => match o with Some F => du F = true | None => True end) (emit_all g ast inline asu undef).
Proof. exact emit_all_uses. Qed.
Print Assumptions C08_declared_variables_used.

(** Go rejects an identifier that is not declared.  Every positionN / tokenIndexN a rule function reads - in a
    restore, a memoize call, an add or a capture - was declared earlier in the same statement list or in one that
    encloses it ([vok [] [] F]: checked from the empty scope, a block's declarations ending with the block); for
    every grammar, option set and label table, names without a definition included. *)
Theorem C08_variables_declared_before_use :
  forall g ast inline asu undef,
    Forall (fun o => match o with Some F => vok [] [] F = true | None => True end) (emit_all g ast inline asu undef).
Proof. exact emit_all_scoped. Qed.
Print Assumptions C08_variables_declared_before_use.

(** Go rejects a switch that has the same constant in two case clauses.  No switch node of the tree the -switch pass
    builds has a character in two clauses, or twice in one: the clauses come from the alternatives whose first sets
    meet no later alternative's, and the keys of a clause are the elements of one interval list.  The emitter writes
    the keys of a node as they are ([C08_case_keys_copied]).  For every grammar whose characters and ranges are code
    points in order (no switch node before the pass). *)
Theorem C08_switch_cases_distinct :
  forall g, (forall r b, nth_error g r = Some (RBody b) -> ranges_ok b = true) ->
  forall r b, nth_error (optimize g) r = Some (RBody b) -> sw_distinct b.
Proof. exact optimize_cases_distinct. Qed.
Print Assumptions C08_switch_cases_distinct.
Theorem C08_case_keys_copied :
  forall f cs ko l, map fst (fst (scases_emit f cs ko l)) = map fst cs.
Proof. exact scases_keys. Qed.
Print Assumptions C08_case_keys_copied.

(** Go wants a function with a result to end in a terminating statement: every rule function ends in a return
    (statement level, Model/SEmit.v; [forget] maps these files onto the skeletons above, C01_statements_refine_skeleton) *)
Theorem C08_functions_end_in_return :
  forall g ptx ast inline asu undef,
    Forall (fun o => match o with Some F => exists pre b, F = (pre ++ [SReturn b])%list | None => True end)
           (semit_all g ptx ast inline asu undef).
Proof. exact functions_end_in_return. Qed.
Print Assumptions C08_functions_end_in_return.

(** ... and the builder, whatever calls it is given (hence whatever text the front end accepted), ends up with rules
    whose choices all have two alternatives or more: AddAlternate joins two nodes or appends to a choice, the
    case-insensitive forms build two-way choices.  With [link_alt2] and [C08_switch_keeps_two_alternatives] this discharges
    the hypothesis [grammar_alt2] for every tree that reaches the emitter. *)
Theorem C08_builder_keeps_two_alternatives :
  forall nm ak cs s', frun nm ak cs finit = Some s' -> forall n e, In (NRule n e) (back s') -> alt2 e = true.
Proof. exact built_rules_alt2. Qed.
Print Assumptions C08_builder_keeps_two_alternatives.

Theorem C08_switch_keeps_two_alternatives :
  forall g, grammar_alt2 g -> grammar_alt2 (optimize g).
Proof. exact optimize_alt2. Qed.
Print Assumptions C08_switch_keeps_two_alternatives.

Local Open Scope nat_scope.
(** The same facts for the code of any single expression, whatever labels the table says are used
    (hence also for grammars with undefined names), with the exactness of the flag that puts a break
    after a trailing label: [ll] is true iff the code ends with a label. *)
Theorem C08_expression_code_wellformed :
  forall g ast inl asu used n e ko pd mk l c l' ll,
    emit g ast inl asu used n e ko pd mk l = (c, l', ll) ->
    l <= l' /\
    (forall j, In j (jumps c) -> j = ko \/ l <= j < l') /\
    (forall x, In x (lbls c) -> l <= x < l' /\ used x = true) /\
    NoDup (lbls c) /\
    ((forall j, In j (jumps c) -> used j = true) -> scoped [ko] c = true) /\
    ll = ends_lbl c /\ forallb cases1 c = true /\
    nodecl c = true /\ forallb decl1 c = true.
Proof. exact emit_wellformed. Qed.
Print Assumptions C08_expression_code_wellformed.

(** non-vacuity: a grammar whose first rule is a choice with an optional tail, a repetition and a
    lookahead; its function has labels, gotos, saved positions and nested blocks *)
Example C08_skeleton_nonvacuous :
  let g : grammar := [RBody (EAlt [ESeq [EChar 97; EQuery (EChar 120)]; ESeq [EStar (EChar 98); ENot EDot]])]%Z in
  option_map (fun c => squash (flat c)) (nth 0 (emit_all g true false (fun _ => false) (fun _ => false)) None) =
  Some [TSt; TSave 0; TOpen; TSaveP 1; TOpen; TSave 2; TCJmp 3; TSt; TOpen; TSave 4; TCJmp 4; TSt; TJmp 5; TLbl 4; TRestore 4; TClose; TLbl 5;
        TJmp 2; TLbl 3; TRestore 2; TLbl 6; TOpen; TSave 7; TCJmp 7; TSt; TJmp 6; TLbl 7; TRestore 7; TClose;
        TOpen; TSave 8; TCJmp 8; TJmp 0; TLbl 8; TRestore 8; TClose; TClose; TLbl 2; TUseP 1; TClose; TMemo 0; TSt; TLbl 0; TMemo 0; TRestore 0; TSt].
Proof. vm_compute. reflexivity. Qed.

Example C08_nonvacuous :
  escape_comment [47; 42; 32; 99; 32; 42; 47; 42; 42; 47]%Z = [47; 42; 32; 99; 32; 42; 32; 47; 42; 42; 32; 47]%Z /\
  peg_rule_type 300 = U16 /\ peg_rule_type 255 = U8.
Proof. vm_compute. repeat split; reflexivity. Qed.
