(** C08: every accepted grammar yields valid, gofmt-clean Go under every option set.
    What Coq decides here are the pieces of the emission logic that are arithmetic / string facts for
    ALL grammars; that the emitted text parses, type-checks, compiles and is gofmt-canonical is decided
    by running the Go tools on every file the correspondence runs generate (all eight option sets, plus
    streams for many rules, imports, header comments, odd characters, comments in predicates). *)
From PegV Require Import Base.Tac Model.EmitFacts Proofs.EmitProofs.
Open Scope Z_scope.

(** The type chosen for rule constants (and, since the fix, for the memo key's rule field) holds every
    rule id: ids are at most the number of rule nodes, which is at most the number of top-level nodes
    (a Go int) the type is chosen from. *)
Theorem C08_rule_ids_fit :
  forall tlen id, 0 <= id -> id <= tlen -> tlen < 2 ^ 63 -> id <= umax (peg_rule_type tlen).
Proof. exact rule_ids_fit. Qed.
Print Assumptions C08_rule_ids_fit.

(** Whatever text a predicate, state change or action contains, the rule comment emitted for it never
    contains the comment terminator. *)
Theorem C08_comment_never_terminated :
  forall s, has_terminator (escape_comment s) = false.
Proof. exact comment_never_terminated. Qed.
Print Assumptions C08_comment_never_terminated.

Example C08_nonvacuous :
  escape_comment [47; 42; 32; 99; 32; 42; 47; 42; 42; 47]%Z = [47; 42; 32; 99; 32; 42; 32; 47; 42; 42; 32; 47]%Z /\
  peg_rule_type 300 = U16 /\ peg_rule_type 255 = U8.
Proof. vm_compute. repeat split; reflexivity. Qed.
