(** Extraction of the reader's executable side (Reader/*.v): the text of a written file, the decidable
    well-formedness, the nodes the file denotes and the builder run over its calls.  Kept apart from
    Extract.v so that the main model stays runnable when a reader proof breaks.  Only ExtrOcamlBasic. *)
From Coq Require Import ExtrOcamlBasic List.
From PegV Require Import Spec.Syntax Model.Calls Model.Front Reader.Chars Reader.Lits Reader.Expr Reader.Bridge Reader.File Reader.FileBridge Reader.Decide Reader.DecideFile.
Extraction Language OCaml.

Definition r_fshow := File.fshow.
Definition r_file_okb := DecideFile.file_okb.
Definition r_file_nodes := FileBridge.file_nodes.
Definition r_fcalls := File.fcalls.
Definition r_frun := FileBridge.frun.
Definition r_finit := FileBridge.finit.
Definition r_show := Expr.show.
Definition r_wfb := Decide.wfb.

Extraction "pegreader.ml" r_fshow r_file_okb r_file_nodes r_fcalls r_frun r_finit r_show r_wfb.
