(** Extraction of the reader's executable side (Reader/Defs.v, Reader/BridgeDefs.v: definitions only): the text
    of a written file, the decidable well-formedness, the nodes the file denotes and the builder run over its
    calls.  Kept apart from Extract.v and independent of the generated rule tree and of every proof, so that
    the correspondence stream still runs when a reader proof no longer checks.  Only ExtrOcamlBasic. *)
From Coq Require Import ExtrOcamlBasic List.
From PegV Require Import Spec.Syntax Model.Calls Model.Front Reader.Defs Reader.BridgeDefs.
Extraction Language OCaml.

Definition r_fshow := Defs.fshow.
Definition r_file_okb := Defs.file_okb.
Definition r_file_nodes := BridgeDefs.file_nodes.
Definition r_fcalls := Defs.fcalls.
Definition r_frun := BridgeDefs.frun.
Definition r_finit := BridgeDefs.finit.
Definition r_show := Defs.show.
Definition r_wfb := Defs.wfb.
(* malformed text (Reader/Reject.v): the head of a file, the characters that start nothing, the header condition *)
Definition r_head_text := Defs.head_text.
Definition r_junk_head := Defs.junk_head.
Definition r_header_okb := Defs.header_okb.
Definition r_is_istart := Defs.is_istart.

Extraction "pegreader.ml" r_fshow r_file_okb r_file_nodes r_fcalls r_frun r_finit r_show r_wfb r_head_text r_junk_head r_header_okb r_is_istart.
