(** The file level of the .peg language: header comments, package, imports, the parser type, the rules. *)
From PegV Require Import Base.Tac Base.ListX Spec.Syntax Spec.Peg Proofs.PegRel Model.Calls Generated.PegPeg
  Reader.Base Reader.Lex Reader.Chars Reader.Lits Reader.Expr.
Local Open Scope Z_scope.

Lemma header_ok_tail l c a b : header_ok l (c :: a) -> header_ok l (c :: b).
Proof.
  induction l as [|h l IH]; cbn [header_ok]; [auto|]. intros [Hh Hl]. split; [|apply IH; exact Hl].
  destruct h as [sl body e|run]; cbn [hitem_ok] in *.
  - destruct Hh as (H1 & H2 & H3). repeat split; try assumption. intros E c0 r E0. specialize (H3 E).
    destruct (flat_map hshow l) as [|x m]; cbn [app] in *; inv E0; eapply H3; reflexivity.
  - destruct Hh as (H1 & H2 & H3). repeat split; try assumption. intros c0 r E0.
    destruct (flat_map hshow l) as [|x m]; cbn [app] in *; inv E0; eapply H3; reflexivity.
Qed.

Section File.
Variable buf : list rune.
Variable penv : nat -> nat -> bool.
Notation At := (At buf).
Notation C := (C buf penv).
Notation ko := (ko pegpeg_d pegpeg_d_ptx buf penv).

(** ** Space and runs of Space *)
Lemma space_ko p s0 : At p s0 -> (forall c r, s0 = c :: r -> is_sp c = false) -> ko (EName pr_Space) p.
Proof.
  intros Hat N. destruct s0 as [|c r]; [korun|]. pose proof (N c r eq_refl) as Hc. unfold is_sp in Hc.
  assert (c <> 32 /\ c <> 9 /\ c <> 10 /\ c <> 13) as (?&?&?&?) by lia. korun.
Qed.

Lemma space_star n : forall run, (length run <= n)%nat -> forallb is_sp run = true ->
  forall tl p t, (forall c r, tl = c :: r -> is_sp c = false) -> At p (run ++ tl) ->
  C (EStar (EName pr_Space)) p (p + length run)%nat [] t t.
Proof.
  induction n as [|n IH]; intros run Ln Hr tl p t Htl Hat.
  - destruct run; [|cbn in Ln; lia]. cbn [app length] in *. pose proof (space_ko _ _ Hat Htl).
    eapply C_eq; [apply C_star_nil; eassumption|lia|reflexivity|reflexivity].
  - destruct run as [|c run].
    + cbn [app length] in *. pose proof (space_ko _ _ Hat Htl).
      eapply C_eq; [apply C_star_nil; eassumption|lia|reflexivity|reflexivity].
    + cbn [forallb] in Hr. apply andb_true_iff in Hr. destruct Hr as [Hc Hr]. cbn [app length] in *. at1 Hat as A1.
      unfold is_sp in Hc.
      destruct (Z.eq_dec c 13) as [->|N13].
      * (* "\r", or "\r\n" taken together *)
        destruct run as [|d run].
        -- cbn [app] in *. pose proof (IH [] ltac:(cbn; lia) eq_refl tl _ t Htl A1) as Hrec.
           assert (Hd : forall s', tl <> 10 :: s').
           { intros s' E. specialize (Htl _ _ E). discriminate Htl. }
           pose proof (fun t => eol_r buf penv _ _ t Hat Hd) as Heol.
           eapply C_eq; [eapply C_star_cons; [crun|exact Hrec]|cbn [length]; lia|reflexivity|reflexivity].
        -- cbn [forallb] in Hr. apply andb_true_iff in Hr. destruct Hr as [Hd Hr]. cbn [app length] in *.
           destruct (Z.eq_dec d 10) as [->|N10].
           ++ at1 A1 as A2. pose proof (IH run ltac:(cbn [length] in Ln; lia) Hr tl _ t Htl A2) as Hrec.
              pose proof (fun t => eol_rn buf penv _ _ t Hat) as Heol.
              eapply C_eq; [eapply C_star_cons; [crun|exact Hrec]|lia|reflexivity|reflexivity].
           ++ assert (Hr' : forallb is_sp (d :: run) = true) by (cbn [forallb]; rewrite Hd, Hr; reflexivity).
              pose proof (IH (d :: run) ltac:(cbn [length] in *; lia) Hr' tl _ t Htl A1) as Hrec.
              pose proof (fun t => eol_r buf penv _ _ t Hat ltac:(intros s' E; inv E; congruence)) as Heol.
              eapply C_eq; [eapply C_star_cons; [crun|exact Hrec]|cbn [length]; lia|reflexivity|reflexivity].
      * pose proof (IH run ltac:(lia) Hr tl _ t Htl A1) as Hrec.
        assert (Hc3 : c = 32 \/ c = 9 \/ c = 10) by lia.
        destruct Hc3 as [-> | [-> | ->]];
          (eapply C_eq; [eapply C_star_cons; [crun|exact Hrec]|lia|reflexivity|reflexivity]).
Qed.

(** ** header items *)
Lemma eol_text p e tl t : is_eol e -> (e = [13] -> head_ne 10 tl) -> At p (e ++ tl) ->
  C (EName pr_EndOfLine) p (p + length e)%nat [] t t.
Proof.
  intros [-> | [-> | ->]] Hn Hat; cbn [app length] in *.
  - eapply C_eq; [eapply eol_n; exact Hat|lia|reflexivity|reflexivity].
  - eapply C_eq; [eapply eol_r; [exact Hat|]|lia|reflexivity|reflexivity].
    intros s' E. eapply (Hn eq_refl); [exact E|reflexivity].
  - eapply C_eq; [eapply eol_rn; exact Hat|lia|reflexivity|reflexivity].
Qed.
Lemma eol_first e : is_eol e -> exists c m, e = c :: m /\ is_lb c.
Proof. intros [-> | [-> | ->]]; eexists _, _; (split; [reflexivity|unfold is_lb; lia]). Qed.

Lemma hitem_parse h tl p t : hitem_ok h tl -> At p (hshow h ++ tl) ->
  exists t', C (EName pr_HeaderSpaceComment) p (p + length (hshow h))%nat [hcall h] t t'.
Proof.
  intros Hok Hat. destruct h as [sl body e|run]; cbn [hitem_ok hshow hcall] in *.
  - destruct Hok as (Hb & He & Hn). destruct (eol_first e He) as (c & m & Ee & Hc).
    assert (Hbody : forall q t, At q (body ++ e ++ tl) -> C (EStar (ESeq [ENot (EName pr_EndOfLine); EDot])) q (q + length body)%nat [] t t).
    { intros q t0 Hq. rewrite Ee in Hq. cbn [app] in Hq. eapply comment_body; eassumption. }
    destruct sl; cbn [app length] in *; rewrite <- ?app_assoc in Hat.
    + at1 Hat as A1. at1 A1 as A2. atn A2 as A3.
      pose proof (fun t => Hbody _ t A2) as K1. pose proof (fun t => eol_text _ _ _ t He Hn A3) as K2.
      pose proof (At_sub _ _ body _ A2) as Hsub.
      eexists. eapply C_eq; [crun|rewrite !app_length; lia|cbn [app calls1 nth pegpeg_calls map fst snd arg_of]; rewrite Hsub; reflexivity|reflexivity].
    + at1 Hat as A1. atn A1 as A2.
      pose proof (fun t => Hbody _ t A1) as K1. pose proof (fun t => eol_text _ _ _ t He Hn A2) as K2.
      pose proof (At_sub _ _ body _ A1) as Hsub.
      eexists. eapply C_eq; [crun|rewrite !app_length; lia|cbn [app calls1 nth pegpeg_calls map fst snd arg_of]; rewrite Hsub; reflexivity|reflexivity].
  - destruct Hok as (Hne & Hr & Htl). destruct run as [|c run]; [congruence|].
    pose proof (At_sub _ _ (c :: run) _ Hat) as Hsub.
    cbn [forallb] in Hr. apply andb_true_iff in Hr. destruct Hr as [Hc Hr].
    (* the first Space, then the rest of the run *)
    assert (Hplus : forall t, C (EPlus (EName pr_Space)) p (p + length (c :: run))%nat [] t t).
    { intros t0. pose proof (space_star (S (length run)) (c :: run) (le_n _) ltac:(cbn [forallb]; rewrite Hc, Hr; reflexivity) tl p t0 Htl Hat) as Hs.
      destruct Hs as (evs & (f & O & Htr) & Hcalls).
      (* a non-empty star is a plus *)
      destruct O as (n & v & Hev). destruct n as [|n]; [discriminate|]. cbn [peg_ev] in Hev.
      assert (Hfirst : exists f1 v1 p1, peg_ev pegpeg_d pegpeg_d_ptx buf penv n (EName pr_Space) p = Some (Succ p1 f1, v1)).
      { destruct (peg_ev pegpeg_d pegpeg_d_ptx buf penv n (EName pr_Space) p) as [[[|p1 f1] v1]|] eqn:E; [|eauto|discriminate].
        exfalso. inv Hev. cbn [length] in H0. lia. }
      destruct Hfirst as (f1 & v1 & p1 & E1). rewrite E1 in Hev.
      exists evs. split; [|exact Hcalls]. exists f. split; [|exact Htr].
      exists (S n), v. cbn [peg_ev]. rewrite E1. exact Hev. }
    cbn [app] in Hat. unfold is_sp in Hc.
    assert (Kc : ko (EName pr_HeaderComment) p).
    { assert (c <> 35 /\ c <> 47) as [? ?] by lia. korun. }
    eexists. eapply C_eq; [crun|reflexivity|cbn [app calls1 nth pegpeg_calls map fst snd arg_of]; rewrite Hsub; reflexivity|reflexivity].
Qed.

Lemma header_star l : forall tl p t, header_ok l tl -> stop tl -> At p (flat_map hshow l ++ tl) ->
  exists t', C (EStar (EName pr_HeaderSpaceComment)) p (p + length (flat_map hshow l))%nat (map hcall l) t t'.
Proof.
  induction l as [|h l IH]; intros tl p t Hok Hst Hat; cbn [flat_map app length map header_ok] in *.
  - rewrite Nat.add_0_r. exists t. apply C_star_nil.
    destruct tl as [|c r]; [korun|]. destruct Hst as (N1 & N2 & N3 & N4 & N5 & N6).
    destruct (Z.eq_dec c 47) as [->|N7].
    + specialize (N6 eq_refl). destruct r as [|c2 r]; [korun|]. assert (c2 <> 47) by (intros ->; exact N6). korun.
    + korun.
  - destruct Hok as [Hh Hl]. rewrite <- app_assoc in Hat.
    destruct (hitem_parse h _ p t Hh Hat) as [t1 H1]. atn Hat as A1.
    destruct (IH tl _ t1 Hl Hst A1) as [t2 H2]. exists t2.
    eapply C_eq; [eapply C_star_cons; [exact H1|exact H2]|rewrite app_length; lia|reflexivity|reflexivity].
Qed.

(** ** imports *)
Notation pathc := (EAlt [ERange 48 57; ERange 97 122; ERange 65 90; EChar 95; EChar 47; EChar 46; EChar 45]).
Lemma pathc_ok p c s t : At p (c :: s) -> is_pathc c = true -> C pathc p (S p) [] t t.
Proof.
  intros Hat Hc. unfold is_pathc in Hc.
  destruct ((48 <=? c) && (c <=? 57))%bool eqn:E1; [cgo|].
  destruct ((97 <=? c) && (c <=? 122))%bool eqn:E2; [cgo|].
  destruct ((65 <=? c) && (c <=? 90))%bool eqn:E3; [cgo|].
  cbn [orb] in Hc. assert (Hc4 : c = 95 \/ c = 47 \/ c = 46 \/ c = 45) by lia.
  destruct Hc4 as [-> | [-> | [-> | ->]]]; cgo.
Qed.
Lemma pathc_star path : forall p tl t, forallb is_pathc path = true -> At p (path ++ 34 :: tl) ->
  C (EStar pathc) p (p + length path)%nat [] t t.
Proof.
  induction path as [|c path IH]; intros p tl t Hp Hat; cbn [app length forallb] in *.
  - eapply C_eq; [apply C_star_nil; korun|lia|reflexivity|reflexivity].
  - apply andb_true_iff in Hp. destruct Hp as [Hc Hp]. at1 Hat as A1.
    pose proof (pathc_ok _ _ _ t Hat Hc) as K1. pose proof (IH _ _ t Hp A1) as K2.
    eapply C_eq; [eapply C_star_cons; [exact K1|exact K2]|lia|reflexivity|reflexivity].
Qed.

Lemma iname_parse n tl p t : iname_ok n -> At p (inshow n ++ tl) ->
  exists t', C (EName pr_ImportName) p (p + length (inshow n))%nat (incalls n) t t'.
Proof.
  intros (Hne & Hp & Ha) Hat. destruct n as [al path]. unfold inshow, incalls in *. cbn [in_alias in_path] in *.
  destruct path as [|c path]; [congruence|]. cbn [forallb] in Hp. apply andb_true_iff in Hp. destruct Hp as [Hc Hp].
  assert (Hplus : forall q t0, At q ((c :: path) ++ [34] ++ tl) ->
    C (EPlus pathc) q (q + length (c :: path))%nat [] t0 t0).
  { intros q t0 Hq. cbn [app] in Hq. at1 Hq as Q2.
    pose proof (pathc_ok _ _ _ t0 Hq Hc) as K1. pose proof (pathc_star path _ _ t0 Hp Q2) as K2.
    eapply C_eq; [eapply C_plus; [exact K1|exact K2]|cbn [length]; lia|reflexivity|reflexivity]. }
  destruct al as [[id s]|].
  - destruct Ha as [Hid Hs]. rewrite <- !app_assoc in Hat. cbn [app] in Hat.
    assert (Hst : stop (34 :: (c :: path) ++ 34 :: tl)) by (cbn [stop]; repeat split; try lia; intros; lia).
    assert (Hn : not_icont_head (s ++ 34 :: (c :: path) ++ 34 :: tl)).
    { destruct s as [|c0 s']; [intros ? ? E; inv E; reflexivity|apply layhead_nic; [exact Hs|discriminate]]. }
    rewrite <- app_assoc in Hat. cbn [app] in Hat.
    pose proof (fun t => identifier_ok buf penv id s _ p t Hid Hs Hst Hn Hat) as Hident.
    pose proof (At_sub _ _ id _ Hat) as Hsub1.
    atn Hat as A1. atn A1 as A2. at1 A2 as A3.
    pose proof (fun t => Hplus _ t A3) as Hq.
    pose proof (At_sub _ _ (c :: path) _ A3) as Hsub2. pose proof (At_app _ _ (c :: path) _ A3) as A4.
    eexists. into_rule.
    eapply C_eq; [crun|rewrite !app_length; cbn [length]; rewrite app_length; cbn [length]; lia
                 |cbn [app calls1 nth pegpeg_calls map fst snd arg_of]; rewrite Hsub1, Hsub2; reflexivity|reflexivity].
  - cbn [app] in Hat. rewrite <- app_assoc in Hat. at1 Hat as A1.
    pose proof (fun t => Hplus _ t A1) as Hq.
    pose proof (At_sub _ _ (c :: path) _ A1) as Hsub2. pose proof (At_app _ _ (c :: path) _ A1) as A2.
    assert (Kid : ko (EName pr_Identifier) p) by (eapply identifier_ko; [exact Hat|intros ? ? E; inv E; reflexivity]).
    eexists. into_rule.
    eapply C_eq; [crun|cbn [app length]; rewrite !app_length; cbn [length]; lia
                 |cbn [app calls1 nth pegpeg_calls map fst snd arg_of]; rewrite Hsub2; reflexivity|reflexivity].
Qed.

Lemma stop_char c m : c <> 32 -> c <> 9 -> c <> 10 -> c <> 13 -> c <> 35 -> c <> 47 -> stop (c :: m).
Proof. intros. cbn [stop]. repeat split; try assumption. intros; lia. Qed.
Lemma inshow_stop n tl : iname_ok n -> stop (inshow n ++ tl).
Proof.
  intros (_ & _ & Ha). destruct n as [[[id s]|] path]; unfold inshow; cbn [in_alias in_path] in *.
  - destruct Ha as [Hid _]. destruct id as [|c r]; [discriminate|]. cbn [ident_ok] in Hid. apply andb_true_iff in Hid. destruct Hid as [Hc _].
    cbn [app]. unfold is_istart in Hc. apply stop_char; lia.
  - cbn [app]. apply stop_char; lia.
Qed.
Lemma iname_ko p s0 : At p s0 -> (forall c r, s0 = c :: r -> is_istart c = false /\ c <> 34) -> ko (EName pr_ImportName) p.
Proof.
  intros Hat N. assert (Kid : ko (EName pr_Identifier) p) by (eapply identifier_ko; [exact Hat|intros c r E; apply (N c r E)]).
  destruct s0 as [|c r]; [korun|]. destruct (N c r eq_refl) as [_ Hc]. korun.
Qed.

Lemma mitems_star l : forall tl p t,
  Forall (fun ns : iname * list rune => iname_ok (fst ns) /\ lay (snd ns)) l -> At p (flat_map mitem_show l ++ 41 :: tl) ->
  exists t', C (EStar (ESeq [EName pr_ImportName; EChar 10; EName pr_Spacing])) p (p + length (flat_map mitem_show l))%nat
               (flat_map (fun ns : iname * list rune => incalls (fst ns)) l) t t'.
Proof.
  induction l as [|[n s] l IH]; intros tl p t Hall Hat; cbn [flat_map app length] in *.
  - rewrite Nat.add_0_r. exists t. apply C_star_nil.
    assert (K : ko (EName pr_ImportName) p) by (eapply iname_ko; [exact Hat|intros c r E; inv E; split; [reflexivity|lia]]).
    korun.
  - inversion Hall as [|? ? [Hn Hs] Hall']; subst. cbn [fst snd] in *. unfold mitem_show at 1 in Hat. cbn [fst snd] in Hat.
    rewrite <- !app_assoc in Hat. cbn [app] in Hat.
    destruct (iname_parse n _ p t Hn Hat) as [t1 H1]. atn Hat as A1. at1 A1 as A2.
    assert (Hst : stop (flat_map mitem_show l ++ 41 :: tl)).
    { destruct l as [|[n' s'] l']; cbn [flat_map app]; [apply stop_char; lia|].
      inversion Hall' as [|? ? [Hn' _] _]; subst. unfold mitem_show at 1. cbn [fst snd]. rewrite <- !app_assoc. apply inshow_stop. exact Hn'. }
    pose proof (fun t => spacing_ok buf penv _ _ _ t Hs Hst A2) as Hsp. atn A2 as A3.
    destruct (IH tl _ t1 Hall' A3) as [t2 H2]. exists t2.
    eapply C_eq; [eapply C_star_cons; [crun|exact H2]|change (mitem_show (n, s)) with (inshow n ++ 10 :: s); rewrite !app_length; cbn [length]; lia|cbn [app]; rewrite ?app_nil_r; reflexivity|reflexivity].
Qed.

Lemma import_parse i tl p t : imp_ok i -> stop tl -> At p (impshow i ++ tl) ->
  exists t', C (EName pr_Import) p (p + length (impshow i))%nat (impcalls i) t t'.
Proof.
  intros Hok Hst Hat. destruct i as [s1 n s2|s1 s2 items s3]; cbn [imp_ok impshow impcalls] in *.
  - destruct Hok as (Hs1 & Hn & Hs2). unfold kw_import in *. cbn [app] in Hat. rewrite <- !app_assoc in Hat.
    at1 Hat as B1. at1 B1 as B2. at1 B2 as B3. at1 B3 as B4. at1 B4 as B5. at1 B5 as B6.
    pose proof (fun t => spacing_ok buf penv _ _ _ t Hs1 (inshow_stop n _ Hn) B6) as Hsp1. atn B6 as B7.
    destruct (iname_parse n _ _ t Hn B7) as [t1 H1]. atn B7 as B8.
    pose proof (fun t => spacing_ok buf penv _ _ _ t Hs2 Hst B8) as Hsp2.
    assert (Kopen : ko (EName pr_MultiImport) (S (S (S (S (S (S p))))) + length s1)%nat).
    { destruct n as [[[id s]|] path]; unfold inshow in B7; cbn [in_alias in_path app] in B7.
      - destruct Hn as (_ & _ & Hid & _). destruct id as [|c r]; [discriminate|]. cbn [ident_ok] in Hid. apply andb_true_iff in Hid. destruct Hid as [Hc _].
        cbn [app] in B7. unfold is_istart in Hc. assert (c <> 40) by lia. korun.
      - korun. }
    exists t1. into_rule. eapply C_eq; [crun|rewrite !app_length; cbn [length]; lia|cbn [app]; rewrite ?app_nil_r; reflexivity|reflexivity].
  - destruct Hok as (Hs1 & Hs2 & Hs3 & Hall). unfold kw_import in *. norm_app Hat.
    at1 Hat as B1. at1 B1 as B2. at1 B2 as B3. at1 B3 as B4. at1 B4 as B5. at1 B5 as B6.
    pose proof (fun t => spacing_ok buf penv _ _ _ t Hs1 (stop_char 40 _ ltac:(lia) ltac:(lia) ltac:(lia) ltac:(lia) ltac:(lia) ltac:(lia)) B6) as Hsp1.
    atn B6 as B7. at1 B7 as B8.
    assert (Hst2 : stop (flat_map mitem_show items ++ 41 :: s3 ++ tl)).
    { destruct items as [|[n' s'] l']; cbn [flat_map app]; [apply stop_char; lia|].
      inversion Hall as [|? ? [Hn' _] _]; subst. unfold mitem_show at 1. cbn [fst snd]. rewrite <- !app_assoc. apply inshow_stop. exact Hn'. }
    pose proof (fun t => spacing_ok buf penv _ _ _ t Hs2 Hst2 B8) as Hsp2. atn B8 as B9.
    destruct (mitems_star items _ _ t Hall B9) as [t1 H1]. atn B9 as B10.
    pose proof (fun t => spacing_ok buf penv [] _ _ t lay_nil (stop_char 41 _ ltac:(lia) ltac:(lia) ltac:(lia) ltac:(lia) ltac:(lia) ltac:(lia)) B10) as Hsp0.
    cbn [length] in Hsp0. rewrite Nat.add_0_r in Hsp0. at1 B10 as B11.
    pose proof (fun t => spacing_ok buf penv _ _ _ t Hs3 Hst B11) as Hsp3.
    exists t1. into_rule.
    eapply C_eq; [crun|cbn [length]; rewrite !app_length; cbn [length]; rewrite !app_length; cbn [length]; lia|cbn [app]; rewrite ?app_nil_r; reflexivity|reflexivity].
Qed.

Lemma imports_star l : forall tl p t, Forall imp_ok l -> stop tl -> ko (EName pr_Import) (p + length (flat_map impshow l))%nat ->
  At p (flat_map impshow l ++ tl) ->
  exists t', C (EStar (EName pr_Import)) p (p + length (flat_map impshow l))%nat (flat_map impcalls l) t t'.
Proof.
  induction l as [|i l IH]; intros tl p t Hall Hst Kend Hat; cbn [flat_map app length] in *.
  - rewrite Nat.add_0_r in *. exists t. apply C_star_nil. exact Kend.
  - inversion Hall as [|? ? Hi Hall']; subst. rewrite <- app_assoc in Hat.
    assert (Hst1 : stop (flat_map impshow l ++ tl)).
    { destruct l as [|i' l']; cbn [flat_map app]; [exact Hst|]. destruct i'; cbn [impshow]; unfold kw_import; cbn [app]; apply stop_char; lia. }
    destruct (import_parse i _ p t Hi Hst1 Hat) as [t1 H1]. atn Hat as A1.
    rewrite app_length, Nat.add_assoc in *.
    destruct (IH tl _ t1 Hall' Hst Kend A1) as [t2 H2]. exists t2.
    eapply C_eq; [eapply C_star_cons; [exact H1|exact H2]|reflexivity|reflexivity|reflexivity].
Qed.

(** ** rules *)
Lemma arrow_parse uni s2 rest p t : lay s2 -> stop rest -> At p (arrow_text uni ++ s2 ++ rest) ->
  C (EName pr_LeftArrow) p (p + length (arrow_text uni) + length s2)%nat [] t t.
Proof.
  intros Hs Hst Hat. destruct uni; cbn [arrow_text app length] in *.
  - eapply C_eq; [eapply arrow_uni; eassumption|lia|reflexivity|reflexivity].
  - eapply C_eq; [eapply arrow_ascii; eassumption|lia|reflexivity|reflexivity].
Qed.
Lemma arrow_stop uni m : stop (arrow_text uni ++ m).
Proof. destruct uni; cbn [arrow_text app]; apply stop_char; lia. Qed.
Lemma arrow_nic uni m : not_icont_head (arrow_text uni ++ m).
Proof. destruct uni; cbn [arrow_text app]; intros c r E; inv E; reflexivity. Qed.

Lemma defstart_facts q tl : At q tl -> defstart tl ->
  fol buf penv q tl /\ ko (EName pr_Prefix) q /\ ko (EName pr_Slash) q /\ head_ne 47 tl /\ stop tl /\
  (forall t, C (EAnd (EAlt [ESeq [EName pr_Identifier; EName pr_LeftArrow]; ENot EDot])) q q [] t t).
Proof.
  intros Hat [->|(id & s1 & uni & s2 & rest & -> & Hid & Hs1 & Hs2 & Hst)].
  - split; [apply fol_eof; exact Hat|]. split; [eapply prefix_ko; [exact Hat|intros ? ? E; discriminate E]|].
    split; [eapply tok_ko; [lookup|exact Hat|intros ? ? E; discriminate E]|]. split; [intros ? ? E; discriminate E|].
    split; [exact I|]. intros t. eapply C_eq; [crun|reflexivity|reflexivity|reflexivity].
  - assert (Hn : not_icont_head (s1 ++ arrow_text uni ++ s2 ++ rest)).
    { destruct s1 as [|c0 s']; [apply arrow_nic|apply layhead_nic; [exact Hs1|discriminate]]. }
    pose proof (fun t => identifier_ok buf penv id s1 _ q t Hid Hs1 (arrow_stop uni _) Hn Hat) as Hident.
    atn Hat as A1. atn A1 as A2.
    pose proof (fun t => arrow_parse uni s2 rest _ t Hs2 Hst A2) as Harrow.
    destruct id as [|c r]; [discriminate|]. pose proof Hid as Hid'. cbn [ident_ok] in Hid'. apply andb_true_iff in Hid'. destruct Hid' as [Hc _].
    cbn [app] in Hat |- *. unfold is_istart in Hc.
    assert (Hp : pstart c = true) by (unfold pstart, is_istart; lia).
    split; [apply start_fol; [exact Hat|exact Hp|intros ->; lia]|].
    split.
    { (* Prefix: the name is followed by an arrow *)
      assert (c <> 38 /\ c <> 33 /\ c <> 40 /\ c <> 39 /\ c <> 34 /\ c <> 91 /\ c <> 46 /\ c <> 123 /\ c <> 60) as (?&?&?&?&?&?&?&?&?) by lia.
      korun. }
    split; [eapply tok_ko; [lookup|exact Hat|intros ? ? E; inv E; lia]|].
    split; [intros ? ? E; inv E; lia|]. split; [apply stop_char; lia|].
    intros t. eapply C_eq; [crun|reflexivity|reflexivity|reflexivity].
Qed.

Lemma def_parse d tl p t : def_ok d -> defstart tl -> (glue (d_body d) = true -> not_icont_head tl) -> At p (dshow d ++ tl) ->
  exists t', C (EName pr_Definition) p (p + length (dshow d))%nat (dcalls d) t t'.
Proof.
  intros (Hid & Hs1 & Hs2 & Hw) Hds Hg Hat. destruct d as [id s1 uni s2 e]. unfold dshow, dcalls in *. cbn [d_name d_s1 d_uni d_s2 d_body] in *.
  rewrite <- !app_assoc in Hat.
  assert (Hn : not_icont_head (s1 ++ arrow_text uni ++ s2 ++ show e ++ tl)).
  { destruct s1 as [|c0 s']; [apply arrow_nic|apply layhead_nic; [exact Hs1|discriminate]]. }
  pose proof (fun t => identifier_ok buf penv id s1 _ p t Hid Hs1 (arrow_stop uni _) Hn Hat) as Hident.
  pose proof (At_sub _ _ id _ Hat) as Hsub.
  atn Hat as A1. atn A1 as A2. atn A2 as A3. atn A3 as A4. atn A4 as A5.
  destruct (defstart_facts _ _ A5 Hds) as (F & Kp & Ks & H47 & Hstl & Hand).
  assert (Hst : stop (show e ++ tl)).
  { destruct (show_start4 e Hw) as [E|(c & m & E & Hp & _)]; rewrite E; cbn [app]; [exact Hstl|apply pstart_stop; exact Hp]. }
  pose proof (fun t => arrow_parse uni s2 _ _ t Hs2 Hst A2) as Harrow.
  destruct (expression_ok buf penv e Hw tl _ (p, (p + length id)%nat) A4 F Hg Kp Ks H47) as [t1 He].
  exists t1. into_rule.
  eapply C_eq; [crun|rewrite !app_length; lia|cbn [app calls1 nth pegpeg_calls map fst snd arg_of]; rewrite Hsub, ?app_nil_r; reflexivity|reflexivity].
Qed.

Lemma ident_head id : ident_ok id = true -> exists c r, id = c :: r /\ is_istart c = true.
Proof. destruct id as [|c r]; [discriminate|]. cbn [ident_ok]. intros H. apply andb_true_iff in H. destruct H. eauto. Qed.
Lemma ident_stop id m : ident_ok id = true -> stop (id ++ m).
Proof. intros H. destruct (ident_head id H) as (c & r & -> & Hc). cbn [app]. unfold is_istart in Hc. apply stop_char; lia. Qed.

Lemma defs_stop l : defs_ok l -> stop (flat_map dshow l).
Proof.
  destruct l as [|d l]; [intros; exact I|]. cbn [defs_ok flat_map]. intros ((Hid & _) & _). unfold dshow. rewrite <- !app_assoc. apply ident_stop. exact Hid.
Qed.
Lemma defs_start l : defs_ok l -> defstart (flat_map dshow l).
Proof.
  destruct l as [|d l]; [left; reflexivity|]. cbn [defs_ok flat_map]. intros ((Hid & Hs1 & Hs2 & Hw) & _ & Hl). right.
  exists (d_name d), (d_s1 d), (d_uni d), (d_s2 d), (show (d_body d) ++ flat_map dshow l).
  split; [unfold dshow; rewrite <- !app_assoc; reflexivity|]. repeat split; try assumption.
  destruct (show_start4 (d_body d) Hw) as [E|(c & m & E & Hp & _)]; rewrite E; cbn [app]; [apply defs_stop; exact Hl|apply pstart_stop; exact Hp].
Qed.

Lemma defs_star l : forall p t, defs_ok l -> At p (flat_map dshow l ++ []) ->
  exists t', C (EStar (EName pr_Definition)) p (p + length (flat_map dshow l))%nat (flat_map dcalls l) t t'.
Proof.
  induction l as [|d l IH]; intros p t Hok Hat; cbn [flat_map app length defs_ok] in *.
  - rewrite Nat.add_0_r. exists t. apply C_star_nil.
    assert (K : ko (EName pr_Identifier) p) by (eapply identifier_ko; [exact Hat|intros ? ? E; discriminate E]). korun.
  - destruct Hok as (Hd & Hg & Hl). rewrite <- app_assoc in Hat. rewrite app_nil_r in Hat.
    assert (Hg' : glue (d_body d) = true -> not_icont_head (flat_map dshow l)).
    { intros E. destruct l as [|d' l']; [intros ? ? E0; discriminate E0|]. rewrite Hg in E; [discriminate|discriminate]. }
    destruct (def_parse d _ p t Hd (defs_start l Hl) Hg' Hat) as [t1 H1]. atn Hat as A1.
    rewrite <- (app_nil_r (flat_map dshow l)) in A1.
    destruct (IH _ t1 Hl A1) as [t2 H2]. exists t2.
    eapply C_eq; [eapply C_star_cons; [exact H1|exact H2]|rewrite app_length; lia|reflexivity|reflexivity].
Qed.

(** ** the segments of the rule Grammar *)
Notation kwe l := (ESeq (map EChar l)).

Lemma seg_head hdr spkg pkg s1 tl ea p t :
  header_ok hdr [112] -> lay spkg -> spkg <> [] -> ident_ok pkg = true -> lay s1 -> s1 <> [] -> stop tl ->
  (forall q t0, C ea q q [(CAddPackage, sub buf t0)] t0 t0) ->
  At p (flat_map hshow hdr ++ kw_package ++ spkg ++ pkg ++ s1 ++ tl) ->
  exists t', Cs buf penv [EName pr_Header; kwe kw_package; EName pr_MustSpacing; EName pr_Identifier; ea] p
               (p + length (flat_map hshow hdr) + 7 + length spkg + length pkg + length s1)%nat
               (map hcall hdr ++ [(CAddPackage, pkg)]) t t'.
Proof.
  intros Hh Hsp Hspn Hpk Hs1 Hs1n Hst Hea Hat. unfold kw_package in *. norm_app Hat.
  assert (Hh' : header_ok hdr (112 :: 97 :: 99 :: 107 :: 97 :: 103 :: 101 :: spkg ++ pkg ++ s1 ++ tl)) by (eapply header_ok_tail; exact Hh).
  destruct (header_star hdr _ p t Hh' ltac:(apply stop_char; lia) Hat) as [t0 Hhdr].
  assert (Hhd : C (EName pr_Header) p (p + length (flat_map hshow hdr))%nat (map hcall hdr) t t0) by (into_rule; exact Hhdr).
  atn Hat as A0.
  at1 A0 as B1. at1 B1 as B2. at1 B2 as B3. at1 B3 as B4. at1 B4 as B5. at1 B5 as B6. at1 B6 as B7.
  pose proof (fun t => must_spacing_ok buf penv spkg _ _ t Hsp Hspn (ident_stop pkg _ Hpk) B7) as Hms1. atn B7 as B8.
  pose proof (fun t => identifier_ok buf penv pkg s1 _ _ t Hpk Hs1 Hst (layhead_nic _ _ Hs1 Hs1n) B8) as Hid1.
  pose proof (At_sub _ _ pkg _ B8) as Hsub1.
  eexists. cbn [map]. eapply Cs_eq_x; [crun|lia|cbn [app]; rewrite Hsub1, ?app_nil_r; reflexivity|reflexivity].
Qed.

Lemma seg_type stype peg s2 tl ea p t :
  lay stype -> stype <> [] -> ident_ok peg = true -> lay s2 -> s2 <> [] -> stop tl ->
  (forall q t0, C ea q q [(CAddPeg, sub buf t0)] t0 t0) ->
  At p (kw_type ++ stype ++ peg ++ s2 ++ tl) ->
  exists t', Cs buf penv [kwe kw_type; EName pr_MustSpacing; EName pr_Identifier; ea] p
               (p + 4 + length stype + length peg + length s2)%nat [(CAddPeg, peg)] t t'.
Proof.
  intros Hst Hstn Hpeg Hs2 Hs2n Htl Hea Hat. unfold kw_type in *. norm_app Hat.
  at1 Hat as D1. at1 D1 as D2. at1 D2 as D3. at1 D3 as D4.
  pose proof (fun t => must_spacing_ok buf penv stype _ _ t Hst Hstn (ident_stop peg _ Hpeg) D4) as Hms2. atn D4 as D5.
  pose proof (fun t => identifier_ok buf penv peg s2 _ _ t Hpeg Hs2 Htl (layhead_nic _ _ Hs2 Hs2n) D5) as Hid2.
  pose proof (At_sub _ _ peg _ D5) as Hsub2.
  eexists. cbn [map]. eapply Cs_eq_x; [crun|lia|cbn [app]; rewrite Hsub2, ?app_nil_r; reflexivity|reflexivity].
Qed.

Lemma seg_state s3 state s4 tl ea p t :
  lay s3 -> bal state -> lay s4 -> stop tl ->
  (forall q t0, C ea q q [(CAddState, sub buf t0)] t0 t0) ->
  At p (kw_Peg ++ s3 ++ 123 :: state ++ 125 :: s4 ++ tl) ->
  exists t', Cs buf penv [kwe kw_Peg; EName pr_Spacing; EName pr_Action; ea] p
               (p + 3 + length s3 + 2 + length state + length s4)%nat [(CAddState, state)] t t'.
Proof.
  intros Hs3 Hbal Hs4 Htl Hea Hat. unfold kw_Peg in *. norm_app Hat.
  at1 Hat as E1. at1 E1 as E2. at1 E2 as E3.
  assert (Hst3 : stop (123 :: state ++ 125 :: s4 ++ tl)) by (apply stop_char; lia).
  pose proof (fun t => spacing_ok buf penv s3 _ _ t Hs3 Hst3 E3) as Hsp3. atn E3 as E4.
  pose proof (fun t => action_ok buf penv state s4 _ _ t Hbal Hs4 Htl E4) as Hact.
  at1 E4 as E5. pose proof (At_sub _ _ state _ E5) as Hsub3.
  eexists. cbn [map]. eapply Cs_eq_x; [crun|lia|cbn [app]; rewrite Hsub3, ?app_nil_r; reflexivity|reflexivity].
Qed.

Lemma seg_defs d defs p t : defs_ok (d :: defs) -> At p (flat_map dshow (d :: defs) ++ []) ->
  exists t', Cs buf penv [EPlus (EName pr_Definition); EName pr_EndOfFile] p (p + length (flat_map dshow (d :: defs)))%nat
               (flat_map dcalls (d :: defs)) t t'.
Proof.
  intros Hdefs Hat. cbn [defs_ok flat_map] in *. destruct Hdefs as (Hd & Hg & Hl). rewrite <- app_assoc in Hat.
  assert (Hg' : glue (d_body d) = true -> not_icont_head (flat_map dshow defs ++ [])).
  { intros E. rewrite app_nil_r. destruct defs as [|d' l']; [intros ? ? E0; discriminate E0|]. rewrite Hg in E; [discriminate|discriminate]. }
  assert (Hds : defstart (flat_map dshow defs ++ [])) by (rewrite app_nil_r; apply defs_start; exact Hl).
  destruct (def_parse d _ p t Hd Hds Hg' Hat) as [t2 Hd1].
  atn Hat as E9. destruct (defs_star defs _ t2 Hl E9) as [t3 Hdr]. atn E9 as E10.
  pose proof (fun t => eof_ok buf penv _ t E10) as Heof.
  exists t3. eapply Cs_eq_x; [eapply Cs_cons; [eapply C_plus; [exact Hd1|exact Hdr]|eapply Cs_cons; [apply Heof|apply Cs_nil]]
                             |rewrite app_length; lia|cbn [app]; rewrite ?app_nil_r; reflexivity|reflexivity].
Qed.

(** the whole file: the rule Grammar reads all of it and makes the calls of the file *)
Theorem grammar_ok f t : file_ok f -> buf = fshow f ->
  exists t', C (EName pr_Grammar) 0 (length buf) (fcalls f) t t'.
Proof.
  intros (Hh & Hsp & Hspn & Hpk & Hs1 & Hs1n & Himp & Hst & Hstn & Hpeg & Hs2 & Hs2n & Hs3 & Hbal & Hs4 & Hdn & Hdefs) Ebuf.
  destruct f as [hdr spkg pkg s1 imps stype peg s2 s3 state s4 defs]. unfold fshow, fcalls in *.
  cbn [f_header f_s_pkg f_pkg f_s1 f_imports f_s_type f_peg f_s2 f_s3 f_state f_s4 f_defs] in *.
  destruct defs as [|d defs]; [congruence|].
  assert (Hat : At 0 (flat_map hshow hdr ++ kw_package ++ spkg ++ pkg ++ s1 ++ flat_map impshow imps ++
                      kw_type ++ stype ++ peg ++ s2 ++ kw_Peg ++ s3 ++ 123 :: state ++ 125 :: s4 ++ flat_map dshow (d :: defs) ++ [])).
  { rewrite app_nil_r. rewrite <- Ebuf. apply At_start. }
  (* the action rules of Grammar, from its body *)
  let b := eval vm_compute in (nth_error pegpeg_d pr_Grammar) in
  lazymatch b with
  | Some (RBody (ESeq [_; _; _; _; ?a1; _; _; _; _; ?a2; _; _; _; ?a3; _; _])) => pose (ea1 := a1); pose (ea2 := a2); pose (ea3 := a3)
  end.
  assert (Hea1 : forall q t0, C ea1 q q [(CAddPackage, sub buf t0)] t0 t0) by (intros; subst ea1; cgo).
  assert (Hea2 : forall q t0, C ea2 q q [(CAddPeg, sub buf t0)] t0 t0) by (intros; subst ea2; cgo).
  assert (Hea3 : forall q t0, C ea3 q q [(CAddState, sub buf t0)] t0 t0) by (intros; subst ea3; cgo).
  (* 1: header, package *)
  assert (Hst1 : stop (flat_map impshow imps ++ kw_type ++ stype ++ peg ++ s2 ++ kw_Peg ++ s3 ++ 123 :: state ++ 125 :: s4 ++ flat_map dshow (d :: defs) ++ [])).
  { destruct imps as [|i' l']; cbn [flat_map app]; [unfold kw_type; cbn [app]; apply stop_char; lia|].
    destruct i'; cbn [impshow]; unfold kw_import; cbn [app]; apply stop_char; lia. }
  destruct (seg_head hdr spkg pkg s1 _ ea1 0%nat t Hh Hsp Hspn Hpk Hs1 Hs1n Hst1 Hea1 Hat) as [t1 S1].
  set (q1 := (0 + length (flat_map hshow hdr) + 7 + length spkg + length pkg + length s1)%nat) in *.
  assert (A1 : At q1 (flat_map impshow imps ++ kw_type ++ stype ++ peg ++ s2 ++ kw_Peg ++ s3 ++ 123 :: state ++ 125 :: s4 ++ flat_map dshow (d :: defs) ++ [])).
  { subst q1. atn Hat as X0. unfold kw_package in X0. cbn [app] in X0. at1 X0 as X1. at1 X1 as X2. at1 X2 as X3. at1 X3 as X4. at1 X4 as X5. at1 X5 as X6. at1 X6 as X7.
    atn X7 as X8. atn X8 as X9. atn X9 as X10.
    replace (0 + length (flat_map hshow hdr) + 7 + length spkg + length pkg + length s1)%nat
      with (S (S (S (S (S (S (S (0 + length (flat_map hshow hdr)))))))) + length spkg + length pkg + length s1)%nat by lia. exact X10. }
  (* 2: imports *)
  atn A1 as A2.
  assert (Kimp : ko (EName pr_Import) (q1 + length (flat_map impshow imps))%nat) by (unfold kw_type in A2; cbn [app] in A2; korun).
  assert (Hst2 : stop (kw_type ++ stype ++ peg ++ s2 ++ kw_Peg ++ s3 ++ 123 :: state ++ 125 :: s4 ++ flat_map dshow (d :: defs) ++ [])) by (unfold kw_type; cbn [app]; apply stop_char; lia).
  destruct (imports_star imps _ q1 t1 Himp Hst2 Kimp A1) as [t2 S2].
  (* 3: type *)
  assert (Hst3 : stop (kw_Peg ++ s3 ++ 123 :: state ++ 125 :: s4 ++ flat_map dshow (d :: defs) ++ [])) by (unfold kw_Peg; cbn [app]; apply stop_char; lia).
  destruct (seg_type stype peg s2 _ ea2 _ t2 Hst Hstn Hpeg Hs2 Hs2n Hst3 Hea2 A2) as [t3 S3].
  set (q3 := (q1 + length (flat_map impshow imps) + 4 + length stype + length peg + length s2)%nat) in *.
  assert (A3 : At q3 (kw_Peg ++ s3 ++ 123 :: state ++ 125 :: s4 ++ flat_map dshow (d :: defs) ++ [])).
  { subst q3. unfold kw_type in A2. cbn [app] in A2. at1 A2 as X1. at1 X1 as X2. at1 X2 as X3. at1 X3 as X4. atn X4 as X5. atn X5 as X6. atn X6 as X7.
    replace (q1 + length (flat_map impshow imps) + 4 + length stype + length peg + length s2)%nat
      with (S (S (S (S (q1 + length (flat_map impshow imps))))) + length stype + length peg + length s2)%nat by lia. exact X7. }
  (* 4: Peg { state } *)
  assert (Hdst : stop (flat_map dshow (d :: defs) ++ [])) by (rewrite app_nil_r; apply defs_stop; exact Hdefs).
  destruct (seg_state s3 state s4 _ ea3 _ t3 Hs3 Hbal Hs4 Hdst Hea3 A3) as [t4 S4].
  set (q4 := (q3 + 3 + length s3 + 2 + length state + length s4)%nat) in *.
  assert (A4 : At q4 (flat_map dshow (d :: defs) ++ [])).
  { subst q4. unfold kw_Peg in A3. cbn [app] in A3. at1 A3 as X1. at1 X1 as X2. at1 X2 as X3. atn X3 as X4. at1 X4 as X5. atn X5 as X6. at1 X6 as X7. atn X7 as X8.
    replace (q3 + 3 + length s3 + 2 + length state + length s4)%nat
      with (S (S (S (S (S q3)) + length s3) + length state) + length s4)%nat by lia. exact X8. }
  (* 5: the rules, end of file *)
  destruct (seg_defs d defs _ t4 Hdefs A4) as [t5 S5].
  atn A4 as A5.
  assert (Elen : length buf = (q4 + length (flat_map dshow (d :: defs)))%nat).
  { symmetry. eapply At_inj; [exact A5|]. split; [lia|]. apply skipn_all. }
  exists t5. into_rule. apply C_seq. rewrite Elen.
  assert (Hall : exists cs, Cs buf penv ([EName pr_Header; kwe kw_package; EName pr_MustSpacing; EName pr_Identifier; ea1] ++ [EStar (EName pr_Import)] ++
                  [kwe kw_type; EName pr_MustSpacing; EName pr_Identifier; ea2] ++ [kwe kw_Peg; EName pr_Spacing; EName pr_Action; ea3] ++
                  [EPlus (EName pr_Definition); EName pr_EndOfFile]) 0 (q4 + length (flat_map dshow (d :: defs)))%nat cs t t5 /\
                cs = (map hcall hdr ++ [(CAddPackage, pkg)]) ++ (flat_map impcalls imps ++ []) ++ [(CAddPeg, peg)] ++ [(CAddState, state)] ++ flat_map dcalls (d :: defs)).
  { eexists. split; [|reflexivity].
    eapply Cs_app; [exact S1|]. eapply Cs_app; [eapply Cs_cons; [exact S2|apply Cs_nil]|].
    eapply Cs_app; [exact S3|]. eapply Cs_app; [exact S4|exact S5]. }
  destruct Hall as (cs & Hall & Ecs).
  subst ea1 ea2 ea3. cbn [app map kw_package kw_type kw_Peg] in Hall.
  eapply Cs_eq_x; [exact Hall|reflexivity|rewrite Ecs, ?app_nil_r, <- ?app_assoc; reflexivity|reflexivity].
Qed.

End File.
