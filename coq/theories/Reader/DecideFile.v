(** [file_okb f = true] implies [file_ok f]. *)
From PegV Require Import Base.Tac Base.ListX Spec.Syntax Model.Calls Reader.Base Reader.Lex Reader.Chars Reader.Lits Reader.Expr Reader.Decide Reader.File.
Local Open Scope Z_scope.

Lemma nolbb_sound body : nolbb body = true -> nolb body.
Proof.
  unfold nolbb, nolb. intros H. apply Forall_forall. intros c Hc. pose proof (proj1 (forallb_forall _ _) H c Hc) as E.
  apply negb_true_iff in E. lia.
Qed.
Lemma eol_kind_sound e : eol_kind e <> 0%nat -> is_eol e /\ (e = [13] <-> eol_kind e = 2%nat).
Proof.
  unfold eol_kind, is_eol. destruct e as [|c [|d [|? ?]]]; try congruence.
  - destruct (Z.eqb_spec c 10) as [->|?]; [intros _; split; [auto|split; [discriminate|discriminate]]|].
    destruct (Z.eqb_spec c 13) as [->|?]; [intros _; split; [auto|split; reflexivity]|congruence].
  - destruct (Z.eqb_spec c 13) as [->|?]; [destruct (Z.eqb_spec d 10) as [->|?]|]; cbn [andb]; try congruence.
    intros _. split; [auto|split; discriminate].
Qed.
Lemma header_okb_sound l tl : header_okb l tl = true -> header_ok l tl.
Proof.
  induction l as [|h l IH]; cbn [header_okb header_ok]; [auto|]. intros H. apply andb_true_iff in H. destruct H as [Hh Hl].
  split; [|apply IH; exact Hl]. destruct h as [sl body e|run]; cbn [hitem_okb hitem_ok] in *.
  - apply andb_true_iff in Hh. destruct Hh as [Hh H3]. apply andb_true_iff in Hh. destruct Hh as [H1 H2].
    apply negb_true_iff in H2. apply Nat.eqb_neq in H2. destruct (eol_kind_sound e H2) as [He Hk].
    split; [apply nolbb_sound; exact H1|]. split; [exact He|]. intros E. apply Hk in E. rewrite E in H3. cbn in H3.
    apply head_is_ne. apply negb_true_iff. exact H3.
  - apply andb_true_iff in Hh. destruct Hh as [Hh H3]. apply andb_true_iff in Hh. destruct Hh as [H1 H2].
    split; [destruct run; [discriminate|discriminate]|]. split; [exact H2|]. intros c r E. rewrite E in H3. apply negb_true_iff in H3. exact H3.
Qed.

Lemma iname_okb_sound n : iname_okb n = true -> iname_ok n.
Proof.
  unfold iname_okb, iname_ok. intros H. apply andb_true_iff in H. destruct H as [H H3]. apply andb_true_iff in H. destruct H as [H1 H2].
  split; [destruct (in_path n); [discriminate|discriminate]|]. split; [exact H2|].
  destruct (in_alias n) as [[id s]|]; [|exact I]. apply andb_true_iff in H3. destruct H3. split; [assumption|apply layb_sound; assumption].
Qed.
Lemma imp_okb_sound i : imp_okb i = true -> imp_ok i.
Proof.
  destruct i as [s1 n s2|s1 s2 items s3]; cbn [imp_okb imp_ok]; intros H; repeat (apply andb_true_iff in H; destruct H as [H ?]).
  - split; [apply layb_sound; exact H|]. split; [apply iname_okb_sound; assumption|apply layb_sound; assumption].
  - split; [apply layb_sound; exact H|]. split; [apply layb_sound; assumption|]. split; [apply layb_sound; assumption|].
    apply Forall_forall. intros ns Hin. match goal with F : forallb _ items = true |- _ => pose proof (proj1 (forallb_forall _ _) F ns Hin) as Hf end.
    apply andb_true_iff in Hf. destruct Hf. split; [apply iname_okb_sound; assumption|apply layb_sound; assumption].
Qed.
Lemma defs_okb_sound l : defs_okb l = true -> defs_ok l.
Proof.
  induction l as [|d l IH]; cbn [defs_okb defs_ok]; [auto|]. intros H. apply andb_true_iff in H. destruct H as [H H3]. apply andb_true_iff in H. destruct H as [H1 H2].
  split; [|split; [|apply IH; exact H3]].
  - unfold def_okb in H1. repeat (apply andb_true_iff in H1; destruct H1 as [H1 ?]). unfold def_ok.
    split; [exact H1|]. split; [apply layb_sound; assumption|]. split; [apply layb_sound; assumption|apply wfb_wf; assumption].
  - intros Hne. destruct l; [congruence|]. apply negb_true_iff in H2. exact H2.
Qed.
Lemma nonempty_ne {A} (l : list A) : nonempty l = true -> l <> [].
Proof. destruct l; [discriminate|discriminate]. Qed.
Theorem file_okb_sound f : file_okb f = true -> file_ok f.
Proof.
  unfold file_okb, file_ok. intros H. repeat (apply andb_true_iff in H; destruct H as [H ?]).
  repeat split; try (apply layb_sound; assumption); try (apply nonempty_ne; assumption); try assumption.
  - apply header_okb_sound; exact H.
  - apply Forall_forall. intros i Hi. apply imp_okb_sound. match goal with F : forallb imp_okb _ = true |- _ => exact (proj1 (forallb_forall _ _) F i Hi) end.
  - apply balb_sound; assumption.
  - apply defs_okb_sound; assumption.
Qed.
