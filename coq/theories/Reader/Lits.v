(** Literals and classes: a guarded list of items between delimiters. *)
From PegV Require Import Base.Tac Base.ListX Spec.Syntax Spec.Peg Proofs.PegRel Model.Calls Generated.PegPeg Reader.Base Reader.Lex Reader.Chars.
Local Open Scope Z_scope.

Lemma kshow_head k : exists m, kshow k = khead k :: m.
Proof. destruct k; cbn; eauto. Qed.

(** * the loop  (!guard item sep)*  over a list of items *)
Section Star.
Variable buf : list rune.
Variable penv : nat -> nat -> bool.
Notation At := (At buf).
Notation C := (C buf penv).
Notation ko := (ko pegpeg_d pegpeg_d_ptx buf penv).
Notation ok := (ok pegpeg_d pegpeg_d_ptx buf penv).

Variable A : Type.
Variable show : A -> list rune.
Variable cl : A -> list call.
Variable okb : A -> list rune -> bool.
Variables eg ei ea : expr.
Variable sep : list call.
Variable close : list rune.
Hypothesis Hitem : forall a rest p t, okb a rest = true -> At p (show a ++ rest) ->
  ko eg p /\ exists t', C ei p (p + length (show a))%nat (cl a) t t'.
Hypothesis Hsep : forall p t, C ea p p sep t t.
Hypothesis Hclose : forall p after, At p (close ++ after) -> exists p' f, ok eg p p' f.

Notation shows := (shows A show).
Notation items_ok := (items_ok A show okb).

Lemma items_star l : forall after p t, items_ok l (close ++ after) = true -> At p (shows l ++ close ++ after) ->
  exists t', C (EStar (ESeq [ENot eg; ei; ea])) p (p + length (shows l))%nat (flat_map (fun a => cl a ++ sep) l) t t'.
Proof.
  induction l as [|a l IH]; intros after p t Hok Hat; cbn [shows flat_map app length items_ok] in *.
  - destruct (Hclose _ _ Hat) as (p' & f & Ho). exists t.
    eapply C_eq; [apply C_star_nil; apply ko_seq; apply kos_head; eapply ko_not; exact Ho|lia|reflexivity|reflexivity].
  - apply andb_true_iff in Hok. destruct Hok as [Ha Hl]. fold (shows l) in *. rewrite <- app_assoc in Hat.
    destruct (Hitem a _ p t Ha Hat) as [Hk [t1 Hi]].
    pose proof (At_app _ _ _ _ Hat) as A1.
    destruct (IH after _ t1 Hl A1) as [t2 Hrec]. exists t2.
    eapply C_eq; [eapply C_star_cons; [apply C_seq; eapply Cs_cons; [apply C_not; exact Hk|eapply Cs_cons; [exact Hi|eapply Cs_cons; [apply Hsep|apply Cs_nil]]]|exact Hrec]
                 |rewrite app_length; lia|cbn [app]; rewrite app_nil_r; reflexivity|reflexivity].
Qed.

(** the first item: !guard item *)
Lemma items_first a rest p t : okb a rest = true -> At p (show a ++ rest) ->
  exists t', C (ESeq [ENot eg; ei]) p (p + length (show a))%nat (cl a) t t'.
Proof.
  intros Ha Hat. destruct (Hitem a _ p t Ha Hat) as [Hk [t1 Hi]]. exists t1.
  eapply C_eq; [apply C_seq; eapply Cs_cons; [apply C_not; exact Hk|eapply Cs_cons; [exact Hi|apply Cs_nil]]|reflexivity|cbn [app]; rewrite app_nil_r; reflexivity|reflexivity].
Qed.

(** nothing where an item could start: the guard sees the closing delimiter *)
Lemma items_none p after : At p (close ++ after) -> ko (ESeq [ENot eg; ei]) p.
Proof. intros Hat. destruct (Hclose _ _ Hat) as (p' & f & Ho). apply ko_seq. apply kos_head. eapply ko_not. exact Ho. Qed.

End Star.

Section Lit.
Variable buf : list rune.
Variable penv : nat -> nat -> bool.
Notation At := (At buf).
Notation C := (C buf penv).
Notation ko := (ko pegpeg_d pegpeg_d_ptx buf penv).
Notation ok := (ok pegpeg_d pegpeg_d_ptx buf penv).

Lemma lit_item (dbl : bool) k rest p t : lit_item_ok (quote_of dbl) k rest = true -> At p (kshow k ++ rest) ->
  ko (EChar (quote_of dbl)) p /\
  exists t', C (EName (if dbl then pr_DoubleChar else pr_Char)) p (p + length (kshow k))%nat [kcall dbl k] t t'.
Proof.
  intros Hok Hat. unfold lit_item_ok in Hok. apply andb_true_iff in Hok. destruct Hok as [Hok Hf].
  apply andb_true_iff in Hok. destruct Hok as [Hv Hq]. apply negb_true_iff in Hq.
  split.
  - destruct (kshow_head k) as [m Em]. rewrite Em in Hat. cbn [app] in Hat.
    eapply ko_char_at; [exact Hat|]. intros c' s' E. inv E. lia.
  - destruct dbl; [eapply dchar_ok|eapply char_ok]; eassumption.
Qed.
Lemma quote_close (dbl : bool) p after : At p ([quote_of dbl] ++ after) -> exists p' f, ok (EChar (quote_of dbl)) p p' f.
Proof. intros Hat. exists (S p), []. apply ok_char. eapply At_head. exact Hat. Qed.

Theorem literal_ok (dbl : bool) ks s rest p t :
  chars_ok (quote_of dbl) ks (quote_of dbl :: s ++ rest) = true -> lay s -> stop rest ->
  At p (quote_of dbl :: kshows ks ++ quote_of dbl :: s ++ rest) ->
  exists t', C (EName pr_Literal) p (p + 2 + length (kshows ks) + length s)%nat (lit_calls dbl ks) t t'.
Proof.
  intros Hok Hl St Hat. at1 Hat as A1.
  assert (Hsep : forall e, (forall p t, C e p p [(CAddSequence, [])] t t) ->
    forall ks' t1 p1, chars_ok (quote_of dbl) ks' (quote_of dbl :: s ++ rest) = true ->
      At p1 (kshows ks' ++ quote_of dbl :: s ++ rest) ->
      exists t', C (EStar (ESeq [ENot (EChar (quote_of dbl)); EName (if dbl then pr_DoubleChar else pr_Char); e])) p1
                   (p1 + length (kshows ks'))%nat (flat_map (fun k => [kcall dbl k] ++ [(CAddSequence, [])]) ks') t1 t').
  { intros e He ks' t1 p1 Hk Hat1.
    eapply (items_star buf penv cchar kshow (fun k => [kcall dbl k]) (lit_item_ok (quote_of dbl)) _ _ e [(CAddSequence, [])] [quote_of dbl]
              (lit_item dbl) He (quote_close dbl)); [exact Hk|exact Hat1]. }
  destruct ks as [|k ks'].
  - (* empty literal: a nil node *)
    cbn [kshows flat_map app length] in *. at1 A1 as A2.
    pose proof (fun t => spacing_ok buf penv _ _ _ t Hl St A2) as Hsp.
    pose proof (items_none buf penv (EChar (quote_of dbl)) (EName (if dbl then pr_DoubleChar else pr_Char)) [quote_of dbl] (quote_close dbl) _ _ A1) as Hnone.
    exists t. destruct dbl; cbn [quote_of] in *; eapply C_eq; [crun|lia|reflexivity|reflexivity| crun|lia|reflexivity|reflexivity].
  - cbn [kshows flat_map] in *. fold (kshows ks') in *. rewrite <- app_assoc in A1.
    unfold chars_ok in Hok. cbn [items_ok] in Hok. apply andb_true_iff in Hok. destruct Hok as [Hk Hks].
    fold (shows cchar kshow ks') in Hk. change (shows cchar kshow ks') with (kshows ks') in Hk.
    destruct (items_first buf penv cchar kshow (fun k => [kcall dbl k]) (lit_item_ok (quote_of dbl)) (EChar (quote_of dbl)) _
                (lit_item dbl) k _ (S p) t Hk A1) as [t1 Hfirst].
    atn A1 as A2.
    assert (Hstar : forall e, (forall p t, C e p p [(CAddSequence, [])] t t) -> exists t',
      C (EStar (ESeq [ENot (EChar (quote_of dbl)); EName (if dbl then pr_DoubleChar else pr_Char); e])) (S p + length (kshow k))%nat
        (S p + length (kshow k) + length (kshows ks'))%nat (flat_map (fun k => [kcall dbl k] ++ [(CAddSequence, [])]) ks') t1 t').
    { intros e He. apply (Hsep e He ks' t1 _ Hks A2). }
    atn A2 as A3. at1 A3 as A4.
    pose proof (fun t => spacing_ok buf penv _ _ _ t Hl St A4) as Hsp.
    let b := eval vm_compute in (nth_error pegpeg_d pr_Literal) in
    lazymatch b with
    | Some (RBody (EAlt [ESeq [_; _; EStar (ESeq [_; _; ?a1]); _; _]; ESeq [_; _; EStar (ESeq [_; _; ?a2]); _; _]])) =>
        destruct (Hstar (if dbl then a2 else a1) ltac:(intros; destruct dbl; cgo)) as [t2 Hst]
    end.
    exists t2. destruct dbl; cbn [quote_of] in *.
    + into_rule. apply C_alt. apply Ca_tail; [korun|]. apply Ca_head.
      eapply C_eq; [crun|rewrite !app_length; cbn [length]; lia|cbn [lit_calls app]; rewrite ?app_nil_r; reflexivity|reflexivity].
    + into_rule. apply C_alt. apply Ca_head.
      eapply C_eq; [crun|rewrite !app_length; cbn [length]; lia|cbn [lit_calls app]; rewrite ?app_nil_r; reflexivity|reflexivity].
Qed.

End Lit.

(** an item, given what follows it: not the closing bracket first, digit runs end, a lone character is not
    followed by '-' *)
Section Class.
Variable buf : list rune.
Variable penv : nat -> nat -> bool.
Notation At := (At buf).
Notation C := (C buf penv).
Notation ko := (ko pegpeg_d pegpeg_d_ptx buf penv).
Notation ok := (ok pegpeg_d pegpeg_d_ptx buf penv).

Lemma ihead_show i : exists m, ishow i = ihead i :: m.
Proof. destruct i as [k|lo hi]; cbn [ishow ihead]; [apply kshow_head|]. destruct (kshow_head lo) as [m E]. rewrite E. cbn. eauto. Qed.
Lemma item_head i rest : item_okb i rest = true -> ihead i <> 93.
Proof.
  destruct i; cbn [item_okb ihead]; intros H; repeat (apply andb_true_iff in H; destruct H as [H ?]);
    match goal with X : negb (_ =? 93) = true |- _ => apply negb_true_iff in X; lia end.
Qed.

Lemma guard_ko dbl i rest p : item_okb i rest = true -> At p (ishow i ++ rest) -> ko (cguard dbl) p.
Proof.
  intros Hok Hat. pose proof (item_head _ _ Hok). destruct (ihead_show i) as [m E]. rewrite E in Hat. cbn [app] in Hat.
  destruct dbl; cbn [cguard]; korun.
Qed.
Lemma guard_close dbl p after : At p (cclose dbl ++ after) -> exists p' f, ok (cguard dbl) p p' f.
Proof.
  intros Hat. destruct dbl; cbn [cclose cguard app] in *.
  - at1 Hat as A1. exists (S (S p)), ([] ++ [] ++ []). apply ok_seq. eapply oks_cons; [apply ok_char; eapply At_head; exact Hat|].
    eapply oks_cons; [apply ok_char; eapply At_head; exact A1|apply oks_nil].
  - exists (S p), []. apply ok_char. eapply At_head. exact Hat.
Qed.

Lemma range_item dbl i rest p t : item_okb i rest = true -> At p (ishow i ++ rest) ->
  ko (cguard dbl) p /\
  exists t', C (EName (if dbl then pr_DoubleRange else pr_Range)) p (p + length (ishow i))%nat (icalls dbl i) t t'.
Proof.
  intros Hok Hat. split; [eapply guard_ko; eassumption|].
  destruct i as [k|lo hi]; cbn [item_okb ishow icalls] in *.
  - apply andb_true_iff in Hok. destruct Hok as [Hok Hd]. apply andb_true_iff in Hok. destruct Hok as [Hok Hf].
    apply andb_true_iff in Hok. destruct Hok as [Hv _]. apply negb_true_iff in Hd.
    destruct (char_ok buf penv k rest p (0%nat, 0%nat) Hv Hf Hat) as [t0 H0].
    atn Hat as A1.
    assert (Hk : ko (EChar 45) (p + length (kshow k))%nat).
    { eapply ko_char_at; [exact A1|]. intros c' s' ->. cbn [head_is] in Hd. lia. }
    destruct dbl.
    + destruct (dchar_ok buf penv k rest p t Hv Hf Hat) as [t1 H1]. exists t1. cgo.
    + destruct (char_ok buf penv k rest p t Hv Hf Hat) as [t1 H1]. exists t1. cgo.
  - apply andb_true_iff in Hok. destruct Hok as [Hok Hfh]. apply andb_true_iff in Hok. destruct Hok as [Hok Hvh].
    apply andb_true_iff in Hok. destruct Hok as [Hok Hfl]. apply andb_true_iff in Hok. destruct Hok as [Hvl _].
    rewrite <- app_assoc in Hat. cbn [app] in Hat.
    destruct (char_ok buf penv lo _ p t Hvl Hfl Hat) as [t1 K1].
    atn Hat as A1. at1 A1 as A2.
    destruct (char_ok buf penv hi _ _ t1 Hvh Hfh A2) as [t2 K2].
    exists t2. destruct dbl.
    + eapply C_eq; [crun|rewrite app_length; cbn [length]; lia|reflexivity|reflexivity].
    + eapply C_eq; [crun|rewrite app_length; cbn [length]; lia|reflexivity|reflexivity].
Qed.

Lemma ranges_ok dbl i l after p t : citems_ok (i :: l) (cclose dbl ++ after) = true ->
  At p (ishows (i :: l) ++ cclose dbl ++ after) ->
  exists t', C (EName (if dbl then pr_DoubleRanges else pr_Ranges)) p (p + length (ishows (i :: l)))%nat (chain_calls dbl (i :: l)) t t'.
Proof.
  intros Hok Hat. unfold citems_ok in Hok. cbn [items_ok] in Hok. apply andb_true_iff in Hok. destruct Hok as [Hi Hl].
  change (shows citem ishow l) with (ishows l) in Hi.
  cbn [ishows flat_map] in *. fold (ishows l) in *. rewrite <- app_assoc in Hat.
  destruct (range_item dbl i _ p t Hi Hat) as [Hk [t1 Hfirst]].
  atn Hat as A1.
  let b := eval vm_compute in (nth_error pegpeg_d pr_Ranges, nth_error pegpeg_d pr_DoubleRanges) in
  lazymatch b with
  | (Some (RBody (ESeq [_; _; EStar (ESeq [_; _; ?a1])])), Some (RBody (ESeq [_; _; EStar (ESeq [_; _; ?a2])]))) =>
      destruct (items_star buf penv citem ishow (icalls dbl) item_okb (cguard dbl) _ (if dbl then a2 else a1) [(CAddAlternate, [])] (cclose dbl)
                  (range_item dbl) ltac:(intros; destruct dbl; cgo) (guard_close dbl) l after _ t1 Hl A1) as [t2 Hst]
  end.
  exists t2. change (shows citem ishow l) with (ishows l) in Hst.
  destruct dbl; cbn [cguard] in *; into_rule.
  - eapply C_eq; [crun|rewrite app_length; lia|cbn [chain_calls app]; rewrite ?app_nil_r; reflexivity|reflexivity].
  - eapply C_eq; [crun|rewrite app_length; lia|cbn [chain_calls app]; rewrite ?app_nil_r; reflexivity|reflexivity].
Qed.
Lemma ranges_ko dbl after p : At p (cclose dbl ++ after) -> ko (EName (if dbl then pr_DoubleRanges else pr_Ranges)) p.
Proof.
  intros Hat. destruct (guard_close dbl _ _ Hat) as (p' & f & Ho).
  destruct dbl; cbn [cguard] in *; ko_into_rule; apply ko_seq; apply kos_head; eapply ko_not; exact Ho.
Qed.

Theorem class_ok dbl neg l s rest p t :
  class_wf dbl neg l = true -> citems_ok l (cclose dbl ++ s ++ rest) = true -> lay s -> stop rest ->
  At p (copen dbl ++ (if neg then [94] else []) ++ ishows l ++ cclose dbl ++ s ++ rest) ->
  exists t', C (EName pr_Class) p (p + class_len dbl neg l + length s)%nat (class_calls dbl neg l) t t'.
Proof.
  intros Hwf Hok Hl St Hat. unfold class_len.
  destruct l as [|i l].
  - (* empty: [] or [[]] *)
    cbn [class_wf] in Hwf. apply negb_true_iff in Hwf. subst neg. cbn [ishows flat_map app length] in *. exists t.
    destruct dbl; cbn [copen cclose app length] in *.
    + at1 Hat as A1. at1 A1 as A2. at1 A2 as A3. at1 A3 as A4.
      pose proof (ranges_ko true _ _ A2) as Hk. cbn iota in Hk.
      pose proof (fun t => spacing_ok buf penv _ _ _ t Hl St A4) as Hsp.
      eapply C_eq; [crun|lia|reflexivity|reflexivity].
    + at1 Hat as A1. at1 A1 as A2.
      pose proof (ranges_ko false _ _ A1) as Hk. cbn iota in Hk.
      pose proof (fun t => spacing_ok buf penv _ _ _ t Hl St A2) as Hsp.
      eapply C_eq; [crun|lia|reflexivity|reflexivity].
  - destruct (ihead_show i) as [m Em].
    assert (Hpos : forall q, At q ((if neg then [94] else []) ++ ishows (i :: l) ++ cclose dbl ++ s ++ rest) ->
      exists t', C (EName (if dbl then pr_DoubleRanges else pr_Ranges)) (q + (if neg then 1 else 0))%nat
                   (q + (if neg then 1 else 0) + length (ishows (i :: l)))%nat (chain_calls dbl (i :: l)) t t').
    { intros q Hq. destruct neg; cbn [app] in Hq.
      - at1 Hq as Q1. replace (q + 1)%nat with (S q) by lia. apply (ranges_ok dbl i l _ _ t Hok Q1).
      - rewrite Nat.add_0_r. apply (ranges_ok dbl i l _ _ t Hok Hq). }
    destruct dbl; cbn [copen cclose app length] in *.
    + at1 Hat as A1. at1 A1 as A2. destruct (Hpos _ A2) as [t1 Hr].
      assert (A3 : At (S (S p) + (if neg then 1 else 0) + length (ishows (i :: l)))%nat (93 :: 93 :: s ++ rest)).
      { destruct neg; cbn [app] in A2.
        - at1 A2 as A2'. atn A2' as A2''. replace (S (S p) + 1)%nat with (S (S (S p))) by lia. exact A2''.
        - atn A2 as A2''. rewrite Nat.add_0_r. exact A2''. }
      at1 A3 as A4. at1 A4 as A5.
      pose proof (fun t => spacing_ok buf penv _ _ _ t Hl St A5) as Hsp.
      exists t1. destruct neg; cbn [app] in A2.
      * replace (S (S p) + 1)%nat with (S (S (S p))) in * by lia.
        eapply C_eq; [crun|lia|cbn [class_calls app]; rewrite ?app_nil_r; reflexivity|reflexivity].
      * rewrite Nat.add_0_r in *. cbn [class_wf orb] in Hwf. apply andb_true_iff in Hwf. destruct Hwf as [H94 _].
        apply negb_true_iff in H94. cbn [ishows flat_map] in A2. rewrite Em in A2. cbn [app] in A2.
        assert (ihead i <> 94) by lia.
        eapply C_eq; [crun|lia|cbn [class_calls app]; rewrite ?app_nil_r; reflexivity|reflexivity].
    + at1 Hat as A1. destruct (Hpos _ A1) as [t1 Hr].
      assert (A3 : At (S p + (if neg then 1 else 0) + length (ishows (i :: l)))%nat (93 :: s ++ rest)).
      { destruct neg; cbn [app] in A1.
        - at1 A1 as A1'. atn A1' as A1''. replace (S p + 1)%nat with (S (S p)) by lia. exact A1''.
        - atn A1 as A1''. rewrite Nat.add_0_r. exact A1''. }
      at1 A3 as A4.
      pose proof (fun t => spacing_ok buf penv _ _ _ t Hl St A4) as Hsp.
      exists t1. destruct neg; cbn [app] in A1.
      * replace (S p + 1)%nat with (S (S p)) in * by lia.
        eapply C_eq; [crun|lia|cbn [class_calls app]; rewrite ?app_nil_r; reflexivity|reflexivity].
      * rewrite Nat.add_0_r in *. cbn [class_wf orb] in Hwf. apply andb_true_iff in Hwf. destruct Hwf as [H94 H91].
        apply negb_true_iff in H94, H91. cbn [ishows flat_map] in A1. rewrite Em in A1. cbn [app] in A1.
        assert (ihead i <> 94 /\ ihead i <> 91) as [? ?] by lia.
        eapply C_eq; [crun|lia|cbn [class_calls app]; rewrite ?app_nil_r; reflexivity|reflexivity].
Qed.

End Class.
