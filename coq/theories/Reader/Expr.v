(** Expressions of the .peg language as written (with their layout), their text, and the builder calls
    the front end's parser makes when it reads that text back. *)
From PegV Require Import Base.Tac Base.ListX Spec.Syntax Spec.Peg Proofs.PegRel Model.Calls Generated.PegPeg
  Reader.Base Reader.Lex Reader.Chars Reader.Lits.
From PegV Require Model.Front.
Local Open Scope Z_scope.

(** Model/Front.v folds case for ASCII letters only, the Go builder (strings.ToLower / ToUpper) for all of
    Unicode: the end points of a [[a-z]] range stay below 128, where the two agree *)
Lemma lay_head s c r : lay s -> s = c :: r -> c = 32 \/ c = 9 \/ c = 10 \/ c = 13 \/ c = 35 \/ c = 47.
Proof. intros H E. subst s. inv H; tauto. Qed.

Lemma pstart_ne45 c : pstart c = true -> c <> 45 /\ c <> 47 /\ c <> 41 /\ c <> 62 /\ c <> 63 /\ c <> 42 /\ c <> 43 /\ c <> 8592 /\
  c <> 32 /\ c <> 9 /\ c <> 10 /\ c <> 13 /\ c <> 35.
Proof. unfold pstart, is_istart. lia. Qed.

(** an expression below the alternation level starts with a character that can start a Prefix; when that is
    '<' the next character is not '-' *)
Lemma show_start n : forall e, (size e <= n)%nat -> wf e -> (lvl e <= 3)%nat ->
  exists c m, show e = c :: m /\ pstart c = true /\ (c = 60 -> forall rest, head_ne 45 (m ++ rest)).
Proof.
  induction n as [|n IH]; intros e Hn Hw Hl; [destruct e; cbn in Hn; lia|].
  destruct e as [s|id s|a s|dbl ks s|dbl neg items s|s1 e s2|s1 e s2|op e s|op s e|op s1 a s2|l|e1 l trail|];
    cbn [lvl] in Hl; try lia; cbn [show size] in *.
  - exists 46, s. repeat split. intros E; discriminate E.
  - inversion Hw as [|? ? Hid Hs| | | | | | | | | | |]; subst.
    destruct id as [|c r]; [discriminate|]. cbn [ident_ok] in Hid. apply andb_true_iff in Hid. destruct Hid as [Hc _].
    exists c, (r ++ s). repeat split.
    + unfold pstart. rewrite Hc. repeat rewrite orb_true_r. reflexivity.
    + intros ->. discriminate Hc.
  - exists 123, (a ++ 125 :: s). repeat split. intros E; discriminate E.
  - destruct dbl; cbn [quote_of]; eexists _, _; (split; [reflexivity|]); (split; [reflexivity|]); intros E; discriminate E.
  - destruct dbl; cbn [copen app]; eexists _, _; (split; [reflexivity|]); (split; [reflexivity|]); intros E; discriminate E.
  - exists 40, (s1 ++ show e ++ 41 :: s2). repeat split. intros E; discriminate E.
  - inversion Hw as [| | | | | |? ? ? Hs1 Hwe Hs2| | | | | |]; subst.
    exists 60, (s1 ++ show e ++ 62 :: s2). repeat split. intros _ rest c' r E.
    destruct s1 as [|c1 s1'].
    + cbn [app] in E.
      assert (Hsub : forall x, (size x <= n)%nat -> wf x -> (lvl x <= 3)%nat -> forall tl, head_ne 45 (show x ++ tl)).
      { intros x Hx Hwx Hlx tl c0 r0 E0. destruct (IH x Hx Hwx Hlx) as (c & m & Es & Hp & _).
        rewrite Es in E0. cbn [app] in E0. inv E0. apply pstart_ne45 in Hp. lia. }
      destruct (Nat.le_gt_cases (lvl e) 3) as [L3|L3].
      * eapply (Hsub e ltac:(lia) Hwe L3). rewrite <- app_assoc in E. exact E.
      * destruct e; cbn [lvl] in L3; try lia.
        -- (* an alternation: its first sequence *)
           inversion Hwe as [| | | | | | | | | | |? ? ? Hl1 Hw1 _ _ _|]; subst. cbn [show size] in *.
           eapply (Hsub e ltac:(lia) Hw1 Hl1). rewrite <- !app_assoc in E. exact E.
        -- cbn [show app] in E. inv E. lia.
    + cbn [app] in E. inv E. destruct (lay_head _ _ _ Hs1 eq_refl) as [?|[?|[?|[?|[?|?]]]]]; lia.
  - inversion Hw as [| | | | | | |? ? ? Hop Hle Hwe Hs| | | | |]; subst.
    destruct (IH e ltac:(lia) Hwe ltac:(lia)) as (c & m & Es & Hp & H60). rewrite Es. cbn [app].
    exists c, (m ++ op :: s). repeat split; [exact Hp|]. intros E rest. rewrite <- app_assoc. apply H60. exact E.
  - inversion Hw as [| | | | | | | |? ? ? Hop Hs Hle Hwe Hh| | | |]; subst.
    exists op, (s ++ show e). repeat split.
    + destruct Hop as [-> | ->]; reflexivity.
    + intros ->. destruct Hop; discriminate.
  - inversion Hw as [| | | | | | | | |? ? ? ? Hop Hs1 Hb Hs2| | |]; subst.
    exists op, (s1 ++ 123 :: a ++ 125 :: s2). repeat split.
    + destruct Hop as [-> | ->]; reflexivity.
    + intros ->. destruct Hop; discriminate.
  - inversion Hw as [| | | | | | | | | |? Hlen Hall Hadj| |]; subst.
    destruct l as [|x l]; [cbn in Hlen; lia|]. inversion Hall as [|? ? [Hlx Hwx] _]; subst. cbn [flat_map].
    destruct (IH x ltac:(cbn [fold_right] in Hn; lia) Hwx ltac:(lia)) as (c & m & Es & Hp & H60). rewrite Es. cbn [app].
    exists c, (m ++ flat_map show l). repeat split; [exact Hp|]. intros E rest. rewrite <- app_assoc. apply H60. exact E.
Qed.

Lemma prim_head e : wf e -> lvl e = 0%nat -> exists c m, show e = c :: m /\ c <> 38 /\ c <> 33.
Proof.
  intros Hw Hl. destruct e as [s|id s|a s|dbl ks s|dbl neg items s|s1 e s2|s1 e s2|op e s|op s e|op s1 a s2|l|e1 l trail|];
    cbn [lvl] in Hl; try discriminate; cbn [show].
  - eexists _, _. split; [reflexivity|lia].
  - inversion Hw as [|? ? Hid Hs| | | | | | | | | | |]; subst.
    destruct id as [|c r]; [discriminate|]. cbn [ident_ok] in Hid. apply andb_true_iff in Hid. destruct Hid as [Hc _].
    exists c, (r ++ s). split; [reflexivity|]. unfold is_istart in Hc. lia.
  - eexists _, _. split; [reflexivity|lia].
  - destruct dbl; cbn [quote_of]; eexists _, _; (split; [reflexivity|lia]).
  - destruct dbl; cbn [copen app]; eexists _, _; (split; [reflexivity|lia]).
  - eexists _, _. split; [reflexivity|lia].
  - eexists _, _. split; [reflexivity|lia].
Qed.
Lemma low_head e : wf e -> (lvl e <= 1)%nat -> exists c m, show e = c :: m /\ c <> 38 /\ c <> 33.
Proof.
  intros Hw Hl. destruct (Nat.eq_dec (lvl e) 0) as [E0|N0]; [apply prim_head; assumption|].
  destruct e; cbn [lvl] in *; try lia.
  inversion Hw as [| | | | | | |? ? ? Hop Hle Hwe Hs| | | | |]; subst.
  destruct (prim_head e Hwe Hle) as (c & m & Es & Hc). cbn [show]. rewrite Es. cbn [app]. eexists _, _. split; [reflexivity|exact Hc].
Qed.

(** any expression: empty text, or a character that can start a Prefix *)
Lemma show_start4 e : wf e -> show e = [] \/
  exists c m, show e = c :: m /\ pstart c = true /\ (c = 60 -> forall rest, head_ne 45 (m ++ rest)).
Proof.
  intros Hw. destruct (Nat.le_gt_cases (lvl e) 3) as [L|L]; [right; eapply show_start; eauto|].
  destruct e; cbn [lvl] in L; try lia.
  - inversion Hw as [| | | | | | | | | | |? ? ? Hl1 Hw1 _ _ _|]; subst. right.
    destruct (show_start _ e (le_n _) Hw1 Hl1) as (c & m & Es & Hp & H60). cbn [show]. rewrite Es. cbn [app].
    eexists _, _. split; [reflexivity|]. split; [exact Hp|]. intros E rest. rewrite <- app_assoc. apply H60. exact E.
  - left. reflexivity.
Qed.

(** the spelling conditions of a literal or class do not depend on what follows its closing delimiter *)
Lemma kfollow_tail k m q t1 t2 : q = 39 \/ q = 34 \/ q = 93 -> kfollow k (m ++ q :: t1) = kfollow k (m ++ q :: t2).
Proof.
  intros Hq. destruct k as [c|c|x ds|ds]; cbn [kfollow]; try reflexivity.
  - destruct m as [|c m]; cbn [app]; reflexivity.
  - destruct ds as [|a [|b [|c ds]]]; try reflexivity.
    + destruct m as [|c [|d m]]; cbn [app]; try reflexivity.
      * destruct Hq as [-> | [-> | ->]]; cbn [Z.eqb Pos.eqb orb]; rewrite !andb_false_r; reflexivity.
    + destruct (is_oct03 a); [|reflexivity]. destruct m as [|c m]; cbn [app]; reflexivity.
Qed.
Lemma items_ok_ext A (show : A -> list rune) (okb : A -> list rune -> bool) a1 a2 :
  (forall a m, okb a (m ++ a1) = okb a (m ++ a2)) -> forall l, items_ok A show okb l a1 = items_ok A show okb l a2.
Proof. intros H l. induction l as [|a l IH]; cbn [items_ok]; [reflexivity|]. rewrite IH, H. reflexivity. Qed.
Lemma chars_ok_tail dbl ks tl : chars_ok (quote_of dbl) ks [quote_of dbl] = true -> chars_ok (quote_of dbl) ks (quote_of dbl :: tl) = true.
Proof.
  intros H. unfold chars_ok in *. rewrite <- H. apply items_ok_ext. intros k m. unfold lit_item_ok. f_equal.
  apply kfollow_tail. destruct dbl; cbn; tauto.
Qed.
Lemma head_is_app c m q tl1 tl2 : head_is c (m ++ q :: tl1) = head_is c (m ++ q :: tl2).
Proof. destruct m; reflexivity. Qed.
Lemma citems_ok_tail dbl items tl : citems_ok items (cclose dbl) = true -> citems_ok items (cclose dbl ++ tl) = true.
Proof.
  intros H. unfold citems_ok in *. rewrite <- H. apply items_ok_ext. intros i m.
  assert (E : exists t1 t2, cclose dbl ++ tl = 93 :: t1 /\ cclose dbl = 93 :: t2) by (destruct dbl; cbn; eauto).
  destruct E as (t1 & t2 & -> & ->).
  destruct i as [k|lo hi]; cbn [item_okb].
  - f_equal; [f_equal|]; [apply kfollow_tail; tauto|f_equal; apply head_is_app].
  - f_equal; [|apply kfollow_tail; tauto]. do 2 f_equal.
    rewrite !app_assoc, !app_comm_cons. apply kfollow_tail. tauto.
Qed.

Lemma glue_seq l : glue (XSeq l) = glue_list l.
Proof. induction l as [|x l IH]; [reflexivity|]. cbn [glue glue_list] in *. destruct l; [reflexivity|exact IH]. Qed.
Lemma glue_alt e1 l : glue (XAlt e1 l None) = match l with [] => glue e1 | _ => glue_listp l end.
Proof.
  destruct l as [|sx l]; [reflexivity|]. revert sx. induction l as [|y l IH]; intros sx; [reflexivity|].
  specialize (IH y). cbn [glue glue_listp] in *. exact IH.
Qed.
Lemma size_in_seq y l : In y l -> (size y < size (XSeq l))%nat.
Proof. cbn [size]. induction l as [|x l IH]; intros H; [destruct H|]. cbn [fold_right]. destruct H as [->|H]; [lia|specialize (IH H); lia]. Qed.
Lemma nic_app a b : a <> [] -> not_icont_head a -> not_icont_head (a ++ b).
Proof. intros Hne H c r E. destruct a as [|c0 a']; [congruence|]. cbn [app] in E. inv E. eapply H. reflexivity. Qed.

Lemma size_in_alt e1 sx l trail : In sx l -> (size (snd sx) < size (XAlt e1 l trail))%nat.
Proof. cbn [size]. induction l as [|y l IH]; intros H; [destruct H|]. cbn [fold_right]. destruct H as [->|H]; [lia|specialize (IH H); lia]. Qed.

Section Expr.
Variable buf : list rune.
Variable penv : nat -> nat -> bool.
Notation At := (At buf).
Notation C := (C buf penv).
Notation ko := (ko pegpeg_d pegpeg_d_ptx buf penv).

(** ** what fails, by the next character *)
Lemma prefix_ko q s0 : At q s0 -> (forall c r, s0 = c :: r -> pstart c = false) -> ko (EName pr_Prefix) q.
Proof.
  intros Hat N. destruct s0 as [|c r]; [korun|].
  pose proof (N c r eq_refl) as Hc. unfold pstart, is_istart in Hc.
  repeat (apply orb_false_iff in Hc; destruct Hc as [Hc ?]).
  assert (c <> 38 /\ c <> 33 /\ c <> 40 /\ c <> 39 /\ c <> 34 /\ c <> 91 /\ c <> 46 /\ c <> 123 /\ c <> 60) as (?&?&?&?&?&?&?&?&?) by lia.
  korun.
Qed.

(** the followers of an expression: all that must not match where it ends *)
Record fol (q : nat) (rest : list rune) : Prop := {
  fol_at : At q rest;
  fol_stop : stop rest;
  fol_arrow : ko (EName pr_LeftArrow) q;
  fol_q : ko (EName pr_Question) q;
  fol_s : ko (EName pr_Star) q;
  fol_p : ko (EName pr_Plus) q }.

Lemma fol_char q c m : At q (c :: m) ->
  c <> 32 -> c <> 9 -> c <> 10 -> c <> 13 -> c <> 35 -> (c = 47 -> head_ne 47 m) ->
  c <> 8592 -> (c = 60 -> head_ne 45 m) -> c <> 63 -> c <> 42 -> c <> 43 -> fol q (c :: m).
Proof.
  intros Hat; intros. constructor.
  - exact Hat.
  - cbn [stop]. repeat split; try assumption. intros E. destruct m as [|d m']; [exact I|].
    destruct (Z.eq_dec d 47) as [->|Nd]; [exfalso; eapply (H4 E); reflexivity|].
    destruct d as [|d|d]; try exact I. do 6 (destruct d as [d|d|]; try exact I). exfalso; apply Nd; reflexivity.
  - eapply arrow_ko; [exact Hat|]. intros c0 s' E. inv E. split; [assumption|]. intros E2 c2 s2 ->. eapply H6; [exact E2|reflexivity].
  - eapply tok_ko; [lookup|exact Hat|]. intros ? ? E. inv E. assumption.
  - eapply tok_ko; [lookup|exact Hat|]. intros ? ? E. inv E. assumption.
  - eapply tok_ko; [lookup|exact Hat|]. intros ? ? E. inv E. assumption.
Qed.
Lemma fol_eof q : At q [] -> fol q [].
Proof.
  intros Hat. constructor; [exact Hat|exact I| | | |].
  - eapply arrow_ko; [exact Hat|]. intros ? ? E. discriminate E.
  - eapply tok_ko; [lookup|exact Hat|]. intros ? ? E. discriminate E.
  - eapply tok_ko; [lookup|exact Hat|]. intros ? ? E. discriminate E.
  - eapply tok_ko; [lookup|exact Hat|]. intros ? ? E. discriminate E.
Qed.

(** ** the five levels *)
Definition rule (k : nat) : nat :=
  match k with 0 => pr_Primary | 1 => pr_Suffix | 2 => pr_Prefix | 3 => pr_Sequence | _ => pr_Expression end%nat.

Record fol0 (q : nat) (rest : list rune) : Prop := {
  f0_at : At q rest;
  f0_stop : stop rest;
  f0_arrow : ko (EName pr_LeftArrow) q }.
Definition fol1 (q : nat) : Prop := ko (EName pr_Question) q /\ ko (EName pr_Star) q /\ ko (EName pr_Plus) q.
Lemma fol_split q rest : fol q rest -> fol0 q rest /\ fol1 q.
Proof. intros [A B C1 D E F]. split; [constructor; assumption|repeat split; assumption]. Qed.

Definition Pk (k : nat) (e : cx) : Prop :=
  (lvl e <= k)%nat -> wf e -> forall rest p t,
    At p (show e ++ rest) -> fol0 (p + length (show e))%nat rest -> (glue e = true -> not_icont_head rest) ->
    ((1 <= k)%nat -> fol1 (p + length (show e))%nat) ->
    ((3 <= k)%nat -> ko (EName pr_Prefix) (p + length (show e))%nat) ->
    ((4 <= k)%nat -> ko (EName pr_Slash) (p + length (show e))%nat /\ head_ne 47 rest) ->
    exists t', C (EName (rule k)) p (p + length (show e))%nat (xcalls e) t t'.

Lemma pstart_stop c m : pstart c = true -> stop (c :: m).
Proof. intros H. apply pstart_ne45 in H. cbn [stop]. repeat split; try lia. all: try (intros ->; lia). Qed.

(** where a bracketed expression ends: ')' or '>' *)
Lemma closer_facts q c m : At q (c :: m) -> c = 41 \/ c = 62 ->
  fol0 q (c :: m) /\ fol1 q /\ ko (EName pr_Prefix) q /\ ko (EName pr_Slash) q /\ head_ne 47 (c :: m) /\ not_icont_head (c :: m).
Proof.
  intros Hat Hc.
  assert (Hf : fol q (c :: m)).
  { apply fol_char; try exact Hat; try (destruct Hc; subst; lia); intros E; destruct Hc; subst; discriminate. }
  destruct (fol_split _ _ Hf) as [F0 F1]. split; [exact F0|]. split; [exact F1|]. split; [|split; [|split]].
  - eapply prefix_ko; [exact Hat|]. intros c0 r E. inv E. destruct Hc; subst; reflexivity.
  - eapply tok_ko; [lookup|exact Hat|]. intros c0 r E. inv E. destruct Hc; subst; lia.
  - intros c0 r E. inv E. destruct Hc; subst; lia.
  - intros c0 r E. inv E. destruct Hc; subst; reflexivity.
Qed.
Lemma stop_inner x c tl : wf x -> c = 41 \/ c = 62 -> stop (show x ++ c :: tl).
Proof.
  intros Hw Hc. destruct (show_start4 x Hw) as [E|(c0 & m & E & Hp & _)]; rewrite E; cbn [app].
  - cbn [stop]. destruct Hc; subst; repeat split; try lia; intros; discriminate.
  - apply pstart_stop. exact Hp.
Qed.

Lemma layhead_nic s rest : lay s -> s <> [] -> not_icont_head (s ++ rest).
Proof.
  intros Hl Hne c r E. destruct s as [|c0 s']; [congruence|]. cbn [app] in E. inv E.
  destruct (lay_head _ _ _ Hl eq_refl) as [?|[?|[?|[?|[?|?]]]]]; subst; reflexivity.
Qed.

Definition IHn (n : nat) : Prop := forall e k, (size e < n)%nat -> (k <= 4)%nat -> Pk k e.

Lemma L0 e : IHn (size e) -> Pk 0 e.
Proof.
  intros IH Hl Hw rest p t Hat F0 Hg _ _ _. destruct F0 as [Hq Hstop Harrow]. zr.
  destruct e as [s|id s|a s|dbl ks s|dbl neg items s|s1 x s2|s1 x s2|op x s|op s x|op s1 a s2|l|e1 l trail|];
    cbn [lvl] in Hl; try lia; cbn [show xcalls rule] in *.
  all: zr.
  - (* . *)
    inversion Hw as [? Hs| | | | | | | | | | | |]; subst. cbn [app length] in *.
    pose proof (fun t => tok_ok buf penv pr_Dot 46 s rest p t ltac:(lookup) ltac:(notptx) Hs Hstop Hat) as Hdot.
    exists t. into_rule. eapply C_eq; [crun|zlia|reflexivity|reflexivity].
  - (* name *)
    inversion Hw as [|? ? Hid Hs| | | | | | | | | | |]; subst. rewrite <- app_assoc in Hat. rewrite app_length in *.
    replace (p + (length id + length s))%nat with (p + length id + length s)%nat in * by zlia.
    assert (Hn : not_icont_head (s ++ rest)).
    { destruct s as [|c0 s']; [apply Hg; reflexivity|apply layhead_nic; [exact Hs|discriminate]]. }
    pose proof (fun t => identifier_ok buf penv id s rest p t Hid Hs Hstop Hn Hat) as Hident.
    pose proof (At_sub _ _ id _ Hat) as Hsub.
    exists (p, (p + length id)%nat). into_rule.
    eapply C_eq; [crun|zlia|cbn [app calls1 nth pegpeg_calls map fst snd arg_of]; rewrite Hsub; reflexivity|reflexivity].
  - (* action *)
    inversion Hw as [| |? ? Hb Hs| | | | | | | | | |]; subst. cbn [app length] in *. rewrite app_length in *. cbn [length] in *.
    rewrite <- app_assoc in Hat. cbn [app] in Hat.
    pose proof (fun t => action_ok buf penv a s rest p t Hb Hs Hstop Hat) as Hact.
    at1 Hat as A1. pose proof (At_sub _ _ a _ A1) as Hsub.
    exists (S p, (S p + length a)%nat). into_rule.
    eapply C_eq; [crun|zlia|cbn [app calls1 nth pegpeg_calls map fst snd arg_of]; rewrite Hsub; reflexivity|reflexivity].
  - (* literal *)
    inversion Hw as [| | |? ? ? Hk Hs| | | | | | | | |]; subst. cbn [app length] in *.
    rewrite <- app_assoc in Hat. cbn [app] in Hat.
    pose proof (chars_ok_tail dbl ks (s ++ rest) Hk) as Hk'.
    destruct (literal_ok buf penv dbl ks s rest p t Hk' Hs Hstop Hat) as [t1 Hlit].
    exists t1. into_rule. destruct dbl; cbn [quote_of] in *;
      (eapply C_eq; [crun|lenlia|reflexivity|reflexivity]).
  - (* class *)
    inversion Hw as [| | | |? ? ? ? Hcw Hci Hra Hs| | | | | | | |]; subst.
    rewrite <- !app_assoc in Hat.
    pose proof (citems_ok_tail dbl items (s ++ rest) Hci) as Hci'.
    destruct (class_ok buf penv dbl neg items s rest p t Hcw Hci' Hs Hstop Hat) as [t1 Hcl].
    assert (Hlen : (p + class_len dbl neg items + length s = p + length (copen dbl ++ (if neg then [94%Z] else []) ++ ishows items ++ cclose dbl ++ s))%nat).
    { unfold class_len. rewrite !app_length. destruct neg; cbn [length]; zlia. }
    zr. rewrite Hlen in Hcl.
    exists t1. into_rule. destruct dbl; cbn [copen app] in *; (eapply C_eq; [crun|reflexivity|reflexivity|reflexivity]).
  - (* ( e ) *)
    inversion Hw as [| | | | |? ? ? Hs1 Hwx Hs2| | | | | | |]; subst. cbn [app length] in *.
    rewrite <- !app_assoc in Hat. cbn [app] in Hat.
    pose proof (fun t => tok_ok buf penv pr_Open 40 s1 _ p t ltac:(lookup) ltac:(notptx) Hs1 (stop_inner x 41 _ Hwx (or_introl eq_refl)) Hat) as Hopen.
    zr. replace (p + 1 + length s1)%nat with (S p + length s1)%nat in * by lia.
    at1 Hat as A1. atn A1 as A2. atn A2 as A3.
    destruct (closer_facts _ _ _ A3 (or_introl eq_refl)) as (G0 & G1 & G2 & G3 & G4 & G5).
    assert (Hlx : (lvl x <= 4)%nat) by (destruct x; cbn; lia).
    destruct (IH x 4%nat ltac:(cbn [size]; lia) (le_n _) Hlx Hwx _ _ t A2 G0 (fun _ => G5) (fun _ => G1) (fun _ => G2) (fun _ => conj G3 G4)) as [t1 Hx].
    cbn [rule] in Hx.
    pose proof (fun t => tok_ok buf penv pr_Close 41 s2 rest _ t ltac:(lookup) ltac:(notptx) Hs2 Hstop A3) as Hclose.
    exists t1. into_rule.
    eapply C_eq; [crun|lenlia|cbn [app]; rewrite ?app_nil_r; reflexivity|reflexivity].
  - (* < e > *)
    inversion Hw as [| | | | | |? ? ? Hs1 Hwx Hs2| | | | | |]; subst. cbn [app length] in *.
    rewrite <- !app_assoc in Hat. cbn [app] in Hat.
    pose proof (fun t => tok_ok buf penv pr_Begin 60 s1 _ p t ltac:(lookup) ltac:(notptx) Hs1 (stop_inner x 62 _ Hwx (or_intror eq_refl)) Hat) as Hopen.
    zr. replace (p + 1 + length s1)%nat with (S p + length s1)%nat in * by lia.
    at1 Hat as A1. atn A1 as A2. atn A2 as A3.
    destruct (closer_facts _ _ _ A3 (or_intror eq_refl)) as (G0 & G1 & G2 & G3 & G4 & G5).
    assert (Hlx : (lvl x <= 4)%nat) by (destruct x; cbn; lia).
    destruct (IH x 4%nat ltac:(cbn [size]; lia) (le_n _) Hlx Hwx _ _ t A2 G0 (fun _ => G5) (fun _ => G1) (fun _ => G2) (fun _ => conj G3 G4)) as [t1 Hx].
    cbn [rule] in Hx.
    pose proof (fun t => tok_ok buf penv pr_End 62 s2 rest _ t ltac:(lookup) ltac:(notptx) Hs2 Hstop A3) as Hclose.
    exists t1. into_rule.
    eapply C_eq; [crun|lenlia|cbn [app]; rewrite ?app_nil_r; reflexivity|reflexivity].
Qed.

Lemma IHn_mono n m : IHn n -> (m <= n)%nat -> IHn m.
Proof. intros H L e k Hs Hk. apply H; lia. Qed.

Lemma L1 e : IHn (size e) -> Pk 1 e.
Proof.
  intros IH Hl Hw rest p t Hat F0 Hg F1 _ _. specialize (F1 (le_n _)). destruct F1 as (FQ & FS & FP).
  destruct (Nat.eq_dec (lvl e) 0) as [E0|N0].
  - (* a plain primary: none of ? * + follows *)
    destruct (L0 e IH ltac:(lia) Hw rest p t Hat F0 Hg ltac:(lia) ltac:(lia) ltac:(lia)) as [t1 H0]. cbn [rule] in *.
    exists t1. into_rule. eapply C_eq; [crun|reflexivity|cbn [app]; rewrite ?app_nil_r; reflexivity|reflexivity].
  - destruct e as [s|id s|a s|dbl ks s|dbl neg items s|s1 x s2|s1 x s2|op x s|op s x|op s1 a s2|l|e1 l trail|];
      cbn [lvl] in *; try lia. clear N0.
    inversion Hw as [| | | | | | |? ? ? Hop Hlx Hwx Hs| | | | |]; subst.
    destruct F0 as [Hq Hstop Harrow]. cbn [show xcalls rule] in *. zr.
    rewrite <- app_assoc in Hat. cbn [app] in Hat. atn Hat as A1.
    assert (Hop3 : op <> 8592 /\ op <> 60 /\ is_icont op = false /\ op <> 32 /\ op <> 9 /\ op <> 10 /\ op <> 13 /\ op <> 35 /\ op <> 47).
    { destruct Hop as [-> | [-> | ->]]; repeat split; try lia; reflexivity. }
    destruct Hop3 as (N1 & N2 & N3 & N4 & N5 & N6 & N7 & N8 & N9).
    assert (G0 : fol0 (p + length (show x))%nat (op :: s ++ rest)).
    { constructor; [exact A1| |].
      - cbn [stop]. repeat split; try assumption. intros; lia.
      - eapply arrow_ko; [exact A1|]. intros c s' E. inv E. split; [assumption|]. intros; lia. }
    destruct (L0 x (IHn_mono _ (size x) IH ltac:(cbn [size]; lia)) ltac:(lia) Hwx _ p t Hat G0
               ltac:(intros _ c r E; inv E; exact N3) ltac:(lia) ltac:(lia) ltac:(lia)) as [t1 Hx]. cbn [rule] in Hx.
    exists t1. destruct Hop as [-> | [-> | ->]].
    + pose proof (fun t => tok_ok buf penv pr_Question _ s rest _ t ltac:(lookup) ltac:(notptx) Hs Hstop A1) as Hq1. into_rule.
      eapply C_eq; [crun|lenlia|cbn [app suf_call Z.eqb Pos.eqb]; rewrite ?app_nil_r; reflexivity|reflexivity].
    + pose proof (fun t => tok_ok buf penv pr_Star _ s rest _ t ltac:(lookup) ltac:(notptx) Hs Hstop A1) as Hq1. into_rule.
      eapply C_eq; [crun|lenlia|cbn [app suf_call Z.eqb Pos.eqb]; rewrite ?app_nil_r; reflexivity|reflexivity].
    + pose proof (fun t => tok_ok buf penv pr_Plus _ s rest _ t ltac:(lookup) ltac:(notptx) Hs Hstop A1) as Hq1. into_rule.
      eapply C_eq; [crun|lenlia|cbn [app suf_call Z.eqb Pos.eqb]; rewrite ?app_nil_r; reflexivity|reflexivity].
Qed.

Lemma L2 e : IHn (size e) -> Pk 2 e.
Proof.
  intros IH Hl Hw rest p t Hat F0 Hg F1 _ _. specialize (F1 ltac:(lia)).
  destruct (Nat.le_gt_cases (lvl e) 1) as [L1e|N1].
  - (* no prefix operator *)
    destruct (low_head e Hw L1e) as (c & m & Es & Nc1 & Nc2).
    destruct (L1 e IH L1e Hw rest p t Hat F0 Hg (fun _ => F1) ltac:(lia) ltac:(lia)) as [t1 H1]. cbn [rule] in *.
    rewrite Es in Hat. cbn [app] in Hat.
    assert (Ka : ko (EName pr_And) p) by (eapply tok_ko; [lookup|exact Hat|intros ? ? E; inv E; assumption]).
    assert (Kn : ko (EName pr_Not) p) by (eapply tok_ko; [lookup|exact Hat|intros ? ? E; inv E; assumption]).
    exists t1. into_rule. eapply C_eq; [crun|reflexivity|reflexivity|reflexivity].
  - destruct F0 as [Hq Hstop Harrow].
    destruct e as [s|id s|a s|dbl ks s|dbl neg items s|s1 x s2|s1 x s2|op x s|op s x|op s1 a s2|l|e1 l trail|];
      cbn [lvl] in *; try lia; clear N1; cbn [show xcalls rule glue] in *; zr.
    + (* &e !e *)
      inversion Hw as [| | | | | | | |? ? ? Hop Hs Hlx Hwx Hh| | | |]; subst.
      destruct (low_head x Hwx Hlx) as (c & m & Es & Nc1 & Nc2).
      cbn [app length] in *. rewrite <- app_assoc in Hat. at1 Hat as A1. atn A1 as A2.
      assert (Hc123 : c <> 123) by (eapply Hh; exact Es).
      assert (Hps : pstart c = true).
      { destruct (show_start _ x (le_n _) Hwx ltac:(lia)) as (c' & m' & Es' & Hp' & _). rewrite Es in Es'. inv Es'. exact Hp'. }
      assert (Hst : stop (show x ++ rest)) by (rewrite Es; cbn [app]; apply pstart_stop; exact Hps).
      assert (Kact : ko (EName pr_Action) (S p + length s)%nat).
      { eapply action_ko; [exact A2|]. rewrite Es. cbn [app]. intros ? ? E. inv E. exact Hc123. }
      assert (G0 : fol0 (S p + length s + length (show x))%nat rest).
      { constructor; [|exact Hstop|]; rewrite app_length in *;
          replace (S p + length s + length (show x))%nat with (p + S (length s + length (show x)))%nat by lia; assumption. }
      assert (F1' : fol1 (S p + length s + length (show x))%nat).
      { rewrite app_length in F1. replace (S p + length s + length (show x))%nat with (p + S (length s + length (show x)))%nat by lia. exact F1. }
      destruct (IH x 1%nat ltac:(cbn [size]; lia) ltac:(lia) Hlx Hwx rest _ t A2 G0 Hg (fun _ => F1') ltac:(lia) ltac:(lia)) as [t1 Hx].
      cbn [rule] in Hx. exists t1.
      destruct Hop as [-> | ->].
      * pose proof (fun t => tok_ok buf penv pr_And _ s _ p t ltac:(lookup) ltac:(notptx) Hs Hst Hat) as Hand.
        zr. replace (p + 1 + length s)%nat with (S p + length s)%nat in * by lia.
        into_rule. eapply C_eq; [crun|lenlia|cbn [app pre_call Z.eqb Pos.eqb]; rewrite ?app_nil_r; reflexivity|reflexivity].
      * pose proof (fun t => tok_ok buf penv pr_Not _ s _ p t ltac:(lookup) ltac:(notptx) Hs Hst Hat) as Hnot.
        zr. replace (p + 1 + length s)%nat with (S p + length s)%nat in * by lia.
        into_rule. eapply C_eq; [crun|lenlia|cbn [app pre_call Z.eqb Pos.eqb]; rewrite ?app_nil_r; reflexivity|reflexivity].
    + (* &{a} !{a} *)
      inversion Hw as [| | | | | | | | |? ? ? ? Hop Hs1 Hb Hs2| | |]; subst.
      cbn [app length] in *. rewrite <- !app_assoc in Hat. cbn [app] in Hat. rewrite <- app_assoc in Hat. cbn [app] in Hat.
      at1 Hat as A1. atn A1 as A2.
      assert (Hst : stop (123 :: a ++ 125 :: s2 ++ rest)) by (cbn [stop]; repeat split; try lia; intros; lia).
      pose proof (fun t => action_ok buf penv a s2 rest _ t Hb Hs2 Hstop A2) as Hact.
      at1 A2 as A3. pose proof (At_sub _ _ a _ A3) as Hsub.
      eexists. destruct Hop as [-> | ->].
      * pose proof (fun t => tok_ok buf penv pr_And _ s1 _ p t ltac:(lookup) ltac:(notptx) Hs1 Hst Hat) as Hand.
        zr. replace (p + 1 + length s1)%nat with (S p + length s1)%nat in * by lia.
        into_rule. eapply C_eq; [crun|lenlia|cbn [app calls1 nth pegpeg_calls map fst snd arg_of pred_call Z.eqb Pos.eqb]; rewrite Hsub; reflexivity|reflexivity].
      * pose proof (fun t => tok_ok buf penv pr_Not _ s1 _ p t ltac:(lookup) ltac:(notptx) Hs1 Hst Hat) as Hnot.
        zr. replace (p + 1 + length s1)%nat with (S p + length s1)%nat in * by lia.
        into_rule. eapply C_eq; [crun|lenlia|cbn [app calls1 nth pegpeg_calls map fst snd arg_of pred_call Z.eqb Pos.eqb]; rewrite Hsub; reflexivity|reflexivity].
Qed.

(** ** sequences *)
Lemma start_fol q c m : At q (c :: m) -> pstart c = true -> (c = 60 -> head_ne 45 m) -> fol q (c :: m).
Proof.
  intros Hat Hp H60. pose proof (pstart_ne45 _ Hp) as N.
  apply fol_char; try exact Hat; try lia; try (intros; lia). exact H60.
Qed.

(** what follows an item of a sequence: the next item, or what follows the sequence *)
Lemma item_follow y l rest q :
  Forall (fun z => (lvl z <= 2)%nat /\ wf z) l -> adj (y :: l) -> At q (flat_map show l ++ rest) ->
  fol0 (q + length (flat_map show l))%nat rest -> fol1 (q + length (flat_map show l))%nat ->
  (glue_list (y :: l) = true -> not_icont_head rest) ->
  fol0 q (flat_map show l ++ rest) /\ fol1 q /\ (glue y = true -> not_icont_head (flat_map show l ++ rest)).
Proof.
  intros Hall Hadj A1 F0 F1 Hg. destruct l as [|z l'].
  - cbn [flat_map app length glue_list] in *. rewrite Nat.add_0_r in *. auto.
  - inversion Hall as [|? ? (Hlz & Hwz) _]; subst.
    destruct (show_start _ z (le_n _) Hwz ltac:(lia)) as (c & m & Ez & Hp & H60).
    cbn [flat_map] in *. rewrite Ez in *. cbn [app] in *.
    rewrite <- app_assoc in A1.
    pose proof (start_fol _ _ _ A1 Hp (fun E => H60 E _)) as Hf. rewrite app_assoc in Hf. destruct (fol_split _ _ Hf) as [G0 G1].
    split; [exact G0|]. split; [exact G1|]. intros Gy. destruct Hadj as [Hnic _]. specialize (Hnic Gy).
    intros c0 r E. inv E. exact (Hnic _ _ Ez).
Qed.

Lemma seq_star n ea : IHn n -> (forall p t, C ea p p [(CAddSequence, [])] t t) ->
  forall l, Forall (fun y => (size y < n)%nat /\ (lvl y <= 2)%nat /\ wf y) l -> adj l ->
  forall rest p t, At p (flat_map show l ++ rest) ->
    fol0 (p + length (flat_map show l))%nat rest -> fol1 (p + length (flat_map show l))%nat ->
    (glue_list l = true -> not_icont_head rest) -> ko (EName pr_Prefix) (p + length (flat_map show l))%nat ->
    exists t', C (EStar (ESeq [EName pr_Prefix; ea])) p (p + length (flat_map show l))%nat
                 (flat_map (fun y => xcalls y ++ [(CAddSequence, [])]) l) t t'.
Proof.
  intros IH Hea l. induction l as [|y l IHl]; intros Hall Hadj rest p t Hat F0 F1 Hg Hk; cbn [flat_map app length] in *.
  - rewrite Nat.add_0_r in *. exists t. apply C_star_nil. apply ko_seq. apply kos_head. exact Hk.
  - inversion Hall as [|? ? (Hsz & Hly & Hwy) Hall']; subst. rewrite <- app_assoc in Hat. atn Hat as A1.
    rewrite app_length in *. rewrite Nat.add_assoc in *.
    assert (Hall2 : Forall (fun z => (lvl z <= 2)%nat /\ wf z) l).
    { eapply Forall_impl; [|exact Hall']. cbn. intros ? (_ & ? & ?). auto. }
    destruct (item_follow y l rest _ Hall2 Hadj A1 F0 F1 Hg) as (G0 & G1 & Gg).
    destruct (IH y 2%nat Hsz ltac:(lia) Hly Hwy _ p t Hat G0 Gg (fun _ => G1) ltac:(lia) ltac:(lia)) as [t1 Hy]. cbn [rule] in Hy.
    assert (Hadj' : adj l) by (destruct l; [exact I|apply Hadj]).
    assert (Hg' : glue_list l = true -> not_icont_head rest).
    { intros E. apply Hg. destruct l; [discriminate|exact E]. }
    destruct (IHl Hall' Hadj' rest _ t1 A1 F0 F1 Hg' Hk) as [t2 Hrec].
    exists t2.
    eapply C_eq; [eapply C_star_cons; [apply C_seq; eapply Cs_cons; [exact Hy|eapply Cs_cons; [apply Hea|apply Cs_nil]]|exact Hrec]
                 |reflexivity|cbn [app]; rewrite ?app_nil_r, <- ?app_assoc; reflexivity|reflexivity].
Qed.

Lemma L3 e : IHn (size e) -> Pk 3 e.
Proof.
  intros IH Hl Hw rest p t Hat F0 Hg F1 Kp _. specialize (F1 ltac:(lia)). specialize (Kp ltac:(lia)).
  destruct (Nat.le_gt_cases (lvl e) 2) as [L2e|N2].
  - destruct (L2 e IH L2e Hw rest p t Hat F0 Hg (fun _ => F1) ltac:(lia) ltac:(lia)) as [t1 H2]. cbn [rule] in *.
    exists t1. into_rule. eapply C_eq; [crun|reflexivity|cbn [app]; rewrite ?app_nil_r; reflexivity|reflexivity].
  - destruct e as [s|id s|a s|dbl ks s|dbl neg items s|s1 x s2|s1 x s2|op x s|op s x|op s1 a s2|l|e1 l trail|];
      cbn [lvl] in *; try lia; clear N2.
    inversion Hw as [| | | | | | | | | |? Hlen Hall Hadj| |]; subst.
    destruct l as [|x l]; [cbn in Hlen; lia|]. rewrite glue_seq in Hg. cbn [show xcalls rule flat_map] in *.
    assert (Hall3 : Forall (fun y => (size y < size (XSeq (x :: l)))%nat /\ (lvl y <= 2)%nat /\ wf y) (x :: l)).
    { apply Forall_forall. intros y Hy. rewrite Forall_forall in Hall. destruct (Hall y Hy). split; [apply size_in_seq; exact Hy|auto]. }
    inversion Hall3 as [|? ? (Hsx & Hlx & Hwx) Hall3']; subst. inversion Hall as [|? ? _ Hall2]; subst.
    rewrite <- app_assoc in Hat. atn Hat as A1. rewrite app_length in *. rewrite Nat.add_assoc in *.
    destruct (item_follow x l rest _ Hall2 Hadj A1 F0 F1 Hg) as (G0 & G1 & Gg).
    destruct (IH x 2%nat Hsx ltac:(lia) Hlx Hwx _ p t Hat G0 Gg (fun _ => G1) ltac:(lia) ltac:(lia)) as [t1 Hx]. cbn [rule] in Hx.
    assert (Hadj' : adj l) by (destruct l; [exact I|apply Hadj]).
    assert (Hg' : glue_list l = true -> not_icont_head rest).
    { intros E. apply Hg. destruct l; [discriminate|exact E]. }
    let b := eval vm_compute in (nth_error pegpeg_d pr_Sequence) in
    lazymatch b with
    | Some (RBody (ESeq [_; EStar (ESeq [_; ?a])])) =>
        destruct (seq_star _ a IH ltac:(intros; cgo) l Hall3' Hadj' rest _ t1 A1 F0 F1 Hg' Kp) as [t2 Hst]
    end.
    exists t2. into_rule. eapply C_eq; [crun|reflexivity|cbn [app]; rewrite ?app_nil_r; reflexivity|reflexivity].
Qed.

(** ** alternations *)
Lemma slash_follow q s' txt : At q (47 :: s' ++ txt) -> head_ne 47 s' -> (s' = [] -> head_ne 47 txt) ->
  fol0 q (47 :: s' ++ txt) /\ fol1 q /\ ko (EName pr_Prefix) q /\ not_icont_head (47 :: s' ++ txt).
Proof.
  intros Hat H1 H2.
  assert (Hh : head_ne 47 (s' ++ txt)).
  { destruct s' as [|c s'']; [apply H2; reflexivity|]. intros c0 r E. cbn [app] in E. inv E. eapply H1. reflexivity. }
  assert (Hf : fol q (47 :: s' ++ txt)).
  { apply fol_char; try exact Hat; try lia; try (intros; lia). intros _. exact Hh. }
  destruct (fol_split _ _ Hf) as [G0 G1]. split; [exact G0|]. split; [exact G1|]. split.
  - eapply prefix_ko; [exact Hat|]. intros c r E. inv E. reflexivity.
  - intros c r E. inv E. reflexivity.
Qed.

Lemma alt_star n ea : IHn n -> (forall p t, C ea p p [(CAddAlternate, [])] t t) ->
  forall l, Forall (fun sx : list rune * cx => (size (snd sx) < n)%nat /\ lay (fst sx) /\ head_ne 47 (fst sx) /\ (lvl (snd sx) <= 3)%nat /\ wf (snd sx)) l ->
  forall tl p t, At p (flat_map showalt l ++ tl) ->
    (forall q, At q tl -> fol0 q tl /\ fol1 q /\ ko (EName pr_Prefix) q) ->
    (glue_listp l = true -> not_icont_head tl) ->
    ko (ESeq [EName pr_Slash; EName pr_Sequence; ea]) (p + length (flat_map showalt l))%nat ->
    exists t', C (EStar (ESeq [EName pr_Slash; EName pr_Sequence; ea])) p (p + length (flat_map showalt l))%nat
                 (flat_map (fun sx : list rune * cx => xcalls (snd sx) ++ [(CAddAlternate, [])]) l) t t'.
Proof.
  intros IH Hea l. induction l as [|[s x] l IHl]; intros Hall tl p t Hat Hfol Hg Kstop; cbn [flat_map app length] in *.
  - rewrite Nat.add_0_r in *. exists t. apply C_star_nil. exact Kstop.
  - inversion Hall as [|? ? (Hsz & Hs & Hh & Hlx & Hwx) Hall']; subst. cbn [fst snd] in *.
    unfold showalt at 1 in Hat. cbn [fst snd] in Hat. cbn [app] in Hat. rewrite <- !app_assoc in Hat.
    destruct (show_start _ x (le_n _) Hwx Hlx) as (c & m & Ex & Hp & H60).
    assert (Hst : stop (show x ++ flat_map showalt l ++ tl)) by (rewrite Ex; cbn [app]; apply pstart_stop; exact Hp).
    pose proof (fun t => tok_ok buf penv pr_Slash 47 s _ p t ltac:(lookup) ltac:(notptx) Hs Hst Hat) as Hslash.
    at1 Hat as A1. atn A1 as A2. atn A2 as A3.
    (* what follows this alternative *)
    assert (Hnext : fol0 (S p + length s + length (show x))%nat (flat_map showalt l ++ tl) /\ fol1 (S p + length s + length (show x))%nat /\
                    ko (EName pr_Prefix) (S p + length s + length (show x))%nat /\
                    (glue x = true -> not_icont_head (flat_map showalt l ++ tl))).
    { destruct l as [|[s' x'] l'].
      - cbn [flat_map app glue_listp snd] in *. destruct (Hfol _ A3) as (G0 & G1 & G2). auto.
      - cbn [flat_map] in A3 |- *. change (showalt (s', x')) with (47 :: s' ++ show x') in *. cbn [app] in A3 |- *.
        rewrite <- !app_assoc in A3. rewrite <- !app_assoc.
        inversion Hall' as [|? ? (_ & Hs' & Hh' & Hlx' & Hwx') _]; subst. cbn [fst snd] in *.
        destruct (show_start _ x' (le_n _) Hwx' Hlx') as (c' & m' & Ex' & Hp' & _).
        destruct (slash_follow _ s' _ A3 Hh') as (G0 & G1 & G2 & G3).
        { intros _. rewrite Ex'. cbn [app]. intros c0 r E. inv E. apply pstart_ne45 in Hp'. lia. }
        auto. }
    destruct Hnext as (G0 & G1 & G2 & Gg).
    destruct (IH x 3%nat Hsz ltac:(lia) Hlx Hwx _ _ t A2 G0 Gg (fun _ => G1) (fun _ => G2) ltac:(lia)) as [t1 Hx]. cbn [rule] in Hx.
    assert (Hg' : glue_listp l = true -> not_icont_head tl).
    { intros E. apply Hg. cbn [glue_listp]. destruct l; [discriminate|exact E]. }
    assert (Elen : (p + length (showalt (s, x) ++ flat_map showalt l) = S p + length s + length (show x) + length (flat_map showalt l))%nat).
    { unfold showalt at 1. cbn [fst snd app length]. rewrite !app_length. lia. }
    rewrite Elen in *.
    destruct (IHl Hall' tl _ t1 A3 Hfol Hg' Kstop) as [t2 Hrec].
    exists t2. zr. replace (p + 1 + length s)%nat with (S p + length s)%nat in * by lia.
    eapply C_eq; [eapply C_star_cons; [apply C_seq; eapply Cs_cons; [apply Hslash|eapply Cs_cons; [exact Hx|eapply Cs_cons; [apply Hea|apply Cs_nil]]]|exact Hrec]
                 |reflexivity|cbn [app]; rewrite ?app_nil_r, <- ?app_assoc; reflexivity|reflexivity].
Qed.

Lemma seq_ko q : ko (EName pr_Prefix) q -> ko (EName pr_Sequence) q.
Proof. intros K. korun. Qed.

Lemma L4 e : IHn (size e) -> Pk 4 e.
Proof.
  intros IH Hl Hw rest p t Hat F0 Hg F1 Kp Ks. specialize (F1 ltac:(lia)). specialize (Kp ltac:(lia)). destruct (Ks ltac:(lia)) as [Ksl Hr47]. clear Ks.
  destruct (Nat.le_gt_cases (lvl e) 3) as [L3e|N3].
  - destruct (L3 e IH L3e Hw rest p t Hat F0 Hg (fun _ => F1) (fun _ => Kp) ltac:(lia)) as [t1 H3]. cbn [rule] in *.
    exists t1. into_rule. eapply C_eq; [crun|zlia|cbn [app]; rewrite ?app_nil_r, <- ?app_assoc; reflexivity|reflexivity].
  - destruct e as [s|id s|a s|dbl ks s|dbl neg items s|s1 x s2|s1 x s2|op x s|op s x|op s1 a s2|l|e1 l trail|];
      cbn [lvl] in *; try lia; clear N3.
    + (* an alternation *)
      inversion Hw as [| | | | | | | | | | |? ? ? Hl1 Hw1 Hall Htr Hne|]; subst. cbn [show xcalls rule] in *.
      fold showalt in *. change (fun sx : list rune * cx => 47 :: fst sx ++ show (snd sx)) with showalt in *.
      set (tt := match trail with Some s => 47 :: s | None => [] end) in *.
      rewrite <- !app_assoc in Hat. atn Hat as A1. atn A1 as A2.
      assert (Hall2 : Forall (fun sx : list rune * cx => (size (snd sx) < size (XAlt e1 l trail))%nat /\ lay (fst sx) /\ head_ne 47 (fst sx) /\ (lvl (snd sx) <= 3)%nat /\ wf (snd sx)) l).
      { apply Forall_forall. intros sx Hin. rewrite Forall_forall in Hall. destruct (Hall sx Hin) as (? & ? & ? & ?).
        split; [apply size_in_alt; exact Hin|auto]. }
      assert (Eq : (p + length (show e1 ++ flat_map showalt l ++ tt) = p + length (show e1) + length (flat_map showalt l) + length tt)%nat)
        by (zr; rewrite !app_length; lia).
      zr. rewrite Eq in *.
      (* what follows the alternatives: the trailing slash, or what follows the expression *)
      assert (Htl : forall q, At q (tt ++ rest) -> fol0 q (tt ++ rest) /\ fol1 q /\ ko (EName pr_Prefix) q).
      { intros q Hq. subst tt. destruct trail as [s|].
        - destruct (Htr s eq_refl) as [Hs Hh]. cbn [app] in *.
          destruct (slash_follow _ s rest Hq Hh (fun _ => Hr47)) as (G0 & G1 & G2 & _). auto.
        - cbn [app length] in *. rewrite Nat.add_0_r in *. destruct F0 as [Fa Fb Fc].
          assert (q = (p + length (show e1) + length (flat_map showalt l))%nat) by (eapply At_inj; eassumption).
          subst q. split; [constructor; assumption|]. split; assumption. }
      assert (Hgtl : (match l with [] => glue e1 | _ => glue_listp l end) = true -> not_icont_head (tt ++ rest)).
      { intros E. subst tt. destruct trail as [s|]; cbn [app].
        - intros c r E2. inv E2. reflexivity.
        - apply Hg. rewrite glue_alt. exact E. }
      (* the first alternative *)
      assert (Hfirst : fol0 (p + length (show e1))%nat (flat_map showalt l ++ tt ++ rest) /\ fol1 (p + length (show e1))%nat /\
                       ko (EName pr_Prefix) (p + length (show e1))%nat /\ (glue e1 = true -> not_icont_head (flat_map showalt l ++ tt ++ rest))).
      { destruct l as [|[s' x'] l'].
        - cbn [flat_map app length] in *. rewrite Nat.add_0_r in *. destruct (Htl _ A1) as (G0 & G1 & G2). auto.
        - cbn [flat_map] in A1 |- *. change (showalt (s', x')) with (47 :: s' ++ show x') in *. cbn [app] in A1 |- *.
          rewrite <- !app_assoc in A1. rewrite <- !app_assoc.
          inversion Hall as [|? ? (Hs' & Hh' & Hlx' & Hwx') _]; subst. cbn [fst snd] in *.
          destruct (show_start _ x' (le_n _) Hwx' Hlx') as (c' & m' & Ex' & Hp' & _).
          destruct (slash_follow _ s' _ A1 Hh') as (G0 & G1 & G2 & G3).
          { intros _. rewrite Ex'. cbn [app]. intros c0 r E. inv E. apply pstart_ne45 in Hp'. lia. }
          auto. }
      destruct Hfirst as (G0 & G1 & G2 & Gg).
      destruct (IH e1 3%nat ltac:(cbn [size]; lia) ltac:(lia) Hl1 Hw1 _ p t Hat G0 Gg (fun _ => G1) (fun _ => G2) ltac:(lia)) as [t1 H1].
      cbn [rule] in H1.
      assert (Hg' : glue_listp l = true -> not_icont_head (tt ++ rest)).
      { intros E. apply Hgtl. destruct l; [discriminate|exact E]. }
      let b := eval vm_compute in (nth_error pegpeg_d pr_Expression) in
      lazymatch b with
      | Some (RBody (EAlt [ESeq [_; EStar (ESeq [_; _; ?a]); _]; _])) => pose (ea := a)
      end.
      assert (Hea : forall p t, C ea p p [(CAddAlternate, [])] t t) by (intros; subst ea; cgo).
      assert (Kstop : ko (ESeq [EName pr_Slash; EName pr_Sequence; ea]) (p + length (show e1) + length (flat_map showalt l))%nat).
      { subst tt. destruct trail as [s|].
        - destruct (Htr s eq_refl) as [Hs Hh]. cbn [app length] in *.
          pose proof (fun t => tok_ok buf penv pr_Slash 47 s rest _ t ltac:(lookup) ltac:(notptx) Hs (f0_stop _ _ F0) A2) as Hsl.
          pose proof (seq_ko _ Kp) as Ksq. zr.
          assert (Ksq' : ko (EName pr_Sequence) (p + length (show e1) + length (flat_map showalt l) + 1 + length s)%nat).
          { match type of Ksq with PegRel.ko _ _ _ _ _ ?q => replace (p + length (show e1) + length (flat_map showalt l) + 1 + length s)%nat with q by zlia end. exact Ksq. }
          korun.
        - cbn [app length] in *. rewrite Nat.add_0_r in *. apply ko_seq. apply kos_head. exact Ksl. }
      destruct (alt_star _ ea IH Hea l Hall2 (tt ++ rest) _ t1 A1 Htl Hg' Kstop) as [t2 Hst].
      exists t2. subst ea tt. destruct trail as [s|].
      * destruct (Htr s eq_refl) as [Hs Hh]. cbn [app length] in *.
        pose proof (fun t => tok_ok buf penv pr_Slash 47 s rest _ t ltac:(lookup) ltac:(notptx) Hs (f0_stop _ _ F0) A2) as Hsl.
        zr. replace (p + length (show e1) + length (flat_map showalt l) + S (length s))%nat
          with (p + length (show e1) + length (flat_map showalt l) + 1 + length s)%nat in * by lia.
        into_rule. eapply C_eq; [crun|zlia|cbn [app]; rewrite ?app_nil_r, <- ?app_assoc; reflexivity|reflexivity].
      * cbn [app length] in *. rewrite Nat.add_0_r in *.
        into_rule. eapply C_eq; [crun|zlia|cbn [app]; rewrite ?app_nil_r, <- ?app_assoc; reflexivity|reflexivity].
    + (* nothing *)
      cbn [show xcalls rule app length] in *. rewrite Nat.add_0_r in *. pose proof (seq_ko _ Kp) as Ksq.
      exists t. into_rule. eapply C_eq; [crun|reflexivity|reflexivity|reflexivity].
Qed.

(** every well-formed expression, printed, is read back by the rule of its level as the calls it stands for *)
Theorem levels_ok n : IHn n.
Proof.
  induction n as [|n IHnn]; intros e k Hs Hk; [lia|].
  assert (IHe : IHn (size e)) by (eapply IHn_mono; [exact IHnn|lia]).
  destruct k as [|[|[|[|[|k]]]]]; [apply L0|apply L1|apply L2|apply L3|apply L4|lia]; exact IHe.
Qed.

Theorem expression_ok e : wf e -> forall rest p t,
  At p (show e ++ rest) -> fol (p + length (show e))%nat rest -> (glue e = true -> not_icont_head rest) ->
  ko (EName pr_Prefix) (p + length (show e))%nat -> ko (EName pr_Slash) (p + length (show e))%nat -> head_ne 47 rest ->
  exists t', C (EName pr_Expression) p (p + length (show e))%nat (xcalls e) t t'.
Proof.
  intros Hw rest p t Hat Hf Hg Kp Ks H47. destruct (fol_split _ _ Hf) as [F0 F1].
  assert (Hl : (lvl e <= 4)%nat) by (destruct e; cbn; lia).
  exact (levels_ok (S (size e)) e 4%nat (le_n _) (le_n _) Hl Hw rest p t Hat F0 Hg (fun _ => F1) (fun _ => Kp) (fun _ => conj Ks H47)).
Qed.

End Expr.
