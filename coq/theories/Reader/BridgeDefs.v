(** From calls to trees, definitions only: the denotation of a written expression ([erase]), calls as builder
    operations, the file-level builder and the nodes a file denotes. *)
From PegV Require Import Base.Tac Spec.Syntax Model.Calls Model.Front Reader.Defs.
Local Open Scope Z_scope.

Inductive fnode :=
| NComment (s : list rune) | NSpace (s : list rune) | NPackage (s : list rune)
| NImportAlias (s : list rune) | NImport (s : list rune)
| NPeg (name state : list rune)
| NRule (name : list rune) (e : expr).

Record fstate := { back : list fnode; pend : option (list rune); stk : list expr; pegn : option (list rune) }.

Definition finit : fstate := {| back := []; pend := None; stk := []; pegn := None |}.

Section BD.
Variable nm : list rune -> nat.          (* the number a rule name stands for in the model *)
Variable ak : list rune -> nat.          (* the number of an action / predicate text *)

Definition sch (k : cchar) : schar :=
  match k with
  | KRaw c => SC c
  | KEsc c => SC (esc_val c)
  | KHex _ ds => SHex (map hexval ds)
  | KOct ds => SOct (map octval ds)
  end.

Definition sitem (i : Defs.citem) : Front.citem :=
  match i with IChar k => CChar (sch k) | IRange lo hi => CRange (sch lo) (sch hi) end.

Fixpoint erase (e : cx) : sx :=
  match e with
  | Defs.XDot _ => Front.XDot
  | Defs.XName id _ => Front.XName (nm id)
  | Defs.XAct a _ => Front.XAct (ak a)
  | Defs.XLit dbl ks _ => if dbl then Front.XILit (map sch ks) else Front.XLit (map sch ks)
  | Defs.XClass dbl neg items _ => Front.XClass neg dbl (map sitem items)
  | Defs.XGroup _ e _ => Front.XGroup (erase e)
  | Defs.XPush _ e _ => Front.XPush (erase e)
  | XSuf op e _ => if op =? 63 then XQuery (erase e) else if op =? 42 then XStar (erase e) else XPlus (erase e)
  | XPre op _ e => if op =? 38 then XAnd (erase e) else XNot (erase e)
  | XPredA op _ a _ => if op =? 38 then XPred (ak a) else XState (ak a)
  | Defs.XSeq l => Front.XSeq (map erase l)
  | Defs.XAlt e1 l trail => Front.XAlt (erase e1 :: map (fun sx : list rune * cx => erase (snd sx)) l) (match trail with Some _ => true | None => false end)
  | XEmpty => XNil
  end.

(** one builder call, as the model's builder operation *)
Definition bop_of (c : call) : option bop :=
  match c with
  | (CAddName, id) => Some (BName (nm id))
  | (CAddDot, _) => Some BDot
  | (CAddCharacter, [c]) => Some (BChar c)
  | (CAddDoubleCharacter, [c]) => Some (BDoubleChar c)
  | (CAddHexaCharacter, ds) => Some (BHexa (map hexval ds))
  | (CAddOctalCharacter, ds) => Some (BOctal (map octval ds))
  | (CAddPredicate, a) => Some (BPred (ak a))
  | (CAddStateChange, a) => Some (BState (ak a))
  | (CAddNil, _) => Some BNil
  | (CAddAction, a) => Some (BAct (ak a))
  | (CAddAlternate, _) => Some BAlternate
  | (CAddSequence, _) => Some BSequence
  | (CAddRange, _) => Some BRange
  | (CAddDoubleRange, _) => Some BDoubleRange
  | (CAddPeekFor, _) => Some BPeekFor
  | (CAddPeekNot, _) => Some BPeekNot
  | (CAddQuery, _) => Some BQuery
  | (CAddStar, _) => Some BStar
  | (CAddPlus, _) => Some BPlus
  | (CAddPush, _) => Some BPush
  | _ => None
  end.

Definition bops (cs : list call) : list (option bop) := map bop_of cs.

Definition somes (l : list bop) : list (option bop) := map Some l.

(** running a list of calls through the builder *)
Fixpoint all_some {A} (l : list (option A)) : option (list A) :=
  match l with
  | [] => Some []
  | Some a :: l' => match all_some l' with Some r => Some (a :: r) | None => None end
  | None :: _ => None
  end.

Definition build (cs : list call) (stk : list expr) : option (list expr) :=
  match all_some (bops cs) with Some ops => brun ops stk | None => None end.

Definition push_back (s : fstate) (n : fnode) : fstate :=
  {| back := back s ++ [n]; pend := pend s; stk := stk s; pegn := pegn s |}.

Definition fstep (s : fstate) (c : call) : option fstate :=
  match bop_of c with
  | Some o => match bstep (stk s) o with
              | Some stk' => Some {| back := back s; pend := pend s; stk := stk'; pegn := pegn s |}
              | None => None
              end
  | None =>
      match c with
      | (CAddComment, t) => Some (push_back s (NComment t))
      | (CAddSpace, t) => Some (push_back s (NSpace t))
      | (CAddPackage, t) => Some (push_back s (NPackage t))
      | (CAddImportAlias, t) => Some (push_back s (NImportAlias t))
      | (CAddImport, t) => Some (push_back s (NImport t))
      | (CAddPeg, t) => match pegn s with None => Some {| back := back s; pend := pend s; stk := stk s; pegn := Some t |} | _ => None end
      | (CAddState, t) => match pegn s with
                          | Some n => Some {| back := back s ++ [NPeg n t]; pend := pend s; stk := stk s; pegn := None |}
                          | None => None
                          end
      | (CAddRule, t) => match pend s, stk s with
                         | None, [] => Some {| back := back s; pend := Some t; stk := []; pegn := pegn s |}
                         | _, _ => None
                         end
      | (CAddExpression, _) => match pend s, stk s with
                               | Some n, [e] => Some {| back := back s ++ [NRule n e]; pend := None; stk := []; pegn := pegn s |}
                               | _, _ => None
                               end
      | _ => None
      end
  end.

Fixpoint frun (cs : list call) (s : fstate) : option fstate :=
  match cs with
  | [] => Some s
  | c :: cs' => match fstep s c with Some s' => frun cs' s' | None => None end
  end.

(** what a file denotes *)
Definition hnode (h : hitem) : fnode := match h with HCmt _ body _ => NComment body | HSp run => NSpace run end.

Definition innodes (n : iname) : list fnode :=
  (match in_alias n with Some (id, _) => [NImportAlias id] | None => [] end) ++ [NImport (in_path n)].

Definition impnodes (i : imp) : list fnode :=
  match i with ISingle _ n _ => innodes n | IMulti _ _ items _ => flat_map (fun ns : iname * list rune => innodes (fst ns)) items end.

Definition dnode (d : cdef) : option fnode :=
  match elab (erase (d_body d)) with Some e => Some (NRule (d_name d) e) | None => None end.

Fixpoint dnodes (l : list cdef) : option (list fnode) :=
  match l with
  | [] => Some []
  | d :: l' => match dnode d, dnodes l' with Some n, Some r => Some (n :: r) | _, _ => None end
  end.

Definition file_nodes (f : cfile) : option (list fnode) :=
  match dnodes (f_defs f) with
  | Some ds => Some (map hnode (f_header f) ++ [NPackage (f_pkg f)] ++ flat_map impnodes (f_imports f) ++ [NPeg (f_peg f) (f_state f)] ++ ds)
  | None => None
  end.
End BD.
