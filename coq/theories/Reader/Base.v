(** The front end's own parser, read as a relation: peg.peg's rule tree (Generated/PegPeg.v, regenerated
    from the source on every run) under the reference semantics, with the builder calls its actions make. *)
From PegV Require Import Base.Tac Base.ListX Spec.Syntax Spec.Peg Spec.Tokens Proofs.PegFacts Proofs.PegRel Model.Calls Generated.PegPeg.
From PegV Require Export Reader.Defs.

Definition arg_of (a : carg) (txt : list rune) : list rune :=
  match a with ANone => [] | AText => txt | AConst s => s end.
Definition calls1 (e : evt) : list call :=
  map (fun ca : bcall * carg => (fst ca, arg_of (snd ca) (snd e))) (nth (fst e) pegpeg_calls []).
Definition calls (evs : list evt) : list call := flat_map calls1 evs.

Lemma calls_app a b : calls (a ++ b) = calls a ++ calls b.
Proof. apply flat_map_app. Qed.

Section Reader.
Variable buf : list rune.
Variable penv : nat -> nat -> bool.

Notation G := pegpeg_d.
Notation PTX := pegpeg_d_ptx.
Notation At := (At buf).
Notation ok := (ok G PTX buf penv).
Notation ko := (ko G PTX buf penv).
Notation kos := (kos G PTX buf penv).
Notation oks := (oks G PTX buf penv).
Notation koa := (koa G PTX buf penv).
Notation T := (T G PTX buf penv).
Notation Ts := (Ts G PTX buf penv).
Notation Ta := (Ta G PTX buf penv).
Notation sub := (sub buf).

(** [C e p p' cs t t']: e succeeds from p to p', its actions make the builder calls cs, the text register goes from t to t' *)
Definition C (e : expr) (p p' : nat) (cs : list call) (t t' : nat * nat) : Prop :=
  exists evs, T e p p' evs t t' /\ calls evs = cs.
Definition Cs (es : list expr) (p p' : nat) (cs : list call) (t t' : nat * nat) : Prop :=
  exists evs, Ts es p p' evs t t' /\ calls evs = cs.
Definition Ca (es : list expr) (p p' : nat) (cs : list call) (t t' : nat * nat) : Prop :=
  exists evs, Ta es p p' evs t t' /\ calls evs = cs.

Lemma C_ok e p p' cs t t' : C e p p' cs t t' -> exists f, ok e p p' f.
Proof. intros (evs & (f & O & _) & _). exists f. exact O. Qed.
Lemma C_silent e p p' t : ok e p p' [] -> C e p p' [] t t.
Proof. intros H. exists []. split; [apply T_silent; exact H|reflexivity]. Qed.
Lemma Cs_nil p t : Cs [] p p [] t t.
Proof. exists []. split; [apply Ts_nil|reflexivity]. Qed.
Lemma Cs_cons e es p p1 p2 c1 c2 t t1 t2 : C e p p1 c1 t t1 -> Cs es p1 p2 c2 t1 t2 -> Cs (e :: es) p p2 (c1 ++ c2) t t2.
Proof. intros (e1 & H1 & E1) (e2 & H2 & E2). exists (e1 ++ e2). split; [eapply Ts_cons; eassumption|rewrite calls_app; congruence]. Qed.
Lemma Cs_app l1 l2 p p1 p2 c1 c2 t t1 t2 : Cs l1 p p1 c1 t t1 -> Cs l2 p1 p2 c2 t1 t2 -> Cs (l1 ++ l2) p p2 (c1 ++ c2) t t2.
Proof. intros (e1 & H1 & E1) (e2 & H2 & E2). exists (e1 ++ e2). split; [eapply Ts_app; eassumption|rewrite calls_app; congruence]. Qed.
Lemma Cs_oks es p p' cs t t' : Cs es p p' cs t t' -> exists f, oks es p p' f.
Proof. intros (evs & (f & O & _) & _). exists f. exact O. Qed.
Lemma kos_app_Cs l1 l2 p p1 cs t t1 : Cs l1 p p1 cs t t1 -> kos l2 p1 -> kos (l1 ++ l2) p.
Proof. intros H K. destruct (Cs_oks _ _ _ _ _ _ H) as [f O]. eapply kos_app; eassumption. Qed.
Lemma C_seq es p p' cs t t' : Cs es p p' cs t t' -> C (ESeq es) p p' cs t t'.
Proof. intros (evs & H & E). exists evs. split; [apply T_seq; exact H|exact E]. Qed.
Lemma Ca_head e es p p' cs t t' : C e p p' cs t t' -> Ca (e :: es) p p' cs t t'.
Proof. intros (evs & H & E). exists evs. split; [apply Ta_head; exact H|exact E]. Qed.
Lemma Ca_tail e es p p' cs t t' : ko e p -> Ca es p p' cs t t' -> Ca (e :: es) p p' cs t t'.
Proof. intros K (evs & H & E). exists evs. split; [apply Ta_tail; assumption|exact E]. Qed.
Lemma C_alt es p p' cs t t' : Ca es p p' cs t t' -> C (EAlt es) p p' cs t t'.
Proof. intros (evs & H & E). exists evs. split; [apply T_alt; exact H|exact E]. Qed.
Lemma C_name r b p p' cs t t' : nth_error G r = Some (RBody b) -> r <> PTX -> C b p p' cs t t' -> C (EName r) p p' cs t t'.
Proof. intros Hr Hp (evs & H & E). exists evs. split; [eapply T_name; eassumption|exact E]. Qed.
Lemma C_act r k p t : nth_error G r = Some (RAct k) -> r <> PTX -> C (EName r) p p (calls1 (k, sub t)) t t.
Proof. intros Hr Hp. exists [(k, sub t)]. split; [apply T_act; assumption|cbn; apply app_nil_r]. Qed.
Lemma C_and e p p' f t : ok e p p' f -> C (EAnd e) p p [] t t.
Proof. intros O. apply C_silent. eapply ok_and; eassumption. Qed.
Lemma C_not e p t : ko e p -> C (ENot e) p p [] t t.
Proof. intros K. apply C_silent. apply ok_not; assumption. Qed.
Lemma C_query_some e p p' cs t t' : C e p p' cs t t' -> C (EQuery e) p p' cs t t'.
Proof. intros (evs & H & E). exists evs. split; [apply T_query_some; exact H|exact E]. Qed.
Lemma C_query_none e p t : ko e p -> C (EQuery e) p p [] t t.
Proof. intros K. apply C_silent. apply ok_query_none; assumption. Qed.
Lemma C_star_nil e p t : ko e p -> C (EStar e) p p [] t t.
Proof. intros K. apply C_silent. apply ok_star_nil; assumption. Qed.
Lemma C_star_cons e p p1 p2 c1 c2 t t1 t2 : C e p p1 c1 t t1 -> C (EStar e) p1 p2 c2 t1 t2 -> C (EStar e) p p2 (c1 ++ c2) t t2.
Proof. intros (e1 & H1 & E1) (e2 & H2 & E2). exists (e1 ++ e2). split; [eapply T_star_cons; eassumption|rewrite calls_app; congruence]. Qed.
Lemma C_plus e p p1 p2 c1 c2 t t1 t2 : C e p p1 c1 t t1 -> C (EStar e) p1 p2 c2 t1 t2 -> C (EPlus e) p p2 (c1 ++ c2) t t2.
Proof. intros (e1 & H1 & E1) (e2 & H2 & E2). exists (e1 ++ e2). split; [eapply T_plus; eassumption|rewrite calls_app; congruence]. Qed.
Lemma C_push e p p' cs t t' : C e p p' cs t t' -> C (EPush e) p p' cs t (p, p').
Proof. intros (evs & H & E). exists evs. split; [eapply T_push; exact H|exact E]. Qed.
Lemma C_char c p t : nth_error buf p = Some c -> C (EChar c) p (S p) [] t t.
Proof. intros H. apply C_silent. apply ok_char; exact H. Qed.
Lemma C_dot c p t : nth_error buf p = Some c -> C EDot p (S p) [] t t.
Proof. intros H. apply C_silent. eapply ok_dot; exact H. Qed.
Lemma C_range lo hi c p t : nth_error buf p = Some c -> in_range lo hi c = true -> C (ERange lo hi) p (S p) [] t t.
Proof. intros H R. apply C_silent. eapply ok_range; eassumption. Qed.

Lemma C_ko_excl e p p' cs t t' : C e p p' cs t t' -> ko e p -> False.
Proof. intros H K. destruct (C_ok _ _ _ _ _ _ H) as [f O]. eapply ok_ko_excl; eassumption. Qed.

(** rewriting the end position / the calls of a [C] fact *)
Lemma C_eq e p p1 p2 c1 c2 t t1 t2 : C e p p1 c1 t t1 -> p1 = p2 -> c1 = c2 -> t1 = t2 -> C e p p2 c2 t t2.
Proof. intros H -> -> ->. exact H. Qed.

Lemma Cs_eq_x es p p1 p2 c1 c2 t t1 t2 : Cs es p p1 c1 t t1 -> p1 = p2 -> c1 = c2 -> t1 = t2 -> Cs es p p2 c2 t t2.
Proof. intros H -> -> ->. exact H. Qed.

(** ko through a name *)
Lemma ko_rule r b p : nth_error G r = Some (RBody b) -> ko b p -> ko (EName r) p.
Proof. apply ko_name. Qed.

(** reading the head of the input *)
Lemma At_head p c s : At p (c :: s) -> nth_error buf p = Some c.
Proof. intros H. destruct (At_cons _ _ _ _ H) as [A _]. exact A. Qed.
Lemma At_tail p c s : At p (c :: s) -> At (S p) s.
Proof. intros H. destruct (At_cons _ _ _ _ H) as [_ A]. exact A. Qed.
Lemma ko_char_at c p s : At p s -> (forall c' s', s = c' :: s' -> c' <> c) -> ko (EChar c) p.
Proof.
  intros H N. apply ko_char. intros c' E. destruct s as [|c0 s].
  - rewrite (At_nil _ _ H) in E. discriminate.
  - rewrite (At_head _ _ _ H) in E. inv E. eapply N. reflexivity.
Qed.
Lemma ko_range_at lo hi p s : At p s -> (forall c s', s = c :: s' -> in_range lo hi c = false) -> ko (ERange lo hi) p.
Proof.
  intros H N. apply ko_range. intros c E. destruct s as [|c0 s].
  - rewrite (At_nil _ _ H) in E. discriminate.
  - rewrite (At_head _ _ _ H) in E. inv E. eapply N. reflexivity.
Qed.
Lemma ko_dot_at p : At p [] -> ko EDot p.
Proof. intros H. apply ko_dot. apply At_nil. exact H. Qed.

End Reader.

(** rule lookups in the generated tree are computations *)
Ltac lookup := vm_compute; reflexivity.
Ltac notptx := let H := fresh in intro H; vm_compute in H; discriminate H.
Ltac into_rule := eapply C_name; [lookup | notptx | ].
Ltac ko_into_rule := eapply ko_name; [lookup | ].

(** * a small symbolic executor: runs a parsing expression over a known input prefix *)
Section Auto.
Variable buf : list rune.
Variable penv : nat -> nat -> bool.
Notation G := pegpeg_d.
Notation PTX := pegpeg_d_ptx.
Lemma kos_tail_C e es p p1 cs t t1 : C buf penv e p p1 cs t t1 -> kos G PTX buf penv es p1 -> kos G PTX buf penv (e :: es) p.
Proof. intros H K. destruct (C_ok _ _ _ _ _ _ _ _ H) as [f O]. eapply kos_tail; eassumption. Qed.
Lemma C_and_C e p p' cs t t1 t0 : C buf penv e p p' cs t t1 -> C buf penv (EAnd e) p p [] t0 t0.
Proof. intros H. destruct (C_ok _ _ _ _ _ _ _ _ H) as [f O]. eapply C_and; eassumption. Qed.
Lemma ko_not_C e p p' cs t t1 : C buf penv e p p' cs t t1 -> ko G PTX buf penv (ENot e) p.
Proof. intros H. destruct (C_ok _ _ _ _ _ _ _ _ H) as [f O]. eapply ko_not; eassumption. Qed.
Lemma ko_and_ko e p : ko G PTX buf penv e p -> ko G PTX buf penv (EAnd e) p.
Proof. apply ko_and. Qed.
End Auto.

(** make [At (S p) s] available whenever [At p (c :: s)] is *)
Ltac at_sat :=
  repeat match goal with
  | H : PegRel.At ?b ?p (?c :: ?s) |- _ =>
      lazymatch goal with
      | _ : PegRel.At b (S p) _ |- _ => fail
      | _ => pose proof (At_tail _ _ _ _ H)
      end
  end.


(** failure of an expression at a position whose next characters are known *)
Ltac korun :=
  at_sat;
  first [ eassumption | korun_step ]
with korun_step :=
  lazymatch goal with
  | |- PegRel.ko _ _ _ _ (EChar _) _ =>
      first [ eapply ko_char_at; [eassumption | let E := fresh in intros ? ? E; inversion E; subst; (lia || congruence)] ]
  | |- PegRel.ko _ _ _ _ (ERange _ _) _ =>
      eapply ko_range_at; [eassumption | let E := fresh in intros ? ? E; inversion E; subst; unfold in_range; lia]
  | |- PegRel.ko _ _ _ _ EDot _ => eapply ko_dot_at; eassumption
  | |- PegRel.ko _ _ _ _ (ESeq _) _ => apply ko_seq; korun
  | |- PegRel.kos _ _ _ _ (_ :: _) _ => first [ apply kos_head; korun | eapply (kos_tail_C _ _ _ _ _ _ _ (0%nat, 0%nat)); [crun | korun] ]
  | |- PegRel.ko _ _ _ _ (EAlt _) _ => apply ko_alt; korun
  | |- PegRel.koa _ _ _ _ [] _ => apply koa_nil
  | |- PegRel.koa _ _ _ _ (_ :: _) _ => apply koa_cons; [korun | korun]
  | |- PegRel.ko _ _ _ _ (EName _) _ => first [ eassumption | ko_into_rule; korun ]
  | |- PegRel.ko _ _ _ _ (ENot _) _ => eapply (ko_not_C _ _ _ _ _ _ (0%nat, 0%nat)); crun
  | |- PegRel.ko _ _ _ _ (EAnd _) _ => apply ko_and; korun
  | |- PegRel.ko _ _ _ _ (EPush _) _ => apply ko_push; korun
  | |- PegRel.ko _ _ _ _ (EPlus _) _ => apply ko_plus; korun
  | |- _ => eassumption
  end
with crun :=
  at_sat;
  first [ eassumption | match goal with H : forall _ : nat * nat, _ |- _ => solve [eapply H] end
        | match goal with H : forall (_ : nat) (_ : nat * nat), _ |- _ => solve [eapply H] end | crun_step ]
with crun_step :=
  lazymatch goal with
  | |- C _ _ (EChar _) _ _ _ _ _ => eapply C_char; eapply At_head; eassumption
  | |- C _ _ EDot _ _ _ _ _ => eapply C_dot; eapply At_head; eassumption
  | |- C _ _ (ERange _ _) _ _ _ _ _ => eapply C_range; [eapply At_head; eassumption | unfold in_range; lia]
  | |- C _ _ (ESeq _) _ _ _ _ _ => apply C_seq; crun
  | |- Cs _ _ [] _ _ _ _ _ => apply Cs_nil
  | |- Cs _ _ (_ :: _) _ _ _ _ _ => eapply Cs_cons; [crun | crun]
  | |- C _ _ (EAlt _) _ _ _ _ _ => apply C_alt; crun
  | |- Ca _ _ (_ :: _) _ _ _ _ _ => first [ apply Ca_head; crun | apply Ca_tail; [korun | crun] ]
  | |- C _ _ (EName _) _ _ _ _ _ =>
      first [ eapply C_act; [lookup | notptx] | into_rule; crun ]
  | |- C _ _ (ENot _) _ _ _ _ _ => apply C_not; korun
  | |- C _ _ (EAnd _) _ _ _ _ _ => eapply (C_and_C _ _ _ _ _ _ (0%nat, 0%nat)); crun
  | |- C _ _ (EQuery _) _ _ _ _ _ => first [ apply C_query_some; crun | apply C_query_none; korun ]
  | |- C _ _ (EStar _) _ _ _ _ _ => first [ eapply C_star_cons; [crun | crun] | apply C_star_nil; korun ]
  | |- C _ _ (EPlus _) _ _ _ _ _ => eapply C_plus; [crun | crun]
  | |- C _ _ (EPush _) _ _ _ _ _ => eapply C_push; crun
  | |- _ => eassumption
  end.

(** run, then compare end position, calls and text register with what the goal states *)
Ltac cgo := eapply C_eq; [crun | try reflexivity; cbn [length app]; try lia | cbn [app]; try reflexivity | try reflexivity].

(** name the input after one / two known characters *)
Tactic Notation "at1" hyp(H) "as" ident(N) := pose proof (At_tail _ _ _ _ H) as N.
Tactic Notation "atn" hyp(H) "as" ident(N) := pose proof (At_app _ _ _ _ H) as N.

(** [rune] is [Z]: make the two spellings one before arithmetic or rewriting *)
Ltac zr := unfold rune in *.
Ltac zlia := unfold rune in *; lia.
Ltac lenlia := unfold rune in *; repeat rewrite app_length in *; cbn [length] in *; repeat rewrite app_length in *; cbn [length] in *; lia.
(** right-nest the appends of an [At] fact *)
Ltac norm_app H := repeat (first [rewrite <- app_assoc in H | rewrite <- app_comm_cons in H]); cbn [app] in H.
