(** The file-level builder: what the calls of a whole file leave in the tree (tree/peg.go: AddPackage,
    AddImport, AddPeg/AddState, AddRule ... AddExpression around the expression calls). *)
From PegV Require Import Base.Tac Base.ListX Spec.Syntax Model.Calls Model.Front Proofs.FrontProofs
  Reader.Base Reader.Lex Reader.Chars Reader.Lits Reader.Expr Reader.Bridge Reader.File.
From PegV Require Export Reader.BridgeDefs.
Local Open Scope Z_scope.

(** the deque of tree/peg.go: finished nodes at the back; at the front the rule or Peg node under
    construction and the expression stack *)
Section FB.
Variable nm : list rune -> nat.
Variable ak : list rune -> nat.
Notation fstep := (BridgeDefs.fstep nm ak).
Notation frun := (BridgeDefs.frun nm ak).
Notation dnode := (BridgeDefs.dnode nm ak).
Notation dnodes := (BridgeDefs.dnodes nm ak).
Notation file_nodes := (BridgeDefs.file_nodes nm ak).

Lemma frun_app a b s : frun (a ++ b) s = match frun a s with Some s' => frun b s' | None => None end.
Proof. revert s; induction a as [|c a IH]; intros s; cbn [app frun]; [reflexivity|]. destruct (fstep s c); auto. Qed.

(** expression calls only move the expression stack *)
Lemma frun_expr cs : forall ops s, all_some (bops nm ak cs) = Some ops ->
  frun cs s = match brun ops (stk s) with
              | Some stk' => Some {| back := back s; pend := pend s; stk := stk'; pegn := pegn s |}
              | None => None
              end.
Proof.
  induction cs as [|c cs IH]; intros ops s H; cbn [bops map all_some] in H.
  - inv H. cbn [frun brun]. destruct s; reflexivity.
  - destruct (bop_of nm ak c) as [o|] eqn:Eo; [|discriminate]. fold (bops nm ak cs) in H.
    destruct (all_some (bops nm ak cs)) as [ops'|] eqn:Ea; [|discriminate]. inv H.
    cbn [frun brun]. unfold fstep. rewrite Eo. destruct (bstep (stk s) o) as [stk'|]; [|reflexivity].
    rewrite (IH ops' _ eq_refl). reflexivity.
Qed.

Lemma frun_header l s : frun (map hcall l) s = Some {| back := back s ++ map hnode l; pend := pend s; stk := stk s; pegn := pegn s |}.
Proof.
  revert s; induction l as [|h l IH]; intros s; cbn [map frun].
  - rewrite app_nil_r. destruct s; reflexivity.
  - destruct h; cbn [hcall fstep bop_of]; rewrite IH; unfold push_back; cbn [back pend stk pegn hnode]; rewrite <- app_assoc; reflexivity.
Qed.
Lemma frun_incalls n s : frun (incalls n) s = Some {| back := back s ++ innodes n; pend := pend s; stk := stk s; pegn := pegn s |}.
Proof.
  destruct n as [[[id sp]|] path]; unfold incalls, innodes, push_back; cbn [in_alias in_path app frun fstep bop_of back pend stk pegn];
    unfold push_back; cbn [back pend stk pegn]; rewrite <- ?app_assoc; reflexivity.
Qed.
Lemma frun_mitems l : forall s, frun (flat_map (fun ns : iname * list rune => incalls (fst ns)) l) s =
  Some {| back := back s ++ flat_map (fun ns : iname * list rune => innodes (fst ns)) l; pend := pend s; stk := stk s; pegn := pegn s |}.
Proof.
  induction l as [|ns l IH]; intros s; cbn [flat_map frun].
  - rewrite app_nil_r. destruct s; reflexivity.
  - rewrite frun_app, frun_incalls, IH. cbn [back pend stk pegn]. rewrite <- app_assoc. reflexivity.
Qed.
Lemma frun_imports l : forall s, frun (flat_map impcalls l) s =
  Some {| back := back s ++ flat_map impnodes l; pend := pend s; stk := stk s; pegn := pegn s |}.
Proof.
  induction l as [|i l IH]; intros s; cbn [flat_map frun].
  - rewrite app_nil_r. destruct s; reflexivity.
  - rewrite frun_app. destruct i; cbn [impcalls impnodes]; rewrite ?frun_incalls, ?frun_mitems, IH; cbn [back pend stk pegn]; rewrite <- app_assoc; reflexivity.
Qed.

Lemma frun_def d s : def_ok d -> pend s = None -> stk s = [] ->
  exists n, dnode d = Some n /\ frun (dcalls d) s = Some {| back := back s ++ [n]; pend := None; stk := []; pegn := pegn s |}.
Proof.
  intros (_ & _ & _ & Hw) Hp Hs. destruct (calls_build_the_tree nm ak _ Hw) as (tree & He & Hb).
  exists (NRule (d_name d) tree). unfold dnode. rewrite He. split; [reflexivity|].
  unfold dcalls. rewrite !frun_app. cbn [frun fstep bop_of]. rewrite Hp, Hs.
  specialize (Hb []). unfold build in Hb. destruct (all_some (bops nm ak (xcalls (d_body d)))) as [ops|] eqn:Ea; [|discriminate].
  rewrite frun_app, (frun_expr _ ops _ Ea). cbn [stk]. rewrite Hb. cbn [frun fstep bop_of pend stk back pegn]. reflexivity.
Qed.
Lemma frun_defs l : forall s, defs_ok l -> pend s = None -> stk s = [] ->
  exists ns, dnodes l = Some ns /\ frun (flat_map dcalls l) s = Some {| back := back s ++ ns; pend := None; stk := []; pegn := pegn s |}.
Proof.
  induction l as [|d l IH]; intros s Hok Hp Hs; cbn [flat_map dnodes defs_ok] in *.
  - exists []. split; [reflexivity|]. cbn [frun]. rewrite app_nil_r. destruct s; cbn in *; subst; reflexivity.
  - destruct Hok as (Hd & _ & Hl). destruct (frun_def d s Hd Hp Hs) as (n & En & Hr).
    destruct (IH {| back := back s ++ [n]; pend := None; stk := []; pegn := pegn s |} Hl eq_refl eq_refl) as (ns & Ens & Hrs).
    exists (n :: ns). rewrite En, Ens. split; [reflexivity|]. rewrite frun_app, Hr, Hrs. cbn [back pegn]. rewrite <- app_assoc. reflexivity.
Qed.

(** the calls of a well-formed file, run through the builder, leave exactly the nodes the file denotes *)
Theorem file_calls_build f : file_ok f ->
  exists nodes, file_nodes f = Some nodes /\
    frun (fcalls f) finit = Some {| back := nodes; pend := None; stk := []; pegn := None |}.
Proof.
  intros (_ & _ & _ & _ & _ & _ & _ & _ & _ & _ & _ & _ & _ & _ & _ & _ & Hdefs).
  unfold fcalls, file_nodes.
  rewrite frun_app, frun_header. cbn [back pend stk pegn finit].
  rewrite frun_app. cbn [frun fstep bop_of]. unfold push_back. cbn [back pend stk pegn].
  rewrite frun_app, frun_imports. cbn [back pend stk pegn].
  rewrite frun_app. cbn [frun fstep bop_of back pend stk pegn].
  rewrite frun_app. cbn [frun fstep bop_of back pend stk pegn].
  destruct (frun_defs (f_defs f) {| back := ((([] ++ map hnode (f_header f)) ++ [NPackage (f_pkg f)]) ++ flat_map impnodes (f_imports f)) ++ [NPeg (f_peg f) (f_state f)];
                                    pend := None; stk := []; pegn := None |} Hdefs eq_refl eq_refl) as (ns & Ens & Hr).
  rewrite Ens. eexists. split; [reflexivity|]. rewrite Hr. cbn [back pegn app]. rewrite <- !app_assoc. reflexivity.
Qed.

End FB.
