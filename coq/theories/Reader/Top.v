(** The reader theorems in closed form: the front end's own grammar (Generated/PegPeg.v), run by the reference
    semantics on the text of a written expression, succeeds on all of it, and the builder calls its actions
    make, run through the tree builder, leave exactly the tree the expression denotes. *)
From PegV Require Import Base.Tac Base.ListX Spec.Syntax Spec.Peg Spec.Tokens Proofs.PegRel Model.Calls Model.Front
  Generated.PegPeg Reader.Base Reader.Lex Reader.Chars Reader.Lits Reader.Expr Reader.Bridge Reader.File Reader.FileBridge.
Local Open Scope Z_scope.

Section Top.
Variable nm : list rune -> nat.
Variable ak : list rune -> nat.
Variable penv : nat -> nat -> bool.

(** the calls Execute() makes over a derivation: each action's calls, with the captured text *)
Definition calls_of_forest (buf : list rune) (f : list dt) : list call :=
  calls (fst (tr pegpeg_d pegpeg_d_ptx buf f (0%nat, 0%nat))).

Theorem reader_expression_in_context buf e rest p :
  wf e -> At buf p (show e ++ rest) -> fol buf penv (p + length (show e))%nat rest ->
  (glue e = true -> not_icont_head rest) ->
  ko pegpeg_d pegpeg_d_ptx buf penv (EName pr_Prefix) (p + length (show e))%nat ->
  ko pegpeg_d pegpeg_d_ptx buf penv (EName pr_Slash) (p + length (show e))%nat -> head_ne 47 rest ->
  exists n f evs tree,
    peg_ev pegpeg_d pegpeg_d_ptx buf penv n (EName pr_Expression) p = Some (Succ (p + length (show e))%nat f, evs) /\
    calls_of_forest buf f = xcalls e /\
    (forall stk, build nm ak (xcalls e) stk = Some (tree :: stk)) /\ elab (erase nm ak e) = Some tree.
Proof.
  intros Hw Hat Hf Hg Kp Ks H47.
  destruct (expression_ok buf penv e Hw rest p (0%nat, 0%nat) Hat Hf Hg Kp Ks H47) as (t' & evs' & (f & (n & evs & Hev) & Htr) & Hc).
  destruct (calls_build_the_tree nm ak e Hw) as (tree & He & Hb).
  exists n, f, evs, tree. split; [exact Hev|]. split; [|split; assumption].
  unfold calls_of_forest. rewrite Htr. exact Hc.
Qed.

(** the expression is the whole input *)
Theorem reader_expression e : wf e ->
  exists n f evs tree,
    peg_ev pegpeg_d pegpeg_d_ptx (show e) penv n (EName pr_Expression) 0 = Some (Succ (length (show e)) f, evs) /\
    calls_of_forest (show e) f = xcalls e /\
    build nm ak (xcalls e) [] = Some [tree] /\ elab (erase nm ak e) = Some tree.
Proof.
  intros Hw.
  assert (Hat : At (show e) 0 (show e ++ [])) by (rewrite app_nil_r; apply At_start).
  assert (Hend : At (show e) (0 + length (show e)) []).
  { pose proof (At_app _ _ _ _ Hat) as H. exact H. }
  destruct (reader_expression_in_context (show e) e [] 0%nat Hw Hat (fol_eof _ penv _ Hend)) as (n & f & evs & tree & H1 & H2 & H3 & H4).
  - intros _ c r E. discriminate E.
  - eapply prefix_ko; [exact Hend|]. intros c r E. discriminate E.
  - eapply tok_ko; [lookup|exact Hend|]. intros c r E. discriminate E.
  - intros c r E. discriminate E.
  - exists n, f, evs, tree. cbn [Nat.add] in H1. auto.
Qed.

(** a whole grammar file *)
Theorem reader_file f : file_ok f ->
  exists n fo evs nodes,
    peg_ev pegpeg_d pegpeg_d_ptx (fshow f) penv n (EName pr_Grammar) 0 = Some (Succ (length (fshow f)) fo, evs) /\
    calls_of_forest (fshow f) fo = fcalls f /\
    frun nm ak (fcalls f) finit = Some {| back := nodes; pend := None; stk := []; pegn := None |} /\
    file_nodes nm ak f = Some nodes.
Proof.
  intros Hok.
  destruct (grammar_ok (fshow f) penv f (0%nat, 0%nat) Hok eq_refl) as (t' & evs' & (fo & (n & evs & Hev) & Htr) & Hc).
  destruct (file_calls_build nm ak f Hok) as (nodes & Hn & Hr).
  exists n, fo, evs, nodes. split; [exact Hev|]. split; [|split; assumption].
  unfold calls_of_forest. rewrite Htr. exact Hc.
Qed.

End Top.

(** non-vacuity: a written expression with every kind of construct is well formed *)
Definition sample : cx :=
  XAlt (XSeq [XName [97] [32]; XSuf 42 (XLit false [KRaw 120; KEsc 110; KHex 120 [52; 49]] []) [32];
              XPre 33 [] (XClass false true [IRange (KRaw 97) (KRaw 122); IChar (KOct [49; 50])] [32]);
              XPush [] (XAlt (XDot []) [([32], XAct [120; 123; 125] [])] None) [32];
              XPredA 38 [] [116] [9]; XGroup [] XEmpty []])
       [([32; 35; 99; 10], XLit true [KRaw 65] [])] (Some [10]).

Lemma sample_wf : wf sample.
Proof.
  unfold sample.
  repeat first
    [ progress (cbn [lvl length app show fst snd])
    | match goal with
      | |- wf _ => constructor
      | |- Forall _ (_ :: _) => constructor
      | |- Forall _ [] => constructor
      | |- _ /\ _ => split
      | |- lay [] => constructor
      | |- lay (35 :: _) => apply (lay_hash [99] 10 [])
      | |- lay (_ :: _) => apply lay_sp; [lia|]
      | |- nolb _ => repeat constructor; lia
      | |- is_lb _ => unfold is_lb; lia
      | |- bal [] => constructor
      | |- bal (123 :: _) => apply (bal_nest [] [])
      | |- bal (_ :: _) => apply bal_char; [lia|lia|]
      | |- is_sufop _ => unfold is_sufop; lia
      | |- is_preop _ => unfold is_preop; lia
      | |- (_ <= _)%nat => lia
      | |- _ = true => reflexivity
      | |- _ = 0%nat => reflexivity
      | |- head_ne _ _ => let E := fresh in intros ? ? E; inversion E; subst; lia
      | |- adj _ => cbn [adj glue]
      | |- Some _ = Some _ -> _ => let E := fresh in intro E; inversion E; subst
      | |- _ -> _ => let E := fresh in intro E; try discriminate E
      | |- forall _, _ => intro
      | |- True => exact I
      | |- _ \/ _ => left; discriminate
      end ].
Qed.

(** ... and a whole file:  # c (newline) package p (newline) import x "a/b" (newline) import ( (newline) "c" (newline) ) (newline)
    type T Peg { n int } (newline) a <- [sample]   b (U+2190) 'y' (newline) *)
Definition sample_file : cfile :=
  {| f_header := [HCmt false [32; 99] [10]; HSp [10]];
     f_s_pkg := [32]; f_pkg := [112]; f_s1 := [10];
     f_imports := [ISingle [32] {| in_alias := Some ([120], [32]); in_path := [97; 47; 98] |} [10];
                   IMulti [32] [10] [({| in_alias := None; in_path := [99] |}, [])] [10]];
     f_s_type := [32]; f_peg := [84]; f_s2 := [32]; f_s3 := [32]; f_state := [32; 110; 32; 105; 110; 116; 32]; f_s4 := [10];
     f_defs := [{| d_name := [97]; d_s1 := [32]; d_uni := false; d_s2 := [32]; d_body := sample |};
                {| d_name := [98]; d_s1 := [32]; d_uni := true; d_s2 := [32]; d_body := XLit false [KRaw 121] [10] |}] |}.

Lemma sample_file_ok : file_ok sample_file.
Proof.
  unfold file_ok, sample_file. cbn [f_header f_s_pkg f_pkg f_s1 f_imports f_s_type f_peg f_s2 f_s3 f_state f_s4 f_defs].
  repeat first
    [ progress (cbn [header_ok hitem_ok imp_ok iname_ok defs_ok def_ok d_name d_s1 d_s2 d_body in_alias in_path fst snd flat_map hshow app glue sample])
    | exact sample_wf
    | progress (unfold iname_ok, def_ok)
    | match goal with
      | |- wf _ => constructor
      | |- Forall _ (_ :: _) => constructor
      | |- Forall _ [] => constructor
      | |- _ /\ _ => split
      | |- lay [] => constructor
      | |- lay (_ :: _) => apply lay_sp; [lia|]
      | |- nolb _ => repeat constructor; lia
      | |- is_eol _ => unfold is_eol; auto
      | |- bal [] => constructor
      | |- bal (_ :: _) => apply bal_char; [lia|lia|]
      | |- _ = true => reflexivity
      | |- _ = false => reflexivity
      | |- _ <> [] => discriminate
      | |- head_ne _ _ => let E := fresh in intros ? ? E; inversion E; subst; lia
      | |- _ -> _ => let E := fresh in intro E; try discriminate E; try (inversion E; subst; clear E)
      | |- forall _, _ => intro
      | |- True => exact I
      end ].
Qed.
