(** Well-formedness as a computation: [wfb e = true] implies [wf e], so the hypothesis of the reader
    theorems can be checked by evaluation (and is, for every expression the correspondence run prints). *)
From PegV Require Import Base.Tac Base.ListX Spec.Syntax Model.Calls Reader.Base Reader.Lex Reader.Chars Reader.Lits Reader.Expr.
Local Open Scope Z_scope.

Lemma layb_sound_n n : forall s, (length s <= n)%nat ->
  (layb_c false s = true -> lay s) /\
  (layb_c true s = true -> exists body e s', s = body ++ e :: s' /\ nolb body /\ is_lb e /\ lay s').
Proof.
  induction n as [|n IH]; intros s Ln.
  - destruct s; [|cbn in Ln; lia]. split; [intros _; constructor|cbn; discriminate].
  - destruct s as [|c r]; [split; [intros _; constructor|cbn; discriminate]|]. cbn [length] in Ln.
    destruct (IH r ltac:(lia)) as [IHf IHt]. split; cbn [layb_c].
    + destruct ((c =? 32) || (c =? 9) || (c =? 10) || (c =? 13))%bool eqn:Esp.
      * intros H. apply lay_sp; [lia|apply IHf; exact H].
      * destruct (Z.eqb_spec c 35) as [->|N35].
        -- intros H. destruct (IHt H) as (body & e & s' & -> & Hb & He & Hl). apply lay_hash; assumption.
        -- destruct (Z.eqb_spec c 47) as [->|N47]; [|discriminate].
           destruct r as [|d r']; [discriminate|]. destruct (Z.eqb_spec d 47) as [->|Nd]; [|discriminate].
           intros H. destruct (IH r' ltac:(cbn [length] in Ln; lia)) as [_ IHt'].
           destruct (IHt' H) as (body & e & s' & -> & Hb & He & Hl). apply lay_slashes; assumption.
    + destruct ((c =? 10) || (c =? 13))%bool eqn:Elb.
      * intros H. exists [], c, r. split; [reflexivity|]. split; [constructor|]. split; [unfold is_lb; lia|apply IHf; exact H].
      * intros H. destruct (IHt H) as (body & e & s' & -> & Hb & He & Hl).
        exists (c :: body), e, s'. split; [reflexivity|]. split; [constructor; [lia|exact Hb]|]. split; assumption.
Qed.
Lemma layb_sound s : layb s = true -> lay s.
Proof. intros H. exact (proj1 (layb_sound_n _ s (le_n _)) H). Qed.

Fixpoint bal_open (d : nat) (s : list rune) : Prop :=
  match d with
  | O => bal s
  | S d' => exists a s', s = a ++ 125 :: s' /\ bal a /\ bal_open d' s'
  end.
Lemma balb_open s : forall d, balb d s = true -> bal_open d s.
Proof.
  induction s as [|c r IH]; intros d H; cbn [balb] in H.
  - destruct d; [constructor|discriminate].
  - destruct (Z.eqb_spec c 123) as [->|N1].
    + destruct (IH _ H) as (a & s' & -> & Ha & Hs'). destruct d as [|d']; cbn [bal_open] in *.
      * apply bal_nest; assumption.
      * destruct Hs' as (a3 & s3 & -> & Ha3 & Hs3). exists (123 :: a ++ 125 :: a3), s3.
        split; [cbn [app]; rewrite <- app_assoc; reflexivity|]. split; [apply bal_nest; assumption|exact Hs3].
    + destruct (Z.eqb_spec c 125) as [->|N2].
      * destruct d as [|d']; [discriminate|]. exists [], r. split; [reflexivity|]. split; [constructor|apply IH; exact H].
      * specialize (IH _ H). destruct d as [|d']; cbn [bal_open] in *.
        -- apply bal_char; assumption.
        -- destruct IH as (a & s' & -> & Ha & Hs'). exists (c :: a), s'. split; [reflexivity|]. split; [apply bal_char; assumption|exact Hs'].
Qed.
Lemma balb_sound s : balb 0 s = true -> bal s.
Proof. apply (balb_open s 0). Qed.

Lemma head_is_ne c s : head_is c s = false -> head_ne c s.
Proof. intros H c' r ->. cbn [head_is] in H. lia. Qed.
Lemma adjb_sound l : adjb l = true -> adj l.
Proof.
  induction l as [|x l IH]; [intros; exact I|]. destruct l as [|y l']; [intros; exact I|].
  cbn [adjb adj]. intros H. apply andb_true_iff in H. destruct H as [H1 H2]. split; [|apply IH; exact H2].
  intros Hg. rewrite Hg in H1. cbn [implb] in H1. apply negb_true_iff in H1. intros c r E. rewrite E in H1. exact H1.
Qed.

Theorem wfb_sound n : forall e, (size e <= n)%nat -> wfb e = true -> wf e.
Proof.
  induction n as [|n IH]; intros e Hn H; [destruct e; cbn in Hn; lia|].
  destruct e as [s|id s|a s|dbl ks s|dbl neg items s|s1 x s2|s1 x s2|op x s|op s x|op s1 a s2|l|e1 l trail|];
    cbn [wfb size] in *; repeat (apply andb_true_iff in H; destruct H as [H ?]).
  - constructor. apply layb_sound; exact H.
  - constructor; [exact H|apply layb_sound; assumption].
  - constructor; [apply balb_sound; exact H|apply layb_sound; assumption].
  - constructor; [exact H|apply layb_sound; assumption].
  - constructor; [exact H|assumption| |apply layb_sound; assumption].
    intros ->. match goal with X : (negb true || _)%bool = true |- _ => exact X end.
  - constructor; [apply layb_sound; exact H|apply IH; [lia|assumption]|apply layb_sound; assumption].
  - constructor; [apply layb_sound; exact H|apply IH; [lia|assumption]|apply layb_sound; assumption].
  - constructor; [unfold sufopb in H; unfold is_sufop; lia|apply Nat.eqb_eq; assumption|apply IH; [lia|assumption]|apply layb_sound; assumption].
  - constructor; [unfold preopb in H; unfold is_preop; lia|apply layb_sound; assumption|apply Nat.leb_le; assumption|apply IH; [lia|assumption]|].
    apply head_is_ne. apply negb_true_iff. assumption.
  - constructor; [unfold preopb in H; unfold is_preop; lia|apply layb_sound; assumption|apply balb_sound; assumption|apply layb_sound; assumption].
  - constructor; [apply Nat.leb_le; exact H| |apply adjb_sound; assumption].
    apply Forall_forall. intros y Hy. match goal with F : forallb _ l = true |- _ => pose proof (proj1 (forallb_forall _ _) F y Hy) as Hf end.
    apply andb_true_iff in Hf. destruct Hf as [Hl Hw]. split; [apply Nat.leb_le; exact Hl|].
    apply IH; [pose proof (size_in_seq y l Hy); cbn [size] in *; lia|exact Hw].
  - match goal with F : forallb _ l = true |- _ => rename F into Hall end.
    constructor.
    + apply Nat.leb_le; exact H.
    + apply IH; [lia|assumption].
    + apply Forall_forall. intros sx Hin. pose proof (proj1 (forallb_forall _ _) Hall sx Hin) as Hf.
      repeat (apply andb_true_iff in Hf; destruct Hf as [Hf ?]).
      split; [apply layb_sound; exact Hf|]. split; [apply head_is_ne; apply negb_true_iff; assumption|].
      split; [apply Nat.leb_le; assumption|]. apply IH; [pose proof (size_in_alt e1 sx l trail Hin); cbn [size] in *; lia|assumption].
    + intros s ->. match goal with T : (layb s && _)%bool = true |- _ => apply andb_true_iff in T; destruct T as [T1 T2] end.
      split; [apply layb_sound; exact T1|apply head_is_ne; apply negb_true_iff; exact T2].
    + match goal with O : (_ || _)%bool = true |- _ => apply orb_true_iff in O; destruct O as [O|O] end.
      * left. destruct l; [discriminate|discriminate].
      * right. destruct trail; [discriminate|discriminate].
  - constructor.
Qed.
Corollary wfb_wf e : wfb e = true -> wf e.
Proof. apply (wfb_sound _ e (le_n _)). Qed.
