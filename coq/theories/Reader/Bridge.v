(** From the calls the reader makes to the tree the builder makes: the calls of a written expression are the
    builder calls Model/Front.v lists for the expression it denotes ([erase]), so the builder leaves exactly
    that expression's tree on its stack. *)
From PegV Require Import Base.Tac Base.ListX Spec.Syntax Model.Calls Model.Front Proofs.FrontProofs
  Reader.Base Reader.Lex Reader.Chars Reader.Lits Reader.Expr.
From PegV Require Export Reader.BridgeDefs.
Local Open Scope Z_scope.

Section Bridge.
Variable nm : list rune -> nat.          (* the number a rule name stands for in the model *)
Variable ak : list rune -> nat.          (* the number of an action / predicate text *)
Notation erase := (BridgeDefs.erase nm ak).
Notation bop_of := (BridgeDefs.bop_of nm ak).
Notation bops := (BridgeDefs.bops nm ak).
Notation build := (BridgeDefs.build nm ak).


Lemma bops_app a b : bops (a ++ b) = bops a ++ bops b.
Proof. apply map_app. Qed.
Lemma somes_app a b : somes (a ++ b) = somes a ++ somes b.
Proof. apply map_app. Qed.

Lemma esc_not_letter c : is_esc c = true -> is_letter (esc_val c) = false.
Proof.
  unfold is_esc. cbn [existsb esc_table fst]. intros H.
  repeat match type of H with
  | (?x =? c) || _ = true => destruct (Z.eqb_spec x c) as [E|?]; [subst c; reflexivity|cbn [orb] in H]
  end. discriminate.
Qed.
Lemma alpha_letter c : is_alpha c = is_letter c.
Proof. unfold is_alpha, is_letter. apply orb_comm. Qed.

Lemma kcall_char k : kvalid k = true -> bops [kcall false k] = somes (char_ops (sch k)).
Proof. destruct k; reflexivity. Qed.
Lemma kcall_dchar k : kvalid k = true -> bops [kcall true k] = somes (dchar_ops (sch k)).
Proof.
  destruct k as [c|c|x ds|ds]; cbn [kvalid kcall sch dchar_ops char_ops andb]; intros Hv; try reflexivity.
  - rewrite alpha_letter. destruct (is_letter c); reflexivity.
  - rewrite (esc_not_letter _ Hv). reflexivity.
Qed.

(** chains: first part, then (part, operator) for the others *)
Lemma chain_bridge {A} (ca : A -> list call) (oa : A -> list bop) (sepc : call) (op : bop) (l : list A) :
  bop_of sepc = Some op -> Forall (fun a => bops (ca a) = somes (oa a)) l ->
  bops (match l with [] => [] | a :: l' => ca a ++ flat_map (fun a => ca a ++ [sepc]) l' end) = somes (chain_ops op (map oa l)).
Proof.
  intros Hs Hall. destruct l as [|a l]; [reflexivity|]. cbn [map chain_ops].
  inversion Hall as [|? ? Ha Hl]; subst. rewrite bops_app, somes_app, Ha. f_equal. clear Ha Hall.
  induction l as [|b l IH]; [reflexivity|]. inversion Hl as [|? ? Hb Hl']; subst.
  cbn [flat_map map]. rewrite !bops_app, !somes_app, Hb, (IH Hl'). cbn [bops somes map]. rewrite Hs. reflexivity.
Qed.

Lemma items_valid {A} (show : A -> list rune) (okb : A -> list rune -> bool) (P : A -> Prop) :
  (forall a r, okb a r = true -> P a) -> forall l after, items_ok A show okb l after = true -> Forall P l.
Proof.
  intros H l. induction l as [|a l IH]; intros after Hok; [constructor|]. cbn [items_ok] in Hok.
  apply andb_true_iff in Hok. destruct Hok as [Ha Hl]. constructor; [eapply H; exact Ha|eapply IH; exact Hl].
Qed.
Lemma lit_item_valid q k r : lit_item_ok q k r = true -> kvalid k = true.
Proof. unfold lit_item_ok. intros H. apply andb_true_iff in H. destruct H as [H _]. apply andb_true_iff in H. tauto. Qed.
Lemma item_valid i r : item_okb i r = true ->
  match i with IChar k => kvalid k = true | IRange lo hi => kvalid lo = true /\ kvalid hi = true end.
Proof.
  destruct i as [k|lo hi]; cbn [item_okb]; intros H; repeat (apply andb_true_iff in H; destruct H as [H ?]); auto.
Qed.

Lemma lit_bridge dbl ks after : chars_ok (quote_of dbl) ks after = true ->
  bops (lit_calls dbl ks) = somes (ops_of (if dbl then Front.XILit (map sch ks) else Front.XLit (map sch ks))).
Proof.
  intros Hok. pose proof (items_valid _ _ (fun k => kvalid k = true) (lit_item_valid (quote_of dbl)) _ _ Hok) as Hv.
  destruct ks as [|k ks]; [destruct dbl; reflexivity|].
  assert (E : lit_calls dbl (k :: ks) = match (k :: ks) with [] => [] | a :: l' => [kcall dbl a] ++ flat_map (fun a => [kcall dbl a] ++ [(CAddSequence, [])]) l' end) by reflexivity.
  rewrite E. destruct dbl.
  - change (ops_of (Front.XILit (map sch (k :: ks)))) with (chain_ops BSequence (map dchar_ops (map sch (k :: ks)))). rewrite map_map.
    apply (chain_bridge (fun a => [kcall true a]) (fun x => dchar_ops (sch x)) (CAddSequence, []) BSequence (k :: ks)); [reflexivity|].
    eapply Forall_impl; [|exact Hv]. intros a Ha. apply kcall_dchar. exact Ha.
  - change (ops_of (Front.XLit (map sch (k :: ks)))) with (chain_ops BSequence (map char_ops (map sch (k :: ks)))). rewrite map_map.
    apply (chain_bridge (fun a => [kcall false a]) (fun x => char_ops (sch x)) (CAddSequence, []) BSequence (k :: ks)); [reflexivity|].
    eapply Forall_impl; [|exact Hv]. intros a Ha. apply kcall_char. exact Ha.
Qed.

Lemma icalls_bridge dbl i : match i with IChar k => kvalid k = true | IRange lo hi => kvalid lo = true /\ kvalid hi = true end ->
  bops (icalls dbl i) = somes (item_ops dbl (sitem i)).
Proof.
  destruct i as [k|lo hi]; cbn [icalls sitem item_ops].
  - intros Hv. destruct dbl; [apply kcall_dchar|apply kcall_char]; exact Hv.
  - intros [Hl Hh]. change [kcall false lo; kcall false hi; (if dbl then CAddDoubleRange else CAddRange, [])]
      with ([kcall false lo] ++ [kcall false hi] ++ [(if dbl then CAddDoubleRange else CAddRange, [])]).
    rewrite !bops_app, !somes_app, (kcall_char lo Hl), (kcall_char hi Hh). destruct dbl; reflexivity.
Qed.

Lemma class_bridge dbl neg items after : class_wf dbl neg items = true -> citems_ok items after = true ->
  bops (class_calls dbl neg items) = somes (ops_of (Front.XClass neg dbl (map sitem items))).
Proof.
  intros Hwf Hok.
  pose proof (items_valid _ _ _ item_valid _ _ Hok) as Hv.
  destruct items as [|i items].
  - cbn [class_wf] in Hwf. apply negb_true_iff in Hwf. subst neg. reflexivity.
  - cbn [class_calls].
    assert (E : ops_of (Front.XClass neg dbl (map sitem (i :: items))) =
                chain_ops BAlternate (map (item_ops dbl) (map sitem (i :: items))) ++ (if neg then [BPeekNot; BDot; BSequence] else [])).
    { cbn [map]. destruct neg; reflexivity. }
    rewrite E, bops_app, somes_app. f_equal; [|destruct neg; reflexivity].
    rewrite map_map. unfold chain_calls.
    apply (chain_bridge (icalls dbl) (fun x => item_ops dbl (sitem x)) (CAddAlternate, []) BAlternate (i :: items)); [reflexivity|].
    eapply Forall_impl; [|exact Hv]. intros a Ha. apply icalls_bridge. exact Ha.
Qed.

Theorem calls_are_builder_ops n : forall e, (size e <= n)%nat -> wf e -> bops (xcalls e) = somes (ops_of (erase e)).
Proof.
  induction n as [|n IH]; intros e Hn Hw; [destruct e; cbn in Hn; lia|].
  destruct e as [s|id s|a s|dbl ks s|dbl neg items s|s1 x s2|s1 x s2|op x s|op s x|op s1 a s2|l|e1 l trail|];
    cbn [xcalls erase size] in *.
  - reflexivity.
  - reflexivity.
  - reflexivity.
  - inversion Hw as [| | |? ? ? Hk Hs| | | | | | | | |]; subst. eapply lit_bridge. exact Hk.
  - inversion Hw as [| | | |? ? ? ? Hcw Hci Hra Hs| | | | | | | |]; subst. eapply class_bridge; eassumption.
  - inversion Hw as [| | | | |? ? ? Hs1 Hwx Hs2| | | | | | |]; subst. apply IH; [lia|exact Hwx].
  - inversion Hw as [| | | | | |? ? ? Hs1 Hwx Hs2| | | | | |]; subst.
    rewrite bops_app, (IH x ltac:(lia) Hwx). cbn [ops_of]. rewrite somes_app. reflexivity.
  - inversion Hw as [| | | | | | |? ? ? Hop Hlx Hwx Hs| | | | |]; subst.
    rewrite bops_app, (IH x ltac:(lia) Hwx). destruct Hop as [-> | [-> | ->]]; cbn [Z.eqb Pos.eqb ops_of suf_call]; rewrite somes_app; reflexivity.
  - inversion Hw as [| | | | | | | |? ? ? Hop Hs Hlx Hwx Hh| | | |]; subst.
    rewrite bops_app, (IH x ltac:(lia) Hwx). destruct Hop as [-> | ->]; cbn [Z.eqb Pos.eqb ops_of pre_call]; rewrite somes_app; reflexivity.
  - inversion Hw as [| | | | | | | | |? ? ? ? Hop Hs1 Hb Hs2| | |]; subst. destruct Hop as [-> | ->]; reflexivity.
  - inversion Hw as [| | | | | | | | | |? Hlen Hall Hadj| |]; subst.
    change (ops_of (Front.XSeq (map erase l))) with (chain_ops BSequence (map ops_of (map erase l))). rewrite map_map.
    apply (chain_bridge xcalls (fun y => ops_of (erase y)) (CAddSequence, []) BSequence l); [reflexivity|].
    apply Forall_forall. intros y Hy. rewrite Forall_forall in Hall. apply IH; [pose proof (size_in_seq y l Hy); cbn [size] in *; lia|apply Hall; exact Hy].
  - inversion Hw as [| | | | | | | | | | |? ? ? Hl1 Hw1 Hall Htr Hne|]; subst.
    change (ops_of (Front.XAlt (erase e1 :: map (fun sx : list rune * cx => erase (snd sx)) l) (match trail with Some _ => true | None => false end)))
      with (chain_ops BAlternate (map ops_of (erase e1 :: map (fun sx : list rune * cx => erase (snd sx)) l)) ++
            (if (match trail with Some _ => true | None => false end) then [BNil; BAlternate] else [])).
    rewrite app_assoc, bops_app, somes_app. f_equal; [|destruct trail; reflexivity].
    pose proof (chain_bridge (fun y : cx => xcalls y) (fun y => ops_of (erase y)) (CAddAlternate, []) BAlternate (e1 :: map snd l) eq_refl) as Hc.
    cbn [map] in Hc. rewrite map_map in Hc. rewrite flat_map_concat_map, map_map, <- flat_map_concat_map in Hc.
    cbn [map]. rewrite map_map. apply Hc. constructor; [apply IH; [lia|exact Hw1]|].
    apply Forall_forall. intros y Hy. apply in_map_iff in Hy. destruct Hy as (sx & <- & Hin).
    rewrite Forall_forall in Hall. apply IH; [pose proof (size_in_alt e1 sx l trail Hin); cbn [size] in *; lia|apply Hall; exact Hin].
  - reflexivity.
Qed.

Lemma erase_ok n : forall e, (size e <= n)%nat -> wf e -> sx_ok (erase e) = true.
Proof.
  induction n as [|n IH]; intros e Hn Hw; [destruct e; cbn in Hn; lia|].
  destruct e as [s|id s|a s|dbl ks s|dbl neg items s|s1 x s2|s1 x s2|op x s|op s x|op s1 a s2|l|e1 l trail|];
    cbn [erase size] in *; try reflexivity.
  - destruct dbl; reflexivity.
  - inversion Hw as [| | | |? ? ? ? Hcw Hci Hra Hs| | | | | | | |]; subst. cbn [sx_ok].
    destruct items as [|i items]; [cbn [class_wf] in Hcw; apply negb_true_iff in Hcw; subst neg; reflexivity|].
    cbn [map]. rewrite andb_false_r. reflexivity.
  - inversion Hw as [| | | | |? ? ? Hs1 Hwx Hs2| | | | | | |]; subst. cbn [sx_ok]. apply IH; [lia|exact Hwx].
  - inversion Hw as [| | | | | |? ? ? Hs1 Hwx Hs2| | | | | |]; subst. cbn [sx_ok]. apply IH; [lia|exact Hwx].
  - inversion Hw as [| | | | | | |? ? ? Hop Hlx Hwx Hs| | | | |]; subst.
    destruct Hop as [-> | [-> | ->]]; cbn [Z.eqb Pos.eqb sx_ok]; (apply IH; [lia|exact Hwx]).
  - inversion Hw as [| | | | | | | |? ? ? Hop Hs Hlx Hwx Hh| | | |]; subst.
    destruct Hop as [-> | ->]; cbn [Z.eqb Pos.eqb sx_ok]; (apply IH; [lia|exact Hwx]).
  - destruct (op =? 38); reflexivity.
  - inversion Hw as [| | | | | | | | | |? Hlen Hall Hadj| |]; subst. cbn [sx_ok].
    destruct l as [|x l]; [cbn in Hlen; lia|]. change (map erase (x :: l)) with (erase x :: map erase l) at 1. cbn [negb andb].
    apply forallb_forall. intros y Hy. apply in_map_iff in Hy. destruct Hy as (z & <- & Hz). rewrite Forall_forall in Hall.
    apply IH; [pose proof (size_in_seq z _ Hz); cbn [size] in *; lia|apply Hall; exact Hz].
  - inversion Hw as [| | | | | | | | | | |? ? ? Hl1 Hw1 Hall Htr Hne|]; subst. cbn [sx_ok negb andb forallb].
    rewrite (IH e1 ltac:(lia) Hw1). cbn [andb]. apply forallb_forall. intros y Hy.
    apply in_map_iff in Hy. destruct Hy as (sx & <- & Hin). rewrite Forall_forall in Hall.
    apply IH; [pose proof (size_in_alt e1 sx l trail Hin); cbn [size] in *; lia|apply Hall; exact Hin].
Qed.

Lemma all_some_somes {A} (l : list A) : all_some (map Some l) = Some l.
Proof. induction l as [|a l IH]; [reflexivity|]. cbn [map all_some]. rewrite IH. reflexivity. Qed.
Theorem calls_build_the_tree e : wf e ->
  exists tree, elab (erase e) = Some tree /\ forall stk, build (xcalls e) stk = Some (tree :: stk).
Proof.
  intros Hw. pose proof (erase_ok _ e (le_n _) Hw) as Hok.
  destruct (builder_stack_discipline _ Hok) as [tree Ht].
  exists tree. split.
  - unfold elab. rewrite (Ht []). reflexivity.
  - intros stk. unfold build. rewrite (calls_are_builder_ops _ e (le_n _) Hw). unfold somes. rewrite all_some_somes. apply Ht.
Qed.

End Bridge.
